// lzrs: runs case files against the real lzma-rs crate (path dependency on /repo)
// and prints one canonical result line per case, in the format of ocaml/driver.ml.
use lzma_rs::decompress::raw::{Lzma2Decoder, LzmaDecoder, LzmaParams, LzmaProperties};
use lzma_rs::decompress::{Options, Stream, UnpackedSize};
use std::alloc::{GlobalAlloc, Layout, System};
use std::cell::RefCell;
use std::collections::HashMap;
use std::io::{self, BufRead, BufReader, Cursor, Read, Write};
use std::panic::{catch_unwind, AssertUnwindSafe};
use std::rc::Rc;
use std::sync::atomic::{AtomicUsize, Ordering};
use std::sync::mpsc;
use std::time::Duration;

// ---------- counting allocator ----------
struct Counting;
static LIVE: AtomicUsize = AtomicUsize::new(0);
static PEAK: AtomicUsize = AtomicUsize::new(0);
unsafe impl GlobalAlloc for Counting {
    unsafe fn alloc(&self, l: Layout) -> *mut u8 {
        let p = System.alloc(l);
        if !p.is_null() {
            let now = LIVE.fetch_add(l.size(), Ordering::Relaxed) + l.size();
            PEAK.fetch_max(now, Ordering::Relaxed);
        }
        p
    }
    unsafe fn dealloc(&self, p: *mut u8, l: Layout) {
        System.dealloc(p, l);
        LIVE.fetch_sub(l.size(), Ordering::Relaxed);
    }
    unsafe fn realloc(&self, p: *mut u8, l: Layout, new: usize) -> *mut u8 {
        let q = System.realloc(p, l, new);
        if !q.is_null() {
            if new >= l.size() {
                let now = LIVE.fetch_add(new - l.size(), Ordering::Relaxed) + (new - l.size());
                PEAK.fetch_max(now, Ordering::Relaxed);
            } else {
                LIVE.fetch_sub(l.size() - new, Ordering::Relaxed);
            }
        }
        q
    }
}
#[global_allocator]
static A: Counting = Counting;

// ---------- kind of the injected I/O errors (ekind=other|eof|wouldblock|invalid|pipe|interrupted); the model knows only "an I/O error" ----------
static FAULT_KIND: std::sync::atomic::AtomicU8 = std::sync::atomic::AtomicU8::new(0);
fn fault_kind() -> io::ErrorKind {
    match FAULT_KIND.load(Ordering::Relaxed) {
        1 => io::ErrorKind::UnexpectedEof,
        2 => io::ErrorKind::WouldBlock,
        3 => io::ErrorKind::InvalidData,
        4 => io::ErrorKind::BrokenPipe,
        5 => io::ErrorKind::Interrupted,
        _ => io::ErrorKind::Other,
    }
}
// fault at the END-OF-INPUT probe (efail=1): the fill_buf call made when all data has been consumed fails once.  The model's
// source does not count that call as a refill, so this experiment is judged by its own oracle (ef=1 in the result line says
// that the fault was actually delivered).
static EOF_FAULT_ARMED: std::sync::atomic::AtomicBool = std::sync::atomic::AtomicBool::new(false);
static EOF_FAULT_FIRED: std::sync::atomic::AtomicBool = std::sync::atomic::AtomicBool::new(false);
fn set_fault_kind(name: &str) {
    FAULT_KIND.store(match name { "eof" => 1, "wouldblock" => 2, "invalid" => 3, "pipe" => 4, "interrupted" => 5, _ => 0 }, Ordering::Relaxed);
}

// ---------- fragmenting, failing reader (the model's `src`) ----------
struct FragReader {
    data: Vec<u8>,
    pos: usize,
    avail: usize,
    refills: u64,
    sizes: Vec<u64>,
    fail_at: Option<u64>,
}
impl FragReader {
    fn new(data: Vec<u8>, sizes: Vec<u64>, fail_at: Option<u64>) -> Self {
        FragReader { data, pos: 0, avail: 0, refills: 0, sizes, fail_at }
    }
}
impl BufRead for FragReader {
    fn fill_buf(&mut self) -> io::Result<&[u8]> {
        if self.avail == 0 && self.pos >= self.data.len() && EOF_FAULT_ARMED.swap(false, Ordering::Relaxed) {
            EOF_FAULT_FIRED.store(true, Ordering::Relaxed);
            return Err(io::Error::new(fault_kind(), "injected fault at the end-of-input probe"));
        }
        if self.avail == 0 && self.pos < self.data.len() {
            let k = self.refills;
            self.refills += 1;
            if self.fail_at == Some(k) {
                return Err(io::Error::new(fault_kind(), "injected read fault"));
            }
            let want = if self.sizes.is_empty() { u64::MAX } else { self.sizes[(k % self.sizes.len() as u64) as usize] };
            let want = std::cmp::max(1, want);
            let left = (self.data.len() - self.pos) as u64;
            self.avail = std::cmp::min(want, left) as usize;
        }
        Ok(&self.data[self.pos..self.pos + self.avail])
    }
    fn consume(&mut self, n: usize) {
        self.pos += n;
        self.avail -= n;
    }
}
impl Read for FragReader {
    fn read(&mut self, buf: &mut [u8]) -> io::Result<usize> {
        if buf.is_empty() {
            return Ok(0);
        }
        let n = {
            let vis = self.fill_buf()?;
            let n = std::cmp::min(vis.len(), buf.len());
            buf[..n].copy_from_slice(&vis[..n]);
            n
        };
        self.consume(n);
        Ok(n)
    }
}

// ---------- short-writing, failing sink (the model's `snk`) ----------
struct SinkState {
    out: Vec<u8>,
    calls: u64,
    sizes: Vec<u64>,
    wfail: Option<u64>,
    flushes: u64,
    ffail: bool,
}
#[derive(Clone)]
struct SharedSink(Rc<RefCell<SinkState>>);
impl SharedSink {
    fn new(sizes: Vec<u64>, wfail: Option<u64>, ffail: bool) -> Self {
        SharedSink(Rc::new(RefCell::new(SinkState { out: Vec::new(), calls: 0, sizes, wfail, flushes: 0, ffail })))
    }
}
impl Write for SharedSink {
    fn write(&mut self, buf: &[u8]) -> io::Result<usize> {
        let mut s = self.0.borrow_mut();
        if buf.is_empty() {
            return Ok(0);
        }
        let k = s.calls;
        s.calls += 1;
        if s.wfail == Some(k) {
            return Err(io::Error::new(fault_kind(), "injected write fault"));
        }
        let lim = if s.sizes.is_empty() { u64::MAX } else { s.sizes[(k % s.sizes.len() as u64) as usize] };
        let n = std::cmp::min(buf.len() as u64, std::cmp::max(1, lim)) as usize;
        s.out.extend_from_slice(&buf[..n]);
        Ok(n)
    }
    fn flush(&mut self) -> io::Result<()> {
        let mut s = self.0.borrow_mut();
        if s.ffail {
            return Err(io::Error::new(fault_kind(), "injected flush fault"));
        }
        s.flushes += 1;
        Ok(())
    }
}

// ---------- parsing ----------
fn unhex(s: &str) -> Vec<u8> {
    if s == "-" {
        return Vec::new();
    }
    let b = s.as_bytes();
    let v = |c: u8| -> u8 {
        match c {
            b'0'..=b'9' => c - b'0',
            b'a'..=b'f' => c - b'a' + 10,
            b'A'..=b'F' => c - b'A' + 10,
            _ => panic!("bad hex"),
        }
    };
    (0..b.len() / 2).map(|i| v(b[2 * i]) * 16 + v(b[2 * i + 1])).collect()
}
fn hex(b: &[u8]) -> String {
    if b.is_empty() {
        return "-".to_string();
    }
    let mut s = String::with_capacity(b.len() * 2);
    for x in b {
        s.push_str(&format!("{:02x}", x));
    }
    s
}
fn kv(toks: &[&str]) -> HashMap<String, String> {
    let mut m = HashMap::new();
    for t in toks {
        if let Some(i) = t.find('=') {
            m.insert(t[..i].to_string(), t[i + 1..].to_string());
        }
    }
    m
}
fn get<'a>(m: &'a HashMap<String, String>, k: &str, d: &'a str) -> &'a str {
    m.get(k).map(|s| s.as_str()).unwrap_or(d)
}
fn opt_u64(s: &str) -> Option<u64> {
    if s == "none" {
        None
    } else {
        Some(s.parse().expect("number"))
    }
}
fn nlist(s: &str) -> Vec<u64> {
    if s == "all" || s.is_empty() {
        Vec::new()
    } else {
        s.split(',').map(|x| x.parse().expect("number")).collect()
    }
}
fn unpacked_of(s: &str) -> UnpackedSize {
    let p: Vec<&str> = s.split(':').collect();
    match p.as_slice() {
        ["rfh"] => UnpackedSize::ReadFromHeader,
        ["rhp", x] => UnpackedSize::ReadHeaderButUseProvided(opt_u64(x)),
        ["up", x] => UnpackedSize::UseProvided(opt_u64(x)),
        _ => panic!("bad opt"),
    }
}
fn options_of(m: &HashMap<String, String>) -> Options {
    Options {
        unpacked_size: unpacked_of(get(m, "opt", "rfh")),
        memlimit: opt_u64(get(m, "mem", "none")).map(|x| x as usize),
        allow_incomplete: get(m, "allow", "0") == "1",
    }
}
fn sink_of(m: &HashMap<String, String>) -> SharedSink {
    SharedSink::new(nlist(get(m, "wr", "all")), opt_u64(get(m, "wfail", "none")), get(m, "ffail", "0") == "1")
}

fn err_class(e: &lzma_rs::error::Error) -> &'static str {
    match e {
        lzma_rs::error::Error::IoError(_) => "io",
        lzma_rs::error::Error::HeaderTooShort(_) => "hts",
        lzma_rs::error::Error::LzmaError(_) => "lzma",
        lzma_rs::error::Error::XzError(_) => "xz",
    }
}

// a decoder / encoder entry point applied to one of the reader kinds; returns (verdict, why, consumed)
enum Rd {
    Frag(Vec<u64>, Option<u64>),
    Slice,
    Cursor,
    Buf(usize),
}
fn rd_of(m: &HashMap<String, String>) -> Rd {
    let rd = get(m, "rd", "all");
    if let Some(rest) = rd.strip_prefix("std:") {
        let p: Vec<&str> = rest.split(':').collect();
        match p.as_slice() {
            ["slice"] => Rd::Slice,
            ["cursor"] => Rd::Cursor,
            ["buf", c] => Rd::Buf(c.parse().unwrap()),
            _ => panic!("bad rd"),
        }
    } else {
        Rd::Frag(nlist(rd), opt_u64(get(m, "rfail", "none")))
    }
}

type R3 = (String, String, usize, u64);
fn with_reader<F>(rd: Rd, data: Vec<u8>, f: F) -> R3
where
    F: FnOnce(&mut dyn BufRead) -> Result<(), String>,
{
    let total = data.len();
    let run = |f: F, r: &mut dyn BufRead| -> (String, String) {
        match f(r) {
            Ok(()) => ("ok".to_string(), "-".to_string()),
            Err(c) => ("err".to_string(), c),
        }
    };
    match rd {
        Rd::Frag(sizes, fail) => {
            let mut r = FragReader::new(data, sizes, fail);
            let (v, w) = run(f, &mut r);
            (v, w, r.pos, r.refills)
        }
        Rd::Slice => {
            let mut s: &[u8] = &data[..];
            let (v, w) = run(f, &mut s);
            (v, w, total - s.len(), 0)
        }
        Rd::Cursor => {
            let mut c = Cursor::new(&data[..]);
            let (v, w) = run(f, &mut c);
            (v, w, c.position() as usize, 0)
        }
        Rd::Buf(cap) => {
            let mut b = BufReader::with_capacity(cap, &data[..]);
            let (v, w) = run(f, &mut b);
            let left = b.buffer().len() + b.get_ref().len();
            (v, w, total - left, 0)
        }
    }
}

fn finish_line(sink: &SharedSink, r: R3) -> String {
    let s = sink.0.borrow();
    format!("{} out={} pos={} fl={} why={} rc={} wc={}", r.0, hex(&s.out), r.2, s.flushes, r.1, r.3, s.calls)
}

fn run_case(line: &str) -> String {
    let toks: Vec<&str> = line.split(' ').filter(|t| !t.is_empty()).collect();
    if toks.is_empty() {
        return String::new();
    }
    let op = toks[0];
    let m = kv(&toks[1..]);
    set_fault_kind(get(&m, "ekind", "other"));
    EOF_FAULT_ARMED.store(get(&m, "efail", "0") == "1", Ordering::Relaxed);
    EOF_FAULT_FIRED.store(false, Ordering::Relaxed);
    let data = || unhex(get(&m, "in", "-"));
    match op {
        "lzma_dec" => {
            let sink = sink_of(&m);
            let opts = options_of(&m);
            let mut w = sink.clone();
            let r = with_reader(rd_of(&m), data(), |mut r| {
                lzma_rs::lzma_decompress_with_options(&mut r, &mut w, &opts).map_err(|e| err_class(&e).to_string())
            });
            finish_line(&sink, r)
        }
        "lzma2_dec" => {
            let sink = sink_of(&m);
            let mut w = sink.clone();
            let r = with_reader(rd_of(&m), data(), |mut r| {
                lzma_rs::lzma2_decompress(&mut r, &mut w).map_err(|e| err_class(&e).to_string())
            });
            finish_line(&sink, r)
        }
        "xz_dec" => {
            let sink = sink_of(&m);
            let mut w = sink.clone();
            let r = with_reader(rd_of(&m), data(), |mut r| {
                lzma_rs::xz_decompress(&mut r, &mut w).map_err(|e| err_class(&e).to_string())
            });
            finish_line(&sink, r)
        }
        "lzma_enc" => {
            let sink = sink_of(&m);
            let mut w = sink.clone();
            let o = get(&m, "opt", "wh:none");
            let p: Vec<&str> = o.split(':').collect();
            let us = match p.as_slice() {
                ["wh", x] => lzma_rs::compress::UnpackedSize::WriteToHeader(opt_u64(x)),
                ["skip"] => lzma_rs::compress::UnpackedSize::SkipWritingToHeader,
                _ => panic!("bad enc opt"),
            };
            let opts = lzma_rs::compress::Options { unpacked_size: us };
            let r = with_reader(rd_of(&m), data(), |mut r| {
                lzma_rs::lzma_compress_with_options(&mut r, &mut w, &opts).map_err(|_| "io".to_string())
            });
            finish_line(&sink, r)
        }
        "lzma2_enc" => {
            let sink = sink_of(&m);
            let mut w = sink.clone();
            let r = with_reader(rd_of(&m), data(), |mut r| lzma_rs::lzma2_compress(&mut r, &mut w).map_err(|_| "io".to_string()));
            finish_line(&sink, r)
        }
        "xz_enc" => {
            let sink = sink_of(&m);
            let mut w = sink.clone();
            let r = with_reader(rd_of(&m), data(), |mut r| lzma_rs::xz_compress(&mut r, &mut w).map_err(|_| "io".to_string()));
            finish_line(&sink, r)
        }
        "xz_enc_big" => {
            // xz_compress of n copies of one byte from a synthetic reader into a sink that keeps the total length and the last
            // 64 bytes only (inputs of 4 GiB and more: sizes that no in-memory case reaches)
            struct Rep(u64, [u8; 0x10000]);
            impl Read for Rep {
                fn read(&mut self, buf: &mut [u8]) -> io::Result<usize> {
                    let n = (buf.len() as u64).min(self.0).min(0x10000) as usize;
                    buf[..n].copy_from_slice(&self.1[..n]);
                    self.0 -= n as u64;
                    Ok(n)
                }
            }
            impl BufRead for Rep {
                fn fill_buf(&mut self) -> io::Result<&[u8]> {
                    let n = (self.1.len() as u64).min(self.0) as usize;
                    Ok(&self.1[..n])
                }
                fn consume(&mut self, amt: usize) {
                    self.0 -= amt as u64;
                }
            }
            struct Tail(u64, Vec<u8>);
            impl Write for Tail {
                fn write(&mut self, buf: &[u8]) -> io::Result<usize> {
                    self.0 += buf.len() as u64;
                    self.1.extend_from_slice(&buf[buf.len().saturating_sub(64)..]);
                    let cut = self.1.len().saturating_sub(64);
                    self.1.drain(..cut);
                    Ok(buf.len())
                }
                fn flush(&mut self) -> io::Result<()> {
                    Ok(())
                }
            }
            let n: u64 = get(&m, "n", "0").parse().unwrap();
            let b: u8 = get(&m, "byte", "0").parse().unwrap();
            let mut rd = Rep(n, [b; 0x10000]);
            let mut out = Tail(0, Vec::new());
            match lzma_rs::xz_compress(&mut rd, &mut out) {
                Ok(()) => format!("ok total={} tail={}", out.0, hex(&out.1)),
                Err(_) => "err total=0 tail=-".to_string(),
            }
        }
        "raw_lzma" | "raw_lzma2" => {
            let is2 = op == "raw_lzma2";
            let mut b = String::new();
            let mut dec1: Option<LzmaDecoder> = None;
            let mut dec2: Option<Lzma2Decoder> = None;
            if is2 {
                dec2 = Some(if get(&m, "ctor", "new") == "default" { Lzma2Decoder::default() } else { Lzma2Decoder::new() });
                b.push_str("new:ok");
            } else {
                let props = LzmaProperties {
                    lc: get(&m, "lc", "3").parse().unwrap(),
                    lp: get(&m, "lp", "0").parse().unwrap(),
                    pb: get(&m, "pb", "2").parse().unwrap(),
                };
                let params = LzmaParams::new(props, get(&m, "dict", "4096").parse().unwrap(), opt_u64(get(&m, "size", "none")));
                let mem = opt_u64(get(&m, "mem", "none")).map(|x| x as usize);
                match catch_unwind(AssertUnwindSafe(|| LzmaDecoder::new(params, mem))) {
                    Ok(Ok(d)) => {
                        dec1 = Some(d);
                        b.push_str("new:ok");
                    }
                    Ok(Err(_)) => b.push_str("new:err"),
                    Err(_) => b.push_str("new:panic"),
                }
            }
            if dec1.is_some() || dec2.is_some() {
                for o in get(&m, "ops", "").split(';').filter(|x| !x.is_empty()) {
                    let p: Vec<&str> = o.split(':').collect();
                    match p.as_slice() {
                        ["d", h] => {
                            let sink = sink_of(&m);
                            let mut w = sink.clone();
                            let res = catch_unwind(AssertUnwindSafe(|| {
                                with_reader(rd_of(&m), unhex(h), |mut r| {
                                    if is2 {
                                        dec2.as_mut().unwrap().decompress(&mut r, &mut w).map_err(|e| err_class(&e).to_string())
                                    } else {
                                        dec1.as_mut().unwrap().decompress(&mut r, &mut w).map_err(|e| err_class(&e).to_string())
                                    }
                                })
                            }));
                            match res {
                                Ok(r) => b.push_str(&format!(";d:{}:{}:{}", r.0, hex(&sink.0.borrow().out), r.2)),
                                Err(_) => {
                                    b.push_str(&format!(";d:panic:{}:0", hex(&sink.0.borrow().out)));
                                    break;
                                }
                            }
                        }
                        ["r"] => {
                            if is2 {
                                dec2.as_mut().unwrap().reset()
                            } else {
                                dec1.as_mut().unwrap().reset(None)
                            };
                            b.push_str(";r");
                        }
                        ["rn"] => {
                            dec1.as_mut().unwrap().reset(Some(None));
                            b.push_str(";r");
                        }
                        ["rs", x] => {
                            dec1.as_mut().unwrap().reset(Some(Some(x.parse().unwrap())));
                            b.push_str(";r");
                        }
                        _ => panic!("bad raw op"),
                    }
                }
            }
            format!("res={}", b)
        }
        "stream" => {
            let sink = sink_of(&m);
            let opts = options_of(&m);
            let mut st: Option<Stream<SharedSink>> = Some(Stream::new_with_options(&opts, sink.clone()));
            let mut parts: Vec<String> = Vec::new();
            for c in get(&m, "calls", "").split(';').filter(|x| !x.is_empty()) {
                if st.is_none() {
                    break;
                }
                let p: Vec<&str> = c.split(':').collect();
                match p.as_slice() {
                    ["w", h] => {
                        let d = unhex(h);
                        match catch_unwind(AssertUnwindSafe(|| st.as_mut().unwrap().write(&d))) {
                            Ok(Ok(n)) => parts.push(format!("w:{}", n)),
                            Ok(Err(_)) => parts.push("w:err".to_string()),
                            Err(_) => {
                                parts.push("w:panic".to_string());
                                st = None;
                            }
                        }
                    }
                    ["W", h] => {
                        let d = unhex(h);
                        let mut off = 0usize;
                        let mut status = "ok";
                        while off < d.len() {
                            match catch_unwind(AssertUnwindSafe(|| st.as_mut().unwrap().write(&d[off..]))) {
                                Ok(Ok(0)) => {
                                    status = "zero";
                                    break;
                                }
                                Ok(Ok(n)) => off += n,
                                Ok(Err(_)) => {
                                    status = "err";
                                    break;
                                }
                                Err(_) => {
                                    status = "panic";
                                    break;
                                }
                            }
                        }
                        parts.push(format!("W:{}:{}", status, off));
                        if status == "panic" {
                            st = None;
                        }
                    }
                    ["f"] => match catch_unwind(AssertUnwindSafe(|| st.as_mut().unwrap().flush())) {
                        Ok(Ok(())) => parts.push("f:ok".to_string()),
                        Ok(Err(_)) => parts.push("f:err".to_string()),
                        Err(_) => {
                            parts.push("f:panic".to_string());
                            st = None;
                        }
                    },
                    ["g"] => parts.push(format!("g:{}", sink.0.borrow().out.len())),
                    ["o"] => {
                        // Stream::get_output / get_output_mut: Some(sink) while the stream is alive, None after a failed write
                        let a = st.as_ref().unwrap().get_output().map(|k| k.0.borrow().out.len());
                        let b = st.as_mut().unwrap().get_output_mut().map(|k| k.0.borrow().out.len());
                        match (a, b) {
                            (Some(x), Some(y)) if x == y => parts.push(format!("o:{}", x)),
                            (None, None) => parts.push("o:none".to_string()),
                            _ => parts.push("o:inconsistent".to_string()),
                        }
                    }
                    ["x"] => {
                        let s = st.take().unwrap();
                        match catch_unwind(AssertUnwindSafe(|| s.finish())) {
                            Ok(Ok(_)) => parts.push("x:ok".to_string()),
                            Ok(Err(_)) => parts.push("x:err".to_string()),
                            Err(_) => parts.push("x:panic".to_string()),
                        }
                    }
                    _ => panic!("bad stream call"),
                }
            }
            let out = hex(&sink.0.borrow().out);
            format!("res={} out={} fl={}", parts.join(";"), out, sink.0.borrow().flushes)
        }
        _ => format!("unknown-op {}", op),
    }
}

fn main() {
    std::panic::set_hook(Box::new(|_| {}));
    let args: Vec<String> = std::env::args().collect();
    let input: Box<dyn BufRead> = if args.len() > 1 {
        Box::new(BufReader::new(std::fs::File::open(&args[1]).expect("case file")))
    } else {
        Box::new(BufReader::new(io::stdin()))
    };
    let timeout_s: u64 = std::env::var("LZRS_CASE_TIMEOUT").ok().and_then(|s| s.parse().ok()).unwrap_or(60);
    let stdout = io::stdout();
    let mut out = stdout.lock();
    for line in input.lines() {
        let line = line.expect("read line");
        if line.trim().is_empty() {
            continue;
        }
        let (tx, rx) = mpsc::channel();
        let l2 = line.clone();
        let base = LIVE.load(Ordering::Relaxed);
        PEAK.store(base, Ordering::Relaxed);
        std::thread::Builder::new()
            .stack_size(64 << 20)
            .spawn(move || {
                let r = catch_unwind(AssertUnwindSafe(|| run_case(&l2)));
                let _ = tx.send(r);
            })
            .expect("spawn");
        let res = match rx.recv_timeout(Duration::from_secs(timeout_s)) {
            Ok(Ok(s)) => s,
            Ok(Err(_)) => "panic out=- pos=0 fl=0 why=panic".to_string(),
            Err(_) => "hang out=- pos=0 fl=0 why=timeout".to_string(),
        };
        let peak = PEAK.load(Ordering::Relaxed).saturating_sub(base);
        let ef = if EOF_FAULT_FIRED.load(Ordering::Relaxed) { " ef=1" } else { "" };
        writeln!(out, "{} peak={}{}", res, peak, ef).unwrap();
    }
}
