(* C01: LZMA decoding is exact for every well-formed stream.
   raw_lzma_decode_exact : LzmaDecoder (raw API) on the reference payload, any dictionary >= 1
   lzma_decode_exact     : lzma_decompress on a complete .lzma file of the reference encoder *)
From LZ Require Import Base.Prelude Base.Prog Model.Io Model.Tables Model.LzBuffer Model.RangeDec Model.Lzma Format.RefEnc
  Proofs.ProgLemmas Proofs.MapLemmas Proofs.IoLemmas Proofs.RangeLockstep Proofs.WinCirc Proofs.NoPanic Proofs.NoPanicWorld
  Proofs.SymOracle Proofs.SymCoders Proofs.SymLiteral Proofs.SymDecode Proofs.SymChain
  Proofs.LzmaExactSync Proofs.LzmaExactShape Proofs.LzmaExactRefine Proofs.LzmaExactLoop.
From Coq Require Import ZifyBool ZifyNat ZifyN.
Local Open Scope prog_scope.

(* ---------- well-formedness vocabulary of the statement ---------- *)
Definition ends_with_marker (prog : list sym) : Prop := exists q, prog = q ++ [EndMarker].
Definition no_marker (prog : list sym) : Prop := Forall (fun x => x <> EndMarker) prog.
(* the ideal encoder state after the whole program *)
Definition final_ienc (fp : fprops) (w : option N) (prog : list sym) : option ienc :=
  match enc_syms_gen false fp w ienc0 (estate0 fp) prog with Some (ie, _) => Some ie | None => None end.

(* ---------- map_io_err does not change successful runs ---------- *)
Lemma map_io_err_done {A} e' (p : prog ioE A) : forall w a w',
  interp io_h p w = (Done a, w') -> interp io_h (map_io_err e' p) w = (Done a, w').
Proof.
  induction p as [a0|e|q|X o k IH]; intros w a w' H; cbn [map_io_err interp] in *; try discriminate; try exact H.
  destruct (io_h X o w) as [x s|e s|q s]; try discriminate. apply IH. exact H.
Qed.

Lemma src_run_map_io_err {A} e' (p : prog ioE A) s a s' :
  src_run p s = (Done a, s') -> src_run (map_io_err e' p) s = (Done a, s').
Proof.
  unfold src_run, run_io. destruct (interp io_h p (mkIo s vec_sink)) as [r w] eqn:E.
  intros H. inversion H; subst. rewrite (map_io_err_done e' p _ _ _ E). reflexivity.
Qed.

(* ---------- the first five payload bytes: registers in Sync with ienc0 ---------- *)
Lemma init_sync revs delta :
  Forall wf_rev revs -> delta < i_range (fold_left ienc_rev revs ienc0) ->
  exists c3 c2 c1 c0 rest,
    ienc_bytes (fold_left ienc_rev revs ienc0) delta = 0 :: c3 :: c2 :: c1 :: c0 :: rest /\
    Sync ienc0 (mkRc 4294967295 (be_num [c3; c2; c1; c0])) rest
         (i_low (fold_left ienc_rev revs ienc0) + delta) (i_norms (fold_left ienc_rev revs ienc0)).
Proof.
  intros Hev Hd.
  destruct (ienc_fold_wf revs ienc0 wf_ienc0 Hev) as [Hwf Hn].
  pose proof (ienc_fold_nest revs ienc0 wf_ienc0 Hev) as [N1 N2].
  set (ief := fold_left ienc_rev revs ienc0) in *.
  change (i_low ienc0) with 0 in *. change (i_range ienc0) with 4294967295 in *. change (i_norms ienc0) with 0 in *.
  rewrite N.sub_0_r in *. rewrite N.add_0_l in N2.
  unfold ienc_bytes.
  set (V := i_low ief + delta) in *.
  assert (HV : V < 256 ^ N.of_nat (N.to_nat (i_norms ief + 4))).
  { rewrite N2Nat.id, N.pow_add_r. change (256 ^ 4) with 4294967296.
    apply (flush_fits (i_low ief) (i_range ief)); [exact N2|unfold V; lia]. }
  pose proof (be_num_be_bytes _ V HV) as Hnum.
  pose proof (be_bytes_length (N.to_nat (i_norms ief + 4)) V) as Hlen.
  pose proof (be_bytes_bytes (N.to_nat (i_norms ief + 4)) V) as Hby.
  destruct (be_bytes (N.to_nat (i_norms ief + 4)) V) as [|c3 [|c2 [|c1 [|c0 rest]]]]; cbn [length] in Hlen; try lia.
  assert (Hlr : nlen rest = i_norms ief) by (unfold nlen; lia).
  change (c3 :: c2 :: c1 :: c0 :: rest) with ([c3; c2; c1; c0] ++ rest) in Hnum. rewrite be_num_app in Hnum.
  assert (Hbr : bytes rest).
  { inversion Hby as [|? ? _ H1]; subst. inversion H1 as [|? ? _ H2]; subst.
    inversion H2 as [|? ? _ H3]; subst. inversion H3 as [|? ? _ H4]; subst. exact H4. }
  exists c3, c2, c1, c0, rest. split; [reflexivity|].
  unfold Sync. cbn [r_range r_code]. change (i_range ienc0) with 4294967295. change (i_low ienc0) with 0.
  change (i_norms ienc0) with 0. split; [reflexivity|]. split; [exact Hbr|]. split; [lia|].
  rewrite N.add_0_l. exact Hnum.
Qed.

Lemma shiftl_1_pow n : N.shiftl 1 n = 2 ^ n.
Proof. rewrite N.shiftl_1_l. reflexivity. Qed.

Lemma props_valid_of_match pr fp : props_match pr fp -> props_valid pr = true.
Proof.
  intros (H1 & H2 & H3 & _). unfold props_valid.
  destruct (N.leb_spec (lc pr) 8); [|lia]. destruct (N.leb_spec (lp pr) 4); [|lia].
  destruct (N.leb_spec (pb pr) 4); [|lia]. reflexivity.
Qed.

(* ---------- the raw decoder ---------- *)
Lemma copy_back_length : forall n d (l : list N), length (copy_back n d l) = (length l + n)%nat.
Proof. induction n as [|n IH]; intros d l; cbn [copy_back]; [lia|]. rewrite IH. cbn [length]. lia. Qed.

Lemma hist_len_ok fp w : forall prog0 st h evs stf hf,
  prog_evs fp w st h prog0 = Some (evs, stf, hf) -> h_len h = nlen (h_bytes h) ->
  h_len hf = nlen (h_bytes hf).
Proof.
  induction prog0 as [|x rest IH]; intros st h evs stf hf H Hl.
  - cbn [prog_evs] in H. inversion H; subst. exact Hl.
  - destruct (sym_eq_marker_dec x) as [->|Hx].
    + cbn [prog_evs] in H. destruct rest; [|discriminate]. inversion H; subst. exact Hl.
    + rewrite (prog_evs_cons fp w st h x rest Hx) in H.
      destruct (sem_sym w h x) as [h'|] eqn:Es; [|discriminate].
      destruct (prog_evs fp w (snd (sym_evs fp st h x)) h' rest) as [[[l st2] h2]|] eqn:Ep; [|discriminate].
      inversion H; subst. apply (IH _ _ _ _ _ Ep).
      clear - Es Hl.
      destruct x as [b|dist len| |i len|]; cbn [sem_sym] in Es.
      * destruct (b <? 256); [|discriminate]. inversion Es; subst. cbn [h_len h_bytes]. rewrite nlen_cons. lia.
      * destruct (can_copy w h dist && len_ok len && (dist <=? 4294967295)); [|discriminate].
        inversion Es; subst. unfold do_copy. cbn [h_len h_bytes]. unfold nlen in *. rewrite copy_back_length. lia.
      * destruct (can_copy w h (h_r0 h + 1)); [|discriminate].
        inversion Es; subst. unfold do_copy. cbn [h_len h_bytes]. unfold nlen in *. rewrite copy_back_length. lia.
      * apply sem_rep_inv in Es. destruct Es as (_ & _ & _ & ->).
        unfold do_copy. cbn [h_len h_bytes]. unfold nlen in *. rewrite copy_back_length. lia.
      * discriminate.
Qed.

Definition dstate0 (pr : props) (us : option N) : dstate :=
  mkDstate [] pr us (ptabs_new (N.shiftl 1 (lc pr + lp pr))) 0 (mkReps 0 0 0 0).

Lemma decoder_new_eq pr fp dict us memlimit dec : props_match pr fp -> 0 < dict ->
  lzma_decoder_new (mkParams pr dict us) memlimit = Done dec ->
  dec = mkLzmaDecoder (mkParams pr dict us) (match memlimit with Some m => m | None => USIZE - 1 end) (dstate0 pr us).
Proof.
  intros Hpm Hd Hnew. unfold lzma_decoder_new in Hnew. cbn [pr_dict pr_props pr_unpacked] in Hnew.
  destruct (N.eqb_spec dict 0) as [E0|_]; [lia|].
  unfold dstate_new in Hnew. rewrite (props_valid_of_match pr fp Hpm) in Hnew. cbn [negb] in Hnew.
  inversion Hnew. reflexivity.
Qed.

Section Raw.
  Variables (fp : fprops) (pr : props).
  Hypothesis Hpm : props_match pr fp.
  Variables (dict mem : N).
  Hypothesis Hdict : 0 < dict /\ dict <= mem.
  Variables (us : option N) (prog : list sym) (delta : N) (trail : list N) (ief : ienc) (sf : estate).
  Hypothesis Henc : enc_syms_gen false fp (Some dict) ienc0 (estate0 fp) prog = Some (ief, sf).
  Hypothesis Hdelta : delta < i_range ief.
  Variable canon : bool.
  Hypothesis Hcanon : canon = true -> delta = 0 /\ trail = [].

  (* RangeDecoder::new on the first five payload bytes establishes the loop invariant *)
  Lemma raw_init s k :
    FaultFree s -> s_rest s = ienc_bytes ief delta ++ trail -> k_wfail k = None -> k_ffail k = false ->
    exists r0 s0,
      src_run (map_io_err ELzma rc_new) s = (Done r0, s0) /\
      LInv fp pr dict mem (snk_bytes k) ief delta trail canon (s_pos s + nlen (ienc_bytes ief delta)) (k_flushes k)
           us (es_st sf) (es_hist sf) prog (mkLw (dstate0 pr us) r0 s0 (WCirc (circ_new k dict mem))) /\
      h_len (es_hist sf) = nlen (h_bytes (es_hist sf)).
  Proof.
    intros Hff Hrest Hkw Hkf.
    destruct (enc_syms_prog_evs fp (Some dict) prog ienc0 _ _ _ ief sf Henc) as (evs & Hpe & Hfold).
    set (t0 := ptabs_new (2 ^ (f_lc fp + f_lp fp))) in *.
    assert (Ht0 : ptabs_new (N.shiftl 1 (lc pr + lp pr)) = t0).
    { unfold t0. rewrite shiftl_1_pow. destruct Hpm as (_ & _ & _ & -> & -> & _). reflexivity. }
    assert (Hpo : ProbsOk t0) by apply ProbsOk_new.
    assert (Hstd : TabsStd t0 (lc pr + lp pr)) by (rewrite <- Ht0; apply TabsStd_new).
    pose proof (f_equal fst Hfold) as Hfold1. cbn [fst] in Hfold1.
    pose proof Hfold1 as Hfr. rewrite fold_ev_rev in Hfr.
    pose proof (to_revs_wf evs t0 Hpo) as Hwfr.
    destruct (init_sync (to_revs t0 evs) delta Hwfr ltac:(rewrite Hfr; exact Hdelta))
      as (c3 & c2 & c1 & c0 & rest & Hbytes & Hsync).
    rewrite Hfr in Hbytes, Hsync.
    rewrite Hbytes in Hrest. cbn [app] in Hrest.
    destruct (rc_new_run s 0 c3 c2 c1 c0 (rest ++ trail) Hff Hrest) as (s0 & Hrun0 & Hr0 & Hp0 & Hs0).
    set (r0 := mkRc 4294967295 (be_num [c3; c2; c1; c0])) in *.
    exists r0, s0. split; [apply src_run_map_io_err; exact Hrun0|].
    assert (Hnl : nlen rest = i_norms ief) by (destruct Hsync as (_ & _ & Hn & _); change (i_norms ienc0) with 0 in Hn; lia).
    split; [|apply (hist_len_ok fp (Some dict) prog 0 hist0 evs (es_st sf) (es_hist sf) Hpe); reflexivity].
    exists 0, hist0, hist0, evs. unfold dstate0.
    cbn [l_ds l_rc l_src l_win ds_pib ds_props ds_unpacked ds_tabs ds_state ds_rep].
    split; [reflexivity|]. split; [reflexivity|]. split; [reflexivity|]. split; [reflexivity|]. split; [reflexivity|].
    split; [lia|]. split; [constructor|]. split; [apply rep0_ok_init|].
    split; [unfold reps_lt, hist0; cbn [h_r0 h_r1 h_r2 h_r3]; lia|].
    split; [reflexivity|]. split; [reflexivity|]. split; [exact Hpe|].
    exists evs. cbn [fst snd d_tabs d_rc d_src d_win]. split; [reflexivity|]. split.
    - exists ienc0, rest. rewrite Ht0. split; [exact wf_ienc0|]. split; [exact Hstd|]. split; [exact Hpo|].
      split; [exact Hfold1|]. split; [exact Hsync|]. split; [exact Hs0|]. split; [exact Hr0|].
      rewrite Hp0, Hbytes, !nlen_cons, Hnl. lia.
    - exists (circ_new k dict mem). split; [reflexivity|].
      split; [apply circ_new_inv; [apply Hdict|exact Hkw]|].
      unfold circ_new. cbn [c_dict c_mem c_snk hist0 h_bytes h_len].
      repeat split; try reflexivity; try assumption. constructor.
  Qed.

  Theorem raw_decode_exact memlimit dec s k fuel :
    match us with
    | None => canon = true /\ ends_with_marker prog
    | Some size => no_marker prog /\ size = nlen (h_bytes (es_hist sf))
    end ->
    lzma_decoder_new (mkParams pr dict us) memlimit = Done dec ->
    mem = match memlimit with Some m => m | None => USIZE - 1 end ->
    FaultFree s -> s_rest s = ienc_bytes ief delta ++ trail ->
    k_wfail k = None -> k_ffail k = false ->
    (length prog + 1 <= Pos.to_nat fuel)%nat ->
    exists dec' w',
      lzma_decoder_decompress fuel dec (mkIo s k) = (Done tt, (dec', w')) /\
      snk_bytes (i_snk w') = snk_bytes k ++ lrev (h_bytes (es_hist sf)) /\
      k_flushes (i_snk w') = k_flushes k + 1 /\
      s_pos (i_src w') = s_pos s + nlen (ienc_bytes ief delta) /\
      s_rest (i_src w') = trail.
  Proof.
    intros Hmode Hnew Hmem Hff Hrest Hkw Hkf Hfuel.
    rewrite (decoder_new_eq pr fp dict us memlimit dec Hpm (proj1 Hdict) Hnew), <- Hmem.
    destruct (raw_init s k Hff Hrest Hkw Hkf) as (r0 & s0 & Hrun0 & HI & Hlen_hf).
    unfold lzma_decoder_decompress. cbn [i_src i_snk ld_params ld_memlimit ld_state pr_dict].
    rewrite Hrun0.
    assert (HM : Mode canon us (es_hist sf) prog).
    { unfold Mode. destruct us as [size|].
      - destruct Hmode as [Hnm Hsz]. split; [exact Hnm|]. rewrite Hlen_hf. exact Hsz.
      - exact Hmode. }
    destruct (process_mode_exact fp pr Hpm dict mem (snk_bytes k) ief delta trail canon _ (k_flushes k)
                Hdelta Hcanon Hdict us (es_st sf) (es_hist sf) prog _ fuel HI HM Hfuel)
      as (wv' & Hpmode & HF).
    rewrite Hpmode.
    destruct HF as (Hus' & ho & Eb & El & (c & Hwin & HCI & Hcd & Hcm & Hcf & Hcfl & _ & _) & Hpos & Hrst).
    rewrite Hwin. rewrite Eb in HCI.
    destruct (circ_finish_spec _ _ _ HCI Hcf) as (k' & Hfin & Hkb & Hkfl).
    rewrite Hfin. eexists _, _. split; [reflexivity|]. cbn [i_snk i_src].
    split; [rewrite Hkb, lrev_rev; reflexivity|]. split; [rewrite Hkfl, Hcfl; reflexivity|].
    split; [exact Hpos|exact Hrst].
  Qed.

  (* bytes after the end marker: Err(LzmaError) *)
  Theorem raw_decode_trailing memlimit dec s k fuel :
    us = None -> canon = false -> trail <> [] -> ends_with_marker prog ->
    lzma_decoder_new (mkParams pr dict us) memlimit = Done dec ->
    mem = match memlimit with Some m => m | None => USIZE - 1 end ->
    FaultFree s -> s_rest s = ienc_bytes ief delta ++ trail ->
    k_wfail k = None -> k_ffail k = false ->
    (length prog + 1 <= Pos.to_nat fuel)%nat ->
    exists x, lzma_decoder_decompress fuel dec (mkIo s k) = (Failed ELzma, x).
  Proof.
    intros Eus Hc Htr Hend Hnew Hmem Hff Hrest Hkw Hkf Hfuel.
    rewrite (decoder_new_eq pr fp dict us memlimit dec Hpm (proj1 Hdict) Hnew), <- Hmem.
    destruct (raw_init s k Hff Hrest Hkw Hkf) as (r0 & s0 & Hrun0 & HI & _).
    unfold lzma_decoder_decompress. cbn [i_src i_snk ld_params ld_memlimit ld_state pr_dict].
    rewrite Hrun0.
    destruct (process_mode_trailing fp pr Hpm dict mem (snk_bytes k) ief delta trail canon _ (k_flushes k)
                Hdelta Hcanon Hdict us (es_st sf) (es_hist sf) prog _ fuel HI Eus Hc Htr Hend Hfuel)
      as (wv' & Hpmode).
    rewrite Hpmode. eexists. reflexivity.
  Qed.
End Raw.

Print Assumptions raw_decode_exact.

(* ---------- the raw API, stated with the reference encoder ---------- *)
Lemma nlen_lrev {A} (l : list A) : nlen (lrev l) = nlen l.
Proof. rewrite lrev_rev. unfold nlen. rewrite rev_length. reflexivity. Qed.

Lemma final_ienc_wf fp w prog ief sf :
  enc_syms_gen false fp w ienc0 (estate0 fp) prog = Some (ief, sf) -> wf_ienc ief.
Proof.
  intros H. destruct (enc_syms_prog_evs fp w prog ienc0 _ _ _ ief sf H) as (evs & _ & Hfold).
  apply (f_equal fst) in Hfold. cbn [fst] in Hfold. rewrite fold_ev_rev in Hfold. rewrite <- Hfold.
  apply ienc_fold_wf; [exact wf_ienc0|]. apply to_revs_wf. apply ProbsOk_new.
Qed.

Theorem raw_lzma_decode_exact fp pr dict us memlimit prog delta trail payload out ief dec s k fuel :
  props_match pr fp ->
  1 <= dict -> dict <= (match memlimit with Some m => m | None => USIZE - 1 end) ->
  enc_payload_gen false fp (Some dict) prog delta = Some (payload, out) ->
  final_ienc fp (Some dict) prog = Some ief ->
  match us with
  | None => ends_with_marker prog /\ delta = 0 /\ trail = []
  | Some size => no_marker prog /\ size = nlen out /\ delta < i_range ief
  end ->
  lzma_decoder_new (mkParams pr dict us) memlimit = Done dec ->
  FaultFree s -> s_rest s = payload ++ trail ->
  k_wfail k = None -> k_ffail k = false ->
  (length prog + 1 <= Pos.to_nat fuel)%nat ->
  exists dec' w',
    lzma_decoder_decompress fuel dec (mkIo s k) = (Done tt, (dec', w')) /\
    snk_bytes (i_snk w') = snk_bytes k ++ out /\
    k_flushes (i_snk w') = k_flushes k + 1 /\
    s_pos (i_src w') = s_pos s + nlen payload /\
    s_rest (i_src w') = trail.
Proof.
  intros Hpm Hd1 Hdm Henc Hfin Hmode Hnew Hff Hrest Hkw Hkf Hfuel.
  unfold enc_payload_gen in Henc. unfold final_ienc in Hfin.
  destruct (enc_syms_gen false fp (Some dict) ienc0 (estate0 fp) prog) as [[ie sf]|] eqn:E; [|discriminate].
  inversion Hfin; subst ie. inversion Henc; subst payload out. clear Hfin Henc.
  pose proof (final_ienc_wf _ _ _ _ _ E) as Hwf.
  assert (Hdelta : delta < i_range ief).
  { destruct us as [size|]; [apply Hmode|]. destruct Hmode as (_ & -> & _). unfold wf_ienc in Hwf. lia. }
  assert (Hdict : 0 < dict /\ dict <= match memlimit with Some m => m | None => USIZE - 1 end) by (split; [lia|exact Hdm]).
  set (canon := match us with None => true | Some _ => false end).
  assert (Hcanon : canon = true -> delta = 0 /\ trail = []).
  { unfold canon. destruct us; [discriminate|]. intros _. apply Hmode. }
  apply (raw_decode_exact fp pr Hpm dict _ Hdict us prog delta trail ief sf E Hdelta canon Hcanon) with (memlimit := memlimit);
    try assumption; try reflexivity.
  unfold canon. destruct us as [size|].
  - destruct Hmode as (H1 & H2 & _). split; [exact H1|]. rewrite H2. apply nlen_lrev.
  - split; [reflexivity|apply Hmode].
Qed.
Print Assumptions raw_lzma_decode_exact.

(* ---------- the .lzma header ---------- *)
Lemma le_num_le_bytes_small n : forall v, v < 256 ^ N.of_nat n -> le_num (le_bytes n v) = v.
Proof.
  induction n as [|n IH]; intros v Hv; cbn [le_bytes le_num].
  - change (N.of_nat 0) with 0 in Hv. rewrite N.pow_0_r in Hv. lia.
  - rewrite Nat2N.inj_succ, N.pow_succ_r' in Hv.
    rewrite IH.
    + rewrite land255, shiftr8. pose proof (N.div_mod v 256 ltac:(lia)). lia.
    + rewrite shiftr8. apply N.div_lt_upper_bound; [lia|exact Hv].
Qed.

Lemma props_byte_decode fp : f_lc fp <= 8 -> f_lp fp <= 4 -> f_pb fp <= 4 ->
  props_byte fp < 225 /\ props_byte fp mod 9 = f_lc fp /\ (props_byte fp / 9) mod 5 = f_lp fp /\
  props_byte fp / 9 / 5 = f_pb fp.
Proof.
  intros H1 H2 H3. unfold props_byte.
  set (a := f_lc fp) in *. set (b := f_lp fp) in *. set (c := f_pb fp) in *. clearbody a b c.
  assert (E1 : (a + 9 * (b + 5 * c)) / 9 = b + 5 * c).
  { symmetry. apply (N.div_unique _ 9 _ a); lia. }
  assert (E2 : (a + 9 * (b + 5 * c)) mod 9 = a).
  { symmetry. apply (N.mod_unique _ 9 (b + 5 * c) a); lia. }
  rewrite E1, E2. split; [lia|]. split; [reflexivity|]. split.
  - symmetry. apply (N.mod_unique _ 5 c b); lia.
  - symmetry. apply (N.div_unique _ 5 _ b); lia.
Qed.

Theorem read_header_run ml ai s pbyte d sz t :
  FaultFree s -> s_rest s = pbyte :: le_bytes 4 d ++ le_bytes 8 sz ++ t ->
  pbyte < 225 -> d < 2 ^ 32 -> sz < 2 ^ 64 ->
  exists s',
    src_run (map_io_err EHeaderTooShort (read_header (mkOptions ReadFromHeader ml ai))) s
    = (Done (mkParams (mkProps (pbyte mod 9) ((pbyte / 9) mod 5) (pbyte / 9 / 5)) (N.max d 4096)
                      (if sz =? 18446744073709551615 then None else Some sz)), s') /\
    s_rest s' = t /\ s_pos s' = s_pos s + 13 /\ FaultFree s'.
Proof.
  intros Hs Hr Hp Hd Hsz.
  destruct (io_read_u8_spec s pbyte _ Hs Hr) as (s1 & Hrun1 & Hr1 & Hp1 & Hs1).
  destruct (io_read_exact_spec s1 (le_bytes 4 d) (le_bytes 8 sz ++ t) 4 Hs1 Hr1) as (s2 & Hrun2 & Hr2 & Hp2 & Hs2).
  { unfold nlen. rewrite le_bytes_length. reflexivity. }
  destruct (io_read_exact_spec s2 (le_bytes 8 sz) t 8 Hs2 Hr2) as (s3 & Hrun3 & Hr3 & Hp3 & Hs3).
  { unfold nlen. rewrite le_bytes_length. reflexivity. }
  exists s3. split; [|split; [exact Hr3|split; [lia|exact Hs3]]].
  apply src_run_map_io_err. apply io_runs_src_run.
  unfold read_header. eapply io_runs_bind; [exact Hrun1|]. cbv beta.
  destruct (N.leb_spec 225 pbyte) as [|_]; [lia|].
  eapply io_runs_bind.
  { unfold read_u32_le. eapply io_runs_bind; [exact Hrun2|]. apply io_runs_ret. }
  cbv beta. cbn [o_unpacked].
  rewrite (le_num_le_bytes_small 4 d) by exact Hd.
  eapply io_runs_bind.
  { eapply io_runs_bind.
    - unfold read_u64_le. eapply io_runs_bind; [exact Hrun3|]. apply io_runs_ret.
    - cbv beta. apply io_runs_ret. }
  cbv beta. rewrite (le_num_le_bytes_small 8 sz) by exact Hsz.
  replace (if d <? 4096 then 4096 else d) with (N.max d 4096).
  - apply io_runs_ret.
  - destruct (N.ltb_spec d 4096); lia.
Qed.
Print Assumptions read_header_run.

(* ---------- lzma_decompress up to the payload ---------- *)
Lemma lzma_decompress_header fp dict_field size_field payload trail frag k fuel :
  f_lc fp <= 8 -> f_lp fp <= 4 -> f_pb fp <= 4 -> dict_field < 2 ^ 32 -> size_field < 2 ^ 64 ->
  exists dec s1,
    props_match (mkProps (f_lc fp) (f_lp fp) (f_pb fp)) fp /\
    lzma_decoder_new (mkParams (mkProps (f_lc fp) (f_lp fp) (f_pb fp)) (N.max dict_field 4096)
                               (if size_field =? 18446744073709551615 then None else Some size_field)) None = Done dec /\
    FaultFree s1 /\ s_rest s1 = payload ++ trail /\ s_pos s1 = 13 /\
    lzma_decompress fuel (mkOptions ReadFromHeader None false)
      (mkIo (src_of ((props_byte fp :: le_bytes 4 dict_field ++ le_bytes 8 size_field ++ payload) ++ trail) frag None) k)
    = (let '(r, (_, w')) := lzma_decoder_decompress fuel dec (mkIo s1 k) in (r, w')).
Proof.
  intros Hlc Hlp Hpb Hdf Hsz.
  destruct (props_byte_decode fp Hlc Hlp Hpb) as (Hpb225 & D1 & D2 & D3).
  set (us := if size_field =? 18446744073709551615 then None else Some size_field).
  set (s := src_of ((props_byte fp :: le_bytes 4 dict_field ++ le_bytes 8 size_field ++ payload) ++ trail) frag None).
  assert (Hs : FaultFree s) by apply src_of_FaultFree.
  destruct (read_header_run None false s (props_byte fp) dict_field size_field (payload ++ trail) Hs) as (s1 & Hrun & Hr1 & Hp1 & Hs1); try assumption.
  { unfold s, src_of. cbn [s_rest app]. rewrite <- !app_assoc. reflexivity. }
  rewrite D1, D2, D3 in Hrun. fold us in Hrun.
  set (pr := mkProps (f_lc fp) (f_lp fp) (f_pb fp)) in *.
  assert (Hpm : props_match pr fp) by (unfold props_match, pr; cbn [lc lp pb]; repeat split; assumption || reflexivity).
  set (dict := N.max dict_field 4096) in *.
  assert (Hnew : exists dec, lzma_decoder_new (mkParams pr dict us) None = Done dec).
  { unfold lzma_decoder_new. cbn [pr_dict pr_props pr_unpacked].
    destruct (N.eqb_spec dict 0) as [E0|_]; [unfold dict in E0; lia|].
    unfold dstate_new. rewrite (props_valid_of_match pr fp Hpm). cbn [negb]. eexists. reflexivity. }
  destruct Hnew as (dec & Hnew).
  exists dec, s1. split; [exact Hpm|]. split; [exact Hnew|]. split; [exact Hs1|]. split; [exact Hr1|].
  split; [rewrite Hp1; unfold s, src_of; cbn [s_pos]; lia|].
  unfold lzma_decompress. cbn [i_src i_snk o_memlimit]. fold s. rewrite Hrun, Hnew. reflexivity.
Qed.

Lemma nlen_le_bytes n v : nlen (le_bytes n v) = N.of_nat n.
Proof. unfold nlen. rewrite le_bytes_length. reflexivity. Qed.

Lemma enc_lzma_gen_inv fp dict_field size_field prog delta bytes out :
  enc_lzma_gen false fp dict_field size_field prog delta = Some (bytes, out) ->
  exists payload, enc_payload_gen false fp (Some (N.max dict_field 4096)) prog delta = Some (payload, out) /\
    bytes = props_byte fp :: le_bytes 4 dict_field ++ le_bytes 8 size_field ++ payload /\
    nlen bytes = 13 + nlen payload.
Proof.
  unfold enc_lzma_gen.
  destruct (enc_payload_gen false fp (Some (N.max dict_field 4096)) prog delta) as [[payload out0]|]; [|discriminate].
  intros H. exists payload.
  assert (Eb : bytes = props_byte fp :: le_bytes 4 dict_field ++ le_bytes 8 size_field ++ payload) by congruence.
  assert (Eo : out0 = out) by congruence.
  subst out0. split; [reflexivity|]. split; [exact Eb|]. rewrite Eb.
  rewrite nlen_cons, !nlen_app, !nlen_le_bytes. lia.
Qed.

(* ---------- the main theorem ---------- *)
Theorem lzma_decode_exact fp dict_field size_field prog bytes out delta trail ief frag k fuel :
  f_lc fp <= 8 -> f_lp fp <= 4 -> f_pb fp <= 4 -> dict_field < 2 ^ 32 ->
  enc_lzma_gen false fp dict_field size_field prog delta = Some (bytes, out) ->
  final_ienc fp (Some (N.max dict_field 4096)) prog = Some ief ->
  ( (size_field = 2 ^ 64 - 1 /\ ends_with_marker prog /\ delta = 0 /\ trail = [])
    \/ (size_field = nlen out /\ nlen out < 2 ^ 64 - 1 /\ no_marker prog /\ delta < i_range ief) ) ->
  k_wfail k = None -> k_ffail k = false ->
  (length prog + 1 <= Pos.to_nat fuel)%nat ->
  exists w',
    lzma_decompress fuel (mkOptions ReadFromHeader None false) (mkIo (src_of (bytes ++ trail) frag None) k)
    = (Done tt, w') /\
    snk_bytes (i_snk w') = snk_bytes k ++ out /\
    k_flushes (i_snk w') = k_flushes k + 1 /\
    s_pos (i_src w') = nlen bytes /\
    s_rest (i_src w') = trail.
Proof.
  intros Hlc Hlp Hpb Hdf Henc Hfin Hcase Hkw Hkf Hfuel.
  destruct (enc_lzma_gen_inv _ _ _ _ _ _ _ Henc) as (payload & Epay & -> & Hnb).
  assert (Hsz : size_field < 2 ^ 64).
  { change (2 ^ 64) with 18446744073709551616 in *. destruct Hcase as [(-> & _)|(-> & H & _)]; lia. }
  destruct (lzma_decompress_header fp dict_field size_field payload trail frag k fuel Hlc Hlp Hpb Hdf Hsz)
    as (dec & s1 & Hpm & Hnew & Hs1 & Hr1 & Hp1 & Hrun).
  rewrite Hrun. clear Hrun.
  set (us := if size_field =? 18446744073709551615 then None else Some size_field) in *.
  set (pr := mkProps (f_lc fp) (f_lp fp) (f_pb fp)) in *.
  set (dict := N.max dict_field 4096) in *.
  assert (Hmode : match us with
                  | None => ends_with_marker prog /\ delta = 0 /\ trail = []
                  | Some size => no_marker prog /\ size = nlen out /\ delta < i_range ief
                  end).
  { unfold us. change (2 ^ 64 - 1) with 18446744073709551615 in Hcase.
    destruct Hcase as [(-> & H1 & H2 & H3)|(-> & H0 & H1 & H2)].
    - rewrite N.eqb_refl. repeat split; assumption.
    - destruct (N.eqb_spec (nlen out) 18446744073709551615) as [E|_]; [lia|]. repeat split; assumption. }
  destruct (raw_lzma_decode_exact fp pr dict us None prog delta trail payload out ief dec s1 k fuel Hpm)
    as (dec' & w' & Hdec & Hb & Hfl & Hpos & Hrest); try assumption.
  { unfold dict. lia. }
  { unfold dict, USIZE, U64. change (2 ^ 32) with 4294967296 in Hdf. lia. }
  rewrite Hdec. exists w'. split; [reflexivity|]. split; [exact Hb|]. split; [exact Hfl|]. split; [|exact Hrest].
  rewrite Hpos, Hp1, Hnb. reflexivity.
Qed.
Print Assumptions lzma_decode_exact.

(* ---------- corollary: bytes after the end marker are rejected ---------- *)
Theorem raw_lzma_trailing_rejected fp pr dict memlimit prog delta trail payload out ief dec s k fuel :
  props_match pr fp ->
  1 <= dict -> dict <= (match memlimit with Some m => m | None => USIZE - 1 end) ->
  enc_payload_gen false fp (Some dict) prog delta = Some (payload, out) ->
  final_ienc fp (Some dict) prog = Some ief -> delta < i_range ief ->
  ends_with_marker prog -> trail <> [] ->
  lzma_decoder_new (mkParams pr dict None) memlimit = Done dec ->
  FaultFree s -> s_rest s = payload ++ trail ->
  k_wfail k = None -> k_ffail k = false ->
  (length prog + 1 <= Pos.to_nat fuel)%nat ->
  exists x, lzma_decoder_decompress fuel dec (mkIo s k) = (Failed ELzma, x).
Proof.
  intros Hpm Hd1 Hdm Henc Hfin Hdelta Hend Htr Hnew Hff Hrest Hkw Hkf Hfuel.
  unfold enc_payload_gen in Henc. unfold final_ienc in Hfin.
  destruct (enc_syms_gen false fp (Some dict) ienc0 (estate0 fp) prog) as [[ie sf]|] eqn:E; [|discriminate].
  inversion Hfin; subst ie. inversion Henc; subst payload out. clear Hfin Henc.
  assert (Hdict : 0 < dict /\ dict <= match memlimit with Some m => m | None => USIZE - 1 end) by (split; [lia|exact Hdm]).
  apply (raw_decode_trailing fp pr Hpm dict _ Hdict None prog delta trail ief sf E Hdelta false) with (memlimit := memlimit);
    try assumption; try reflexivity.
  discriminate.
Qed.
Print Assumptions raw_lzma_trailing_rejected.

Theorem lzma_trailing_rejected fp dict_field prog bytes out delta trail ief frag k fuel :
  f_lc fp <= 8 -> f_lp fp <= 4 -> f_pb fp <= 4 -> dict_field < 2 ^ 32 ->
  enc_lzma_gen false fp dict_field (2 ^ 64 - 1) prog delta = Some (bytes, out) ->
  final_ienc fp (Some (N.max dict_field 4096)) prog = Some ief -> delta < i_range ief ->
  ends_with_marker prog -> trail <> [] ->
  k_wfail k = None -> k_ffail k = false ->
  (length prog + 1 <= Pos.to_nat fuel)%nat ->
  exists w',
    lzma_decompress fuel (mkOptions ReadFromHeader None false) (mkIo (src_of (bytes ++ trail) frag None) k)
    = (Failed ELzma, w').
Proof.
  intros Hlc Hlp Hpb Hdf Henc Hfin Hdelta Hend Htr Hkw Hkf Hfuel.
  destruct (enc_lzma_gen_inv _ _ _ _ _ _ _ Henc) as (payload & Epay & -> & Hnb).
  destruct (lzma_decompress_header fp dict_field (2 ^ 64 - 1) payload trail frag k fuel Hlc Hlp Hpb Hdf ltac:(reflexivity))
    as (dec & s1 & Hpm & Hnew & Hs1 & Hr1 & Hp1 & Hrun).
  rewrite Hrun. clear Hrun. change (2 ^ 64 - 1 =? 18446744073709551615) with true in Hnew. cbv iota in Hnew.
  destruct (raw_lzma_trailing_rejected fp _ (N.max dict_field 4096) None prog delta trail payload out ief dec s1 k fuel Hpm)
    as ([dec' w'] & Hdec); try assumption.
  { lia. }
  { unfold USIZE, U64. change (2 ^ 32) with 4294967296 in Hdf. lia. }
  rewrite Hdec. exists w'. reflexivity.
Qed.
Print Assumptions lzma_trailing_rejected.

(* ---------- corollary: a dictionary field below 4096 behaves like 4096 ---------- *)
Theorem read_header_clamp ml ai s pbyte d sz t :
  FaultFree s -> s_rest s = pbyte :: le_bytes 4 d ++ le_bytes 8 sz ++ t ->
  pbyte < 225 -> d < 4096 -> sz < 2 ^ 64 ->
  exists p s', src_run (map_io_err EHeaderTooShort (read_header (mkOptions ReadFromHeader ml ai))) s = (Done p, s') /\
    pr_dict p = 4096.
Proof.
  intros Hs Hr Hp Hd Hsz.
  destruct (read_header_run ml ai s pbyte d sz t Hs Hr Hp) as (s' & Hrun & _); [change (2 ^ 32) with 4294967296; lia|exact Hsz|].
  eexists _, s'. split; [exact Hrun|]. cbn [pr_dict]. lia.
Qed.

Theorem lzma_dict_clamp fp dict_field size_field prog b1 out delta trail ief frag k fuel :
  f_lc fp <= 8 -> f_lp fp <= 4 -> f_pb fp <= 4 -> dict_field < 4096 ->
  enc_lzma_gen false fp dict_field size_field prog delta = Some (b1, out) ->
  final_ienc fp (Some 4096) prog = Some ief ->
  ( (size_field = 2 ^ 64 - 1 /\ ends_with_marker prog /\ delta = 0 /\ trail = [])
    \/ (size_field = nlen out /\ nlen out < 2 ^ 64 - 1 /\ no_marker prog /\ delta < i_range ief) ) ->
  k_wfail k = None -> k_ffail k = false ->
  (length prog + 1 <= Pos.to_nat fuel)%nat ->
  exists b2 w1 w2,
    enc_lzma_gen false fp 4096 size_field prog delta = Some (b2, out) /\
    skipn 5 b1 = skipn 5 b2 /\ nlen b1 = nlen b2 /\
    lzma_decompress fuel (mkOptions ReadFromHeader None false) (mkIo (src_of (b1 ++ trail) frag None) k) = (Done tt, w1) /\
    lzma_decompress fuel (mkOptions ReadFromHeader None false) (mkIo (src_of (b2 ++ trail) frag None) k) = (Done tt, w2) /\
    snk_bytes (i_snk w1) = snk_bytes k ++ out /\ snk_bytes (i_snk w2) = snk_bytes k ++ out /\
    k_flushes (i_snk w1) = k_flushes (i_snk w2) /\ s_pos (i_src w1) = s_pos (i_src w2).
Proof.
  intros Hlc Hlp Hpb Hdf Henc Hfin Hcase Hkw Hkf Hfuel.
  assert (Emax : N.max dict_field 4096 = 4096) by lia.
  destruct (enc_lzma_gen_inv _ _ _ _ _ _ _ Henc) as (payload & Epay & Eb1 & Hnb1).
  rewrite Emax in Epay.
  assert (Henc2 : enc_lzma_gen false fp 4096 size_field prog delta
                  = Some (props_byte fp :: le_bytes 4 4096 ++ le_bytes 8 size_field ++ payload, out)).
  { unfold enc_lzma_gen. change (N.max 4096 4096) with 4096. rewrite Epay. reflexivity. }
  destruct (enc_lzma_gen_inv _ _ _ _ _ _ _ Henc2) as (payload2 & _ & _ & Hnb2).
  destruct (lzma_decode_exact fp dict_field size_field prog b1 out delta trail ief frag k fuel Hlc Hlp Hpb)
    as (w1 & R1 & B1 & F1 & P1 & _); try assumption.
  { change (2 ^ 32) with 4294967296. lia. }
  { rewrite Emax. exact Hfin. }
  destruct (lzma_decode_exact fp 4096 size_field prog _ out delta trail ief frag k fuel Hlc Hlp Hpb ltac:(reflexivity) Henc2)
    as (w2 & R2 & B2 & F2 & P2 & _); try assumption.
  eexists _, w1, w2. split; [exact Henc2|].
  split; [rewrite Eb1; reflexivity|].
  split.
  { rewrite Eb1. rewrite !nlen_cons, !nlen_app, !nlen_le_bytes. reflexivity. }
  split; [exact R1|]. split; [exact R2|]. split; [exact B1|]. split; [exact B2|].
  split; [congruence|].
  rewrite P1, P2, Eb1. rewrite !nlen_cons, !nlen_app, !nlen_le_bytes. reflexivity.
Qed.
Print Assumptions lzma_dict_clamp.
