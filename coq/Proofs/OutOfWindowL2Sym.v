(* C09 for LZMA2, symbol level: a copy symbol whose distance exceeds the number of bytes held by
   the accumulating window (the bytes produced since the last dictionary reset) is rejected.
   (1) under the event oracle with an unbounded window, process_next_inner consumes exactly the
       events of the bad symbol and stops at its WAppendLz with Err(LzmaError), history unchanged;
   (2) the concrete handler dec_h on (tables, range decoder, source under a Take limit,
       ACCUMULATING window) does the same: a refinement theorem (relation Rel2 of
       Lzma2ExactRefine.v) for every outcome of runs that never ask FinishedOk. *)
From LZ Require Import Base.Prelude Base.Prog Model.Io Model.Tables Model.LzBuffer Model.RangeDec Model.Lzma Format.RefEnc
  Proofs.ProgLemmas Proofs.MapLemmas Proofs.IoLemmas Proofs.RangeLockstep Proofs.WinCirc Proofs.WinAccum Proofs.NoPanic Proofs.NoPanicWorld
  Proofs.SymOracle Proofs.SymCoders Proofs.SymLiteral Proofs.SymDecode Proofs.SymChain
  Proofs.LzmaExactSync Proofs.LzmaExactShape Proofs.LzmaExactRefine Proofs.LzmaExactLoop
  Proofs.Lzma2ExactIo Proofs.Lzma2ExactRefine Proofs.Lzma2ExactLoop
  Proofs.OutOfWindowSym.
From Coq Require Import ZifyBool ZifyNat ZifyN.
Local Open Scope prog_scope.

(* ---------- the symbols in question ---------- *)
(* a copy symbol that is well formed except that its distance exceeds the number of bytes in
   the history (for LZMA2: the bytes produced since the last dictionary reset) *)
Definition bad_copy2 (h : hist) (s : sym) : Prop :=
  match s with
  | Match dist len => len_ok len = true /\ dist <= 4294967295 /\ h_len h < dist
  | ShortRep => h_len h < h_r0 h + 1
  | Rep i len => i <= 3 /\ len_ok len = true /\ h_len h < rep0 (rot i h) + 1
  | _ => False
  end.

(* it is the notion of OutOfWindowSym.v for any dictionary size that does not bind *)
Lemma bad_copy2_iff dict h s : h_len h <= dict -> (bad_copy dict h s <-> bad_copy2 h s).
Proof.
  intros Hd. assert (E : N.min (h_len h) dict = h_len h) by lia.
  destruct s as [b|dist len| |i len|]; cbn [bad_copy bad_copy2]; rewrite ?E; tauto.
Qed.

(* the number of bytes the copy would produce *)
Definition copy_len (s : sym) : N :=
  match s with Match _ len => len | ShortRep => 1 | Rep _ len => len | _ => 0 end.

Lemma bad_copy2_len h s : bad_copy2 h s -> 1 <= copy_len s.
Proof.
  destruct s as [b|dist len| |i len|]; cbn [bad_copy2 copy_len]; try contradiction.
  - intros (Hl & _). apply len_ok_bounds in Hl. lia.
  - lia.
  - intros (_ & Hl & _). apply len_ok_bounds in Hl. lia.
Qed.

Lemma can_copy_far2 h dist : h_len h < dist -> can_copy None h dist = false.
Proof.
  intros H. unfold can_copy.
  destruct (N.leb_spec dist (h_len h)); rewrite ?andb_false_r, ?andb_false_l; try reflexivity; lia.
Qed.

Lemma bad_copy2_dist h s : bad_copy2 h s -> exists d, copy_dist h s = Some d /\ h_len h < d.
Proof.
  destruct s as [b|dist len| |i len|]; cbn [bad_copy2 copy_dist]; try contradiction.
  - intros (_ & _ & H). eauto.
  - intros H. eauto.
  - intros (_ & _ & H). eauto.
Qed.

(* the format rejects such a symbol *)
Lemma bad_copy2_sem h s : bad_copy2 h s -> sem_sym None h s = None.
Proof.
  destruct s as [b|dist len| |i len|]; cbn [bad_copy2]; try contradiction.
  - intros (_ & _ & H). cbn [sem_sym]. rewrite (can_copy_far2 h dist H). reflexivity.
  - intros H. cbn [sem_sym]. rewrite (can_copy_far2 h _ H). reflexivity.
  - intros (_ & _ & H). apply can_copy_far2 in H. revert H. unfold sem_sym, rot.
    destruct (i =? 0); [|destruct (i =? 1); [|destruct (i =? 2)]]; cbn [reps_of rep0];
      intros ->; rewrite andb_false_r; reflexivity.
Qed.

Lemma bad_copy2_not_marker h s : bad_copy2 h s -> s <> EndMarker.
Proof. intros H E. subst s. exact H. Qed.

(* ---------- (1) T-sym for an ill-formed copy, unbounded window ---------- *)
Theorem process_next_inner_rejects_bad_copy2_runs p fp st h s rest :
  props_match p fp -> bad_copy2 h s ->
  runs None (process_next_inner p (mkSym st (reps_of h)) true)
       (fst (sym_evs fp st h s) ++ rest, h) (Failed ELzma) (rest, h).
Proof.
  intros (Hlc & Hlp & Hpb & Elc & Elp & Epb) Hbad.
  unfold sym_evs. rewrite Epb.
  destruct s as [b|dist len| |i len|]; cbn [bad_copy2] in Hbad; try contradiction; cbn [fst app].
  - (* Match *)
    destruct Hbad as (Hlen & Hd & Hfar). apply len_ok_bounds in Hlen.
    apply (pni_runs_copy None p (mkSym st (reps_of h)) h _ _ _ Hpb). cbn [y_state].
    apply runs_bit. rewrite <- app_assoc.
    apply match_arm_rejects; [lia|lia|].
    replace (dist - 1 + 1) with dist by lia. apply can_copy_far2. exact Hfar.
  - (* ShortRep *)
    apply (pni_runs_copy None p (mkSym st (reps_of h)) h _ _ _ Hpb). cbn [y_state].
    apply runs_bit. apply rep_arm_short_rejects. apply can_copy_far2. exact Hbad.
  - (* Rep *)
    destruct Hbad as (Hi & Hlen & Hfar). apply len_ok_bounds in Hlen.
    apply (pni_runs_copy None p (mkSym st (reps_of h)) h _ _ _ Hpb). cbn [y_state].
    apply runs_bit. rewrite <- app_assoc.
    fold (rep_choice_evs st (N.land (h_len h) (2 ^ pb p - 1)) i).
    apply rep_arm_rep_rejects; [lia|]. apply can_copy_far2. exact Hfar.
Qed.

(* in the plain form: exactly the events of the bad symbol are consumed, the window
   operation is refused, no byte is appended to the history *)
Theorem process_next_inner_rejects_bad_copy2 p fp st h s rest :
  props_match p fp -> bad_copy2 h s ->
  interp (oracle None) (process_next_inner p (mkSym st (reps_of h)) true)
         (fst (sym_evs fp st h s) ++ rest, h)
  = (Failed ELzma, (rest, h)).
Proof. intros Hp Hb. apply (process_next_inner_rejects_bad_copy2_runs p fp st h s rest Hp Hb). Qed.
Print Assumptions process_next_inner_rejects_bad_copy2.

(* ---------- (2) the concrete handler follows every run that avoids FinishedOk ---------- *)
Section RefineNoFin2.
  Variables (lcp : N) (pre : list N) (ief : ienc) (tf : ptabs) (delta : N) (trail : list N)
            (pos_end fl hmax : N).
  Hypothesis Hdelta : delta < i_range ief.
  Hypothesis Hmax : hmax <= 18446744073709551615.

  Notation REL := (Rel2 lcp pre ief tf delta trail pos_end fl).
  Notation RELW := (RelWin2 pre fl).

  (* the accumulating window refuses what the unbounded-window oracle refuses *)
  Lemma relwin2_last_n_err wn h dist : RELW wn h -> 1 <= dist -> can_copy None h dist = false ->
    win_last_n wn dist = (Failed ELzma, wn).
  Proof.
    intros (a & -> & HI & _ & _ & _ & Hl & _) H1 Hcc. rewrite (can_copy_none h dist Hl) in Hcc.
    cbn [win_last_n]. rewrite (accum_last_n_spec pre a _ dist HI H1). rewrite nlen_rev.
    destruct (N.leb_spec 1 dist) as [_|]; [|lia]. cbn [andb] in Hcc. rewrite Hcc. reflexivity.
  Qed.

  Lemma relwin2_append_lz_err wn h len dist : RELW wn h -> 1 <= dist -> can_copy None h dist = false ->
    win_append_lz wn len dist = (Failed ELzma, wn).
  Proof.
    intros (a & -> & HI & _ & _ & _ & Hl & _) H1 Hcc. rewrite (can_copy_none h dist Hl) in Hcc.
    cbn [win_append_lz]. pose proof (accum_append_lz_spec pre a _ len dist HI H1) as SP. rewrite nlen_rev in SP.
    destruct (N.leb_spec 1 dist) as [_|]; [|lia]. cbn [andb] in Hcc. rewrite Hcc in SP. rewrite SP. reflexivity.
  Qed.

  Lemma step2_err {X} (o : decE X) e s1 s2 t2 : REL s1 s2 -> op_pre (cell_in lcp) o ->
    oracle None _ o s2 = HErr e t2 ->
    exists t1, dec_h _ o s1 = HErr e t1 /\ REL t1 t2.
  Proof.
    intros (real & Ef & HC & HW) Hpre Ho. destruct s2 as [evs ho]. cbn [fst snd] in *.
    destruct o; cbn [oracle fst snd op_pre] in *; try discriminate.
    - destruct evs as [|[c' b|b] t]; try discriminate. destruct (cell_eq_dec c' c); discriminate.
    - destruct (pop_direct (N.to_nat count) 0 evs) as [[v t]|]; discriminate.
    - destruct (can_copy None ho dist) eqn:Hcc; [discriminate|]. inversion Ho; subst e t2.
      cbn [dec_h]. rewrite (relwin2_last_n_err _ _ dist HW Hpre Hcc). unfold lift_win.
      eexists. split; [reflexivity|]. exists real. cbn [fst snd d_tabs d_rc d_src d_win]. split; [exact Ef|]. split; assumption.
    - destruct (can_copy None ho dist) eqn:Hcc; [discriminate|]. inversion Ho; subst e t2.
      cbn [dec_h]. rewrite (relwin2_append_lz_err _ _ len dist HW Hpre Hcc). unfold lift_win.
      eexists. split; [reflexivity|]. exists real. cbn [fst snd d_tabs d_rc d_src d_win]. split; [exact Ef|]. split; assumption.
  Qed.

  Theorem refine2_nofin {A} (Q : A -> Prop) (p : dprog A) :
    safe_prog (cell_in lcp) Q p -> shape p ->
    forall s1 s2 r t2, REL s1 s2 -> nofin None p s2 ->
    interp (oracle None) p s2 = (r, t2) -> (forall w, r <> Panicked w) -> h_len (snd t2) <= hmax ->
    exists t1, interp dec_h p s1 = (r, t1) /\ REL t1 t2.
  Proof.
    intros Hsafe. induction Hsafe as [a0 Ha|e|X o k Hpre Hk IH]; intros Hsh s1 s2 r t2 HR Hnf Hi Hnp Hb.
    - cbn [interp] in *. inversion Hi; subst. exists s1. split; [reflexivity|exact HR].
    - cbn [interp] in *. inversion Hi; subst. exists s1. split; [reflexivity|exact HR].
    - cbn [interp shape nofin] in *. destruct Hsh as [Hop Hsh']. destruct Hnf as [Hfin Hnf].
      destruct (oracle None X o s2) as [x u2|e u2|w u2] eqn:E2.
      + assert (Hu2 : h_len (snd u2) <= hmax).
        { pose proof (oracle_len_mono None (k x) (h_len (snd u2)) u2 (N.le_refl _)) as M. rewrite Hi in M.
          cbn [snd] in M. lia. }
        assert (STEP : ans_ok o x /\ exists u1, dec_h X o s1 = HOk x u1 /\ REL u1 u2).
        { destruct o; cbn [op_shape op_pre ans_ok is_fin] in *.
          - subst upd. split; [exact I|].
            exact (step2_bit lcp pre ief tf delta trail pos_end fl hmax Hdelta Hmax c x s1 s2 u2 HR Hpre E2).
          - exact (step2_direct lcp pre ief tf delta trail pos_end fl hmax Hdelta Hmax count x s1 s2 u2 HR Hop E2).
          - discriminate.
          - exact (step2_win lcp pre ief tf delta trail pos_end fl hmax Hdelta Hmax WLen x s1 s2 u2 HR Hpre I E2 Hu2).
          - exact (step2_win lcp pre ief tf delta trail pos_end fl hmax Hdelta Hmax (WLastOr d) x s1 s2 u2 HR Hpre I E2 Hu2).
          - exact (step2_win lcp pre ief tf delta trail pos_end fl hmax Hdelta Hmax (WLastN dist) x s1 s2 u2 HR Hpre I E2 Hu2).
          - exact (step2_win lcp pre ief tf delta trail pos_end fl hmax Hdelta Hmax (WAppendLit b) x s1 s2 u2 HR Hpre I E2 Hu2).
          - exact (step2_win lcp pre ief tf delta trail pos_end fl hmax Hdelta Hmax (WAppendLz len dist) x s1 s2 u2 HR Hpre I E2 Hu2). }
        destruct STEP as (Hans & u1 & E1 & HR'). rewrite E1. eapply IH; eauto.
      + inversion Hi; subst r t2.
        destruct (step2_err o e s1 s2 u2 HR Hpre E2) as (u1 & E1 & HR').
        rewrite E1. exists u1. split; [reflexivity|exact HR'].
      + inversion Hi; subst r. exfalso. apply (Hnp w). reflexivity.
  Qed.

  (* what a refused window operation leaves behind: the sink is untouched and the window still
     holds exactly the history *)
  Lemma relwin2_sink wn h : RELW wn h -> snk_bytes (win_snk wn) = pre.
  Proof. intros (a & -> & HI & _). cbn [win_snk]. apply HI. Qed.

  Lemma rel2_same_data x e ho h : REL x (e, ho) -> h_bytes ho = h_bytes h -> h_len ho = h_len h -> REL x (e, h).
  Proof.
    intros (real & Ef & HC & HW) Eb El. exists real. cbn [fst snd] in *.
    split; [exact Ef|]. split; [exact HC|].
    destruct HW as (a & Ew & HI & Hm & Hff & Hfl & Hl & Hby).
    exists a. rewrite <- Eb, <- El. split; [exact Ew|]. split; [exact HI|]. split; [exact Hm|].
    split; [exact Hff|]. split; [exact Hfl|]. split; [exact Hl|exact Hby].
  Qed.
End RefineNoFin2.
Print Assumptions refine2_nofin.

(* (1) + (2): the concrete LZMA2 decoder on the events of a bad copy *)
Theorem dec_h_rejects_bad_copy2 lcv pre ief tf delta trail pos_end fl p fp st h s rest x :
  delta < i_range ief -> props_match p fp -> lcv = lc p + lp p -> st < 12 -> bad_copy2 h s ->
  h_len h <= 18446744073709551615 ->
  Rel2 lcv pre ief tf delta trail pos_end fl x (fst (sym_evs fp st h s) ++ rest, h) ->
  exists x', interp dec_h (process_next_inner p (mkSym st (reps_of h)) true) x = (Failed ELzma, x') /\
             Rel2 lcv pre ief tf delta trail pos_end fl x' (rest, h).
Proof.
  intros Hdelta Hpm -> Hst Hbad Hlen HR.
  destruct (process_next_inner_rejects_bad_copy2_runs p fp st h s rest Hpm Hbad) as [Hi Hn].
  apply (refine2_nofin (lc p + lp p) pre ief tf delta trail pos_end fl 18446744073709551615 Hdelta (N.le_refl _)
           (psym_ok (fun _ => True)) _ (pni_safe2 fp p Hpm st (reps_of h) Hst)
           (shape_process_next_inner p _) _ _ _ _ HR Hn Hi).
  - intros w. discriminate.
  - cbn [snd]. exact Hlen.
Qed.
Print Assumptions dec_h_rejects_bad_copy2.
