(* C05: process_mode on fully visible sources, as a function on abstract decoder states
   (decoder state, registers, window, list of unread bytes). *)
From LZ Require Import Base.Prelude Base.Prog Model.Io Model.Tables Model.LzBuffer Model.RangeDec Model.Lzma.
From LZ Require Import Proofs.ProgLemmas Proofs.IoLemmas Proofs.StreamSimAbs Proofs.StreamSimSym.
From Coq Require Import ZifyBool ZifyNat ZifyN.
Local Open Scope prog_scope.

(* ====================================================================== *)
(* The reads of process_mode on a fully visible source                      *)
(* ====================================================================== *)
Definition src_same (s s' : src) : Prop := FullVis s' /\ s_rest s' = s_rest s /\ s_pos s' = s_pos s.

Lemma run_is_eof s : FullVis s ->
  exists s', src_run is_eof s = (Done (match s_rest s with [] => true | _ => false end), s') /\ src_same s s'.
Proof.
  intros Hs. destruct (src_sim_src_run _ _ s src_sim_is_eof Hs) as (s' & E & Hs' & Hr & Hp).
  unfold an_eof in *. cbn [fst snd] in *. exists s'. split; [exact E|]. split; [exact Hs'|]. split; [exact Hr|].
  rewrite Hr in Hp. lia.
Qed.

Lemma run_finished_ok r s : FullVis s ->
  exists s', src_run (rc_is_finished_ok r) s =
               (Done (if r_code r =? 0 then match s_rest s with [] => true | _ => false end else false), s') /\ src_same s s'.
Proof.
  intros Hs. destruct (src_sim_src_run _ _ s (sim_finished_ok r) Hs) as (s' & E & Hs' & Hr & Hp).
  unfold an_finished_ok, an_eof, mret in *. exists s'.
  destruct (r_code r =? 0); cbn [fst snd] in *; (split; [exact E|]); (split; [exact Hs'|]); (split; [exact Hr|]);
    rewrite Hr in Hp; lia.
Qed.

Lemma run_fill s : FullVis s ->
  exists s', src_run (icall FillBuf) s = (Done (s_rest s, nlen (s_rest s)), s') /\ src_same s s'.
Proof.
  intros Hs. destruct (src_fill_full s Hs) as (s' & E & Hs' & Hr & Hp).
  exists s'. split; [|split; [exact Hs'|split; assumption]].
  unfold src_run, run_io. rewrite interp_call. cbn [io_h i_src]. rewrite E. reflexivity.
Qed.

Lemma nfirstn_min {A} n (l : list A) : nfirstn (N.min n (nlen l)) l = nfirstn n l.
Proof.
  destruct (N.le_gt_cases n (nlen l)) as [H|H]; [rewrite N.min_l by exact H; reflexivity|].
  rewrite N.min_r by lia. rewrite nfirstn_all. unfold nfirstn, nlen in *. symmetry. apply firstn_all2. lia.
Qed.
Lemma nskipn_min {A} n (l : list A) : nskipn (N.min n (nlen l)) l = nskipn n l.
Proof.
  destruct (N.le_gt_cases n (nlen l)) as [H|H]; [rewrite N.min_l by exact H; reflexivity|].
  rewrite N.min_r by lia. rewrite nskipn_all. unfold nskipn, nlen in *. symmetry. apply skipn_all2. lia.
Qed.

Lemma run_read_buf n s : FullVis s ->
  exists s', src_run (read_buf n) s = (Done (nfirstn n (s_rest s)), s') /\ FullVis s' /\
             s_rest s' = nskipn n (s_rest s) /\ s_pos s' + nlen (s_rest s') = s_pos s + nlen (s_rest s).
Proof.
  intros Hs. unfold read_buf. destruct (N.eqb_spec n 0) as [->|Hn].
  - exists s. split; [reflexivity|]. split; [exact Hs|]. split; reflexivity.
  - destruct (src_fill_full s Hs) as (s1 & E & Hs1 & Hr1 & Hp1).
    unfold src_run, run_io. rewrite interp_bind, interp_call. cbn [io_h i_src]. rewrite E.
    rewrite interp_bind, interp_call. cbn [io_h i_src i_snk fst snd interp].
    rewrite nfirstn_min. eexists. split; [reflexivity|].
    split; [apply src_consume_full; exact Hs1|].
    unfold src_consume. cbn [s_rest s_pos]. rewrite Hr1, Hp1, nlen_nfirstn, nskipn_min.
    split; [reflexivity|]. rewrite nlen_nskipn. lia.
Qed.

(* ====================================================================== *)
(* pm_body, cut into its parts (copied from Model/Lzma.v)                   *)
(* ====================================================================== *)
Definition chead (mode : pmode) (w : lw) : outcome bool * lw :=
  let d := l_ds w in
  match ds_unpacked d with
  | Some us => (Done (us <=? win_len (l_win w)), w)
  | None =>
      match mode with
      | Partial =>
          match src_run is_eof (l_src w) with
          | (Done e, s) => (Done (e && (nlen (ds_pib d) =? 0)), mkLw d (l_rc w) s (l_win w))
          | (Failed e, s) => (Failed e, mkLw d (l_rc w) s (l_win w))
          | (Panicked p, s) => (Panicked p, mkLw d (l_rc w) s (l_win w))
          end
      | FinishMode =>
          if rep0 (ds_rep d) =? 4294967295 then
            match src_run (rc_is_finished_ok (l_rc w)) (l_src w) with
            | (Done e, s) => (Done (e && (nlen (ds_pib d) =? 0)), mkLw d (l_rc w) s (l_win w))
            | (Failed e, s) => (Failed e, mkLw d (l_rc w) s (l_win w))
            | (Panicked p, s) => (Panicked p, mkLw d (l_rc w) s (l_win w))
            end
          else (Done false, w)
      end
  end.

Definition cpib (mode : pmode) (w1 : lw) : step lw pm_result :=
  match read_partial_input_buf w1 with
  | (Failed e, w2) => Break (Failed e, w2)
  | (Panicked p, w2) => Break (Panicked p, w2)
  | (Done _, w2) =>
    let pib := ds_pib (l_ds w2) in
    let need_more : outcome bool :=
      match mode with
      | Partial => if nlen pib <? MAX_REQUIRED_INPUT then try_process_next w2 pib else Done false
      | FinishMode => Done false
      end in
    match need_more with
    | Failed e => Break (Failed e, w2)
    | Panicked p => Break (Panicked p, w2)
    | Done true => Break (Done tt, w2)
    | Done false =>
      match run_sym true (mkLw (l_ds w2) (l_rc w2) (cursor_of pib) (l_win w2)) with
      | (Failed e, t) => Break (Failed e, mkLw (l_ds t) (l_rc w2) (l_src w2) (l_win t))
      | (Panicked p, t) => Break (Panicked p, mkLw (l_ds t) (l_rc w2) (l_src w2) (l_win t))
      | (Done res, t) =>
        let consumed := s_pos (l_src t) in
        if nlen pib <? consumed then Break (Panicked (POverflow 40), w2) else
        let w3 := mkLw (set_pib (l_ds t) (nskipn consumed pib)) (l_rc t) (l_src w2) (l_win t) in
        match res with
        | Finished => Break (Done tt, w3)
        | Continue => Next w3
        end
      end
    end
  end.

Definition cdirect (mode : pmode) (w1 : lw) : step lw pm_result :=
  match src_run (icall FillBuf) (l_src w1) with
  | (Failed e, s) => Break (Failed e, mkLw (l_ds w1) (l_rc w1) s (l_win w1))
  | (Panicked p, s) => Break (Panicked p, mkLw (l_ds w1) (l_rc w1) s (l_win w1))
  | (Done buf, s) =>
    let w2 := mkLw (l_ds w1) (l_rc w1) s (l_win w1) in
    let need_more : outcome bool :=
      match mode with
      | Partial => if snd buf <? MAX_REQUIRED_INPUT then try_process_next w2 (visible buf) else Done false
      | FinishMode => Done false
      end in
    match need_more with
    | Failed e => Break (Failed e, w2)
    | Panicked p => Break (Panicked p, w2)
    | Done true => Break (read_partial_input_buf w2)
    | Done false =>
      match run_sym true w2 with
      | (Failed e, w3) => Break (Failed e, w3)
      | (Panicked p, w3) => Break (Panicked p, w3)
      | (Done Finished, w3) => Break (Done tt, w3)
      | (Done Continue, w3) => Next w3
      end
    end
  end.

Lemma pm_body_parts mode w :
  pm_body mode w =
  match chead mode w with
  | (Failed e, w1) => Break (Failed e, w1)
  | (Panicked p, w1) => Break (Panicked p, w1)
  | (Done true, w1) => Break (Done tt, w1)
  | (Done false, w1) => if 0 <? nlen (ds_pib (l_ds w1)) then cpib mode w1 else cdirect mode w1
  end.
Proof. reflexivity. Qed.

(* ====================================================================== *)
(* The abstract body                                                        *)
(* ====================================================================== *)
Definition in_empty (i : list N) : bool := match i with [] => true | _ => false end.

Definition ahead (mode : pmode) (a : ast) : bool :=
  let d := x_ds a in
  match ds_unpacked d with
  | Some us => us <=? win_len (x_win a)
  | None =>
      match mode with
      | Partial => in_empty (x_in a) && (nlen (ds_pib d) =? 0)
      | FinishMode =>
          if rep0 (ds_rep d) =? 4294967295
          then (if r_code (x_rc a) =? 0 then in_empty (x_in a) else false) && (nlen (ds_pib d) =? 0)
          else false
      end
  end.

Definition atry (a : ast) (buf : list N) : outcome bool :=
  match fst (arun false (with_in a buf)) with
  | Done _ => Done false
  | Failed _ => Done true
  | Panicked p => Panicked p
  end.

Definition arpib (a : ast) : outcome unit * ast :=
  let pib := ds_pib (x_ds a) in
  if 20 <? nlen pib then (Panicked (PIndex 20), a) else
  let n := 20 - nlen pib in
  (Done tt, mkAst (set_pib (x_ds a) (pib ++ nfirstn n (x_in a))) (x_rc a) (x_win a) (nskipn n (x_in a))).

Definition apib (mode : pmode) (a : ast) : step ast (outcome unit * ast) :=
  match arpib a with
  | (Failed e, a2) => Break (Failed e, a2)
  | (Panicked p, a2) => Break (Panicked p, a2)
  | (Done _, a2) =>
    let pib := ds_pib (x_ds a2) in
    let need_more : outcome bool :=
      match mode with
      | Partial => if nlen pib <? 20 then atry a2 pib else Done false
      | FinishMode => Done false
      end in
    match need_more with
    | Failed e => Break (Failed e, a2)
    | Panicked p => Break (Panicked p, a2)
    | Done true => Break (Done tt, a2)
    | Done false =>
      match arun true (with_in a2 pib) with
      | (Failed e, t) => Break (Failed e, mkAst (x_ds t) (x_rc a2) (x_win t) (x_in a2))
      | (Panicked p, t) => Break (Panicked p, mkAst (x_ds t) (x_rc a2) (x_win t) (x_in a2))
      | (Done res, t) =>
        let a3 := mkAst (set_pib (x_ds t) (x_in t)) (x_rc t) (x_win t) (x_in a2) in
        match res with
        | Finished => Break (Done tt, a3)
        | Continue => Next a3
        end
      end
    end
  end.

Definition adirect (mode : pmode) (a : ast) : step ast (outcome unit * ast) :=
  let need_more : outcome bool :=
    match mode with
    | Partial => if nlen (x_in a) <? 20 then atry a (x_in a) else Done false
    | FinishMode => Done false
    end in
  match need_more with
  | Failed e => Break (Failed e, a)
  | Panicked p => Break (Panicked p, a)
  | Done true => Break (arpib a)
  | Done false =>
    match arun true a with
    | (Failed e, t) => Break (Failed e, t)
    | (Panicked p, t) => Break (Panicked p, t)
    | (Done Finished, t) => Break (Done tt, t)
    | (Done Continue, t) => Next t
    end
  end.

Definition abody (mode : pmode) (a : ast) : step ast (outcome unit * ast) :=
  if ahead mode a then Break (Done tt, a)
  else if 0 <? nlen (ds_pib (x_ds a)) then apib mode a else adirect mode a.

Definition aprocess (mode : pmode) (fuel : positive) (a : ast) : outcome unit * ast :=
  match loopN fuel (abody mode) a with
  | Next a' => (Panicked (PFuel 10), a')
  | Break (Done _, a') =>
      match ds_unpacked (x_ds a'), mode with
      | Some len, FinishMode => if len =? win_len (x_win a') then (Done tt, a') else (Failed ELzma, a')
      | _, _ => (Done tt, a')
      end
  | Break r => r
  end.

(* ====================================================================== *)
(* Refinement                                                               *)
(* ====================================================================== *)
Lemma lw_abs_same c w a s' : lw_abs c w a -> src_same (l_src w) s' ->
  lw_abs c (mkLw (l_ds w) (l_rc w) s' (l_win w)) a.
Proof.
  intros (Hd & Hr & Hw & Hs & Hi & Hp) (Hs' & Hr' & Hp'). unfold lw_abs. cbn [l_ds l_rc l_win l_src].
  split; [exact Hd|]. split; [exact Hr|]. split; [exact Hw|]. split; [exact Hs'|]. split; congruence.
Qed.

Lemma chead_abs mode c w a : lw_abs c w a ->
  fst (chead mode w) = Done (ahead mode a) /\ lw_abs c (snd (chead mode w)) a.
Proof.
  intros H. pose proof H as (Hd & Hr & Hw & Hs & Hi & Hp). unfold chead, ahead. cbv zeta. rewrite <- Hd.
  destruct (ds_unpacked (l_ds w)) as [us|].
  - cbn [fst snd]. rewrite Hw. split; [reflexivity|exact H].
  - destruct mode.
    + destruct (run_is_eof _ Hs) as (s' & E & Hsame). rewrite E. cbn [fst snd].
      split; [rewrite Hi; reflexivity|]. apply (lw_abs_same c w a s' H Hsame).
    + destruct (rep0 (ds_rep (l_ds w)) =? 4294967295); [|cbn [fst snd]; split; [reflexivity|exact H]].
      destruct (run_finished_ok (l_rc w) _ Hs) as (s' & E & Hsame). rewrite E. cbn [fst snd].
      split; [rewrite Hi, Hr; reflexivity|]. apply (lw_abs_same c w a s' H Hsame).
Qed.

Lemma rpib_abs c w a : lw_abs c w a ->
  fst (read_partial_input_buf w) = fst (arpib a) /\ lw_abs c (snd (read_partial_input_buf w)) (snd (arpib a)).
Proof.
  intros H. pose proof H as (Hd & Hr & Hw & Hs & Hi & Hp). unfold read_partial_input_buf, arpib, MAX_REQUIRED_INPUT. cbv zeta.
  rewrite <- Hd. destruct (20 <? nlen (ds_pib (l_ds w))); [cbn [fst snd]; split; [reflexivity|exact H]|].
  destruct (run_read_buf (20 - nlen (ds_pib (l_ds w))) _ Hs) as (s' & E & Hs' & Hr' & Hp').
  rewrite E. cbn [fst snd]. split; [reflexivity|]. unfold lw_abs. cbn [l_ds l_rc l_win l_src x_ds x_rc x_win x_in].
  rewrite <- Hi, <- Hr'. split; [reflexivity|]. split; [exact Hr|]. split; [exact Hw|]. split; [exact Hs'|].
  split; [reflexivity|]. rewrite Hi in Hp'. lia.
Qed.

Lemma try_abs c w a buf : lw_abs c w a -> nlen buf <= BIG -> try_process_next w buf = atry a buf.
Proof.
  intros (Hd & Hr & Hw & Hs & Hi & Hp) Hb. unfold try_process_next, atry.
  assert (HA : lw_abs (nlen buf) (mkLw (l_ds w) (l_rc w) (cursor_of buf) (l_win w)) (with_in a buf)).
  { unfold lw_abs, with_in. cbn [l_ds l_rc l_win l_src x_ds x_rc x_win x_in].
    split; [exact Hd|]. split; [exact Hr|]. split; [exact Hw|]. split; [apply cursor_FullVis; exact Hb|]. split; reflexivity. }
  destruct (run_sym_abs false _ _ _ HA) as [F _]. rewrite <- F.
  destruct (run_sym false _) as [[st|e|q] t]; reflexivity.
Qed.

Lemma nskipn_suffix (pib rest : list N) : suffix_of rest pib -> nskipn (nlen pib - nlen rest) pib = rest.
Proof.
  intros [pre ->]. rewrite nlen_app. replace (nlen pre + nlen rest - nlen rest) with (nlen pre) by lia.
  unfold nskipn, nlen. rewrite Nat2N.id. rewrite skipn_app, skipn_all, Nat.sub_diag. reflexivity.
Qed.

Lemma arpib_len a u a2 : arpib a = (Done u, a2) -> nlen (ds_pib (x_ds a2)) <= 20.
Proof.
  unfold arpib. cbv zeta. destruct (N.ltb_spec 20 (nlen (ds_pib (x_ds a)))) as [|Hle]; [discriminate|].
  intros E. inversion E; subst. cbn [x_ds set_pib ds_pib]. rewrite nlen_app, nlen_nfirstn. lia.
Qed.

Definition step_rel (c : N) (x : step lw pm_result) (y : step ast (outcome unit * ast)) : Prop :=
  match x, y with
  | Next w', Next a' => lw_abs c w' a'
  | Break (r, w'), Break (r', a') => r = r' /\ lw_abs c w' a'
  | _, _ => False
  end.

Lemma cpib_abs mode c w a : lw_abs c w a -> step_rel c (cpib mode w) (apib mode a).
Proof.
  intros H. unfold cpib, apib. destruct (rpib_abs c w a H) as [F R].
  destruct (read_partial_input_buf w) as [[u|e|q] w2]; destruct (arpib a) as [[u'|e'|q'] a2] eqn:EA; cbn [fst snd] in *;
    try discriminate; try (injection F as ->; cbn [step_rel]; split; [reflexivity|exact R]).
  cbv zeta. pose proof R as (Hd & Hr & Hw & Hs & Hi & Hp). unfold MAX_REQUIRED_INPUT. rewrite Hd.
  set (pib := ds_pib (x_ds a2)).
  assert (NM : match mode with Partial => if nlen pib <? 20 then try_process_next w2 pib else Done false | FinishMode => Done false end
             = match mode with Partial => if nlen pib <? 20 then atry a2 pib else Done false | FinishMode => Done false end).
  { destruct mode; [|reflexivity]. destruct (N.ltb_spec (nlen pib) 20); [|reflexivity].
    apply (try_abs c w2 a2 pib R). unfold BIG. lia. }
  rewrite NM. clear NM.
  destruct (match mode with Partial => if nlen pib <? 20 then atry a2 pib else Done false | FinishMode => Done false end) as [[|]|e|q];
    try (cbn [step_rel]; split; [reflexivity|exact R]).
  (* the real run on the staged bytes *)
  assert (Hbig : nlen pib <= BIG) by (pose proof (arpib_len _ _ _ EA); unfold pib, BIG; lia).
  assert (HA : lw_abs (nlen pib) (mkLw (x_ds a2) (l_rc w2) (cursor_of pib) (l_win w2)) (with_in a2 pib)).
  { unfold lw_abs, with_in. cbn [l_ds l_rc l_win l_src x_ds x_rc x_win x_in].
    split; [reflexivity|]. split; [exact Hr|]. split; [exact Hw|]. split; [apply cursor_FullVis; exact Hbig|]. split; reflexivity. }
  destruct (run_sym_abs true _ _ _ HA) as [F2 R2].
  pose proof (arun_suffix true (with_in a2 pib)) as Hsuf. cbn [with_in x_in] in Hsuf.
  destruct (run_sym true _) as [[res|e|q] t]; destruct (arun true (with_in a2 pib)) as [[res'|e'|q'] t']; cbn [fst snd] in *;
    try discriminate; injection F2 as ->; destruct R2 as (Td & Tr & Tw & Ts & Ti & Tp).
  - assert (Hc : s_pos (l_src t) = nlen pib - nlen (x_in t')) by lia.
    destruct (N.ltb_spec (nlen pib) (s_pos (l_src t))) as [Hbad|_]; [apply suffix_nlen in Hsuf; lia|].
    rewrite Hc, (nskipn_suffix pib (x_in t') Hsuf).
    assert (R3 : lw_abs c (mkLw (set_pib (l_ds t) (x_in t')) (l_rc t) (l_src w2) (l_win t))
                         (mkAst (set_pib (x_ds t') (x_in t')) (x_rc t') (x_win t') (x_in a2))).
    { unfold lw_abs. cbn [l_ds l_rc l_win l_src x_ds x_rc x_win x_in]. rewrite Td, Tr, Tw.
      split; [reflexivity|]. split; [reflexivity|]. split; [reflexivity|]. split; [exact Hs|]. split; assumption. }
    destruct res'; cbn [step_rel]; [exact R3|split; [reflexivity|exact R3]].
  - cbn [step_rel]. split; [reflexivity|]. unfold lw_abs. cbn [l_ds l_rc l_win l_src x_ds x_rc x_win x_in].
    rewrite Td, Tw. split; [reflexivity|]. split; [exact Hr|]. split; [reflexivity|]. split; [exact Hs|]. split; assumption.
  - cbn [step_rel]. split; [reflexivity|]. unfold lw_abs. cbn [l_ds l_rc l_win l_src x_ds x_rc x_win x_in].
    rewrite Td, Tw. split; [reflexivity|]. split; [exact Hr|]. split; [reflexivity|]. split; [exact Hs|]. split; assumption.
Qed.

Lemma cdirect_abs mode c w a : lw_abs c w a -> step_rel c (cdirect mode w) (adirect mode a).
Proof.
  intros H. pose proof H as (Hd & Hr & Hw & Hs & Hi & Hp). unfold cdirect, adirect.
  destruct (run_fill _ Hs) as (s' & E & Hsame). rewrite E. cbv zeta. cbn [snd].
  pose proof (lw_abs_same c w a s' H Hsame) as R. set (w2 := mkLw (l_ds w) (l_rc w) s' (l_win w)) in *.
  unfold MAX_REQUIRED_INPUT, visible. cbn [fst snd]. rewrite nfirstn_all, Hi.
  assert (NM : match mode with Partial => if nlen (x_in a) <? 20 then try_process_next w2 (x_in a) else Done false | FinishMode => Done false end
             = match mode with Partial => if nlen (x_in a) <? 20 then atry a (x_in a) else Done false | FinishMode => Done false end).
  { destruct mode; [|reflexivity]. destruct (N.ltb_spec (nlen (x_in a)) 20); [|reflexivity].
    apply (try_abs c w2 a (x_in a) R). unfold BIG. lia. }
  rewrite NM. clear NM.
  destruct (match mode with Partial => if nlen (x_in a) <? 20 then atry a (x_in a) else Done false | FinishMode => Done false end) as [[|]|e|q];
    try (cbn [step_rel]; split; [reflexivity|exact R]).
  - destruct (rpib_abs c w2 a R) as [F2 R2].
    destruct (read_partial_input_buf w2) as [r2 w3]; destruct (arpib a) as [r2' a3]; cbn [fst snd step_rel] in *. split; assumption.
  - destruct (run_sym_abs true _ _ _ R) as [F2 R2].
    destruct (run_sym true w2) as [[res|e|q] t]; destruct (arun true a) as [[res'|e'|q'] t']; cbn [fst snd] in *;
      try discriminate; injection F2 as ->; [destruct res'|..]; cbn [step_rel]; try (split; [reflexivity|exact R2]); exact R2.
Qed.

Theorem pm_body_abs mode c w a : lw_abs c w a -> step_rel c (pm_body mode w) (abody mode a).
Proof.
  intros H. rewrite pm_body_parts. unfold abody. destruct (chead_abs mode c w a H) as [F R].
  destruct (chead mode w) as [r w1]; cbn [fst snd] in *. subst r.
  destruct (ahead mode a); [cbn [step_rel]; split; [reflexivity|exact R]|].
  destruct R as (Hd & R'). rewrite Hd. pose proof (conj Hd R') as R.
  destruct (0 <? nlen (ds_pib (x_ds a))); [apply cpib_abs; exact R|apply cdirect_abs; exact R].
Qed.

Theorem process_mode_abs mode fuel c w a : lw_abs c w a ->
  fst (process_mode mode fuel w) = fst (aprocess mode fuel a) /\
  lw_abs c (snd (process_mode mode fuel w)) (snd (aprocess mode fuel a)).
Proof.
  intros H. unfold process_mode, aprocess.
  pose proof (loopN_sim (pm_body mode) (abody mode) (lw_abs c)
                (fun r r' => fst r = fst r' /\ lw_abs c (snd r) (snd r'))) as LS.
  assert (Hb : forall s1 s2, lw_abs c s1 s2 ->
     match pm_body mode s1, abody mode s2 with
     | Next t1, Next t2 => lw_abs c t1 t2
     | Break r1, Break r2 => fst r1 = fst r2 /\ lw_abs c (snd r1) (snd r2)
     | _, _ => False
     end).
  { intros s1 s2 Hs. pose proof (pm_body_abs mode c s1 s2 Hs) as P. unfold step_rel in P.
    destruct (pm_body mode s1) as [t1|[r1 t1]]; destruct (abody mode s2) as [t2|[r2 t2]]; cbn [fst snd]; exact P. }
  specialize (LS Hb fuel w a H).
  destruct (loopN fuel (pm_body mode) w) as [w'|[r w']]; destruct (loopN fuel (abody mode) a) as [a'|[r' a']];
    try contradiction; cbn [fst snd] in *.
  - split; [reflexivity|exact LS].
  - destruct LS as [-> R]. destruct r' as [u|e|q]; cbn [fst snd]; try (split; [reflexivity|exact R]).
    pose proof R as (Hd & _ & Hw & _). rewrite Hd, Hw.
    destruct (ds_unpacked (x_ds a')) as [len|]; [|cbn [fst snd]; split; [reflexivity|exact R]].
    destruct mode; [cbn [fst snd]; split; [reflexivity|exact R]|].
    destruct (len =? win_len (x_win a')); cbn [fst snd]; split; try reflexivity; exact R.
Qed.
Print Assumptions process_mode_abs.
