(* Cut-short inputs, I/O layer (properties C08 / C17).
   [tr E e s1 s2]: the source [s1] is a truncation of [s2]: same position, the unread data of
   [s2] extends the unread data of [s1], [s1] can deliver at most as many bytes as [s2]
   (its data is shorter and / or its Take limit is smaller), and the two ghost bounds
     s_pos s1 + cap s1 <= e         (no read of s1 ever moves it beyond position e)
     s_pos s1 + |s_rest s1| <= E    (the same bound once a Take limit is removed)
   hold.  Every derived read of the decoders, run on both sources, either answers alike and
   leaves them related (lock step), or FAILS on the truncated one. *)
From LZ Require Import Base.Prelude Base.Prog Model.Io Model.Tables Model.LzBuffer Model.RangeDec Model.Lzma Model.Lzma2
  Proofs.ProgLemmas Proofs.IoLemmas Proofs.FragIo.
From Coq Require Import ZifyBool ZifyNat ZifyN.
Local Open Scope prog_scope.

(* ---------- the relation ---------- *)
Definition tr (E e : N) (s1 s2 : src) : Prop :=
  FaultFreeL s1 /\ FaultFreeL s2 /\ s_pos s1 = s_pos s2 /\
  (exists more, s_rest s2 = s_rest s1 ++ more) /\ cap s1 <= cap s2 /\
  s_pos s1 + cap s1 <= e /\ s_pos s1 + nlen (s_rest s1) <= E.

Definition trio (E e : N) (w1 w2 : io) : Prop := tr E e (i_src w1) (i_src w2) /\ i_snk w1 = i_snk w2.

Lemma cap_le_len s : cap s <= nlen (s_rest s).
Proof. unfold cap. destruct (s_limit s); lia. Qed.

Lemma tr_pos E e s1 s2 : tr E e s1 s2 -> s_pos s1 = s_pos s2.
Proof. intros H. apply H. Qed.
Lemma tr_bound E e s1 s2 : tr E e s1 s2 -> s_pos s1 <= e.
Proof. intros (_ & _ & _ & _ & _ & H & _). lia. Qed.
Lemma tr_bound_E E e s1 s2 : tr E e s1 s2 -> s_pos s1 <= E.
Proof. intros (_ & _ & _ & _ & _ & _ & H). lia. Qed.

(* lock step: both sources deliver the same [n] bytes *)
Lemma tr_after E e s1 s2 n t1 t2 :
  tr E e s1 s2 -> n <= cap s1 -> src_after s1 n t1 -> src_after s2 n t2 -> tr E e t1 t2.
Proof.
  intros (F1 & F2 & Hp & (more & Hm) & Hc & He & HE) Hn A1 A2.
  pose proof (cap_after _ _ _ A1) as C1. pose proof (cap_after _ _ _ A2) as C2.
  pose proof (cap_le_len s1) as L1.
  destruct A1 as (R1 & P1 & _ & G1). destruct A2 as (R2 & P2 & _ & G2).
  split; [exact G1|]. split; [exact G2|]. split; [lia|].
  split; [exists more; rewrite R2, R1, Hm; apply nskipn_app_le; lia|].
  split; [lia|]. split; [lia|]. rewrite R1, nlen_nskipn. lia.
Qed.

(* operations that leave data, position and limit alone (fill_buf) *)
Lemma tr_same E e s1 s2 t1 t2 :
  tr E e s1 s2 ->
  s_rest t1 = s_rest s1 -> s_pos t1 = s_pos s1 -> s_limit t1 = s_limit s1 -> FaultFreeL t1 ->
  s_rest t2 = s_rest s2 -> s_pos t2 = s_pos s2 -> s_limit t2 = s_limit s2 -> FaultFreeL t2 ->
  tr E e t1 t2.
Proof.
  intros (F1 & F2 & Hp & (more & Hm) & Hc & He & HE) R1 P1 L1 G1 R2 P2 L2 G2.
  assert (C1 : cap t1 = cap s1) by (unfold cap; rewrite R1, L1; reflexivity).
  assert (C2 : cap t2 = cap s2) by (unfold cap; rewrite R2, L2; reflexivity).
  split; [exact G1|]. split; [exact G2|]. split; [congruence|].
  split; [exists more; congruence|]. rewrite C1, C2, P1, R1. repeat split; assumption.
Qed.

(* ---------- programs: lock step, or failure on the truncated source ---------- *)
Definition fail2 {A} (o : out2 A) : Prop := match o with O2Fail _ | O2HErr _ => True | _ => False end.

Definition Tw2 {A} (p : iop A) : Prop :=
  forall E e w1 w2, trio E e w1 w2 ->
    (fst (interp2 io_h p w1) = fst (interp2 io_h p w2) /\
     trio E e (snd (interp2 io_h p w1)) (snd (interp2 io_h p w2)))
    \/ fail2 (fst (interp2 io_h p w1)).

Lemma Tw2_ret {A} (a : A) : Tw2 (Ret a).
Proof. intros E e w1 w2 H. left. cbn [interp2 fst snd]. split; [reflexivity|assumption]. Qed.
Lemma Tw2_fail {A} x : Tw2 (@Fail ioE A x).
Proof. intros E e w1 w2 H. left. cbn [interp2 fst snd]. split; [reflexivity|assumption]. Qed.
Lemma Tw2_panic {A} q : Tw2 (@Panic ioE A q).
Proof. intros E e w1 w2 H. left. cbn [interp2 fst snd]. split; [reflexivity|assumption]. Qed.

Lemma Tw2_bind {A B} (p : iop A) (f : A -> iop B) :
  Tw2 p -> (forall a, Tw2 (f a)) -> Tw2 (bind p f).
Proof.
  intros Hp Hf E e w1 w2 H. rewrite !interp2_bind. destruct (Hp E e w1 w2 H) as [[Hfst Hsd]|Hfl].
  - destruct (interp2 io_h p w1) as [r1 t1]; destruct (interp2 io_h p w2) as [r2 t2]. cbn [fst snd] in *. subst r2.
    destruct r1 as [a|x|x|q]; cbn [fst snd]; try (left; split; [reflexivity|assumption]).
    apply Hf. assumption.
  - right. destruct (interp2 io_h p w1) as [r1 t1]. cbn [fst] in Hfl.
    destruct r1 as [a|x|x|q]; try contradiction; exact I.
Qed.

Lemma Tw2_map {A} e' (p : iop A) : Tw2 p -> Tw2 (map_io_err e' p).
Proof.
  intros Hp E e w1 w2 H. rewrite !interp2_map_io_err. cbn [fst snd]. destruct (Hp E e w1 w2 H) as [[Hfst Hsd]|Hfl].
  - left. rewrite Hfst. split; [reflexivity|assumption].
  - right. destruct (fst (interp2 io_h p w1)) as [a|x|x|q]; try contradiction; [destruct x; exact I|exact I].
Qed.

Lemma Tw2_read_exact n : Tw2 (read_exact n).
Proof.
  intros E e [s1 k1] [s2 k2] [Htr Hk]. cbn [i_src i_snk] in *. subst k2.
  destruct (read_exact2 s1 n) as (t1 & R1 & A1); [apply Htr|].
  destruct (read_exact2 s2 n) as (t2 & R2 & A2); [apply Htr|].
  rewrite R1, R2. cbn [fst snd].
  destruct (N.leb_spec n (cap s1)) as [Hle|Hgt]; [|right; exact I].
  left. pose proof Htr as (_ & _ & _ & (more & Hm) & Hc & _).
  destruct (N.leb_spec n (cap s2)) as [_|]; [|lia].
  pose proof (cap_le_len s1) as L1.
  split; [rewrite Hm, nfirstn_app_le by lia; reflexivity|].
  split; [|reflexivity]. cbn [i_src].
  replace (N.min n (cap s1)) with n in A1 by lia. replace (N.min n (cap s2)) with n in A2 by lia.
  eapply tr_after; eassumption.
Qed.

Ltac tw2_step :=
  first
    [ apply Tw2_ret | apply Tw2_fail | apply Tw2_panic
    | apply Tw2_read_exact
    | apply Tw2_map
    | assumption
    | apply Tw2_bind; [|intros]
    | match goal with
      | |- Tw2 (if ?b then _ else _) => destruct b
      | |- Tw2 (match ?x with _ => _ end) => destruct x
      end ].
Ltac tw2 := repeat tw2_step.

Lemma Tw2_read_u8 : Tw2 read_u8.
Proof. unfold read_u8. tw2. Qed.
Lemma Tw2_read_u16_be : Tw2 read_u16_be.
Proof. unfold read_u16_be. tw2. Qed.
Lemma Tw2_read_u32_be : Tw2 read_u32_be.
Proof. unfold read_u32_be. tw2. Qed.
Lemma Tw2_read_u32_le : Tw2 read_u32_le.
Proof. unfold read_u32_le. tw2. Qed.
Lemma Tw2_read_u64_le : Tw2 read_u64_le.
Proof. unfold read_u64_le. tw2. Qed.

Lemma Tw2_rc_new : Tw2 rc_new.
Proof. unfold rc_new. apply Tw2_bind; [apply Tw2_read_u8|intros]. apply Tw2_bind; [apply Tw2_read_u32_be|intros]. tw2. Qed.

Lemma Tw2_rc_normalize r : Tw2 (rc_normalize r).
Proof. unfold rc_normalize. destruct (r_range r <? 16777216); [|tw2]. apply Tw2_bind; [apply Tw2_read_u8|intros; tw2]. Qed.

Lemma Tw2_rc_get_bit r : Tw2 (rc_get_bit r).
Proof. unfold rc_get_bit. cbv zeta. apply Tw2_bind; [apply Tw2_rc_normalize|intros; tw2]. Qed.

Lemma Tw2_rc_get_loop n : forall r res, Tw2 (rc_get_loop n r res).
Proof.
  induction n as [|n IH]; intros r res; cbn [rc_get_loop]; [tw2|].
  apply Tw2_bind; [apply Tw2_rc_get_bit|]. intros [b r']. apply IH.
Qed.
Lemma Tw2_rc_get count r : Tw2 (rc_get count r).
Proof. apply Tw2_rc_get_loop. Qed.

Lemma Tw2_rc_decode_bit r prob upd : Tw2 (rc_decode_bit r prob upd).
Proof.
  unfold rc_decode_bit. cbv zeta.
  repeat match goal with
         | |- Tw2 (if ?b then _ else _) => destruct b
         end; try apply Tw2_panic;
  (apply Tw2_bind; [apply Tw2_rc_normalize|intros; apply Tw2_ret]).
Qed.

Lemma Tw2_read_header o : Tw2 (read_header o).
Proof.
  unfold read_header. apply Tw2_bind; [apply Tw2_read_u8|intros pbyte].
  destruct (225 <=? pbyte); [apply Tw2_fail|]. cbv zeta.
  apply Tw2_bind; [apply Tw2_read_u32_le|intros dp].
  apply Tw2_bind; [|intros; apply Tw2_ret].
  destruct (o_unpacked o).
  - apply Tw2_bind; [apply Tw2_read_u64_le|intros; apply Tw2_ret].
  - apply Tw2_bind; [apply Tw2_read_u64_le|intros; apply Tw2_ret].
  - apply Tw2_ret.
Qed.

(* ---------- back to src_run ---------- *)
Definition ofailed {A} (o : outcome A) : Prop := exists x, o = Failed x.

Lemma forget_fail2 {A} (o : out2 A) : fail2 o -> ofailed (forget o).
Proof. destruct o as [a|x|x|q]; cbn [fail2 forget]; intros H; try contradiction; exists x; reflexivity. Qed.

Lemma Tw2_src_run {A} (p : iop A) : Tw2 p ->
  forall E e s1 s2, tr E e s1 s2 ->
    (fst (src_run p s1) = fst (src_run p s2) /\ tr E e (snd (src_run p s1)) (snd (src_run p s2)))
    \/ ofailed (fst (src_run p s1)).
Proof.
  intros Hp E e s1 s2 H. rewrite !src_run_eq. cbn [fst snd]. unfold run_io. rewrite !interp_interp2. cbn [fst snd].
  destruct (Hp E e (mkIo s1 vec_sink) (mkIo s2 vec_sink)) as [[Hf Hs]|Hfl]; [split; [exact H|reflexivity]| |].
  - left. rewrite Hf. split; [reflexivity|apply Hs].
  - right. apply forget_fail2. exact Hfl.
Qed.

(* ---------- fill_buf whose answer is not looked at ---------- *)
Lemma fill3 E e s1 s2 : tr E e s1 s2 ->
  exists b1 b2 t1 t2, src_run (icall FillBuf) s1 = (Done b1, t1) /\ src_run (icall FillBuf) s2 = (Done b2, t2) /\ tr E e t1 t2.
Proof.
  intros H. pose proof H as (F1 & F2 & _).
  destruct (src_fill_spec s1 F1) as (v1 & t1 & R1 & A1 & A2 & A3 & A4 & _).
  destruct (src_fill_spec s2 F2) as (v2 & t2 & R2 & B1 & B2 & B3 & B4 & _).
  exists (s_rest s1, v1), (s_rest s2, v2), t1, t2.
  unfold src_run, run_io, call. cbn [interp io_h i_src i_snk]. rewrite R1, R2. cbn [interp i_src].
  split; [reflexivity|]. split; [reflexivity|]. eapply tr_same; eassumption.
Qed.

(* ---------- is_finished_ok: the only place where the end of the input is looked at without
   reading.  The two runs answer alike unless the truncated source is at its end and the other is
   not: then the truncated run sees [true] and the other run sees [false]. ---------- *)
Lemma eof_cap s : (match s_rest s with
                   | [] => true
                   | _ => match s_limit s with Some 0 => true | _ => false end
                   end) = (cap s =? 0).
Proof.
  unfold cap. destruct (s_rest s) as [|b t] eqn:Er.
  - rewrite nlen_nil. destruct (s_limit s) as [l|]; [|reflexivity]. replace (N.min l 0) with 0 by lia. reflexivity.
  - rewrite nlen_cons. destruct (s_limit s) as [[|l]|].
    + symmetry. apply N.eqb_eq. lia.
    + symmetry. apply N.eqb_neq. lia.
    + symmetry. apply N.eqb_neq. lia.
Qed.

Lemma eof3 E e r s1 s2 : tr E e s1 s2 ->
  exists b1 b2 t1 t2,
    src_run (rc_is_finished_ok r) s1 = (Done b1, t1) /\ src_run (rc_is_finished_ok r) s2 = (Done b2, t2) /\
    tr E e t1 t2 /\ (b1 = b2 \/ b2 = false).
Proof.
  intros H. unfold rc_is_finished_ok. destruct (r_code r =? 0).
  - pose proof H as (F1 & F2 & _ & _ & Hc & _).
    destruct (io_is_eof_specL s1 F1) as (t1 & R1 & A1 & A2 & A3 & A4).
    destruct (io_is_eof_specL s2 F2) as (t2 & R2 & B1 & B2 & B3 & B4).
    rewrite eof_cap in R1, R2.
    exists (cap s1 =? 0), (cap s2 =? 0), t1, t2.
    split; [apply io_runs_src_run; exact R1|]. split; [apply io_runs_src_run; exact R2|].
    split; [eapply tr_same; eassumption|].
    destruct (N.eqb_spec (cap s2) 0) as [Z|NZ]; [left|right; reflexivity].
    apply N.eqb_eq. lia.
  - exists false, false, s1, s2. split; [reflexivity|]. split; [reflexivity|]. split; [exact H|left; reflexivity].
Qed.

(* ---------- Take limits ---------- *)
Lemma tr_set_limit E e s1 s2 l :
  tr E e s1 s2 ->
  tr E (s_pos s1 + N.min l (nlen (s_rest s1))) (set_limit s1 (Some l)) (set_limit s2 (Some l)).
Proof.
  intros ((F1 & G1) & (F2 & G2) & Hp & (more & Hm) & Hc & He & HE).
  unfold tr, FaultFreeL, cap, set_limit. cbn [s_rest s_pos s_limit s_fail s_avail].
  split; [split; assumption|]. split; [split; assumption|]. split; [exact Hp|].
  split; [exists more; exact Hm|]. rewrite Hm, nlen_app. split; [lia|]. split; [lia|exact HE].
Qed.

Lemma tr_unlimit E e s1 s2 : tr E e s1 s2 -> tr E E (set_limit s1 None) (set_limit s2 None).
Proof.
  intros ((F1 & G1) & (F2 & G2) & Hp & (more & Hm) & Hc & He & HE).
  unfold tr, FaultFreeL, cap, set_limit. cbn [s_rest s_pos s_limit s_fail s_avail].
  split; [split; assumption|]. split; [split; assumption|]. split; [exact Hp|].
  split; [exists more; exact Hm|]. rewrite Hm, nlen_app. split; [lia|]. split; [exact HE|exact HE].
Qed.

(* a smaller limit on the same source *)
Lemma tr_two_limits s m p : FaultFreeL s -> m <= p ->
  tr (s_pos s + nlen (s_rest s)) (s_pos s + m) (set_limit s (Some m)) (set_limit s (Some p)).
Proof.
  intros (F & G) Hmp.
  unfold tr, FaultFreeL, cap, set_limit. cbn [s_rest s_pos s_limit s_fail s_avail].
  split; [split; assumption|]. split; [split; assumption|]. split; [reflexivity|].
  split; [exists []; rewrite app_nil_r; reflexivity|]. split; [lia|]. split; lia.
Qed.

(* a source over a prefix of the data *)
Lemma tr_src_of D more frag frag' :
  tr (nlen D) (nlen D) (src_of D frag' None) (src_of (D ++ more) frag None).
Proof.
  unfold tr, FaultFreeL, cap, src_of. cbn [s_rest s_pos s_limit s_fail s_avail].
  split; [split; [reflexivity|lia]|]. split; [split; [reflexivity|lia]|]. split; [reflexivity|].
  split; [exists more; reflexivity|]. rewrite nlen_app. split; [lia|]. split; lia.
Qed.

Print Assumptions Tw2_read_exact.
Print Assumptions Tw2_src_run.
Print Assumptions eof3.
