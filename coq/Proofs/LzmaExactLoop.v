(* C01, layer 3: the decoding loop.  The events of a whole program ([prog_evs]), the loop
   invariant at symbol boundaries ([LInv]), one iteration of pm_body FinishMode per symbol,
   and process_mode on a whole well-formed program. *)
From LZ Require Import Base.Prelude Base.Prog Model.Io Model.Tables Model.LzBuffer Model.RangeDec Model.Lzma Format.RefEnc
  Proofs.ProgLemmas Proofs.MapLemmas Proofs.IoLemmas Proofs.RangeLockstep Proofs.WinCirc Proofs.NoPanic Proofs.NoPanicWorld
  Proofs.SymOracle Proofs.SymCoders Proofs.SymLiteral Proofs.SymDecode Proofs.SymChain
  Proofs.LzmaExactSync Proofs.LzmaExactShape Proofs.LzmaExactRefine.
From Coq Require Import ZifyBool ZifyNat ZifyN.
Local Open Scope prog_scope.

(* ---------- the events of a program ---------- *)
Fixpoint prog_evs (fp : fprops) (w : option N) (st : N) (h : hist) (prog : list sym)
  : option (list ev * N * hist) :=
  match prog with
  | [] => Some ([], st, h)
  | x :: rest =>
      match x with
      | EndMarker =>
          match rest with
          | [] => Some (fst (sym_evs fp st h x), snd (sym_evs fp st h x), h)
          | _ => None
          end
      | _ =>
          match sem_sym w h x with
          | Some h' =>
              match prog_evs fp w (snd (sym_evs fp st h x)) h' rest with
              | Some (l, st2, h2) => Some (fst (sym_evs fp st h x) ++ l, st2, h2)
              | None => None
              end
          | None => None
          end
      end
  end.

Lemma prog_evs_cons fp w st h x rest : x <> EndMarker ->
  prog_evs fp w st h (x :: rest) =
  match sem_sym w h x with
  | Some h' =>
      match prog_evs fp w (snd (sym_evs fp st h x)) h' rest with
      | Some (l, st2, h2) => Some (fst (sym_evs fp st h x) ++ l, st2, h2)
      | None => None
      end
  | None => None
  end.
Proof. intros H. destruct x; try reflexivity. congruence. Qed.

(* the reference encoder is the fold of ienc_ev over these events *)
Lemma enc_syms_prog_evs fp w : forall prog ie t st h ie' s',
  enc_syms_gen false fp w ie (mkEstate t st h) prog = Some (ie', s') ->
  exists evs, prog_evs fp w st h prog = Some (evs, es_st s', es_hist s') /\
              fold_left ienc_ev evs (ie, t) = (ie', es_tabs s').
Proof.
  induction prog as [|x rest IH]; intros ie t st h ie' s' H.
  - cbn [enc_syms_gen] in H. inversion H; subst. exists []. split; reflexivity.
  - cbn [enc_syms_gen es_st es_hist es_tabs] in H.
    destruct (sym_evs fp st h x) as [evs st1] eqn:Es.
    destruct (fold_left ienc_ev evs (ie, t)) as [ie1 t1] eqn:Ef.
    assert (NM : x <> EndMarker ->
              match sem_sym w h x with
              | Some h' => enc_syms_gen false fp w ie1 (mkEstate t1 st1 h') rest
              | None => None
              end = Some (ie', s') ->
              exists evs0, prog_evs fp w st h (x :: rest) = Some (evs0, es_st s', es_hist s') /\
                           fold_left ienc_ev evs0 (ie, t) = (ie', es_tabs s')).
    { intros Hx H'. rewrite (prog_evs_cons fp w st h x rest Hx), Es. cbn [fst snd].
      destruct (sem_sym w h x) as [h'|]; [|discriminate].
      destruct (IH _ _ _ _ _ _ H') as (l & El & Efl). rewrite El.
      exists (evs ++ l). split; [reflexivity|]. rewrite fold_left_app, Ef. exact Efl. }
    destruct x; try (apply NM; [discriminate|exact H]).
    destruct rest as [|y rest']; [|discriminate]. inversion H; subst.
    exists evs. cbn [prog_evs es_st es_hist es_tabs]. rewrite Es. split; [reflexivity|exact Ef].
Qed.

Definition sym_eq_marker_dec (x : sym) : {x = EndMarker} + {x <> EndMarker}.
Proof. destruct x; try (right; discriminate). left; reflexivity. Defined.

(* ---------- invariants of well-formed histories ---------- *)
Definition reps_lt (h : hist) : Prop :=
  h_r0 h < 4294967295 /\ h_r1 h < 4294967295 /\ h_r2 h < 4294967295 /\ h_r3 h < 4294967295.

Lemma sem_sym_len w h x h' : sem_sym w h x = Some h' -> h_len h < h_len h'.
Proof.
  destruct x as [b|dist len| |i len|]; cbn [sem_sym].
  - destruct (b <? 256); [|discriminate]. intros H. inversion H; subst. cbn [h_len]. lia.
  - destruct (can_copy w h dist && len_ok len && (dist <=? 4294967295)) eqn:E; [|discriminate].
    apply andb_true_iff in E. destruct E as [E _]. apply andb_true_iff in E. destruct E as [_ E].
    apply len_ok_bounds in E. intros H. inversion H; subst. unfold do_copy. cbn [h_len]. lia.
  - destruct (can_copy w h (h_r0 h + 1)); [|discriminate]. intros H. inversion H; subst. unfold do_copy. cbn [h_len]. lia.
  - intros H. apply sem_rep_inv in H. destruct H as (_ & _ & Hl & ->). apply len_ok_bounds in Hl.
    unfold do_copy. cbn [h_len]. lia.
  - discriminate.
Qed.

Lemma sem_sym_reps w h x h' : reps_lt h -> sem_sym w h x = Some h' -> reps_lt h'.
Proof.
  intros (R0 & R1 & R2 & R3). destruct x as [b|dist len| |i len|]; cbn [sem_sym].
  - destruct (b <? 256); [|discriminate]. intros H. inversion H; subst. cbn. repeat split; assumption.
  - destruct (can_copy w h dist) eqn:Ec; cbn [andb]; [|discriminate].
    destruct (len_ok len); cbn [andb]; [|discriminate].
    destruct (N.leb_spec dist 4294967295); [|discriminate].
    unfold can_copy in Ec. apply andb_true_iff in Ec. destruct Ec as [Ec _]. apply andb_true_iff in Ec.
    destruct Ec as [Ec _]. apply N.leb_le in Ec.
    intros H'. inversion H'; subst. unfold do_copy, reps_lt. cbn [h_r0 h_r1 h_r2 h_r3]. repeat split; try assumption. lia.
  - destruct (can_copy w h (h_r0 h + 1)); [|discriminate]. intros H. inversion H; subst.
    unfold do_copy, reps_lt. cbn [h_r0 h_r1 h_r2 h_r3]. repeat split; assumption.
  - intros H. apply sem_rep_inv in H. destruct H as (_ & _ & _ & ->).
    unfold do_copy, reps_lt, rot. cbn [h_r0 h_r1 h_r2 h_r3].
    destruct (i =? 0); [|destruct (i =? 1); [|destruct (i =? 2)]]; cbn [reps_of rep0 rep1 rep2 rep3]; repeat split; assumption.
  - discriminate.
Qed.

Lemma prog_evs_len fp w : forall prog st h evs stf hf,
  prog_evs fp w st h prog = Some (evs, stf, hf) -> h_len h <= h_len hf.
Proof.
  induction prog as [|x rest IH]; intros st h evs stf hf H.
  - cbn [prog_evs] in H. inversion H; subst. lia.
  - destruct (sym_eq_marker_dec x) as [->|Hx].
    + cbn [prog_evs] in H. destruct rest; [|discriminate]. inversion H; subst. lia.
    + rewrite (prog_evs_cons fp w st h x rest Hx) in H.
      destruct (sem_sym w h x) as [h'|] eqn:Es; [|discriminate].
      destruct (prog_evs fp w (snd (sym_evs fp st h x)) h' rest) as [[[l st2] h2]|] eqn:Ep; [|discriminate].
      inversion H; subst. pose proof (sem_sym_len _ _ _ _ Es). pose proof (IH _ _ _ _ _ Ep). lia.
Qed.

(* ---------- pm_body in FinishMode with an empty partial-input buffer ---------- *)
Definition head_cont (w : lw) : Prop :=
  match ds_unpacked (l_ds w) with
  | Some size => win_len (l_win w) < size
  | None => rep0 (ds_rep (l_ds w)) <> 4294967295
  end.

Lemma pm_body_break w size : ds_unpacked (l_ds w) = Some size -> size <= win_len (l_win w) ->
  pm_body FinishMode w = Break (Done tt, w).
Proof.
  intros E H. unfold pm_body. rewrite E.
  destruct (N.leb_spec size (win_len (l_win w))); [reflexivity|lia].
Qed.

Lemma pm_body_step w buf s' : ds_pib (l_ds w) = [] -> head_cont w ->
  src_run (icall FillBuf) (l_src w) = (Done buf, s') ->
  pm_body FinishMode w =
  match run_sym true (mkLw (l_ds w) (l_rc w) s' (l_win w)) with
  | (Failed e, w3) => Break (Failed e, w3)
  | (Panicked q, w3) => Break (Panicked q, w3)
  | (Done Finished, w3) => Break (Done tt, w3)
  | (Done Continue, w3) => Next w3
  end.
Proof.
  intros Hpib Hh Hfill. unfold pm_body, head_cont in *.
  destruct (ds_unpacked (l_ds w)) as [size|].
  - destruct (N.leb_spec size (win_len (l_win w))) as [|_]; [lia|].
    rewrite Hpib. change (0 <? nlen (@nil N)) with false. cbv iota. rewrite Hfill. reflexivity.
  - destruct (N.eqb_spec (rep0 (ds_rep (l_ds w))) 4294967295) as [|_]; [contradiction|].
    rewrite Hpib. change (0 <? nlen (@nil N)) with false. cbv iota. rewrite Hfill. reflexivity.
Qed.

Lemma iter_step_break_mono {S R} (body : S -> step S R) k n s r :
  iter_step k body s = Break r -> (k <= n)%nat -> iter_step n body s = Break r.
Proof.
  intros H Hle. replace n with (k + (n - k))%nat by lia. rewrite iter_step_add, H. reflexivity.
Qed.

Section Loop.
  Variables (fp : fprops) (p : props).
  Hypothesis Hpm : props_match p fp.
  Variables (dict mem : N) (pre : list N) (ief : ienc) (delta : N) (trail : list N) (canon : bool)
            (pos_end fl : N).
  Hypothesis Hdelta : delta < i_range ief.
  Hypothesis Hcanon : canon = true -> delta = 0 /\ trail = [].
  Hypothesis Hdict : 0 < dict /\ dict <= mem.
  Variables (us : option N) (stf : N) (hf : hist).

  Notation wd := (Some dict).
  Notation lcp := (lc p + lp p).
  Notation REL := (Rel lcp dict mem pre ief delta trail canon pos_end fl).

  Definition LInv (prog : list sym) (x : lw) : Prop :=
    exists st h ho evs,
      ds_pib (l_ds x) = [] /\ ds_props (l_ds x) = p /\ ds_unpacked (l_ds x) = us /\
      ds_state (l_ds x) = st /\ ds_rep (l_ds x) = reps_of h /\
      st < 12 /\ Forall (fun b => b < 256) (h_bytes h) /\ rep0_ok wd st h /\ reps_lt h /\
      h_bytes ho = h_bytes h /\ h_len ho = h_len h /\
      prog_evs fp wd st h prog = Some (evs, stf, hf) /\
      REL (mkDw (ds_tabs (l_ds x)) (l_rc x) (l_src x) (l_win x)) (evs ++ phantom canon, ho).

  Definition Final (x : lw) : Prop :=
    ds_unpacked (l_ds x) = us /\
    exists ho, h_bytes ho = h_bytes hf /\ h_len ho = h_len hf /\
      RelWin dict mem pre fl (l_win x) ho /\ s_pos (l_src x) = pos_end /\ s_rest (l_src x) = trail.

  Definition Mode (prog : list sym) : Prop :=
    match us with
    | None => canon = true /\ exists q, prog = q ++ [EndMarker]
    | Some size => Forall (fun x => x <> EndMarker) prog /\ size = h_len hf
    end.

  Lemma pni_safe st r : st < 12 ->
    safe_prog (cell_in lcp) (psym_ok (fun _ => True)) (process_next_inner p (mkSym st r) true).
  Proof.
    intros Hst. destruct Hpm as (H1 & H2 & H3 & _).
    apply process_next_inner_safe; try assumption; [intros; exact I|].
    split; [exact Hst|]. repeat split.
  Qed.

  (* the FillBuf at the top of an iteration does not disturb the relation *)
  Lemma rel_fill t r s wn o : REL (mkDw t r s wn) o ->
    exists buf s', src_run (icall FillBuf) s = (Done buf, s') /\ REL (mkDw t r s' wn) o.
  Proof.
    intros (real & Ef & HC & HW). cbn [d_tabs d_rc d_src d_win] in *.
    assert (Hff : FaultFree s) by (destruct HC as (ie & rest & _ & _ & _ & _ & _ & Hff & _); exact Hff).
    destruct (src_run_fill s Hff) as (buf & s' & Hrun & E1 & E2 & F).
    exists buf, s'. split; [exact Hrun|]. exists real. cbn [d_tabs d_rc d_src d_win].
    split; [exact Ef|]. split; [|exact HW]. eapply relcode_src; eassumption.
  Qed.

  Lemma linv_head x rest wv : LInv (x :: rest) wv -> x <> EndMarker -> Mode (x :: rest) -> head_cont wv.
  Proof.
    intros (st & h & ho & evs & Hpib & Hpr & Hus & Hst & Hrep & Hst12 & Hby & Hr0 & Hrl & Eb & El & Hpe & HR) Hx HM.
    unfold head_cont. rewrite Hus. unfold Mode in HM. destruct us as [size|].
    - destruct HM as [_ ->]. destruct HR as (real & _ & _ & HW). cbn [d_win snd] in HW.
      rewrite (relwin_len _ _ _ _ _ _ HW), El.
      rewrite (prog_evs_cons fp wd st h x rest Hx) in Hpe.
      destruct (sem_sym wd h x) as [h'|] eqn:Es; [|discriminate].
      destruct (prog_evs fp wd (snd (sym_evs fp st h x)) h' rest) as [[[l st2] h2]|] eqn:Ep; [|discriminate].
      inversion Hpe; subst. pose proof (sem_sym_len _ _ _ _ Es). pose proof (prog_evs_len _ _ _ _ _ _ _ _ Ep). lia.
    - rewrite Hrep. cbn [reps_of rep0]. destruct Hrl as [R0 _]. lia.
  Qed.

  Lemma linv_step x rest wv : LInv (x :: rest) wv -> x <> EndMarker -> head_cont wv ->
    exists wv', pm_body FinishMode wv = Next wv' /\ LInv rest wv'.
  Proof.
    intros (st & h & ho & evs & Hpib & Hpr & Hus & Hst & Hrep & Hst12 & Hby & Hr0 & Hrl & Eb & El & Hpe & HR) Hx Hhead.
    rewrite (prog_evs_cons fp wd st h x rest Hx) in Hpe.
    destruct (sem_sym wd h x) as [h'|] eqn:Es; [|discriminate].
    destruct (sym_evs fp st h x) as [evx st'] eqn:Esym. cbn [fst snd] in Hpe.
    destruct (prog_evs fp wd st' h' rest) as [[[l st2] h2]|] eqn:Ep; [|discriminate].
    inversion Hpe; subst evs st2 h2. clear Hpe.
    destruct (rel_fill _ _ _ _ _ HR) as (buf & s' & Hfill & HR').
    rewrite (pm_body_step wv buf s' Hpib Hhead Hfill).
    destruct (process_next_inner_decodes_chain wd p fp st h ho x h' evx st' (l ++ phantom canon)
                Hpm Hr0 Eb El Hx Es Esym) as (ho' & Horc & Eb' & El').
    rewrite <- app_assoc in HR'.
    destruct (refine_good lcp dict mem pre ief delta trail canon pos_end fl Hdelta Hcanon Hdict _ _
                (pni_safe st (reps_of h) Hst12) (shape_process_next_inner p _) _ _ _ _ HR' Horc)
      as (t1 & Hrun & HR1).
    unfold run_sym. cbn [l_ds l_rc l_src l_win]. rewrite Hpr, Hst, Hrep, Hrun.
    eexists. split; [reflexivity|].
    destruct (sym_step_invariants wd fp st h x h' Hst12 Hby Es) as (I1 & I2 & I3). rewrite Esym in I1, I3. cbn [snd] in I1, I3.
    exists st', h', ho', l. cbn [l_ds l_rc l_src l_win ds_pib ds_props ds_unpacked ds_tabs ds_state ds_rep y_state y_rep].
    split; [exact Hpib|]. split; [reflexivity|]. split; [exact Hus|]. split; [reflexivity|]. split; [reflexivity|].
    split; [exact I1|]. split; [exact I2|]. split; [exact I3|]. split; [eapply sem_sym_reps; eassumption|].
    split; [exact Eb'|]. split; [exact El'|]. split; [exact Ep|].
    destruct t1; exact HR1.
  Qed.

  Lemma linv_final wv ho :
    ds_unpacked (l_ds wv) = us -> h_bytes ho = h_bytes hf -> h_len ho = h_len hf ->
    REL (mkDw (ds_tabs (l_ds wv)) (l_rc wv) (l_src wv) (l_win wv)) (phantom canon, ho) -> Final wv.
  Proof.
    intros Hus Eb El (real & Ef & HC & HW). cbn [fst snd d_tabs d_rc d_src d_win] in *.
    assert (real = []).
    { destruct real as [|e r]; [reflexivity|]. exfalso. unfold phantom in Ef. destruct canon; cbn [app] in Ef; [discriminate|].
      inversion Ef as [[E1 E2]]. destruct r; discriminate. }
    subst real.
    destruct (relcode_end lcp dict mem ief delta trail canon pos_end Hdelta Hcanon Hdict _ _ _ HC) as (_ & Hr & Hp & _).
    split; [exact Hus|]. exists ho. repeat split; assumption.
  Qed.

  Lemma linv_end wv size : LInv [] wv -> us = Some size -> size = h_len hf ->
    pm_body FinishMode wv = Break (Done tt, wv) /\ Final wv.
  Proof.
    intros (st & h & ho & evs & Hpib & Hpr & Hus & Hst & Hrep & Hst12 & Hby & Hr0 & Hrl & Eb & El & Hpe & HR) Eus Esz.
    cbn [prog_evs] in Hpe. inversion Hpe as [[Ee Est Eh]]. subst evs. clear Hpe. cbn [app] in HR.
    split.
    - apply (pm_body_break wv size); [congruence|].
      destruct HR as (real & _ & _ & HW). cbn [d_win snd] in HW.
      rewrite (relwin_len _ _ _ _ _ _ HW), El, Esz, <- Eh. lia.
    - apply (linv_final wv ho); try assumption; rewrite <- Eh; assumption.
  Qed.

  Lemma linv_marker wv : LInv [EndMarker] wv -> canon = true -> head_cont wv ->
    exists wv', pm_body FinishMode wv = Break (Done tt, wv') /\ Final wv'.
  Proof.
    intros (st & h & ho & evs & Hpib & Hpr & Hus & Hst & Hrep & Hst12 & Hby & Hr0 & Hrl & Eb & El & Hpe & HR) Hc Hhead.
    cbn [prog_evs] in Hpe. inversion Hpe as [[Ee Est Eh]]. subst evs. clear Hpe.
    destruct (rel_fill _ _ _ _ _ HR) as (buf & s' & Hfill & HR').
    rewrite (pm_body_step wv buf s' Hpib Hhead Hfill).
    assert (Eph : phantom canon = []) by (unfold phantom; rewrite Hc; reflexivity).
    rewrite Eph, app_nil_r in HR'.
    pose proof (process_next_inner_decodes_marker wd p fp st h Hpm) as T.
    pose proof (oracle_reps_irrelevant wd (process_next_inner p (mkSym st (reps_of h)) true)
                  (fst (sym_evs fp st h EndMarker), ho) (fst (sym_evs fp st h EndMarker), h)
                  (conj eq_refl (conj Eb El))) as [F (S1 & S2 & S3)].
    rewrite T in F, S1, S2, S3. cbn [fst snd] in F, S1, S2, S3.
    destruct (interp (oracle wd) (process_next_inner p (mkSym st (reps_of h)) true) (fst (sym_evs fp st h EndMarker), ho))
      as [r [e' ho']] eqn:Horc.
    cbn [fst snd] in F, S1, S2, S3. subst r e'.
    destruct (refine_good lcp dict mem pre ief delta trail canon pos_end fl Hdelta Hcanon Hdict _ _
                (pni_safe st (reps_of h) Hst12) (shape_process_next_inner p _) _ _ _ _ HR' Horc)
      as (t1 & Hrun & HR1).
    unfold run_sym. cbn [l_ds l_rc l_src l_win]. rewrite Hpr, Hst, Hrep, Hrun.
    eexists. split; [reflexivity|].
    apply (linv_final _ ho'); cbn [l_ds l_rc l_src l_win ds_unpacked ds_tabs]; try assumption;
      try (rewrite <- Eh; assumption).
    rewrite Eph. destruct t1; exact HR1.
  Qed.

  Lemma mode_tail x rest : Mode (x :: rest) -> x <> EndMarker -> Mode rest.
  Proof.
    unfold Mode. destruct us as [size|].
    - intros [Hf Hs] _. inversion Hf as [|? ? H1 H2]. split; [exact H2|exact Hs].
    - intros [Hc [q Hq]] Hx. split; [exact Hc|].
      destruct q as [|y q']; cbn [app] in Hq; inversion Hq; subst; [congruence|].
      exists q'. reflexivity.
  Qed.

  Theorem loop_exact : forall prog wv, LInv prog wv -> Mode prog ->
    exists wv', iter_step (length prog + 1) (pm_body FinishMode) wv = Break (Done tt, wv') /\ Final wv'.
  Proof.
    induction prog as [|x rest IH]; intros wv HI HM.
    - unfold Mode in HM. destruct us as [size|] eqn:Eus.
      + destruct HM as [_ Hs]. destruct (linv_end wv size HI Eus Hs) as [Hb HF].
        exists wv. cbn [length Nat.add iter_step]. rewrite Hb. split; [reflexivity|exact HF].
      + destruct HM as [_ [q Hq]]. destruct q; discriminate.
    - destruct (sym_eq_marker_dec x) as [->|Hx].
      + (* the marker: it is the last symbol, and the size is unknown *)
        assert (Hrest : rest = []).
        { destruct HI as (st & h & ho & evs & _ & _ & _ & _ & _ & _ & _ & _ & _ & _ & _ & Hpe & _).
          cbn [prog_evs] in Hpe. destruct rest; [reflexivity|discriminate]. }
        subst rest.
        assert (Hmode : us = None /\ canon = true).
        { unfold Mode in HM. destruct us as [size|].
          - destruct HM as [Hf _]. inversion Hf; subst. congruence.
          - split; [reflexivity|apply HM]. }
        destruct Hmode as [Eus Hc].
        assert (Hhead : head_cont wv).
        { destruct HI as (st & h & ho & evs & _ & _ & Hus & _ & Hrep & _ & _ & _ & Hrl & _).
          unfold head_cont. rewrite Hus, Eus, Hrep. cbn [reps_of rep0]. destruct Hrl as [R0 _]. lia. }
        destruct (linv_marker wv HI Hc Hhead) as (wv' & Hb & HF).
        exists wv'. cbn [length Nat.add iter_step]. rewrite Hb. split; [reflexivity|exact HF].
      + pose proof (linv_head x rest wv HI Hx HM) as Hhead.
        destruct (linv_step x rest wv HI Hx Hhead) as (wv1 & Hn & HI1).
        destruct (IH wv1 HI1 (mode_tail x rest HM Hx)) as (wv' & Hit & HF).
        exists wv'. cbn [length Nat.add iter_step]. rewrite Hn. split; [exact Hit|exact HF].
  Qed.

  Theorem process_mode_exact prog wv fuel : LInv prog wv -> Mode prog ->
    (length prog + 1 <= Pos.to_nat fuel)%nat ->
    exists wv', process_mode FinishMode fuel wv = (Done tt, wv') /\ Final wv'.
  Proof.
    intros HI HM Hfuel. destruct (loop_exact prog wv HI HM) as (wv' & Hit & HF).
    exists wv'. split; [|exact HF]. unfold process_mode. rewrite loopN_iter.
    rewrite (iter_step_break_mono _ _ _ _ _ Hit Hfuel).
    destruct HF as (Hus & ho & Eb & El & HW & _). rewrite Hus.
    unfold Mode in HM. destruct us as [size|]; [|reflexivity].
    destruct HM as [_ ->]. rewrite (relwin_len _ _ _ _ _ _ HW), El, N.eqb_refl. reflexivity.
  Qed.
  (* ---------- bytes after the end marker: the decoder rejects ---------- *)
  Lemma linv_marker_trailing wv : LInv [EndMarker] wv -> canon = false -> trail <> [] -> head_cont wv ->
    exists wv', pm_body FinishMode wv = Break (Failed ELzma, wv').
  Proof.
    intros (st & h & ho & evs & Hpib & Hpr & Hus & Hst & Hrep & Hst12 & Hby & Hr0 & Hrl & Eb & El & Hpe & HR) Hc Htr Hhead.
    cbn [prog_evs] in Hpe. inversion Hpe as [[Ee Est Eh]]. subst evs. clear Hpe.
    destruct (rel_fill _ _ _ _ _ HR) as (buf & s' & Hfill & HR').
    rewrite (pm_body_step wv buf s' Hpib Hhead Hfill).
    assert (Eph : phantom canon = [EvBit (CIsRep 12) false]) by (unfold phantom; rewrite Hc; reflexivity).
    rewrite Eph in HR'.
    pose proof (process_next_inner_marker_trailing wd p fp st h (EvBit (CIsRep 12) false) [] Hpm) as T.
    pose proof (oracle_reps_irrelevant wd (process_next_inner p (mkSym st (reps_of h)) true)
                  (fst (sym_evs fp st h EndMarker) ++ [EvBit (CIsRep 12) false], ho)
                  (fst (sym_evs fp st h EndMarker) ++ [EvBit (CIsRep 12) false], h)
                  (conj eq_refl (conj Eb El))) as [F (S1 & S2 & S3)].
    rewrite T in F, S1, S2, S3. cbn [fst snd] in F, S1, S2, S3.
    destruct (interp (oracle wd) (process_next_inner p (mkSym st (reps_of h)) true)
                (fst (sym_evs fp st h EndMarker) ++ [EvBit (CIsRep 12) false], ho))
      as [r [e' ho']] eqn:Horc.
    cbn [fst snd] in F, S1, S2, S3. subst r e'.
    destruct (refine_trail lcp dict mem pre ief delta trail canon pos_end fl Hdelta Hcanon Hdict _ _
                (pni_safe st (reps_of h) Hst12) (shape_process_next_inner p _) Htr Hc _ _ _ _ HR' Horc)
      as (t1 & Hrun & HR1); [intros w; discriminate|].
    unfold run_sym. cbn [l_ds l_rc l_src l_win]. rewrite Hpr, Hst, Hrep, Hrun.
    eexists. reflexivity.
  Qed.

  Theorem loop_trailing : forall prog wv, LInv prog wv -> us = None -> canon = false -> trail <> [] ->
    (exists q, prog = q ++ [EndMarker]) ->
    exists wv', iter_step (length prog + 1) (pm_body FinishMode) wv = Break (Failed ELzma, wv').
  Proof.
    induction prog as [|x rest IH]; intros wv HI Eus Hc Htr [q Hq].
    - destruct q; discriminate.
    - assert (Hhead : head_cont wv).
      { destruct HI as (st & h & ho & evs & _ & _ & Hus & _ & Hrep & _ & _ & _ & Hrl & _).
        unfold head_cont. rewrite Hus, Eus, Hrep. cbn [reps_of rep0]. destruct Hrl as [R0 _]. lia. }
      destruct (sym_eq_marker_dec x) as [->|Hx].
      + assert (Hrest : rest = []).
        { destruct HI as (st & h & ho & evs & _ & _ & _ & _ & _ & _ & _ & _ & _ & _ & _ & Hpe & _).
          cbn [prog_evs] in Hpe. destruct rest; [reflexivity|discriminate]. }
        subst rest. destruct (linv_marker_trailing wv HI Hc Htr Hhead) as (wv' & Hb).
        exists wv'. cbn [length Nat.add iter_step]. rewrite Hb. reflexivity.
      + destruct (linv_step x rest wv HI Hx Hhead) as (wv1 & Hn & HI1).
        assert (Hq' : exists q', rest = q' ++ [EndMarker]).
        { destruct q as [|y q']; cbn [app] in Hq; inversion Hq; subst; [congruence|]. exists q'. reflexivity. }
        destruct (IH wv1 HI1 Eus Hc Htr Hq') as (wv' & Hit).
        exists wv'. cbn [length Nat.add iter_step]. rewrite Hn. exact Hit.
  Qed.

  Theorem process_mode_trailing prog wv fuel : LInv prog wv -> us = None -> canon = false -> trail <> [] ->
    (exists q, prog = q ++ [EndMarker]) -> (length prog + 1 <= Pos.to_nat fuel)%nat ->
    exists wv', process_mode FinishMode fuel wv = (Failed ELzma, wv').
  Proof.
    intros HI Eus Hc Htr Hq Hfuel. destruct (loop_trailing prog wv HI Eus Hc Htr Hq) as (wv' & Hit).
    exists wv'. unfold process_mode. rewrite loopN_iter.
    rewrite (iter_step_break_mono _ _ _ _ _ Hit Hfuel). reflexivity.
  Qed.
End Loop.

Print Assumptions process_mode_exact.
Print Assumptions process_mode_trailing.
