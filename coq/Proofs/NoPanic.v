(* No-panic invariants for the decoder core (property C07, Parts 1 and 2).

   Part 1: the probability update and the range-decoder registers stay in
           range, for arbitrary input bytes; none of the POverflow 1..4 guards
           of rc_decode_bit and none of the panics of read_u8 / read_exact can
           fire.
   Part 2: every probability cell touched by process_next_inner is inside the
           tables created by ptabs_new, the guards POverflow 20/30/31/32/33 are
           dead, and the returned state / reps stay in range. *)
From LZ Require Import Base.Prelude Base.Prog Model.Io Model.Tables Model.LzBuffer Model.RangeDec Model.Lzma.
From LZ Require Import Proofs.ProgLemmas Proofs.MapLemmas.
From Coq Require Import ZifyBool ZifyNat ZifyN.
Local Open Scope prog_scope.

Ltac Zify.zify_post_hook ::= Z.div_mod_to_equations.

(* ====================================================================== *)
(* Arithmetic helpers                                                       *)
(* ====================================================================== *)

Lemma lxor_lt_pow2 a b n : a < 2 ^ n -> b < 2 ^ n -> N.lxor a b < 2 ^ n.
Proof.
  intros Ha Hb.
  destruct (N.eq_dec (N.lxor a b) 0) as [E|E].
  - rewrite E. apply N.neq_0_lt_0. apply N.pow_nonzero. discriminate.
  - apply N.log2_lt_pow2; [lia|].
    assert (Hl : forall x, x < 2 ^ n -> x <> 0 -> N.log2 x < n).
    { intros x Hx Hx0. apply N.log2_lt_pow2; [lia|exact Hx]. }
    pose proof (N.log2_lxor a b) as Hm.
    destruct (N.eq_dec a 0) as [Ea|Ea]; destruct (N.eq_dec b 0) as [Eb|Eb].
    + subst. exfalso. apply E. reflexivity.
    + subst a. rewrite N.lxor_0_l in *. apply Hl; assumption.
    + subst b. rewrite N.lxor_0_r in *. apply Hl; assumption.
    + pose proof (Hl a Ha Ea). pose proof (Hl b Hb Eb). lia.
Qed.

Lemma lxor_double_bit a b : N.lxor (2 * a) (b2n b) = 2 * a + b2n b.
Proof. destruct a, b; reflexivity. Qed.

Lemma M32_lt x : M32 x < 4294967296.
Proof.
  unfold M32. change 4294967295 with (N.ones 32). rewrite N.land_ones.
  change (2 ^ 32) with 4294967296. apply N.mod_lt. discriminate.
Qed.

Lemma M32_small x : x < 4294967296 -> M32 x = x.
Proof.
  intros H. unfold M32. change 4294967295 with (N.ones 32). rewrite N.land_ones.
  change (2 ^ 32) with 4294967296. apply N.mod_small. exact H.
Qed.

Lemma M32_le x : M32 x <= x.
Proof.
  unfold M32. change 4294967295 with (N.ones 32). rewrite N.land_ones.
  apply N.mod_le. discriminate.
Qed.

Lemma M8_small x : x < 256 -> M8 x = x.
Proof.
  intros H. unfold M8. change 255 with (N.ones 8). rewrite N.land_ones.
  change (2 ^ 8) with 256. apply N.mod_small. exact H.
Qed.

Lemma land_mask_lt x k : N.land x (N.shiftl 1 k - 1) < 2 ^ k.
Proof.
  rewrite N.shiftl_1_l. replace (2 ^ k - 1) with (N.ones k) by (rewrite N.ones_equiv; lia).
  rewrite N.land_ones. apply N.mod_lt. apply N.pow_nonzero. discriminate.
Qed.

Lemma land_1_le x : N.land x 1 <= 1.
Proof.
  change 1 with (N.ones 1) at 1. rewrite N.land_ones. change (2 ^ 1) with 2.
  pose proof (N.mod_lt x 2). lia.
Qed.

Lemma pow2_pos k : 0 < 2 ^ k.
Proof. apply N.neq_0_lt_0. apply N.pow_nonzero. discriminate. Qed.

Lemma pow2_succ k : 2 ^ (k + 1) = 2 * 2 ^ k.
Proof. rewrite N.add_1_r. apply N.pow_succ_r'. Qed.

(* ====================================================================== *)
(* Part 1: probabilities and registers                                      *)
(* ====================================================================== *)

Theorem prob_step_range p : 31 <= p <= 2017 ->
  (31 <= p + N.shiftr (2048 - p) 5 <= 2017) /\ (31 <= p - N.shiftr p 5 <= 2017).
Proof.
  intros H. rewrite !N.shiftr_div_pow2. change (2 ^ 5) with 32. lia.
Qed.
Print Assumptions prob_step_range.

(* no u16 overflow of the incremented probability (guards POverflow 2 / 3 of
   rc_decode_bit); stated for the weaker p <= 2047, which is also preserved *)
Theorem prob_step_no_u16_overflow p : p <= 2047 ->
  p + N.shiftr (2048 - p) 5 <= 2047 /\ p + N.shiftr (2048 - p) 5 < U16 /\ p - N.shiftr p 5 <= 2047.
Proof.
  intros H. unfold U16. rewrite !N.shiftr_div_pow2. change (2 ^ 5) with 32. lia.
Qed.
Print Assumptions prob_step_no_u16_overflow.

Definition RcInv (r : rc) : Prop := r_range r < 2 ^ 32 /\ r_code r < 2 ^ 32.

(* every byte still to be delivered by the source is a byte *)
Definition SrcBytes (s : src) : Prop := Forall (fun b => b < 256) (s_rest s).

(* Safety of an I/O program with respect to the source invariant: for ANY state
   of source and sink (any s_frag / s_fail / s_limit / sink behaviour) it does
   not panic, keeps SrcBytes, and its result satisfies Q. *)
Definition io_safe {A} (Q : A -> Prop) (p : prog ioE A) : Prop :=
  forall w, SrcBytes (i_src w) ->
    match run_io p w with
    | (Done a, w') => Q a /\ SrcBytes (i_src w')
    | (Failed _, w') => SrcBytes (i_src w')
    | (Panicked _, _) => False
    end.

Lemma io_safe_ret {A} (Q : A -> Prop) a : Q a -> io_safe Q (Ret a).
Proof. intros H w Hw. unfold run_io. cbn [interp]. auto. Qed.

Lemma io_safe_fail {A} (Q : A -> Prop) e : io_safe Q (Fail e).
Proof. intros w Hw. unfold run_io. cbn [interp]. auto. Qed.

Lemma io_safe_bind {A B} (Q : A -> Prop) (R : B -> Prop) (p : prog ioE A) (f : A -> prog ioE B) :
  io_safe Q p -> (forall a, Q a -> io_safe R (f a)) -> io_safe R (bind p f).
Proof.
  intros Hp Hf w Hw. unfold run_io. rewrite interp_bind.
  specialize (Hp w Hw). unfold run_io in Hp.
  destruct (interp io_h p w) as [[a|e|q] w']; [|exact Hp|exact Hp].
  destruct Hp as [Ha Hw']. exact (Hf a Ha w' Hw').
Qed.

Lemma io_safe_weaken {A} (Q Q' : A -> Prop) p :
  io_safe Q p -> (forall a, Q a -> Q' a) -> io_safe Q' p.
Proof.
  intros Hp HQ w Hw. specialize (Hp w Hw).
  destruct (run_io p w) as [[a|e|q] w']; auto. destruct Hp; auto.
Qed.

Lemma Forall_firstn_lt {A} (P : A -> Prop) n l : Forall P l -> Forall P (firstn n l).
Proof.
  intros H. rewrite <- (firstn_skipn n l) in H. apply Forall_app in H. tauto.
Qed.
Lemma Forall_skipn_lt {A} (P : A -> Prop) n l : Forall P l -> Forall P (skipn n l).
Proof.
  intros H. rewrite <- (firstn_skipn n l) in H. apply Forall_app in H. tauto.
Qed.

Lemma src_fill_spec s : SrcBytes s ->
  match src_fill s with
  | HOk vis s' => Forall (fun b => b < 256) (fst vis) /\ SrcBytes s'
  | HErr _ s' => SrcBytes s'
  | HPanic _ _ => False
  end.
Proof.
  unfold SrcBytes, src_fill. intros H.
  assert (G : match
    (if 0 <? s_avail s then HOk (s_rest s, limited s (s_avail s)) s
     else match s_rest s with
      | [] => HOk ([], 0) s
      | _ :: _ =>
        if match s_fail s with Some k => k =? s_refills s | None => false end
        then HErr EIo (mkSrc (s_rest s) (s_pos s) 0 (s_refills s + 1) (s_frag s) (s_fail s) (s_limit s))
        else
          let want := N.max 1 (s_frag s (s_refills s)) in
          let a := nmin_len want (s_rest s) in
          let s' := mkSrc (s_rest s) (s_pos s) a (s_refills s + 1) (s_frag s) (s_fail s) (s_limit s) in
          HOk (s_rest s, limited s' a) s'
      end)
    with
    | HOk vis s' => Forall (fun b => b < 256) (fst vis) /\ Forall (fun b => b < 256) (s_rest s')
    | HErr _ s' => Forall (fun b => b < 256) (s_rest s')
    | HPanic _ _ => False
    end).
  { destruct (0 <? s_avail s); [cbn [fst]; auto|].
    destruct (s_rest s) as [|b l] eqn:E; [cbn [fst]; rewrite E; auto|].
    destruct (match s_fail s with Some k => k =? s_refills s | None => false end);
      cbn [fst s_rest]; auto. }
  destruct (s_limit s) as [[|l]|]; [cbn [fst]; auto|exact G|exact G].
Qed.

Lemma io_safe_fill : io_safe (fun vis => Forall (fun b => b < 256) (fst vis)) (icall FillBuf).
Proof.
  intros w Hw. unfold run_io. rewrite interp_call. cbn [io_h].
  pose proof (src_fill_spec (i_src w) Hw) as H.
  destruct (src_fill (i_src w)) as [vis s'|e s'|q s']; cbn [i_src]; auto.
Qed.

Lemma io_safe_consume n : io_safe (fun _ => True) (icall (Consume n)).
Proof.
  intros w Hw. unfold run_io. rewrite interp_call. cbn [io_h i_src]. split; [exact I|].
  unfold SrcBytes, src_consume. cbn [s_rest]. unfold nskipn. apply Forall_skipn_lt. exact Hw.
Qed.

Lemma read_buf_safe n :
  io_safe (fun got => Forall (fun b => b < 256) got /\ nlen got <= n) (read_buf n).
Proof.
  unfold read_buf. destruct (N.eqb_spec n 0) as [E|E].
  - apply io_safe_ret. split; [constructor|]. unfold nlen. cbn [length]. lia.
  - eapply io_safe_bind; [apply io_safe_fill|]. intros vis Hvis. cbv beta.
    eapply io_safe_bind; [apply io_safe_consume|]. intros _ _.
    apply io_safe_ret. split.
    + unfold nfirstn. apply Forall_firstn_lt. exact Hvis.
    + unfold nlen, nfirstn.
      pose proof (firstn_le_length (N.to_nat (N.min n (snd vis))) (fst vis)). lia.
Qed.

Lemma read_exact_loop_safe fuel : forall n acc,
  (N.to_nat n <= fuel)%nat -> Forall (fun b => b < 256) acc ->
  io_safe (fun l => Forall (fun b => b < 256) l /\ nlen l = nlen acc + n) (read_exact_loop fuel n acc).
Proof.
  induction fuel as [|fuel IH]; intros n acc Hf Hacc.
  - assert (n = 0) by lia. subst n. cbn [read_exact_loop]. change (0 =? 0) with true. cbv iota.
    apply io_safe_ret. rewrite lrev_rev. split; [apply Forall_rev; exact Hacc|].
    unfold nlen. rewrite rev_length. lia.
  - cbn [read_exact_loop]. destruct (N.eqb_spec n 0) as [E|E].
    + subst n. apply io_safe_ret. rewrite lrev_rev. split; [apply Forall_rev; exact Hacc|].
      unfold nlen. rewrite rev_length. lia.
    + eapply io_safe_bind; [apply read_buf_safe|]. intros got [Hg Hl]. cbv beta.
      destruct got as [|g got']; [apply io_safe_fail|].
      set (gl := g :: got') in *.
      assert (Hgl : 1 <= nlen gl) by (unfold nlen, gl; cbn [length]; lia).
      eapply io_safe_weaken.
      * apply IH; [lia|]. rewrite rev_append_rev. apply Forall_app. split; [apply Forall_rev; exact Hg|exact Hacc].
      * intros l [H1 H2]. split; [exact H1|]. rewrite H2. rewrite rev_append_rev.
        unfold nlen in *. rewrite app_length, rev_length. lia.
Qed.

Lemma read_exact_safe n :
  io_safe (fun l => Forall (fun b => b < 256) l /\ nlen l = n) (read_exact n).
Proof.
  unfold read_exact. eapply io_safe_weaken.
  - apply read_exact_loop_safe; [lia|constructor].
  - intros l [H1 H2]. split; [exact H1|]. rewrite H2. unfold nlen. cbn [length]. lia.
Qed.

(* read_u8 never panics and returns a byte *)
Theorem read_u8_safe : io_safe (fun b => b < 256) read_u8.
Proof.
  unfold read_u8. eapply io_safe_bind; [apply read_exact_safe|].
  intros bs [Hb Hl]. destruct bs as [|b [|b' bs]].
  - unfold nlen in Hl. cbn [length] in Hl. lia.
  - apply io_safe_ret. inversion Hb; assumption.
  - unfold nlen in Hl. cbn [length] in Hl. lia.
Qed.
Print Assumptions read_u8_safe.

Lemma read_u32_be_safe : io_safe (fun v => v < 2 ^ 32) read_u32_be.
Proof.
  unfold read_u32_be. eapply io_safe_bind; [apply read_exact_safe|].
  intros bs [Hb Hl]. apply io_safe_ret.
  destruct bs as [|b0 [|b1 [|b2 [|b3 [|b4 bs]]]]]; unfold nlen in Hl; cbn [length] in Hl; try lia.
  inversion Hb as [|? ? H0 Hb1]; subst. inversion Hb1 as [|? ? H1 Hb2]; subst.
  inversion Hb2 as [|? ? H2 Hb3]; subst. inversion Hb3 as [|? ? H3 _]; subst.
  unfold be_num. cbn [be_num_acc]. change (2 ^ 32) with 4294967296. lia.
Qed.

Lemma is_eof_safe : io_safe (fun _ => True) is_eof.
Proof.
  unfold is_eof. eapply io_safe_bind; [apply io_safe_fill|]. intros vis _. apply io_safe_ret. exact I.
Qed.

Lemma rc_normalize_safe r : RcInv r -> io_safe RcInv (rc_normalize r).
Proof.
  intros Hr. unfold rc_normalize. destruct (r_range r <? 16777216).
  - eapply io_safe_bind; [apply read_u8_safe|]. intros b Hb. apply io_safe_ret.
    unfold RcInv. cbn [r_range r_code]. change (2 ^ 32) with 4294967296. split; [apply M32_lt|].
    change 4294967296 with (2 ^ 32). apply lxor_lt_pow2.
    + change (2 ^ 32) with 4294967296. apply M32_lt.
    + cbv beta in Hb. change (2 ^ 32) with 4294967296. lia.
  - apply io_safe_ret. exact Hr.
Qed.

Lemma shiftr11_mul_le range p : p <= 2047 -> N.shiftr range 11 * p <= range.
Proof.
  intros Hp. rewrite N.shiftr_div_pow2. change (2 ^ 11) with 2048.
  transitivity (range / 2048 * 2048).
  - apply N.mul_le_mono_l. lia.
  - rewrite N.mul_comm. apply N.mul_div_le. discriminate.
Qed.

Definition dec_bit_post (p : N) (x : bool * N * rc) : Prop :=
  let '(b, p', r') := x in
  RcInv r' /\ p' <= 2047 /\ (31 <= p <= 2017 -> 31 <= p' <= 2017).

Lemma rc_decode_bit_io_safe r p upd : RcInv r -> p <= 2047 ->
  io_safe (dec_bit_post p) (rc_decode_bit r p upd).
Proof.
  intros [Hr Hc] Hp. unfold rc_decode_bit.
  pose proof (shiftr11_mul_le (r_range r) p Hp) as Hb.
  set (bound := N.shiftr (r_range r) 11 * p) in *. clearbody bound.
  change (2 ^ 32) with 4294967296 in *.
  unfold U32. destruct (N.leb_spec 4294967296 bound) as [Hx|_]; [lia|].
  pose proof (prob_step_no_u16_overflow p Hp) as (Hu1 & Hu2 & Hu3).
  destruct (N.ltb_spec (r_code r) bound) as [Hlt|Hge].
  - destruct (N.ltb_spec 2048 p) as [Hx|_]; [lia|]. rewrite andb_false_r.
    set (p' := if upd then p + N.shiftr (2048 - p) 5 else p).
    assert (Hp' : p' <= 2047 /\ p' < U16 /\ (31 <= p <= 2017 -> 31 <= p' <= 2017)).
    { unfold p'. destruct upd.
      - split; [exact Hu1|]. split; [exact Hu2|]. intros H. apply prob_step_range. exact H.
      - unfold U16. lia. }
    clearbody p'. destruct Hp' as (Hp1 & Hp2 & Hp3).
    destruct (N.leb_spec U16 p') as [Hx|_]; [lia|].
    eapply io_safe_bind.
    + apply rc_normalize_safe. unfold RcInv. cbn [r_range r_code]. change (2 ^ 32) with 4294967296. lia.
    + intros r' Hr'. apply io_safe_ret. unfold dec_bit_post. auto.
  - set (p' := if upd then p - N.shiftr p 5 else p).
    assert (Hp' : p' <= 2047 /\ (31 <= p <= 2017 -> 31 <= p' <= 2017)).
    { unfold p'. destruct upd.
      - split; [exact Hu3|]. intros H. apply prob_step_range. exact H.
      - lia. }
    clearbody p'. destruct Hp' as (Hp1 & Hp3).
    destruct (N.ltb_spec (r_range r) bound) as [Hx|_]; [lia|].
    eapply io_safe_bind.
    + apply rc_normalize_safe. unfold RcInv. cbn [r_range r_code]. change (2 ^ 32) with 4294967296. lia.
    + intros r' Hr'. apply io_safe_ret. unfold dec_bit_post. auto.
Qed.

(* transfer to src_run (the form used by the handler dec_h) *)
Lemma io_safe_src_run {A} (Q : A -> Prop) p s : io_safe Q p -> SrcBytes s ->
  match src_run p s with
  | (Done a, s') => Q a /\ SrcBytes s'
  | (Failed _, s') => SrcBytes s'
  | (Panicked _, _) => False
  end.
Proof.
  intros Hp Hs. unfold src_run. specialize (Hp (mkIo s vec_sink) Hs).
  destruct (run_io p (mkIo s vec_sink)) as [[a|e|q] w']; exact Hp.
Qed.

Theorem read_u8_src_safe s : SrcBytes s ->
  match src_run read_u8 s with
  | (Done b, s') => b < 256 /\ SrcBytes s'
  | (Failed _, s') => SrcBytes s'
  | (Panicked _, _) => False
  end.
Proof. apply io_safe_src_run. apply read_u8_safe. Qed.
Print Assumptions read_u8_src_safe.

Theorem rc_decode_bit_safe r p upd s : RcInv r -> p <= 2047 -> SrcBytes s ->
  match src_run (rc_decode_bit r p upd) s with
  | (Done (b, p', r'), s') =>
      RcInv r' /\ p' <= 2047 /\ (31 <= p <= 2017 -> 31 <= p' <= 2017) /\ SrcBytes s'
  | (Failed _, s') => SrcBytes s'
  | (Panicked _, _) => False
  end.
Proof.
  intros Hr Hp Hs.
  pose proof (io_safe_src_run (dec_bit_post p) (rc_decode_bit r p upd) s
                (rc_decode_bit_io_safe r p upd Hr Hp) Hs) as H.
  destruct (src_run (rc_decode_bit r p upd) s) as [[[[b p'] r']|e|q] s']; [|exact H|exact H].
  unfold dec_bit_post in H. tauto.
Qed.
Print Assumptions rc_decode_bit_safe.

(* SrcBytes is needed: a source element that is not a byte breaks RcInv *)
Example rc_decode_bit_needs_SrcBytes :
  fst (src_run (rc_decode_bit (mkRc 1 0) 1024 true) (cursor_of [1099511627776]))
  = Done (true, 992, mkRc 256 1099511627776).
Proof. vm_compute. reflexivity. Qed.

(* rc_get *)
Lemma rc_get_bit_safe r : RcInv r -> io_safe (fun x => RcInv (snd x)) (rc_get_bit r).
Proof.
  intros [Hr Hc]. unfold rc_get_bit. change (2 ^ 32) with 4294967296 in *.
  assert (Hs : N.shiftr (r_range r) 1 < 4294967296).
  { rewrite N.shiftr_div_pow2. change (2 ^ 1) with 2. lia. }
  set (range := N.shiftr (r_range r) 1) in *. clearbody range.
  eapply io_safe_bind.
  - apply rc_normalize_safe. unfold RcInv. cbn [r_range r_code]. change (2 ^ 32) with 4294967296.
    split; [exact Hs|]. destruct (range <=? r_code r); lia.
  - intros r' Hr'. apply io_safe_ret. exact Hr'.
Qed.

Lemma rc_get_loop_safe n : forall r result k, RcInv r -> result < 2 ^ k ->
  io_safe (fun x => fst x < 2 ^ (k + N.of_nat n) /\ RcInv (snd x)) (rc_get_loop n r result).
Proof.
  induction n as [|n IH]; intros r result k Hr Hres; cbn [rc_get_loop].
  - apply io_safe_ret. cbn [fst snd]. rewrite N.add_0_r. auto.
  - eapply io_safe_bind; [apply rc_get_bit_safe; exact Hr|].
    intros [b r'] Hr'. cbn [snd] in Hr'.
    eapply io_safe_weaken.
    + apply (IH r' _ (k + 1) Hr').
      apply lxor_lt_pow2.
      * eapply N.le_lt_trans; [apply M32_le|]. rewrite N.shiftl_mul_pow2, pow2_succ. change (2 ^ 1) with 2. lia.
      * rewrite pow2_succ. pose proof (pow2_pos k). destruct b; unfold b2n; lia.
    + intros x Hx. replace (k + N.of_nat (S n)) with (k + 1 + N.of_nat n) by lia. exact Hx.
Qed.

Theorem rc_get_safe count r s : RcInv r -> SrcBytes s ->
  match src_run (rc_get count r) s with
  | (Done (v, r'), s') => v < 2 ^ count /\ RcInv r' /\ SrcBytes s'
  | (Failed _, s') => SrcBytes s'
  | (Panicked _, _) => False
  end.
Proof.
  intros Hr Hs. unfold rc_get.
  assert (H0 : 0 < 2 ^ 0) by (apply pow2_pos).
  pose proof (io_safe_src_run _ _ s (rc_get_loop_safe (N.to_nat count) r 0 0 Hr H0) Hs) as H.
  destruct (src_run (rc_get_loop (N.to_nat count) r 0) s) as [[[v r']|e|q] s']; [|exact H|exact H].
  cbn [fst snd] in H. rewrite N2Nat.id, N.add_0_l in H. tauto.
Qed.
Print Assumptions rc_get_safe.

Theorem rc_new_safe s : SrcBytes s ->
  match src_run rc_new s with
  | (Done r, s') => RcInv r /\ SrcBytes s'
  | (Failed _, s') => SrcBytes s'
  | (Panicked _, _) => False
  end.
Proof.
  apply io_safe_src_run. unfold rc_new.
  eapply io_safe_bind; [apply read_u8_safe|]. intros _ _.
  eapply io_safe_bind; [apply read_u32_be_safe|]. intros code Hc.
  apply io_safe_ret. unfold RcInv. cbn [r_range r_code]. split; [|exact Hc].
  change (2 ^ 32) with 4294967296. lia.
Qed.
Print Assumptions rc_new_safe.

Theorem rc_is_finished_ok_safe r s : SrcBytes s ->
  match src_run (rc_is_finished_ok r) s with
  | (Done _, s') => SrcBytes s'
  | (Failed _, s') => SrcBytes s'
  | (Panicked _, _) => False
  end.
Proof.
  intros Hs. unfold rc_is_finished_ok.
  assert (H : io_safe (fun _ : bool => True) (if r_code r =? 0 then is_eof else Ret false)).
  { destruct (r_code r =? 0); [apply is_eof_safe|apply io_safe_ret; exact I]. }
  pose proof (io_safe_src_run _ _ s H Hs) as G.
  destruct (src_run (if r_code r =? 0 then is_eof else Ret false) s) as [[b|e|q] s']; tauto.
Qed.
Print Assumptions rc_is_finished_ok_safe.

(* ====================================================================== *)
(* Part 2: table indices                                                    *)
(* ====================================================================== *)

(* ---------- the shape of the tables ---------- *)
Record LenStd (l : lentabs) : Prop := mkLenStd {
  ls_low : t_len (lt_low l) = 128;
  ls_mid : t_len (lt_mid l) = 128;
  ls_high : t_len (lt_high l) = 256
}.

(* t has the shape of ptabs_new (2^lcp); contents arbitrary *)
Record TabsStd (t : ptabs) (lcp : N) : Prop := mkTabsStd {
  ts_rows : p_lit_rows t = 2 ^ lcp;
  ts_lit : t_len (p_lit t) = 2 ^ lcp * 768;
  ts_pos_slot : t_len (p_pos_slot t) = 256;
  ts_align : t_len (p_align t) = 16;
  ts_pos_dec : t_len (p_pos_dec t) = 115;
  ts_is_match : t_len (p_is_match t) = 192;
  ts_is_rep : t_len (p_is_rep t) = 12;
  ts_is_rep_g0 : t_len (p_is_rep_g0 t) = 12;
  ts_is_rep_g1 : t_len (p_is_rep_g1 t) = 12;
  ts_is_rep_g2 : t_len (p_is_rep_g2 t) = 12;
  ts_is_rep_0long : t_len (p_is_rep_0long t) = 192;
  ts_len : LenStd (p_len t);
  ts_rep_len : LenStd (p_rep_len t)
}.

Lemma LenStd_new : LenStd lentabs_new.
Proof. constructor; reflexivity. Qed.

Lemma TabsStd_new lcp : TabsStd (ptabs_new (N.shiftl 1 lcp)) lcp.
Proof.
  rewrite N.shiftl_1_l. constructor; try reflexivity; apply LenStd_new.
Qed.

Lemma len_set_LenStd l p v : LenStd l -> LenStd (len_set l p v).
Proof. intros [H1 H2 H3]. destruct p; constructor; assumption. Qed.

Theorem cell_set_TabsStd t lcp c v : TabsStd t lcp -> TabsStd (cell_set t c v) lcp.
Proof.
  intros H. destruct H. destruct t as [rows lit psl al pd im ir g0 g1 g2 r0 ln rl]. cbn [p_lit_rows p_lit p_pos_slot p_align p_pos_dec p_is_match p_is_rep
    p_is_rep_g0 p_is_rep_g1 p_is_rep_g2 p_is_rep_0long p_len p_rep_len] in *.
  destruct c as [i|i|i|i|i|i|row col|ls i|i|i|rep lpart]; try (constructor; assumption).
  destruct rep; constructor; try assumption; apply len_set_LenStd; assumption.
Qed.
Print Assumptions cell_set_TabsStd.

(* ---------- cells that lie inside tables of the standard shape ---------- *)
Definition lenpart_in (p : lenpart) : Prop :=
  match p with
  | LChoice | LChoice2 => True
  | LLow ps i | LMid ps i => ps < 16 /\ i < 8
  | LHigh i => i < 256
  end.

Definition cell_in (lcp : N) (c : cell) : Prop :=
  match c with
  | CIsMatch i | CIsRep0Long i => i < 192
  | CIsRep i | CIsRepG0 i | CIsRepG1 i | CIsRepG2 i => i < 12
  | CLit row col => row < 2 ^ lcp /\ col < 768
  | CPosSlot ls i => ls < 4 /\ i < 64
  | CPosDec i => i < 115
  | CAlign i => i < 16
  | CLen _ p => lenpart_in p
  end.

Lemma tab_get_in tb i L : t_len tb = L -> i < L -> tab_get tb i <> None.
Proof.
  intros HL Hi. unfold tab_get. destruct (N.ltb_spec i (t_len tb)); [discriminate|lia].
Qed.

Lemma len_get_in l p : LenStd l -> lenpart_in p -> len_get l p <> None.
Proof.
  intros [H1 H2 H3] Hp. destruct p as [| |ps i|ps i|i]; cbn [len_get lenpart_in] in *.
  - discriminate.
  - discriminate.
  - destruct Hp as [Hps Hi].
    destruct (N.ltb_spec ps 16); [|lia]. destruct (N.ltb_spec i 8); [|lia]. cbn [andb].
    eapply tab_get_in; [exact H1|lia].
  - destruct Hp as [Hps Hi].
    destruct (N.ltb_spec ps 16); [|lia]. destruct (N.ltb_spec i 8); [|lia]. cbn [andb].
    eapply tab_get_in; [exact H2|lia].
  - eapply tab_get_in; [exact H3|lia].
Qed.

Theorem cell_in_get lcp c t : cell_in lcp c -> TabsStd t lcp -> cell_get t c <> None.
Proof.
  intros Hc Ht. destruct Ht.
  destruct c as [i|i|i|i|i|i|row col|ls i|i|i|rep lpart]; cbn [cell_get cell_in] in *;
    try (eapply tab_get_in; [eassumption|lia]).
  - destruct Hc as [Hr Hcol]. rewrite ts_rows0.
    destruct (N.ltb_spec row (2 ^ lcp)); [|lia]. destruct (N.ltb_spec col 768); [|lia]. cbn [andb].
    eapply tab_get_in; [eassumption|].
    set (R := 2 ^ lcp) in *. clearbody R.
    apply N.lt_le_trans with ((row + 1) * 768); [lia|]. apply N.mul_le_mono_r. lia.
  - destruct Hc as [Hls Hi].
    destruct (N.ltb_spec ls 4); [|lia]. destruct (N.ltb_spec i 64); [|lia]. cbn [andb].
    eapply tab_get_in; [eassumption|lia].
  - destruct rep; apply len_get_in; assumption.
Qed.
Print Assumptions cell_in_get.

(* ---------- the program logic ---------- *)

(* restriction on the answers of the environment *)
Definition ans_ok {X} (o : decE X) : X -> Prop :=
  match o in decE X return X -> Prop with
  | Bit _ _ => fun _ => True
  | Direct c => fun x => x < 2 ^ c
  | FinishedOk => fun _ => True
  | WLen => fun _ => True
  | WLastOr _ => fun x => x < 256
  | WLastN _ => fun x => x < 256
  | WAppendLit _ => fun _ => True
  | WAppendLz _ _ => fun _ => True
  end.

Definition op_cell (P : cell -> Prop) {X} (o : decE X) : Prop :=
  match o with Bit c _ => P c | _ => True end.

(* every Bit operation on every path uses a cell satisfying P *)
Inductive cells_ok (P : cell -> Prop) {A} : dprog A -> Prop :=
| co_ret a : cells_ok P (Ret a)
| co_fail e : cells_ok P (Fail e)
| co_panic w : cells_ok P (Panic w)
| co_vis X (o : decE X) k : op_cell P o -> (forall x, ans_ok o x -> cells_ok P (k x)) -> cells_ok P (Vis o k).

(* every value returned on some path satisfies Q *)
Inductive rets_ok {A} (Q : A -> Prop) : dprog A -> Prop :=
| ro_ret a : Q a -> rets_ok Q (Ret a)
| ro_fail e : rets_ok Q (Fail e)
| ro_panic w : rets_ok Q (Panic w)
| ro_vis X (o : decE X) k : (forall x, ans_ok o x -> rets_ok Q (k x)) -> rets_ok Q (Vis o k).

(* no Panic node is reachable *)
Inductive no_panic_node {A} : dprog A -> Prop :=
| np_ret a : no_panic_node (Ret a)
| np_fail e : no_panic_node (Fail e)
| np_vis X (o : decE X) k : (forall x, ans_ok o x -> no_panic_node (k x)) -> no_panic_node (Vis o k).

(* The three at once, plus the preconditions the window operations need on the
   concrete handler (used in Part 3): distances are >= 1 and appended literals
   and last_or defaults are bytes. *)
Definition op_pre (P : cell -> Prop) {X} (o : decE X) : Prop :=
  match o with
  | Bit c _ => P c
  | WLastOr d => d < 256
  | WLastN dist => 1 <= dist
  | WAppendLit b => b < 256
  | WAppendLz _ dist => 1 <= dist
  | _ => True
  end.

Inductive safe_prog (P : cell -> Prop) {A} (Q : A -> Prop) : dprog A -> Prop :=
| sp_ret a : Q a -> safe_prog P Q (Ret a)
| sp_fail e : safe_prog P Q (Fail e)
| sp_vis X (o : decE X) k : op_pre P o -> (forall x, ans_ok o x -> safe_prog P Q (k x)) -> safe_prog P Q (Vis o k).

Lemma safe_prog_cells (P : cell -> Prop) {A} (Q : A -> Prop) (P' : cell -> Prop) p :
  (forall c, P c -> P' c) -> safe_prog P Q p -> cells_ok P' p.
Proof.
  intros HP H. induction H as [a Ha|e|X o k Ho Hk IH]; try constructor.
  - destruct o; cbn [op_pre op_cell] in *; auto.
  - exact IH.
Qed.

Lemma safe_prog_rets (P : cell -> Prop) {A} (Q : A -> Prop) p : safe_prog P Q p -> rets_ok Q p.
Proof.
  intros H. induction H as [a Ha|e|X o k Ho Hk IH]; constructor; assumption.
Qed.

Lemma safe_prog_no_panic (P : cell -> Prop) {A} (Q : A -> Prop) p : safe_prog P Q p -> no_panic_node p.
Proof.
  intros H. induction H as [a Ha|e|X o k Ho Hk IH]; constructor; assumption.
Qed.

Lemma sp_bind (P : cell -> Prop) {A B} (Q : A -> Prop) (R : B -> Prop) (p : dprog A) (f : A -> dprog B) :
  safe_prog P Q p -> (forall a, Q a -> safe_prog P R (f a)) -> safe_prog P R (bind p f).
Proof.
  intros Hp Hf. induction Hp as [a Ha|e|X o k Ho Hk IH]; cbn [bind].
  - apply Hf. exact Ha.
  - constructor.
  - constructor; [exact Ho|]. intros x Hx. apply IH. exact Hx.
Qed.

Lemma sp_weaken (P : cell -> Prop) {A} (Q Q' : A -> Prop) p :
  safe_prog P Q p -> (forall a, Q a -> Q' a) -> safe_prog P Q' p.
Proof.
  intros Hp HQ. induction Hp as [a Ha|e|X o k Ho Hk IH]; constructor; auto.
Qed.

Lemma sp_call (P : cell -> Prop) {X} (o : decE X) : op_pre P o -> safe_prog P (ans_ok o) (call o).
Proof.
  intros Ho. unfold call. constructor; [exact Ho|]. intros x Hx. constructor. exact Hx.
Qed.

Lemma sp_bit (P : cell -> Prop) c upd : P c -> safe_prog P (fun _ => True) (dcall (Bit c upd)).
Proof. intros H. apply (sp_call P (Bit c upd)). exact H. Qed.

(* ---------- bit trees ---------- *)
Lemma pow2_le_mono a b : a <= b -> 2 ^ a <= 2 ^ b.
Proof. apply N.pow_le_mono_r. discriminate. Qed.

Lemma bit_tree_loop_safe (P : cell -> Prop) mk upd n : forall k tmp,
  k + N.of_nat n <= 31 -> 2 ^ k <= tmp < 2 ^ (k + 1) ->
  (forall i, 1 <= i < 2 ^ (k + N.of_nat n) -> P (mk i)) ->
  safe_prog P (fun r => 2 ^ (k + N.of_nat n) <= r < 2 ^ (k + N.of_nat n + 1)) (bit_tree_loop n mk upd tmp).
Proof.
  induction n as [|n IH]; intros k tmp Hk Ht HP; cbn [bit_tree_loop].
  - apply sp_ret. change (N.of_nat 0) with 0. rewrite N.add_0_r. exact Ht.
  - pose proof (pow2_pos k) as Hk0.
    assert (H31 : 2 ^ (k + 1) <= 2147483648).
    { change 2147483648 with (2 ^ 31). apply pow2_le_mono. lia. }
    eapply sp_bind.
    + apply sp_bit. apply HP. split; [lia|].
      eapply N.lt_le_trans; [apply Ht|]. apply pow2_le_mono. lia.
    + intros b _.
      replace (k + N.of_nat (S n)) with (k + 1 + N.of_nat n) by lia.
      apply IH; [lia| |].
      * rewrite N.shiftl_mul_pow2. change (2 ^ 1) with 2.
        rewrite M32_small by lia. rewrite (N.mul_comm tmp 2), lxor_double_bit.
        rewrite (pow2_succ (k + 1)). rewrite (pow2_succ k) in *.
        set (K := 2 ^ k) in *. clearbody K. destruct b; unfold b2n; lia.
      * intros i Hi. apply HP. replace (k + N.of_nat (S n)) with (k + 1 + N.of_nat n) by lia. exact Hi.
Qed.

Lemma parse_bit_tree_safe (P : cell -> Prop) nb mk upd : nb <= 31 ->
  (forall i, 1 <= i < 2 ^ nb -> P (mk i)) ->
  safe_prog P (fun r => r < 2 ^ nb) (parse_bit_tree nb mk upd).
Proof.
  intros Hnb HP. unfold parse_bit_tree.
  eapply sp_bind.
  - apply (bit_tree_loop_safe P mk upd (N.to_nat nb) 0 1).
    + lia.
    + change (2 ^ 0) with 1. change (2 ^ (0 + 1)) with 2. lia.
    + intros i Hi. apply HP. rewrite N2Nat.id, N.add_0_l in Hi. exact Hi.
  - intros tmp Ht. cbv beta in Ht. rewrite N2Nat.id, N.add_0_l in Ht.
    rewrite N.shiftl_1_l. rewrite pow2_succ in Ht.
    set (K := 2 ^ nb) in *. clearbody K.
    destruct (N.ltb_spec tmp K); [lia|]. apply sp_ret. lia.
Qed.

Lemma rev_bit_tree_loop_safe (P : cell -> Prop) mk offset upd n : forall i tmp result k,
  2 ^ k <= tmp < 2 ^ (k + 1) -> result < 2 ^ i ->
  (forall j, 1 <= j < 2 ^ (k + N.of_nat n) -> P (mk (offset + j))) ->
  safe_prog P (fun r => r < 2 ^ (i + N.of_nat n)) (rev_bit_tree_loop n i mk offset upd tmp result).
Proof.
  induction n as [|n IH]; intros i tmp result k Ht Hr HP; cbn [rev_bit_tree_loop].
  - apply sp_ret. change (N.of_nat 0) with 0. rewrite N.add_0_r. exact Hr.
  - pose proof (pow2_pos k) as Hk0.
    eapply sp_bind.
    + apply sp_bit. apply HP. split; [lia|].
      eapply N.lt_le_trans; [apply Ht|]. apply pow2_le_mono. lia.
    + intros b _.
      replace (i + N.of_nat (S n)) with (i + 1 + N.of_nat n) by lia.
      apply (IH (i + 1) _ _ (k + 1)).
      * rewrite N.shiftl_mul_pow2. change (2 ^ 1) with 2.
        rewrite (N.mul_comm tmp 2), lxor_double_bit.
        rewrite (pow2_succ (k + 1)). rewrite (pow2_succ k) in *.
        set (K := 2 ^ k) in *. clearbody K. destruct b; unfold b2n; lia.
      * apply lxor_lt_pow2.
        -- rewrite pow2_succ. lia.
        -- eapply N.le_lt_trans; [apply M32_le|]. rewrite N.shiftl_mul_pow2, pow2_succ.
           pose proof (pow2_pos i). set (K := 2 ^ i) in *. clearbody K. destruct b; unfold b2n; lia.
      * intros j Hj. apply HP. replace (k + N.of_nat (S n)) with (k + 1 + N.of_nat n) by lia. exact Hj.
Qed.

Lemma parse_reverse_bit_tree_safe (P : cell -> Prop) nb mk offset upd :
  (forall j, 1 <= j < 2 ^ nb -> P (mk (offset + j))) ->
  safe_prog P (fun r => r < 2 ^ nb) (parse_reverse_bit_tree nb mk offset upd).
Proof.
  intros HP. unfold parse_reverse_bit_tree.
  eapply sp_weaken.
  - apply (rev_bit_tree_loop_safe P mk offset upd (N.to_nat nb) 0 1 0 0).
    + change (2 ^ 0) with 1. change (2 ^ (0 + 1)) with 2. lia.
    + change (2 ^ 0) with 1. lia.
    + intros j Hj. apply HP. rewrite N2Nat.id, N.add_0_l in Hj. exact Hj.
  - intros r Hr. cbv beta in Hr. rewrite N2Nat.id, N.add_0_l in Hr. exact Hr.
Qed.

(* ---------- len_decode ---------- *)
Lemma len_decode_safe lcp rep ps upd : ps < 16 ->
  safe_prog (cell_in lcp) (fun l => l < 272) (len_decode rep ps upd).
Proof.
  intros Hps. unfold len_decode.
  eapply sp_bind; [apply sp_bit; exact I|]. intros c1 _.
  destruct c1; cbn [negb].
  - eapply sp_bind; [apply sp_bit; exact I|]. intros c2 _.
    destruct c2; cbn [negb].
    + eapply sp_bind.
      * apply parse_bit_tree_safe; [lia|]. intros i Hi. change (2 ^ 8) with 256 in Hi.
        cbn [cell_in lenpart_in]. lia.
      * intros v Hv. cbv beta in Hv. change (2 ^ 8) with 256 in Hv. apply sp_ret. lia.
    + eapply sp_bind.
      * apply parse_bit_tree_safe; [lia|]. intros i Hi. change (2 ^ 3) with 8 in Hi.
        cbn [cell_in lenpart_in]. lia.
      * intros v Hv. cbv beta in Hv. change (2 ^ 3) with 8 in Hv. apply sp_ret. lia.
  - eapply sp_weaken.
    + apply parse_bit_tree_safe; [lia|]. intros i Hi. change (2 ^ 3) with 8 in Hi.
      cbn [cell_in lenpart_in]. lia.
    + intros v Hv. cbv beta in Hv. change (2 ^ 3) with 8 in Hv. lia.
Qed.

(* ---------- decode_literal ---------- *)
Lemma lit_matched_loop_safe lcp row upd fuel : forall mb result,
  row < 2 ^ lcp -> 1 <= result < 512 ->
  safe_prog (cell_in lcp) (fun r => 1 <= r < 512) (lit_matched_loop fuel row upd mb result).
Proof.
  induction fuel as [|f IH]; intros mb result Hrow Hres; cbn [lit_matched_loop].
  - apply sp_ret. exact Hres.
  - destruct (N.leb_spec 256 result) as [Hge|Hlt]; [apply sp_ret; exact Hres|].
    pose proof (land_1_le (N.shiftr mb 7)) as Hmb.
    set (match_bit := N.land (N.shiftr mb 7) 1) in *. clearbody match_bit.
    eapply sp_bind.
    + apply sp_bit. cbn [cell_in]. split; [exact Hrow|].
      rewrite N.shiftl_mul_pow2. change (2 ^ 8) with 256. lia.
    + intros b _.
      assert (Hr' : 1 <= N.lxor (N.shiftl result 1) (b2n b) < 512).
      { rewrite N.shiftl_mul_pow2. change (2 ^ 1) with 2.
        rewrite (N.mul_comm result 2), lxor_double_bit. destruct b; unfold b2n; lia. }
      destruct (match_bit =? b2n b).
      * apply IH; assumption.
      * apply sp_ret. exact Hr'.
Qed.

Lemma lit_plain_loop_safe lcp row upd fuel : forall result,
  row < 2 ^ lcp -> 1 <= result < 512 -> 256 <= result * 2 ^ (N.of_nat fuel) ->
  safe_prog (cell_in lcp) (fun r => 256 <= r < 512) (lit_plain_loop fuel row upd result).
Proof.
  induction fuel as [|f IH]; intros result Hrow Hres Hf; cbn [lit_plain_loop].
  - apply sp_ret. change (2 ^ N.of_nat 0) with 1 in Hf. lia.
  - destruct (N.leb_spec 256 result) as [Hge|Hlt]; [apply sp_ret; lia|].
    eapply sp_bind.
    + apply sp_bit. cbn [cell_in]. split; [exact Hrow|lia].
    + intros b _.
      rewrite N.shiftl_mul_pow2. change (2 ^ 1) with 2.
      rewrite (N.mul_comm result 2), lxor_double_bit.
      apply IH; [exact Hrow|destruct b; unfold b2n; lia|].
      replace (N.of_nat (S f)) with (N.of_nat f + 1) in Hf by lia.
      rewrite pow2_succ in Hf. set (K := 2 ^ N.of_nat f) in *. clearbody K.
      apply N.le_trans with (2 * result * K); [lia|]. apply N.mul_le_mono_r. lia.
Qed.

Lemma lit_state_lt lcv lpv len prev : lcv <= 8 -> prev < 256 ->
  N.shiftl (N.land len (N.shiftl 1 lpv - 1)) lcv + N.shiftr prev (8 - lcv) < 2 ^ (lcv + lpv).
Proof.
  intros Hlc Hprev.
  pose proof (land_mask_lt len lpv) as Hx.
  set (x := N.land len (N.shiftl 1 lpv - 1)) in *. clearbody x.
  assert (Hy : N.shiftr prev (8 - lcv) < 2 ^ lcv).
  { rewrite N.shiftr_div_pow2. apply N.div_lt_upper_bound; [apply N.pow_nonzero; discriminate|].
    rewrite <- N.pow_add_r. replace (8 - lcv + lcv) with 8 by lia. exact Hprev. }
  set (y := N.shiftr prev (8 - lcv)) in *. clearbody y.
  rewrite N.shiftl_mul_pow2, N.pow_add_r.
  set (C := 2 ^ lcv) in *. set (Pp := 2 ^ lpv) in *. clearbody C Pp.
  apply N.lt_le_trans with ((x + 1) * C); [lia|].
  rewrite (N.mul_comm C Pp). apply N.mul_le_mono_r. lia.
Qed.

Lemma decode_literal_safe p y upd : lc p <= 8 ->
  safe_prog (cell_in (lc p + lp p)) (fun b => b < 256) (decode_literal p y upd).
Proof.
  intros Hlc. unfold decode_literal.
  eapply sp_bind; [apply (sp_call _ (WLastOr 0)); cbn [op_pre]; lia|]. intros prev Hprev. cbn [ans_ok] in Hprev.
  eapply sp_bind; [apply (sp_call _ WLen); exact I|]. intros len _.
  destruct (N.ltb_spec 8 (lc p)) as [Hx|_]; [lia|].
  pose proof (lit_state_lt (lc p) (lp p) len prev Hlc Hprev) as Hrow.
  set (lit_state := N.shiftl (N.land len (N.shiftl 1 (lp p) - 1)) (lc p) + N.shiftr prev (8 - lc p)) in *.
  clearbody lit_state.
  eapply sp_bind with (Q := fun r => 1 <= r < 512).
  - destruct (7 <=? y_state y).
    + eapply sp_bind; [apply (sp_call _ (WLastN (rep0 (y_rep y) + 1))); cbn [op_pre]; lia|].
      intros mb _. apply lit_matched_loop_safe; [exact Hrow|lia].
    + apply sp_ret. lia.
  - intros r1 Hr1. cbv beta in Hr1.
    eapply sp_bind.
    + apply lit_plain_loop_safe; [exact Hrow|exact Hr1|]. change (2 ^ N.of_nat 8) with 256. lia.
    + intros r2 Hr2. cbv beta in Hr2.
      destruct (N.ltb_spec r2 256) as [Hx|_]; [lia|].
      apply sp_ret. rewrite M8_small by lia. lia.
Qed.

(* ---------- decode_distance ---------- *)
Definition dist_small_chk (ps : N) : bool :=
  let ndb := N.shiftr ps 1 - 1 in
  let result := N.shiftl (N.lxor 2 (N.land ps 1)) ndb in
  (ps <=? result) && (result - ps + 2 ^ ndb <=? 115) && (result + 2 ^ ndb <=? 4294967296).

Lemma dist_small_all : forallb dist_small_chk [4;5;6;7;8;9;10;11;12;13] = true.
Proof. vm_compute. reflexivity. Qed.

Lemma dist_small ps : 4 <= ps < 14 ->
  let ndb := N.shiftr ps 1 - 1 in
  let result := N.shiftl (N.lxor 2 (N.land ps 1)) ndb in
  ps <= result /\ result - ps + 2 ^ ndb <= 115 /\ result + 2 ^ ndb <= 4294967296.
Proof.
  intros Hps.
  assert (Hin : In ps [4;5;6;7;8;9;10;11;12;13]).
  { cbn [In]. lia. }
  pose proof (proj1 (forallb_forall _ _) dist_small_all ps Hin) as H.
  unfold dist_small_chk in H. cbv zeta in *.
  rewrite !andb_true_iff, !N.leb_le in H. tauto.
Qed.

Lemma lxor2_land1_le ps : N.lxor 2 (N.land ps 1) <= 3.
Proof.
  pose proof (land_1_le ps) as H.
  assert (E : N.land ps 1 = 0 \/ N.land ps 1 = 1) by lia.
  destruct E as [E|E]; rewrite E; vm_compute; discriminate.
Qed.

Lemma decode_distance_safe lcp len upd :
  safe_prog (cell_in lcp) (fun r => r < 2 ^ 32) (decode_distance len upd).
Proof.
  unfold decode_distance.
  set (len_state := if 3 <? len then 3 else len).
  assert (Hls : len_state < 4).
  { unfold len_state. destruct (N.ltb_spec 3 len); lia. }
  clearbody len_state.
  eapply sp_bind.
  - apply parse_bit_tree_safe; [lia|]. intros i Hi. change (2 ^ 6) with 64 in Hi.
    cbn [cell_in]. lia.
  - intros ps Hps. cbv beta in Hps. change (2 ^ 6) with 64 in Hps. change (2 ^ 32) with 4294967296.
    destruct (N.ltb_spec ps 4) as [H4|H4]; [apply sp_ret; lia|].
    destruct (N.ltb_spec ps 14) as [H14|H14].
    + pose proof (dist_small ps (conj H4 H14)) as Hd. cbv zeta in Hd.
      set (ndb := N.shiftr ps 1 - 1) in *. clearbody ndb.
      set (result := N.shiftl (N.lxor 2 (N.land ps 1)) ndb) in *. clearbody result.
      destruct Hd as (Hd1 & Hd2 & Hd3).
      destruct (N.ltb_spec result ps) as [Hx|_]; [lia|].
      eapply sp_bind.
      * apply parse_reverse_bit_tree_safe. intros j Hj. cbn [cell_in]. lia.
      * intros r Hr. cbv beta in Hr. apply sp_ret. lia.
    + assert (Hndb : 6 <= N.shiftr ps 1 - 1 <= 30).
      { rewrite N.shiftr_div_pow2. change (2 ^ 1) with 2. lia. }
      set (ndb := N.shiftr ps 1 - 1) in *. clearbody ndb.
      pose proof (lxor2_land1_le ps) as Hm.
      set (m := N.lxor 2 (N.land ps 1)) in *. clearbody m.
      eapply sp_bind; [apply (sp_call _ (Direct (ndb - 4))); exact I|].
      intros d Hd. cbn [ans_ok] in Hd.
      eapply sp_bind.
      * apply parse_reverse_bit_tree_safe. intros j Hj. change (2 ^ 4) with 16 in Hj.
        cbn [cell_in]. lia.
      * intros a Ha. cbv beta in Ha. change (2 ^ 4) with 16 in Ha. apply sp_ret.
        rewrite !N.shiftl_mul_pow2. change (2 ^ 4) with 16.
        assert (E : 2 ^ ndb = 2 ^ (ndb - 4) * 16).
        { change 16 with (2 ^ 4). rewrite <- N.pow_add_r. f_equal. lia. }
        assert (H32 : 4 * 2 ^ ndb <= 4294967296).
        { change 4 with (2 ^ 2). rewrite <- N.pow_add_r. change 4294967296 with (2 ^ 32).
          apply pow2_le_mono. lia. }
        set (K := 2 ^ ndb) in *. set (K4 := 2 ^ (ndb - 4)) in *. clearbody K K4.
        assert (m * K <= 3 * K) by (apply N.mul_le_mono_r; exact Hm).
        lia.
Qed.

(* ---------- the three arms ---------- *)
(* The bound on the reps is a parameter B (any property implied by < 2^32), so
   that the cell statement can be had without any assumption on the reps. *)
Section Arms.
Variable B : N -> Prop.
Hypothesis HB : forall x, x < 2 ^ 32 -> B x.

Definition reps_ok (r : reps) : Prop :=
  B (rep0 r) /\ B (rep1 r) /\ B (rep2 r) /\ B (rep3 r).
Definition sym_ok (y : sym_st) : Prop := y_state y < 12 /\ reps_ok (y_rep y).
Definition psym_ok (r : psym) : Prop := sym_ok (snd r).

Lemma rep_get_ok r i : reps_ok r -> B (rep_get r i).
Proof.
  intros (H0 & H1 & H2 & H3). unfold rep_get.
  destruct (i =? 0); [exact H0|]. destruct (i =? 1); [exact H1|]. destruct (i =? 2); assumption.
Qed.

Lemma lit_arm_safe p y upd : lc p <= 8 -> sym_ok y ->
  safe_prog (cell_in (lc p + lp p)) psym_ok (lit_arm p y upd).
Proof.
  intros Hlc [Hst Hrep]. unfold lit_arm.
  eapply sp_bind; [apply decode_literal_safe; exact Hlc|]. intros byte Hb. cbv beta in Hb.
  destruct upd.
  - eapply sp_bind; [apply (sp_call _ (WAppendLit byte)); exact Hb|]. intros _ _.
    apply sp_ret. unfold psym_ok, sym_ok. cbn [snd y_state y_rep]. split; [|exact Hrep].
    destruct (N.ltb_spec (y_state y) 4); [lia|]. destruct (N.ltb_spec (y_state y) 10); lia.
  - apply sp_ret. unfold psym_ok, sym_ok. cbn [snd]. auto.
Qed.

Definition pre_ok (x : psym + reps) : Prop :=
  match x with inl r => psym_ok r | inr r' => reps_ok r' end.

Lemma rep_select_safe lcp y ps upd : ps < 16 -> sym_ok y ->
  safe_prog (cell_in lcp) pre_ok (rep_select y ps upd).
Proof.
  intros Hps [Hst Hrep]. unfold rep_select.
  eapply sp_bind; [apply sp_bit; cbn [cell_in]; exact Hst|]. intros g0 _.
  destruct g0; cbn [negb].
  - eapply sp_bind; [apply sp_bit; cbn [cell_in]; exact Hst|]. intros g1 _.
    eapply sp_bind with (Q := fun _ => True).
    + destruct g1; cbn [negb].
      * eapply sp_bind; [apply sp_bit; cbn [cell_in]; exact Hst|]. intros g2 _. apply sp_ret. exact I.
      * apply sp_ret. exact I.
    + intros idx _. destruct upd; [|apply sp_ret; exact Hrep].
      apply sp_ret. cbn [pre_ok].
      pose proof (rep_get_ok (y_rep y) idx Hrep) as Hg.
      destruct Hrep as (H0 & H1 & H2 & H3).
      destruct (idx =? 1); [|destruct (idx =? 2)]; unfold reps_ok; cbn [rep0 rep1 rep2 rep3]; auto.
  - eapply sp_bind.
    + apply sp_bit. cbn [cell_in]. rewrite N.shiftl_mul_pow2. change (2 ^ 4) with 16. lia.
    + intros l0 _. destruct l0; cbn [negb].
      * apply sp_ret. exact Hrep.
      * destruct upd.
        -- eapply sp_bind; [apply (sp_call _ (WAppendLz 1 (rep0 (y_rep y) + 1))); cbn [op_pre]; lia|].
           intros _ _. apply sp_ret. cbn [pre_ok]. unfold psym_ok, sym_ok. cbn [snd y_state y_rep].
           split; [|exact Hrep]. destruct (y_state y <? 7); lia.
        -- apply sp_ret. cbn [pre_ok]. unfold psym_ok, sym_ok. cbn [snd]. auto.
Qed.

Lemma rep_arm_safe lcp y ps upd : ps < 16 -> sym_ok y ->
  safe_prog (cell_in lcp) psym_ok (rep_arm y ps upd).
Proof.
  intros Hps Hy. unfold rep_arm.
  eapply sp_bind; [apply rep_select_safe; eassumption|]. intros pre Hpre.
  destruct pre as [res|r']; cbn [pre_ok] in Hpre.
  - apply sp_ret. exact Hpre.
  - eapply sp_bind; [apply len_decode_safe; exact Hps|]. intros len _.
    destruct upd.
    + eapply sp_bind; [apply (sp_call _ (WAppendLz (len + 2) (rep0 r' + 1))); cbn [op_pre]; lia|].
      intros _ _. apply sp_ret. unfold psym_ok, sym_ok. cbn [snd y_state y_rep].
      split; [|exact Hpre]. destruct (y_state y <? 7); lia.
    + apply sp_ret. exact Hy.
Qed.

Lemma match_arm_safe lcp y ps upd : ps < 16 -> sym_ok y ->
  safe_prog (cell_in lcp) psym_ok (match_arm y ps upd).
Proof.
  intros Hps Hy. unfold match_arm.
  eapply sp_bind; [apply len_decode_safe; exact Hps|]. intros len _.
  eapply sp_bind; [apply decode_distance_safe|]. intros rep_0 Hr0. cbv beta in Hr0. apply HB in Hr0.
  destruct upd; [|apply sp_ret; exact Hy].
  assert (Hres : forall st, psym_ok (st, mkSym (if y_state y <? 7 then 7 else 10)
                     (mkReps rep_0 (rep0 (y_rep y)) (rep1 (y_rep y)) (rep2 (y_rep y))))).
  { intros st. destruct Hy as [Hst (H0 & H1 & H2 & H3)].
    unfold psym_ok, sym_ok, reps_ok. cbn [snd y_state y_rep rep0 rep1 rep2 rep3].
    split; [destruct (y_state y <? 7); lia|auto]. }
  destruct (rep_0 =? 4294967295).
  - eapply sp_bind; [apply (sp_call _ FinishedOk); exact I|]. intros fin _.
    destruct fin; [apply sp_ret; apply Hres|apply sp_fail].
  - eapply sp_bind; [apply (sp_call _ (WAppendLz (len + 2) (rep_0 + 1))); cbn [op_pre]; lia|].
    intros _ _. apply sp_ret. apply Hres.
Qed.

(* ---------- process_next_inner ---------- *)
Theorem process_next_inner_safe p y upd :
  lc p <= 8 -> lp p <= 4 -> pb p <= 4 -> sym_ok y ->
  safe_prog (cell_in (lc p + lp p)) psym_ok (process_next_inner p y upd).
Proof.
  intros Hlc Hlp Hpb Hy. unfold process_next_inner.
  eapply sp_bind; [apply (sp_call _ WLen); exact I|]. intros len0 _.
  destruct (N.ltb_spec 63 (pb p)) as [Hx|_]; [lia|].
  assert (Hps : N.land len0 (N.shiftl 1 (pb p) - 1) < 16).
  { eapply N.lt_le_trans; [apply land_mask_lt|]. change 16 with (2 ^ 4). apply pow2_le_mono. exact Hpb. }
  set (pos_state := N.land len0 (N.shiftl 1 (pb p) - 1)) in *. clearbody pos_state.
  eapply sp_bind.
  - apply sp_bit. cbn [cell_in]. rewrite N.shiftl_mul_pow2. change (2 ^ 4) with 16.
    destruct Hy as [Hst _]. lia.
  - intros is_m _. destruct is_m; cbn [negb].
    + eapply sp_bind; [apply sp_bit; cbn [cell_in]; apply Hy|]. intros is_r _.
      destruct is_r; [apply rep_arm_safe|apply match_arm_safe]; assumption.
    + apply lit_arm_safe; assumption.
Qed.
End Arms.
Print Assumptions process_next_inner_safe.

Definition reps32 : reps -> Prop := reps_ok (fun x => x < 2 ^ 32).
Definition sym32 (y : sym_st) : Prop := y_state y < 12 /\ reps32 (y_rep y).

(* the statements of the task *)
Theorem process_next_inner_cells p y upd :
  lc p <= 8 -> lp p <= 4 -> pb p <= 4 -> y_state y < 12 ->
  cells_ok (fun c => forall t, TabsStd t (lc p + lp p) -> cell_get t c <> None) (process_next_inner p y upd).
Proof.
  intros Hlc Hlp Hpb Hst.
  eapply safe_prog_cells; [|apply (process_next_inner_safe (fun _ => True)); try assumption].
  - intros c Hc t Ht. eapply cell_in_get; eassumption.
  - auto.
  - unfold sym_ok, reps_ok. auto.
Qed.
Print Assumptions process_next_inner_cells.

Theorem process_next_inner_rets p y upd :
  lc p <= 8 -> lp p <= 4 -> pb p <= 4 -> sym32 y ->
  rets_ok (fun r : psym => sym32 (snd r)) (process_next_inner p y upd).
Proof.
  intros Hlc Hlp Hpb Hy.
  eapply safe_prog_rets. apply (process_next_inner_safe (fun x => x < 2 ^ 32)); auto.
Qed.
Print Assumptions process_next_inner_rets.

Theorem process_next_inner_no_panic p y upd :
  lc p <= 8 -> lp p <= 4 -> pb p <= 4 -> y_state y < 12 ->
  no_panic_node (process_next_inner p y upd).
Proof.
  intros Hlc Hlp Hpb Hst.
  eapply safe_prog_no_panic. apply (process_next_inner_safe (fun _ => True)); try assumption.
  - auto.
  - unfold sym_ok, reps_ok. auto.
Qed.
Print Assumptions process_next_inner_no_panic.
