(* C08 through the streaming API under ANY sink behaviour: the size rule of Proofs/StreamSize.v (proved there for
   sinks that never fail on write) combined with the lock-step theorem of Proofs/FaultStream.v.
   If the driver returns Done on a sink with short writes / an injected write fault / a failing flush, then the
   fault was never hit, and exactly the bytes of the run on the well-behaved twin reached the sink: with a size n
   in effect, exactly n bytes. *)
From LZ Require Import Base.Prelude Base.Prog Model.Io Model.Tables Model.LzBuffer Model.RangeDec Model.Lzma Model.Stream.
From LZ Require Import Proofs.StreamLatch Proofs.StreamPrefix Proofs.FaultTheorems Proofs.HeaderRules Proofs.StreamSimData.
From LZ Require Import Proofs.FaultStreamRel Proofs.FaultStream Proofs.StreamSize.

Definition stream_size_rule_any_sink_statement : Prop :=
  forall (o : options) (k : snk) (pieces : list (list N)) (pbyte : N) (db ub t : list N),
    o_allow_incomplete o = false -> snk_hit k = false ->
    concat pieces = pbyte :: db ++ ub ++ t -> nlen db = 4 -> nlen ub = size_field_len (o_unpacked o) ->
    Forall (fun b => b < 256) (concat pieces) -> nlen (concat pieces) < 140737488355328 ->
    fst (drive (stream_new o k) pieces) = Done tt ->
    exists out, snk_bytes (snd (drive (stream_new o k) pieces)) = snk_bytes k ++ out /\
      forall n, size_in_effect (o_unpacked o) (le_num ub) = Some n -> nlen out = n.

Theorem stream_size_rule_any_sink : stream_size_rule_any_sink_statement.
Proof.
  intros o k pieces pbyte db ub t Hai Hh Hcat Hdb Hub Hb Hlen Hd.
  destruct (stream_faulty_drive_prefix o k (well_behaved k) pieces (twin_well_behaved k Hh)) as [_ H].
  destruct (H Hd) as [Hd' Eb].
  destruct (stream_size_rule_sink o (well_behaved k) pieces pbyte db ub t Hai eq_refl Hcat Hdb Hub Hb Hlen Hd')
    as (out & Eo & Hn).
  exists out. split; [|exact Hn]. rewrite Eb, Eo. reflexivity.
Qed.
Print Assumptions stream_size_rule_any_sink.
