(* Property C07, Part 10 (fuel adequacy, XZ container): the block loop of decode/xz.rs (PFuel 30),
   the LZMA2 chunk loop (PFuel 20) and process_mode (PFuel 10) all run on the same fuel value.
   With fuel >= 16913 * (input length + 21):
     - the block loop always terminates (every block consumes at least its header-size byte);
     - the FIRST filter of every block, which reads the shared source, never runs out of fuel;
     - the only way to see a Panicked outcome is a CHAINED filter (second or later filter of a
       block) that runs out of fuel on an in-memory buffer - the output of the previous filter -
       which is longer than fuel / 16913 - 21 (LZ expansion: that buffer can be much longer
       than the input).
   Consequences: streams whose blocks declare a single filter are decoded totally; in general the
   fuel has to cover the longest intermediate buffer. *)
From LZ Require Import Base.Prelude Base.Prog Model.Io Model.Tables Model.LzBuffer Model.RangeDec
  Model.Lzma Model.Lzma2 Model.Crc Model.Xz.
From LZ Require Import Proofs.ProgLemmas Proofs.MapLemmas Proofs.NoPanic Proofs.NoPanicWorld
                       Proofs.IoInv Proofs.SrcMono Proofs.ResetFresh Proofs.Lzma2Inv Proofs.XzSound
                       Proofs.NoPanicLoops Proofs.NoPanicLzma2 Proofs.NoPanicXz
                       Proofs.FuelAdequacy Proofs.FuelAdequacy2.
From Coq Require Import ZifyBool ZifyNat ZifyN.
Local Open Scope prog_scope.

Ltac Zify.zify_post_hook ::= Z.div_mod_to_equations.

(* ====================================================================== *)
(* No I/O program ever un-reads: the remaining input only shrinks           *)
(* ====================================================================== *)
Lemma src_fill_rest s : s_rest (hstate (src_fill s)) = s_rest s.
Proof.
  unfold src_fill. destruct s as [rest pos avail refills frag fail lim]. cbn [s_rest s_limit s_avail s_fail s_refills s_frag s_pos].
  repeat match goal with
         | |- context [match ?x with _ => _ end] => destruct x; cbn [hstate s_rest]
         end; reflexivity.
Qed.

Lemma io_h_rest X (o : ioE X) w : nlen (s_rest (i_src (hstate (io_h X o w)))) <= nlen (s_rest (i_src w)).
Proof.
  destruct o; cbn [io_h].
  - pose proof (src_fill_rest (i_src w)) as H.
    destruct (src_fill (i_src w)); cbn [hstate i_src] in *; rewrite H; lia.
  - cbn [hstate i_src src_consume s_rest]. apply nlen_nskipn_le.
  - destruct (snk_write (i_snk w) bs); cbn [hstate i_src]; lia.
  - destruct (snk_flush (i_snk w)); cbn [hstate i_src]; lia.
  - cbn [hstate]. lia.
  - cbn [hstate]. lia.
Qed.

Lemma run_io_rest_le {A} (p : iop A) w : nlen (s_rest (i_src (snd (run_io p w)))) <= nlen (s_rest (i_src w)).
Proof.
  apply (interp_pres io_h (fun a b => nlen (s_rest (i_src b)) <= nlen (s_rest (i_src a)))).
  - intros s. lia.
  - intros a b c. lia.
  - apply io_h_rest.
Qed.

(* ====================================================================== *)
(* One filter                                                               *)
(* ====================================================================== *)
Definition fuel_for (fuel : positive) (n : N) : Prop := 16913 * (n + 21) <= N.pos fuel.

Lemma fuel_for_mono fuel n m : m <= n -> fuel_for fuel n -> fuel_for fuel m.
Proof. unfold fuel_for. lia. Qed.

Theorem decode_filter_total fuel f s : SrcBytes s -> fuel_for fuel (nlen (s_rest s)) ->
  match decode_filter fuel f s with
  | (Done (_, out), s') => Bytes out /\ SrcBytes s' /\ nlen (s_rest s') <= nlen (s_rest s)
  | (Failed _, s') => SrcBytes s' /\ nlen (s_rest s') <= nlen (s_rest s)
  | (Panicked _, _) => False
  end.
Proof.
  intros Hs Hf. unfold decode_filter. destruct (negb (nlen (f_props f) =? 1)); [split; [exact Hs|lia]|]. cbv zeta.
  pose proof (lzma2_decompress_total_bytes fuel (mkIo s vec_sink) Hs (vec_sink_SnkBytes IsByte) Hf) as H.
  cbn [i_src] in H.
  destruct (lzma2_decompress_top fuel (mkIo s vec_sink)) as [[u|e|q] w].
  - destruct H as (H1 & H2 & H3). split; [exact (snk_bytes_Bytes IsByte _ H2)|]. split; assumption.
  - tauto.
  - contradiction.
Qed.
Print Assumptions decode_filter_total.

(* what comes out of an LZMA2 filter run on at most [n] remaining bytes *)
Definition lzma2_output_of (fuel : positive) (n : N) (out : list N) : Prop :=
  exists f s k s', SrcBytes s /\ nlen (s_rest s) <= n /\ decode_filter fuel f s = (Done (k, out), s').

(* a chained filter ran out of fuel on an intermediate buffer longer than fuel / 16913 - 21 *)
Definition chain_short (fuel : positive) (p : panic_site) : Prop :=
  exists f buf, Bytes buf /\ (exists n, lzma2_output_of fuel n buf) /\
                ~ fuel_for fuel (nlen buf) /\ fst (decode_filter fuel f (cursor_of buf)) = Panicked p.

(* the buffers handed to the chained filters *)
Fixpoint later_inputs (fuel : positive) (fs : list filter) (buf : list N) : list (list N) :=
  match fs with
  | [] => []
  | f :: fs' =>
      buf :: match decode_filter fuel f (cursor_of buf) with
             | (Done (_, out), _) => later_inputs fuel fs' out
             | _ => []
             end
  end.

(* chained filters are total as soon as the fuel covers every intermediate buffer *)
Theorem later_filters_total fuel fs : forall buf, Bytes buf ->
  Forall (fun b => fuel_for fuel (nlen b)) (later_inputs fuel fs buf) ->
  match later_filters fuel fs buf with
  | Done out => Bytes out
  | Failed _ => True
  | Panicked _ => False
  end.
Proof.
  induction fs as [|f fs IH]; intros buf Hb Hall; cbn [later_filters later_inputs] in *; [exact Hb|].
  inversion Hall as [|? ? H1 H2]; subst.
  pose proof (decode_filter_total fuel f (cursor_of buf) Hb H1) as H.
  destruct (decode_filter fuel f (cursor_of buf)) as [[[n out]|e|q] s']; [|exact I|contradiction].
  apply IH; tauto.
Qed.
Print Assumptions later_filters_total.

(* in any case, a panic of the chain is a fuel shortage on an over-long intermediate buffer *)
Theorem later_filters_char fuel fs : forall buf, Bytes buf -> (exists n, lzma2_output_of fuel n buf) ->
  match later_filters fuel fs buf with
  | Done out => Bytes out
  | Failed _ => True
  | Panicked p => chain_short fuel p
  end.
Proof.
  induction fs as [|f fs IH]; intros buf Hb Ho; cbn [later_filters]; [exact Hb|].
  pose proof (decode_filter_safe fuel f (cursor_of buf) Hb) as Hsafe.
  destruct (N.le_gt_cases (16913 * (nlen buf + 21)) (N.pos fuel)) as [Hle|Hgt].
  - pose proof (decode_filter_total fuel f (cursor_of buf) Hb Hle) as H.
    destruct (decode_filter fuel f (cursor_of buf)) as [[[n out]|e|q] s'] eqn:E; [|exact I|contradiction].
    apply IH; [tauto|]. exists (nlen buf), f, (cursor_of buf), n, s'. split; [exact Hb|]. split; [|exact E].
    cbn [cursor_of src_of s_rest]. lia.
  - destruct (decode_filter fuel f (cursor_of buf)) as [[[n out]|e|q] s'] eqn:E; [|exact I|].
    + apply IH; [tauto|]. exists (nlen buf), f, (cursor_of buf), n, s'. split; [exact Hb|]. split; [|exact E].
      cbn [cursor_of src_of s_rest]. lia.
    + exists f, buf. split; [exact Hb|]. split; [exact Ho|]. split; [unfold fuel_for; lia|]. rewrite E. reflexivity.
Qed.
Print Assumptions later_filters_char.

(* ====================================================================== *)
(* The pure header parser: at most 4 filters                                *)
(* ====================================================================== *)
Lemma read_filters_length n hs : forall l acc fs l', read_filters n hs l acc = Done (fs, l') ->
  length fs = (n + length acc)%nat.
Proof.
  induction n as [|n IH]; intros l acc fs l' H; cbn [read_filters] in H.
  - inversion H; subst. rewrite lrev_rev, rev_length. reflexivity.
  - destruct (lget_multibyte l) as [[id l1]|e|q]; try discriminate.
    destruct (negb (id =? 33)); [discriminate|].
    destruct (lget_multibyte l1) as [[sz l2]|e|q]; try discriminate.
    destruct (hs <? sz); [discriminate|]. destruct (nlen l2 <? sz); [discriminate|].
    apply IH in H. cbn [length] in H. lia.
Qed.

Lemma land3_le flags : N.land flags 3 <= 3.
Proof. change 3 with (N.ones 2) at 1. rewrite N.land_ones. change (2 ^ 2) with 4. lia. Qed.

Theorem read_block_header_filters hs l bh : read_block_header hs l = Done bh ->
  (1 <= length (bh_filters bh) <= 4)%nat.
Proof.
  unfold read_block_header. destruct l as [|flags l0]; [discriminate|]. cbv zeta.
  destruct (negb (N.land flags 60 =? 0)); [discriminate|].
  destruct (if negb (N.land flags 64 =? 0) then _ else _) as [[packed l1]|e|q]; try discriminate.
  destruct (if negb (N.land flags 128 =? 0) then _ else _) as [[unpacked l2]|e|q]; try discriminate.
  destruct (read_filters _ hs l2 []) as [[fs l3]|e|q] eqn:E; try discriminate.
  destruct (forallb _ l3); [|discriminate]. intros H. inversion H; subst. cbn [bh_filters].
  apply read_filters_length in E. cbn [length] in E. pose proof (land3_le flags). lia.
Qed.

(* ====================================================================== *)
(* read_block only advances the source                                      *)
(* ====================================================================== *)
Definition m_mono {A} (m : M io A) : Prop :=
  forall w, nlen (s_rest (i_src (snd (m w)))) <= nlen (s_rest (i_src w)).

Lemma m_mono_ret {A} (a : A) : m_mono (mret a).
Proof. intros w. cbn. lia. Qed.
Lemma m_mono_fail {A} e : m_mono (@mfail io A e).
Proof. intros w. cbn. lia. Qed.
Lemma m_mono_panic {A} q : m_mono (@mpanic io A q).
Proof. intros w. cbn. lia. Qed.
Lemma m_mono_bind {A C} (m : M io A) (f : A -> M io C) : m_mono m -> (forall a, m_mono (f a)) -> m_mono (mbind m f).
Proof.
  intros Hm Hf w. unfold mbind. specialize (Hm w).
  destruct (m w) as [[a|e|q] w1]; cbn [snd] in *; [|exact Hm|exact Hm].
  specialize (Hf a w1). lia.
Qed.
Lemma m_mono_io {A} (p : iop A) : m_mono (io_run p).
Proof. intros w. apply run_io_rest_le. Qed.

Lemma decode_filter_rest fuel f s : nlen (s_rest (snd (decode_filter fuel f s))) <= nlen (s_rest s).
Proof.
  unfold decode_filter. destruct (negb (nlen (f_props f) =? 1)); [cbn [snd]; lia|]. cbv zeta.
  pose proof (lzma2_decompress_top_sle fuel (mkIo s vec_sink)) as H. apply sle_nlen in H. cbn [i_src] in H.
  destruct (lzma2_decompress_top fuel (mkIo s vec_sink)) as [[u|e|q] w]; cbn [snd] in *; exact H.
Qed.

Lemma read_block_rest crc32 crc64 fuel start check hs : m_mono (read_block crc32 crc64 fuel start check hs).
Proof.
  unfold read_block. destruct (hs =? 0); [apply m_mono_panic|]. cbv zeta.
  apply m_mono_bind; [apply m_mono_io|]. intros hdr.
  destruct (read_block_header (N.shiftl hs 2 - 1) hdr) as [bh|e|q]; [|apply m_mono_fail|apply m_mono_panic].
  apply m_mono_bind; [apply m_mono_io|]. intros crc.
  destruct (negb (crc =? crc32 (hs :: hdr))); [apply m_mono_fail|].
  apply m_mono_bind.
  - destruct (bh_filters bh) as [|f0 fs]; [apply m_mono_ret|]. intros w.
    pose proof (decode_filter_rest fuel f0 (i_src w)) as H.
    destruct (decode_filter fuel f0 (i_src w)) as [[[packed out]|e|q] s]; cbn [snd i_src] in *; try exact H.
    destruct (match bh_packed bh with Some e => negb (packed =? e) | None => false end); [exact H|].
    destruct (later_filters fuel fs out); exact H.
  - intros tmpbuf. cbv zeta.
    destruct (match bh_unpacked bh with Some e => negb (nlen tmpbuf =? e) | None => false end); [apply m_mono_fail|].
    apply m_mono_bind; [apply m_mono_io|]. intros pos.
    apply m_mono_bind; [apply m_mono_io|]. intros _.
    apply m_mono_bind; [apply m_mono_io|]. intros _.
    apply m_mono_bind; [apply m_mono_io|]. intros _.
    apply m_mono_bind; [apply m_mono_io|]. intros pos2.
    destruct (_ <? _); [apply m_mono_panic|apply m_mono_ret].
Qed.

(* ====================================================================== *)
(* The container                                                            *)
(* ====================================================================== *)
Section WithCrc.
Variable crc32 : list N -> N.
Variable crc64 : list N -> N.
Variable fuel : positive.
Variable B : N.                      (* bound on the number of input bytes still to be read *)
Hypothesis Hfuel : fuel_for fuel B.

Definition IOk (w : io) : Prop := SrcBytes (i_src w) /\ nlen (s_rest (i_src w)) <= B.

(* computations that keep IOk and whose panics all satisfy [P] *)
Definition m_tot {A} (P : panic_site -> Prop) (Q : A -> Prop) (m : M io A) : Prop :=
  forall w, IOk w ->
    match m w with
    | (Done a, w') => Q a /\ IOk w'
    | (Failed _, w') => IOk w'
    | (Panicked p, _) => P p
    end.

Lemma m_tot_ret {A} P (Q : A -> Prop) a : Q a -> m_tot P Q (mret a).
Proof. intros H w Hw. cbn. auto. Qed.
Lemma m_tot_fail {A} P (Q : A -> Prop) e : m_tot P Q (mfail e).
Proof. intros w Hw. exact Hw. Qed.
Lemma m_tot_bind {A C} P (Q : A -> Prop) (R : C -> Prop) (m : M io A) (f : A -> M io C) :
  m_tot P Q m -> (forall a, Q a -> m_tot P R (f a)) -> m_tot P R (mbind m f).
Proof.
  intros Hm Hf w Hw. unfold mbind. specialize (Hm w Hw).
  destruct (m w) as [[a|e|q] w1]; [|exact Hm|exact Hm]. destruct Hm as [Ha Hw1]. exact (Hf a Ha w1 Hw1).
Qed.

Lemma io_safe_IOk {A} (Q : A -> Prop) (p : iop A) w : io_safe Q p -> IOk w ->
  match run_io p w with
  | (Done a, w') => Q a /\ IOk w'
  | (Failed _, w') => IOk w'
  | (Panicked _, _) => False
  end.
Proof.
  intros Hp [Hs Hb]. specialize (Hp w Hs). pose proof (run_io_rest_le p w) as Hl.
  destruct (run_io p w) as [[a|e|q] w1]; cbn [snd] in Hl; [| |exact Hp].
  - destruct Hp as [Ha Hs1]. split; [exact Ha|]. split; [exact Hs1|lia].
  - split; [exact Hp|lia].
Qed.

Lemma m_tot_io {A} P (Q : A -> Prop) (p : iop A) : io_safe Q p -> m_tot P Q (io_run p).
Proof.
  intros Hp w Hw. pose proof (io_safe_IOk Q p w Hp Hw) as H. unfold io_run.
  destruct (run_io p w) as [[a|e|q] w1]; [exact H|exact H|contradiction].
Qed.

Local Open Scope m_scope.

(* padding, check, write, record: never panics (POverflow 51 is unreachable) *)
Theorem block_tail_tot P start check tmpbuf : m_tot P (fun _ => True) (block_tail crc32 crc64 start check tmpbuf).
Proof.
  intros w Hw. unfold block_tail, mbind, io_run.
  rewrite getpos_spec. set (pad := padding_of (s_pos (i_src w) - start)).
  pose proof (io_safe_IOk _ _ w (read_zero_padding_safe (N.to_nat pad) []) Hw) as H1.
  destruct (run_io (read_zero_padding (N.to_nat pad) []) w) as [[bs|e|q] w1] eqn:E1; [|exact H1|contradiction].
  destruct H1 as [_ H1]. apply read_zero_padding_inv in E1. destruct E1 as [_ E1]. apply reads_pos in E1.
  rewrite nlen_repeat, N2Nat.id in E1.
  pose proof (io_safe_IOk _ _ w1 (validate_block_check_safe crc32 crc64 tmpbuf check) H1) as H2.
  pose proof (run_io_pos_mono (validate_block_check crc32 crc64 tmpbuf check) w1) as P2.
  destruct (run_io (validate_block_check crc32 crc64 tmpbuf check) w1) as [[u|e|q] w2]; [|exact H2|contradiction].
  destruct H2 as [_ H2]. cbn [snd] in P2.
  pose proof (io_safe_IOk _ _ w2 (write_all_io_safe tmpbuf) H2) as H3.
  pose proof (run_io_pos_mono (write_all tmpbuf) w2) as P3.
  destruct (run_io (write_all tmpbuf) w2) as [[u'|e|q] w3]; [|exact H3|contradiction].
  destruct H3 as [_ H3]. cbn [snd] in P3.
  rewrite getpos_spec.
  destruct (N.ltb_spec (s_pos (i_src w3) - start) pad) as [Hx|_]; [|unfold mret; auto].
  exfalso. destruct (N.le_gt_cases start (s_pos (i_src w))) as [Hle|Hgt].
  - lia.
  - assert (Z : s_pos (i_src w) - start = 0) by lia. unfold pad in Hx. rewrite Z, padding_of_0 in Hx. lia.
Qed.

(* a panic inside a block: the chain of later filters (non-empty, at most 3) panicked on the
   output of the first filter *)
Definition chain_panic (bh : block_header) (p : panic_site) : Prop :=
  exists f0 fs out, bh_filters bh = f0 :: fs /\ Bytes out /\ lzma2_output_of fuel B out /\
                    later_filters fuel fs out = Panicked p.

(* the filter stage of read_block: the first filter, fed from the shared source, has enough fuel *)
Lemma filters_stage_tot bh :
  m_tot (chain_panic bh) (fun _ => True)
    (match bh_filters bh with
     | [] => mret []
     | f0 :: fs =>
         fun w =>
           match decode_filter fuel f0 (i_src w) with
           | (Failed e, s) => (Failed e, mkIo s (i_snk w))
           | (Panicked p, s) => (Panicked p, mkIo s (i_snk w))
           | (Done (packed, out), s) =>
               let w' := mkIo s (i_snk w) in
               if (match bh_packed bh with Some e => negb (packed =? e) | None => false end)
               then (Failed EXz, w')
               else match later_filters fuel fs out with
                    | Done b => (Done b, w') | Failed e => (Failed e, w') | Panicked p => (Panicked p, w')
                    end
           end
     end).
Proof.
  unfold chain_panic. destruct (bh_filters bh) as [|f0 fs]; [apply m_tot_ret; exact I|].
  intros w [Hs Hb].
  pose proof (decode_filter_total fuel f0 (i_src w) Hs (fuel_for_mono _ _ _ Hb Hfuel)) as Hd.
  destruct (decode_filter fuel f0 (i_src w)) as [[[packed out]|e|q] s] eqn:E; [| |contradiction].
  2:{ split; cbn [i_src]; [tauto|lia]. }
  destruct Hd as (Ho & Hs' & Hl). cbv zeta.
  assert (Hw' : IOk (mkIo s (i_snk w))) by (split; cbn [i_src]; [exact Hs'|lia]).
  destruct (match bh_packed bh with Some e => negb (packed =? e) | None => false end); [exact Hw'|].
  destruct (later_filters fuel fs out) as [b|e|q] eqn:El; [split; [exact I|exact Hw']|exact Hw'|].
  exists f0, fs, out. split; [reflexivity|]. split; [exact Ho|]. split; [|exact El].
  exists f0, (i_src w), packed, s. split; [exact Hs|]. split; [exact Hb|exact E].
Qed.

(* a panic of read_block called on [w] (just after the header-size byte [hs]) *)
Definition block_panic (hs : N) (w : io) (p : panic_site) : Prop :=
  exists hdr w1 bh, run_io (read_upto (N.shiftl hs 2 - 1)) w = (Done hdr, w1) /\
                    read_block_header (N.shiftl hs 2 - 1) hdr = Done bh /\ chain_panic bh p.

Theorem read_block_tot start check hs w : hs <> 0 -> IOk w ->
  match read_block crc32 crc64 fuel start check hs w with
  | (Done _, w') => IOk w'
  | (Failed _, w') => IOk w'
  | (Panicked p, _) => block_panic hs w p
  end.
Proof.
  intros Hhs Hw. unfold read_block. apply N.eqb_neq in Hhs. rewrite Hhs. cbv zeta.
  unfold mbind at 1. unfold io_run at 1.
  pose proof (io_safe_IOk _ _ w (read_upto_safe (N.shiftl hs 2 - 1)) Hw) as H1.
  destruct (run_io (read_upto (N.shiftl hs 2 - 1)) w) as [[hdr|e|q] w1] eqn:E1; [|exact H1|contradiction].
  destruct H1 as [_ H1].
  pose proof (read_block_header_no_panic (N.shiftl hs 2 - 1) hdr) as Hbh.
  destruct (read_block_header (N.shiftl hs 2 - 1) hdr) as [bh|e|q] eqn:Ebh; [|exact H1|contradiction].
  assert (T : m_tot (chain_panic bh) (fun _ : record => True)
            (crc <- io_run read_u32_le ;;
             if negb (crc =? crc32 (hs :: hdr)) then mfail EXz else
             tmpbuf <- (match bh_filters bh with
                        | [] => mret []
                        | f0 :: fs =>
                            fun w =>
                              match decode_filter fuel f0 (i_src w) with
                              | (Failed e, s) => (Failed e, mkIo s (i_snk w))
                              | (Panicked p, s) => (Panicked p, mkIo s (i_snk w))
                              | (Done (packed, out), s) =>
                                  let w' := mkIo s (i_snk w) in
                                  if (match bh_packed bh with Some e => negb (packed =? e) | None => false end)
                                  then (Failed EXz, w')
                                  else match later_filters fuel fs out with
                                       | Done b => (Done b, w') | Failed e => (Failed e, w') | Panicked p => (Panicked p, w')
                                       end
                              end
                        end) ;;
             if (match bh_unpacked bh with Some e => negb (nlen tmpbuf =? e) | None => false end) then mfail EXz else
             block_tail crc32 crc64 (start) check tmpbuf)).
  { eapply m_tot_bind; [apply m_tot_io; apply read_u32_le_safe|]. intros crc _.
    destruct (negb (crc =? crc32 (hs :: hdr))); [apply m_tot_fail|].
    eapply m_tot_bind; [apply filters_stage_tot|]. intros tmpbuf _. cbv beta.
    destruct (match bh_unpacked bh with Some e => negb (nlen tmpbuf =? e) | None => false end); [apply m_tot_fail|].
    apply block_tail_tot. }
  specialize (T w1 H1). unfold block_tail in T.
  match goal with |- match ?m with _ => _ end => match type of T with match ?m' with _ => _ end =>
    change m with m'; destruct m' as [[r|e|q] w2] end end; [tauto|exact T|].
  exists hdr, w1, bh. split; [exact E1|]. split; [exact Ebh|exact T].
Qed.

(* ---------- the block loop ---------- *)
Definition xz_st := (list record * io)%type.

(* the decoder reaches a block (header-size byte [hs] read, world [w1] just after it) *)
Definition xz_visits (check : check_method) (w0 : io) (hs : N) (w1 : io) : Prop :=
  exists n records w, iter_step n (xz_body crc32 crc64 fuel check) ([], w0) = Next (records, w) /\
                      run_io read_u8 w = (Done hs, w1) /\ hs <> 0.

Definition xz_res_tot (check : check_method) (w0 : io) (r : outcome N * io) : Prop :=
  match r with
  | (Panicked p, _) => exists hs w1, xz_visits check w0 hs w1 /\ block_panic hs w1 p
  | (_, w') => IOk w'
  end.

Definition xz_reach (check : check_method) (w0 : io) (st : xz_st) : Prop :=
  IOk (snd st) /\ exists n, iter_step n (xz_body crc32 crc64 fuel check) ([], w0) = Next st.

Definition xz_mu (st : xz_st) : N := nlen (s_rest (i_src (snd st))).

Theorem xz_body_tot check w0 st : xz_reach check w0 st ->
  match xz_body crc32 crc64 fuel check st with
  | Next st' => xz_reach check w0 st' /\ xz_mu st' + 1 <= xz_mu st
  | Break r => xz_res_tot check w0 r
  end.
Proof.
  destruct st as [records w]. intros [Hw [n Hn]]. cbn [snd] in Hw.
  pose proof (iter_step_S (xz_body crc32 crc64 fuel check) n ([], w0)) as Hsucc. rewrite Hn in Hsucc.
  unfold xz_body in *.
  pose proof (io_safe_IOk _ _ w read_u8_safe Hw) as H1.
  destruct (run_io read_u8 w) as [[hs|e|q] w1] eqn:E1; [|exact H1|contradiction]. destruct H1 as [_ H1].
  pose proof (read_u8_inv _ _ _ E1) as R1. apply reads_rest in R1.
  assert (L1 : nlen (s_rest (i_src w1)) + 1 = nlen (s_rest (i_src w))).
  { rewrite R1, IoInv.nlen_app. change (nlen [hs]) with 1. lia. }
  destruct (N.eqb_spec hs 0) as [E|E].
  - pose proof (io_safe_IOk _ _ w1 (check_index_safe crc32 (s_pos (i_src w)) (lrev records)) H1) as H2.
    destruct (run_io _ w1) as [[u|e|q] w2]; cbn [xz_res_tot]; [tauto|exact H2|contradiction].
  - pose proof (read_block_tot (s_pos (i_src w)) check hs w1 E H1) as H2.
    destruct (read_block crc32 crc64 fuel (s_pos (i_src w)) check hs w1) as [[r|e|q] w2] eqn:E2; cbn [xz_res_tot snd].
    + split.
      * split; [exact H2|]. exists (S n). exact Hsucc.
      * unfold xz_mu. cbn [snd]. destruct H2 as [_ H2].
        assert (Hle : nlen (s_rest (i_src w2)) <= nlen (s_rest (i_src w1))).
        { pose proof (read_block_rest crc32 crc64 fuel (s_pos (i_src w)) check hs w1) as Hr. rewrite E2 in Hr. exact Hr. }
        lia.
    + exact H2.
    + exists hs, w1. split; [|exact H2]. exists n, records, w. split; [exact Hn|]. split; [exact E1|exact E].
Qed.

(* the whole decoder: a panic can only come out of the chained filters of a block that was reached *)
Theorem xz_decompress_core w : IOk w ->
  match xz_decompress crc32 crc64 fuel w with
  | (Panicked p, _) =>
      exists check w0 hs w1, run_io (header_parse crc32) w = (Done check, w0) /\ xz_visits check w0 hs w1 /\ block_panic hs w1 p
  | (_, w') => IOk w'
  end.
Proof.
  intros Hw. unfold xz_decompress, mbind. unfold io_run at 1.
  pose proof (io_safe_IOk _ _ w (header_parse_safe crc32) Hw) as H0.
  destruct (run_io (header_parse crc32) w) as [[check|e|q] w0] eqn:E0; [|exact H0|contradiction].
  destruct H0 as [_ H0].
  assert (Hr : xz_reach check w0 ([], w0)) by (split; [exact H0|exists 0%nat; reflexivity]).
  assert (Hm : xz_mu ([], w0) < N.pos fuel).
  { unfold xz_mu. cbn [snd]. destruct H0 as [_ H0]. unfold fuel_for in Hfuel. lia. }
  pose proof (loopN_measure (xz_body crc32 crc64 fuel check) (xz_reach check w0) xz_mu (xz_res_tot check w0)
                (xz_body_tot check w0) fuel ([], w0) Hr Hm) as L.
  destruct (loopN fuel (xz_body crc32 crc64 fuel check) ([], w0)) as [[rs w']|[[isz|e|q] w']]; cbn [xz_res_tot] in L.
  - contradiction.
  - pose proof (io_safe_IOk _ _ w' (xz_footer_safe crc32 check isz) L) as H.
    destruct (run_io (xz_footer crc32 check isz) w') as [[u|e|q] w2]; [tauto|exact H|contradiction].
  - exact L.
  - destruct L as (hs & w1 & V & P). exists check, w0, hs, w1. split; [reflexivity|]. split; assumption.
Qed.

End WithCrc.
Print Assumptions xz_decompress_core.

(* ====================================================================== *)
(* 2. xz_decompress with fuel >= 16913 * (input length + 21)                *)
(* ====================================================================== *)

(* 2a. the only possible panic is a chained filter running out of fuel on an intermediate buffer
       (an LZMA2 output) that is longer than fuel / 16913 - 21; in particular PFuel 30 (block loop)
       never happens and the first filter of a block never runs out of fuel *)
Theorem xz_decompress_total_or_chained crc32 crc64 fuel w : SrcBytes (i_src w) ->
  fuel_for fuel (nlen (s_rest (i_src w))) ->
  match xz_decompress crc32 crc64 fuel w with
  | (Panicked p, _) => chain_short fuel p
  | (_, w') => SrcBytes (i_src w')
  end.
Proof.
  intros Hs Hf.
  pose proof (xz_decompress_core crc32 crc64 fuel (nlen (s_rest (i_src w))) Hf w (conj Hs (N.le_refl _))) as H.
  destruct (xz_decompress crc32 crc64 fuel w) as [[u|e|q] w']; [exact (proj1 H)|exact (proj1 H)|].
  destruct H as (check & w0 & hs & w1 & _ & _ & (hdr & w2 & bh & _ & _ & (f0 & fs & out & _ & Ho & Hl & Ep))).
  pose proof (later_filters_char fuel fs out Ho (ex_intro (fun n => lzma2_output_of fuel n out) _ Hl)) as C. rewrite Ep in C. exact C.
Qed.
Print Assumptions xz_decompress_total_or_chained.

(* 2b. the general statement: the fuel must also cover the longest intermediate buffer.  [L] bounds
       the length of every buffer that is handed to a chained filter in any block that the decoder
       reaches ([out] ranges over the possible outputs of the block's first filter). *)
Theorem xz_decompress_total_inter crc32 crc64 fuel L w : SrcBytes (i_src w) ->
  fuel_for fuel (nlen (s_rest (i_src w))) -> fuel_for fuel L ->
  (forall check w0 hs w1 hdr w2 bh f0 fs out,
     run_io (header_parse crc32) w = (Done check, w0) -> xz_visits crc32 crc64 fuel check w0 hs w1 ->
     run_io (read_upto (N.shiftl hs 2 - 1)) w1 = (Done hdr, w2) ->
     read_block_header (N.shiftl hs 2 - 1) hdr = Done bh -> bh_filters bh = f0 :: fs ->
     lzma2_output_of fuel (nlen (s_rest (i_src w))) out ->
     Forall (fun b => nlen b <= L) (later_inputs fuel fs out)) ->
  match xz_decompress crc32 crc64 fuel w with
  | (Panicked _, _) => False
  | (_, w') => SrcBytes (i_src w')
  end.
Proof.
  intros Hs Hf HL Hin.
  pose proof (xz_decompress_core crc32 crc64 fuel (nlen (s_rest (i_src w))) Hf w (conj Hs (N.le_refl _))) as H.
  destruct (xz_decompress crc32 crc64 fuel w) as [[u|e|q] w']; [exact (proj1 H)|exact (proj1 H)|].
  destruct H as (check & w0 & hs & w1 & E0 & V & (hdr & w2 & bh & E1 & E2 & (f0 & fs & out & Ef & Ho & Hl & Ep))).
  pose proof (Hin check w0 hs w1 hdr w2 bh f0 fs out E0 V E1 E2 Ef Hl) as Hall.
  assert (Hall' : Forall (fun b => fuel_for fuel (nlen b)) (later_inputs fuel fs out)).
  { eapply Forall_impl; [|exact Hall]. intros b Hb. exact (fuel_for_mono _ _ _ Hb HL). }
  pose proof (later_filters_total fuel fs out Ho Hall') as C. rewrite Ep in C. exact C.
Qed.
Print Assumptions xz_decompress_total_inter.

(* 2c. blocks with a single filter: the header that follows the header-size byte [hs] at world [w1]
       declares exactly one filter *)
Definition header_single (hs : N) (w1 : io) : Prop :=
  forall hdr w2 bh, run_io (read_upto (N.shiftl hs 2 - 1)) w1 = (Done hdr, w2) ->
                    read_block_header (N.shiftl hs 2 - 1) hdr = Done bh -> length (bh_filters bh) = 1%nat.

Lemma block_panic_single fuel B hs w1 p : header_single hs w1 -> block_panic fuel B hs w1 p -> False.
Proof.
  intros Hsingle (hdr & w2 & bh & E1 & E2 & (f0 & fs & out & Ef & _ & _ & Ep)).
  specialize (Hsingle hdr w2 bh E1 E2). rewrite Ef in Hsingle. destruct fs; [|discriminate].
  cbn [later_filters] in Ep. discriminate.
Qed.

Theorem read_block_total_single crc32 crc64 fuel start check hs w : hs <> 0 -> SrcBytes (i_src w) ->
  fuel_for fuel (nlen (s_rest (i_src w))) -> header_single hs w ->
  match read_block crc32 crc64 fuel start check hs w with
  | (Panicked _, _) => False
  | (_, w') => SrcBytes (i_src w') /\ nlen (s_rest (i_src w')) <= nlen (s_rest (i_src w))
  end.
Proof.
  intros Hhs Hs Hf Hsingle.
  pose proof (read_block_tot crc32 crc64 fuel (nlen (s_rest (i_src w))) Hf start check hs w Hhs
                (conj Hs (N.le_refl _))) as H.
  destruct (read_block crc32 crc64 fuel start check hs w) as [[r|e|q] w']; [exact H|exact H|].
  exact (block_panic_single fuel _ hs w q Hsingle H).
Qed.
Print Assumptions read_block_total_single.

(* every block that the decoder reaches declares a single filter: xz_decompress is total *)
Theorem xz_decompress_total_single crc32 crc64 fuel w : SrcBytes (i_src w) ->
  fuel_for fuel (nlen (s_rest (i_src w))) ->
  (forall check w0 hs w1, run_io (header_parse crc32) w = (Done check, w0) ->
                          xz_visits crc32 crc64 fuel check w0 hs w1 -> header_single hs w1) ->
  match xz_decompress crc32 crc64 fuel w with
  | (Panicked _, _) => False
  | (_, w') => SrcBytes (i_src w')
  end.
Proof.
  intros Hs Hf Hsingle.
  pose proof (xz_decompress_core crc32 crc64 fuel (nlen (s_rest (i_src w))) Hf w (conj Hs (N.le_refl _))) as H.
  destruct (xz_decompress crc32 crc64 fuel w) as [[u|e|q] w']; [exact (proj1 H)|exact (proj1 H)|].
  destruct H as (check & w0 & hs & w1 & E0 & V & P).
  exact (block_panic_single fuel _ hs w1 q (Hsingle check w0 hs w1 E0 V) P).
Qed.
Print Assumptions xz_decompress_total_single.
