(* The circular window (model of LzCircularBuffer) refines a plain history list.
   [CInv pre b h]: the buffer [b] represents the history [h] (oldest byte first),
   where [pre] is what the sink held before decoding started. *)
From LZ Require Import Base.Prelude Base.Prog Model.Io Model.LzBuffer Format.RefEnc
  Proofs.ProgLemmas Proofs.MapLemmas.

(* ------------------------------------------------------------------ *)
(* list helpers                                                        *)
(* ------------------------------------------------------------------ *)
Lemma nlen_app1 {A} (h : list A) x : nlen (h ++ [x]) = nlen h + 1.
Proof. unfold nlen. rewrite app_length. cbn [length]. lia. Qed.

Lemma nlen_nil {A} : nlen (@nil A) = 0.
Proof. reflexivity. Qed.

Lemma nth_snoc_last (h : list N) x : nth (length (h ++ [x]) - N.to_nat 1) (h ++ [x]) 0 = x.
Proof.
  rewrite app_length. cbn [length].
  replace (length h + 1 - N.to_nat 1)%nat with (length h) by lia.
  rewrite app_nth2 by lia. rewrite Nat.sub_diag. reflexivity.
Qed.

Lemma nth_snoc_prev (h : list N) x k : 2 <= k <= nlen h + 1 ->
  nth (length (h ++ [x]) - N.to_nat k) (h ++ [x]) 0 = nth (length h - N.to_nat (k - 1)) h 0.
Proof.
  unfold nlen. intros Hk. rewrite app_length. cbn [length].
  replace (length h + 1 - N.to_nat k)%nat with (length h - N.to_nat (k - 1))%nat by lia.
  apply app_nth1. lia.
Qed.

Lemma nth_last_eq (h : list N) d : h <> [] -> nth (length h - N.to_nat 1) h 0 = last h d.
Proof.
  intros Hne. destruct (exists_last Hne) as (h' & x & ->).
  rewrite last_last. apply nth_snoc_last.
Qed.

Lemma nmin_len_spec {A} n (l : list A) : nmin_len n l = N.min n (nlen l).
Proof.
  unfold nmin_len, nfirstn, nlen. destruct (n <? 1048576); [|reflexivity].
  rewrite firstn_length. lia.
Qed.

(* ------------------------------------------------------------------ *)
(* slices of a map                                                     *)
(* ------------------------------------------------------------------ *)
Lemma nseq_map_snoc {A} (f : N -> A) c : forall s,
  nseq_map f s (S c) = nseq_map f s c ++ [f (s + N.of_nat c)].
Proof.
  induction c as [|c IH]; intros s.
  - cbn [nseq_map app]. replace (s + N.of_nat 0) with s by lia. reflexivity.
  - change (nseq_map f s (S (S c))) with (f s :: nseq_map f (N.succ s) (S c)).
    rewrite IH. cbn [nseq_map app].
    replace (s + N.of_nat (S c)) with (N.succ s + N.of_nat c) by lia. reflexivity.
Qed.

Lemma nseq_map_ext {A} (f g : N -> A) c : forall s,
  (forall i, s <= i < s + N.of_nat c -> f i = g i) -> nseq_map f s c = nseq_map g s c.
Proof.
  induction c as [|c IH]; intros s H; cbn [nseq_map]; [reflexivity|].
  f_equal; [apply H; lia|apply IH; intros i Hi; apply H; lia].
Qed.

Lemma nseq_map_length {A} (f : N -> A) c : forall s, length (nseq_map f s c) = c.
Proof. induction c as [|c IH]; intros s; cbn [nseq_map length]; [reflexivity|]. rewrite IH. reflexivity. Qed.

Lemma map_slice_0 m : map_slice m 0 0 = [].
Proof. reflexivity. Qed.

Lemma map_slice_length m lo n : nlen (map_slice m lo n) = n.
Proof. unfold nlen, map_slice. rewrite nseq_map_length. lia. Qed.

Lemma map_slice_succ m n : map_slice m 0 (n + 1) = map_slice m 0 n ++ [nm_get m n 0].
Proof.
  unfold map_slice. replace (N.to_nat (n + 1)) with (S (N.to_nat n)) by lia.
  rewrite nseq_map_snoc. rewrite N2Nat.id, N.add_0_l. reflexivity.
Qed.

Lemma map_slice_ext m m' n :
  (forall i, i < n -> nm_get m i 0 = nm_get m' i 0) -> map_slice m 0 n = map_slice m' 0 n.
Proof. intros H. unfold map_slice. apply nseq_map_ext. intros i Hi. apply H. lia. Qed.

Lemma map_slice_set_snoc m c v : map_slice (nm_set m c v) 0 (c + 1) = map_slice m 0 c ++ [v].
Proof.
  rewrite map_slice_succ, nm_gss. f_equal. apply map_slice_ext.
  intros i Hi. apply nm_gso. lia.
Qed.

(* ------------------------------------------------------------------ *)
(* the sink accepts everything that write_all hands to it              *)
(* ------------------------------------------------------------------ *)
Lemma write_all_loop_ok : forall fuel bs w,
  (length bs <= fuel)%nat -> k_wfail (i_snk w) = None ->
  exists k', interp io_h (write_all_loop fuel bs) w = (Done tt, mkIo (i_src w) k') /\
    snk_bytes k' = snk_bytes (i_snk w) ++ bs /\ k_wfail k' = None /\
    k_ffail k' = k_ffail (i_snk w) /\ k_flushes k' = k_flushes (i_snk w) /\
    k_accept k' = k_accept (i_snk w).
Proof.
  induction fuel as [|fuel IH]; intros bs w Hlen Hw.
  - destruct bs as [|x t]; [|cbn [length] in Hlen; lia].
    exists (i_snk w). destruct w as [s k]. cbn [write_all_loop interp i_src i_snk].
    rewrite app_nil_r. cbn [i_snk] in Hw. repeat split; try reflexivity; exact Hw.
  - destruct bs as [|x t].
    + exists (i_snk w). destruct w as [s k]. cbn [write_all_loop interp i_src i_snk].
      rewrite app_nil_r. cbn [i_snk] in Hw. repeat split; try reflexivity; exact Hw.
    + cbn [write_all_loop]. rewrite interp_bind, interp_call.
      cbn [io_h]. unfold snk_write. rewrite Hw.
      set (n := nmin_len (N.max 1 (k_accept (i_snk w) (k_calls (i_snk w)))) (x :: t)).
      assert (Hn : 1 <= n <= nlen (x :: t)).
      { unfold n. rewrite nmin_len_spec. unfold nlen. cbn [length]. lia. }
      clearbody n.
      destruct (N.eqb_spec n 0) as [Hz|_]; [lia|].
      set (w' := mkIo (i_src w) _).
      destruct (IH (nskipn n (x :: t)) w') as (k' & E & Hb & Hwf & Hff & Hfl & Hac).
      { unfold nskipn. rewrite skipn_length. unfold nlen in Hn. lia. }
      { reflexivity. }
      exists k'. split; [exact E|]. unfold w' in Hb, Hff, Hfl, Hac. cbn [i_snk k_ffail k_flushes k_accept] in Hff, Hfl, Hac.
      split; [|repeat split; assumption].
      rewrite Hb. cbn [i_snk]. unfold snk_bytes. cbn [k_out].
      rewrite !lrev_rev, rev_append_rev, rev_app_distr, rev_involutive, <- app_assoc.
      unfold nfirstn, nskipn. rewrite firstn_skipn. reflexivity.
Qed.

Lemma snk_run_write_all bs k : k_wfail k = None ->
  exists k', snk_run (write_all bs) k = (Done tt, k') /\
    snk_bytes k' = snk_bytes k ++ bs /\ k_wfail k' = None /\
    k_ffail k' = k_ffail k /\ k_flushes k' = k_flushes k /\ k_accept k' = k_accept k.
Proof.
  intros Hw. unfold snk_run, run_io, write_all.
  destruct (write_all_loop_ok (length bs) bs (mkIo (cursor_of []) k) (le_n _) Hw)
    as (k' & E & H). rewrite E. exists k'. split; [reflexivity|exact H].
Qed.

(* ------------------------------------------------------------------ *)
(* index arithmetic                                                    *)
(* ------------------------------------------------------------------ *)
Definition widx (c d k : N) : N := if k <=? c then c - k else d + c - k.
(* the cursor / read offset after one step *)
Definition nxt (c d : N) : N := if c + 1 =? d then 0 else c + 1.

Ltac widx_tac :=
  unfold nxt;
  repeat match goal with |- context [?a + 1 =? ?b] => is_var a; destruct (N.eqb_spec (a + 1) b) end;
  unfold widx;
  repeat match goal with |- context [?a <=? ?b] => destruct (N.leb_spec a b) end;
  repeat match goal with |- context [?a =? ?b] => destruct (N.eqb_spec a b) end;
  lia.

Lemma wrap_idx c d k : c < d -> 1 <= k <= d -> (d + c - k) mod d = widx c d k.
Proof.
  intros Hc Hk. unfold widx. destruct (N.leb_spec k c).
  - replace (d + c - k) with ((c - k) + 1 * d) by lia.
    rewrite N.mod_add by lia. apply N.mod_small. lia.
  - apply N.mod_small. lia.
Qed.

Lemma widx_lt c d k : c < d -> 1 <= k <= d -> widx c d k < d.
Proof. intros. widx_tac. Qed.
Lemma widx_ne c d k : c < d -> 1 <= k <= d - 1 -> widx c d k <> c.
Proof. intros. widx_tac. Qed.
Lemma widx_step c d k : c < d -> 2 <= k <= d -> widx (nxt c d) d k = widx c d (k - 1).
Proof. intros. widx_tac. Qed.
Lemma widx_one c d : c < d -> widx (nxt c d) d 1 = c.
Proof. intros. widx_tac. Qed.
Lemma widx_advance c d k : c < d -> 1 <= k <= d ->
  widx (nxt c d) d k = (if widx c d k + 1 =? d then 0 else widx c d k + 1).
Proof. intros. widx_tac. Qed.
(* on the first lap (c = L) the window index stays inside the filled part *)
Lemma widx_lt_blen c d L k : c < d -> (L < d -> c = L) -> 1 <= k <= N.min L d -> widx c d k < N.min L d.
Proof. intros. widx_tac. Qed.

(* ------------------------------------------------------------------ *)
(* specification side                                                  *)
(* ------------------------------------------------------------------ *)
(* LZ77 copy, byte by byte, overlap allowed *)
Fixpoint lz_copy (n : nat) (h : list N) (dist : N) : list N :=
  match n with O => h | S n' => lz_copy n' (h ++ [nth (length h - N.to_nat dist) h 0]) dist end.

Lemma lz_copy_length n : forall h dist, length (lz_copy n h dist) = (length h + n)%nat.
Proof.
  induction n as [|n IH]; intros h dist; cbn [lz_copy]; [lia|].
  rewrite IH, app_length. cbn [length]. lia.
Qed.

Lemma lz_copy_prefix n : forall h dist, exists t, lz_copy n h dist = h ++ t /\ length t = n.
Proof.
  induction n as [|n IH]; intros h dist; cbn [lz_copy].
  - exists []. rewrite app_nil_r. split; reflexivity.
  - destruct (IH (h ++ [nth (length h - N.to_nat dist) h 0]) dist) as (t & E & Ht).
    exists (nth (length h - N.to_nat dist) h 0 :: t). rewrite E, <- app_assoc. cbn [app length].
    split; [reflexivity|lia].
Qed.

Definition CInv (pre : list N) (b : circ) (h : list N) : Prop :=
  0 < c_dict b /\ c_len b = nlen h /\ c_cursor b < c_dict b /\
  c_blen b = N.min (nlen h) (c_dict b) /\ c_blen b <= c_mem b /\
  (nlen h < c_dict b -> c_cursor b = nlen h) /\
  (forall k, 1 <= k <= N.min (nlen h) (c_dict b) ->
     circ_get b (widx (c_cursor b) (c_dict b) k) = nth (length h - N.to_nat k) h 0) /\
  snk_bytes (c_snk b) ++ map_slice (c_buf b) 0 (c_cursor b) = pre ++ h /\
  k_wfail (c_snk b) = None.

(* ------------------------------------------------------------------ *)
(* new                                                                 *)
(* ------------------------------------------------------------------ *)
Theorem circ_new_inv k dict mem : 0 < dict -> k_wfail k = None ->
  CInv (snk_bytes k) (circ_new k dict mem) [].
Proof.
  intros Hd Hw. unfold CInv, circ_new.
  cbn [c_buf c_blen c_dict c_mem c_cursor c_len c_snk]. change (nlen (@nil N)) with 0.
  split; [exact Hd|]. split; [reflexivity|]. split; [exact Hd|]. split; [lia|]. split; [lia|].
  split; [reflexivity|]. split; [intros j Hj; lia|]. split; [|exact Hw].
  rewrite map_slice_0. reflexivity.
Qed.
Print Assumptions circ_new_inv.

(* ------------------------------------------------------------------ *)
(* append_literal                                                      *)
(* ------------------------------------------------------------------ *)
(* the set at the cursor: grows the buffer exactly on the first lap *)
Lemma circ_set_cursor pre b h lit : CInv pre b h ->
  circ_set b (c_cursor b) lit =
  if N.min (nlen h + 1) (c_dict b) <=? c_mem b
  then (Done tt, mkCirc (nm_set (c_buf b) (c_cursor b) lit) (N.min (nlen h + 1) (c_dict b))
                        (c_dict b) (c_mem b) (c_cursor b) (c_len b) (c_snk b))
  else (Failed ELzma, b).
Proof.
  intros (Hd & Hlen & Hc & Hbl & Hmem & Hfirst & Hwin & Hfin & Hwf).
  unfold circ_set.
  destruct (N.ltb_spec (c_blen b) (c_cursor b + 1)) as [Hg|Hg].
  - assert (HL : nlen h < c_dict b) by lia. specialize (Hfirst HL).
    replace (N.min (nlen h + 1) (c_dict b)) with (c_cursor b + 1) by lia.
    destruct (c_cursor b + 1 <=? c_mem b); reflexivity.
  - replace (N.min (nlen h + 1) (c_dict b)) with (c_blen b) by lia.
    destruct (N.leb_spec (c_blen b) (c_mem b)); [reflexivity|lia].
Qed.

Lemma circ_append_literal_fail pre b h lit : CInv pre b h ->
  c_mem b < N.min (nlen h + 1) (c_dict b) ->
  circ_append_literal b lit = (Failed ELzma, b).
Proof.
  intros HI Hm. unfold circ_append_literal. rewrite (circ_set_cursor pre b h lit HI).
  destruct (N.leb_spec (N.min (nlen h + 1) (c_dict b)) (c_mem b)); [lia|reflexivity].
Qed.

Lemma circ_append_literal_strong pre b h lit : CInv pre b h ->
  N.min (nlen h + 1) (c_dict b) <= c_mem b ->
  exists b', circ_append_literal b lit = (Done tt, b') /\ CInv pre b' (h ++ [lit]) /\
    c_dict b' = c_dict b /\ c_mem b' = c_mem b /\
    c_cursor b' = nxt (c_cursor b) (c_dict b) /\
    (c_cursor b + 1 <> c_dict b -> c_snk b' = c_snk b).
Proof.
  intros HI Hm. pose proof HI as (Hd & Hlen & Hc & Hbl & Hmem & Hfirst & Hwin & Hfin & Hwf).
  unfold circ_append_literal. rewrite (circ_set_cursor pre b h lit HI).
  destruct (N.leb_spec (N.min (nlen h + 1) (c_dict b)) (c_mem b)) as [_|Hbad]; [|lia].
  cbn [c_buf c_blen c_dict c_mem c_cursor c_len c_snk].
  set (c := c_cursor b) in *. set (d := c_dict b) in *. set (L := nlen h) in *.
  set (m1 := nm_set (c_buf b) c lit).
  assert (Hcl : c <= L) by lia.
  assert (WIN : forall k, 1 <= k <= N.min (L + 1) d ->
            (if widx (nxt c d) d k <? N.min (L + 1) d then nm_get m1 (widx (nxt c d) d k) 0 else 0)
            = nth (length (h ++ [lit]) - N.to_nat k) (h ++ [lit]) 0).
  { intros k Hk. destruct (N.eq_dec k 1) as [->|Hk1].
    - rewrite widx_one by lia. destruct (N.ltb_spec c (N.min (L + 1) d)); [|lia].
      unfold m1. rewrite nm_gss. symmetry. apply nth_snoc_last.
    - rewrite widx_step by lia.
      pose proof (widx_lt_blen c d L (k - 1) Hc Hfirst ltac:(lia)) as Hw.
      destruct (N.ltb_spec (widx c d (k - 1)) (N.min (L + 1) d)); [|lia].
      unfold m1. rewrite nm_gso by (apply widx_ne; lia).
      specialize (Hwin (k - 1) ltac:(lia)). unfold circ_get in Hwin. rewrite Hbl in Hwin.
      destruct (N.ltb_spec (widx c d (k - 1)) (N.min L d)); [|lia].
      rewrite Hwin. symmetry. apply nth_snoc_prev. fold L. lia. }
  assert (SNK : snk_bytes (c_snk b) ++ map_slice m1 0 (c + 1) = pre ++ h ++ [lit]).
  { unfold m1. rewrite map_slice_set_snoc, app_assoc, Hfin, <- app_assoc. reflexivity. }
  destruct (N.eqb_spec (c + 1) d) as [Hflush|Hno].
  - assert (Hnx : nxt c d = 0) by (unfold nxt; destruct (N.eqb_spec (c + 1) d); [reflexivity|lia]).
    assert (Hbl1 : N.min (L + 1) d = c + 1) by lia.
    destruct (snk_run_write_all (map_slice m1 0 (N.min (L + 1) d)) (c_snk b) Hwf)
      as (k' & E & Hb & Hw' & _).
    rewrite E. eexists. split; [reflexivity|].
    cbn [c_buf c_blen c_dict c_mem c_cursor c_len c_snk].
    split; [|split; [reflexivity|split; [reflexivity|split; [symmetry; exact Hnx|intros; lia]]]].
    unfold CInv. cbn [c_buf c_blen c_dict c_mem c_cursor c_len c_snk]. rewrite !nlen_app1. fold L.
    split; [lia|]. split; [lia|]. split; [lia|]. split; [reflexivity|]. split; [lia|].
    split; [intros; lia|]. split; [|split; [|exact Hw']].
    + intros k Hk. unfold circ_get. cbn [c_buf c_blen]. pose proof (WIN k Hk) as W. rewrite Hnx in W. exact W.
    + rewrite Hb, map_slice_0, app_nil_r, Hbl1. exact SNK.
  - assert (Hnx : nxt c d = c + 1) by (unfold nxt; destruct (N.eqb_spec (c + 1) d); [lia|reflexivity]).
    eexists. split; [reflexivity|].
    cbn [c_buf c_blen c_dict c_mem c_cursor c_len c_snk].
    split; [|split; [reflexivity|split; [reflexivity|split; [symmetry; exact Hnx|reflexivity]]]].
    unfold CInv. cbn [c_buf c_blen c_dict c_mem c_cursor c_len c_snk]. rewrite !nlen_app1. fold L.
    split; [lia|]. split; [lia|]. split; [lia|]. split; [reflexivity|]. split; [lia|].
    split; [intros; lia|]. split; [|split; [exact SNK|exact Hwf]].
    intros k Hk. unfold circ_get. cbn [c_buf c_blen]. pose proof (WIN k Hk) as W. rewrite Hnx in W. exact W.
Qed.

Theorem circ_append_literal_spec pre b h lit : CInv pre b h ->
  if N.min (nlen h + 1) (c_dict b) <=? c_mem b
  then exists b', circ_append_literal b lit = (Done tt, b') /\ CInv pre b' (h ++ [lit]) /\
                  c_dict b' = c_dict b /\ c_mem b' = c_mem b
  else exists b', circ_append_literal b lit = (Failed ELzma, b') /\
                  snk_bytes (c_snk b') = snk_bytes (c_snk b).
Proof.
  intros HI. destruct (N.leb_spec (N.min (nlen h + 1) (c_dict b)) (c_mem b)) as [Hm|Hm].
  - destruct (circ_append_literal_strong pre b h lit HI Hm) as (b' & E & HI' & Hd & Hmm & _).
    exists b'. split; [exact E|split; [exact HI'|split; assumption]].
  - exists b. split; [|reflexivity]. apply (circ_append_literal_fail pre b h lit HI Hm).
Qed.
Print Assumptions circ_append_literal_spec.

(* ------------------------------------------------------------------ *)
(* append_lz                                                           *)
(* ------------------------------------------------------------------ *)
Lemma circ_lz_loop_ok pre n : forall b h offset dist,
  CInv pre b h -> 1 <= dist <= N.min (nlen h) (c_dict b) ->
  offset = widx (c_cursor b) (c_dict b) dist ->
  N.min (nlen h + N.of_nat n) (c_dict b) <= c_mem b ->
  exists b', circ_lz_loop n b offset = (Done tt, b') /\ CInv pre b' (lz_copy n h dist) /\
             c_dict b' = c_dict b /\ c_mem b' = c_mem b.
Proof.
  induction n as [|n IH]; intros b h offset dist HI Hdist Hoff Hm; cbn [circ_lz_loop lz_copy].
  - exists b. split; [reflexivity|split; [exact HI|split; reflexivity]].
  - pose proof HI as (Hd & Hlen & Hc & Hbl & Hmem & Hfirst & Hwin & Hfin & Hwf).
    assert (Hget : circ_get b offset = nth (length h - N.to_nat dist) h 0)
      by (rewrite Hoff; apply Hwin; exact Hdist).
    rewrite Hget. set (x := nth (length h - N.to_nat dist) h 0).
    destruct (circ_append_literal_strong pre b h x HI ltac:(lia)) as (b1 & Hap & HI1 & Hd1 & Hm1 & Hc1 & _).
    rewrite Hap. cbv beta iota zeta.
    destruct (IH b1 (h ++ [x]) (if offset + 1 =? c_dict b1 then 0 else offset + 1) dist HI1)
      as (b' & Hl & HI' & Hd' & Hm').
    + rewrite nlen_app1, Hd1. lia.
    + rewrite Hd1, Hc1, Hoff. symmetry. apply widx_advance; lia.
    + rewrite nlen_app1, Hd1, Hm1. lia.
    + exists b'. rewrite Hl. split; [reflexivity|split; [exact HI'|split; congruence]].
Qed.

Theorem circ_append_lz_spec pre b h len dist : CInv pre b h -> 1 <= dist ->
  if dist <=? N.min (nlen h) (c_dict b)
  then N.min (nlen h + len) (c_dict b) <= c_mem b ->
       exists b', circ_append_lz b len dist = (Done tt, b') /\
                  CInv pre b' (lz_copy (N.to_nat len) h dist) /\
                  c_dict b' = c_dict b /\ c_mem b' = c_mem b
  else circ_append_lz b len dist = (Failed ELzma, b).
Proof.
  intros HI H1. pose proof HI as (Hd & Hlen & Hc & Hbl & Hmem & Hfirst & Hwin & Hfin & Hwf).
  unfold circ_append_lz.
  destruct (N.leb_spec dist (N.min (nlen h) (c_dict b))) as [H2|H2].
  - intros Hm. destruct (N.ltb_spec (c_dict b) dist); [lia|].
    destruct (N.ltb_spec (c_len b) dist); [lia|].
    destruct (N.eqb_spec (c_dict b) 0); [lia|].
    rewrite wrap_idx by lia.
    apply (circ_lz_loop_ok pre (N.to_nat len) b h _ dist HI); [lia|reflexivity|].
    rewrite N2Nat.id. exact Hm.
  - destruct (N.ltb_spec (c_dict b) dist); [reflexivity|].
    destruct (N.ltb_spec (c_len b) dist); [reflexivity|lia].
Qed.
Print Assumptions circ_append_lz_spec.

(* memlimit exceeded during a copy: the copy stops with an error before any flush *)
Lemma circ_lz_loop_memfail pre n : forall b h offset dist,
  CInv pre b h -> 1 <= dist <= N.min (nlen h) (c_dict b) ->
  offset = widx (c_cursor b) (c_dict b) dist ->
  c_mem b < N.min (nlen h + N.of_nat n) (c_dict b) ->
  exists b', circ_lz_loop n b offset = (Failed ELzma, b') /\ c_snk b' = c_snk b.
Proof.
  induction n as [|n IH]; intros b h offset dist HI Hdist Hoff Hm; cbn [circ_lz_loop].
  - pose proof HI as (Hd & Hlen & Hc & Hbl & Hmem & _). lia.
  - pose proof HI as (Hd & Hlen & Hc & Hbl & Hmem & Hfirst & Hwin & Hfin & Hwf).
    assert (Hget : circ_get b offset = nth (length h - N.to_nat dist) h 0)
      by (rewrite Hoff; apply Hwin; exact Hdist).
    rewrite Hget. set (x := nth (length h - N.to_nat dist) h 0).
    destruct (N.leb_spec (N.min (nlen h + 1) (c_dict b)) (c_mem b)) as [Hok|Hbad].
    + destruct (circ_append_literal_strong pre b h x HI Hok) as (b1 & Hap & HI1 & Hd1 & Hm1 & Hc1 & Hs1).
      rewrite Hap. cbv beta iota zeta.
      destruct (IH b1 (h ++ [x]) (if offset + 1 =? c_dict b1 then 0 else offset + 1) dist HI1)
        as (b' & Hl & Hs').
      * rewrite nlen_app1, Hd1. lia.
      * rewrite Hd1, Hc1, Hoff. symmetry. apply widx_advance; lia.
      * rewrite nlen_app1, Hd1, Hm1. lia.
      * exists b'. split; [exact Hl|]. rewrite Hs'. apply Hs1. lia.
    + rewrite (circ_append_literal_fail pre b h x HI Hbad). exists b. split; reflexivity.
Qed.

(* stronger form: the sink is untouched *)
Lemma circ_append_lz_memlimit_strong pre b h len dist : CInv pre b h ->
  1 <= dist <= N.min (nlen h) (c_dict b) -> c_mem b < N.min (nlen h + len) (c_dict b) ->
  exists b', circ_append_lz b len dist = (Failed ELzma, b') /\ c_snk b' = c_snk b.
Proof.
  intros HI H1 Hm. pose proof HI as (Hd & Hlen & Hc & Hbl & Hmem & Hfirst & Hwin & Hfin & Hwf).
  unfold circ_append_lz.
  destruct (N.ltb_spec (c_dict b) dist); [lia|].
  destruct (N.ltb_spec (c_len b) dist); [lia|].
  destruct (N.eqb_spec (c_dict b) 0); [lia|].
  rewrite wrap_idx by lia.
  apply (circ_lz_loop_memfail pre (N.to_nat len) b h _ dist HI); [lia|reflexivity|].
  rewrite N2Nat.id. exact Hm.
Qed.

Theorem circ_append_lz_memlimit pre b h len dist : CInv pre b h ->
  1 <= dist <= N.min (nlen h) (c_dict b) -> c_mem b < N.min (nlen h + len) (c_dict b) ->
  exists b', circ_append_lz b len dist = (Failed ELzma, b') /\
             exists t, pre ++ h = snk_bytes (c_snk b') ++ t.
Proof.
  intros HI H1 Hm.
  destruct (circ_append_lz_memlimit_strong pre b h len dist HI H1 Hm) as (b' & E & Hs).
  exists b'. split; [exact E|]. rewrite Hs.
  destruct HI as (_ & _ & _ & _ & _ & _ & _ & Hfin & _).
  exists (map_slice (c_buf b) 0 (c_cursor b)). symmetry. exact Hfin.
Qed.
Print Assumptions circ_append_lz_memlimit.

(* ------------------------------------------------------------------ *)
(* last_n / last_or                                                    *)
(* ------------------------------------------------------------------ *)
Theorem circ_last_n_spec pre b h dist : CInv pre b h -> 1 <= dist ->
  circ_last_n b dist =
  if dist <=? N.min (nlen h) (c_dict b)
  then (Done (nth (length h - N.to_nat dist) h 0), b) else (Failed ELzma, b).
Proof.
  intros HI H1. pose proof HI as (Hd & Hlen & Hc & Hbl & Hmem & Hfirst & Hwin & Hfin & Hwf).
  unfold circ_last_n.
  destruct (N.leb_spec dist (N.min (nlen h) (c_dict b))) as [H2|H2].
  - destruct (N.ltb_spec (c_dict b) dist); [lia|].
    destruct (N.ltb_spec (c_len b) dist); [lia|].
    destruct (N.eqb_spec (c_dict b) 0); [lia|].
    rewrite wrap_idx by lia. rewrite Hwin by lia. reflexivity.
  - destruct (N.ltb_spec (c_dict b) dist); [reflexivity|].
    destruct (N.ltb_spec (c_len b) dist); [reflexivity|lia].
Qed.
Print Assumptions circ_last_n_spec.

Theorem circ_last_or_spec pre b h d : CInv pre b h -> circ_last_or b d = (Done (last h d), b).
Proof.
  intros HI. pose proof HI as (Hd & Hlen & Hc & Hbl & Hmem & Hfirst & Hwin & Hfin & Hwf).
  unfold circ_last_or. destruct h as [|x t].
  - rewrite Hlen. change (nlen (@nil N)) with 0. reflexivity.
  - assert (HL : 1 <= nlen (x :: t)) by (unfold nlen; cbn [length]; lia).
    destruct (N.eqb_spec (c_len b) 0); [lia|].
    destruct (N.eqb_spec (c_dict b) 0); [lia|].
    rewrite wrap_idx by lia. rewrite Hwin by lia.
    rewrite (nth_last_eq (x :: t) d) by discriminate. reflexivity.
Qed.
Print Assumptions circ_last_or_spec.

(* ------------------------------------------------------------------ *)
(* finish                                                              *)
(* ------------------------------------------------------------------ *)
Theorem circ_finish_spec pre b h : CInv pre b h -> k_ffail (c_snk b) = false ->
  exists k, circ_finish b = (Done tt, k) /\ snk_bytes k = pre ++ h /\
            k_flushes k = k_flushes (c_snk b) + 1.
Proof.
  intros HI Hff. pose proof HI as (Hd & Hlen & Hc & Hbl & Hmem & Hfirst & Hwin & Hfin & Hwf).
  unfold circ_finish, snk_run, run_io. rewrite interp_bind.
  destruct (N.ltb_spec 0 (c_cursor b)) as [Hpos|Hz].
  - unfold write_all.
    destruct (write_all_loop_ok (length (map_slice (c_buf b) 0 (c_cursor b))) _
                (mkIo (cursor_of []) (c_snk b)) (le_n _) Hwf) as (k' & E & Hb & Hw' & Hff' & Hfl' & _).
    rewrite E. rewrite interp_call. cbn [io_h i_snk i_src]. unfold snk_flush.
    cbn [i_snk] in Hb, Hff', Hfl'. rewrite Hff', Hff.
    eexists. split; [reflexivity|]. cbn [k_flushes k_out i_snk]. split; [|rewrite Hfl'; reflexivity].
    unfold snk_bytes. cbn [k_out i_snk]. fold (snk_bytes k'). rewrite Hb. exact Hfin.
  - assert (Hc0 : c_cursor b = 0) by lia.
    cbn [interp]. rewrite interp_call. cbn [io_h i_snk i_src]. unfold snk_flush. rewrite Hff.
    eexists. split; [reflexivity|]. cbn [k_flushes k_out i_snk]. split; [|reflexivity].
    unfold snk_bytes. cbn [k_out i_snk]. fold (snk_bytes (c_snk b)).
    rewrite Hc0, map_slice_0, app_nil_r in Hfin. exact Hfin.
Qed.
Print Assumptions circ_finish_spec.

Theorem circ_never_exceeds pre b h : CInv pre b h -> c_blen b <= c_mem b /\ c_blen b <= c_dict b.
Proof. intros (Hd & Hlen & Hc & Hbl & Hmem & _). lia. Qed.
Print Assumptions circ_never_exceeds.

(* ------------------------------------------------------------------ *)
(* lz_copy is the format theory's copy on the reversed history         *)
(* ------------------------------------------------------------------ *)
Theorem copy_back_lz_copy n : forall h dist, 1 <= dist -> (N.to_nat dist <= length h)%nat ->
  rev (copy_back n (N.to_nat (dist - 1)) (rev h)) = lz_copy n h dist.
Proof.
  induction n as [|n IH]; intros h dist H1 H2; cbn [copy_back lz_copy].
  - apply rev_involutive.
  - rewrite rev_nth by lia.
    replace (length h - S (N.to_nat (dist - 1)))%nat with (length h - N.to_nat dist)%nat by lia.
    rewrite <- rev_unit. apply IH; [exact H1|]. rewrite app_length. cbn [length]. lia.
Qed.
Print Assumptions copy_back_lz_copy.
