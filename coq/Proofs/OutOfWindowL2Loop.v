(* C09 for LZMA2, chunk payload level: the decoding loop of one LZMA chunk (process_mode in
   FinishMode with a declared unpacked size, accumulating window, source under a Take limit) on the
   events of  good ++ [bad]  with [bad] a copy reaching behind the accumulating window:
   one successful iteration per good symbol, then one iteration that fails with Err(LzmaError).
   The accumulating window then still holds exactly the history of [good] and the sink is untouched.
   Then the payload stage of parse_lzma (pl_payload) for ANY declared size that leaves room for at
   least one more byte after [good] (declared = produced + room, room >= 1). *)
From LZ Require Import Base.Prelude Base.Prog Model.Io Model.Tables Model.LzBuffer Model.RangeDec Model.Lzma Model.Lzma2
  Format.RefEnc Format.Lzma2Fmt
  Proofs.ProgLemmas Proofs.MapLemmas Proofs.IoLemmas Proofs.RangeLockstep Proofs.WinCirc Proofs.WinAccum Proofs.NoPanic Proofs.NoPanicWorld
  Proofs.SymOracle Proofs.SymCoders Proofs.SymLiteral Proofs.SymDecode Proofs.SymChain
  Proofs.Lzma2Inv Proofs.Lzma2Framing
  Proofs.LzmaExactSync Proofs.LzmaExactShape Proofs.LzmaExactRefine Proofs.LzmaExactLoop Proofs.LzmaExact
  Proofs.Lzma2ExactIo Proofs.Lzma2ExactRefine Proofs.Lzma2ExactLoop Proofs.Lzma2ExactChunk Proofs.Lzma2ExactPayload
  Proofs.OutOfWindowSym Proofs.OutOfWindow Proofs.OutOfWindowL2Sym.
From Coq Require Import ZifyBool ZifyNat ZifyN.
Local Open Scope prog_scope.

(* ---------- the decoding loop: good symbols, then one failing iteration ---------- *)
Section LoopB2.
  Variables (fp : fprops) (p : props).
  Hypothesis Hpm : props_match p fp.
  Variables (pre : list N) (ief : ienc) (tf : ptabs) (delta : N) (trail : list N) (pos_end fl : N).
  Hypothesis Hdelta : delta < i_range ief.
  Variables (size : N) (stf : N) (hf : hist) (tl : list ev).
  Hypothesis Hsize : h_len hf < size.
  Hypothesis Hhf : h_len hf <= 18446744073709551615.

  Notation lcp := (lc p + lp p).
  Notation REL := (Rel2 lcp pre ief tf delta trail pos_end fl).
  Notation HMAX := 18446744073709551615.

  (* LInv2 of Lzma2ExactLoop.v with further events [tl] after those of the program and a
     declared size beyond the end of the program *)
  Definition LInv2B (prog : list sym) (x : lw) : Prop :=
    exists st h ho evs,
      ds_pib (l_ds x) = [] /\ ds_props (l_ds x) = p /\ ds_unpacked (l_ds x) = Some size /\
      ds_state (l_ds x) = st /\ ds_rep (l_ds x) = reps_of h /\
      st < 12 /\ Forall (fun b => b < 256) (h_bytes h) /\ rep0_ok None st h /\
      h_bytes ho = h_bytes h /\ h_len ho = h_len h /\
      prog_evs fp None st h prog = Some (evs, stf, hf) /\
      REL (mkDw (ds_tabs (l_ds x)) (l_rc x) (l_src x) (l_win x)) (evs ++ tl ++ phantom2, ho).

  Lemma linv2B_head prog wv : LInv2B prog wv -> head_cont wv.
  Proof.
    intros (st & h & ho & evs & Hpib & Hpr & Hus & Hst & Hrep & Hst12 & Hby & Hr0 & Eb & El & Hpe & HR).
    unfold head_cont. rewrite Hus.
    destruct HR as (real & _ & _ & HW). cbn [d_win snd] in HW.
    rewrite (relwin2_len _ _ _ _ HW), El.
    pose proof (prog_evs_len _ _ _ _ _ _ _ _ Hpe). lia.
  Qed.

  Lemma linv2B_step x rest wv : LInv2B (x :: rest) wv -> x <> EndMarker ->
    exists wv', pm_body FinishMode wv = Next wv' /\ LInv2B rest wv'.
  Proof.
    intros HI Hx. pose proof (linv2B_head _ _ HI) as Hhead.
    destruct HI as (st & h & ho & evs & Hpib & Hpr & Hus & Hst & Hrep & Hst12 & Hby & Hr0 & Eb & El & Hpe & HR).
    rewrite (prog_evs_cons fp None st h x rest Hx) in Hpe.
    destruct (sem_sym None h x) as [h'|] eqn:Es; [|discriminate].
    destruct (sym_evs fp st h x) as [evx st'] eqn:Esym. cbn [fst snd] in Hpe.
    destruct (prog_evs fp None st' h' rest) as [[[l st2] h2]|] eqn:Ep; [|discriminate].
    inversion Hpe; subst evs st2 h2. clear Hpe.
    destruct (rel2_fill p pre ief tf delta trail pos_end fl _ _ _ _ _ HR) as (buf & s' & Hfill & HR').
    rewrite (pm_body_step wv buf s' Hpib Hhead Hfill).
    destruct (process_next_inner_decodes_chain None p fp st h ho x h' evx st' (l ++ tl ++ phantom2)
                Hpm Hr0 Eb El Hx Es Esym) as (ho' & Horc & Eb' & El').
    rewrite <- app_assoc in HR'.
    assert (Hbound : h_len (snd (l ++ tl ++ phantom2, ho')) <= HMAX).
    { cbn [snd]. rewrite El'. pose proof (prog_evs_len _ _ _ _ _ _ _ _ Ep). lia. }
    rewrite (app_assoc l tl phantom2) in HR', Horc.
    destruct (refine2_good lcp pre ief tf delta trail pos_end fl HMAX Hdelta (N.le_refl _) _ _
                (pni_safe2 fp p Hpm st (reps_of h) Hst12) (shape_process_next_inner p _) _ _ _ _ HR' Horc Hbound)
      as (t1 & Hrun & HR1).
    unfold run_sym. cbn [l_ds l_rc l_src l_win]. rewrite Hpr, Hst, Hrep, Hrun.
    eexists. split; [reflexivity|].
    destruct (sym_step_invariants None fp st h x h' Hst12 Hby Es) as (I1 & I2 & I3). rewrite Esym in I1, I3. cbn [snd] in I1, I3.
    exists st', h', ho', l. cbn [l_ds l_rc l_src l_win ds_pib ds_props ds_unpacked ds_tabs ds_state ds_rep y_state y_rep].
    split; [exact Hpib|]. split; [reflexivity|]. split; [exact Hus|]. split; [reflexivity|]. split; [reflexivity|].
    split; [exact I1|]. split; [exact I2|]. split; [exact I3|].
    split; [exact Eb'|]. split; [exact El'|]. split; [exact Ep|].
    rewrite <- (app_assoc l tl phantom2) in HR1.
    destruct t1; exact HR1.
  Qed.

  (* what remains true of the objects after the rejection: the window holds exactly the history
     of the good symbols, the sink holds what it held before the chunk's payload *)
  Definition Rejected2 (x : lw) : Prop := RelWin2 pre fl (l_win x) hf.

  Lemma linv2B_reject bad wv : LInv2B [] wv -> tl = fst (sym_evs fp stf hf bad) -> bad_copy2 hf bad ->
    exists wv', pm_body FinishMode wv = Break (Failed ELzma, wv') /\ Rejected2 wv'.
  Proof.
    intros HI Htl Hbad. pose proof (linv2B_head _ _ HI) as Hhead.
    destruct HI as (st & h & ho & evs & Hpib & Hpr & Hus & Hst & Hrep & Hst12 & Hby & Hr0 & Eb & El & Hpe & HR).
    cbn [prog_evs] in Hpe. inversion Hpe as [[Ee Est Eh]]. revert Hst. subst evs st h. intros Hst. clear Hpe. cbn [app] in HR.
    destruct (rel2_fill p pre ief tf delta trail pos_end fl _ _ _ _ _ HR) as (buf & s' & Hfill & HR').
    rewrite (pm_body_step wv buf s' Hpib Hhead Hfill).
    apply (rel2_same_data lcp pre ief tf delta trail pos_end fl _ _ ho hf) in HR'; [|exact Eb|exact El].
    rewrite Htl in HR'.
    destruct (dec_h_rejects_bad_copy2 lcp pre ief tf delta trail pos_end fl p fp stf hf bad _ _
                Hdelta Hpm eq_refl Hst12 Hbad Hhf HR') as (t1 & Hrun & HR1).
    unfold run_sym. cbn [l_ds l_rc l_src l_win]. rewrite Hpr, Hst, Hrep, Hrun.
    eexists. split; [reflexivity|].
    destruct HR1 as (real & _ & _ & HW). cbn [snd] in HW.
    unfold Rejected2. cbn [l_win]. exact HW.
  Qed.

  Theorem loop2_rejects bad : forall prog wv, LInv2B prog wv -> Forall (fun x => x <> EndMarker) prog ->
    tl = fst (sym_evs fp stf hf bad) -> bad_copy2 hf bad ->
    exists wv', iter_step (length prog + 1) (pm_body FinishMode) wv = Break (Failed ELzma, wv') /\ Rejected2 wv'.
  Proof.
    induction prog as [|x rest IH]; intros wv HI Hnm Htl Hbad.
    - destruct (linv2B_reject bad wv HI Htl Hbad) as (wv' & Hb & HRj).
      exists wv'. cbn [length Nat.add iter_step]. rewrite Hb. split; [reflexivity|exact HRj].
    - inversion Hnm as [|? ? Hx Hnm']; subst.
      destruct (linv2B_step x rest wv HI Hx) as (wv1 & Hn & HI1).
      destruct (IH wv1 HI1 Hnm' Htl Hbad) as (wv' & Hit & HRj).
      exists wv'. cbn [length Nat.add iter_step]. rewrite Hn. split; [exact Hit|exact HRj].
  Qed.

  Theorem process_mode_rejects2 bad prog wv fuel : LInv2B prog wv -> Forall (fun x => x <> EndMarker) prog ->
    tl = fst (sym_evs fp stf hf bad) -> bad_copy2 hf bad ->
    (length prog + 1 <= Pos.to_nat fuel)%nat ->
    exists wv', process_mode FinishMode fuel wv = (Failed ELzma, wv') /\ Rejected2 wv'.
  Proof.
    intros HI Hnm Htl Hbad Hfuel. destruct (loop2_rejects bad prog wv HI Hnm Htl Hbad) as (wv' & Hit & HRj).
    exists wv'. split; [|exact HRj]. unfold process_mode. rewrite loopN_iter.
    rewrite (iter_step_break_mono _ _ _ _ _ Hit Hfuel). reflexivity.
  Qed.
End LoopB2.
Print Assumptions process_mode_rejects2.

(* ---------- the payload stage of parse_lzma ---------- *)
(* [room]: how many bytes the chunk header declares beyond those of the good symbols.
   room = 1 is what the lenient serialiser of Format/Lzma2Fmt.v writes; room = length of the copy
   is a header under which a decoder that wrongly performed the copy would pass the size check. *)
Theorem payload_rejects fp p t1 st1 h1 good bad hg bflag ie es2 delta room pre fl d0 sx a1 t fuel :
  props_match p fp ->
  (* the decoder state agrees with the encoder state at the start of the chunk *)
  ds_pib d0 = [] -> ds_props d0 = p -> ds_tabs d0 = t1 -> ds_state d0 = st1 -> ds_rep d0 = reps_of h1 ->
  st1 < 12 -> Forall (fun b => b < 256) (h_bytes h1) -> h_len h1 = nlen (h_bytes h1) -> rep0_ok None st1 h1 ->
  TabsStd t1 (lc p + lp p) -> ProbsOk t1 ->
  (* the chunk: good symbols, then a copy reaching behind the window *)
  Forall (fun x => x <> EndMarker) good -> sem_from None h1 good = Some (hg, bflag) -> bad_copy2 hg bad ->
  enc_syms_gen true fp None ienc0 (mkEstate t1 st1 h1) (good ++ [bad]) = Some (ie, es2) ->
  delta < i_range ie -> h_len hg <= 18446744073709551615 -> 1 <= room ->
  (* window and source *)
  AInv pre a1 (List.rev (h_bytes h1)) -> a_mem a1 = 18446744073709551615 ->
  k_ffail (a_snk a1) = false -> k_flushes (a_snk a1) = fl ->
  FaultFree sx -> s_rest sx = ienc_bytes ie delta ++ t ->
  (length good + 1 <= Pos.to_nat fuel)%nat ->
  exists w',
    pl_payload fuel (h_len hg - h_len h1 + room) (nlen (ienc_bytes ie delta)) (mkW2 d0 sx a1) = (Failed ELzma, w') /\
    es_hist es2 = hg /\ h_len hg = nlen (h_bytes hg) /\
    AInv pre (w_acc w') (List.rev (h_bytes hg)).
Proof.
  intros Hpm Dpib Dpr Dtabs Dst Drep Hst12 Hby Hlen Hr0 Hstd Hpo Hnm Hsem Hbad Henc Hdelta Hbound Hroom
         HA Hmem Hff Hfl Fx Rx Hfuel.
  destruct (enc_lenient_good_bad fp None bad good ienc0 t1 st1 h1 hg bflag ie es2 Hnm Hsem
              (bad_copy2_not_marker hg bad Hbad) (bad_copy2_sem hg bad Hbad) Henc)
    as (evg & stg & Hpe & Hfold & Ehist).
  set (tl := fst (sym_evs fp stg hg bad)) in *.
  set (evs := evg ++ tl) in *.
  pose proof (f_equal fst Hfold) as Hfold1. cbn [fst] in Hfold1.
  pose proof Hfold1 as Hfr. rewrite fold_ev_rev in Hfr.
  pose proof (to_revs_wf evs t1 Hpo) as Hwfr.
  destruct (init_sync (to_revs t1 evs) delta Hwfr ltac:(rewrite Hfr; exact Hdelta))
    as (c3 & c2 & c1 & c0 & rest & Hbytes & Hsync).
  rewrite Hfr in Hbytes, Hsync.
  pose proof (prog_evs_len _ _ _ _ _ _ _ _ Hpe) as Hgrow.
  pose proof (hist_len_ok fp None good st1 h1 evg stg hg Hpe Hlen) as Hlg.
  set (payload := ienc_bytes ie delta) in *.
  set (packed := nlen payload).
  assert (HT : TakeOk (set_limit sx (Some packed)) payload t).
  { apply TakeOk_enter; [apply FaultFree_L; exact Fx|exact Rx]. }
  rewrite Hbytes in HT.
  destruct (rc_new_take _ 0 c3 c2 c1 c0 rest t HT) as (s0 & Hrun0 & HT0 & Hp0).
  set (r0 := mkRc 4294967295 (be_num [c3; c2; c1; c0])) in *.
  assert (Hnl : nlen rest = i_norms ie).
  { destruct Hsync as (_ & _ & Hn & _). change (i_norms ienc0) with 0 in Hn. lia. }
  assert (Halen : a_len a1 = h_len h1).
  { destruct HA as (_ & Hl & _). rewrite Hl, nlen_rev. symmetry. exact Hlen. }
  set (tf := es_tabs es2) in *.
  set (pos_end := s_pos sx + packed).
  set (size := h_len hg - h_len h1 + room + a_len a1).
  set (d := set_unpacked_size d0 (Some size)).
  assert (Hsize : h_len hg < size) by (unfold size; lia).
  assert (HI : LInv2B fp p pre ie tf delta t pos_end fl size stg hg tl good (mkLw d r0 s0 (WAccum a1))).
  { exists st1, h1, h1, evg. unfold d, set_unpacked_size.
    cbn [l_ds l_rc l_src l_win ds_pib ds_props ds_unpacked ds_tabs ds_state ds_rep].
    split; [exact Dpib|]. split; [exact Dpr|]. split; [reflexivity|]. split; [exact Dst|]. split; [exact Drep|].
    split; [exact Hst12|]. split; [exact Hby|]. split; [exact Hr0|].
    split; [reflexivity|]. split; [reflexivity|]. split; [exact Hpe|].
    exists evs. cbn [fst snd d_tabs d_rc d_src d_win]. split; [unfold evs; rewrite app_assoc; reflexivity|]. split.
    - exists ienc0, rest. rewrite Dtabs. split; [exact wf_ienc0|]. split; [exact Hstd|]. split; [exact Hpo|].
      split; [exact Hfold|]. split; [exact Hsync|]. split; [exact HT0|].
      rewrite Hp0. unfold pos_end, packed, set_limit. cbn [s_pos]. rewrite Hbytes, !nlen_cons. lia.
    - exists a1. split; [reflexivity|]. split; [exact HA|]. split; [exact Hmem|]. split; [exact Hff|]. split; [exact Hfl|].
      split; [exact Hlen|exact Hby]. }
  destruct (process_mode_rejects2 fp p Hpm pre ie tf delta t pos_end fl Hdelta size stg hg tl Hsize Hbound
              bad good _ fuel HI Hnm eq_refl Hbad Hfuel) as (x & Hpmode & HRj).
  destruct HRj as (a' & Hwin & HA' & _).
  eexists. split.
  - unfold pl_payload. cbn [w_ds w_src w_acc]. fold packed.
    rewrite (LzmaExact.src_run_map_io_err ELzma rc_new _ _ _ Hrun0).
    fold size. fold d. rewrite Hpmode. reflexivity.
  - cbn [w_acc]. rewrite Hwin. split; [exact Ehist|]. split; [exact Hlg|exact HA'].
Qed.
Print Assumptions payload_rejects.
