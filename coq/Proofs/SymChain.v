(* Complements to T-sym: the hypothesis rep0_ok is necessary (counterexample), it is an
   invariant of the symbol automaton together with st < 12 and bytes < 256, and the oracle
   never looks at the repeat-distance fields of its history (so symbols can be chained). *)
From LZ Require Import Base.Prelude Base.Prog Model.Tables Model.RangeDec Model.Lzma Format.RefEnc
  Proofs.ProgLemmas Proofs.SymOracle Proofs.SymCoders Proofs.SymLiteral Proofs.SymDecode.
Local Open Scope prog_scope.

(* ---------- rep0_ok cannot be dropped ---------- *)
(* state 7, empty history, literal 0: the format accepts the symbol and gives it events, but
   decode_literal asks the window for last_n(rep0 + 1) and gets Err. *)
Example rep0_ok_needed :
  sem_sym None hist0 (Lit 0) = Some (mkHist [0] 1 0 0 0 0) /\
  fst (interp (oracle None) (process_next_inner (mkProps 0 0 0) (mkSym 7 (reps_of hist0)) true)
         (fst (sym_evs (mkFProps 0 0 0) 7 hist0 (Lit 0)), hist0)) = Failed ELzma.
Proof. split; vm_compute; reflexivity. Qed.

(* ---------- invariants of the symbol automaton ---------- *)
Lemma can_copy_grow w h h2 d : can_copy w h d = true -> h_len h <= h_len h2 -> can_copy w h2 d = true.
Proof.
  unfold can_copy. rewrite !andb_true_iff, !N.leb_le. intros [[H1 H2] H3] Hle.
  repeat split; [exact H1|lia|exact H3].
Qed.

Lemma copy_back_forall (P : N -> Prop) : P 0 -> forall n d l, Forall P l -> Forall P (copy_back n d l).
Proof.
  intros P0. induction n as [|n IH]; intros d l Hl; cbn [copy_back]; [exact Hl|].
  apply IH. constructor; [|exact Hl].
  destruct (nth_in_or_default d l 0) as [Hin| ->]; [|exact P0].
  rewrite Forall_forall in Hl. apply Hl. exact Hin.
Qed.

Lemma st_lit_lt7 st : st < 12 -> st_lit st < 7.
Proof. intros H. unfold st_lit. destruct (N.ltb_spec st 4); [lia|]. destruct (N.ltb_spec st 10); lia. Qed.

Theorem sym_step_invariants w fp st h s h' :
  st < 12 -> Forall (fun b => b < 256) (h_bytes h) -> sem_sym w h s = Some h' ->
  snd (sym_evs fp st h s) < 12 /\
  Forall (fun b => b < 256) (h_bytes h') /\
  rep0_ok w (snd (sym_evs fp st h s)) h'.
Proof.
  intros Hst Hby Hsem. unfold sym_evs, rep0_ok.
  destruct s as [b|dist len| |i len|]; cbn [snd].
  - cbn [sem_sym] in Hsem. destruct (N.ltb_spec b 256) as [Hb|]; [|discriminate].
    inversion Hsem; subst h'; clear Hsem. cbn [h_bytes].
    pose proof (st_lit_lt7 st Hst). repeat split; [lia|constructor; assumption|lia].
  - cbn [sem_sym] in Hsem.
    destruct (can_copy w h dist) eqn:Hcc; cbn [andb] in Hsem; [|discriminate].
    destruct (len_ok len) eqn:Hlen; cbn [andb] in Hsem; [|discriminate].
    destruct (N.leb_spec dist 4294967295) as [Hd|]; [|discriminate].
    inversion Hsem; subst h'; clear Hsem.
    assert (Hd1 : 1 <= dist).
    { unfold can_copy in Hcc. rewrite !andb_true_iff, N.leb_le in Hcc. tauto. }
    unfold do_copy. cbn [h_bytes h_r0]. repeat split.
    + unfold st_match. destruct (N.ltb_spec st 7); lia.
    + apply copy_back_forall; [reflexivity|exact Hby].
    + intros _. replace (dist - 1 + 1) with dist by lia.
      apply (can_copy_grow w h); [exact Hcc|cbn [h_len]; lia].
  - cbn [sem_sym] in Hsem.
    destruct (can_copy w h (h_r0 h + 1)) eqn:Hcc; [|discriminate].
    inversion Hsem; subst h'; clear Hsem.
    unfold do_copy. cbn [h_bytes h_r0]. repeat split.
    + unfold st_shortrep. destruct (N.ltb_spec st 7); lia.
    + apply copy_back_forall; [reflexivity|exact Hby].
    + intros _. apply (can_copy_grow w h); [exact Hcc|cbn [h_len]; lia].
  - apply sem_rep_inv in Hsem. destruct Hsem as (Hi & Hcc & Hlen & ->).
    unfold do_copy. cbn [h_bytes h_r0]. repeat split.
    + unfold st_rep. destruct (N.ltb_spec st 7); lia.
    + apply copy_back_forall; [reflexivity|exact Hby].
    + intros _. apply (can_copy_grow w h); [exact Hcc|cbn [h_len]; lia].
  - discriminate.
Qed.
Print Assumptions sym_step_invariants.

(* the initial state satisfies the invariants *)
Lemma rep0_ok_init w h : rep0_ok w 0 h.
Proof. unfold rep0_ok. lia. Qed.

(* ---------- the oracle ignores the repeat-distance fields ---------- *)
Definition same_data (s1 s2 : ostate) : Prop :=
  fst s1 = fst s2 /\ h_bytes (snd s1) = h_bytes (snd s2) /\ h_len (snd s1) = h_len (snd s2).

Lemma can_copy_same w h1 h2 d : h_len h1 = h_len h2 -> can_copy w h1 d = can_copy w h2 d.
Proof. intros E. unfold can_copy. rewrite E. reflexivity. Qed.

Theorem oracle_reps_irrelevant {A} w (p : dprog A) s1 s2 :
  same_data s1 s2 ->
  fst (interp (oracle w) p s1) = fst (interp (oracle w) p s2) /\
  same_data (snd (interp (oracle w) p s1)) (snd (interp (oracle w) p s2)).
Proof.
  apply (handler_refinement (oracle w) (oracle w) same_data). clear.
  intros X o [e1 h1] [e2 h2] (E & Eb & El). cbn [fst snd] in E, Eb, El. subst e2.
  destruct o; cbn [oracle fst snd].
  - destruct e1 as [|[c' b|b] t]; try (split; [reflexivity|repeat split; assumption]).
    destruct (cell_eq_dec c' c); (split; [reflexivity|repeat split; assumption]).
  - destruct (pop_direct (N.to_nat count) 0 e1) as [[v t]|]; (split; [reflexivity|repeat split; assumption]).
  - split; [reflexivity|repeat split; assumption].
  - split; [exact El|repeat split; assumption].
  - rewrite Eb. split; [reflexivity|repeat split; assumption].
  - rewrite (can_copy_same w h1 h2 dist El), Eb.
    destruct (can_copy w h2 dist); (split; [reflexivity|repeat split; assumption]).
  - split; [reflexivity|]. unfold same_data, hist_push. cbn [fst snd h_bytes h_len].
    rewrite Eb, El. repeat split.
  - rewrite (can_copy_same w h1 h2 dist El).
    destruct (can_copy w h2 dist); [|split; [reflexivity|repeat split; assumption]].
    split; [reflexivity|]. unfold same_data, hist_copy. cbn [fst snd h_bytes h_len].
    rewrite Eb, El. repeat split.
Qed.
Print Assumptions oracle_reps_irrelevant.

(* T-sym with an oracle history whose repeat-distance fields are arbitrary: this is the form
   that chains, because the oracle's history keeps the rep fields it started with. *)
Theorem process_next_inner_decodes_chain w p fp st h ho s h' evs st' rest :
  props_match p fp -> rep0_ok w st h ->
  h_bytes ho = h_bytes h -> h_len ho = h_len h ->
  s <> EndMarker -> sem_sym w h s = Some h' -> sym_evs fp st h s = (evs, st') ->
  exists ho',
    interp (oracle w) (process_next_inner p (mkSym st (reps_of h)) true) (evs ++ rest, ho)
    = (Done (Continue, mkSym st' (reps_of h')), (rest, ho')) /\
    h_bytes ho' = h_bytes h' /\ h_len ho' = h_len h'.
Proof.
  intros Hp Hr Eb El Hne Hsem Hev.
  pose proof (process_next_inner_decodes_gen w p fp st h s h' evs st' rest Hp Hr Hne Hsem Hev) as T.
  pose proof (oracle_reps_irrelevant w (process_next_inner p (mkSym st (reps_of h)) true)
                (evs ++ rest, ho) (evs ++ rest, h) (conj eq_refl (conj Eb El))) as [F (S1 & S2 & S3)].
  rewrite T in F, S1, S2, S3. cbn [fst snd with_data h_bytes h_len] in F, S1, S2, S3.
  destruct (interp (oracle w) (process_next_inner p (mkSym st (reps_of h)) true) (evs ++ rest, ho))
    as [r [e' ho']].
  cbn [fst snd] in F, S1, S2, S3. subst r e'. exists ho'. repeat split; assumption.
Qed.
Print Assumptions process_next_inner_decodes_chain.
