(* C14: a reset raw LZMA decoder is indistinguishable from a new one. *)
From LZ Require Import Base.Prelude Base.Prog Model.Io Model.Tables Model.LzBuffer Model.RangeDec Model.Lzma Proofs.ProgLemmas.

(* ---------- what every decode preserves ---------- *)
Definition DsWf (d : dstate) : Prop :=
  ds_pib d = [] /\ props_valid (ds_props d) = true /\
  p_lit_rows (ds_tabs d) = N.shiftl 1 (lc (ds_props d) + lp (ds_props d)).

Lemma cell_set_rows t c v : p_lit_rows (cell_set t c v) = p_lit_rows t.
Proof. destruct t; destruct c as [| | | | | | | | | |r l]; try reflexivity. destruct r; reflexivity. Qed.

Lemma dec_h_rows X (o : decE X) w :
  match dec_h X o w with
  | HOk _ w' => p_lit_rows (d_tabs w') = p_lit_rows (d_tabs w)
  | HErr _ w' => p_lit_rows (d_tabs w') = p_lit_rows (d_tabs w)
  | HPanic _ w' => p_lit_rows (d_tabs w') = p_lit_rows (d_tabs w)
  end.
Proof.
  destruct o; cbn [dec_h].
  - destruct (cell_get (d_tabs w) c); [|reflexivity].
    destruct (src_run _ _) as [[[[b p'] r']|e|q] s]; cbn [d_tabs]; destruct upd; try reflexivity; apply cell_set_rows.
  - unfold lift_src. destruct (src_run _ _) as [[[x r']|e|q] s]; reflexivity.
  - destruct (src_run _ _) as [[b|e|q] s]; reflexivity.
  - reflexivity.
  - unfold lift_win. destruct (win_last_or _ _) as [[x|e|q] v]; reflexivity.
  - unfold lift_win. destruct (win_last_n _ _) as [[x|e|q] v]; reflexivity.
  - unfold lift_win. destruct (win_append_literal _ _) as [[x|e|q] v]; reflexivity.
  - unfold lift_win. destruct (win_append_lz _ _ _) as [[x|e|q] v]; reflexivity.
Qed.

Lemma interp_rows {A} (p : prog decE A) w :
  p_lit_rows (d_tabs (snd (interp dec_h p w))) = p_lit_rows (d_tabs w).
Proof.
  apply (interp_inv dec_h (fun w' => p_lit_rows (d_tabs w') = p_lit_rows (d_tabs w))); [|reflexivity].
  intros X o s Hs. pose proof (dec_h_rows X o s) as H. destruct (dec_h X o s); congruence.
Qed.

(* the fields of DecoderState that a symbol step leaves alone *)
Definition same_frame (d d' : dstate) : Prop :=
  ds_pib d' = ds_pib d /\ ds_props d' = ds_props d /\ ds_unpacked d' = ds_unpacked d /\
  p_lit_rows (ds_tabs d') = p_lit_rows (ds_tabs d).

Lemma same_frame_refl d : same_frame d d.
Proof. repeat split. Qed.
Lemma same_frame_trans a b c : same_frame a b -> same_frame b c -> same_frame a c.
Proof. intros (A1 & A2 & A3 & A4) (B1 & B2 & B3 & B4). repeat split; congruence. Qed.

Lemma run_sym_frame upd w : same_frame (l_ds w) (l_ds (snd (run_sym upd w))).
Proof.
  unfold run_sym.
  pose proof (interp_rows (process_next_inner (ds_props (l_ds w)) (mkSym (ds_state (l_ds w)) (ds_rep (l_ds w))) upd)
                (mkDw (ds_tabs (l_ds w)) (l_rc w) (l_src w) (l_win w))) as HR.
  destruct (interp dec_h _ _) as [[[st y]|e|q] x]; cbn [snd l_ds ds_pib ds_props ds_unpacked ds_tabs d_tabs] in *;
    repeat split; exact HR.
Qed.

Lemma wf_frame d d' : DsWf d -> same_frame d d' -> DsWf d'.
Proof. intros (A & B & C) (F1 & F2 & F3 & F4). unfold DsWf. rewrite F1, F2, F4. auto. Qed.

(* process_mode in Finish mode, started with an empty partial-input buffer, keeps the frame *)
Lemma pm_body_finish_frame w :
  ds_pib (l_ds w) = [] ->
  match pm_body FinishMode w with
  | Next w' => same_frame (l_ds w) (l_ds w')
  | Break (_, w') => same_frame (l_ds w) (l_ds w')
  end.
Proof.
  intros Hp. unfold pm_body. cbv zeta.
  assert (TAIL : forall s1,
    match (match src_run (icall FillBuf) s1 with
           | (Failed e, s) => Break (Failed e, mkLw (l_ds w) (l_rc w) s (l_win w))
           | (Panicked p, s) => Break (Panicked p, mkLw (l_ds w) (l_rc w) s (l_win w))
           | (Done buf, s) =>
             match run_sym true (mkLw (l_ds w) (l_rc w) s (l_win w)) with
             | (Failed e, w3) => Break (Failed e, w3)
             | (Panicked p, w3) => Break (Panicked p, w3)
             | (Done Finished, w3) => Break (Done tt, w3)
             | (Done Continue, w3) => Next w3
             end
           end : step lw pm_result) with
    | Next w' => same_frame (l_ds w) (l_ds w')
    | Break (_, w') => same_frame (l_ds w) (l_ds w')
    end).
  { intros s1. destruct (src_run (icall FillBuf) s1) as [[buf|e|q] s]; try apply same_frame_refl.
    pose proof (run_sym_frame true (mkLw (l_ds w) (l_rc w) s (l_win w))) as HF. cbn [l_ds] in HF.
    destruct (run_sym true _) as [[[|]|e|q] w3]; cbn [snd] in HF; exact HF. }
  destruct (ds_unpacked (l_ds w)) as [us|] eqn:Hus.
  - destruct (us <=? win_len (l_win w)); cbv iota; [apply same_frame_refl|].
    rewrite Hp. change (0 <? nlen (@nil N)) with false. cbv iota. apply TAIL.
  - destruct (rep0 (ds_rep (l_ds w)) =? 4294967295).
    + destruct (src_run (rc_is_finished_ok (l_rc w)) (l_src w)) as [[b|e|q] s]; cbv iota; try apply same_frame_refl.
      rewrite Hp. change (nlen (@nil N) =? 0) with true. rewrite andb_true_r.
      destruct b; cbv iota; [apply same_frame_refl|].
      cbn [l_ds l_rc l_win l_src]. rewrite Hp. change (0 <? nlen (@nil N)) with false. cbv iota. apply TAIL.
    + cbv iota. rewrite Hp. change (0 <? nlen (@nil N)) with false. cbv iota. apply TAIL.
Qed.

Lemma process_finish_frame fuel w :
  ds_pib (l_ds w) = [] -> same_frame (l_ds w) (l_ds (snd (process_mode FinishMode fuel w))).
Proof.
  intros Hp. unfold process_mode.
  pose proof (loopN_inv (pm_body FinishMode)
                (fun w' => same_frame (l_ds w) (l_ds w'))
                (fun r => same_frame (l_ds w) (l_ds (snd r)))) as LI.
  specialize (LI).
  assert (Hnext : forall s s', same_frame (l_ds w) (l_ds s) -> pm_body FinishMode s = Next s' -> same_frame (l_ds w) (l_ds s')).
  { intros s s' Hs E. assert (Hps : ds_pib (l_ds s) = []) by (destruct Hs as (A & _); congruence).
    pose proof (pm_body_finish_frame s Hps) as HF. rewrite E in HF. eapply same_frame_trans; eauto. }
  assert (Hbreak : forall s r, same_frame (l_ds w) (l_ds s) -> pm_body FinishMode s = Break r -> same_frame (l_ds w) (l_ds (snd r))).
  { intros s r Hs E. assert (Hps : ds_pib (l_ds s) = []) by (destruct Hs as (A & _); congruence).
    pose proof (pm_body_finish_frame s Hps) as HF. rewrite E in HF. destruct r as [o w']. cbn [snd]. eapply same_frame_trans; eauto. }
  specialize (LI Hnext Hbreak fuel w (same_frame_refl _)).
  destruct (loopN fuel (pm_body FinishMode) w) as [w'|[[u|e|q] w']]; cbn [snd] in *; try exact LI.
  destruct (ds_unpacked (l_ds w')); [destruct (_ =? _)|]; exact LI.
Qed.

(* ---------- the raw decoder ---------- *)
Definition DecWf (dec : lzma_decoder) : Prop :=
  DsWf (ld_state dec) /\ ds_props (ld_state dec) = pr_props (ld_params dec) /\ pr_dict (ld_params dec) <> 0.

Lemma new_wf p mem dec : lzma_decoder_new p mem = Done dec -> DecWf dec.
Proof.
  unfold lzma_decoder_new, dstate_new. destruct (N.eqb_spec (pr_dict p) 0) as [|Hd]; [discriminate|].
  destruct (props_valid (pr_props p)) eqn:Hv; cbn [negb]; [|discriminate].
  intros H. inversion H; subst. unfold DecWf, DsWf. cbn. repeat split; auto.
Qed.

Lemma mk_wf params mem d d0 :
  DsWf d0 -> same_frame d0 d -> ds_props d0 = pr_props params -> pr_dict params <> 0 ->
  DecWf (mkLzmaDecoder params mem d).
Proof.
  intros Hw HF Hp Hd. unfold DecWf. cbn [ld_state ld_params].
  split; [eapply wf_frame; eauto|]. split; [destruct HF as (_ & F2 & _); congruence|exact Hd].
Qed.

Lemma decompress_wf fuel dec w : DecWf dec -> DecWf (fst (snd (lzma_decoder_decompress fuel dec w))).
Proof.
  intros (Hw & Hp & Hd). unfold lzma_decoder_decompress.
  destruct (src_run _ _) as [[r|e|q] s]; cbn [snd fst]; try exact (conj Hw (conj Hp Hd)).
  pose proof (process_finish_frame fuel (mkLw (ld_state dec) r s (WCirc (circ_new (i_snk w) (pr_dict (ld_params dec)) (ld_memlimit dec))))
                (proj1 Hw)) as HF. cbn [l_ds] in HF.
  destruct (process_mode FinishMode fuel _) as [[u|e|q] x]; cbn [snd] in HF.
  - destruct (l_win x) as [c|a].
    + destruct (circ_finish c) as [[u'|e|q] k]; cbn [snd fst]; eapply mk_wf; eauto.
    + cbn [snd fst]. eapply mk_wf; eauto.
  - cbn [snd fst]. eapply mk_wf; eauto.
  - cbn [snd fst]. eapply mk_wf; eauto.
Qed.

(* the size a fresh decoder must be given to match reset(us) *)
Definition size_after_reset (dec : lzma_decoder) (us : option (option N)) : option N :=
  match us with Some u => u | None => ds_unpacked (ld_state dec) end.

(* reset yields exactly the state of a freshly constructed decoder *)
Theorem reset_state_is_fresh dec us : DecWf dec ->
  exists dec' fresh,
    lzma_decoder_reset dec us = Done dec' /\
    lzma_decoder_new (mkParams (pr_props (ld_params dec)) (pr_dict (ld_params dec)) (size_after_reset dec us))
                     (Some (ld_memlimit dec)) = Done fresh /\
    ld_state dec' = ld_state fresh /\
    pr_dict (ld_params dec') = pr_dict (ld_params fresh) /\
    ld_memlimit dec' = ld_memlimit fresh /\
    DecWf dec'.
Proof.
  intros ((Hpib & Hv & Hrows) & Hp & Hd).
  unfold lzma_decoder_reset, reset_state, lzma_decoder_new, dstate_new. cbn [pr_props pr_dict pr_unpacked].
  rewrite <- Hp. rewrite Hv. cbn [negb].
  destruct (N.eqb_spec (pr_dict (ld_params dec)) 0) as [|_]; [contradiction|].
  rewrite N.eqb_refl. rewrite Hrows.
  eexists. eexists. split; [reflexivity|]. split; [reflexivity|].
  cbn [ld_state ld_params ld_memlimit pr_dict].
  split.
  - unfold size_after_reset. destruct us as [u|]; unfold set_unpacked_size; cbn; rewrite Hpib; reflexivity.
  - split; [reflexivity|]. split; [reflexivity|].
    unfold DecWf, DsWf. destruct us as [u|]; unfold set_unpacked_size; cbn; rewrite ?Hpib; repeat split; auto.
Qed.

(* decompress looks only at the state, the dictionary size and the memory limit *)
Lemma decompress_depends fuel d1 d2 w :
  ld_state d1 = ld_state d2 -> pr_dict (ld_params d1) = pr_dict (ld_params d2) -> ld_memlimit d1 = ld_memlimit d2 ->
  fst (lzma_decoder_decompress fuel d1 w) = fst (lzma_decoder_decompress fuel d2 w) /\
  snd (snd (lzma_decoder_decompress fuel d1 w)) = snd (snd (lzma_decoder_decompress fuel d2 w)) /\
  ld_state (fst (snd (lzma_decoder_decompress fuel d1 w))) = ld_state (fst (snd (lzma_decoder_decompress fuel d2 w))).
Proof.
  intros Hs Hd Hm. unfold lzma_decoder_decompress. rewrite Hs, Hd, Hm.
  destruct (src_run _ _) as [[r|e|q] s]; cbn [fst snd ld_state]; [|auto|auto].
  destruct (process_mode FinishMode fuel _) as [[u|e|q] x]; cbn [fst snd ld_state]; [|auto|auto].
  destruct (l_win x) as [c|a]; [destruct (circ_finish c) as [[u'|e|q] k]|]; cbn [fst snd ld_state]; auto.
Qed.

(* ---------- histories ---------- *)
Inductive rop := RDecompress (fuel : positive) (src0 : src) (snk0 : snk) | RReset (us : option (option N)).
Definition do_rop (dec : lzma_decoder) (o : rop) : lzma_decoder :=
  match o with
  | RDecompress fuel s k => fst (snd (lzma_decoder_decompress fuel dec (mkIo s k)))
  | RReset us => match lzma_decoder_reset dec us with Done d => d | _ => dec end
  end.

Lemma do_rop_wf dec o : DecWf dec -> DecWf (do_rop dec o).
Proof.
  intros H. destruct o as [fuel s k|us]; cbn [do_rop]; [apply decompress_wf; exact H|].
  destruct (reset_state_is_fresh dec us H) as (d' & f & E & _ & _ & _ & _ & W). rewrite E. exact W.
Qed.

Lemma history_wf ops : forall dec, DecWf dec -> DecWf (fold_left do_rop ops dec).
Proof. induction ops as [|o ops IH]; intros dec H; cbn [fold_left]; [exact H|]. apply IH. apply do_rop_wf. exact H. Qed.

(* C14 for the raw LZMA decoder: whatever happened before (successful decodes, decodes that failed
   half-way on any input and sink, earlier resets), after reset(us) the next decompress gives the same
   verdict and the same effect on source and sink as a freshly constructed decoder given the same
   properties, dictionary size, memory limit and the re-specified (or retained) size. *)
Theorem reset_equals_new p mem dec0 ops us fuel w :
  lzma_decoder_new p mem = Done dec0 ->
  let dec := fold_left do_rop ops dec0 in
  exists dec' fresh,
    lzma_decoder_reset dec us = Done dec' /\
    lzma_decoder_new (mkParams (pr_props p) (pr_dict p) (size_after_reset dec us)) (Some (ld_memlimit dec0)) = Done fresh /\
    fst (lzma_decoder_decompress fuel dec' w) = fst (lzma_decoder_decompress fuel fresh w) /\
    snd (snd (lzma_decoder_decompress fuel dec' w)) = snd (snd (lzma_decoder_decompress fuel fresh w)).
Proof.
  intros Hnew dec.
  assert (Hparams : forall ops d, ld_params (fold_left do_rop ops d) = ld_params d /\ ld_memlimit (fold_left do_rop ops d) = ld_memlimit d).
  { induction ops0 as [|o ops0 IH]; intros d; cbn [fold_left]; [split; reflexivity|].
    destruct (IH (do_rop d o)) as [A B]. rewrite A, B. destruct o as [f s k|u]; cbn [do_rop].
    - unfold lzma_decoder_decompress. destruct (src_run _ _) as [[r|e|q] s']; cbn; [|auto|auto].
      destruct (process_mode _ _ _) as [[u0|e|q] x]; cbn; [|auto|auto].
      destruct (l_win x); [destruct (circ_finish _) as [[u'|e|q] k']|]; cbn; auto.
    - unfold lzma_decoder_reset. destruct (reset_state _ _) as [[d'|e|q] t]; cbn; auto. }
  destruct (Hparams ops dec0) as [HP HM]. fold dec in HP, HM.
  assert (Hp0 : ld_params dec0 = p).
  { unfold lzma_decoder_new in Hnew. destruct (pr_dict p =? 0); [discriminate|].
    destruct (dstate_new _ _) as [[d|e|q] t]; inversion Hnew; reflexivity. }
  pose proof (history_wf ops dec0 (new_wf _ _ _ Hnew)) as HW. fold dec in HW.
  destruct (reset_state_is_fresh dec us HW) as (dec' & fresh & E1 & E2 & Es & Ed & Em & _).
  exists dec', fresh. rewrite HP, Hp0, HM in E2. split; [exact E1|]. split; [exact E2|].
  destruct (decompress_depends fuel dec' fresh w Es Ed Em) as (A & B & _). split; assumption.
Qed.

(* the hypotheses are satisfiable: a decoder that decoded, failed, and is then reset *)
Example history_example :
  exists dec0, lzma_decoder_new (mkParams (mkProps 3 0 2) 4096 (Some 1)) None = Done dec0 /\
    DecWf (fold_left do_rop [RDecompress big_fuel (cursor_of [0;0;0;0;0]) vec_sink; RDecompress big_fuel (cursor_of [0;0;0]) vec_sink; RReset (Some None)] dec0).
Proof.
  eexists. split; [vm_compute; reflexivity|]. apply history_wf.
  eapply (new_wf (mkParams (mkProps 3 0 2) 4096 (Some 1)) None). vm_compute. reflexivity.
Qed.
