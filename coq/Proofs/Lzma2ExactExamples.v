(* C02: examples.  The hypotheses of lzma2_decode_exact hold (by computation) for a chunk
   sequence with every reset class, a property change, a non-canonical flush offset and matches
   reaching into earlier uncompressed chunks; and the conditions collected in [wf_seq] cannot
   be dropped: ser2 accepts the sequences below, the decoder rejects them. *)
From LZ Require Import Base.Prelude Base.Prog Model.Io Model.LzBuffer Model.Lzma2 Format.RefEnc Format.Lzma2Fmt
  Proofs.Lzma2ExactChunk Proofs.Lzma2Exact.

Definition ex_cs : list chunk :=
  [ CLzma 3 (Some (mkFProps 3 0 2)) [Lit 97; Lit 98; Lit 99; Match 3 4] 0;   (* dictionary + state + properties *)
    CRaw false [100; 101; 102];                                              (* uncompressed, nothing reset *)
    CLzma 0 None [Lit 120; Match 2 3; Rep 0 2] 0;   (* nothing reset: state 7 carried over (matched literal), the match reaches into the uncompressed chunk *)
    CLzma 1 None [Lit 65; ShortRep; Rep 0 2] 0;                              (* state reset *)
    CLzma 2 (Some (mkFProps 0 2 0)) [Lit 1; Lit 2; Match 1 5] 7;             (* new properties, flush offset 7 *)
    CRaw true [9; 8; 7];                                                     (* uncompressed with dictionary reset *)
    CLzma 1 None [Lit 66; Match 3 2; ShortRep] 0 ].                          (* state reset after it; match into the uncompressed chunk *)

Definition ex_bytes : list N :=
  [224; 0; 6; 0; 8; 93; 0; 48; 152; 136; 164; 233; 41; 0; 0; 2; 0; 2; 100; 101; 102; 128; 0; 5; 0; 7; 0; 60; 66; 26;
   120; 71; 0; 0; 160; 0; 3; 0; 6; 0; 32; 230; 124; 0; 0; 0; 192; 0; 6; 0; 7; 18; 0; 0; 128; 167; 233; 220; 64; 7;
   1; 0; 2; 9; 8; 7; 160; 0; 3; 0; 7; 0; 33; 66; 17; 80; 0; 0; 0; 0].
Definition ex_out : list N :=
  [97; 98; 99; 97; 98; 99; 97; 100; 101; 102; 120; 102; 120; 102; 120; 102; 65; 65; 65; 65; 1; 2; 2; 2; 2; 2; 2;
   9; 8; 7; 66; 8; 7; 66].

Example ex_ser : ser2_gen false ex_cs = Some (ex_bytes, ex_out).
Proof. vm_compute. reflexivity. Qed.
Example ex_wf : wf_seq ex_cs.
Proof. vm_compute. reflexivity. Qed.
Example ex_fuel : fuel_ok 8 ex_cs.
Proof. split; [vm_compute; lia|]. repeat constructor; vm_compute; lia. Qed.

(* the theorem applied: any fragmentation of the source, any trailing bytes, any sink that
   accepts writes and the flush *)
Example ex_exact trail frag k : k_wfail k = None -> k_ffail k = false ->
  exists w', lzma2_decompress_top 8 (mkIo (src_of (ex_bytes ++ trail) frag None) k) = (Done tt, w') /\
    snk_bytes (i_snk w') = snk_bytes k ++ ex_out /\ k_flushes (i_snk w') = k_flushes k + 1 /\
    s_pos (i_src w') = 80 /\ s_rest (i_src w') = trail.
Proof. intros H1 H2. exact (lzma2_decode_exact ex_cs ex_bytes ex_out trail frag k 8 ex_ser ex_wf H1 H2 ex_fuel). Qed.

(* the same by running the model (3 bytes per refill, two trailing bytes) *)
Definition run (fuel : positive) (bytes : list N) :=
  let '(r, w) := lzma2_decompress_top fuel (mkIo (src_of bytes (fun _ => 3) None) vec_sink) in
  (r, snk_bytes (i_snk w), s_pos (i_src w), s_rest (i_src w), k_flushes (i_snk w)).
Example ex_run : run 8 (ex_bytes ++ [42; 43]) = (Done tt, ex_out, 80, [42; 43], 1).
Proof. vm_compute. reflexivity. Qed.

(* ---------- the conditions of wf_seq are needed ---------- *)
(* 1. a compressed chunk without state reset after a dictionary reset done by an uncompressed
      chunk: state 7 and rep0 = 2 are carried over an emptied dictionary; the matched literal
      asks for last_n(3) of a one-byte window *)
Definition bad_need : list chunk :=
  [ CLzma 3 (Some (mkFProps 0 0 0)) [Lit 1; Lit 2; Lit 3; Match 3 2] 0; CRaw true [5]; CLzma 0 None [Lit 7] 0 ].
Example bad_need_rejected :
  exists bytes, ser2_gen false bad_need = Some (bytes, [1; 2; 3; 1; 2; 5; 7]) /\
    wf_fromb false l2state0 bad_need = false /\ fst (run 8 bytes) = (Failed ELzma, [1; 2; 3; 1; 2], 29, [0; 0]).
Proof. eexists. split; [vm_compute; reflexivity|]. split; vm_compute; reflexivity. Qed.
(* with a state reset in the third chunk the sequence is well formed *)
Example good_need : wf_seq [ CLzma 3 (Some (mkFProps 0 0 0)) [Lit 1; Lit 2; Lit 3; Match 3 2] 0; CRaw true [5]; CLzma 1 None [Lit 7] 0 ].
Proof. vm_compute. reflexivity. Qed.

(* 2. an end marker inside a chunk: ser2 gives it a meaning (no output), the decoder stops at the
      declared unpacked size before the marker and then reads the marker's bytes as a control byte *)
Definition bad_marker : list chunk := [ CLzma 3 (Some (mkFProps 0 0 0)) [Lit 1; EndMarker] 0; CRaw false [5] ].
Example bad_marker_rejected :
  exists bytes, ser2_gen false bad_marker = Some (bytes, [1; 5]) /\
    wf_fromb false l2state0 bad_marker = false /\ fst (fst (fst (fst (run 8 bytes)))) = Failed ELzma.
Proof. eexists. split; [vm_compute; reflexivity|]. split; vm_compute; reflexivity. Qed.

(* 3. a flush offset outside the final interval (here delta = range): the bytes denote another program *)
Definition bad_delta : list chunk := [ CLzma 3 (Some (mkFProps 0 0 0)) [Lit 1; Lit 2] 1290178560 ].
Example bad_delta_range : chunk_ienc l2state0 (CLzma 3 (Some (mkFProps 0 0 0)) [Lit 1; Lit 2] 0)
                          = Some (mkIenc 552468602880 1290178560 2).
Proof. vm_compute. reflexivity. Qed.
Example bad_delta_wrong :
  exists bytes, ser2_gen false bad_delta = Some (bytes, [1; 2]) /\
    wf_fromb false l2state0 bad_delta = false /\
    fst (fst (fst (fst (run 8 bytes)))) = Done tt /\ snd (fst (fst (fst (run 8 bytes)))) <> [1; 2].
Proof.
  eexists. split; [vm_compute; reflexivity|]. split; [vm_compute; reflexivity|].
  split; [vm_compute; reflexivity|]. vm_compute. discriminate.
Qed.

(* 4. the bound on the dictionary length is the memory limit of LzAccumBuffer (usize::MAX in
      lzma2_decompress): a literal appended to a window of 2^64 - 1 bytes is refused *)
Example accum_limit k : fst (accum_append_literal (mkAccum nm_empty 0 (USIZE - 1) (USIZE - 1) k) 0) = Failed ELzma.
Proof. vm_compute. reflexivity. Qed.
