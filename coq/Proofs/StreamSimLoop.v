(* C05, layer L3 continued: one whole call of process_mode Partial; calls after the end marker;
   the final call in Finish mode.  All on abstract decoder states. *)
From LZ Require Import Base.Prelude Base.Prog Model.Io Model.Tables Model.LzBuffer Model.RangeDec Model.Lzma.
From LZ Require Import Proofs.ProgLemmas Proofs.IoLemmas Proofs.Bound20 Proofs.Bound20Run.
From LZ Require Import Proofs.NoPanic Proofs.NoPanicWorld.
From LZ Require Import Proofs.StreamSimAbs Proofs.StreamSimDry Proofs.StreamSimSym Proofs.StreamSimBody Proofs.StreamSimMark Proofs.StreamSimCall.
From Coq Require Import ZifyBool ZifyNat ZifyN.
Local Open Scope prog_scope.

(* ====================================================================== *)
(* The one-shot loop as a derivation                                        *)
(* ====================================================================== *)
Inductive oeval : nat -> ast -> (outcome unit * ast) -> Prop :=
| oe_break A R : obody A = Break R -> oeval 1 A R
| oe_next n A A' R : obody A = Next A' -> oeval n A' R -> oeval (S n) A R.

Lemma oeval_iter n A R : oeval n A R -> forall m, (n <= m)%nat -> iter_step m obody A = Break R.
Proof.
  induction 1 as [A R H|n A A' R H _ IH]; intros m Hm.
  - destruct m as [|m]; [lia|]. cbn [iter_step]. rewrite H. reflexivity.
  - destruct m as [|m]; [lia|]. cbn [iter_step]. rewrite H. apply IH. lia.
Qed.

Lemma iter_oeval m : forall A R, iter_step m obody A = Break R -> exists n, (n <= m)%nat /\ oeval n A R.
Proof.
  induction m as [|m IH]; intros A R H; cbn [iter_step] in H; [discriminate|].
  destruct (obody A) as [A'|R'] eqn:E.
  - destruct (IH A' R H) as (n & Hn & Ho). exists (S n). split; [lia|]. eapply oe_next; eassumption.
  - inversion H; subst. exists 1%nat. split; [lia|]. apply oe_break. exact E.
Qed.

Lemma oeval_pos n A R : oeval n A R -> (1 <= n)%nat.
Proof. destruct 1; lia. Qed.

Lemma oeval_break_det n A R X : oeval n A R -> obody A = Break X -> R = X.
Proof. intros H E. destruct H as [A R H|n A A' R H _]; congruence. Qed.

(* ====================================================================== *)
(* States between calls                                                     *)
(* ====================================================================== *)
(* the decoder is in step with the one-shot decoder at A, which still has to read the staged bytes and [unread] *)
Definition InSync (n : nat) (a : ast) (unread : list N) (R : outcome unit * ast) : Prop :=
  exists A n', (n' <= n)%nat /\ core_eq a A /\ AInv A /\ dict_ok (x_win A) /\ oeval n' A R /\ nlen (pibof a) <= 20 /\
               (size_hit a = true \/ (x_in A = pibof a ++ unread /\ nlen (pibof a) < 20)).

(* the decoder has decoded the end marker, and the one-shot result is already determined *)
Definition AfterMark (a : ast) (unread : list N) (R : outcome unit * ast) : Prop :=
  PMc a /\ nlen (pibof a) < 20 /\ bytes_ok (pibof a ++ unread) /\ nlen (pibof a ++ unread) < BIG /\
  ((pibof a ++ unread = [] /\ fst R = Done tt /\ core_eq a (snd R)) \/
   (pibof a ++ unread <> [] /\ exists e', fst R = Failed e')).

Definition is_failed {A} (r : outcome A) : Prop := match r with Failed _ => True | _ => False end.

(* ====================================================================== *)
(* One call, in step                                                        *)
(* ====================================================================== *)
Definition progress (N0 : N) (a : ast) : Prop :=
  pibof a = [] \/ x_in a = [] \/ nlen (x_in a) < N0 \/ (nlen (pibof a) < 20 /\ nlen (x_in a) <= N0).

Lemma InSync_mono n m a u R : InSync n a u R -> (n <= m)%nat -> InSync m a u R.
Proof. intros (A & n' & H & X) Hm. exists A, n'. split; [lia|exact X]. Qed.

Lemma body_break_iter {S R} (body : S -> Prog.step S R) s r : body s = Break r -> iter_step 1 body s = Break r.
Proof. intros H. cbn [iter_step]. rewrite H. reflexivity. Qed.

Lemma progress_next N0 a a1 : progress N0 a ->
  (pibof a = [] -> pibof a1 = []) -> nlen (x_in a1) <= nlen (x_in a) ->
  (pibof a <> [] -> nlen (pibof a) < 20 -> x_in a <> [] -> nlen (x_in a1) < nlen (x_in a)) ->
  progress N0 a1.
Proof.
  intros Hpr H1 H2 H3. unfold progress in *. destruct Hpr as [Q|[Q|[Q|[Q1 Q2]]]].
  - left. apply H1. exact Q.
  - right; left. apply nlen_zero. rewrite Q in H2. cbn in H2. lia.
  - right; right; left. lia.
  - destruct (pibof a) as [|p0 pt] eqn:Epa; [left; apply H1; reflexivity|].
    destruct (x_in a) as [|i0 it] eqn:Eia; [right; left; apply nlen_zero; cbn in H2; lia|].
    right; right; left. assert (nlen (x_in a1) < nlen (i0 :: it)) by (apply H3; [discriminate|exact Q1|discriminate]). lia.
Qed.

Lemma progress_mark N0 a a1 : progress N0 a ->
  (pibof a = [] -> x_in a1 = []) -> nlen (x_in a1) <= nlen (x_in a) ->
  (pibof a <> [] -> nlen (pibof a) < 20 -> x_in a <> [] -> nlen (x_in a1) < nlen (x_in a)) ->
  x_in a1 = [] \/ nlen (x_in a1) < N0.
Proof.
  intros Hpr H1 H2 H3. unfold progress in *. destruct Hpr as [Q|[Q|[Q|[Q1 Q2]]]].
  - left. apply H1. exact Q.
  - left. apply nlen_zero. rewrite Q in H2. cbn in H2. lia.
  - right. lia.
  - destruct (pibof a) as [|p0 pt] eqn:Epa; [left; apply H1; reflexivity|].
    destruct (x_in a) as [|i0 it] eqn:Eia; [left; apply nlen_zero; cbn in H2; lia|].
    right. assert (nlen (x_in a1) < nlen (i0 :: it)) by (apply H3; [discriminate|exact Q1|discriminate]). lia.
Qed.

(* the post-marker state delivered by one iteration, packaged *)
Lemma mark_package a A fut a1 R : AInv A -> x_in A = pibof a ++ x_in a ++ fut ->
  PMc a1 -> pibof a1 = [] -> suffix_of (x_in a1) (x_in a) ->
  ((x_in a1 ++ fut = [] /\ fst R = Done tt /\ core_eq a1 (snd R)) \/ (x_in a1 ++ fut <> [] /\ exists e', fst R = Failed e')) ->
  AfterMark a1 (x_in a1 ++ fut) R.
Proof.
  intros HI Hi PM Ep [pre Hsuf] Alt. unfold AfterMark. rewrite Ep. cbn [app nlen length N.of_nat].
  pose proof (AInv_bytes A HI) as Hb. destruct HI as [_ _ _ Hn _]. rewrite Hi, Hsuf in Hb, Hn.
  split; [exact PM|]. split; [lia|]. split; [|split; [|exact Alt]].
  - apply bytes_ok_app in Hb. destruct Hb as [_ Hb]. apply bytes_ok_app in Hb. destruct Hb as [Hb Hf].
    apply bytes_ok_app in Hb. destruct Hb as [_ Hb]. apply bytes_ok_app. split; assumption.
  - rewrite !nlen_app in Hn. rewrite nlen_app. lia.
Qed.

Theorem partial_call N0 fut R : forall n' A, oeval n' A R -> forall a,
  core_eq a A -> x_in A = pibof a ++ x_in a ++ fut -> AInv A -> dict_ok (x_win A) -> nlen (pibof a) <= 20 ->
  progress N0 a ->
  exists m res a', (1 <= m <= n')%nat /\ iter_step m (abody Partial) a = Break (res, a') /\
    ((res = Done tt /\ x_in a' = [] /\ size_hit a' = false /\ InSync n' a' (x_in a' ++ fut) R) \/
     (res = Done tt /\ size_hit a' = true /\ InSync n' a' (x_in a' ++ fut) R) \/
     (res = Done tt /\ (x_in a' = [] \/ nlen (x_in a') < N0) /\ AfterMark a' (x_in a' ++ fut) R) \/
     (is_failed res /\ is_failed (fst R))).
Proof.
  induction 1 as [A R OB|n A A1 R OB Hev IH]; intros a Hc Hi HI HD Hp Hpr.
  - pose proof (partial_iter a A fut Hc Hi HI HD Hp) as IP.
    destruct (abody Partial a) as [ax|[rx ax]] eqn:EB.
    + inversion IP; subst. congruence.
    + exists 1%nat, rx, ax. split; [lia|]. split; [apply body_break_iter; exact EB|].
      inversion IP as [| Hsz Heq | a1 C1 I1 E1 P1 S1 Heq | e a1 e' A' OB1 Heq | a1 PM Ep Hsuf Hpe Hst Alt Heq]; subst.
      * right; left. split; [reflexivity|]. split; [exact Hsz|].
        exists A, 1%nat. split; [lia|]. split; [exact Hc|]. split; [exact HI|]. split; [exact HD|].
        split; [apply oe_break; exact OB|]. split; [exact Hp|]. left. exact Hsz.
      * left. split; [reflexivity|]. split; [exact E1|]. split; [exact S1|].
        exists A, 1%nat. split; [lia|]. split; [exact C1|]. split; [exact HI|]. split; [exact HD|].
        split; [apply oe_break; exact OB|]. split; [lia|]. right. split; [exact I1|exact P1].
      * right; right; right. split; [exact I|]. rewrite OB in OB1. inversion OB1; subst. exact I.
      * right; right; left. split; [reflexivity|]. split.
        { eapply progress_mark; try eassumption. apply suffix_nlen. exact Hsuf. }
        eapply mark_package; try eassumption.
        destruct Alt as [[Em (A' & OB1 & C1)]|[Em (e' & A' & OB1)]]; rewrite OB in OB1; inversion OB1; subst.
        -- left. split; [exact Em|]. split; [reflexivity|exact C1].
        -- right. split; [exact Em|]. exists e'. reflexivity.
  - pose proof (partial_iter a A fut Hc Hi HI HD Hp) as IP.
    pose proof (oeval_pos _ _ _ Hev) as Hn1.
    destruct (abody Partial a) as [ax|[rx ax]] eqn:EB.
    + inversion IP as [a1 A1' OB1 C1 I1 HI1 HD1 P1 Q1 Q2 Q3 Heq| | | |]; subst.
      rewrite OB in OB1. inversion OB1; subst A1'.
      destruct (IH ax C1 I1 HI1 HD1 P1 (progress_next N0 a ax Hpr Q1 Q2 Q3)) as (m & res & a' & Hm & Hit & Post).
      exists (S m), res, a'. split; [lia|]. split; [cbn [iter_step]; rewrite EB; exact Hit|].
      destruct Post as [(E1 & E2 & E3 & E4)|[(E1 & E2 & E3)|[(E1 & E2 & E3)|E1]]].
      * left. split; [exact E1|]. split; [exact E2|]. split; [exact E3|]. eapply InSync_mono; [exact E4|lia].
      * right; left. split; [exact E1|]. split; [exact E2|]. eapply InSync_mono; [exact E3|lia].
      * right; right; left. split; [exact E1|]. split; [exact E2|exact E3].
      * right; right; right. exact E1.
    + exists 1%nat, rx, ax. split; [lia|]. split; [apply body_break_iter; exact EB|].
      assert (Hev' : oeval (S n) A R) by (eapply oe_next; eassumption).
      inversion IP as [| Hsz Heq | a1 C1 I1 E1 P1 S1 Heq | e a1 e' A' OB1 Heq | a1 PM Ep Hsuf Hpe Hst Alt Heq]; subst.
      * right; left. split; [reflexivity|]. split; [exact Hsz|].
        exists A, (S n). split; [lia|]. split; [exact Hc|]. split; [exact HI|]. split; [exact HD|].
        split; [exact Hev'|]. split; [exact Hp|]. left. exact Hsz.
      * left. split; [reflexivity|]. split; [exact E1|]. split; [exact S1|].
        exists A, (S n). split; [lia|]. split; [exact C1|]. split; [exact HI|]. split; [exact HD|].
        split; [exact Hev'|]. split; [lia|]. right. split; [exact I1|exact P1].
      * congruence.
      * destruct Alt as [[Em (A' & OB1 & C1)]|[Em (e' & A' & OB1)]]; congruence.
Qed.
Print Assumptions partial_call.

(* ====================================================================== *)
(* Calls once the size is reached, and after the end marker                 *)
(* ====================================================================== *)
Lemma size_hit_call mode a : size_hit a = true -> abody mode a = Break (Done tt, a).
Proof.
  unfold size_hit, abody, ahead. destruct (ds_unpacked (x_ds a)) as [us|]; [|discriminate]. intros ->. reflexivity.
Qed.

Lemma pm_run upd a a' buf : PMc a -> ds_same (x_ds a') (x_ds a) -> x_rc a' = x_rc a -> x_win a' = x_win a ->
  bytes_ok buf -> nlen buf < BIG -> is_failed (fst (arun upd (with_in a' buf))).
Proof.
  intros [P1 P2 P3 P4 P5 P6] Hd Hr Hw Hb Hl.
  assert (HI : AInv (with_in a' buf)).
  { apply (AInv_gen (with_in a []) a' buf P5); try assumption. }
  pose proof (arun_inv upd _ HI) as Hinv.
  destruct HI as [_ HR HT _ _]. cbn [with_in x_rc x_ds] in HR, HT.
  destruct Hd as (D1 & D2 & D3 & D4).
  unfold dict_ok in P6. rewrite <- Hw in P6. destruct (x_win a') as [c|ac] eqn:Ew; cbn [win_dict] in P6; [|contradiction].
  assert (HN : forall r, fst (araw upd (with_in a' buf)) <> Done r).
  { intros r. unfold araw, pni. cbn [with_in x_ds x_rc x_win x_in].
    apply (after_marker_fails _ _ upd _ c); cbn [aw0 a_rc a_tabs a_win with_in x_ds x_rc x_win x_in y_state y_rep];
      try assumption; congruence. }
  unfold arun in *. destruct (araw upd (with_in a' buf)) as [[[st y]|e|q] x]; cbn [fst] in *.
  - exfalso. eapply HN. reflexivity.
  - exact I.
  - contradiction.
Qed.

Lemma ds_same_set_pib d p : ds_same (set_pib d p) d.
Proof. repeat split. Qed.

Lemma PMc_repib a (a' : ast) : PMc a -> ds_same (x_ds a') (x_ds a) -> ds_unpacked (x_ds a') = ds_unpacked (x_ds a) ->
  x_rc a' = x_rc a -> x_win a' = x_win a -> PMc a'.
Proof.
  intros [P1 P2 P3 P4 P5 P6] (D1 & D2 & D3 & D4) Du Hr Hw.
  constructor; try congruence.
  - unfold size_hit in *. rewrite Du, Hw. exact P4.
  - apply (AInv_gen (with_in a []) a' [] P5); try assumption; [repeat split; assumption|apply Forall_nil|reflexivity].
Qed.

Theorem after_mark_call a fut R : AfterMark a (x_in a ++ fut) R ->
  exists res a', abody Partial a = Break (res, a') /\
    ((res = Done tt /\ x_in a' = [] /\ AfterMark a' (x_in a' ++ fut) R) \/ (is_failed res /\ is_failed (fst R))).
Proof.
  intros (PM & Hp & Hb & Hl & Alt). pose proof PM as [P1 P2 P3 P4 P5 P6].
  apply bytes_ok_app in Hb. destruct Hb as [Hbp Hb]. apply bytes_ok_app in Hb. destruct Hb as [Hbi Hbf].
  rewrite !nlen_app in Hl.
  assert (HR : (20 <= nlen (pibof a) + nlen (x_in a)) -> is_failed (fst R)).
  { intros H. destruct Alt as [[E _]|[_ [e' E]]]; [|rewrite E; exact I].
    exfalso. apply (f_equal nlen) in E. rewrite !nlen_app in E. cbn in E. lia. }
  unfold abody.
  destruct (ahead Partial a) eqn:Eh.
  { unfold ahead in Eh. unfold size_hit in P4. destruct (ds_unpacked (x_ds a)) as [us|] eqn:Eu; [congruence|].
    apply andb_prop in Eh. destruct Eh as [E1 E2].
    assert (Ei : x_in a = []) by (destruct (x_in a); [reflexivity|discriminate]).
    exists (Done tt), a. split; [reflexivity|]. left. split; [reflexivity|]. split; [exact Ei|].
    unfold AfterMark. rewrite !nlen_app. split; [exact PM|]. split; [exact Hp|].
    split; [apply bytes_ok_app; split; [assumption|apply bytes_ok_app; split; assumption]|]. split; [lia|exact Alt]. }
  destruct (N.ltb_spec 0 (nlen (ds_pib (x_ds a)))) as [Hpos|Hzero].
  - fold (pibof a) in Hpos. unfold apib, arpib. fold (pibof a).
    destruct (N.ltb_spec 20 (nlen (pibof a))) as [|_]; [lia|]. cbv zeta. cbn [x_ds set_pib ds_pib].
    set (n := 20 - nlen (pibof a)). set (pib' := pibof a ++ nfirstn n (x_in a)). set (in' := nskipn n (x_in a)).
    set (a2 := mkAst (set_pib (x_ds a) pib') (x_rc a) (x_win a) in').
    assert (Hlp : nlen pib' = nlen (pibof a) + N.min n (nlen (x_in a))) by (unfold pib'; rewrite nlen_app, IoLemmas.nlen_nfirstn; reflexivity).
    assert (Hbp' : bytes_ok pib') by (unfold pib'; apply bytes_ok_app; split; [exact Hbp|apply bytes_ok_firstn; exact Hbi]).
    assert (Hsame : pib' ++ in' = pibof a ++ x_in a) by (unfold pib', in'; rewrite <- app_assoc, nfirstn_nskipn; reflexivity).
    assert (PM2 : PMc a2) by (apply (PMc_repib a a2 PM); try reflexivity; apply ds_same_set_pib).
    assert (HF : forall upd, is_failed (fst (arun upd (with_in a2 pib')))).
    { intros upd. apply (pm_run upd a a2 pib' PM); try reflexivity; [apply ds_same_set_pib|exact Hbp'|unfold BIG; lia]. }
    destruct (N.ltb_spec (nlen pib') 20) as [Hlt|Hge].
    + unfold atry. specialize (HF false). destruct (fst (arun false (with_in a2 pib'))) as [st|e|q]; try contradiction.
      exists (Done tt), a2. split; [reflexivity|]. left. split; [reflexivity|].
      assert (Ei : in' = []) by (unfold in'; apply nskipn_ge; lia).
      split; [exact Ei|]. unfold AfterMark. cbn [a2 x_in pibof x_ds set_pib ds_pib]. rewrite Ei. cbn [app].
      rewrite Ei, app_nil_r in Hsame.
      split; [exact PM2|]. split; [exact Hlt|]. rewrite Hsame, <- app_assoc.
      split; [apply bytes_ok_app; split; [assumption|apply bytes_ok_app; split; assumption]|].
      split; [rewrite !nlen_app; lia|].
      destruct Alt as [[E X]|[E X]]; [left|right]; (split; [exact E|]).
      * destruct X as [X1 (Hd & Hr & Hw)]. split; [exact X1|]. repeat split; assumption.
      * exact X.
    + specialize (HF true). destruct (arun true (with_in a2 pib')) as [[res|e|q] t]; cbn [fst] in HF; try contradiction.
      eexists _, _. split; [reflexivity|]. right. split; [exact I|]. apply HR. lia.
  - assert (Epb : pibof a = []) by (apply nlen_zero; unfold pibof; lia).
    rewrite Epb in *. cbn [app nlen length N.of_nat] in *. unfold adirect.
    assert (HF : forall upd, is_failed (fst (arun upd (with_in a (x_in a))))).
    { intros upd. apply (pm_run upd a a (x_in a) PM); try reflexivity; [repeat split|exact Hbi|lia]. }
    destruct (N.ltb_spec (nlen (x_in a)) 20) as [Hlt|Hge].
    + unfold atry. specialize (HF false). destruct (fst (arun false (with_in a (x_in a)))) as [st|e|q]; try contradiction.
      unfold arpib. fold (pibof a). rewrite Epb. cbn [nlen length N.of_nat app]. change (20 <? 0) with false. cbv iota zeta.
      change (20 - 0) with 20.
      eexists _, _. split; [reflexivity|]. left. split; [reflexivity|].
      assert (Ei : nskipn 20 (x_in a) = []) by (apply nskipn_ge; lia).
      assert (Ef : nfirstn 20 (x_in a) = x_in a) by (rewrite <- (nfirstn_nskipn 20 (x_in a)) at 2; rewrite Ei, app_nil_r; reflexivity).
      cbn [x_in]. split; [exact Ei|]. unfold AfterMark. cbn [pibof x_ds x_in set_pib ds_pib]. rewrite Ei, Ef. cbn [app].
      split; [apply (PMc_repib a _ PM); try reflexivity; apply ds_same_set_pib|].
      split; [exact Hlt|].
      split; [apply bytes_ok_app; split; assumption|].
      split; [rewrite nlen_app; lia|]. 
      destruct Alt as [[E X]|[E X]]; [left|right]; (split; [exact E|]).
      * destruct X as [X1 (Hd & Hr & Hw)]. split; [exact X1|]. repeat split; assumption.
      * exact X.
    + specialize (HF true). replace (with_in a (x_in a)) with a in HF by (destruct a; reflexivity).
      destruct (arun true a) as [[res|e|q] t]; cbn [fst] in HF; try contradiction.
      eexists _, _. split; [reflexivity|]. right. split; [exact I|]. apply HR. lia.
Qed.
Print Assumptions after_mark_call.

(* ====================================================================== *)
(* The final call in Finish mode                                            *)
(* ====================================================================== *)
Definition same_verdict (r1 r2 : outcome unit) : Prop :=
  match r1, r2 with Done _, Done _ => True | Failed _, Failed _ => True | _, _ => False end.

(* the check after the loop of process_mode in Finish mode *)
Definition afinal (R : outcome unit * ast) : outcome unit * ast :=
  match R with
  | (Done _, a') =>
      match ds_unpacked (x_ds a') with
      | Some len => if len =? win_len (x_win a') then (Done tt, a') else (Failed ELzma, a')
      | None => (Done tt, a')
      end
  | r => r
  end.

Lemma aprocess_finish F a R : loopN F (abody FinishMode) a = Break R -> aprocess FinishMode F a = afinal R.
Proof. intros H. unfold aprocess, afinal. rewrite H. destruct R as [[u|e|q] a']; reflexivity. Qed.

Lemma afinal_core r a A : core_eq a A -> fst (afinal (r, a)) = fst (afinal (r, A)) /\
  core_eq (snd (afinal (r, a))) (snd (afinal (r, A))).
Proof.
  intros Hc. pose proof Hc as (Hd & Hr & Hw). unfold afinal. destruct r as [u|e|q]; cbn [fst snd]; try (split; [reflexivity|exact Hc]).
  rewrite Hd, Hw. cbn [set_pib ds_unpacked]. destruct (ds_unpacked (x_ds a)) as [len|]; [|split; [reflexivity|exact Hc]].
  destruct (len =? win_len (x_win a)); split; try reflexivity; exact Hc.
Qed.

Definition FS (a A : ast) : Prop :=
  core_eq a A /\ nlen (pibof a) <= 20 /\
  ((x_in a = [] /\ x_in A = pibof a) \/ (pibof a = [] /\ x_in A = x_in a)).

Lemma in_empty_nlen (l : list N) : in_empty l = (nlen l =? 0).
Proof. destruct l; [reflexivity|]. rewrite nlen_cons. cbn [in_empty]. symmetry. apply N.eqb_neq. lia. Qed.

Lemma nfirstn_nil {A} n : nfirstn n (@nil A) = [].
Proof. unfold nfirstn. apply firstn_nil. Qed.
Lemma nskipn_nil {A} n : nskipn n (@nil A) = [].
Proof. unfold nskipn. apply skipn_nil. Qed.

Lemma with_in_self a : with_in a (x_in a) = a.
Proof. destruct a; reflexivity. Qed.

Lemma finish_body a A : FS a A ->
  match abody FinishMode a, obody A with
  | Next a', Next A' => FS a' A'
  | Break (r, a'), Break (r', A') => r = r' /\ (r = Done tt -> core_eq a' A')
  | _, _ => False
  end.
Proof.
  intros (Hc & Hp & Hcase). pose proof Hc as (Hd & Hr & Hw).
  assert (HpA : ds_pib (x_ds A) = []) by (rewrite Hd; reflexivity).
  rewrite (obody_unfold A HpA). unfold abody.
  assert (Hh : ahead FinishMode A = ahead FinishMode a).
  { unfold ahead. rewrite Hd, Hr, Hw. cbn [set_pib ds_unpacked ds_rep ds_pib]. fold (pibof a).
    destruct (ds_unpacked (x_ds a)); [reflexivity|]. destruct (_ =? 4294967295); [|reflexivity].
    destruct (r_code (x_rc a) =? 0); [|reflexivity].
    destruct Hcase as [[Hi HiA]|[Ep HiA]].
    - rewrite HiA, Hi, in_empty_nlen. cbn. rewrite andb_true_r. reflexivity.
    - rewrite HiA, Ep. reflexivity. }
  rewrite Hh. destruct (ahead FinishMode a); [split; [reflexivity|intros _; exact Hc]|].
  destruct (N.ltb_spec 0 (nlen (ds_pib (x_ds a)))) as [Hpos|Hzero].
  - fold (pibof a) in Hpos.
    destruct Hcase as [[Hi HiA]|[Ep HiA]]; [|rewrite Ep in Hpos; cbn in Hpos; lia].
    pose proof (core_eq_repr a A _ Hc HiA) as EA.
    unfold apib, arpib. fold (pibof a).
    destruct (N.ltb_spec 20 (nlen (pibof a))) as [|_]; [lia|]. cbv zeta. cbn [x_ds x_rc x_win x_in set_pib ds_pib].
    rewrite Hi, !nfirstn_nil, !nskipn_nil, !app_nil_r.
    change (with_in (mkAst (set_pib (x_ds a) (pibof a)) (x_rc a) (x_win a) []) (pibof a)) with (repib (with_in a (pibof a)) (pibof a)).
    rewrite EA. rewrite !arun_repib.
    pose proof (arun_suffix true (with_in a (pibof a))) as Hsuf. cbn [with_in x_in] in Hsuf.
    destruct (arun true (with_in a (pibof a))) as [[[|]|e|q] t]; cbn [fst snd repib x_ds x_rc x_win x_in].
    + split; [repeat split|]. cbn [pibof x_ds x_in set_pib ds_pib]. apply suffix_nlen in Hsuf. cbn [snd] in Hsuf.
      split; [lia|]. left. split; reflexivity.
    + split; [reflexivity|]. intros _. repeat split.
    + split; [reflexivity|discriminate].
    + split; [reflexivity|discriminate].
  - assert (Epb : pibof a = []) by (apply nlen_zero; unfold pibof; lia).
    assert (HiA : x_in A = x_in a).
    { destruct Hcase as [[Hi HiA]|[Ep HiA]]; [rewrite HiA, Hi, Epb; reflexivity|exact HiA]. }
    pose proof (core_eq_repr a A _ Hc HiA) as EA. rewrite with_in_self in EA.
    unfold adirect. rewrite EA, arun_repib.
    destruct (arun_ds true a) as (Dp & _ & _).
    destruct (arun true a) as [[[|]|e|q] t]; cbn [fst snd] in *.
    + split; [repeat split|]. unfold pibof in *. rewrite Dp, Epb. split; [cbn; lia|]. right. split; reflexivity.
    + split; [reflexivity|]. intros _. repeat split.
    + split; [reflexivity|discriminate].
    + split; [reflexivity|discriminate].
Qed.

Lemma finish_iter m a A : FS a A ->
  match iter_step m (abody FinishMode) a, iter_step m obody A with
  | Next a', Next A' => FS a' A'
  | Break r, Break r' => fst r = fst r' /\ (fst r = Done tt -> core_eq (snd r) (snd r'))
  | _, _ => False
  end.
Proof.
  apply (iter_step_sim (abody FinishMode) obody FS (fun r r' => fst r = fst r' /\ (fst r = Done tt -> core_eq (snd r) (snd r')))).
  intros s1 s2 H. pose proof (finish_body s1 s2 H) as B.
  destruct (abody FinishMode s1) as [a'|[r a']]; destruct (obody s2) as [A'|[r' A']]; cbn [fst snd]; exact B.
Qed.

Lemma size_hit_core a A : core_eq a A -> size_hit A = size_hit a.
Proof. intros (Hd & Hr & Hw). unfold size_hit. rewrite Hd, Hw. reflexivity. Qed.

Theorem finish_insync F n a R : InSync n a (x_in a) R -> (x_in a = [] \/ pibof a = []) -> (n <= Pos.to_nat F)%nat ->
  fst (aprocess FinishMode F a) = fst (afinal R) /\
  (fst (afinal R) = Done tt -> core_eq (snd (aprocess FinishMode F a)) (snd (afinal R))).
Proof.
  intros (A & n' & Hn & Hc & HI & HD & Hev & Hp & Alt) Hi HF.
  destruct Alt as [Hsz|[HiA Hp20]].
  - rewrite (aprocess_finish F a (Done tt, a)) by (apply loopN_break_now; apply size_hit_call; exact Hsz).
    assert (HszA : size_hit A = true) by (rewrite (size_hit_core a A Hc); exact Hsz).
    pose proof (oeval_break_det _ _ _ _ Hev (size_hit_call FinishMode A HszA)) as ->.
    destruct (afinal_core (Done tt) a A Hc) as [E1 E2]. split; [exact E1|intros _; exact E2].
  - assert (HFS : FS a A).
    { split; [exact Hc|]. split; [exact Hp|]. destruct Hi as [Hi|Hi].
      - left. split; [exact Hi|]. rewrite HiA, Hi, app_nil_r. reflexivity.
      - right. split; [exact Hi|]. rewrite HiA, Hi. reflexivity. }
    pose proof (finish_iter (Pos.to_nat F) a A HFS) as FI.
    rewrite (oeval_iter _ _ _ Hev (Pos.to_nat F) ltac:(lia)) in FI.
    destruct (iter_step (Pos.to_nat F) (abody FinishMode) a) as [a'|[r a']] eqn:EI; [contradiction|].
    rewrite (aprocess_finish F a (r, a')) by (rewrite loopN_iter; exact EI).
    destruct R as [r' A']. cbn [fst snd] in FI. destruct FI as [-> FC].
    destruct r' as [u|e|q]; cbn [afinal fst snd]; try (split; [reflexivity|discriminate]).
    destruct u. specialize (FC eq_refl).
    destruct (afinal_core (Done tt) a' A' FC) as [E1 E2]. cbn [afinal] in E1, E2. split; [exact E1|intros _; exact E2].
Qed.
Print Assumptions finish_insync.

Theorem finish_aftermark F a R : AfterMark a [] R -> x_in a = [] ->
  same_verdict (fst (aprocess FinishMode F a)) (fst (afinal R)) /\
  (fst (afinal R) = Done tt -> core_eq (snd (aprocess FinishMode F a)) (snd (afinal R))).
Proof.
  intros (PM & Hp & Hb & Hl & Alt) Hi. pose proof PM as [P1 P2 P3 P4 P5 P6].
  rewrite app_nil_r in *.
  assert (HB : exists res a', abody FinishMode a = Break (res, a') /\
     ((pibof a = [] /\ ds_unpacked (x_ds a) = None /\ res = Done tt /\ a' = a) \/
      ((pibof a <> [] \/ ds_unpacked (x_ds a) <> None) /\ is_failed res))).
  { unfold abody, ahead. unfold size_hit in P4. rewrite P2, P1, Hi. unfold MARKER. cbn [in_empty].
    change (4294967295 =? 4294967295) with true. change (0 =? 0) with true. cbv iota. fold (pibof a).
    destruct (ds_unpacked (x_ds a)) as [us|] eqn:Eu.
    - rewrite P4.
      destruct (N.ltb_spec 0 (nlen (pibof a))) as [Hpos|Hzero].
      + unfold apib, arpib. fold (pibof a). destruct (N.ltb_spec 20 (nlen (pibof a))) as [|_]; [lia|]. cbv zeta.
        cbn [x_ds x_rc x_win x_in set_pib ds_pib]. rewrite Hi, !nfirstn_nil, !nskipn_nil, !app_nil_r.
        pose proof (pm_run true a (mkAst (set_pib (x_ds a) (pibof a)) (x_rc a) (x_win a) []) (pibof a) PM
                      (ds_same_set_pib _ _) eq_refl eq_refl Hb Hl) as HF.
        destruct (arun true _) as [[res|e|q] t]; cbn [fst] in HF; try contradiction.
        eexists _, _. split; [reflexivity|]. right. split; [right; discriminate|exact I].
      + unfold adirect.
        pose proof (pm_run true a a [] PM ltac:(repeat split) eq_refl eq_refl (Forall_nil _) ltac:(reflexivity)) as HF.
        rewrite <- Hi, with_in_self in HF.
        destruct (arun true a) as [[res|e|q] t]; cbn [fst] in HF; try contradiction.
        eexists _, _. split; [reflexivity|]. right. split; [right; discriminate|exact I].
    - cbn [andb]. destruct (N.eqb_spec (nlen (pibof a)) 0) as [Ez|Enz].
      + eexists _, _. split; [reflexivity|]. left. repeat split. apply nlen_zero. exact Ez.
      + destruct (N.ltb_spec 0 (nlen (pibof a))) as [Hpos|Hzero]; [|lia].
        unfold apib, arpib. fold (pibof a). destruct (N.ltb_spec 20 (nlen (pibof a))) as [|_]; [lia|]. cbv zeta.
        cbn [x_ds x_rc x_win x_in set_pib ds_pib]. rewrite Hi, !nfirstn_nil, !nskipn_nil, !app_nil_r.
        pose proof (pm_run true a (mkAst (set_pib (x_ds a) (pibof a)) (x_rc a) (x_win a) []) (pibof a) PM
                      (ds_same_set_pib _ _) eq_refl eq_refl Hb Hl) as HF.
        destruct (arun true _) as [[res|e|q] t]; cbn [fst] in HF; try contradiction.
        eexists _, _. split; [reflexivity|]. right. split; [left; intros E; rewrite E in Enz; apply Enz; reflexivity|exact I]. }
  destruct HB as (res & a' & EB & Cases).
  rewrite (aprocess_finish F a (res, a')) by (apply loopN_break_now; exact EB).
  destruct Cases as [(Ep & Eu & -> & ->)|[Hne Hfail]].
  - cbn [afinal]. rewrite Eu. cbn [fst snd].
    destruct Alt as [(_ & ER & CR)|(Hne & _)]; [|rewrite Ep in Hne; contradiction].
    destruct R as [r A']. cbn [fst snd] in *. subst r. cbn [afinal].
    destruct CR as (Hd & Hr & Hw). rewrite Hd. cbn [set_pib ds_unpacked]. rewrite Eu. cbn [fst snd].
    split; [exact I|]. intros _. repeat split; assumption.
  - destruct res as [u|e|q]; try contradiction. cbn [afinal fst snd].
    destruct Alt as [(Ee & ER & CR)|(_ & e' & ER)].
    + (* the marker was the very end of the input, but a size is in force that was not reached *)
      destruct Hne as [Hne|Hne]; [rewrite Ee in Hne; contradiction|].
      destruct R as [r A']. cbn [fst snd] in *. subst r. cbn [afinal].
      destruct CR as (Hd & Hr & Hw). rewrite Hd, Hw. cbn [set_pib ds_unpacked]. unfold size_hit in P4.
      destruct (ds_unpacked (x_ds a)) as [us|]; [|contradiction].
      destruct (N.eqb_spec us (win_len (x_win a))) as [E|E].
      * exfalso. subst us. rewrite N.leb_refl in P4. discriminate.
      * cbn [fst snd]. split; [exact I|discriminate].
    + destruct R as [r A']. cbn [fst] in ER. subst r. cbn [afinal fst snd]. split; [exact I|discriminate].
Qed.
Print Assumptions finish_aftermark.
