(* Property C07, Part 7: the XZ container decoder (decode/xz.rs) never panics, for arbitrary input
   bytes, any reader fragmentation / faults, any sink behaviour, arbitrary CRC functions.
   The parser guards POverflow 50 / 51 and PAssert 2 / 3 are unreachable. *)
From LZ Require Import Base.Prelude Base.Prog Model.Io Model.Tables Model.LzBuffer Model.RangeDec
  Model.Lzma Model.Lzma2 Model.Crc Model.Xz.
From LZ Require Import Proofs.ProgLemmas Proofs.MapLemmas Proofs.NoPanic Proofs.NoPanicWorld
                       Proofs.IoInv Proofs.SrcMono Proofs.ResetFresh Proofs.Lzma2Inv Proofs.XzSound
                       Proofs.NoPanicLoops Proofs.NoPanicLzma2.
From Coq Require Import ZifyBool ZifyNat ZifyN.
Local Open Scope prog_scope.

Ltac Zify.zify_post_hook ::= Z.div_mod_to_equations.

(* the only panics that can come out are the model's fuel artefacts *)
Definition fuelp (p : panic_site) : Prop := exists n, p = PFuel n.

(* ====================================================================== *)
(* Generic facts about the I/O handler                                      *)
(* ====================================================================== *)
Lemma io_h_SrcBytes X (o : ioE X) w : SrcBytes (i_src w) ->
  match io_h X o w with
  | HOk _ w' => SrcBytes (i_src w') | HErr _ w' => SrcBytes (i_src w') | HPanic _ w' => SrcBytes (i_src w')
  end.
Proof.
  intros Hw. destruct o; cbn [io_h].
  - pose proof (NoPanic.src_fill_spec (i_src w) Hw) as H.
    destruct (src_fill (i_src w)) as [v s|e s|q s]; cbn [i_src]; tauto.
  - cbn [i_src]. unfold SrcBytes, src_consume. cbn [s_rest]. unfold nskipn. apply Forall_skipn_lt. exact Hw.
  - destruct (snk_write (i_snk w) bs); exact Hw.
  - destruct (snk_flush (i_snk w)); exact Hw.
  - exact Hw.
  - exact Hw.
Qed.

Lemma run_io_SrcBytes {A} (p : iop A) w : SrcBytes (i_src w) -> SrcBytes (i_src (snd (run_io p w))).
Proof. apply (interp_inv io_h (fun w => SrcBytes (i_src w)) io_h_SrcBytes). Qed.

Lemma io_safe_of_nopanic {A} (p : iop A) :
  (forall w, not_panicked (fst (run_io p w))) -> io_safe (fun _ => True) p.
Proof.
  intros H w Hw. specialize (H w). pose proof (run_io_SrcBytes p w Hw) as Hs.
  destruct (run_io p w) as [[a|e|q] w']; cbn [fst snd not_panicked] in *; tauto.
Qed.

Lemma write_all_io_safe bs : io_safe (fun _ => True) (write_all bs).
Proof. apply io_safe_of_nopanic. apply write_all_nopanic. Qed.

Lemma getpos_io_safe : io_safe (fun _ => True) (icall GetPos).
Proof. apply io_safe_of_nopanic. intros w. unfold run_io. rewrite interp_call. exact I. Qed.

(* the source position never decreases *)
Lemma src_fill_pos_eq s : s_pos (hstate (src_fill s)) = s_pos s.
Proof.
  unfold src_fill.
  repeat match goal with
         | |- context [match ?x with _ => _ end] => destruct x; cbn [hstate s_pos]
         end; reflexivity.
Qed.

Lemma io_h_pos X (o : ioE X) w : s_pos (i_src w) <= s_pos (i_src (hstate (io_h X o w))).
Proof.
  destruct o; cbn [io_h].
  - pose proof (src_fill_pos_eq (i_src w)) as H.
    destruct (src_fill (i_src w)); cbn [hstate i_src] in *; lia.
  - cbn [hstate i_src src_consume s_pos]. lia.
  - destruct (snk_write (i_snk w) bs); cbn [hstate i_src]; lia.
  - destruct (snk_flush (i_snk w)); cbn [hstate i_src]; lia.
  - cbn [hstate]. lia.
  - cbn [hstate]. lia.
Qed.

Lemma run_io_pos_mono {A} (p : iop A) w : s_pos (i_src w) <= s_pos (i_src (snd (run_io p w))).
Proof.
  apply (interp_pres io_h (fun a b => s_pos (i_src a) <= s_pos (i_src b))).
  - intros s. lia.
  - intros a b c. lia.
  - apply io_h_pos.
Qed.

(* ====================================================================== *)
(* The monad of decode/xz.rs                                                *)
(* ====================================================================== *)
Definition m_safe {A} (Q : A -> Prop) (m : M io A) : Prop :=
  forall w, SrcBytes (i_src w) ->
    match m w with
    | (Done a, w') => Q a /\ SrcBytes (i_src w')
    | (Failed _, w') => SrcBytes (i_src w')
    | (Panicked p, w') => fuelp p /\ SrcBytes (i_src w')
    end.

Lemma m_safe_ret {A} (Q : A -> Prop) a : Q a -> m_safe Q (mret a).
Proof. intros H w Hw. cbn. auto. Qed.
Lemma m_safe_fail {A} (Q : A -> Prop) e : m_safe Q (mfail e).
Proof. intros w Hw. exact Hw. Qed.
Lemma m_safe_bind {A B} (Q : A -> Prop) (R : B -> Prop) (m : M io A) (f : A -> M io B) :
  m_safe Q m -> (forall a, Q a -> m_safe R (f a)) -> m_safe R (mbind m f).
Proof.
  intros Hm Hf w Hw. unfold mbind. specialize (Hm w Hw).
  destruct (m w) as [[a|e|q] w1]; [|exact Hm|exact Hm]. destruct Hm as [Ha Hw1]. exact (Hf a Ha w1 Hw1).
Qed.
Lemma m_safe_io {A} (Q : A -> Prop) (p : iop A) : io_safe Q p -> m_safe Q (io_run p).
Proof.
  intros Hp w Hw. specialize (Hp w Hw). unfold io_run.
  destruct (run_io p w) as [[a|e|q] w1]; [exact Hp|exact Hp|contradiction].
Qed.
Lemma m_safe_weaken {A} (Q Q' : A -> Prop) m : m_safe Q m -> (forall a, Q a -> Q' a) -> m_safe Q' m.
Proof.
  intros Hm HQ w Hw. specialize (Hm w Hw). destruct (m w) as [[a|e|q] w1]; auto. destruct Hm; auto.
Qed.

(* ====================================================================== *)
(* The readers                                                              *)
(* ====================================================================== *)
Lemma read_exact_len_safe n : io_safe (fun l => nlen l = n) (read_exact n).
Proof. eapply io_safe_weaken; [apply read_exact_safe|]. intros l [_ H]. exact H. Qed.

Lemma read_tag_safe tag : io_safe (fun _ => True) (read_tag tag).
Proof.
  unfold read_tag. eapply io_safe_bind; [apply read_exact_safe|]. intros bs _. apply io_safe_ret. exact I.
Qed.

Lemma flags_parse_no_panic b0 b1 : not_panicked (flags_parse b0 b1).
Proof. unfold flags_parse. destruct (negb (b0 =? 0)); [exact I|]. destruct (check_of_id b1); exact I. Qed.

Lemma len2 {A} (l : list A) : nlen l = 2 -> exists a b, l = [a; b].
Proof.
  destruct l as [|a [|b [|c l]]]; unfold nlen; cbn [length]; intros H; try lia. eauto.
Qed.

Lemma read_upto_loop_safe fuel : forall n acc, (N.to_nat n <= fuel)%nat ->
  io_safe (fun _ => True) (read_upto_loop fuel n acc).
Proof.
  induction fuel as [|fuel IH]; intros n acc Hf.
  - assert (n = 0) by lia. subst n. cbn [read_upto_loop]. change (0 =? 0) with true. cbv iota.
    apply io_safe_ret. exact I.
  - cbn [read_upto_loop]. destruct (N.eqb_spec n 0) as [E|E]; [apply io_safe_ret; exact I|].
    eapply io_safe_bind; [apply read_buf_safe|]. intros got [Hg Hl]. cbv beta.
    destruct got as [|g got']; [apply io_safe_ret; exact I|].
    apply IH. unfold nlen in *. cbn [length] in *. lia.
Qed.

Lemma read_upto_safe n : io_safe (fun _ => True) (read_upto n).
Proof. unfold read_upto. apply read_upto_loop_safe. lia. Qed.

Lemma read_zero_padding_safe n : forall acc, io_safe (fun _ => True) (read_zero_padding n acc).
Proof.
  induction n as [|n IH]; intros acc; cbn [read_zero_padding]; [apply io_safe_ret; exact I|].
  eapply io_safe_bind; [apply read_u8_safe|]. intros b _. cbv beta.
  destruct (negb (b =? 0)); [apply io_safe_fail|apply IH].
Qed.

(* pure parsers of the block header never panic *)
Lemma lget_multibyte_loop_no_panic n : forall i res l, not_panicked (lget_multibyte_loop n i res l).
Proof.
  induction n as [|n IH]; intros i res l; cbn [lget_multibyte_loop]; [exact I|].
  destruct l as [|b t]; [exact I|]. cbv zeta. destruct (N.land b 128 =? 0); [exact I|apply IH].
Qed.

Lemma read_filters_no_panic n hs : forall l acc, not_panicked (read_filters n hs l acc).
Proof.
  induction n as [|n IH]; intros l acc; cbn [read_filters]; [exact I|].
  pose proof (lget_multibyte_loop_no_panic 9 0 0 l) as H1. unfold lget_multibyte.
  destruct (lget_multibyte_loop 9 0 0 l) as [[id l1]|e|q]; [|exact I|contradiction].
  destruct (negb (id =? 33)); [exact I|].
  pose proof (lget_multibyte_loop_no_panic 9 0 0 l1) as H2.
  destruct (lget_multibyte_loop 9 0 0 l1) as [[sz l2]|e|q]; [|exact I|contradiction].
  destruct (hs <? sz); [exact I|]. destruct (nlen l2 <? sz); [exact I|apply IH].
Qed.

Theorem read_block_header_no_panic hs l : not_panicked (read_block_header hs l).
Proof.
  unfold read_block_header. destruct l as [|flags l0]; [exact I|]. cbv zeta.
  destruct (negb (N.land flags 60 =? 0)); [exact I|].
  assert (Hopt : forall (b : bool) l,
            not_panicked (if b then match lget_multibyte l with
                                    | Done (v, l') => Done (Some v, l') | Failed e => Failed e | Panicked p => Panicked p
                                    end
                          else Done (None, l))).
  { intros b l. destruct b; [|exact I]. pose proof (lget_multibyte_loop_no_panic 9 0 0 l) as H.
    unfold lget_multibyte. destruct (lget_multibyte_loop 9 0 0 l) as [[v l']|e|q]; [exact I|exact I|contradiction]. }
  pose proof (Hopt (negb (N.land flags 64 =? 0)) l0) as H1.
  destruct (if negb (N.land flags 64 =? 0) then _ else _) as [[packed l1]|e|q]; [|exact I|contradiction].
  pose proof (Hopt (negb (N.land flags 128 =? 0)) l1) as H2.
  destruct (if negb (N.land flags 128 =? 0) then _ else _) as [[unpacked l2]|e|q]; [|exact I|contradiction].
  pose proof (read_filters_no_panic (N.to_nat (N.land flags 3 + 1)) hs l2 []) as H3.
  destruct (read_filters _ hs l2 []) as [[fs l3]|e|q]; [|exact I|contradiction].
  destruct (forallb (fun b => b =? 0) l3); exact I.
Qed.
Print Assumptions read_block_header_no_panic.

(* ====================================================================== *)
(* The filters: LZMA2 from the source, then LZMA2 over previous outputs     *)
(* ====================================================================== *)
Theorem decode_filter_safe fuel f s : SrcBytes s ->
  match decode_filter fuel f s with
  | (Done (_, out), s') => Bytes out /\ SrcBytes s'
  | (Failed _, s') => SrcBytes s'
  | (Panicked p, s') => fuelp p /\ SrcBytes s'
  end.
Proof.
  intros Hs. unfold decode_filter. destruct (negb (nlen (f_props f) =? 1)); [exact Hs|]. cbv zeta.
  pose proof (lzma2_decompress_top_no_panic IsByte IsByte_ok fuel (mkIo s vec_sink) Hs (vec_sink_SnkBytes IsByte)) as H.
  destruct (lzma2_decompress_top fuel (mkIo s vec_sink)) as [[u|e|q] w].
  - destruct H as [H1 H2]. split; [|exact H1]. exact (snk_bytes_Bytes IsByte _ H2).
  - tauto.
  - destruct H as [[->| ->] [H1 H2]]; (split; [eexists; reflexivity|exact H1]).
Qed.

Theorem later_filters_safe fuel fs : forall buf, Bytes buf ->
  match later_filters fuel fs buf with
  | Done out => Bytes out
  | Failed _ => True
  | Panicked p => fuelp p
  end.
Proof.
  induction fs as [|f fs IH]; intros buf Hb; cbn [later_filters]; [exact Hb|].
  pose proof (decode_filter_safe fuel f (cursor_of buf) Hb) as H.
  destruct (decode_filter fuel f (cursor_of buf)) as [[[n out]|e|q] s']; [|exact I|tauto].
  apply IH. tauto.
Qed.

Section WithCrc.
Variable crc32 : list N -> N.
Variable crc64 : list N -> N.

Lemma get_multibyte_loop_safe n : forall i res acc, io_safe (fun _ => True) (get_multibyte_loop n i res acc).
Proof.
  induction n as [|n IH]; intros i res acc; cbn [get_multibyte_loop]; [apply io_safe_fail|].
  eapply io_safe_bind; [apply read_u8_safe|]. intros b _. cbv beta zeta.
  destruct (N.land b 128 =? 0); [apply io_safe_ret; exact I|apply IH].
Qed.
Lemma get_multibyte_safe : io_safe (fun _ => True) get_multibyte.
Proof. apply get_multibyte_loop_safe. Qed.

Lemma check_records_safe rs : forall acc, io_safe (fun _ => True) (check_records rs acc).
Proof.
  induction rs as [|r rs IH]; intros acc; cbn [check_records]; [apply io_safe_ret; exact I|].
  eapply io_safe_bind; [apply get_multibyte_safe|]. intros [u b1] _.
  destruct (negb (u =? rc_unpadded r)); [apply io_safe_fail|].
  eapply io_safe_bind; [apply get_multibyte_safe|]. intros [v b2] _.
  destruct (negb (v =? rc_unpacked r)); [apply io_safe_fail|apply IH].
Qed.

Theorem check_index_safe start records : io_safe (fun _ => True) (check_index crc32 start records).
Proof.
  unfold check_index.
  eapply io_safe_bind; [apply get_multibyte_safe|]. intros [num b0] _.
  destruct (negb (num =? nlen records)); [apply io_safe_fail|].
  eapply io_safe_bind; [apply check_records_safe|]. intros bs _. cbv beta.
  eapply io_safe_bind; [apply getpos_io_safe|]. intros pos _. cbv beta zeta.
  eapply io_safe_bind; [apply read_zero_padding_safe|]. intros pad _. cbv beta.
  eapply io_safe_bind; [apply read_u32_le_safe|]. intros crc _. cbv beta.
  destruct (negb (crc =? crc32 (0 :: bs ++ pad))); [apply io_safe_fail|apply io_safe_ret; exact I].
Qed.

(* StreamHeader::parse: PAssert 2 is unreachable *)
Theorem header_parse_safe : io_safe (fun _ => True) (header_parse crc32).
Proof.
  unfold header_parse.
  eapply io_safe_bind; [apply read_tag_safe|]. intros ok _. cbv beta.
  destruct (negb ok); [apply io_safe_fail|].
  eapply io_safe_bind; [apply read_exact_len_safe|]. intros fl Hl. cbv beta.
  eapply io_safe_bind; [apply read_u32_le_safe|]. intros crc _. cbv beta.
  destruct (negb (crc =? crc32 fl)); [apply io_safe_fail|].
  destruct (len2 fl Hl) as (b0 & b1 & ->).
  pose proof (flags_parse_no_panic b0 b1) as H.
  destruct (flags_parse b0 b1) as [c|e|q]; [apply io_safe_ret; exact I|apply io_safe_fail|contradiction].
Qed.

(* the stream footer: PAssert 3 is unreachable *)
Theorem xz_footer_safe check index_size : io_safe (fun _ => True) (xz_footer crc32 check index_size).
Proof.
  unfold xz_footer.
  eapply io_safe_bind; [apply read_u32_le_safe|]. intros crc _. cbv beta.
  eapply io_safe_bind; [apply read_exact_len_safe|]. intros bsz _. cbv beta zeta.
  destruct (negb (index_size =? N.shiftl (le_num bsz + 1) 2)); [apply io_safe_fail|].
  eapply io_safe_bind; [apply read_exact_len_safe|]. intros fl Hl. cbv beta.
  destruct (len2 fl Hl) as (b0 & b1 & ->).
  pose proof (flags_parse_no_panic b0 b1) as H.
  destruct (flags_parse b0 b1) as [c|e|q]; [|apply io_safe_fail|contradiction].
  destruct (negb (check_eqb check c)); [apply io_safe_fail|].
  destruct (negb (crc =? crc32 (bsz ++ [b0; b1]))); [apply io_safe_fail|].
  eapply io_safe_bind; [apply read_tag_safe|]. intros ok _. cbv beta.
  destruct (negb ok); [apply io_safe_fail|].
  eapply io_safe_bind; [apply is_eof_safe|]. intros e _. cbv beta.
  destruct e; [apply io_safe_ret; exact I|apply io_safe_fail].
Qed.

Lemma validate_block_check_safe buf m : io_safe (fun _ => True) (validate_block_check crc32 crc64 buf m).
Proof.
  destruct m; cbn [validate_block_check].
  - apply io_safe_ret. exact I.
  - eapply io_safe_bind; [apply read_u32_le_safe|]. intros c _. cbv beta.
    destruct (c =? crc32 buf); [apply io_safe_ret; exact I|apply io_safe_fail].
  - eapply io_safe_bind; [apply read_u64_le_safe|]. intros c _. cbv beta.
    destruct (c =? crc64 buf); [apply io_safe_ret; exact I|apply io_safe_fail].
  - apply io_safe_fail.
Qed.

(* ---------- read_block ---------- *)
Local Open Scope m_scope.

(* the part of read_block after the filters: padding, check, write, record.  POverflow 51. *)
Definition block_tail (start : N) (check : check_method) (tmpbuf : list N) : M io record :=
  pos <- io_run (icall GetPos) ;;
  let padding_size := padding_of (pos - start) in
  io_run (read_zero_padding (N.to_nat padding_size) []) ;;;
  io_run (validate_block_check crc32 crc64 tmpbuf check) ;;;
  io_run (write_all tmpbuf) ;;;
  pos2 <- io_run (icall GetPos) ;;
  if pos2 - start <? padding_size then mpanic (POverflow 51) else
  mret (mkRecord (pos2 - start - padding_size) (nlen tmpbuf)).

Lemma padding_of_0 : padding_of 0 = 0.
Proof. reflexivity. Qed.

Theorem block_tail_safe start check tmpbuf : m_safe (fun _ => True) (block_tail start check tmpbuf).
Proof.
  intros w Hw. unfold block_tail, mbind, io_run.
  rewrite getpos_spec. set (pad := padding_of (s_pos (i_src w) - start)).
  pose proof (read_zero_padding_safe (N.to_nat pad) [] w Hw) as H1.
  destruct (run_io (read_zero_padding (N.to_nat pad) []) w) as [[bs|e|q] w1] eqn:E1; [|exact H1|contradiction].
  destruct H1 as [_ H1]. apply read_zero_padding_inv in E1. destruct E1 as [_ E1]. apply reads_pos in E1.
  rewrite nlen_repeat, N2Nat.id in E1.
  pose proof (validate_block_check_safe tmpbuf check w1 H1) as H2.
  pose proof (run_io_pos_mono (validate_block_check crc32 crc64 tmpbuf check) w1) as P2.
  destruct (run_io (validate_block_check crc32 crc64 tmpbuf check) w1) as [[u|e|q] w2]; [|exact H2|contradiction].
  destruct H2 as [_ H2]. cbn [snd] in P2.
  pose proof (write_all_io_safe tmpbuf w2 H2) as H3.
  pose proof (run_io_pos_mono (write_all tmpbuf) w2) as P3.
  destruct (run_io (write_all tmpbuf) w2) as [[u'|e|q] w3]; [|exact H3|contradiction].
  destruct H3 as [_ H3]. cbn [snd] in P3.
  rewrite getpos_spec.
  destruct (N.ltb_spec (s_pos (i_src w3) - start) pad) as [Hx|_]; [|unfold mret; auto].
  exfalso. destruct (N.le_gt_cases start (s_pos (i_src w))) as [Hle|Hgt].
  - lia.
  - assert (Z : s_pos (i_src w) - start = 0) by lia. unfold pad in Hx. rewrite Z, padding_of_0 in Hx. lia.
Qed.

Theorem read_block_safe fuel start check hs : hs <> 0 ->
  m_safe (fun _ => True) (read_block crc32 crc64 fuel start check hs).
Proof.
  intros Hhs. unfold read_block. apply N.eqb_neq in Hhs. rewrite Hhs. cbv zeta.
  eapply m_safe_bind; [apply m_safe_io; apply read_upto_safe|]. intros hdr _.
  pose proof (read_block_header_no_panic (N.shiftl hs 2 - 1) hdr) as Hbh.
  destruct (read_block_header (N.shiftl hs 2 - 1) hdr) as [bh|e|q]; [|apply m_safe_fail|contradiction].
  eapply m_safe_bind; [apply m_safe_io; apply read_u32_le_safe|]. intros crc _.
  destruct (negb (crc =? crc32 (hs :: hdr))); [apply m_safe_fail|].
  eapply m_safe_bind with (Q := fun _ => True).
  - destruct (bh_filters bh) as [|f0 fs]; [apply m_safe_ret; exact I|].
    intros w Hw. pose proof (decode_filter_safe fuel f0 (i_src w) Hw) as Hd.
    destruct (decode_filter fuel f0 (i_src w)) as [[[packed out]|e|q] s]; cbn [i_src]; [|exact Hd|exact Hd].
    destruct Hd as [Ho Hs].
    destruct (match bh_packed bh with Some e => negb (packed =? e) | None => false end); [exact Hs|].
    pose proof (later_filters_safe fuel fs out Ho) as Hl.
    destruct (later_filters fuel fs out) as [b|e|q]; cbn [i_src]; auto.
  - intros tmpbuf _. cbv zeta.
    destruct (match bh_unpacked bh with Some e => negb (nlen tmpbuf =? e) | None => false end); [apply m_safe_fail|].
    apply block_tail_safe.
Qed.

(* ---------- the block loop and the whole decoder ---------- *)
Definition xz_res_ok (r : outcome N * io) : Prop :=
  match r with
  | (Panicked p, w') => fuelp p /\ SrcBytes (i_src w')
  | (_, w') => SrcBytes (i_src w')
  end.

Theorem xz_body_safe fuel check st : SrcBytes (i_src (snd st)) ->
  match xz_body crc32 crc64 fuel check st with
  | Next st' => SrcBytes (i_src (snd st'))
  | Break r => xz_res_ok r
  end.
Proof.
  destruct st as [records w]. cbn [snd]. intros Hw. unfold xz_body.
  pose proof (read_u8_safe w Hw) as H1.
  destruct (run_io read_u8 w) as [[hs|e|q] w1]; [|exact H1|contradiction]. destruct H1 as [_ H1].
  destruct (N.eqb_spec hs 0) as [E|E].
  - pose proof (check_index_safe (s_pos (i_src w)) (lrev records) w1 H1) as H2.
    destruct (run_io _ w1) as [[u|e|q] w2]; cbn [xz_res_ok]; [tauto|exact H2|contradiction].
  - pose proof (read_block_safe fuel (s_pos (i_src w)) check hs E w1 H1) as H2.
    destruct (read_block crc32 crc64 fuel (s_pos (i_src w)) check hs w1) as [[r|e|q] w2]; cbn [xz_res_ok snd]; tauto.
Qed.

Theorem xz_decompress_no_panic fuel : m_safe (fun _ => True) (xz_decompress crc32 crc64 fuel).
Proof.
  unfold xz_decompress.
  eapply m_safe_bind; [apply m_safe_io; apply header_parse_safe|]. intros check _ w Hw.
  pose proof (loopN_inv (xz_body crc32 crc64 fuel check) (fun st => SrcBytes (i_src (snd st))) xz_res_ok) as L.
  assert (H1 : forall s s', SrcBytes (i_src (snd s)) -> xz_body crc32 crc64 fuel check s = Next s' -> SrcBytes (i_src (snd s'))).
  { intros s s' Hs E. pose proof (xz_body_safe fuel check s Hs) as B. rewrite E in B. exact B. }
  assert (H2 : forall s r, SrcBytes (i_src (snd s)) -> xz_body crc32 crc64 fuel check s = Break r -> xz_res_ok r).
  { intros s r Hs E. pose proof (xz_body_safe fuel check s Hs) as B. rewrite E in B. exact B. }
  specialize (L H1 H2 fuel ([], w) Hw).
  destruct (loopN fuel (xz_body crc32 crc64 fuel check) ([], w)) as [[rs w']|[[isz|e|q] w']]; cbn [snd xz_res_ok] in L.
  - split; [eexists; reflexivity|exact L].
  - pose proof (xz_footer_safe check isz w' L) as H.
    destruct (run_io (xz_footer crc32 check isz) w') as [[u|e|q] w2]; [exact H|exact H|contradiction].
  - exact L.
  - exact L.
Qed.

Corollary xz_decompress_never_panics fuel w : SrcBytes (i_src w) ->
  forall p w', xz_decompress crc32 crc64 fuel w = (Panicked p, w') -> exists n, p = PFuel n.
Proof.
  intros Hw p w' E. pose proof (xz_decompress_no_panic fuel w Hw) as H. rewrite E in H. exact (proj1 H).
Qed.

End WithCrc.
Print Assumptions header_parse_safe.
Print Assumptions xz_footer_safe.
Print Assumptions block_tail_safe.
Print Assumptions read_block_safe.
Print Assumptions check_index_safe.
Print Assumptions xz_decompress_no_panic.
Print Assumptions xz_decompress_never_panics.

(* the instance that the extracted decoder runs *)
Corollary xz_decompress_exec_never_panics fuel w : SrcBytes (i_src w) ->
  forall p w', xz_decompress crc32_exec crc64_exec fuel w = (Panicked p, w') -> exists n, p = PFuel n.
Proof. apply xz_decompress_never_panics. Qed.
Print Assumptions xz_decompress_exec_never_panics.
