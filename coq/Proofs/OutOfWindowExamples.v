(* C09: the hypotheses of the out-of-window theorems are satisfiable.  Concrete streams whose last
   symbol refers outside the window, checked against the model by vm_compute on one fragmentation
   and rejected for EVERY fragmentation by the theorems. *)
From LZ Require Import Base.Prelude Base.Prog Model.Io Model.Tables Model.LzBuffer Model.RangeDec Model.Lzma Format.RefEnc
  Proofs.IoLemmas Proofs.SymDecode Proofs.LzmaExact Proofs.OutOfWindowSym Proofs.OutOfWindow.

Definition ow_fp : fprops := mkFProps 3 0 2.
Definition ow_pr : props := mkProps 3 0 2.
Lemma ow_pm : props_match ow_pr ow_fp.
Proof. unfold props_match, ow_pr, ow_fp. cbn. repeat split; lia. Qed.

(* 19 output bytes through a 4-byte window *)
Definition ow_good : list sym :=
  [Lit 1; Lit 2; Lit 3; Match 3 5; Lit 7; Rep 0 4; ShortRep; Match 2 2; Rep 1 3].
Definition ow_out : list N := [1; 2; 3; 1; 2; 3; 1; 2; 7; 1; 2; 7; 1; 2; 1; 2; 2; 1; 2].
Definition ow_hg : hist :=
  match sem_from (Some 4) hist0 ow_good with Some (h, _) => h | None => hist0 end.

Example ow_sem : sem_from (Some 4) hist0 ow_good = Some (ow_hg, false) /\ lrev (h_bytes ow_hg) = ow_out.
Proof. split; vm_compute; reflexivity. Qed.

(* window wrap: distance 5 is <= the 19 bytes produced but > the 4-byte dictionary; the byte at
   that distance has been overwritten in the circular buffer *)
Example ow_bad_wrap : bad_copy 4 ow_hg (Match 5 2) /\ sem (Some 4) (ow_good ++ [Match 5 2]) = None.
Proof. split; [|vm_compute; reflexivity]. cbn [bad_copy]. split; [reflexivity|]. split; vm_compute; [discriminate|reflexivity]. Qed.

(* the model, run by computation on one fragmentation: Err, and the sink holds the 16 bytes of
   the four completed laps *)
Example ow_raw_computed :
  match enc_payload_gen true ow_fp (Some 4) (ow_good ++ [Match 5 2]) 0,
        lzma_decoder_new (mkParams ow_pr 4 None) None with
  | Some (payload, out), Done dec =>
      match lzma_decoder_decompress 100 dec (mkIo (src_of payload (fun k => 1 + k mod 3) None) vec_sink) with
      | (r, (_, w')) => r = Failed ELzma /\ out = ow_out /\ snk_bytes (i_snk w') = firstn 16 ow_out
      end
  | _, _ => False
  end.
Proof. vm_compute. repeat split; reflexivity. Qed.

(* the same stream, every fragmentation, trailing bytes or not *)
Example ow_raw_wrap : exists payload dec,
  enc_payload_gen true ow_fp (Some 4) (ow_good ++ [Match 5 2]) 0 = Some (payload, ow_out) /\
  lzma_decoder_new (mkParams ow_pr 4 None) None = Done dec /\
  forall frag trail, exists dec' w',
    lzma_decoder_decompress 100 dec (mkIo (src_of (payload ++ trail) frag None) vec_sink) = (Failed ELzma, (dec', w')) /\
    exists t, ow_out = snk_bytes (i_snk w') ++ t.
Proof.
  eexists _, _. split; [vm_compute; reflexivity|]. split; [vm_compute; reflexivity|].
  intros frag trail.
  match goal with |- exists _ _, lzma_decoder_decompress _ ?dec (mkIo (src_of (?pl ++ _) _ _) _) = _ /\ _ =>
    destruct (raw_lzma_out_of_window_rejected ow_fp ow_pr 4 None None ow_good (Match 5 2) ow_hg false trail pl ow_out dec
                (src_of (pl ++ trail) frag None) vec_sink 100 ow_pm)
      as (dec' & w' & H1 & _ & H3)
  end.
  - lia.
  - vm_compute. discriminate.
  - unfold no_marker, ow_good. repeat constructor; discriminate.
  - apply ow_sem.
  - apply ow_bad_wrap.
  - vm_compute. reflexivity.
  - exact I.
  - vm_compute. reflexivity.
  - apply (src_of_FaultFree _ frag).
  - reflexivity.
  - reflexivity.
  - reflexivity.
  - vm_compute. lia.
  - exists dec', w'. split; [exact H1|exact H3].
Qed.

(* a .lzma file (dictionary field 0, i.e. 4096): three literals, then a match four bytes back;
   a short repeat as the very first symbol; a repeat of distance slot 2 (rep2 = 0, distance 1)
   on an empty window *)
Definition ow_cases : list (list sym * sym) :=
  [ ([Lit 65; Lit 66; Lit 67], Match 4 3); ([], ShortRep); ([], Rep 2 10); ([Lit 1; Match 1 200], Match 4294967295 273) ].

Example ow_lzma_computed :
  forallb (fun c : list sym * sym =>
    match enc_lzma_gen true ow_fp 0 (2 ^ 64 - 1) (fst c ++ [snd c]) 0 with
    | Some (bytes, out) =>
        match lzma_decompress 100 (mkOptions ReadFromHeader None false)
                (mkIo (src_of (bytes ++ [0; 0]) (fun k => 1 + k mod 2) None) vec_sink) with
        | (Failed ELzma, w') => match snk_bytes (i_snk w') with [] => true | _ => false end
        | _ => false
        end
    | None => false
    end) ow_cases = true.
Proof. vm_compute. reflexivity. Qed.

Example ow_lzma_file : exists bytes,
  enc_lzma_gen true ow_fp 0 (2 ^ 64 - 1) ([Lit 65; Lit 66; Lit 67] ++ [Match 4 3]) 0 = Some (bytes, [65; 66; 67]) /\
  forall frag trail, exists w',
    lzma_decompress 100 (mkOptions ReadFromHeader None false) (mkIo (src_of (bytes ++ trail) frag None) vec_sink)
    = (Failed ELzma, w') /\
    exists t, [65; 66; 67] = snk_bytes (i_snk w') ++ t.
Proof.
  eexists. split; [vm_compute; reflexivity|].
  intros frag trail.
  match goal with |- exists _, lzma_decompress _ _ (mkIo (src_of (?b ++ _) _ _) _) = _ /\ _ =>
    destruct (lzma_out_of_window_rejected ow_fp 0 [Lit 65; Lit 66; Lit 67] (Match 4 3)
                (mkHist [67; 66; 65] 3 0 0 0 0) false b [65; 66; 67] trail frag vec_sink 100 None false)
      as (w' & H1 & _ & H3)
  end.
  - vm_compute. discriminate.
  - vm_compute. discriminate.
  - vm_compute. discriminate.
  - vm_compute. reflexivity.
  - exact I.
  - unfold no_marker. repeat constructor; discriminate.
  - vm_compute. reflexivity.
  - cbn [bad_copy]. split; [reflexivity|]. split; vm_compute; [discriminate|reflexivity].
  - vm_compute. reflexivity.
  - reflexivity.
  - reflexivity.
  - vm_compute. lia.
  - exists w'. split; [exact H1|exact H3].
Qed.

(* why [bad_copy] asks for a distance beyond the window and not merely for sem_sym = None:
   Match 0 len is ill formed for the format, but its binarisation (dist - 1 = 0 in N) is that of
   Match 1 len, a perfectly valid stream, which the decoder accepts. *)
Example ow_dist0_is_not_out_of_window :
  sem_sym (Some 4096) (mkHist [65] 1 0 0 0 0) (Match 0 2) = None /\
  match enc_lzma_gen true ow_fp 0 3 ([Lit 65] ++ [Match 0 2]) 0 with
  | Some (bytes, out) =>
      let '(r, w') := lzma_decompress 100 (mkOptions ReadFromHeader None false)
                        (mkIo (src_of bytes (fun _ => 100) None) vec_sink) in
      r = Done tt /\ snk_bytes (i_snk w') = [65; 65; 65] /\ out = [65]
  | None => False
  end.
Proof. split; vm_compute; [reflexivity|repeat split; reflexivity]. Qed.
Print Assumptions ow_raw_wrap.
Print Assumptions ow_lzma_file.
