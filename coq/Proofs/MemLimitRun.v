(* C10, whole runs: the memory limit is honoured exactly.

   Two runs of the decoder on the same (arbitrary) input, one with memory limit
   [m] and one with a larger limit (or none), are compared.  As long as the window
   buffer of the second run stays within [m] the two runs are in lock step
   ([mem_related]: every field equal except c_mem).  The first time the second run
   grows its buffer beyond [m], the limited run stops with Failed ELzma; from then
   on ([mem_div]) the buffer of the other run stays above [m] (c_blen never
   shrinks) and its sink only extends what the limited run left in its sink.

   No assumption is made on the input, the sink or the source. *)
From LZ Require Import Base.Prelude Base.Prog Model.Io Model.Tables Model.LzBuffer Model.RangeDec
  Model.Lzma Proofs.ProgLemmas Proofs.IoLemmas Proofs.StreamPrefix Proofs.FaultProp Proofs.NoPanicLoops.
Local Open Scope prog_scope.

(* ------------------------------------------------------------------ *)
(* generic: two runs that are in lock step until the first one fails   *)
(* ------------------------------------------------------------------ *)
(* [osim R D r1 r2]: either same verdict and R-related states, or the first run
   failed with ELzma and the states are D-related *)
Definition osim {A S1 S2} (R D : S1 -> S2 -> Prop) (r1 : outcome A * S1) (r2 : outcome A * S2) : Prop :=
  (fst r1 = fst r2 /\ R (snd r1) (snd r2)) \/ (fst r1 = Failed ELzma /\ D (snd r1) (snd r2)).

Definition hout {X S} (r : hres X S) : outcome X * S :=
  match r with HOk x s => (Done x, s) | HErr e s => (Failed e, s) | HPanic p s => (Panicked p, s) end.

Lemma hout_hst {X S} (r : hres X S) : snd (hout r) = hst r.
Proof. destruct r; reflexivity. Qed.

Lemma interp_osim {E : Type -> Type} {S1 S2 A} (h1 : handler E S1) (h2 : handler E S2)
  (R D : S1 -> S2 -> Prop)
  (Hstep : forall X (o : E X) s1 s2, R s1 s2 -> osim R D (hout (h1 X o s1)) (hout (h2 X o s2)))
  (HD : forall t1 X (o : E X) s2, D t1 s2 -> D t1 (hst (h2 X o s2))) :
  forall (p : prog E A) s1 s2, R s1 s2 -> osim R D (interp h1 p s1) (interp h2 p s2).
Proof.
  induction p as [a|e|w|X o k IH]; intros s1 s2 HR; cbn [interp];
    try (left; split; [reflexivity|exact HR]).
  specialize (Hstep X o s1 s2 HR).
  destruct Hstep as [[Hf Hs]|[Hf Hs]].
  - destruct (h1 X o s1) as [x1 t1|e1 t1|w1 t1]; destruct (h2 X o s2) as [x2 t2|e2 t2|w2 t2];
      cbn [hout fst snd] in Hf, Hs; try discriminate Hf.
    + inversion Hf; subst. apply IH. exact Hs.
    + left. cbn [fst snd]. inversion Hf; subst. split; [reflexivity|assumption].
    + left. cbn [fst snd]. inversion Hf; subst. split; [reflexivity|assumption].
  - destruct (h1 X o s1) as [x1 t1|e1 t1|w1 t1]; cbn [hout fst snd] in Hf, Hs; try discriminate Hf.
    inversion Hf; subst e1. right.
    destruct (h2 X o s2) as [x2 t2|e2 t2|w2 t2]; cbn [hout fst snd] in *; (split; [reflexivity|]); try exact Hs.
    apply (interp_inv h2 (fun s => D t1 s)); [|exact Hs].
    intros X' o' s Hs'. pose proof (HD t1 X' o' s Hs') as H. destruct (h2 X' o' s); exact H.
Qed.

(* loops: lock step until the first loop breaks alone *)
Definition step_sim {S1 S2 R1 R2} (Rs : S1 -> S2 -> Prop) (Rr : R1 -> R2 -> Prop) (Dn : R1 -> S2 -> Prop)
  (x1 : step S1 R1) (x2 : step S2 R2) : Prop :=
  match x1, x2 with
  | Next t1, Next t2 => Rs t1 t2
  | Break r1, Break r2 => Rr r1 r2
  | Break r1, Next t2 => Dn r1 t2
  | Next _, Break _ => False
  end.

Lemma iter_step_sim_div {S1 S2 R1 R2} (b1 : S1 -> step S1 R1) (b2 : S2 -> step S2 R2)
  (Rs : S1 -> S2 -> Prop) (Rr : R1 -> R2 -> Prop) (Dn : R1 -> S2 -> Prop)
  (Hb : forall s1 s2, Rs s1 s2 -> step_sim Rs Rr Dn (b1 s1) (b2 s2))
  (Hd : forall r1 s2, Dn r1 s2 -> match b2 s2 with Next t2 => Dn r1 t2 | Break r2 => Rr r1 r2 end) :
  forall n s1 s2, Rs s1 s2 -> step_sim Rs Rr Dn (iter_step n b1 s1) (iter_step n b2 s2).
Proof.
  induction n as [|n IH]; intros s1 s2 H; cbn [iter_step]; [exact H|].
  specialize (Hb s1 s2 H). unfold step_sim in Hb.
  destruct (b1 s1) as [t1|r1]; destruct (b2 s2) as [t2|r2]; try contradiction.
  - apply IH. exact Hb.
  - unfold step_sim.
    apply (iter_step_inv b2 (fun s => Dn r1 s) (fun r => Rr r1 r)); [| |exact Hb].
    + intros s s' Hs E. specialize (Hd r1 s Hs). rewrite E in Hd. exact Hd.
    + intros s r Hs E. specialize (Hd r1 s Hs). rewrite E in Hd. exact Hd.
  - exact Hb.
Qed.

Lemma loopN_sim_div {S1 S2 R1 R2} (b1 : S1 -> step S1 R1) (b2 : S2 -> step S2 R2)
  (Rs : S1 -> S2 -> Prop) (Rr : R1 -> R2 -> Prop) (Dn : R1 -> S2 -> Prop)
  (Hb : forall s1 s2, Rs s1 s2 -> step_sim Rs Rr Dn (b1 s1) (b2 s2))
  (Hd : forall r1 s2, Dn r1 s2 -> match b2 s2 with Next t2 => Dn r1 t2 | Break r2 => Rr r1 r2 end) :
  forall p s1 s2, Rs s1 s2 -> step_sim Rs Rr Dn (loopN p b1 s1) (loopN p b2 s2).
Proof. intros p s1 s2 H. rewrite !loopN_iter. apply iter_step_sim_div; assumption. Qed.

(* ------------------------------------------------------------------ *)
(* 1. the circular buffer                                               *)
(* ------------------------------------------------------------------ *)
Definition mem_related (m : N) (b1 b2 : circ) : Prop :=
  c_buf b1 = c_buf b2 /\ c_blen b1 = c_blen b2 /\ c_dict b1 = c_dict b2 /\
  c_cursor b1 = c_cursor b2 /\ c_len b1 = c_len b2 /\ c_snk b1 = c_snk b2 /\
  c_mem b1 = m /\ m <= c_mem b2 /\ c_blen b1 <= m.

(* after the limited run has failed: the other buffer is (and stays) larger than m,
   and its sink extends the sink the limited run was left with *)
Definition mem_div (m : N) (b1 b2 : circ) : Prop :=
  ext (c_snk b1) (c_snk b2) /\ m < c_blen b2.

Definition csim {A} (m : N) (r1 r2 : outcome A * circ) : Prop := osim (mem_related m) (mem_div m) r1 r2.

(* the two alternatives of csim are told apart by the buffer length of the second run *)
Lemma csim_exact {A} m (r1 r2 : outcome A * circ) : csim m r1 r2 ->
  (c_blen (snd r2) <= m -> fst r1 = fst r2 /\ mem_related m (snd r1) (snd r2)) /\
  (m < c_blen (snd r2) -> fst r1 = Failed ELzma).
Proof.
  intros [[Hf Hr]|[Hf [He Hl]]]; split; intros H.
  - split; assumption.
  - exfalso. destruct Hr as (_ & E & _ & _ & _ & _ & _ & _ & L). lia.
  - exfalso. lia.
  - exact Hf.
Qed.

Ltac mr_destruct b1 b2 H :=
  destruct b1 as [buf1 blen1 dict1 mem1 cur1 len1 k1]; destruct b2 as [buf2 blen2 dict2 mem2 cur2 len2 k2];
  unfold mem_related in H; cbn [c_buf c_blen c_dict c_mem c_cursor c_len c_snk] in H;
  destruct H as (? & ? & ? & ? & ? & ? & ? & ? & ?); subst buf1 blen1 dict1 cur1 len1 k1 mem1.

Lemma circ_get_related m b1 b2 i : mem_related m b1 b2 -> circ_get b1 i = circ_get b2 i.
Proof. intros H. mr_destruct b1 b2 H. reflexivity. Qed.

(* circ_set: the only place where c_mem is consulted *)
Lemma circ_set_sim m b1 b2 i v : mem_related m b1 b2 -> csim m (circ_set b1 i v) (circ_set b2 i v).
Proof.
  intros H. mr_destruct b1 b2 H. unfold circ_set. cbn [c_buf c_blen c_dict c_mem c_cursor c_len c_snk].
  destruct (N.ltb_spec blen2 (i + 1)) as [Hg|Hg].
  - destruct (N.leb_spec (i + 1) m) as [H1|H1].
    + destruct (N.leb_spec (i + 1) mem2) as [H2|H2]; [|lia].
      left. cbn [fst snd]. split; [reflexivity|].
      unfold mem_related. cbn [c_buf c_blen c_dict c_mem c_cursor c_len c_snk]. repeat split; try reflexivity; assumption.
    + destruct (N.leb_spec (i + 1) mem2) as [H2|H2].
      * right. cbn [fst snd]. split; [reflexivity|]. split; cbn [c_snk c_blen]; [apply ext_refl|lia].
      * left. cbn [fst snd]. split; [reflexivity|].
        unfold mem_related. cbn [c_buf c_blen c_dict c_mem c_cursor c_len c_snk]. repeat split; try reflexivity; assumption.
  - left. cbn [fst snd]. split; [reflexivity|].
    unfold mem_related. cbn [c_buf c_blen c_dict c_mem c_cursor c_len c_snk]. repeat split; try reflexivity; assumption.
Qed.

(* the limited circ_set fails exactly when the other one's new length exceeds m *)
Lemma circ_set_exact m b1 b2 i v : mem_related m b1 b2 ->
  (c_blen (snd (circ_set b2 i v)) <= m ->
     fst (circ_set b1 i v) = fst (circ_set b2 i v) /\ mem_related m (snd (circ_set b1 i v)) (snd (circ_set b2 i v))) /\
  (m < c_blen (snd (circ_set b2 i v)) -> circ_set b1 i v = (Failed ELzma, b1)).
Proof.
  intros H. pose proof (csim_exact m _ _ (circ_set_sim m b1 b2 i v H)) as [A B]. split; [exact A|].
  intros Hl. specialize (B Hl). revert B. unfold circ_set.
  destruct (c_blen b1 <? i + 1); [destruct (i + 1 <=? c_mem b1)|]; cbn [fst]; intros B; try discriminate B. reflexivity.
Qed.

Lemma circ_set_blen b i v : c_blen b <= c_blen (snd (circ_set b i v)).
Proof.
  unfold circ_set. destruct (N.ltb_spec (c_blen b) (i + 1)); [destruct (i + 1 <=? c_mem b)|]; cbn [snd c_blen]; lia.
Qed.

Lemma circ_set_blen_le1 b i v : i <= c_blen b -> c_blen (snd (circ_set b i v)) <= c_blen b + 1.
Proof.
  intros Hi. unfold circ_set. destruct (N.ltb_spec (c_blen b) (i + 1)); [destruct (i + 1 <=? c_mem b)|]; cbn [snd c_blen]; lia.
Qed.

(* the operations that do not look at c_mem *)
Lemma circ_last_or_sim m b1 b2 d : mem_related m b1 b2 ->
  fst (circ_last_or b1 d) = fst (circ_last_or b2 d) /\ mem_related m (snd (circ_last_or b1 d)) (snd (circ_last_or b2 d)).
Proof.
  intros H. rewrite !circ_last_or_st. split; [|exact H].
  unfold circ_last_or. rewrite (circ_get_related m b1 b2 _ H).
  destruct H as (_ & _ & -> & -> & -> & _).
  destruct (c_len b2 =? 0); [reflexivity|]. destruct (c_dict b2 =? 0); reflexivity.
Qed.

Lemma circ_last_n_sim m b1 b2 d : mem_related m b1 b2 ->
  fst (circ_last_n b1 d) = fst (circ_last_n b2 d) /\ mem_related m (snd (circ_last_n b1 d)) (snd (circ_last_n b2 d)).
Proof.
  intros H. rewrite !circ_last_n_st. split; [|exact H].
  unfold circ_last_n. rewrite (circ_get_related m b1 b2 _ H).
  destruct H as (_ & _ & -> & -> & -> & _).
  destruct (c_dict b2 <? d); [reflexivity|]. destruct (c_len b2 <? d); [reflexivity|].
  destruct (c_dict b2 =? 0); reflexivity.
Qed.

(* append_literal = circ_set, then advance the cursor and flush a full lap *)
Definition lit_tail (b1 : circ) : outcome unit * circ :=
  let cur := c_cursor b1 + 1 in
  let len := c_len b1 + 1 in
  if cur =? c_dict b1 then
    match snk_run (write_all (map_slice (c_buf b1) 0 (c_blen b1))) (c_snk b1) with
    | (Done _, k) => (Done tt, mkCirc (c_buf b1) (c_blen b1) (c_dict b1) (c_mem b1) 0 len k)
    | (Failed e, k) => (Failed e, mkCirc (c_buf b1) (c_blen b1) (c_dict b1) (c_mem b1) cur len k)
    | (Panicked p, k) => (Panicked p, mkCirc (c_buf b1) (c_blen b1) (c_dict b1) (c_mem b1) cur len k)
    end
  else (Done tt, mkCirc (c_buf b1) (c_blen b1) (c_dict b1) (c_mem b1) cur len (c_snk b1)).

Lemma circ_append_literal_split b lit :
  circ_append_literal b lit =
  match circ_set b (c_cursor b) lit with
  | (Done _, b1) => lit_tail b1
  | (Failed e, b1) => (Failed e, b1)
  | (Panicked p, b1) => (Panicked p, b1)
  end.
Proof. reflexivity. Qed.

Lemma lit_tail_blen b : c_blen (snd (lit_tail b)) = c_blen b.
Proof.
  unfold lit_tail. destruct (c_cursor b + 1 =? c_dict b); [|reflexivity].
  destruct (snk_run _ _) as [[[]|e|p] k]; reflexivity.
Qed.

Lemma lit_tail_mem b : c_mem (snd (lit_tail b)) = c_mem b.
Proof.
  unfold lit_tail. destruct (c_cursor b + 1 =? c_dict b); [|reflexivity].
  destruct (snk_run _ _) as [[[]|e|p] k]; reflexivity.
Qed.

Lemma lit_tail_ext b : ext (c_snk b) (c_snk (snd (lit_tail b))).
Proof.
  unfold lit_tail. destruct (c_cursor b + 1 =? c_dict b); [|apply ext_refl].
  pose proof (write_all_ext (map_slice (c_buf b) 0 (c_blen b)) (c_snk b)) as H.
  destruct (snk_run _ _) as [[[]|e|p] k]; exact H.
Qed.

Lemma lit_tail_sim m b1 b2 : mem_related m b1 b2 ->
  fst (lit_tail b1) = fst (lit_tail b2) /\ mem_related m (snd (lit_tail b1)) (snd (lit_tail b2)).
Proof.
  intros H. mr_destruct b1 b2 H. unfold lit_tail. cbn [c_buf c_blen c_dict c_mem c_cursor c_len c_snk].
  destruct (cur2 + 1 =? dict2).
  - destruct (snk_run _ _) as [[[]|e|p] k]; cbn [fst snd]; (split; [reflexivity|]);
      unfold mem_related; cbn [c_buf c_blen c_dict c_mem c_cursor c_len c_snk]; repeat split; try reflexivity; assumption.
  - cbn [fst snd]. split; [reflexivity|].
    unfold mem_related; cbn [c_buf c_blen c_dict c_mem c_cursor c_len c_snk]; repeat split; try reflexivity; assumption.
Qed.

Lemma circ_append_literal_blen b lit : c_blen b <= c_blen (snd (circ_append_literal b lit)).
Proof.
  rewrite circ_append_literal_split. pose proof (circ_set_blen b (c_cursor b) lit) as H.
  destruct (circ_set b (c_cursor b) lit) as [[[]|e|p] b1]; cbn [snd] in *; try exact H.
  rewrite lit_tail_blen. exact H.
Qed.

Lemma circ_set_mem b i v : c_mem (snd (circ_set b i v)) = c_mem b.
Proof. unfold circ_set. destruct (c_blen b <? i + 1); [destruct (i + 1 <=? c_mem b)|]; reflexivity. Qed.

Lemma circ_append_literal_mem b lit : c_mem (snd (circ_append_literal b lit)) = c_mem b.
Proof.
  rewrite circ_append_literal_split. pose proof (circ_set_mem b (c_cursor b) lit) as H.
  destruct (circ_set b (c_cursor b) lit) as [[[]|e|p] b1]; cbn [snd] in *; try exact H.
  rewrite lit_tail_mem. exact H.
Qed.

(* once diverged, always diverged *)
Lemma mem_div_literal m b1 b2 lit : mem_div m b1 b2 -> mem_div m b1 (snd (circ_append_literal b2 lit)).
Proof.
  intros [He Hl]. split.
  - eapply ext_trans; [exact He|apply circ_append_literal_ext].
  - pose proof (circ_append_literal_blen b2 lit). lia.
Qed.

Lemma circ_append_literal_sim m b1 b2 lit : mem_related m b1 b2 ->
  csim m (circ_append_literal b1 lit) (circ_append_literal b2 lit).
Proof.
  intros H. rewrite !circ_append_literal_split.
  assert (Ec : c_cursor b1 = c_cursor b2) by (destruct H as (_ & _ & _ & E & _); exact E).
  rewrite Ec. pose proof (circ_set_sim m b1 b2 (c_cursor b2) lit H) as [[Hf Hr]|[Hf Hd]].
  - destruct (circ_set b1 (c_cursor b2) lit) as [[[]|e|p] c1]; destruct (circ_set b2 (c_cursor b2) lit) as [[[]|e2|p2] c2];
      cbn [fst snd] in Hf, Hr; try discriminate Hf.
    + left. apply lit_tail_sim. exact Hr.
    + left. cbn [fst snd]. split; assumption.
    + left. cbn [fst snd]. split; assumption.
  - destruct (circ_set b1 (c_cursor b2) lit) as [[[]|e|p] c1]; cbn [fst snd] in Hf, Hd; try discriminate Hf.
    right. cbn [fst snd]. split; [exact Hf|].
    destruct (circ_set b2 (c_cursor b2) lit) as [[[]|e2|p2] c2]; cbn [snd] in *; try exact Hd.
    destruct Hd as [He Hl]. split.
    + eapply ext_trans; [exact He|apply lit_tail_ext].
    + rewrite lit_tail_blen. exact Hl.
Qed.

Lemma circ_lz_loop_blen n : forall b off, c_blen b <= c_blen (snd (circ_lz_loop n b off)).
Proof.
  induction n as [|n IH]; intros b off; cbn [circ_lz_loop]; [cbn [snd]; lia|].
  pose proof (circ_append_literal_blen b (circ_get b off)) as H.
  destruct (circ_append_literal b (circ_get b off)) as [[[]|e|p] b1]; cbn [snd] in *; try exact H.
  eapply N.le_trans; [exact H|apply IH].
Qed.

Lemma circ_lz_loop_mem n : forall b off, c_mem (snd (circ_lz_loop n b off)) = c_mem b.
Proof.
  induction n as [|n IH]; intros b off; cbn [circ_lz_loop]; [reflexivity|].
  pose proof (circ_append_literal_mem b (circ_get b off)) as H.
  destruct (circ_append_literal b (circ_get b off)) as [[[]|e|p] b1]; cbn [snd] in *; try exact H.
  rewrite IH. exact H.
Qed.

Lemma circ_lz_loop_ext n b off : ext (c_snk b) (c_snk (snd (circ_lz_loop n b off))).
Proof. apply (circ_lz_loop_rel ext ext_refl ext_trans snk_write_ext snk_flush_ext). Qed.

Lemma circ_lz_loop_sim m n : forall b1 b2 off, mem_related m b1 b2 ->
  csim m (circ_lz_loop n b1 off) (circ_lz_loop n b2 off).
Proof.
  induction n as [|n IH]; intros b1 b2 off H; cbn [circ_lz_loop].
  - left. cbn [fst snd]. split; [reflexivity|exact H].
  - rewrite (circ_get_related m b1 b2 off H).
    pose proof (circ_append_literal_sim m b1 b2 (circ_get b2 off) H) as [[Hf Hr]|[Hf Hd]].
    + destruct (circ_append_literal b1 (circ_get b2 off)) as [[[]|e|p] c1];
        destruct (circ_append_literal b2 (circ_get b2 off)) as [[[]|e2|p2] c2];
        cbn [fst snd] in Hf, Hr; try discriminate Hf.
      * assert (Ed : c_dict c1 = c_dict c2) by (destruct Hr as (_ & _ & E & _); exact E).
        rewrite Ed. apply IH. exact Hr.
      * left. cbn [fst snd]. split; assumption.
      * left. cbn [fst snd]. split; assumption.
    + destruct (circ_append_literal b1 (circ_get b2 off)) as [[[]|e|p] c1]; cbn [fst snd] in Hf, Hd; try discriminate Hf.
      right. cbn [fst snd]. split; [exact Hf|].
      destruct (circ_append_literal b2 (circ_get b2 off)) as [[[]|e2|p2] c2]; cbn [snd] in *; try exact Hd.
      destruct Hd as [He Hl]. split.
      * eapply ext_trans; [exact He|apply circ_lz_loop_ext].
      * eapply N.lt_le_trans; [exact Hl|apply circ_lz_loop_blen].
Qed.

Lemma circ_append_lz_blen b len dist : c_blen b <= c_blen (snd (circ_append_lz b len dist)).
Proof.
  unfold circ_append_lz.
  destruct (c_dict b <? dist); [cbn [snd]; lia|]. destruct (c_len b <? dist); [cbn [snd]; lia|].
  destruct (c_dict b =? 0); [cbn [snd]; lia|]. apply circ_lz_loop_blen.
Qed.

Lemma circ_append_lz_mem b len dist : c_mem (snd (circ_append_lz b len dist)) = c_mem b.
Proof.
  unfold circ_append_lz.
  destruct (c_dict b <? dist); [reflexivity|]. destruct (c_len b <? dist); [reflexivity|].
  destruct (c_dict b =? 0); [reflexivity|]. apply circ_lz_loop_mem.
Qed.

Lemma mem_div_lz m b1 b2 len dist : mem_div m b1 b2 -> mem_div m b1 (snd (circ_append_lz b2 len dist)).
Proof.
  intros [He Hl]. split.
  - eapply ext_trans; [exact He|apply circ_append_lz_ext].
  - pose proof (circ_append_lz_blen b2 len dist). lia.
Qed.

Lemma circ_append_lz_sim m b1 b2 len dist : mem_related m b1 b2 ->
  csim m (circ_append_lz b1 len dist) (circ_append_lz b2 len dist).
Proof.
  intros H. unfold circ_append_lz.
  assert (E : c_dict b1 = c_dict b2 /\ c_len b1 = c_len b2 /\ c_cursor b1 = c_cursor b2)
    by (destruct H as (_ & _ & E1 & E2 & E3 & _); auto).
  destruct E as (-> & -> & ->).
  destruct (c_dict b2 <? dist); [left; cbn [fst snd]; split; [reflexivity|exact H]|].
  destruct (c_len b2 <? dist); [left; cbn [fst snd]; split; [reflexivity|exact H]|].
  destruct (c_dict b2 =? 0); [left; cbn [fst snd]; split; [reflexivity|exact H]|].
  apply circ_lz_loop_sim. exact H.
Qed.

(* the exact statements asked for: the limited operation fails with ELzma exactly when the
   buffer of the other one ends up longer than m; otherwise same verdict, related buffers *)
Theorem circ_append_literal_exact m b1 b2 lit : mem_related m b1 b2 ->
  let r1 := circ_append_literal b1 lit in let r2 := circ_append_literal b2 lit in
  (c_blen (snd r2) <= m -> fst r1 = fst r2 /\ mem_related m (snd r1) (snd r2)) /\
  (m < c_blen (snd r2) -> fst r1 = Failed ELzma /\ c_snk (snd r1) = c_snk b1).
Proof.
  intros H r1 r2. pose proof (csim_exact m _ _ (circ_append_literal_sim m b1 b2 lit H)) as [A B].
  split; [exact A|]. intros Hl. specialize (B Hl). split; [exact B|].
  subst r1. revert B. rewrite circ_append_literal_split.
  pose proof (circ_set_snk b1 (c_cursor b1) lit) as Hs.
  pose proof (circ_set_sim m b1 b2 (c_cursor b1) lit H) as Hc.
  destruct (circ_set b1 (c_cursor b1) lit) as [[[]|e|p] c1]; cbn [fst snd] in *; intros B; try exact Hs.
  (* circ_set succeeded in the limited run, so the two runs stay related: contradiction with m < blen *)
  exfalso.
  assert (Ec : c_cursor b1 = c_cursor b2) by (destruct H as (_ & _ & _ & E & _); exact E).
  rewrite Ec in Hc. destruct Hc as [[Hf Hr]|[Hf _]]; [|discriminate Hf].
  subst r2. rewrite circ_append_literal_split in Hl.
  destruct (circ_set b2 (c_cursor b2) lit) as [[[]|e|p] c2]; cbn [fst snd] in *; try discriminate Hf.
  rewrite lit_tail_blen in Hl. destruct Hr as (_ & E & _ & _ & _ & _ & _ & _ & L). lia.
Qed.
Print Assumptions circ_append_literal_exact.

Theorem circ_append_lz_exact m b1 b2 len dist : mem_related m b1 b2 ->
  let r1 := circ_append_lz b1 len dist in let r2 := circ_append_lz b2 len dist in
  (c_blen (snd r2) <= m -> fst r1 = fst r2 /\ mem_related m (snd r1) (snd r2)) /\
  (m < c_blen (snd r2) -> fst r1 = Failed ELzma /\ ext (c_snk (snd r1)) (c_snk (snd r2))).
Proof.
  intros H r1 r2. pose proof (circ_append_lz_sim m b1 b2 len dist H) as S.
  pose proof (csim_exact m _ _ S) as [A B]. split; [exact A|]. intros Hl. split; [exact (B Hl)|].
  destruct S as [[_ Hr]|[_ [He _]]]; [|exact He].
  exfalso. fold r2 in Hr. destruct Hr as (_ & E & _ & _ & _ & _ & _ & _ & L). lia.
Qed.
Print Assumptions circ_append_lz_exact.

(* c_blen grows by at most one per literal *)
Lemma circ_append_literal_blen_le1 b lit : c_cursor b <= c_blen b ->
  c_blen (snd (circ_append_literal b lit)) <= c_blen b + 1.
Proof.
  intros Hc. rewrite circ_append_literal_split. pose proof (circ_set_blen_le1 b (c_cursor b) lit Hc) as H.
  destruct (circ_set b (c_cursor b) lit) as [[[]|e|p] b1]; cbn [snd] in *; try exact H.
  rewrite lit_tail_blen. exact H.
Qed.

(* ------------------------------------------------------------------ *)
(* 2. the window, the decoding handler, one symbol, the loop            *)
(* ------------------------------------------------------------------ *)
Definition win_blen (w : win) : N := match w with WCirc c => c_blen c | WAccum _ => 0 end.

Definition win_rel (m : N) (w1 w2 : win) : Prop :=
  match w1, w2 with
  | WCirc b1, WCirc b2 => mem_related m b1 b2
  | WAccum a1, WAccum a2 => a1 = a2
  | _, _ => False
  end.
Definition win_div (m : N) (w1 w2 : win) : Prop := ext (win_snk w1) (win_snk w2) /\ m < win_blen w2.

Lemma win_rel_len m w1 w2 : win_rel m w1 w2 -> win_len w1 = win_len w2.
Proof.
  destruct w1 as [b1|a1], w2 as [b2|a2]; cbn [win_rel win_len]; try contradiction.
  - intros (_ & _ & _ & _ & E & _). exact E.
  - intros ->. reflexivity.
Qed.
Lemma win_rel_snk m w1 w2 : win_rel m w1 w2 -> win_snk w1 = win_snk w2.
Proof.
  destruct w1 as [b1|a1], w2 as [b2|a2]; cbn [win_rel win_snk]; try contradiction.
  - intros (_ & _ & _ & _ & _ & E & _). exact E.
  - intros ->. reflexivity.
Qed.
Lemma win_rel_blen m w1 w2 : win_rel m w1 w2 -> win_blen w2 <= m.
Proof.
  destruct w1 as [b1|a1], w2 as [b2|a2]; cbn [win_rel win_blen]; try contradiction.
  - intros (_ & E & _ & _ & _ & _ & _ & _ & L). lia.
  - intros _. lia.
Qed.

Lemma lift_c_osim {A} m (r1 r2 : outcome A * circ) : csim m r1 r2 -> osim (win_rel m) (win_div m) (lift_c r1) (lift_c r2).
Proof.
  intros [[Hf Hr]|[Hf [He Hl]]]; [left|right]; unfold lift_c; cbn [fst snd]; (split; [exact Hf|]).
  - exact Hr.
  - split; [exact He|exact Hl].
Qed.

Lemma win_last_or_sim m w1 w2 d : win_rel m w1 w2 ->
  fst (win_last_or w1 d) = fst (win_last_or w2 d) /\ win_rel m (snd (win_last_or w1 d)) (snd (win_last_or w2 d)).
Proof.
  destruct w1 as [b1|a1], w2 as [b2|a2]; cbn [win_rel]; try contradiction.
  - intros H. cbn [win_last_or lift_c fst snd win_rel]. apply circ_last_or_sim. exact H.
  - intros ->. split; reflexivity.
Qed.
Lemma win_last_n_sim m w1 w2 d : win_rel m w1 w2 ->
  fst (win_last_n w1 d) = fst (win_last_n w2 d) /\ win_rel m (snd (win_last_n w1 d)) (snd (win_last_n w2 d)).
Proof.
  destruct w1 as [b1|a1], w2 as [b2|a2]; cbn [win_rel]; try contradiction.
  - intros H. cbn [win_last_n lift_c fst snd win_rel]. apply circ_last_n_sim. exact H.
  - intros ->. split; reflexivity.
Qed.
Lemma osim_refl_eq {A S} (R D : S -> S -> Prop) (r : outcome A * S) : R (snd r) (snd r) -> osim R D r r.
Proof. intros H. left. split; [reflexivity|exact H]. Qed.

Lemma win_append_literal_sim m w1 w2 b : win_rel m w1 w2 ->
  osim (win_rel m) (win_div m) (win_append_literal w1 b) (win_append_literal w2 b).
Proof.
  destruct w1 as [b1|a1], w2 as [b2|a2]; cbn [win_rel]; try contradiction.
  - intros H. cbn [win_append_literal]. apply lift_c_osim, circ_append_literal_sim. exact H.
  - intros ->. apply osim_refl_eq. cbn [win_append_literal lift_a snd win_rel]. reflexivity.
Qed.
Lemma win_append_lz_sim m w1 w2 len dist : win_rel m w1 w2 ->
  osim (win_rel m) (win_div m) (win_append_lz w1 len dist) (win_append_lz w2 len dist).
Proof.
  destruct w1 as [b1|a1], w2 as [b2|a2]; cbn [win_rel]; try contradiction.
  - intros H. cbn [win_append_lz]. apply lift_c_osim, circ_append_lz_sim. exact H.
  - intros ->. apply osim_refl_eq. cbn [win_append_lz lift_a snd win_rel]. reflexivity.
Qed.

(* once diverged, always diverged: as a window predicate in the sense of StreamPrefix.WinPred *)
Definition wdiv (m : N) (k1 : snk) (w : win) : Prop := ext k1 (win_snk w) /\ m < win_blen w.

Lemma wdiv_lit m k1 w b : wdiv m k1 w ->
  keep (wdiv m k1) true (fst (win_append_literal w b)) (snd (win_append_literal w b)).
Proof.
  intros [He Hl] _. split.
  - eapply ext_trans; [exact He|]. apply (win_append_literal_rel ext ext_refl ext_trans snk_write_ext snk_flush_ext).
  - destruct w as [c|a]; cbn [win_blen] in Hl; [|lia].
    cbn [win_append_literal lift_c snd win_blen]. pose proof (circ_append_literal_blen c b). lia.
Qed.
Lemma wdiv_lz m k1 w len dist : wdiv m k1 w ->
  keep (wdiv m k1) true (fst (win_append_lz w len dist)) (snd (win_append_lz w len dist)).
Proof.
  intros [He Hl] _. split.
  - eapply ext_trans; [exact He|]. apply (win_append_lz_rel ext ext_refl ext_trans snk_write_ext snk_flush_ext).
  - destruct w as [c|a]; cbn [win_blen] in Hl; [|lia].
    cbn [win_append_lz lift_c snd win_blen]. pose proof (circ_append_lz_blen c len dist). lia.
Qed.

(* ---- dec_h ---- *)
Definition dw_rel (m : N) (x1 x2 : dw) : Prop :=
  d_tabs x1 = d_tabs x2 /\ d_rc x1 = d_rc x2 /\ d_src x1 = d_src x2 /\ win_rel m (d_win x1) (d_win x2).
Definition dw_div (m : N) (x1 x2 : dw) : Prop := win_div m (d_win x1) (d_win x2).

Definition is_app {X} (o : decE X) : bool :=
  match o with WAppendLit _ => true | WAppendLz _ _ => true | _ => false end.

Lemma lift_win_sync {X} m x1 x2 (r1 r2 : outcome X * win) : dw_rel m x1 x2 ->
  fst r1 = fst r2 /\ win_rel m (snd r1) (snd r2) ->
  fst (hout (lift_win x1 r1)) = fst (hout (lift_win x2 r2)) /\ dw_rel m (snd (hout (lift_win x1 r1))) (snd (hout (lift_win x2 r2))).
Proof.
  intros (Et & Er & Es & _) [Hf Hr].
  destruct r1 as [[a1|e1|p1] v1]; destruct r2 as [[a2|e2|p2] v2]; cbn [fst snd] in Hf, Hr; try discriminate Hf;
    inversion Hf; subst; cbn [lift_win hout fst snd]; (split; [reflexivity|]);
    unfold dw_rel; cbn [d_tabs d_rc d_src d_win]; auto.
Qed.

Lemma lift_win_osim {X} m x1 x2 (r1 r2 : outcome X * win) : dw_rel m x1 x2 ->
  osim (win_rel m) (win_div m) r1 r2 ->
  osim (dw_rel m) (dw_div m) (hout (lift_win x1 r1)) (hout (lift_win x2 r2)).
Proof.
  intros HR [Hs|[Hf Hd]].
  - left. apply lift_win_sync; assumption.
  - right. destruct r1 as [[a1|e1|p1] v1]; cbn [fst snd] in Hf, Hd; try discriminate Hf. inversion Hf; subst e1.
    cbn [lift_win hout fst snd]. split; [reflexivity|].
    destruct r2 as [[a2|e2|p2] v2]; cbn [lift_win hout snd] in *; unfold dw_div; cbn [d_win]; exact Hd.
Qed.

(* operations other than the two appends keep the two runs in lock step *)
Lemma dec_h_sync m X (o : decE X) x1 x2 : is_app o = false -> dw_rel m x1 x2 ->
  fst (hout (dec_h X o x1)) = fst (hout (dec_h X o x2)) /\ dw_rel m (snd (hout (dec_h X o x1))) (snd (hout (dec_h X o x2))).
Proof.
  intros Ha HR. pose proof HR as (Et & Er & Es & Hw).
  destruct o; cbn [is_app] in Ha; try discriminate Ha; cbn [dec_h].
  - rewrite Et, Er, Es. destruct (cell_get (d_tabs x2) c) as [prob|]; [|cbn [hout fst snd]; split; [reflexivity|exact HR]].
    destruct (src_run (rc_decode_bit (d_rc x2) prob upd) (d_src x2)) as [[[[b p'] r']|e|p] s];
      cbn [hout fst snd]; (split; [reflexivity|]); unfold dw_rel; cbn [d_tabs d_rc d_src d_win]; auto.
  - unfold lift_src. rewrite Er, Es. destruct (src_run (rc_get count (d_rc x2)) (d_src x2)) as [[[x r']|e|p] s];
      cbn [hout fst snd]; (split; [reflexivity|]); unfold dw_rel; cbn [d_tabs d_rc d_src d_win]; auto.
  - rewrite Er, Es. destruct (src_run (rc_is_finished_ok (d_rc x2)) (d_src x2)) as [[b|e|p] s];
      cbn [hout fst snd]; (split; [reflexivity|]); unfold dw_rel; cbn [d_tabs d_rc d_src d_win]; auto.
  - cbn [hout fst snd]. split; [|exact HR]. f_equal. eapply win_rel_len; exact Hw.
  - apply lift_win_sync; [exact HR|]. apply win_last_or_sim. exact Hw.
  - apply lift_win_sync; [exact HR|]. apply win_last_n_sim. exact Hw.
Qed.

Lemma dec_h_sim m X (o : decE X) x1 x2 : dw_rel m x1 x2 ->
  osim (dw_rel m) (dw_div m) (hout (dec_h X o x1)) (hout (dec_h X o x2)).
Proof.
  intros HR. destruct (is_app o) eqn:Ea; [|left; apply dec_h_sync; assumption].
  pose proof HR as (_ & _ & _ & Hw).
  destruct o; cbn [is_app] in Ea; try discriminate Ea; cbn [dec_h].
  - apply lift_win_osim; [exact HR|]. apply win_append_literal_sim. exact Hw.
  - apply lift_win_osim; [exact HR|]. apply win_append_lz_sim. exact Hw.
Qed.

Lemma dec_h_div m t1 X (o : decE X) x2 : dw_div m t1 x2 -> dw_div m t1 (hst (dec_h X o x2)).
Proof.
  intros H. pose proof (dec_h_keep (wdiv m (win_snk (d_win t1))) true (wdiv_lit _ _) (wdiv_lz _ _) X o x2 H) as K.
  destruct (dec_h X o x2); cbn [hkeep hst] in *; [exact K|apply K; reflexivity|apply K; reflexivity].
Qed.

Theorem interp_dec_sim {A} m (p : dprog A) x1 x2 : dw_rel m x1 x2 ->
  osim (dw_rel m) (dw_div m) (interp dec_h p x1) (interp dec_h p x2).
Proof. apply interp_osim; [apply dec_h_sim|apply dec_h_div]. Qed.

(* programs that never append (the dry run) *)
Fixpoint noapp {A} (p : dprog A) : Prop :=
  match p with
  | Vis o k => is_app o = false /\ forall x, noapp (k x)
  | _ => True
  end.

Lemma noapp_bind {A B} (p : dprog A) (f : A -> dprog B) : noapp p -> (forall a, noapp (f a)) -> noapp (bind p f).
Proof.
  intros Hp Hf. induction p as [a|e|q|X o k IH]; cbn [bind noapp] in *; auto.
  destruct Hp as [Ho Hk]. split; [exact Ho|]. intros x. apply IH. apply Hk.
Qed.
Lemma noapp_call {X} (o : decE X) : is_app o = false -> noapp (dcall o).
Proof. intros H. cbn [call noapp]. split; [exact H|]. intros x. exact I. Qed.

Theorem interp_noapp_sync {A} m (p : dprog A) : noapp p -> forall x1 x2, dw_rel m x1 x2 ->
  fst (interp dec_h p x1) = fst (interp dec_h p x2) /\ dw_rel m (snd (interp dec_h p x1)) (snd (interp dec_h p x2)).
Proof.
  induction p as [a|e|q|X o k IH]; intros Hn x1 x2 HR; cbn [interp fst snd]; try (split; [reflexivity|exact HR]).
  destruct Hn as [Ho Hk]. pose proof (dec_h_sync m X o x1 x2 Ho HR) as [Hf Hs].
  destruct (dec_h X o x1) as [a1 t1|e1 t1|p1 t1]; destruct (dec_h X o x2) as [a2 t2|e2 t2|p2 t2];
    cbn [hout fst snd] in Hf, Hs; try discriminate Hf; inversion Hf; subst.
  - apply IH; [apply Hk|exact Hs].
  - cbn [fst snd]. split; [reflexivity|exact Hs].
  - cbn [fst snd]. split; [reflexivity|exact Hs].
Qed.

Ltac na :=
  repeat match goal with
      | |- noapp (Ret _) => exact I
      | |- noapp (Fail _) => exact I
      | |- noapp (Panic _) => exact I
      | |- noapp (call _) => apply noapp_call; reflexivity
      | |- noapp (bind _ _) => apply noapp_bind; [|intros ?]
      | |- noapp (if ?c then _ else _) => destruct c
      | |- noapp (match ?x with inl _ => _ | inr _ => _ end) => destruct x
      end.

Lemma noapp_bit_tree_loop n mk upd : forall tmp, noapp (bit_tree_loop n mk upd tmp).
Proof. induction n as [|n IH]; intros tmp; cbn [bit_tree_loop]; na. apply IH. Qed.
Lemma noapp_parse_bit_tree nb mk upd : noapp (parse_bit_tree nb mk upd).
Proof. unfold parse_bit_tree. na. apply noapp_bit_tree_loop. Qed.
Lemma noapp_rev_bit_tree_loop n mk off upd : forall i tmp res, noapp (rev_bit_tree_loop n i mk off upd tmp res).
Proof. induction n as [|n IH]; intros i tmp res; cbn [rev_bit_tree_loop]; na. apply IH. Qed.
Lemma noapp_parse_reverse_bit_tree nb mk off upd : noapp (parse_reverse_bit_tree nb mk off upd).
Proof. unfold parse_reverse_bit_tree. apply noapp_rev_bit_tree_loop. Qed.
Lemma noapp_len_decode rep ps upd : noapp (len_decode rep ps upd).
Proof. unfold len_decode. na; apply noapp_parse_bit_tree. Qed.
Lemma noapp_lit_matched_loop f row upd : forall mb res, noapp (lit_matched_loop f row upd mb res).
Proof. induction f as [|f IH]; intros mb res; cbn [lit_matched_loop]; na. apply IH. Qed.
Lemma noapp_lit_plain_loop f row upd : forall res, noapp (lit_plain_loop f row upd res).
Proof. induction f as [|f IH]; intros res; cbn [lit_plain_loop]; na. apply IH. Qed.
Lemma noapp_decode_literal p y upd : noapp (decode_literal p y upd).
Proof. unfold decode_literal. na; try apply noapp_lit_matched_loop; apply noapp_lit_plain_loop. Qed.
Lemma noapp_decode_distance len upd : noapp (decode_distance len upd).
Proof. unfold decode_distance. na; try apply noapp_parse_bit_tree; apply noapp_parse_reverse_bit_tree. Qed.
Lemma noapp_lit_arm p y : noapp (lit_arm p y false).
Proof. unfold lit_arm. na. apply noapp_decode_literal. Qed.
Lemma noapp_rep_select y ps : noapp (rep_select y ps false).
Proof. unfold rep_select. na. Qed.
Lemma noapp_rep_arm y ps : noapp (rep_arm y ps false).
Proof. unfold rep_arm. na; [apply noapp_rep_select|apply noapp_len_decode]. Qed.
Lemma noapp_match_arm y ps : noapp (match_arm y ps false).
Proof. unfold match_arm. na; [apply noapp_len_decode|apply noapp_decode_distance]. Qed.
Theorem noapp_process_next_inner p y : noapp (process_next_inner p y false).
Proof. unfold process_next_inner. na; [apply noapp_lit_arm|apply noapp_rep_arm|apply noapp_match_arm]. Qed.

(* ---- run_sym ---- *)
Definition lw_rel (m : N) (w1 w2 : lw) : Prop :=
  l_ds w1 = l_ds w2 /\ l_rc w1 = l_rc w2 /\ l_src w1 = l_src w2 /\ win_rel m (l_win w1) (l_win w2).
Definition lw_div (m : N) (w1 w2 : lw) : Prop := win_div m (l_win w1) (l_win w2).
Notation lsim m := (osim (lw_rel m) (lw_div m)).

Lemma run_sym_post_sync m d (r1 r2 : outcome (status * sym_st) * dw) :
  fst r1 = fst r2 /\ dw_rel m (snd r1) (snd r2) ->
  let post (r : outcome (status * sym_st) * dw) : outcome status * lw :=
    match r with
    | (Done (st, y), x) =>
        (Done st, mkLw (mkDstate (ds_pib d) (ds_props d) (ds_unpacked d) (d_tabs x) (y_state y) (y_rep y))
                       (d_rc x) (d_src x) (d_win x))
    | (Failed e, x) =>
        (Failed e, mkLw (mkDstate (ds_pib d) (ds_props d) (ds_unpacked d) (d_tabs x) (ds_state d) (ds_rep d))
                        (d_rc x) (d_src x) (d_win x))
    | (Panicked p, x) =>
        (Panicked p, mkLw (mkDstate (ds_pib d) (ds_props d) (ds_unpacked d) (d_tabs x) (ds_state d) (ds_rep d))
                          (d_rc x) (d_src x) (d_win x))
    end in
  fst (post r1) = fst (post r2) /\ lw_rel m (snd (post r1)) (snd (post r2)).
Proof.
  intros [Hf (Et & Er & Es & Hw)] post. subst post.
  destruct r1 as [[[st1 y1]|e1|p1] x1]; destruct r2 as [[[st2 y2]|e2|p2] x2]; cbn [fst snd] in *; try discriminate Hf;
    inversion Hf; subst; (split; [reflexivity|]); unfold lw_rel; cbn [l_ds l_rc l_src l_win]; rewrite Et, Er, Es; auto.
Qed.

Theorem run_sym_sim m upd w1 w2 : lw_rel m w1 w2 -> lsim m (run_sym upd w1) (run_sym upd w2).
Proof.
  intros (Ed & Er & Es & Hw). unfold run_sym. rewrite Ed, Er, Es.
  set (d := l_ds w2).
  set (p := process_next_inner (ds_props d) (mkSym (ds_state d) (ds_rep d)) upd).
  assert (HR : dw_rel m (mkDw (ds_tabs d) (l_rc w2) (l_src w2) (l_win w1)) (mkDw (ds_tabs d) (l_rc w2) (l_src w2) (l_win w2)))
    by (unfold dw_rel; cbn [d_tabs d_rc d_src d_win]; auto).
  pose proof (interp_dec_sim m p _ _ HR) as [Hs|[Hf Hd]].
  - left. exact (run_sym_post_sync m d _ _ Hs).
  - right. destruct (interp dec_h p (mkDw (ds_tabs d) (l_rc w2) (l_src w2) (l_win w1))) as [[[st1 y1]|e1|p1] x1];
      cbn [fst snd] in Hf, Hd; try discriminate Hf. inversion Hf; subst e1.
    cbn [fst snd]. split; [reflexivity|].
    destruct (interp dec_h p (mkDw (ds_tabs d) (l_rc w2) (l_src w2) (l_win w2))) as [[[st2 y2]|e2|p2] x2];
      cbn [snd] in *; unfold lw_div; cbn [l_win]; exact Hd.
Qed.

(* the dry run never appends: always lock step *)
Theorem run_sym_dry_sync m w1 w2 : lw_rel m w1 w2 ->
  fst (run_sym false w1) = fst (run_sym false w2) /\ lw_rel m (snd (run_sym false w1)) (snd (run_sym false w2)).
Proof.
  intros (Ed & Er & Es & Hw). unfold run_sym. rewrite Ed, Er, Es.
  set (d := l_ds w2).
  set (p := process_next_inner (ds_props d) (mkSym (ds_state d) (ds_rep d)) false).
  assert (HR : dw_rel m (mkDw (ds_tabs d) (l_rc w2) (l_src w2) (l_win w1)) (mkDw (ds_tabs d) (l_rc w2) (l_src w2) (l_win w2)))
    by (unfold dw_rel; cbn [d_tabs d_rc d_src d_win]; auto).
  exact (run_sym_post_sync m d _ _ (interp_noapp_sync m p (noapp_process_next_inner _ _) _ _ HR)).
Qed.

Lemma try_process_next_sync m w1 w2 buf : lw_rel m w1 w2 -> try_process_next w1 buf = try_process_next w2 buf.
Proof.
  intros (Ed & Er & Es & Hw). unfold try_process_next.
  assert (HR : lw_rel m (mkLw (l_ds w1) (l_rc w1) (cursor_of buf) (l_win w1)) (mkLw (l_ds w2) (l_rc w2) (cursor_of buf) (l_win w2)))
    by (unfold lw_rel; cbn [l_ds l_rc l_src l_win]; auto).
  pose proof (run_sym_dry_sync m _ _ HR) as [Hf _].
  destruct (run_sym false (mkLw (l_ds w1) _ _ _)) as [[s1|e1|p1] t1]; destruct (run_sym false (mkLw (l_ds w2) _ _ _)) as [[s2|e2|p2] t2];
    cbn [fst] in Hf; try discriminate Hf; inversion Hf; reflexivity.
Qed.

Lemma read_partial_input_buf_sync m w1 w2 : lw_rel m w1 w2 ->
  fst (read_partial_input_buf w1) = fst (read_partial_input_buf w2) /\
  lw_rel m (snd (read_partial_input_buf w1)) (snd (read_partial_input_buf w2)).
Proof.
  intros HR. pose proof HR as (Ed & Er & Es & Hw). unfold read_partial_input_buf. rewrite Ed, Es.
  destruct (MAX_REQUIRED_INPUT <? nlen (ds_pib (l_ds w2))); [cbn [fst snd]; split; [reflexivity|exact HR]|].
  destruct (src_run _ _) as [[got|e|p] s]; cbn [fst snd]; (split; [reflexivity|]);
    unfold lw_rel; cbn [l_ds l_rc l_src l_win]; rewrite ?Ed; auto.
Qed.

(* ---- pm_body ---- *)
Lemma pm_head_sync m mode w1 w2 : lw_rel m w1 w2 ->
  fst (pm_head mode w1) = fst (pm_head mode w2) /\ lw_rel m (snd (pm_head mode w1)) (snd (pm_head mode w2)).
Proof.
  intros HR. pose proof HR as (Ed & Er & Es & Hw). unfold pm_head. rewrite Ed, Er, Es.
  destruct (ds_unpacked (l_ds w2)) as [us|].
  - cbn [fst snd]. rewrite (win_rel_len m _ _ Hw). split; [reflexivity|exact HR].
  - destruct mode.
    + destruct (src_run is_eof (l_src w2)) as [[b|e|p] s]; cbn [fst snd]; (split; [reflexivity|]);
        unfold lw_rel; cbn [l_ds l_rc l_src l_win]; auto.
    + destruct (rep0 (ds_rep (l_ds w2)) =? 4294967295); [|cbn [fst snd]; split; [reflexivity|exact HR]].
      destruct (src_run (rc_is_finished_ok (l_rc w2)) (l_src w2)) as [[b|e|p] s]; cbn [fst snd]; (split; [reflexivity|]);
        unfold lw_rel; cbn [l_ds l_rc l_src l_win]; auto.
Qed.

(* how two loop bodies are related: lock step, or the limited one stops with ELzma *)
Definition pm_sim (m : N) : step lw pm_result -> step lw pm_result -> Prop :=
  step_sim (lw_rel m) (lsim m) (fun r1 t2 => fst r1 = Failed ELzma /\ lw_div m (snd r1) t2).

Lemma pm_sim_break_sync m (r : outcome unit) w1 w2 : lw_rel m w1 w2 -> pm_sim m (Break (r, w1)) (Break (r, w2)).
Proof. intros H. left. split; [reflexivity|exact H]. Qed.

Lemma pm_tail_sim m mode w1 w2 : lw_rel m w1 w2 -> pm_sim m (pm_tail mode w1) (pm_tail mode w2).
Proof.
  intros HR. pose proof HR as (Ed & Er & Es & Hw). unfold pm_tail. rewrite Ed.
  destruct (0 <? nlen (ds_pib (l_ds w2))).
  - (* through the partial input buffer *)
    pose proof (read_partial_input_buf_sync m w1 w2 HR) as [Hf H2].
    destruct (read_partial_input_buf w1) as [[[]|e|p] v1]; destruct (read_partial_input_buf w2) as [[[]|e2|p2] v2];
      cbn [fst snd] in Hf, H2; try discriminate Hf; try (inversion Hf; subst; apply pm_sim_break_sync; exact H2).
    cbv zeta. pose proof H2 as (Ed2 & Er2 & Es2 & Hw2). rewrite Ed2.
    assert (TAIL : pm_sim m
      (match run_sym true (mkLw (l_ds v2) (l_rc v1) (cursor_of (ds_pib (l_ds v2))) (l_win v1)) with
       | (Failed e, t) => Break (Failed e, mkLw (l_ds t) (l_rc v1) (l_src v1) (l_win t))
       | (Panicked p, t) => Break (Panicked p, mkLw (l_ds t) (l_rc v1) (l_src v1) (l_win t))
       | (Done res, t) =>
           if nlen (ds_pib (l_ds v2)) <? s_pos (l_src t) then Break (Panicked (POverflow 40), v1) else
           match res with
           | Finished => Break (Done tt, mkLw (set_pib (l_ds t) (nskipn (s_pos (l_src t)) (ds_pib (l_ds v2)))) (l_rc t) (l_src v1) (l_win t))
           | Continue => Next (mkLw (set_pib (l_ds t) (nskipn (s_pos (l_src t)) (ds_pib (l_ds v2)))) (l_rc t) (l_src v1) (l_win t))
           end
       end)
      (match run_sym true (mkLw (l_ds v2) (l_rc v2) (cursor_of (ds_pib (l_ds v2))) (l_win v2)) with
       | (Failed e, t) => Break (Failed e, mkLw (l_ds t) (l_rc v2) (l_src v2) (l_win t))
       | (Panicked p, t) => Break (Panicked p, mkLw (l_ds t) (l_rc v2) (l_src v2) (l_win t))
       | (Done res, t) =>
           if nlen (ds_pib (l_ds v2)) <? s_pos (l_src t) then Break (Panicked (POverflow 40), v2) else
           match res with
           | Finished => Break (Done tt, mkLw (set_pib (l_ds t) (nskipn (s_pos (l_src t)) (ds_pib (l_ds v2)))) (l_rc t) (l_src v2) (l_win t))
           | Continue => Next (mkLw (set_pib (l_ds t) (nskipn (s_pos (l_src t)) (ds_pib (l_ds v2)))) (l_rc t) (l_src v2) (l_win t))
           end
       end)).
    { assert (HR3 : lw_rel m (mkLw (l_ds v2) (l_rc v1) (cursor_of (ds_pib (l_ds v2))) (l_win v1))
                             (mkLw (l_ds v2) (l_rc v2) (cursor_of (ds_pib (l_ds v2))) (l_win v2)))
        by (unfold lw_rel; cbn [l_ds l_rc l_src l_win]; auto).
      pose proof (run_sym_cursor_pos true (l_ds v2) (l_rc v1) (l_win v1) (ds_pib (l_ds v2))) as P1.
      pose proof (run_sym_cursor_pos true (l_ds v2) (l_rc v2) (l_win v2) (ds_pib (l_ds v2))) as P2.
      pose proof (run_sym_sim m true _ _ HR3) as [[Hf3 (Ed3 & Er3 & Es3 & Hw3)]|[Hf3 Hd3]].
      - destruct (run_sym true (mkLw (l_ds v2) (l_rc v1) _ _)) as [[res1|e1|p1] t1];
          destruct (run_sym true (mkLw (l_ds v2) (l_rc v2) _ _)) as [[res2|e2|p2] t2];
          cbn [fst snd] in *; try discriminate Hf3; inversion Hf3; subst.
        + rewrite Es3. destruct (_ <? _); [apply pm_sim_break_sync; exact H2|].
          rewrite Ed3, Er3, Es2.
          destruct res2; [|apply pm_sim_break_sync]; unfold pm_sim, step_sim, lw_rel; cbn [l_ds l_rc l_src l_win]; auto.
        + apply pm_sim_break_sync. unfold lw_rel; cbn [l_ds l_rc l_src l_win]; auto.
        + apply pm_sim_break_sync. unfold lw_rel; cbn [l_ds l_rc l_src l_win]; auto.
      - destruct (run_sym true (mkLw (l_ds v2) (l_rc v1) _ _)) as [[res1|e1|p1] t1]; cbn [fst snd] in *; try discriminate Hf3.
        inversion Hf3; subst e1.
        destruct (run_sym true (mkLw (l_ds v2) (l_rc v2) _ _)) as [[res2|e2|p2] t2]; cbn [snd] in *.
        + destruct (N.ltb_spec (nlen (ds_pib (l_ds v2))) (s_pos (l_src t2))) as [C|_]; [lia|].
          destruct res2; unfold pm_sim, step_sim; [|right]; cbn [fst snd]; (split; [reflexivity|]);
              unfold lw_div; cbn [l_win]; exact Hd3.
        + unfold pm_sim, step_sim. right. cbn [fst snd]. split; [reflexivity|]. unfold lw_div; cbn [l_win]; exact Hd3.
        + unfold pm_sim, step_sim. right. cbn [fst snd]. split; [reflexivity|]. unfold lw_div; cbn [l_win]; exact Hd3. }
    rewrite (try_process_next_sync m v1 v2 _ H2).
    destruct mode; [|exact TAIL].
    destruct (_ <? _); [|exact TAIL].
    destruct (try_process_next v2 _) as [[|]|e|q]; try exact TAIL; apply pm_sim_break_sync; exact H2.
  - rewrite Es.
    destruct (src_run (icall FillBuf) (l_src w2)) as [[buf|e|p] s].
    2:{ apply pm_sim_break_sync. unfold lw_rel; cbn [l_ds l_rc l_src l_win]; auto. }
    2:{ apply pm_sim_break_sync. unfold lw_rel; cbn [l_ds l_rc l_src l_win]; auto. }
    cbv zeta.
    assert (HR2 : lw_rel m (mkLw (l_ds w2) (l_rc w1) s (l_win w1)) (mkLw (l_ds w2) (l_rc w2) s (l_win w2)))
      by (unfold lw_rel; cbn [l_ds l_rc l_src l_win]; auto).
    assert (TAIL : pm_sim m
      (match run_sym true (mkLw (l_ds w2) (l_rc w1) s (l_win w1)) with
       | (Failed e, w3) => Break (Failed e, w3)
       | (Panicked p, w3) => Break (Panicked p, w3)
       | (Done Finished, w3) => Break (Done tt, w3)
       | (Done Continue, w3) => Next w3
       end)
      (match run_sym true (mkLw (l_ds w2) (l_rc w2) s (l_win w2)) with
       | (Failed e, w3) => Break (Failed e, w3)
       | (Panicked p, w3) => Break (Panicked p, w3)
       | (Done Finished, w3) => Break (Done tt, w3)
       | (Done Continue, w3) => Next w3
       end)).
    { pose proof (run_sym_sim m true _ _ HR2) as [[Hf3 HR3]|[Hf3 Hd3]].
      - destruct (run_sym true (mkLw (l_ds w2) (l_rc w1) _ _)) as [[res1|e1|p1] t1];
          destruct (run_sym true (mkLw (l_ds w2) (l_rc w2) _ _)) as [[res2|e2|p2] t2];
          cbn [fst snd] in *; try discriminate Hf3; inversion Hf3; subst.
        + destruct res2; [exact HR3|apply pm_sim_break_sync; exact HR3].
        + apply pm_sim_break_sync; exact HR3.
        + apply pm_sim_break_sync; exact HR3.
      - destruct (run_sym true (mkLw (l_ds w2) (l_rc w1) _ _)) as [[res1|e1|p1] t1]; cbn [fst snd] in *; try discriminate Hf3.
        inversion Hf3; subst e1.
        destruct (run_sym true (mkLw (l_ds w2) (l_rc w2) _ _)) as [[[|]|e2|p2] t2]; cbn [snd] in *;
          unfold pm_sim, step_sim; [|right|right|right]; cbn [fst snd]; (split; [reflexivity|exact Hd3]). }
    rewrite (try_process_next_sync m _ _ (visible buf) HR2).
    destruct mode; [|exact TAIL].
    destruct (_ <? _); [|exact TAIL].
    destruct (try_process_next _ _) as [[|]|e|q]; try exact TAIL; try (apply pm_sim_break_sync; exact HR2).
    pose proof (read_partial_input_buf_sync m _ _ HR2) as [Hf4 H4].
    destruct (read_partial_input_buf (mkLw (l_ds w2) (l_rc w1) _ _)) as [r41 v41];
      destruct (read_partial_input_buf (mkLw (l_ds w2) (l_rc w2) _ _)) as [r42 v42]; cbn [fst snd] in *. subst r42.
    apply pm_sim_break_sync. exact H4.
Qed.

Theorem pm_body_sim m mode w1 w2 : lw_rel m w1 w2 -> pm_sim m (pm_body mode w1) (pm_body mode w2).
Proof.
  intros HR. rewrite !pm_body_split. pose proof (pm_head_sync m mode w1 w2 HR) as [Hf H1].
  destruct (pm_head mode w1) as [[[|]|e1|p1] v1]; destruct (pm_head mode w2) as [[[|]|e2|p2] v2];
    cbn [fst snd] in Hf, H1; try discriminate Hf; inversion Hf; subst; try (apply pm_sim_break_sync; exact H1).
  apply pm_tail_sim. exact H1.
Qed.

(* after the limited run has stopped, the other run stays diverged *)
Lemma pm_body_div m mode (r1 : pm_result) w2 : lw_div m (snd r1) w2 ->
  match pm_body mode w2 with
  | Next t2 => lw_div m (snd r1) t2
  | Break r2 => lw_div m (snd r1) (snd r2)
  end.
Proof.
  intros H.
  pose proof (pm_body_keep (wdiv m (win_snk (l_win (snd r1)))) true (wdiv_lit _ _) (wdiv_lz _ _) mode w2 H) as K.
  destruct (pm_body mode w2) as [t2|r2]; [exact K|]. apply K. right. reflexivity.
Qed.

Theorem process_mode_sim m mode fuel w1 w2 : lw_rel m w1 w2 ->
  lsim m (process_mode mode fuel w1) (process_mode mode fuel w2).
Proof.
  intros HR. unfold process_mode.
  pose proof (loopN_sim_div (pm_body mode) (pm_body mode) (lw_rel m) (lsim m)
                (fun r1 t2 => fst r1 = Failed ELzma /\ lw_div m (snd r1) t2)) as L.
  assert (Hb : forall s1 s2, lw_rel m s1 s2 ->
     step_sim (lw_rel m) (lsim m) (fun r1 t2 => fst r1 = Failed ELzma /\ lw_div m (snd r1) t2) (pm_body mode s1) (pm_body mode s2))
    by (intros s1 s2 Hs; apply pm_body_sim; exact Hs).
  assert (Hd : forall (r1 : pm_result) s2, fst r1 = Failed ELzma /\ lw_div m (snd r1) s2 ->
     match pm_body mode s2 with
     | Next t2 => fst r1 = Failed ELzma /\ lw_div m (snd r1) t2
     | Break r2 => lsim m r1 r2
     end).
  { intros r1 s2 [Hf Hdv]. pose proof (pm_body_div m mode r1 s2 Hdv) as K.
    destruct (pm_body mode s2) as [t2|r2]; [split; assumption|right; split; assumption]. }
  specialize (L Hb Hd fuel w1 w2 HR). clear Hb Hd. unfold step_sim in L.
  destruct (loopN fuel (pm_body mode) w1) as [t1|[r1 t1]]; destruct (loopN fuel (pm_body mode) w2) as [t2|[r2 t2]];
    try contradiction.
  - left. cbn [fst snd]. split; [reflexivity|exact L].
  - cbn [fst snd] in L. destruct L as [Hf Hdv]. subst r1. right. cbn [fst snd]. split; [reflexivity|exact Hdv].
  - destruct L as [[Hf Hs]|[Hf Hdv]]; cbn [fst snd] in *.
    + subst r2. destruct r1 as [[]|e|p]; try (left; cbn [fst snd]; split; [reflexivity|exact Hs]).
      pose proof Hs as (Ed & _ & _ & Hw). rewrite Ed, (win_rel_len m _ _ Hw).
      destruct (ds_unpacked (l_ds t2)); [destruct mode|]; try (left; cbn [fst snd]; split; [reflexivity|exact Hs]).
      destruct (_ =? _); left; cbn [fst snd]; (split; [reflexivity|exact Hs]).
    + subst r1. right. split; [reflexivity|].
      match goal with |- lw_div m _ (snd ?x) => replace (snd x) with t2; [exact Hdv|] end.
      destruct r2 as [[]|e|p]; try reflexivity. destruct (ds_unpacked (l_ds t2)); [destruct mode|]; try reflexivity.
      destruct (_ =? _); reflexivity.
Qed.
Print Assumptions process_mode_sim.

(* the two alternatives are told apart by the final buffer length of the second run *)
Theorem process_mode_mem_exact m mode fuel w1 w2 : lw_rel m w1 w2 ->
  let r1 := process_mode mode fuel w1 in let r2 := process_mode mode fuel w2 in
  (win_blen (l_win (snd r2)) <= m -> fst r1 = fst r2 /\ lw_rel m (snd r1) (snd r2)) /\
  (m < win_blen (l_win (snd r2)) ->
     fst r1 = Failed ELzma /\ ext (win_snk (l_win (snd r1))) (win_snk (l_win (snd r2)))).
Proof.
  intros HR r1 r2. pose proof (process_mode_sim m mode fuel w1 w2 HR) as S. fold r1 r2 in S.
  split; intros Hl.
  - destruct S as [S|[_ [_ Hd]]]; [exact S|lia].
  - destruct S as [[_ (_ & _ & _ & Hw)]|[Hf [He _]]]; [|split; assumption].
    pose proof (win_rel_blen m _ _ Hw). lia.
Qed.
Print Assumptions process_mode_mem_exact.

(* ------------------------------------------------------------------ *)
(* 3. whole runs                                                        *)
(* ------------------------------------------------------------------ *)
Definition mem_of (ml : option N) : N := match ml with Some m => m | None => USIZE - 1 end.
Definition with_mem (o : options) (ml : option N) : options := mkOptions (o_unpacked o) ml (o_allow_incomplete o).

(* ghost: the state in which the process_mode call of LzmaDecoder::decompress ends, and the
   length its window buffer has reached (c_blen never shrinks, so this is the peak) *)
Definition lzma_decoder_final_lw (fuel : positive) (dec : lzma_decoder) (w : io) : option lw :=
  match src_run (map_io_err ELzma rc_new) (i_src w) with
  | (Done r, s) =>
      Some (snd (process_mode FinishMode fuel
                   (mkLw (ld_state dec) r s (WCirc (circ_new (i_snk w) (pr_dict (ld_params dec)) (ld_memlimit dec))))))
  | _ => None
  end.
Definition lzma_decoder_peak (fuel : positive) (dec : lzma_decoder) (w : io) : N :=
  match lzma_decoder_final_lw fuel dec w with Some x => win_blen (l_win x) | None => 0 end.
Definition lzma_peak (fuel : positive) (o : options) (w : io) : N :=
  match src_run (map_io_err EHeaderTooShort (read_header o)) (i_src w) with
  | (Done p, s) =>
      match lzma_decoder_new p (o_memlimit o) with
      | Done dec => lzma_decoder_peak fuel dec (mkIo s (i_snk w))
      | _ => 0
      end
  | _ => 0
  end.

Lemma circ_new_related k dict m m2 : m <= m2 -> mem_related m (circ_new k dict m) (circ_new k dict m2).
Proof.
  intros H. unfold mem_related, circ_new. cbn [c_buf c_blen c_dict c_mem c_cursor c_len c_snk].
  repeat split; try reflexivity; [exact H|lia].
Qed.

Lemma circ_finish_related m c1 c2 : mem_related m c1 c2 -> circ_finish c1 = circ_finish c2.
Proof. intros (E1 & _ & _ & E2 & _ & E3 & _). unfold circ_finish. rewrite E1, E2, E3. reflexivity. Qed.

Theorem lzma_decoder_mem_exact fuel dec1 dec2 m w :
  ld_params dec1 = ld_params dec2 -> ld_state dec1 = ld_state dec2 ->
  ld_memlimit dec1 = m -> m <= ld_memlimit dec2 ->
  let r1 := lzma_decoder_decompress fuel dec1 w in
  let r2 := lzma_decoder_decompress fuel dec2 w in
  let peak := lzma_decoder_peak fuel dec2 w in
  (peak <= m -> fst r1 = fst r2 /\ snd (snd r1) = snd (snd r2) /\ ld_state (fst (snd r1)) = ld_state (fst (snd r2))) /\
  (m < peak -> fst r1 = Failed ELzma /\ ext (i_snk (snd (snd r1))) (i_snk (snd (snd r2)))).
Proof.
  intros Ep Es Em Hm. unfold lzma_decoder_peak, lzma_decoder_final_lw, lzma_decoder_decompress. cbv zeta.
  rewrite Ep, Es, Em.
  destruct (src_run (map_io_err ELzma rc_new) (i_src w)) as [[r|e|p] s].
  2:{ cbn [fst snd]. split; [intros _; auto|intros C; lia]. }
  2:{ cbn [fst snd]. split; [intros _; auto|intros C; lia]. }
  assert (HR : lw_rel m (mkLw (ld_state dec2) r s (WCirc (circ_new (i_snk w) (pr_dict (ld_params dec2)) m)))
                        (mkLw (ld_state dec2) r s (WCirc (circ_new (i_snk w) (pr_dict (ld_params dec2)) (ld_memlimit dec2)))))
    by (unfold lw_rel; cbn [l_ds l_rc l_src l_win win_rel]; split; [reflexivity|split; [reflexivity|split; [reflexivity|apply circ_new_related; exact Hm]]]).
  pose proof (process_mode_mem_exact m FinishMode fuel _ _ HR) as [A B]. cbv zeta in A, B.
  destruct (process_mode FinishMode fuel (mkLw (ld_state dec2) r s (WCirc (circ_new (i_snk w) (pr_dict (ld_params dec2)) m)))) as [o1 x1].
  destruct (process_mode FinishMode fuel (mkLw (ld_state dec2) r s (WCirc (circ_new (i_snk w) (pr_dict (ld_params dec2)) (ld_memlimit dec2))))) as [o2 x2].
  cbn [fst snd] in *. split; intros Hl.
  - destruct (A Hl) as [Ho (Ed & Er & Esr & Hw)]. subst o2. rewrite Ed, Esr.
    destruct o1 as [[]|e|p].
    + destruct (l_win x1) as [c1|a1]; destruct (l_win x2) as [c2|a2]; cbn [win_rel] in Hw; try contradiction.
      * rewrite (circ_finish_related m c1 c2 Hw). destruct (circ_finish c2) as [[[]|e|p] k]; cbn [fst snd ld_state]; auto.
      * subst a2. cbn [fst snd ld_state]. auto.
    + cbn [fst snd ld_state]. rewrite (win_rel_snk m _ _ Hw). auto.
    + cbn [fst snd ld_state]. rewrite (win_rel_snk m _ _ Hw). auto.
  - destruct (B Hl) as [Ho He]. subst o1. cbn [fst snd i_snk]. split; [reflexivity|].
    destruct o2 as [[]|e|p]; cbn [fst snd i_snk]; try exact He.
    destruct (l_win x2) as [c2|a2]; cbn [win_snk] in *.
    + pose proof (circ_finish_ext c2) as F. destruct (circ_finish c2) as [[[]|e|p] k]; cbn [fst snd i_snk] in *;
        eapply ext_trans; eassumption.
    + cbn [fst snd i_snk]. exact He.
Qed.
Print Assumptions lzma_decoder_mem_exact.

(* C10 for lzma_decompress.  [ml2] is the larger limit (None = no limit), [m] the smaller one. *)
Theorem mem_limit_exact fuel o ml2 m w : m <= mem_of ml2 ->
  let r1 := lzma_decompress fuel (with_mem o (Some m)) w in
  let r2 := lzma_decompress fuel (with_mem o ml2) w in
  let peak := lzma_peak fuel (with_mem o ml2) w in
  (peak <= m -> r1 = r2) /\
  (m < peak -> fst r1 = Failed ELzma /\
               exists t, snk_bytes (i_snk (snd r2)) = snk_bytes (i_snk (snd r1)) ++ t).
Proof.
  intros Hm. unfold lzma_peak, lzma_decompress.
  assert (Eh : read_header (with_mem o (Some m)) = read_header (with_mem o ml2)) by reflexivity.
  rewrite Eh. cbn [o_memlimit with_mem].
  destruct (src_run (map_io_err EHeaderTooShort (read_header (with_mem o ml2))) (i_src w)) as [[p|e|q] s].
  2:{ cbn [fst snd]. split; [reflexivity|intros C; lia]. }
  2:{ cbn [fst snd]. split; [reflexivity|intros C; lia]. }
  unfold lzma_decoder_new. destruct (pr_dict p =? 0); [cbn [fst snd]; split; [reflexivity|intros C; lia]|].
  destruct (dstate_new (pr_props p) (pr_unpacked p)) as [[d|e|q] []].
  2:{ cbn [fst snd]. split; [reflexivity|intros C; lia]. }
  2:{ cbn [fst snd]. split; [reflexivity|intros C; lia]. }
  fold (mem_of ml2).
  pose proof (lzma_decoder_mem_exact fuel (mkLzmaDecoder p m d) (mkLzmaDecoder p (mem_of ml2) d) m (mkIo s (i_snk w))
                eq_refl eq_refl eq_refl Hm) as [A B]. cbv zeta in A, B.
  destruct (lzma_decoder_decompress fuel (mkLzmaDecoder p m d) (mkIo s (i_snk w))) as [o1 [d1 w1]].
  destruct (lzma_decoder_decompress fuel (mkLzmaDecoder p (mem_of ml2) d) (mkIo s (i_snk w))) as [o2 [d2 w2]].
  cbn [fst snd] in *. split; intros Hl.
  - destruct (A Hl) as (-> & -> & _). reflexivity.
  - exact (B Hl).
Qed.
Print Assumptions mem_limit_exact.

(* ---- the buffer never exceeds the limit (no assumption on the input at all) ---- *)
Definition blen_ok (m : N) (w : win) : Prop :=
  match w with WCirc c => c_mem c = m /\ c_blen c <= m | WAccum _ => True end.

Lemma circ_set_blen_ok b i v : c_blen b <= c_mem b -> c_blen (snd (circ_set b i v)) <= c_mem b.
Proof.
  intros H. unfold circ_set. destruct (N.ltb_spec (c_blen b) (i + 1)); [destruct (N.leb_spec (i + 1) (c_mem b))|];
    cbn [snd c_blen]; lia.
Qed.

Lemma circ_append_literal_blen_ok b lit : c_blen b <= c_mem b -> c_blen (snd (circ_append_literal b lit)) <= c_mem b.
Proof.
  intros H. rewrite circ_append_literal_split. pose proof (circ_set_blen_ok b (c_cursor b) lit H) as H1.
  destruct (circ_set b (c_cursor b) lit) as [[[]|e|p] b1]; cbn [snd] in *; try exact H1.
  rewrite lit_tail_blen. exact H1.
Qed.

Lemma circ_lz_loop_blen_ok n : forall b off, c_blen b <= c_mem b -> c_blen (snd (circ_lz_loop n b off)) <= c_mem b.
Proof.
  induction n as [|n IH]; intros b off H; cbn [circ_lz_loop]; [exact H|].
  pose proof (circ_append_literal_blen_ok b (circ_get b off) H) as H1.
  pose proof (circ_append_literal_mem b (circ_get b off)) as H2.
  destruct (circ_append_literal b (circ_get b off)) as [[[]|e|p] b1]; cbn [snd] in *; try exact H1.
  rewrite <- H2. apply IH. rewrite H2. exact H1.
Qed.

Lemma circ_append_lz_blen_ok b len dist : c_blen b <= c_mem b -> c_blen (snd (circ_append_lz b len dist)) <= c_mem b.
Proof.
  intros H. unfold circ_append_lz.
  destruct (c_dict b <? dist); [exact H|]. destruct (c_len b <? dist); [exact H|].
  destruct (c_dict b =? 0); [exact H|]. apply circ_lz_loop_blen_ok. exact H.
Qed.

Lemma blen_ok_lit m w b : blen_ok m w ->
  keep (blen_ok m) true (fst (win_append_literal w b)) (snd (win_append_literal w b)).
Proof.
  intros H _. destruct w as [c|a]; cbn [win_append_literal lift_c lift_a snd blen_ok] in *; [|exact I].
  destruct H as [Em Hl]. rewrite circ_append_literal_mem. split; [exact Em|].
  rewrite <- Em. apply circ_append_literal_blen_ok. rewrite Em. exact Hl.
Qed.
Lemma blen_ok_lz m w len dist : blen_ok m w ->
  keep (blen_ok m) true (fst (win_append_lz w len dist)) (snd (win_append_lz w len dist)).
Proof.
  intros H _. destruct w as [c|a]; cbn [win_append_lz lift_c lift_a snd blen_ok] in *; [|exact I].
  destruct H as [Em Hl]. rewrite circ_append_lz_mem. split; [exact Em|].
  rewrite <- Em. apply circ_append_lz_blen_ok. rewrite Em. exact Hl.
Qed.

Lemma circ_new_blen_ok k dict m : blen_ok m (WCirc (circ_new k dict m)).
Proof. cbn [blen_ok circ_new c_mem c_blen]. split; [reflexivity|lia]. Qed.

(* every state the symbol decoder can reach from a state within the limit is within the limit;
   [p] is an arbitrary decoder program, so this covers every intermediate state *)
Theorem mem_never_exceeded_interp {A} m (p : dprog A) x : blen_ok m (d_win x) -> blen_ok m (d_win (snd (interp dec_h p x))).
Proof.
  intros H. apply (interp_dec_keep (blen_ok m) true (blen_ok_lit m) (blen_ok_lz m) p x H). right. reflexivity.
Qed.

Theorem mem_never_exceeded_run_sym m upd w : blen_ok m (l_win w) -> blen_ok m (l_win (snd (run_sym upd w))).
Proof.
  intros H. apply (run_sym_keep (blen_ok m) true (blen_ok_lit m) (blen_ok_lz m) upd w H). right. reflexivity.
Qed.

Theorem mem_never_exceeded_body m mode w : blen_ok m (l_win w) ->
  match pm_body mode w with Next w' => blen_ok m (l_win w') | Break r => blen_ok m (l_win (snd r)) end.
Proof.
  intros H. pose proof (pm_body_keep (blen_ok m) true (blen_ok_lit m) (blen_ok_lz m) mode w H) as K.
  destruct (pm_body mode w) as [w'|r]; [exact K|]. apply K. right. reflexivity.
Qed.

Theorem mem_never_exceeded_process_mode m mode fuel w : blen_ok m (l_win w) ->
  blen_ok m (l_win (snd (process_mode mode fuel w))).
Proof.
  intros H. apply (process_mode_keep (blen_ok m) true (blen_ok_lit m) (blen_ok_lz m) mode fuel w H). right. reflexivity.
Qed.

(* in every state reachable from circ_new k dict m - after any number of loop iterations, any
   fuel, either mode, any input - the buffer holds at most m bytes *)
Theorem mem_never_exceeded m mode k dict d r s n :
  match iter_step n (pm_body mode) (mkLw d r s (WCirc (circ_new k dict m))) with
  | Next w' => blen_ok m (l_win w')
  | Break res => blen_ok m (l_win (snd res))
  end.
Proof.
  apply (iter_step_inv (pm_body mode) (fun w => blen_ok m (l_win w)) (fun res => blen_ok m (l_win (snd res)))).
  - intros s0 s1 Hs E. pose proof (mem_never_exceeded_body m mode s0 Hs) as H. rewrite E in H. exact H.
  - intros s0 r0 Hs E. pose proof (mem_never_exceeded_body m mode s0 Hs) as H. rewrite E in H. exact H.
  - apply circ_new_blen_ok.
Qed.
Print Assumptions mem_never_exceeded.

Theorem lzma_peak_within_limit fuel o w : lzma_peak fuel o w <= mem_of (o_memlimit o).
Proof.
  unfold lzma_peak.
  destruct (src_run _ _) as [[p|e|q] s]; [|apply N.le_0_l|apply N.le_0_l].
  unfold lzma_decoder_new. destruct (pr_dict p =? 0); [apply N.le_0_l|].
  destruct (dstate_new (pr_props p) (pr_unpacked p)) as [[d|e|q] []]; [|apply N.le_0_l|apply N.le_0_l].
  fold (mem_of (o_memlimit o)). unfold lzma_decoder_peak, lzma_decoder_final_lw. cbn [ld_state ld_params ld_memlimit i_src i_snk].
  destruct (src_run (map_io_err ELzma rc_new) s) as [[r|e|q] s']; [|apply N.le_0_l|apply N.le_0_l].
  pose proof (mem_never_exceeded_process_mode (mem_of (o_memlimit o)) FinishMode fuel _
                (circ_new_blen_ok (i_snk w) (pr_dict p) (mem_of (o_memlimit o))
                 : blen_ok _ (l_win (mkLw d r s' (WCirc (circ_new (i_snk w) (pr_dict p) (mem_of (o_memlimit o)))))))) as H.
  destruct (l_win (snd (process_mode FinishMode fuel _))) as [c|a]; cbn [blen_ok win_blen] in *; [lia|apply N.le_0_l].
Qed.
Print Assumptions lzma_peak_within_limit.

(* the same for two arbitrary option records that agree on the size option *)
Lemma lzma_decompress_opts fuel o1 o2 w : o_unpacked o1 = o_unpacked o2 -> o_memlimit o1 = o_memlimit o2 ->
  lzma_decompress fuel o1 w = lzma_decompress fuel o2 w.
Proof.
  destruct o1 as [u1 ml1 a1], o2 as [u2 ml2 a2]. cbn [o_unpacked o_memlimit]. intros -> ->.
  unfold lzma_decompress, read_header. reflexivity.
Qed.
Lemma lzma_peak_opts fuel o1 o2 w : o_unpacked o1 = o_unpacked o2 -> o_memlimit o1 = o_memlimit o2 ->
  lzma_peak fuel o1 w = lzma_peak fuel o2 w.
Proof.
  destruct o1 as [u1 ml1 a1], o2 as [u2 ml2 a2]. cbn [o_unpacked o_memlimit]. intros -> ->.
  unfold lzma_peak, read_header. reflexivity.
Qed.

Corollary mem_limit_exact_opts fuel o1 o2 m w :
  o_unpacked o1 = o_unpacked o2 -> o_memlimit o1 = Some m -> m <= mem_of (o_memlimit o2) ->
  let r1 := lzma_decompress fuel o1 w in
  let r2 := lzma_decompress fuel o2 w in
  let peak := lzma_peak fuel o2 w in
  (peak <= m -> r1 = r2) /\
  (m < peak -> fst r1 = Failed ELzma /\
               exists t, snk_bytes (i_snk (snd r2)) = snk_bytes (i_snk (snd r1)) ++ t).
Proof.
  intros Eu Em Hm. cbv zeta.
  rewrite (lzma_decompress_opts fuel o1 (with_mem o2 (Some m)) w) by (unfold with_mem; cbn [o_unpacked o_memlimit]; auto).
  rewrite (lzma_decompress_opts fuel o2 (with_mem o2 (o_memlimit o2)) w) by reflexivity.
  rewrite (lzma_peak_opts fuel o2 (with_mem o2 (o_memlimit o2)) w) by reflexivity.
  exact (mem_limit_exact fuel o2 (o_memlimit o2) m w Hm).
Qed.
Print Assumptions mem_limit_exact_opts.

(* the limited run never panics where the other one did not, and never reports success with a
   different output: every verdict of the limited run is either the verdict of the other run or
   Failed ELzma *)
Corollary mem_limit_verdict fuel o ml2 m w : m <= mem_of ml2 ->
  fst (lzma_decompress fuel (with_mem o (Some m)) w) = fst (lzma_decompress fuel (with_mem o ml2) w) \/
  fst (lzma_decompress fuel (with_mem o (Some m)) w) = Failed ELzma.
Proof.
  intros Hm. destruct (mem_limit_exact fuel o ml2 m w Hm) as [A B].
  destruct (N.le_gt_cases (lzma_peak fuel (with_mem o ml2) w) m) as [H|H].
  - left. rewrite (A H). reflexivity.
  - right. exact (proj1 (B H)).
Qed.
Print Assumptions mem_limit_verdict.
