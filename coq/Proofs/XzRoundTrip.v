(* C04 (XZ writer), direct round trip: xz_decompress accepts every file written by xz_compress
   and hands the sink the original data - for every fragmentation of both readers and every
   sink that does not fail a write.  Forward (completeness) reasoning through the decoder on
   the concrete single-block shape that the writer produces. *)
From LZ Require Import Base.Prelude Base.Prog Model.Io Model.Tables Model.LzBuffer Model.RangeDec Model.Lzma Model.Lzma2
  Model.Crc Model.Xz Model.Enc
  Proofs.ProgLemmas Proofs.IoLemmas Proofs.IoInv Proofs.XzSound Proofs.EncCarry Proofs.Lzma2EncConform Proofs.XzEncConform.
From Coq Require Import ZifyBool ZifyNat ZifyN.
Ltac Zify.zify_post_hook ::= Z.div_mod_to_equations.
Local Open Scope prog_scope.
Local Open Scope N_scope.

(* ================================================================== *)
(* forward specifications of the readers on a fault-free source        *)
(* ================================================================== *)
Lemma io_read_buf_ff s n : FaultFree s -> 0 < n ->
  exists g s', io_runs (read_buf n) s (Done (nfirstn g (s_rest s))) s' /\
    g <= n /\ g <= nlen (s_rest s) /\ s_rest s' = nskipn g (s_rest s) /\ s_pos s' = s_pos s + g /\
    FaultFree s' /\ (s_rest s <> [] -> 1 <= g).
Proof.
  intros Hs Hn.
  destruct (io_read_buf_spec s n (FaultFree_L s Hs) Hn) as (g & s1 & Hrun & Hgn & Hgl & _ & Hr1 & Hp1 & Hl1 & Hs1 & Hprog).
  exists g, s1. split; [exact Hrun|]. split; [exact Hgn|]. split; [exact Hgl|]. split; [exact Hr1|]. split; [exact Hp1|].
  split.
  - apply FaultFreeL_None; [exact Hs1|]. rewrite Hl1. apply lim_sub_None. apply Hs.
  - intros Hne. apply Hprog; [exact Hne|apply FaultFree_lim_ge; exact Hs].
Qed.

Lemma read_upto_loop_unfold fuel n acc :
  read_upto_loop fuel n acc =
  if n =? 0 then Ret (lrev acc) else
  match fuel with
  | O => Panic (PFuel 2)
  | S fuel' =>
      got <- read_buf n ;;
      match got with
      | [] => Ret (lrev acc)
      | _ => read_upto_loop fuel' (n - nlen got) (rev_append got acc)
      end
  end.
Proof. destruct fuel; reflexivity. Qed.

(* read_upto behaves like read_exact when the bytes are there *)
Lemma io_read_upto_loop_spec fuel : forall s bs t n acc,
  FaultFree s -> s_rest s = bs ++ t -> nlen bs = n -> (N.to_nat n <= fuel)%nat ->
  exists s', io_runs (read_upto_loop fuel n acc) s (Done (lrev acc ++ bs)) s' /\
    s_rest s' = t /\ s_pos s' = s_pos s + n /\ FaultFree s'.
Proof.
  induction fuel as [|fuel IH]; intros s bs t n acc Hs Hr Hn Hfuel; rewrite read_upto_loop_unfold.
  - assert (n = 0) by lia. assert (bs = []) by (apply nlen_zero; lia). subst n bs.
    change (0 =? 0) with true. cbv iota. exists s. rewrite app_nil_r. cbn [app] in Hr.
    split; [apply io_runs_ret|]. split; [assumption|]. split; [lia|assumption].
  - destruct (N.eqb_spec n 0) as [E|E].
    + assert (bs = []) by (apply nlen_zero; lia). subst n bs.
      exists s. rewrite app_nil_r. cbn [app] in Hr.
      split; [apply io_runs_ret|]. split; [assumption|]. split; [lia|assumption].
    + destruct (io_read_buf_ff s n Hs ltac:(lia)) as (g & s1 & Hrun & Hgn & Hgl & Hr1 & Hp1 & Hs1 & Hprog).
      assert (Hg1 : 1 <= g).
      { apply Hprog. rewrite Hr. destruct bs; [rewrite nl_nil in Hn; lia|discriminate]. }
      rewrite Hr in Hrun, Hr1. rewrite nfirstn_app_le in Hrun by lia. rewrite nskipn_app_le in Hr1 by lia.
      assert (Hgot : nlen (nfirstn g bs) = g) by (rewrite IoLemmas.nlen_nfirstn; lia).
      destruct (IH s1 (nskipn g bs) t (n - g) (rev_append (nfirstn g bs) acc) Hs1 Hr1) as (s2 & Hrun2 & Hr2 & Hp2 & Hs2).
      { rewrite nlen_nskipn. lia. }
      { lia. }
      exists s2. split.
      * eapply io_runs_bind; [exact Hrun|].
        rewrite IoLemmas.lrev_rev_append, <- app_assoc, IoLemmas.nfirstn_nskipn in Hrun2. cbv beta. rewrite Hgot.
        destruct (nfirstn g bs) as [|x l] eqn:Eg; [rewrite nl_nil in Hgot; lia|]. exact Hrun2.
      * split; [assumption|]. split; [lia|assumption].
Qed.

Lemma io_read_upto_spec s bs t n : FaultFree s -> s_rest s = bs ++ t -> nlen bs = n ->
  exists s', io_runs (read_upto n) s (Done bs) s' /\ s_rest s' = t /\ s_pos s' = s_pos s + n /\ FaultFree s'.
Proof.
  intros Hs Hr Hn. unfold read_upto.
  destruct (io_read_upto_loop_spec (N.to_nat n) s bs t n [] Hs Hr Hn (le_n _)) as (s' & H & H').
  exists s'. split; [exact H|exact H'].
Qed.

Lemma io_read_u32_le_spec s bs t : FaultFree s -> s_rest s = bs ++ t -> nlen bs = 4 ->
  exists s', io_runs read_u32_le s (Done (le_num bs)) s' /\ s_rest s' = t /\ s_pos s' = s_pos s + 4 /\ FaultFree s'.
Proof.
  intros Hs Hr Hn. destruct (io_read_exact_spec s bs t 4 Hs Hr Hn) as (s' & E & H).
  exists s'. split; [|exact H]. unfold read_u32_le. eapply io_runs_bind; [exact E|]. apply io_runs_ret.
Qed.

Lemma io_read_tag_spec s tag t : FaultFree s -> s_rest s = tag ++ t ->
  exists s', io_runs (read_tag tag) s (Done true) s' /\ s_rest s' = t /\ s_pos s' = s_pos s + nlen tag /\ FaultFree s'.
Proof.
  intros Hs Hr. destruct (io_read_exact_spec s tag t (nlen tag) Hs Hr eq_refl) as (s' & E & H).
  exists s'. split; [|exact H]. unfold read_tag. eapply io_runs_bind; [exact E|]. cbv beta.
  destruct (list_eq_dec N.eq_dec tag tag) as [_|NE]; [apply io_runs_ret|contradiction NE; reflexivity].
Qed.

Lemma io_get_multibyte_loop c : mb_shape c -> forall n i res acc s t,
  (length c <= n)%nat -> FaultFree s -> s_rest s = c ++ t ->
  exists s', io_runs (get_multibyte_loop n i res acc) s (Done (N.lxor res (mb_val i c), lrev acc ++ c)) s' /\
    s_rest s' = t /\ s_pos s' = s_pos s + nlen c /\ FaultFree s'.
Proof.
  induction 1 as [b E|b c E S IH]; intros n i res acc s t L Hs Hr;
    (destruct n as [|n]; cbn [length] in L; [lia|]); cbn [get_multibyte_loop app] in *.
  - destruct (io_read_u8_spec s b t Hs Hr) as (s1 & R1 & Hr1 & Hp1 & Hs1).
    exists s1. split; [|split; [exact Hr1|split; [rewrite nl_cons, nl_nil; lia|exact Hs1]]].
    eapply io_runs_bind; [exact R1|]. cbv beta zeta. rewrite (proj2 (N.eqb_eq _ _) E).
    cbn [mb_val]. rewrite N.lxor_0_r, lrev_cons_app. apply io_runs_ret.
  - destruct (io_read_u8_spec s b (c ++ t) Hs Hr) as (s1 & R1 & Hr1 & Hp1 & Hs1).
    destruct (IH n (i + 1) (N.lxor res (M64 (N.shiftl (N.land b 127) (i * 7)))) (b :: acc) s1 t ltac:(lia) Hs1 Hr1)
      as (s2 & R2 & Hr2 & Hp2 & Hs2).
    exists s2. split; [|split; [exact Hr2|split; [rewrite nl_cons; lia|exact Hs2]]].
    eapply io_runs_bind; [exact R1|]. cbv beta zeta. rewrite (proj2 (N.eqb_neq _ _) E).
    cbn [mb_val]. rewrite <- N.lxor_assoc. rewrite lrev_cons_app, <- app_assoc in R2. exact R2.
Qed.

Lemma io_get_multibyte_spec s c v t : mb_decodes c v -> FaultFree s -> s_rest s = c ++ t ->
  exists s', io_runs get_multibyte s (Done (v, c)) s' /\ s_rest s' = t /\ s_pos s' = s_pos s + nlen c /\ FaultFree s'.
Proof.
  intros (S & L & ->) Hs Hr. unfold get_multibyte.
  destruct (io_get_multibyte_loop c S 9 0 0 [] s t L Hs Hr) as (s' & R & H).
  exists s'. split; [|exact H]. rewrite N.lxor_0_l in R. exact R.
Qed.

Lemma io_read_zero_padding_spec n : forall acc s t, FaultFree s -> s_rest s = repeat 0 n ++ t ->
  exists s', io_runs (read_zero_padding n acc) s (Done (lrev acc ++ repeat 0 n)) s' /\
    s_rest s' = t /\ s_pos s' = s_pos s + N.of_nat n /\ FaultFree s'.
Proof.
  induction n as [|n IH]; intros acc s t Hs Hr; cbn [read_zero_padding repeat app] in *.
  - exists s. rewrite app_nil_r. split; [apply io_runs_ret|]. split; [exact Hr|]. split; [lia|exact Hs].
  - destruct (io_read_u8_spec s 0 _ Hs Hr) as (s1 & R1 & Hr1 & Hp1 & Hs1).
    destruct (IH (0 :: acc) s1 t Hs1 Hr1) as (s2 & R2 & Hr2 & Hp2 & Hs2).
    exists s2. split; [|split; [exact Hr2|split; [lia|exact Hs2]]].
    eapply io_runs_bind; [exact R1|]. cbv beta. change (negb (0 =? 0)) with false. cbv iota.
    rewrite lrev_cons_app, <- app_assoc in R2. exact R2.
Qed.

Lemma io_getpos s : io_runs (icall GetPos) s (Done (s_pos s)) s.
Proof. intros k. reflexivity. Qed.

(* sequencing in the state monad of read_block / xz_decompress *)
Lemma mbind_run {S A B} (m : M S A) (f : A -> M S B) s a s' r :
  m s = (Done a, s') -> f a s' = r -> mbind m f s = r.
Proof. intros H1 H2. unfold mbind. rewrite H1. exact H2. Qed.

Lemma rbh_eq : read_block_header 7 [0; 33; 1; 22; 0; 0; 0] = Done (mkBH [mkFilter [22]] None None).
Proof. reflexivity. Qed.

(* the LZMA2 filter on the payload of uncompressed chunks, followed by anything *)
Lemma decode_filter_run fuel chunks trail s :
  FaultFree s -> Forall chunk_ok chunks -> nlen chunks < Npos fuel -> s_rest s = l2_stream chunks ++ trail ->
  exists s', decode_filter fuel (mkFilter [22]) s = (Done (nlen (l2_stream chunks), concat chunks), s') /\
    s_rest s' = trail /\ s_pos s' = s_pos s + nlen (l2_stream chunks) /\ FaultFree s'.
Proof.
  intros Hs Fo Hf Hr.
  destruct (lzma2_uncompressed_decodes fuel chunks trail s vec_sink Hs eq_refl eq_refl Fo Hr Hf) as (w & E & B & _ & R & P & F).
  exists (i_src w). split; [|split; [exact R|split; [exact P|exact F]]].
  unfold decode_filter. cbn [f_props]. change (negb (nlen [22] =? 1)) with false. cbv iota zeta.
  rewrite E, P, B. change (snk_bytes vec_sink) with (@nil N). cbn [app].
  f_equal. f_equal. f_equal. lia.
Qed.

Section WithCrc.
Variable crc32 : list N -> N.
Variable crc64 : list N -> N.
Hypothesis crc32_u32 : forall l, crc32 l < 4294967296.

(* ================================================================== *)
(* stream header                                                       *)
(* ================================================================== *)
Lemma header_parse_run s t : FaultFree s -> s_rest s = xz_header_bytes crc32 ++ t ->
  exists s', io_runs (header_parse crc32) s (Done CkNone) s' /\ s_rest s' = t /\ FaultFree s'.
Proof.
  intros Hs Hr. unfold xz_header_bytes in Hr. rewrite <- !app_assoc in Hr.
  destruct (io_read_tag_spec s XZ_MAGIC _ Hs Hr) as (s1 & R1 & Hr1 & _ & Hs1).
  destruct (io_read_exact_spec s1 [0; 0] _ 2 Hs1 Hr1 eq_refl) as (s2 & R2 & Hr2 & _ & Hs2).
  destruct (io_read_u32_le_spec s2 (le_bytes 4 (crc32 [0; 0])) t Hs2 Hr2 (nlen_le_bytes 4 _)) as (s3 & R3 & Hr3 & _ & Hs3).
  exists s3. split; [|split; assumption].
  unfold header_parse. eapply io_runs_bind; [exact R1|]. cbv beta. cbn [negb].
  eapply io_runs_bind; [exact R2|]. cbv beta. eapply io_runs_bind; [exact R3|]. cbv beta.
  rewrite le_num_le_bytes4 by apply crc32_u32. rewrite N.eqb_refl. cbn [negb]. apply io_runs_ret.
Qed.

(* ================================================================== *)
(* footer                                                              *)
(* ================================================================== *)
Lemma xz_footer_run isz s : FaultFree s -> s_rest s = xz_footer_bytes crc32 isz ->
  4 <= isz <= 4294967296 -> isz mod 4 = 0 ->
  exists s', io_runs (xz_footer crc32 CkNone isz) s (Done tt) s' /\ s_rest s' = [] /\ FaultFree s'.
Proof.
  intros Hs Hr Hi Hm. unfold xz_footer_bytes in Hr. cbv zeta in Hr.
  set (bs := le_bytes 4 (M32 (N.shiftr isz 2 - 1))) in *.
  rewrite <- (app_nil_r XZ_MAGIC_FOOTER), <- !app_assoc in Hr.
  assert (Hb : N.shiftl (le_num bs + 1) 2 = isz).
  { unfold bs. rewrite M32_mod, N.shiftr_div_pow2, N.shiftl_mul_pow2. change (2 ^ 2) with 4.
    rewrite le_num_le_bytes4 by (apply N.mod_lt; discriminate). lia. }
  destruct (io_read_u32_le_spec s (le_bytes 4 (crc32 (bs ++ [0; 0]))) _ Hs Hr (nlen_le_bytes 4 _)) as (s1 & R1 & Hr1 & _ & Hs1).
  destruct (io_read_exact_spec s1 bs _ 4 Hs1 Hr1 (nlen_le_bytes 4 _)) as (s2 & R2 & Hr2 & _ & Hs2).
  destruct (io_read_exact_spec s2 [0; 0] _ 2 Hs2 Hr2 eq_refl) as (s3 & R3 & Hr3 & _ & Hs3).
  destruct (io_read_tag_spec s3 XZ_MAGIC_FOOTER [] Hs3 Hr3) as (s4 & R4 & Hr4 & _ & Hs4).
  destruct (io_is_eof_spec s4 Hs4) as (s5 & R5 & Hr5 & _ & Hs5). rewrite Hr4 in R5, Hr5.
  exists s5. split; [|split; assumption].
  unfold xz_footer. eapply io_runs_bind; [exact R1|]. cbv beta. eapply io_runs_bind; [exact R2|]. cbv beta zeta.
  rewrite Hb, N.eqb_refl. cbn [negb]. eapply io_runs_bind; [exact R3|]. cbv beta.
  change (flags_parse 0 0) with (Done CkNone). change (check_eqb CkNone CkNone) with true. cbn [negb].
  rewrite le_num_le_bytes4 by apply crc32_u32. rewrite N.eqb_refl. cbn [negb].
  eapply io_runs_bind; [exact R4|]. cbv beta. cbn [negb]. eapply io_runs_bind; [exact R5|]. apply io_runs_ret.
Qed.

(* ================================================================== *)
(* index                                                               *)
(* ================================================================== *)
Lemma xz_index_bytes_hd u p : xz_index_bytes crc32 u p = 0 :: tl (xz_index_bytes crc32 u p).
Proof. reflexivity. Qed.

Lemma check_index_run start u p s t :
  u < 9223372036854775808 -> p < 9223372036854775808 -> FaultFree s ->
  s_rest s = tl (xz_index_bytes crc32 u p) ++ t -> s_pos s = start + 1 ->
  exists s', io_runs (check_index crc32 start [mkRecord u p]) s (Done tt) s' /\ s_rest s' = t /\
    s_pos s' = start + nlen (xz_index_bytes crc32 u p) /\ FaultFree s'.
Proof.
  intros Hu Hp Hs Hr Hpos. unfold xz_index_bytes, xz_index_body in *. cbv zeta in *.
  set (b0 := multibyte_bytes 10 1) in *. set (b1 := multibyte_bytes 10 u) in *. set (b2 := multibyte_bytes 10 p) in *.
  cbn [app tl] in Hr |- *.
  set (pad := repeat 0 (N.to_nat (padding_of (nlen (0 :: b0 ++ b1 ++ b2))))) in *.
  set (cb := le_bytes 4 (crc32 (0 :: (b0 ++ b1 ++ b2) ++ pad))) in *.
  rewrite <- !app_assoc in Hr.
  destruct (io_get_multibyte_spec s b0 1 _ (multibyte_decodes 1 ltac:(lia)) Hs Hr) as (s1 & R1 & Hr1 & Hp1 & Hs1).
  destruct (io_get_multibyte_spec s1 b1 u _ (multibyte_decodes u Hu) Hs1 Hr1) as (s2 & R2 & Hr2 & Hp2 & Hs2).
  destruct (io_get_multibyte_spec s2 b2 p _ (multibyte_decodes p Hp) Hs2 Hr2) as (s3 & R3 & Hr3 & Hp3 & Hs3).
  assert (Hcount : s_pos s3 - start = nlen (0 :: b0 ++ b1 ++ b2)) by (rewrite nl_cons, !nl_app; lia).
  destruct (io_read_zero_padding_spec (N.to_nat (padding_of (nlen (0 :: b0 ++ b1 ++ b2)))) [] s3 _ Hs3 Hr3) as (s4 & R4 & Hr4 & Hp4 & Hs4).
  fold pad in R4.
  destruct (io_read_u32_le_spec s4 cb t Hs4 Hr4 (nlen_le_bytes 4 _)) as (s5 & R5 & Hr5 & Hp5 & Hs5).
  exists s5. split; [|split; [exact Hr5|split; [|exact Hs5]]].
  - unfold check_index. eapply io_runs_bind; [exact R1|]. cbv beta iota.
    change (nlen [mkRecord u p]) with 1. change (negb (1 =? 1)) with false. cbv iota.
    eapply io_runs_bind.
    { cbn [check_records]. eapply io_runs_bind; [exact R2|]. cbv beta iota. cbn [rc_unpadded rc_unpacked].
      rewrite N.eqb_refl. cbn [negb]. eapply io_runs_bind; [exact R3|]. cbv beta iota.
      rewrite N.eqb_refl. cbn [negb]. apply io_runs_ret. }
    cbv beta. eapply io_runs_bind; [apply io_getpos|]. cbv beta zeta. rewrite Hcount.
    eapply io_runs_bind; [exact R4|]. cbv beta. eapply io_runs_bind; [exact R5|]. cbv beta.
    change (lrev [] ++ pad) with pad. unfold cb at 1. rewrite le_num_le_bytes4 by apply crc32_u32.
    rewrite <- !app_assoc. rewrite N.eqb_refl. cbn [negb]. apply io_runs_ret.
  - 
    assert (Lp : nlen pad = padding_of (nlen (0 :: b0 ++ b1 ++ b2))) by (unfold pad; rewrite nlen_repeat; apply N2Nat.id).
    rewrite N2Nat.id in Hp4.
    assert (Lt : nlen (0 :: (b0 ++ b1 ++ b2) ++ pad ++ cb) = nlen (0 :: b0 ++ b1 ++ b2) + nlen pad + 4).
    { rewrite !nl_cons, !nl_app. unfold cb. rewrite nlen_le_bytes. change (N.of_nat 4) with 4. lia. }
    rewrite Lt, Lp, Hp5, Hp4. lia.
Qed.

(* ================================================================== *)
(* the block                                                           *)
(* ================================================================== *)
Local Open Scope m_scope.

Lemma read_block_run fuel start chunks s k t :
  FaultFree s -> k_wfail k = None -> Forall chunk_ok chunks -> nlen chunks < Npos fuel ->
  s_rest s = tl (blk_bytes (xz_blk crc32 chunks)) ++ t -> s_pos s = start + 1 ->
  exists s' k',
    read_block crc32 crc64 fuel start CkNone 2 (mkIo s k) = (Done (blk_record (xz_blk crc32 chunks)), mkIo s' k') /\
    s_rest s' = t /\ FaultFree s' /\ snk_app k (concat chunks) k'.
Proof.
  intros Hs Hw Fo Hf Hr Hpos.
  unfold blk_bytes, xz_blk in Hr. cbv zeta in Hr. cbn [b_hs b_hdr b_hcrc b_payload b_pad b_chk tl] in Hr.
  set (payload := l2_stream chunks) in *.
  set (pad := repeat 0 (N.to_nat (padding_of (12 + nlen payload)))) in *.
  rewrite app_nil_r, <- !app_assoc in Hr.
  destruct (io_read_upto_spec s [0; 33; 1; 22; 0; 0; 0] _ 7 Hs Hr eq_refl) as (s1 & R1 & Hr1 & Hp1 & Hs1).
  destruct (io_read_u32_le_spec s1 (le_bytes 4 (crc32 xz_block_header)) _ Hs1 Hr1 (nlen_le_bytes 4 _)) as (s2 & R2 & Hr2 & Hp2 & Hs2).
  destruct (decode_filter_run fuel chunks (pad ++ t) s2 Hs2 Fo Hf Hr2) as (s3 & E3 & Hr3 & Hp3 & Hs3). fold payload in E3, Hp3.
  assert (Hcount : s_pos s3 - start = 12 + nlen payload) by lia.
  destruct (io_read_zero_padding_spec (N.to_nat (padding_of (12 + nlen payload))) [] s3 t Hs3 Hr3) as (s4 & R4 & Hr4 & Hp4 & Hs4).
  rewrite N2Nat.id in Hp4.
  destruct (write_all_ok (concat chunks) s4 k Hw) as (k' & E5 & A5).
  exists s4, k'. split; [|split; [exact Hr4|split; [exact Hs4|exact A5]]].
  unfold read_block, io_run. change (2 =? 0) with false. cbv iota zeta. change (N.shiftl 2 2 - 1) with 7.
  eapply mbind_run; [exact (R1 k)|]. cbv beta. rewrite rbh_eq. cbv iota.
  eapply mbind_run; [exact (R2 k)|]. cbv beta.
  rewrite le_num_le_bytes4 by apply crc32_u32. change (2 :: [0; 33; 1; 22; 0; 0; 0]) with xz_block_header.
  rewrite N.eqb_refl. cbn [negb bh_filters bh_packed bh_unpacked].
  eapply mbind_run.
  { cbv beta. cbn [i_src i_snk]. rewrite E3. cbn [later_filters]. reflexivity. }
  cbv beta zeta.
  eapply mbind_run; [apply run_getpos|]. cbv beta zeta. cbn [i_src]. rewrite Hcount.
  eapply mbind_run; [exact (R4 k)|]. cbv beta.
  eapply mbind_run; [reflexivity|]. cbv beta.
  eapply mbind_run; [exact E5|]. cbv beta.
  eapply mbind_run; [apply run_getpos|]. cbv beta.
  pose proof (padding_of_spec (12 + nlen payload)) as (Ppad & _).
  destruct (N.ltb_spec (s_pos s4 - start) (padding_of (12 + nlen payload))) as [Hlt|_]; [lia|].
  unfold mret. f_equal. f_equal. rewrite xz_blk_record. fold payload. f_equal. lia.
Qed.

(* ================================================================== *)
(* the whole file                                                      *)
(* ================================================================== *)
Theorem xz_decompress_file fuel chunks s k :
  FaultFree s -> k_wfail k = None -> Forall chunk_ok chunks ->
  nlen chunks < Npos fuel -> 1 < Npos fuel -> nlen (concat chunks) < 1152921504606846976 ->
  s_rest s = xz_file crc32 chunks ->
  exists s' k', xz_decompress crc32 crc64 fuel (mkIo s k) = (Done tt, mkIo s' k') /\
    snk_app k (concat chunks) k' /\ s_rest s' = [] /\ FaultFree s'.
Proof.
  intros Hs Hw Fo Hf Hf2 Hsz Hr.
  pose proof (chunks_count_le chunks Fo) as Hcnt.
  pose proof (nlen_l2_stream chunks) as Hpl.
  assert (Hu : 12 + nlen (l2_stream chunks) < 9223372036854775808) by lia.
  assert (Hup : nlen (concat chunks) < 9223372036854775808) by lia.
  destruct (xz_index_bytes_len crc32 crc64 crc32_u32 _ _ Hu Hup) as (Li & Mi).
  unfold xz_file in Hr. cbv zeta in Hr. rewrite xz_blk_record in Hr. cbn [rc_unpadded rc_unpacked] in Hr.
  set (idx := xz_index_bytes crc32 (12 + nlen (l2_stream chunks)) (nlen (concat chunks))) in *.
  (* header *)
  destruct (header_parse_run s _ Hs Hr) as (s1 & R1 & Hr1 & Hs1).
  (* block *)
  assert (Hb : blk_bytes (xz_blk crc32 chunks) = 2 :: tl (blk_bytes (xz_blk crc32 chunks))) by reflexivity.
  rewrite Hb in Hr1. cbn [app] in Hr1.
  destruct (io_read_u8_spec s1 2 _ Hs1 Hr1) as (s2 & R2 & Hr2 & Hp2 & Hs2).
  destruct (read_block_run fuel (s_pos s1) chunks s2 k _ Hs2 Hw Fo Hf Hr2 Hp2) as (s3 & k' & E3 & Hr3 & Hs3 & A3).
  (* index *)
  unfold idx in Hr3 at 1. rewrite xz_index_bytes_hd in Hr3. fold idx in Hr3. cbn [app] in Hr3.
  destruct (io_read_u8_spec s3 0 _ Hs3 Hr3) as (s4 & R4 & Hr4 & Hp4 & Hs4).
  destruct (check_index_run (s_pos s3) _ _ s4 _ Hu Hup Hs4 Hr4 Hp4) as (s5 & R5 & Hr5 & Hp5 & Hs5). fold idx in Hp5.
  (* footer *)
  destruct (xz_footer_run (nlen idx) s5 Hs5 Hr5 ltac:(lia) Mi) as (s6 & R6 & Hr6 & Hs6).
  exists s6, k'. split; [|split; [exact A3|split; [exact Hr6|exact Hs6]]].
  unfold xz_decompress, io_run. eapply mbind_run; [exact (R1 k)|]. cbv beta.
  rewrite loopN_iter.
  destruct (Pos.to_nat fuel) as [|[|m]] eqn:Em; [lia|lia|].
  cbn [iter_step].
  (* first iteration: the block *)
  unfold xz_body at 1. cbn [i_src]. rewrite (R2 k). change (2 =? 0) with false. cbv iota. rewrite E3.
  (* second iteration: the index *)
  unfold xz_body at 1. cbn [i_src]. rewrite (R4 k'). change (0 =? 0) with true. cbv iota.
  change (lrev [blk_record (xz_blk crc32 chunks)]) with [blk_record (xz_blk crc32 chunks)].
  rewrite xz_blk_record. rewrite (R5 k').
  cbn [i_src]. replace (s_pos s5 - s_pos s3) with (nlen idx) by lia.
  exact (R6 k').
Qed.

(* PART 2, round trip: xz_decompress on what xz_compress wrote gives back the data *)
Theorem xz_round_trip fuel fuel' data frag frag' k k2 :
  k_wfail k = None -> k_wfail k2 = None ->
  nlen data < Npos fuel -> nlen data < Npos fuel' -> 1 < Npos fuel' -> nlen data < 1152921504606846976 ->
  exists w1 out,
    xz_compress crc32 fuel (mkIo (src_of data frag None) k) = (Done tt, w1) /\
    snk_bytes (i_snk w1) = snk_bytes k ++ out /\
    exists w2,
      xz_decompress crc32 crc64 fuel' (mkIo (src_of out frag' None) k2) = (Done tt, w2) /\
      snk_bytes (i_snk w2) = snk_bytes k2 ++ data /\ s_rest (i_src w2) = [].
Proof.
  intros Hw Hw2 Hf Hf' Hf2 Hsz.
  destruct (xz_compress_run crc32 crc64 crc32_u32 fuel (src_of data frag None) k (src_of_FaultFree data frag) Hw Hf Hsz)
    as (chunks & s' & k' & E & C & Fo & App & _).
  cbn [src_of s_rest] in C.
  exists (mkIo s' k'), (xz_file crc32 chunks). cbn [i_snk]. split; [exact E|]. split; [apply App|].
  assert (Hn : nlen chunks < Npos fuel').
  { pose proof (chunks_count_le chunks Fo) as L. rewrite C in L. lia. }
  destruct (xz_decompress_file fuel' chunks (src_of (xz_file crc32 chunks) frag' None) k2
              (src_of_FaultFree _ frag') Hw2 Fo Hn Hf2 ltac:(rewrite C; exact Hsz) eq_refl) as (s2 & k2' & E2 & A2 & R2 & _).
  exists (mkIo s2 k2'). cbn [i_src i_snk]. split; [exact E2|]. split; [|exact R2].
  rewrite <- C. apply A2.
Qed.

End WithCrc.
Print Assumptions xz_decompress_file.
Print Assumptions xz_round_trip.

(* ================================================================== *)
(* the executable CRC-32 satisfies the hypothesis: it is a u32         *)
(* ================================================================== *)
Lemma lt_pow2_land x n : x < 2 ^ n <-> N.land x (N.ones n) = x.
Proof.
  rewrite N.land_ones. split; [apply N.mod_small|].
  intros E. rewrite <- E. apply N.mod_lt. apply N.pow_nonzero. discriminate.
Qed.

Lemma lxor_lt_pow2 a b n : a < 2 ^ n -> b < 2 ^ n -> N.lxor a b < 2 ^ n.
Proof.
  intros Ha Hb. apply lt_pow2_land. rewrite land_lxor_distr_l.
  rewrite (proj1 (lt_pow2_land a n) Ha), (proj1 (lt_pow2_land b n) Hb). reflexivity.
Qed.

Lemma In_byte_range b : b < 256 -> In b (map N.of_nat (seq 0 256)).
Proof. intros H. rewrite <- (N2Nat.id b). apply in_map. apply in_seq. lia. Qed.

Lemma crc32_table_u32 :
  forallb (fun i => nm_get crc32_table i 0 <? 4294967296) (map N.of_nat (seq 0 256)) = true.
Proof. vm_compute. reflexivity. Qed.

Lemma crc32_step_u32 c b : c < 4294967296 -> crc_step crc32_table c b < 4294967296.
Proof.
  intros Hc. unfold crc_step. change 4294967296 with (2 ^ 32). apply lxor_lt_pow2.
  - pose proof crc32_table_u32 as T. rewrite forallb_forall in T.
    apply N.ltb_lt. apply T. apply In_byte_range.
    change 255 with (N.ones 8). rewrite N.land_ones. apply N.mod_lt. discriminate.
  - rewrite N.shiftr_div_pow2. change (2 ^ 32) with 4294967296 in *. change (2 ^ 8) with 256. lia.
Qed.

Theorem crc32_exec_u32 l : crc32_exec l < 4294967296.
Proof.
  unfold crc32_exec. change 4294967296 with (2 ^ 32). apply lxor_lt_pow2; [|reflexivity].
  change (2 ^ 32) with 4294967296.
  assert (G : forall l c, c < 4294967296 -> fold_left (crc_step crc32_table) l c < 4294967296).
  { clear l. induction l as [|b l IH]; intros c Hc; [exact Hc|]. cbn [fold_left]. apply IH. apply crc32_step_u32. exact Hc. }
  apply G. reflexivity.
Qed.
Print Assumptions crc32_exec_u32.

(* the round trip for the executable instance (the one that is extracted) *)
Corollary xz_round_trip_exec fuel fuel' data frag frag' k k2 :
  k_wfail k = None -> k_wfail k2 = None ->
  nlen data < Npos fuel -> nlen data < Npos fuel' -> 1 < Npos fuel' -> nlen data < 1152921504606846976 ->
  exists w1 out,
    xz_compress crc32_exec fuel (mkIo (src_of data frag None) k) = (Done tt, w1) /\
    snk_bytes (i_snk w1) = snk_bytes k ++ out /\
    exists w2,
      xz_decompress crc32_exec crc64_exec fuel' (mkIo (src_of out frag' None) k2) = (Done tt, w2) /\
      snk_bytes (i_snk w2) = snk_bytes k2 ++ data /\ s_rest (i_src w2) = [].
Proof. apply xz_round_trip. exact crc32_exec_u32. Qed.
Print Assumptions xz_round_trip_exec.

(* ---------- concrete runs (reader hands out 2 bytes at a time, sink accepts 1 byte per write) ---------- *)
Definition c04_xz_bytes (data : list N) (frag acc : N -> N) : outcome unit * list N :=
  let '(r, w) := xz_compress crc32_exec big_fuel (mkIo (src_of data frag None) (snk_new acc None false)) in
  (r, snk_bytes (i_snk w)).
(* the bytes are those of `xz --check=none` framing; the chunking follows the reader's fragmentation *)
Example c04_xz_hello_whole :
  c04_xz_bytes [104; 101; 108; 108; 111] frag_all frag_all =
  (Done tt, [253; 55; 122; 88; 90; 0; 0; 0; 255; 18; 217; 65; 2; 0; 33; 1; 22; 0; 0; 0; 116; 47; 229; 163;
             1; 0; 4; 104; 101; 108; 108; 111; 0; 0; 0; 0;
             0; 1; 21; 5; 176; 167; 89; 103; 6; 114; 158; 122; 1; 0; 0; 0; 0; 0; 89; 90]).
Proof. vm_compute. reflexivity. Qed.
Example c04_xz_hello_fragmented :
  c04_xz_bytes [104; 101; 108; 108; 111] (fun _ => 2) (fun _ => 1) =
  (Done tt, [253; 55; 122; 88; 90; 0; 0; 0; 255; 18; 217; 65; 2; 0; 33; 1; 22; 0; 0; 0; 116; 47; 229; 163;
             1; 0; 1; 104; 101; 1; 0; 1; 108; 108; 1; 0; 0; 111; 0; 0; 0; 1;
             27; 5; 62; 138; 218; 249; 6; 114; 158; 122; 1; 0; 0; 0; 0; 0; 89; 90]).
Proof. vm_compute. reflexivity. Qed.
