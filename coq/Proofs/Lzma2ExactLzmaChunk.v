(* C02, layer 4c: one LZMA chunk of an LZMA2 stream.  parse_lzma on a source positioned after
   the control byte = read the two size fields, optional dictionary reset, optional state reset
   with optional new properties, then the payload (Lzma2ExactPayload.v). *)
From LZ Require Import Base.Prelude Base.Prog Model.Io Model.Tables Model.LzBuffer Model.RangeDec Model.Lzma Model.Lzma2
  Format.RefEnc Format.Lzma2Fmt
  Proofs.ProgLemmas Proofs.MapLemmas Proofs.IoLemmas Proofs.RangeLockstep Proofs.WinCirc Proofs.WinAccum Proofs.NoPanic Proofs.NoPanicWorld
  Proofs.SymOracle Proofs.SymCoders Proofs.SymLiteral Proofs.SymDecode Proofs.SymChain
  Proofs.Lzma2Inv Proofs.Lzma2Framing
  Proofs.LzmaExactSync Proofs.LzmaExactShape Proofs.LzmaExactRefine Proofs.LzmaExactLoop Proofs.LzmaExact
  Proofs.Lzma2ExactIo Proofs.Lzma2ExactRefine Proofs.Lzma2ExactLoop Proofs.Lzma2ExactChunk Proofs.Lzma2ExactPayload.
From Coq Require Import ZifyBool ZifyNat ZifyN.
Ltac Zify.zify_post_hook ::= Z.div_mod_to_equations.
Local Open Scope prog_scope.

(* ================================================================== *)
(* the control byte and the size fields                                *)
(* ================================================================== *)
Lemma land128_table :
  forallb (fun b => (b <? 128) || negb (N.land b 128 =? 0)) (map N.of_nat (seq 0 256)) = true.
Proof. vm_compute. reflexivity. Qed.

Lemma land128_big c : 128 <= c < 256 -> N.land c 128 <> 0.
Proof.
  intros [H1 H2]. pose proof land128_table as T. rewrite forallb_forall in T.
  specialize (T c (In_bytes c H2)). destruct (N.ltb_spec c 128); [lia|]. cbn [orb] in T.
  destruct (N.eqb_spec (N.land c 128) 0); [discriminate|assumption].
Qed.

Lemma ctl_facts cls hi : cls <= 3 -> hi < 32 ->
  N.land (128 + 32 * cls + hi) 128 <> 0 /\ l2_cls (128 + 32 * cls + hi) = cls /\
  N.land (128 + 32 * cls + hi) 31 = hi.
Proof.
  intros Hc Hh. split; [apply land128_big; lia|]. split.
  - unfold l2_cls. rewrite N.shiftr_div_pow2. change 3 with (N.ones 2). rewrite N.land_ones.
    change (2 ^ 5) with 32. change (2 ^ 2) with 4. lia.
  - change 31 with (N.ones 5). rewrite N.land_ones. change (2 ^ 5) with 32. lia.
Qed.

Lemma unpacked_fields u : 1 <= u <= 2097152 ->
  N.shiftr (u - 1) 16 < 32 /\ N.land (u - 1) 65535 < 65536 /\
  N.lor (N.shiftl (N.shiftr (u - 1) 16) 16) (N.land (u - 1) 65535) + 1 = u.
Proof.
  intros Hu. set (x := u - 1). assert (Hx : x < 2097152) by (unfold x; lia).
  rewrite N.shiftr_div_pow2, N.shiftl_mul_pow2. change 65535 with (N.ones 16). rewrite N.land_ones.
  assert (E : N.lor (x / 2 ^ 16 * 2 ^ 16) (x mod 2 ^ 16) = x).
  { assert (Hm : x mod 2 ^ 16 < 2 ^ 16) by (apply N.mod_lt; discriminate).
    rewrite N.lor_comm, <- N.lxor_lor by (apply land_disjoint; exact Hm).
    rewrite (lxor_disjoint _ _ _ Hm). rewrite N.add_comm, N.mul_comm. symmetry. apply N.div_mod. discriminate. }
  rewrite E. change (2 ^ 16) with 65536.
  split; [lia|]. split; [lia|]. unfold x. lia.
Qed.

(* ================================================================== *)
(* reset_state                                                         *)
(* ================================================================== *)
Lemma reset_state_run d np fpn : props_match np fpn ->
  (lc (ds_props d) + lp (ds_props d) = lc np + lp np -> p_lit_rows (ds_tabs d) = 2 ^ (lc np + lp np)) ->
  reset_state d np =
  (Done (mkDstate (ds_pib d) np (ds_unpacked d) (ptabs_new (2 ^ (f_lc fpn + f_lp fpn))) 0 (mkReps 0 0 0 0)), tt).
Proof.
  intros Hpm Hrows. unfold reset_state. rewrite (props_valid_of_match np fpn Hpm). cbn [negb].
  destruct Hpm as (_ & _ & _ & -> & -> & _).
  destruct (N.eqb_spec (lc (ds_props d) + lp (ds_props d)) (lc np + lp np)) as [E|_].
  - rewrite (Hrows E). reflexivity.
  - rewrite shiftl_1_pow. reflexivity.
Qed.

(* ================================================================== *)
(* the encoder state at the start of the chunk                         *)
(* ================================================================== *)
Lemma c_props_ok_inv cls np : cls <= 3 -> c_props_ok cls np = true ->
  match np with
  | Some p0 => (cls = 2 \/ cls = 3) /\ f_lc p0 + f_lp p0 <= 4 /\ f_pb p0 <= 4
  | None => cls = 0 \/ cls = 1
  end.
Proof.
  intros Hc. unfold c_props_ok. destruct np as [p0|].
  - rewrite !andb_true_iff, !N.leb_le. intros [[H1 H2] H3]. repeat split; try assumption. lia.
  - rewrite N.leb_le. lia.
Qed.

Lemma c_es1_inv need s cls np : SInv need s -> (cls = 0 -> need = false) -> cls <= 3 -> c_props_ok cls np = true ->
  f_lc (c_props s cls np) + f_lp (c_props s cls np) <= 4 /\ f_pb (c_props s cls np) <= 4 /\
  es_st (c_es1 s cls np) < 12 /\
  Forall (fun b => b < 256) (h_bytes (es_hist (c_es1 s cls np))) /\
  h_len (es_hist (c_es1 s cls np)) = nlen (h_bytes (es_hist (c_es1 s cls np))) /\
  rep0_ok None (es_st (c_es1 s cls np)) (es_hist (c_es1 s cls np)) /\
  TabsStd (es_tabs (c_es1 s cls np)) (f_lc (c_props s cls np) + f_lp (c_props s cls np)) /\
  ProbsOk (es_tabs (c_es1 s cls np)) /\
  h_bytes (es_hist (c_es1 s cls np)) = h_bytes (c_hist s (cls =? 3)) /\
  h_len (es_hist (c_es1 s cls np)) = h_len (c_hist s (cls =? 3)).
Proof.
  intros [S1 S2 S3 S4 S5 S6 S7 S8] Hneed Hc Hok.
  pose proof (c_props_ok_inv cls np Hc Hok) as Hinv.
  assert (Hp : f_lc (c_props s cls np) + f_lp (c_props s cls np) <= 4 /\ f_pb (c_props s cls np) <= 4).
  { unfold c_props. destruct np as [p0|]; [|split; assumption].
    destruct Hinv as (Hcls & H1 & H2). destruct (N.leb_spec 2 cls); [split; assumption|lia]. }
  destruct Hp as [Hp1 Hp2]. split; [exact Hp1|]. split; [exact Hp2|].
  pose proof (c_hist_len s (cls =? 3) S5) as Hl1. pose proof (c_hist_bytes s (cls =? 3) S4) as Hb1.
  unfold c_es1. destruct (N.leb_spec 1 cls) as [H1|H0]; cbn [es_st es_hist es_tabs].
  - split; [lia|]. unfold hist_reps0. cbn [h_bytes h_len].
    split; [exact Hb1|]. split; [exact Hl1|]. split; [apply rep0_ok_init|].
    split; [rewrite <- shiftl_1_pow; apply TabsStd_new|]. split; [apply ProbsOk_new|]. split; reflexivity.
  - assert (cls = 0) by lia. subst cls. change (0 =? 3) with false in *. unfold c_hist in *.
    assert (Enp : np = None) by (destruct np as [p0|]; [destruct Hinv as ([|] & _); discriminate|reflexivity]).
    subst np. unfold c_props in *.
    split; [exact S3|]. split; [exact S4|]. split; [exact S5|]. split; [apply S8; apply Hneed; reflexivity|].
    split; [exact S6|]. split; [exact S7|]. split; reflexivity.
Qed.

(* ================================================================== *)
(* state reset / new properties                                        *)
(* ================================================================== *)
Lemma pl_props_exact need s cls np ds sx a t' :
  SInv need s -> cls <= 3 -> c_props_ok cls np = true ->
  ds_pib ds = [] -> props_match (ds_props ds) (l2_props s) -> ds_tabs ds = es_tabs (l2_es s) ->
  ds_state ds = es_st (l2_es s) -> ds_rep ds = reps_of (es_hist (l2_es s)) ->
  FaultFree sx -> s_rest sx = (if 2 <=? cls then [props_byte (c_props s cls np)] else []) ++ t' ->
  exists ds' sx',
    pl_props (negb (cls =? 0)) ((cls =? 2) || (cls =? 3)) (mkW2 ds sx a) = (Done tt, mkW2 ds' sx' a) /\
    ds_pib ds' = [] /\ props_match (ds_props ds') (c_props s cls np) /\
    ds_tabs ds' = es_tabs (c_es1 s cls np) /\ ds_state ds' = es_st (c_es1 s cls np) /\
    ds_rep ds' = reps_of (es_hist (c_es1 s cls np)) /\
    FaultFree sx' /\ s_rest sx' = t' /\ s_pos sx' = s_pos sx + (if 2 <=? cls then 1 else 0).
Proof.
  intros [S1 S2 S3 S4 S5 S6 S7 S8] Hc Hok Dpib Dpm Dtabs Dst Drep Fx Rx.
  pose proof (c_props_ok_inv cls np Hc Hok) as Hinv.
  assert (Hrows : p_lit_rows (ds_tabs ds) = 2 ^ (lc (ds_props ds) + lp (ds_props ds))).
  { rewrite Dtabs. destruct Dpm as (_ & _ & _ & <- & <- & _). apply S6. }
  destruct np as [p0|].
  - (* new properties: classes 2 and 3 *)
    destruct Hinv as (Hcls & Hl & Hb).
    assert (E2 : (2 <=? cls) = true) by (apply N.leb_le; lia).
    assert (Eor : ((cls =? 2) || (cls =? 3)) = true) by (destruct Hcls as [-> | ->]; reflexivity).
    assert (E0 : negb (cls =? 0) = true) by (destruct Hcls as [-> | ->]; reflexivity).
    assert (E1 : (1 <=? cls) = true) by (apply N.leb_le; lia).
    unfold c_es1, c_props in *. rewrite E2 in *. rewrite E1. cbn [es_tabs es_st es_hist app] in *.
    rewrite Eor, E0.
    destruct (mapped_read_u8 sx (props_byte p0) t' Fx Rx) as (sy & Ey & Ry & Py & Fy).
    destruct (props_byte_decode p0 ltac:(lia) ltac:(lia) Hb) as (H225 & D1 & D2 & D3).
    set (pn := mkProps (f_lc p0) (f_lp p0) (f_pb p0)).
    assert (Hpmn : props_match pn p0) by (unfold props_match, pn; cbn [lc lp pb]; repeat split; lia).
    eexists (mkDstate (ds_pib ds) pn (ds_unpacked ds) (ptabs_new (2 ^ (f_lc p0 + f_lp p0))) 0 (mkReps 0 0 0 0)), sy.
    split.
    + unfold pl_props, w2_src. cbn [w_src w_ds w_acc fst snd]. rewrite Ey. cbn [fst snd w_src w_ds w_acc].
      destruct (N.leb_spec 225 (props_byte p0)) as [|_]; [lia|].
      rewrite D1, D2, D3.
      destruct (N.ltb_spec 4 (f_lc p0 + f_lp p0)) as [|_]; [lia|].
      fold pn. cbn [w_ds w_src w_acc].
      rewrite (reset_state_run ds pn p0 Hpmn).
      * reflexivity.
      * intros E. rewrite Hrows, E. reflexivity.
    + cbn [ds_pib ds_props ds_tabs ds_state ds_rep].
      split; [exact Dpib|]. split; [exact Hpmn|]. split; [reflexivity|]. split; [reflexivity|].
      split; [reflexivity|]. split; [exact Fy|]. split; [exact Ry|exact Py].
  - destruct Hinv as [-> | ->].
    + (* class 0: nothing *)
      change (negb (0 =? 0)) with false. change (2 <=? 0) with false in *. cbn [app] in Rx.
      unfold c_es1, c_props. change (1 <=? 0) with false. change (0 =? 3) with false. unfold c_hist.
      cbn [es_tabs es_st es_hist].
      exists ds, sx. split; [reflexivity|].
      split; [exact Dpib|]. split; [exact Dpm|]. split; [exact Dtabs|]. split; [exact Dst|]. split; [exact Drep|].
      split; [exact Fx|]. split; [exact Rx|]. lia.
    + (* class 1: state reset with the current properties *)
      change (negb (1 =? 0)) with true. change ((1 =? 2) || (1 =? 3)) with false. change (2 <=? 1) with false in *.
      cbn [app] in Rx.
      unfold c_es1, c_props. change (1 <=? 1) with true. change (1 =? 3) with false. unfold c_hist.
      cbn [es_tabs es_st es_hist].
      eexists (mkDstate (ds_pib ds) (ds_props ds) (ds_unpacked ds)
                 (ptabs_new (2 ^ (f_lc (l2_props s) + f_lp (l2_props s)))) 0 (mkReps 0 0 0 0)), sx.
      split.
      * unfold pl_props. cbn [w_ds w_src w_acc].
        rewrite (reset_state_run ds (ds_props ds) (l2_props s) Dpm); [reflexivity|].
        intros _. exact Hrows.
      * cbn [ds_pib ds_props ds_tabs ds_state ds_rep].
        split; [exact Dpib|]. split; [exact Dpm|]. split; [reflexivity|]. split; [reflexivity|].
        split; [reflexivity|]. split; [exact Fx|]. split; [exact Rx|]. lia.
Qed.

(* ================================================================== *)
(* one LZMA chunk                                                      *)
(* ================================================================== *)
Lemma nlen_ienc_bytes ie delta : nlen (ienc_bytes ie delta) = i_norms ie + 5.
Proof.
  unfold ienc_bytes. rewrite nlen_cons. unfold nlen. rewrite be_bytes_length. lia.
Qed.

Lemma pl_dict_exact pre0 s (rd : bool) ds sx a :
  AInv (pre0 ++ List.rev (l2_flushed s)) a (List.rev (h_bytes (es_hist (l2_es s)))) ->
  a_mem a = 18446744073709551615 ->
  exists a', pl_dict rd (mkW2 ds sx a) = (Done tt, mkW2 ds sx a') /\
    AInv (pre0 ++ List.rev (c_flushed s rd)) a' (List.rev (h_bytes (c_hist s rd))) /\
    a_mem a' = 18446744073709551615 /\
    k_ffail (a_snk a') = k_ffail (a_snk a) /\ k_flushes (a_snk a') = k_flushes (a_snk a).
Proof.
  intros HI Hm. destruct (dict_reset_run pre0 s rd a HI Hm) as (a' & E & H).
  exists a'. split; [|exact H]. unfold pl_dict. cbn [w_acc w_ds w_src]. destruct rd.
  - rewrite E. reflexivity.
  - inversion E; subst. reflexivity.
Qed.

Theorem lzma_chunk_exact pre0 fl need s cls np prog delta b1 s1 w pos t fuel :
  SInv need s -> ser_chunk_gen false s (CLzma cls np prog delta) = Some (b1, s1) ->
  chunk_okb need s (CLzma cls np prog delta) s1 = true ->
  (length prog + 1 <= Pos.to_nat fuel)%nat ->
  Inter pre0 fl s w pos (b1 ++ t) ->
  exists w', l2_body fuel w = Next w' /\ Inter pre0 fl s1 w' (pos + nlen b1) t /\ SInv false s1.
Proof.
  intros HS Hser Hokb Hfuel HI. rewrite ser_lzma_eq in Hser.
  destruct (N.leb_spec cls 3) as [Hc|]; [|discriminate]. cbn [negb] in Hser.
  destruct (c_props_ok cls np) eqn:Hok; [|discriminate]. cbn [negb] in Hser.
  destruct (enc_syms_gen false (c_props s cls np) None ienc0 (c_es1 s cls np) prog) as [[ie es2]|] eqn:Henc; [|discriminate].
  cbv zeta in Hser. rewrite N.add_0_r in Hser.
  set (rd := cls =? 3) in *. set (fpn := c_props s cls np) in *.
  set (u := h_len (es_hist es2) - h_len (c_hist s rd)) in *.
  set (payload := ienc_bytes ie delta) in *. set (packed := nlen payload) in *.
  destruct ((1 <=? u) && (u <=? 2097152) && (packed <=? 65536)) eqn:Hsz; [|discriminate].
  apply andb_true_iff in Hsz. destruct Hsz as [Hsz Hp64]. apply andb_true_iff in Hsz. destruct Hsz as [Hu1 Hu2].
  apply N.leb_le in Hu1. apply N.leb_le in Hu2. apply N.leb_le in Hp64.
  assert (Eb1 : b1 = c_header cls u packed fpn ++ payload) by congruence.
  assert (Es1 : s1 = mkL2S fpn es2 (c_flushed s rd)) by congruence.
  clear Hser. subst b1 s1.
  (* the side conditions *)
  unfold chunk_okb, chunk_ienc in Hokb. fold fpn in Hokb. rewrite Henc in Hokb. cbn [l2_es] in Hokb.
  apply andb_true_iff in Hokb. destruct Hokb as [Hokb Hbound]. apply andb_true_iff in Hokb. destruct Hokb as [Hokb Hdelta].
  apply andb_true_iff in Hokb. destruct Hokb as [Hneed Hnm].
  apply N.leb_le in Hbound. apply N.ltb_lt in Hdelta. apply no_markerb_spec in Hnm.
  assert (Hneed' : cls = 0 -> need = false).
  { intros ->. change (negb (0 =? 0)) with false in Hneed. cbn [orb] in Hneed. destruct need; [discriminate|reflexivity]. }
  clear Hneed.
  pose proof (c_es1_inv need s cls np HS Hneed' Hc Hok) as (P1 & P2 & Q1 & Q2 & Q3 & Q4 & Q5 & Q6 & Q7 & Q8).
  fold fpn in P1, P2, Q5. fold rd in Q7, Q8.
  pose proof HS as [S1 S2 S3 S4 S5 S6 S7 S8]. destruct HI as [I1 I2 I3 I4 I5 I6 I7 I8 I9 I10 I11 I12].
  (* sizes and control byte *)
  destruct (unpacked_fields u (conj Hu1 Hu2)) as (Hhi & Hlo & Hlor).
  set (hi := N.shiftr (u - 1) 16) in *. set (lo := N.land (u - 1) 65535) in *.
  destruct (ctl_facts cls hi Hc Hhi) as (C1 & C2 & C3).
  set (ctl := 128 + 32 * cls + hi) in *.
  assert (Hpk : packed = i_norms ie + 5) by apply nlen_ienc_bytes.
  unfold c_header in I11. fold hi lo ctl in I11.
  repeat (rewrite <- app_comm_cons in I11 || rewrite <- app_assoc in I11).
  (* the reads *)
  destruct (l2_body_read fuel w ctl _ I10 I11) as (sa & Fa & Ra & Pa & Hbody). rewrite Hbody. clear Hbody.
  rewrite (l2_dispatch_lzma fuel ctl _ C1).
  destruct (mapped_read_u16_field sa lo _ Fa Ra Hlo) as (sb & Eb & Rb & Pb & Fb).
  destruct (mapped_read_u16_field sb (packed - 1) _ Fb Rb ltac:(lia)) as (sc & Ec & Rc & Pc & Fc).
  destruct (pl_dict_exact pre0 s rd (w_ds w) sc (w_acc w) I6 I7) as (a1 & Edict & HA1 & Hm1 & Hff1 & Hfl1).
  destruct (pl_props_exact need s cls np (w_ds w) sc a1 (payload ++ t) HS Hc Hok I1 I2 I3 I4 I5 Fc Rc)
    as (ds' & sd & Eprops & D1 & D2 & D3 & D4 & D5 & Fd & Rd & Pd).
  destruct (c_es1 s cls np) as [t1 st1 h1] eqn:Ees1. cbn [es_tabs es_st es_hist] in *.
  assert (D2' : props_match (ds_props ds') fpn) by exact D2.
  assert (Q5' : TabsStd t1 (lc (ds_props ds') + lp (ds_props ds'))).
  { destruct D2' as (_ & _ & _ & E1 & E2 & _). rewrite <- E1, <- E2. exact Q5. }
  rewrite <- Q7 in HA1.
  destruct (payload_exact fpn (ds_props ds') t1 st1 h1 prog ie es2 delta (pre0 ++ List.rev (c_flushed s rd)) fl
              ds' sd a1 t fuel D2' D1 eq_refl D3 D4 D5 Q1 Q2 Q3 Q4 Q5' Q6 Henc Hnm Hdelta Hbound
              HA1 Hm1 ltac:(congruence) ltac:(congruence) Fd Rd Hfuel)
    as (w' & Epay & R1 & R2 & R3 & R4 & R5 & R6 & R7 & R8 & R9 & R10 & R11 & R12 & R13 & R14 & R15 & R16 & R17 & R18).
  assert (Hparse : parse_lzma fuel ctl (mkW2 (w_ds w) sa (w_acc w)) = (Done tt, w')).
  { rewrite parse_lzma_eq. destruct (N.eqb_spec (N.land ctl 128) 0) as [E0|_]; [contradiction|].
    unfold w2_src. cbn [w_src w_ds w_acc fst snd]. rewrite Eb. cbn [fst snd w_src w_ds w_acc].
    rewrite Ec. cbn [fst snd w_src w_ds w_acc]. rewrite C2. fold rd. fold rd in Eprops. rewrite Edict, Eprops.
    unfold l2_unpacked. rewrite C3, Hlor. replace (packed - 1 + 1) with packed by lia.
    rewrite Q8 in Epay. exact Epay. }
  rewrite Hparse. exists w'. split; [reflexivity|]. split.
  - constructor; cbn [l2_props l2_es l2_flushed]; try assumption.
    + rewrite R2. exact D2'.
    + rewrite R18, Pd, Pc, Pb, Pa, I12. unfold c_header. fold hi lo ctl.
      rewrite nlen_app, nlen_cons, !nlen_app.
      destruct (be_bytes_2 lo) as (x1 & y1 & ->). destruct (be_bytes_2 (packed - 1)) as (x2 & y2 & ->).
      change (nlen [x1; y1]) with 2. change (nlen [x2; y2]) with 2. fold packed.
      destruct (2 <=? cls); [change (nlen [props_byte fpn]) with 1|change (nlen (@nil N)) with 0]; unfold packed, payload; lia.
  - destruct D2' as (_ & _ & _ & E1 & E2 & _).
    constructor; cbn [l2_props l2_es]; try assumption.
    + rewrite E1, E2. exact R10.
    + intros _. exact R9.
Qed.
Print Assumptions lzma_chunk_exact.
