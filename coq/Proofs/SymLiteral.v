(* The literal coder: decode_literal inverts lit_evs, in plain and in matched mode. *)
From LZ Require Import Base.Prelude Base.Prog Model.Tables Model.RangeDec Model.Lzma Format.RefEnc
  Proofs.ProgLemmas Proofs.SymOracle.
Local Open Scope prog_scope.

Lemma interp_bind_assoc {S A B C} (hd : handler decE S) (a : dprog A) (f : A -> dprog B) (g : B -> dprog C) s :
  interp hd (bind (bind a f) g) s = interp hd (bind a (fun x => bind (f x) g)) s.
Proof.
  revert s. induction a as [x|e|p|X o k IH]; intros s; cbn [bind interp]; try reflexivity.
  destruct (hd X o s); auto.
Qed.

Lemma interp_ret_bind {A B} w (a : A) (f : A -> dprog B) s :
  interp (oracle w) (bind (Ret a) f) s = interp (oracle w) (f a) s.
Proof. reflexivity. Qed.

Lemma interp_bit2 {A B} w c upd b evs h (k1 : bool -> dprog A) (k2 : A -> dprog B) :
  interp (oracle w) (bind (bind (dcall (Bit c upd)) k1) k2) (EvBit c b :: evs, h)
  = interp (oracle w) (bind (k1 b) k2) (evs, h).
Proof. rewrite interp_bind_assoc. exact (interp_bit w c upd b evs h (fun x => bind (k1 x) k2)). Qed.

Lemma pow2_succ_le8 j : (j <= 7)%nat -> 2 ^ N.succ (N.of_nat j) <= 256.
Proof. intros H. change 256 with (2 ^ 8). apply N.pow_le_mono_r; lia. Qed.

Lemma lit_plain_loop_decodes w row upd byte mbyte rest h : forall fuel k j m,
  (k <= fuel)%nat -> (j + k = 8)%nat -> 2 ^ N.of_nat j <= m -> m < 2 ^ N.succ (N.of_nat j) ->
  interp (oracle w) (lit_plain_loop fuel row upd m) (lit_evs k row byte mbyte false m ++ rest, h)
  = (Done (m * 2 ^ N.of_nat k + byte mod 2 ^ N.of_nat k), (rest, h)).
Proof.
  induction fuel as [|fuel IH]; intros k j m Hk Hj Hlo Hhi.
  - destruct k; [|lia]. cbn [lit_plain_loop lit_evs app]. rewrite interp_ret.
    change (N.of_nat 0) with 0. rewrite N.pow_0_r, N.mod_1_r. do 2 f_equal. lia.
  - cbn [lit_plain_loop]. destruct (N.leb_spec 256 m) as [G|L].
    + destruct k.
      * cbn [lit_evs app]. rewrite interp_ret.
        change (N.of_nat 0) with 0. rewrite N.pow_0_r, N.mod_1_r. do 2 f_equal. lia.
      * exfalso. pose proof (pow2_succ_le8 j ltac:(lia)). lia.
    + destruct k.
      * exfalso. replace j with 8%nat in Hlo by lia. change (2 ^ N.of_nat 8) with 256 in Hlo. lia.
      * cbn [lit_evs app]. rewrite interp_bit. rewrite lxor_double_bit.
        set (b := nbit byte (N.of_nat k)).
        assert (Hb := b2n_le1 b).
        rewrite (IH k (S j)); try lia.
        -- do 2 f_equal. rewrite (Nat2N.inj_succ k), mod_pow2_succ, N.pow_succ_r'.
           unfold b, nbit. ring.
        -- rewrite Nat2N.inj_succ. rewrite N.pow_succ_r' in *. lia.
        -- rewrite Nat2N.inj_succ. rewrite (N.pow_succ_r' 2 (N.succ (N.of_nat j))). lia.
Qed.

Lemma lit_matched_loop_decodes {B} w row upd byte mbyte rest h (g : N -> dprog B) : forall fuel k j m,
  (k <= fuel)%nat -> (j + k = 8)%nat -> 2 ^ N.of_nat j <= m -> m < 2 ^ N.succ (N.of_nat j) ->
  interp (oracle w)
    (bind (lit_matched_loop fuel row upd (N.shiftl mbyte (N.of_nat j)) m)
          (fun r => bind (lit_plain_loop 8 row upd r) g))
    (lit_evs k row byte mbyte true m ++ rest, h)
  = interp (oracle w) (g (m * 2 ^ N.of_nat k + byte mod 2 ^ N.of_nat k)) (rest, h).
Proof.
  induction fuel as [|fuel IH]; intros k j m Hk Hj Hlo Hhi.
  - destruct k; [|lia]. cbn [lit_matched_loop]. rewrite interp_ret_bind.
    change (lit_evs 0 row byte mbyte true m) with (lit_evs 0 row byte mbyte false m).
    rewrite (interp_bind_done _ _ _ _ _ _ (lit_plain_loop_decodes w row upd byte mbyte rest h 8 0 j m ltac:(lia) Hj Hlo Hhi)).
    reflexivity.
  - cbn [lit_matched_loop]. destruct (N.leb_spec 256 m) as [G|L].
    + destruct k.
      * rewrite interp_ret_bind.
        change (lit_evs 0 row byte mbyte true m) with (lit_evs 0 row byte mbyte false m).
        rewrite (interp_bind_done _ _ _ _ _ _ (lit_plain_loop_decodes w row upd byte mbyte rest h 8 0 j m ltac:(lia) Hj Hlo Hhi)).
        reflexivity.
      * exfalso. pose proof (pow2_succ_le8 j ltac:(lia)). lia.
    + destruct k.
      * exfalso. replace j with 8%nat in Hlo by lia. change (2 ^ N.of_nat 8) with 256 in Hlo. lia.
      * cbn [lit_evs app].
        rewrite land1_shiftr_bit.
        rewrite N.shiftl_spec_high' by lia.
        replace (7 - N.of_nat j) with (N.of_nat k) by lia.
        rewrite N.shiftl_mul_pow2. change (2 ^ 8) with 256.
        rewrite (N.mul_comm _ 256).
        set (mb := nbit mbyte (N.of_nat k)). fold (nbit mbyte (N.of_nat k)). fold mb.
        set (b := nbit byte (N.of_nat k)).
        rewrite interp_bit2.
        rewrite lxor_double_bit.
        assert (Hb := b2n_le1 b).
        assert (Heq : (b2n mb =? b2n b) = Bool.eqb mb b) by (destruct mb, b; reflexivity).
        rewrite Heq.
        assert (Hlo' : 2 ^ N.of_nat (S j) <= 2 * m + b2n b).
        { rewrite Nat2N.inj_succ. rewrite N.pow_succ_r' in *. lia. }
        assert (Hhi' : 2 * m + b2n b < 2 ^ N.succ (N.of_nat (S j))).
        { rewrite Nat2N.inj_succ. rewrite (N.pow_succ_r' 2 (N.succ (N.of_nat j))). lia. }
        assert (Eres : (2 * m + b2n b) * 2 ^ N.of_nat k + byte mod 2 ^ N.of_nat k
                       = m * 2 ^ N.of_nat (S k) + byte mod 2 ^ N.of_nat (S k)).
        { rewrite (Nat2N.inj_succ k), mod_pow2_succ, N.pow_succ_r'. unfold b, nbit. ring. }
        destruct (Bool.eqb mb b).
        -- rewrite N.shiftl_shiftl.
           replace (N.of_nat j + 1) with (N.of_nat (S j)) by lia.
           rewrite (IH k (S j)) by (assumption || lia).
           rewrite Eres. reflexivity.
        -- rewrite interp_ret_bind.
           rewrite (interp_bind_done _ _ _ _ _ _
                     (lit_plain_loop_decodes w row upd byte mbyte rest h 8 k (S j) _ ltac:(lia) ltac:(lia) Hlo' Hhi')).
           rewrite Eres. reflexivity.
Qed.

Theorem literal_decodes w p st r upd b rest h :
  lc p <= 8 -> b < 256 ->
  (7 <= st -> can_copy w h (rep0 r + 1) = true) ->
  let prev := match h_bytes h with [] => 0 | x :: _ => x end in
  let row := N.shiftl (N.land (h_len h) (2 ^ lp p - 1)) (lc p) + N.shiftr prev (8 - lc p) in
  let mbyte := nth (N.to_nat (rep0 r)) (h_bytes h) 0 in
  interp (oracle w) (decode_literal p (mkSym st r) upd) (lit_evs 8 row b mbyte (7 <=? st) 1 ++ rest, h)
  = (Done b, (rest, h)).
Proof.
  intros Hlc Hb Hcc prev row mbyte. unfold decode_literal.
  rewrite interp_wlastor, interp_wlen.
  destruct (N.ltb_spec 8 (lc p)) as [C|_]; [lia|].
  cbn [y_state y_rep]. rewrite N.shiftl_1_l. fold prev. fold row.
  assert (Efin : forall s, interp (oracle w)
      (if 1 * 2 ^ N.of_nat 8 + b mod 2 ^ N.of_nat 8 <? 256 then Panic (POverflow 31)
       else Ret (M8 (1 * 2 ^ N.of_nat 8 + b mod 2 ^ N.of_nat 8 - 256))) s = (Done b, s)).
  { intros s. change (2 ^ N.of_nat 8) with 256. rewrite (N.mod_small b 256) by exact Hb.
    destruct (N.ltb_spec (1 * 256 + b) 256) as [C|_]; [lia|].
    rewrite interp_ret. replace (1 * 256 + b - 256) with b by lia. rewrite M8_small by exact Hb. reflexivity. }
  destruct (N.leb_spec 7 st) as [G7|L7].
  - rewrite interp_bind_assoc.
    rewrite interp_wlastn by (apply Hcc; exact G7).
    replace (rep0 r + 1 - 1) with (rep0 r) by lia. fold mbyte.
    pose proof (lit_matched_loop_decodes w row upd b mbyte rest h
       (fun result => if result <? 256 then Panic (POverflow 31) else Ret (M8 (result - 256)))
       8 8 0 1 ltac:(lia) ltac:(lia) ltac:(change (2 ^ N.of_nat 0) with 1; lia)
       ltac:(change (2 ^ N.succ (N.of_nat 0)) with 2; lia)) as M.
    change (N.of_nat 0) with 0 in M. rewrite N.shiftl_0_r in M.
    rewrite M. apply Efin.
  - rewrite interp_ret_bind.
    rewrite (interp_bind_done _ _ _ _ _ _
       (lit_plain_loop_decodes w row upd b mbyte rest h 8 8 0 1 ltac:(lia) ltac:(lia)
          ltac:(change (2 ^ N.of_nat 0) with 1; lia) ltac:(change (2 ^ N.succ (N.of_nat 0)) with 2; lia))).
    apply Efin.
Qed.
Print Assumptions literal_decodes.
