(* get/set lemmas for the N-indexed maps used for tables and buffers. *)
From LZ Require Import Base.Prelude Model.Tables.

Lemma succ_pos_inj i j : N.succ_pos i = N.succ_pos j -> i = j.
Proof.
  intros H. apply (f_equal Npos) in H. rewrite !N.succ_pos_spec in H. lia.
Qed.

Lemma nm_gss m i v d : nm_get (nm_set m i v) i d = v.
Proof. unfold nm_get, nm_set. rewrite PM.gss. reflexivity. Qed.

Lemma nm_gso m i j v d : i <> j -> nm_get (nm_set m j v) i d = nm_get m i d.
Proof.
  intros H. unfold nm_get, nm_set. rewrite PM.gso; [reflexivity|].
  intros E. apply H. apply succ_pos_inj. exact E.
Qed.

Lemma nm_get_empty i d : nm_get nm_empty i d = d.
Proof. unfold nm_get, nm_empty. rewrite PM.gempty. reflexivity. Qed.

Lemma tab_get_new len i : tab_get (tab_new len) i = if i <? len then Some 1024 else None.
Proof. unfold tab_get, tab_new. cbn [t_len t_map]. rewrite nm_get_empty. reflexivity. Qed.

Lemma tab_get_set_same t i v : i < t_len t -> tab_get (tab_set t i v) i = Some v.
Proof.
  intros H. unfold tab_get, tab_set. cbn [t_len t_map].
  destruct (N.ltb_spec i (t_len t)); [|lia]. rewrite nm_gss. reflexivity.
Qed.

Lemma tab_get_set_other t i j v : i <> j -> tab_get (tab_set t j v) i = tab_get t i.
Proof.
  intros H. unfold tab_get, tab_set. cbn [t_len t_map].
  destruct (i <? t_len t); [|reflexivity]. rewrite nm_gso by exact H. reflexivity.
Qed.

Lemma tab_len_set t i v : t_len (tab_set t i v) = t_len t.
Proof. reflexivity. Qed.
