(* Fragmentation independence (C13), LZMA2 layer. *)
From LZ Require Import Base.Prelude Base.Prog Model.Io Model.Tables Model.LzBuffer Model.RangeDec Model.Lzma Model.Lzma2
  Proofs.ProgLemmas Proofs.IoLemmas Proofs.FragIo Proofs.FragLzma.
Local Open Scope prog_scope.

Definition w2_rel (x1 x2 : w2) : Prop :=
  w_ds x1 = w_ds x2 /\ ds_pib (w_ds x1) = [] /\ w_acc x1 = w_acc x2 /\ same_data (w_src x1) (w_src x2).

Lemma w2_rel_mk d a s1 s2 : ds_pib d = [] -> same_data s1 s2 -> w2_rel (mkW2 d s1 a) (mkW2 d s2 a).
Proof. intros Hp H. unfold w2_rel. cbn [w_ds w_acc w_src]. repeat split; try reflexivity; try assumption; apply H. Qed.

Lemma set_limit_same s1 s2 l : same_data s1 s2 -> same_data (set_limit s1 l) (set_limit s2 l).
Proof.
  intros (E1 & E2 & E3 & [F1 F2] & [G1 G2]). unfold same_data, FaultFreeL, set_limit.
  cbn [s_rest s_pos s_limit s_fail s_avail]. repeat split; assumption.
Qed.

Lemma w2_src_rel {A} (p : iop A) x1 x2 : Resp2 p -> w2_rel x1 x2 ->
  orel w2_rel (w2_src x1 (src_run p (w_src x1))) (w2_src x2 (src_run p (w_src x2))).
Proof.
  intros Hp (E1 & Hpib & E3 & Hsd).
  destruct (Resp2_src_run p Hp _ _ Hsd) as (r & t1 & t2 & R1 & R2 & Hsd').
  rewrite R1, R2. unfold w2_src, orel. cbn [fst snd]. split; [reflexivity|].
  rewrite <- E1, <- E3. apply w2_rel_mk; assumption.
Qed.

(* goal: orel R (match X1 with ..) (match X2 with ..); H : orel w2_rel X1 X2 *)
Ltac orel_done := unfold orel; cbn [fst snd]; split; [reflexivity|assumption].
Ltac orel_case H y1 y2 v :=
  match type of H with
  | orel _ ?X1 ?X2 =>
      let o1 := fresh "o" in let o2 := fresh "o" in
      let Hf := fresh "Hf" in let Hr := fresh "Hr" in
      destruct X1 as [o1 y1]; destruct X2 as [o2 y2]; destruct H as [Hf Hr];
      cbn [fst snd] in Hf, Hr; subst o2; destruct o1 as [v| |]; [|orel_done|orel_done]
  end.
Ltac orel_step lem y1 y2 v :=
  match goal with
  | |- orel _ (match ?X1 with _ => _ end) (match ?X2 with _ => _ end) =>
      let H := fresh "H" in
      assert (H : orel w2_rel X1 X2) by lem; orel_case H y1 y2 v
  end.

Lemma reset_dict_rel (b : bool) x1 x2 : w2_rel x1 x2 ->
  orel w2_rel
    (if b then match accum_reset (w_acc x1) with (r, a) => (r, mkW2 (w_ds x1) (w_src x1) a) end else (Done tt, x1))
    (if b then match accum_reset (w_acc x2) with (r, a) => (r, mkW2 (w_ds x2) (w_src x2) a) end else (Done tt, x2)).
Proof.
  intros H. destruct b; [|split; [reflexivity|exact H]].
  destruct H as (E1 & Hpib & E3 & Hsd). rewrite <- E1, <- E3.
  destruct (accum_reset (w_acc x1)) as [r a]. split; [reflexivity|]. cbn [snd]. apply w2_rel_mk; assumption.
Qed.

Lemma reset_state_pib d p d' u : reset_state d p = (Done d', u) -> ds_pib d' = ds_pib d.
Proof.
  unfold reset_state. destruct (negb (props_valid p)); [discriminate|]. intros H. inversion H. reflexivity.
Qed.

Theorem parse_lzma_rel fuel status x1 x2 : w2_rel x1 x2 ->
  orel w2_rel (parse_lzma fuel status x1) (parse_lzma fuel status x2).
Proof.
  intros H0. unfold parse_lzma.
  destruct (N.land status 128 =? 0); [split; [reflexivity|exact H0]|]. cbv zeta.
  orel_step ltac:(apply w2_src_rel; [apply Resp2_map, Resp2_read_u16_be|exact H0]) y1 y2 us16.
  orel_step ltac:(apply w2_src_rel; [apply Resp2_map, Resp2_read_u16_be|assumption]) z1 z2 ps16.
  orel_step ltac:(apply reset_dict_rel; assumption) u1 u2 tt1.
  (* the state reset *)
  match goal with
  | |- orel _ (match ?X1 with _ => _ end) (match ?X2 with _ => _ end) =>
      assert (H : orel w2_rel X1 X2)
  end.
  { destruct (negb (N.land (N.shiftr status 5) 3 =? 0)); [|split; [reflexivity|assumption]].
    match goal with
    | |- orel _ (match ?X1 with _ => _ end) (match ?X2 with _ => _ end) =>
        assert (H : orel w2_rel X1 X2)
    end.
    { destruct ((N.land (N.shiftr status 5) 3 =? 2) || (N.land (N.shiftr status 5) 3 =? 3)).
      - orel_step ltac:(apply w2_src_rel; [apply Resp2_map, Resp2_read_u8|assumption]) v1 v2 pbyte.
        destruct (225 <=? pbyte); [orel_done|]. cbv zeta.
        destruct (4 <? pbyte mod 9 + (pbyte / 9) mod 5); orel_done.
      - assert (E1 : w_ds u1 = w_ds u2) by apply Hr1. rewrite <- E1.
        split; [reflexivity|exact Hr1]. }
    orel_case H v1 v2 np.
    pose proof Hr2 as Hr2'. destruct Hr2 as (E1 & Hpib & E3 & Hsd). rewrite <- E1, <- E3.
    destruct (reset_state (w_ds v1) np) as [[d'|e|q] u] eqn:Er.
    - split; [reflexivity|]. cbn [snd]. apply w2_rel_mk; [|assumption].
      rewrite (reset_state_pib _ _ _ _ Er). assumption.
    - split; [reflexivity|exact Hr2'].
    - split; [reflexivity|exact Hr2']. }
  orel_case H v1 v2 tt2.
  (* the chunk *)
  destruct v1 as [d s1 a], v2 as [d2 s2 a2]. destruct Hr2 as (E1 & Hpib & E3 & Hsd).
  cbn [w_ds w_acc w_src] in *. subst d2 a2.
  set (d' := set_unpacked_size d _).
  assert (Hpib' : ds_pib d' = []) by exact Hpib.
  clearbody d'.
  destruct (Resp2_src_run _ (Resp2_map ELzma _ Resp2_rc_new) _ _ (set_limit_same s1 s2 (Some (ps16 + 1)) Hsd))
    as (o & t1 & t2 & R1 & R2 & Hsd').
  rewrite R1, R2.
  destruct o as [r|e|q];
    try (split; [reflexivity|]; cbn [snd]; apply w2_rel_mk; [assumption|apply set_limit_same; assumption]).
  destruct (process_mode_rel fuel (mkLw d' r t1 (WAccum a)) (mkLw d' r t2 (WAccum a))
              (lw_rel_mk _ _ _ _ _ Hpib' Hsd')) as [Gf Gr].
  destruct (process_mode FinishMode fuel (mkLw d' r t1 (WAccum a))) as [o1 p1].
  destruct (process_mode FinishMode fuel (mkLw d' r t2 (WAccum a))) as [o2 p2].
  cbn [fst snd] in Gf, Gr. subst o2. destruct Gr as (F1 & Fp & F2 & F3 & Fsd).
  split; [reflexivity|]. cbn [snd]. rewrite <- F1, <- F3. apply w2_rel_mk; [assumption|].
  apply set_limit_same. assumption.
Qed.

Theorem parse_uncompressed_rel b x1 x2 : w2_rel x1 x2 ->
  orel w2_rel (parse_uncompressed b x1) (parse_uncompressed b x2).
Proof.
  intros H0. unfold parse_uncompressed.
  orel_step ltac:(apply w2_src_rel; [apply Resp2_map, Resp2_read_u16_be|exact H0]) y1 y2 us16.
  cbv zeta.
  orel_step ltac:(apply reset_dict_rel; assumption) u1 u2 tt1.
  orel_step ltac:(apply w2_src_rel; [apply Resp2_map, Resp2_read_exact|assumption]) z1 z2 bs.
  destruct Hr1 as (E1 & Hpib & E3 & Hsd). rewrite <- E1, <- E3.
  split; [reflexivity|]. cbn [snd]. apply w2_rel_mk; assumption.
Qed.

Definition step2_rel (b1 b2 : step w2 (outcome unit * w2)) : Prop :=
  match b1, b2 with
  | Next t1, Next t2 => w2_rel t1 t2
  | Break r1, Break r2 => orel w2_rel r1 r2
  | _, _ => False
  end.

Lemma l2_body_rel fuel x1 x2 : w2_rel x1 x2 -> step2_rel (l2_body fuel x1) (l2_body fuel x2).
Proof.
  intros H0. unfold l2_body.
  pose proof (w2_src_rel (map_io_err ELzma read_u8) x1 x2 (Resp2_map _ _ Resp2_read_u8) H0) as H.
  destruct (w2_src x1 _) as [o1 y1]. destruct (w2_src x2 _) as [o2 y2].
  destruct H as [Hf Hr]. cbn [fst snd] in Hf, Hr. subst o2.
  destruct o1 as [status|e|q]; try (unfold step2_rel, orel; cbn [fst snd]; split; [reflexivity|assumption]).
  destruct (status =? 0); [unfold step2_rel, orel; cbn [fst snd]; split; [reflexivity|assumption]|].
  match goal with
  | |- step2_rel (match ?X1 with _ => _ end) (match ?X2 with _ => _ end) =>
      assert (H : orel w2_rel X1 X2)
  end.
  { destruct (status =? 1); [apply parse_uncompressed_rel; assumption|].
    destruct (status =? 2); [apply parse_uncompressed_rel; assumption|].
    apply parse_lzma_rel; assumption. }
  match type of H with
  | orel _ ?X1 ?X2 => destruct X1 as [r1 z1]; destruct X2 as [r2 z2]
  end.
  destruct H as [Hf' Hr']. cbn [fst snd] in Hf', Hr'. subst r2.
  destruct r1 as [u|e|q]; unfold step2_rel, orel; cbn [fst snd]; try (split; [reflexivity|assumption]). assumption.
Qed.

Theorem lzma2_decompress_rel fuel dec w1 w2 :
  ds_pib (l2_state dec) = [] -> sdio w1 w2 ->
  fst (lzma2_decompress fuel dec w1) = fst (lzma2_decompress fuel dec w2) /\
  fst (snd (lzma2_decompress fuel dec w1)) = fst (snd (lzma2_decompress fuel dec w2)) /\
  sdio (snd (snd (lzma2_decompress fuel dec w1))) (snd (snd (lzma2_decompress fuel dec w2))).
Proof.
  destruct w1 as [s1 k1], w2 as [s2 k2]. intros Hp [Hsd Hk]. cbn [i_src i_snk] in *. subst k2.
  unfold lzma2_decompress. cbv zeta. cbn [i_src i_snk].
  set (a0 := accum_new k1 (USIZE - 1)).
  pose proof (loopN_sim (l2_body fuel) (l2_body fuel) w2_rel (orel w2_rel) (l2_body_rel fuel) fuel
                (mkW2 (l2_state dec) s1 a0) (mkW2 (l2_state dec) s2 a0) (w2_rel_mk _ _ _ _ Hp Hsd)) as L.
  destruct (loopN fuel (l2_body fuel) (mkW2 (l2_state dec) s1 a0)) as [t1|[o1 y1]];
    destruct (loopN fuel (l2_body fuel) (mkW2 (l2_state dec) s2 a0)) as [t2|[o2 y2]]; try contradiction.
  - destruct L as (E1 & _ & E3 & Hsd'). rewrite <- E1, <- E3. cbn [fst snd].
    split; [reflexivity|]. split; [reflexivity|]. split; [exact Hsd'|reflexivity].
  - destruct L as [Hf (E1 & _ & E3 & Hsd')]. cbn [fst snd] in *. subst o2. rewrite <- E1, <- E3.
    destruct o1 as [u|e|q].
    + destruct (accum_finish (w_acc y1)) as [r k]. cbn [fst snd].
      split; [reflexivity|]. split; [reflexivity|]. split; [exact Hsd'|reflexivity].
    + cbn [fst snd]. split; [reflexivity|]. split; [reflexivity|]. split; [exact Hsd'|reflexivity].
    + cbn [fst snd]. split; [reflexivity|]. split; [reflexivity|]. split; [exact Hsd'|reflexivity].
Qed.

Theorem lzma2_decompress_top_rel fuel w1 w2 : sdio w1 w2 ->
  orel sdio (lzma2_decompress_top fuel w1) (lzma2_decompress_top fuel w2).
Proof.
  intros H. unfold lzma2_decompress_top.
  destruct lzma2_new as [dec|e|q] eqn:En; try (split; [reflexivity|exact H]).
  assert (Hp : ds_pib (l2_state dec) = []).
  { revert En. unfold lzma2_new, dstate_new. destruct (negb (props_valid props0)); [discriminate|].
    intros E. inversion E. reflexivity. }
  pose proof (lzma2_decompress_rel fuel dec w1 w2 Hp H) as (H1 & H2 & H3).
  destruct (lzma2_decompress fuel dec w1) as [r1 [d1 v1]].
  destruct (lzma2_decompress fuel dec w2) as [r2 [d2 v2]].
  cbn [fst snd] in *. split; assumption.
Qed.

Print Assumptions lzma2_decompress_top_rel.
