(* Property C07, Part 4: the no-panic invariant lifted through the decoding loops of
   decode/lzma.rs: process_mode (both modes, any fuel), LzmaDecoder::{new,reset,decompress}
   and lzma_decompress.  The input is ARBITRARY (all that is assumed is that the elements
   delivered by the source are bytes); the reader may fragment and fail in any way, the
   sink may accept short writes and fail in any way, options are arbitrary. *)
From LZ Require Import Base.Prelude Base.Prog Model.Io Model.Tables Model.LzBuffer Model.RangeDec Model.Lzma Model.Lzma2.
From LZ Require Import Proofs.ProgLemmas Proofs.MapLemmas Proofs.NoPanic Proofs.NoPanicWorld
                       Proofs.IoInv Proofs.SrcMono Proofs.ResetFresh Proofs.Lzma2Inv.
From Coq Require Import ZifyBool ZifyNat ZifyN.
Local Open Scope prog_scope.

Ltac Zify.zify_post_hook ::= Z.div_mod_to_equations.

(* ====================================================================== *)
(* The invariant, split into its independent components                     *)
(* ====================================================================== *)
Definition Bytes (l : list N) : Prop := Forall (fun b => b < 256) l.

(* the decoder state proper: valid properties, state/rep registers in range, tables of the
   standard shape holding probabilities in [31, 2017] *)
Record DsOk (d : dstate) : Prop := mkDsOk {
  do_lc : lc (ds_props d) <= 8;
  do_lp : lp (ds_props d) <= 4;
  do_pb : pb (ds_props d) <= 4;
  do_sym : sym32 (mkSym (ds_state d) (ds_rep d));
  do_tabs : TabsStd (ds_tabs d) (lc (ds_props d) + lp (ds_props d));
  do_probs : ProbsOk (ds_tabs d)
}.

(* partial_input_buf: at most MAX_REQUIRED_INPUT bytes *)
Definition PibOk (d : dstate) : Prop :=
  nlen (ds_pib d) <= MAX_REQUIRED_INPUT /\ Bytes (ds_pib d).

Lemma LwInv_split w : LwInv w ->
  DsOk (l_ds w) /\ RcInv (l_rc w) /\ SrcBytes (l_src w) /\ WinOk (l_win w).
Proof.
  intros [H1 H2 H3 H4 [W1 W2 W3 W4 W5]]. cbn [d_rc d_tabs d_src d_win] in *.
  split; [constructor; assumption|]. split; [assumption|]. split; assumption.
Qed.

Lemma LwInv_join d r s v : DsOk d -> RcInv r -> SrcBytes s -> WinOk v -> LwInv (mkLw d r s v).
Proof.
  intros [H1 H2 H3 H4 H5 H6] Hr Hs Hv.
  constructor; cbn [l_ds l_rc l_src l_win]; try assumption.
  constructor; cbn [d_rc d_tabs d_src d_win]; assumption.
Qed.

Lemma DsOk_set_pib d pib : DsOk d -> DsOk (set_pib d pib).
Proof. intros [H1 H2 H3 H4 H5 H6]. constructor; cbn [set_pib ds_props ds_state ds_rep ds_tabs]; assumption. Qed.

Lemma DsOk_set_unpacked d us : DsOk d -> DsOk (set_unpacked_size d us).
Proof. intros [H1 H2 H3 H4 H5 H6]. constructor; cbn [set_unpacked_size ds_props ds_state ds_rep ds_tabs]; assumption. Qed.

Lemma PibOk_set_unpacked d us : PibOk d -> PibOk (set_unpacked_size d us).
Proof. intros H. exact H. Qed.

(* the invariant of process_mode *)
Definition PmInv (w : lw) : Prop := LwInv w /\ PibOk (l_ds w).

Lemma PmInv_split w : PmInv w ->
  DsOk (l_ds w) /\ PibOk (l_ds w) /\ RcInv (l_rc w) /\ SrcBytes (l_src w) /\ WinOk (l_win w).
Proof. intros [H P]. apply LwInv_split in H. tauto. Qed.

Lemma PmInv_join d r s v : DsOk d -> PibOk d -> RcInv r -> SrcBytes s -> WinOk v -> PmInv (mkLw d r s v).
Proof. intros. split; [apply LwInv_join; assumption|assumption]. Qed.

Lemma PmInv_eta w : PmInv w -> PmInv (mkLw (l_ds w) (l_rc w) (l_src w) (l_win w)).
Proof. destruct w. exact (fun H => H). Qed.

(* result of a step: no panic, and the invariant holds in the state that is left behind
   (also after an error) *)
Definition ok_res {A} (r : outcome A * lw) : Prop :=
  match r with (Panicked _, _) => False | (_, w') => PmInv w' end.

(* ====================================================================== *)
(* POverflow 40: a cursor cannot advance beyond the length of its data      *)
(* ====================================================================== *)
Lemma cursor_pos_le data s : sle (cursor_of data) s -> s_pos s <= nlen data.
Proof.
  intros [(c & E & P) _]. cbn [cursor_of src_of s_rest s_pos] in *.
  rewrite P, E, nlen_app. lia.
Qed.

Theorem run_sym_cursor_pos upd d r v buf :
  s_pos (l_src (snd (run_sym upd (mkLw d r (cursor_of buf) v)))) <= nlen buf.
Proof.
  apply cursor_pos_le. exact (run_sym_sle upd (mkLw d r (cursor_of buf) v)).
Qed.
Print Assumptions run_sym_cursor_pos.

Lemma Bytes_nskipn n l : Bytes l -> Bytes (nskipn n l).
Proof. apply Forall_skipn_lt. Qed.
Lemma Bytes_nfirstn n l : Bytes l -> Bytes (nfirstn n l).
Proof. apply Forall_firstn_lt. Qed.
Lemma Bytes_app l1 l2 : Bytes l1 -> Bytes l2 -> Bytes (l1 ++ l2).
Proof. intros H1 H2. apply Forall_app. split; assumption. Qed.

Lemma nlen_nskipn_le {A} n (l : list A) : nlen (nskipn n l) <= nlen l.
Proof. unfold nlen, nskipn. rewrite skipn_length. lia. Qed.

(* ====================================================================== *)
(* The pieces of pm_body                                                    *)
(* ====================================================================== *)

(* the symbol step keeps partial_input_buf *)
Lemma run_sym_pib upd w : ds_pib (l_ds (snd (run_sym upd w))) = ds_pib (l_ds w).
Proof. destruct (run_sym_frame upd w) as (H & _). exact H. Qed.

Lemma run_sym_ok upd w : PmInv w -> ok_res (run_sym upd w).
Proof.
  intros [Hw Hp]. pose proof (run_sym_safe upd w Hw) as H. pose proof (run_sym_pib upd w) as E.
  unfold ok_res, PmInv, PibOk in *.
  destruct (run_sym upd w) as [[st|e|q] w']; cbn [snd] in E; [| |exact H]; (split; [exact H|rewrite E; exact Hp]).
Qed.

(* try_process_next: the dry run on a cursor over [buf] never panics and never fails *)
Theorem try_process_next_safe w buf : PmInv w -> Bytes buf ->
  match try_process_next w buf with Done _ => True | _ => False end.
Proof.
  intros Hw Hb. apply PmInv_split in Hw. destruct Hw as (H1 & H2 & H3 & H4 & H5).
  unfold try_process_next.
  assert (Hc : LwInv (mkLw (l_ds w) (l_rc w) (cursor_of buf) (l_win w))).
  { apply LwInv_join; first [assumption|exact Hb]. }
  pose proof (run_sym_safe false _ Hc) as H.
  destruct (run_sym false _) as [[st|e|q] w']; [exact I|exact I|exact H].
Qed.
Print Assumptions try_process_next_safe.

(* read_partial_input_buf: PIndex 20 is unreachable, the buffer stays within 20 bytes *)
Theorem read_partial_input_buf_safe w : PmInv w -> ok_res (read_partial_input_buf w).
Proof.
  intros Hw. pose proof Hw as Hw0. apply PmInv_split in Hw. destruct Hw as (H1 & [H2 H2'] & H3 & H4 & H5).
  unfold read_partial_input_buf. cbv zeta.
  destruct (N.ltb_spec MAX_REQUIRED_INPUT (nlen (ds_pib (l_ds w)))) as [Hx|_]; [lia|].
  pose proof (io_safe_src_run _ _ (l_src w) (read_buf_safe (MAX_REQUIRED_INPUT - nlen (ds_pib (l_ds w)))) H4) as H.
  destruct (src_run _ (l_src w)) as [[got|e|q] s]; unfold ok_res; [| |exact H].
  - destruct H as [[Hg Hl] Hs]. apply PmInv_join; try assumption.
    + apply DsOk_set_pib. exact H1.
    + unfold PibOk. cbn [set_pib ds_pib]. split; [rewrite nlen_app; lia|apply Bytes_app; assumption].
  - apply PmInv_join; try assumption. split; assumption.
Qed.
Print Assumptions read_partial_input_buf_safe.

Lemma PmInv_src w s : PmInv w -> SrcBytes s -> PmInv (mkLw (l_ds w) (l_rc w) s (l_win w)).
Proof.
  intros Hw Hs. apply PmInv_split in Hw. destruct Hw as (H1 & H2 & H3 & H4 & H5).
  apply PmInv_join; assumption.
Qed.

(* a source-only step inside pm_body *)
Lemma src_step_ok {A B} (Q : A -> Prop) (p : iop A) (f : A -> B) w :
  io_safe Q p -> PmInv w ->
  ok_res (match src_run p (l_src w) with
          | (Done a, s) => (Done (f a), mkLw (l_ds w) (l_rc w) s (l_win w))
          | (Failed e, s) => (Failed e, mkLw (l_ds w) (l_rc w) s (l_win w))
          | (Panicked q, s) => (Panicked q, mkLw (l_ds w) (l_rc w) s (l_win w))
          end).
Proof.
  intros Hp Hw. pose proof Hw as Hw0. apply PmInv_split in Hw. destruct Hw as (H1 & H2 & H3 & H4 & H5).
  pose proof (io_safe_src_run Q p (l_src w) Hp H4) as H.
  destruct (src_run p (l_src w)) as [[a|e|q] s]; unfold ok_res; [| |exact H].
  - apply PmInv_src; tauto.
  - apply PmInv_src; assumption.
Qed.

Lemma rc_is_finished_ok_io_safe r : io_safe (fun _ : bool => True) (rc_is_finished_ok r).
Proof.
  unfold rc_is_finished_ok. destruct (r_code r =? 0); [apply is_eof_safe|apply io_safe_ret; exact I].
Qed.

(* need_more of pm_body *)
Definition need_more (mode : pmode) (n : N) (w : lw) (buf : list N) : outcome bool :=
  match mode with
  | Partial => if n <? MAX_REQUIRED_INPUT then try_process_next w buf else Done false
  | FinishMode => Done false
  end.

Lemma need_more_safe mode n w buf : PmInv w -> Bytes buf ->
  match need_more mode n w buf with Done _ => True | _ => False end.
Proof.
  intros Hw Hb. unfold need_more. destruct mode; [|exact I].
  destruct (n <? MAX_REQUIRED_INPUT); [apply try_process_next_safe; assumption|exact I].
Qed.

(* ====================================================================== *)
(* One iteration of the loop of process_mode                                *)
(* ====================================================================== *)
Definition step_ok (r : step lw pm_result) : Prop :=
  match r with Next w' => PmInv w' | Break r' => ok_res r' end.

Theorem pm_body_safe mode w : PmInv w -> step_ok (pm_body mode w).
Proof.
  intros Hw. unfold pm_body. cbv zeta.
  set (head := match ds_unpacked (l_ds w) with Some us => _ | None => _ end).
  assert (Hh : ok_res head).
  { unfold head. destruct (ds_unpacked (l_ds w)); [exact Hw|]. destruct mode.
    - exact (src_step_ok _ is_eof (fun e => e && (nlen (ds_pib (l_ds w)) =? 0)) w is_eof_safe Hw).
    - destruct (_ =? _); [|exact Hw].
      exact (src_step_ok _ (rc_is_finished_ok (l_rc w)) (fun e => e && (nlen (ds_pib (l_ds w)) =? 0)) w
               (rc_is_finished_ok_io_safe _) Hw). }
  clearbody head. clear Hw w.
  destruct head as [[[|]|e|q] w1]; unfold ok_res in Hh; cbn [step_ok ok_res]; try exact Hh.
  destruct (0 <? nlen (ds_pib (l_ds w1))).
  - (* bytes left over from the previous call *)
    pose proof (read_partial_input_buf_safe w1 Hh) as H2.
    destruct (read_partial_input_buf w1) as [[u|e|q] w2]; unfold ok_res in H2; cbn [step_ok ok_res]; try exact H2.
    pose proof H2 as H2s. apply PmInv_split in H2s. destruct H2s as (D1 & [D2 D2'] & D3 & D4 & D5).
    fold (need_more mode (nlen (ds_pib (l_ds w2))) w2 (ds_pib (l_ds w2))).
    pose proof (need_more_safe mode (nlen (ds_pib (l_ds w2))) w2 (ds_pib (l_ds w2)) H2 D2') as Hn.
    destruct (need_more mode _ w2 _) as [[|]|e|q]; cbn [step_ok ok_res]; try exact H2; try contradiction.
    assert (Hc : PmInv (mkLw (l_ds w2) (l_rc w2) (cursor_of (ds_pib (l_ds w2))) (l_win w2))).
    { apply PmInv_join; first [assumption|split; assumption|exact D2']. }
    pose proof (run_sym_ok true _ Hc) as H3.
    pose proof (run_sym_cursor_pos true (l_ds w2) (l_rc w2) (l_win w2) (ds_pib (l_ds w2))) as Hpos.
    pose proof (run_sym_pib true (mkLw (l_ds w2) (l_rc w2) (cursor_of (ds_pib (l_ds w2))) (l_win w2))) as Hpib.
    destruct (run_sym true _) as [[st|e|q] t]; unfold ok_res in H3; cbn [snd l_ds] in Hpos, Hpib;
      cbn [step_ok ok_res]; try exact H3.
    + destruct (N.ltb_spec (nlen (ds_pib (l_ds w2))) (s_pos (l_src t))) as [Hx|_]; [lia|].
      apply PmInv_split in H3. destruct H3 as (T1 & T2 & T3 & T4 & T5).
      assert (H4 : PmInv (mkLw (set_pib (l_ds t) (nskipn (s_pos (l_src t)) (ds_pib (l_ds w2)))) (l_rc t) (l_src w2) (l_win t))).
      { apply PmInv_join; try assumption.
        - apply DsOk_set_pib. exact T1.
        - unfold PibOk. cbn [set_pib ds_pib]. split.
          + eapply N.le_trans; [apply nlen_nskipn_le|exact D2].
          + apply Bytes_nskipn. exact D2'. }
      destruct st; cbn [step_ok ok_res]; exact H4.
    + apply PmInv_split in H3. destruct H3 as (T1 & T2 & T3 & T4 & T5).
      apply PmInv_join; assumption.
  - (* decode straight from the reader's buffer *)
    pose proof Hh as Hs. apply PmInv_split in Hs. destruct Hs as (D1 & D2 & D3 & D4 & D5).
    pose proof (io_safe_src_run _ _ (l_src w1) io_safe_fill D4) as Hf.
    destruct (src_run (icall FillBuf) (l_src w1)) as [[buf|e|q] s]; cbn [step_ok ok_res]; [| |exact Hf].
    + destruct Hf as [Hb Hs].
      assert (H2 : PmInv (mkLw (l_ds w1) (l_rc w1) s (l_win w1))) by (apply PmInv_src; assumption).
      assert (Hv : Bytes (visible buf)) by (unfold visible; apply Bytes_nfirstn; exact Hb).
      fold (need_more mode (snd buf) (mkLw (l_ds w1) (l_rc w1) s (l_win w1)) (visible buf)).
      pose proof (need_more_safe mode (snd buf) _ (visible buf) H2 Hv) as Hn.
      destruct (need_more mode _ _ _) as [[|]|e|q]; cbn [step_ok ok_res]; try exact H2; try contradiction.
      * exact (read_partial_input_buf_safe _ H2).
      * pose proof (run_sym_ok true _ H2) as H3.
        destruct (run_sym true _) as [[[|]|e|q] w3]; unfold ok_res in H3; cbn [step_ok ok_res]; exact H3.
    + apply PmInv_src; assumption.
Qed.
Print Assumptions pm_body_safe.

(* ====================================================================== *)
(* 1. process_mode never panics (both modes, any fuel), and re-establishes  *)
(*    the invariant: the next call on the same objects is safe again        *)
(* ====================================================================== *)
Theorem process_mode_no_panic mode fuel w : PmInv w ->
  match process_mode mode fuel w with
  | (Panicked p, w') => p = PFuel 10 /\ PmInv w'
  | (_, w') => PmInv w'
  end.
Proof.
  intros Hw. unfold process_mode.
  pose proof (loopN_inv (pm_body mode) PmInv ok_res) as L.
  assert (H1 : forall s s', PmInv s -> pm_body mode s = Next s' -> PmInv s').
  { intros s s' Hs E. pose proof (pm_body_safe mode s Hs) as P. rewrite E in P. exact P. }
  assert (H2 : forall s r, PmInv s -> pm_body mode s = Break r -> ok_res r).
  { intros s r Hs E. pose proof (pm_body_safe mode s Hs) as P. rewrite E in P. exact P. }
  specialize (L H1 H2 fuel w Hw).
  destruct (loopN fuel (pm_body mode) w) as [w1|[[u|e|q] w1]]; unfold ok_res in L.
  - split; [reflexivity|exact L].
  - destruct (ds_unpacked (l_ds w1)); [|exact L]. destruct mode; [exact L|].
    destruct (_ =? _); exact L.
  - exact L.
  - contradiction.
Qed.
Print Assumptions process_mode_no_panic.

(* the form asked for: never Panicked p with p <> PFuel _ *)
Corollary process_mode_never_panics mode fuel w : PmInv w ->
  forall p w', process_mode mode fuel w = (Panicked p, w') -> exists n, p = PFuel n.
Proof.
  intros Hw p w' E. pose proof (process_mode_no_panic mode fuel w Hw) as H. rewrite E in H.
  exists 10. tauto.
Qed.

(* streaming: any number of calls, in any modes, on whatever input each call is given *)
Corollary process_mode_again mode1 mode2 fuel1 fuel2 w s :
  PmInv w -> SrcBytes s ->
  let w1 := snd (process_mode mode1 fuel1 w) in
  match process_mode mode2 fuel2 (mkLw (l_ds w1) (l_rc w1) s (l_win w1)) with
  | (Panicked p, w') => p = PFuel 10 /\ PmInv w'
  | (_, w') => PmInv w'
  end.
Proof.
  intros Hw Hs w1. apply process_mode_no_panic. apply PmInv_src; [|exact Hs].
  pose proof (process_mode_no_panic mode1 fuel1 w Hw) as H. unfold w1.
  destruct (process_mode mode1 fuel1 w) as [[u|e|q] w']; cbn [snd]; tauto.
Qed.
Print Assumptions process_mode_again.

(* ====================================================================== *)
(* The window keeps its kind                                                *)
(* ====================================================================== *)
Definition is_circ (v : win) : Prop := match v with WCirc _ => True | WAccum _ => False end.

Lemma is_circ_last_or v d : is_circ v -> is_circ (snd (win_last_or v d)).
Proof. destruct v; [intros _; exact I|intros []]. Qed.
Lemma is_circ_last_n v d : is_circ v -> is_circ (snd (win_last_n v d)).
Proof. destruct v; [intros _; exact I|intros []]. Qed.
Lemma is_circ_append_literal v b : is_circ v -> is_circ (snd (win_append_literal v b)).
Proof. destruct v; [intros _; exact I|intros []]. Qed.
Lemma is_circ_append_lz v l d : is_circ v -> is_circ (snd (win_append_lz v l d)).
Proof. destruct v; [intros _; exact I|intros []]. Qed.

Theorem process_mode_circ mode fuel w : is_circ (l_win w) -> is_circ (l_win (snd (process_mode mode fuel w))).
Proof.
  intros H.
  apply (process_mode_LI (fun _ => True) is_circ (fun _ _ _ _ => I)
           is_circ_last_or is_circ_last_n is_circ_append_literal is_circ_append_lz).
  split; [exact I|exact H].
Qed.

(* ====================================================================== *)
(* I/O helpers                                                              *)
(* ====================================================================== *)

(* map_io_err only renames errors *)
Lemma run_map_io_err {A} (e' : err) (p : iop A) : forall w,
  snd (run_io (map_io_err e' p) w) = snd (run_io p w) /\
  match fst (run_io p w), fst (run_io (map_io_err e' p) w) with
  | Done a, Done a' => a = a'
  | Failed _, Failed _ => True
  | Panicked q, Panicked q' => q = q'
  | _, _ => False
  end.
Proof.
  unfold run_io. induction p as [a|e|q|X o k IH]; intros w; cbn [map_io_err interp fst snd].
  - auto.
  - destruct e; cbn [interp fst snd]; auto.
  - auto.
  - destruct (io_h X o w) as [x w1|e w1|q w1]; cbn [fst snd]; auto.
Qed.

Lemma io_safe_map_io_err {A} (Q : A -> Prop) e' (p : iop A) : io_safe Q p -> io_safe Q (map_io_err e' p).
Proof.
  intros Hp w Hw. specialize (Hp w Hw). destruct (run_map_io_err e' p w) as [Hs Hf].
  destruct (run_io p w) as [[a|e|q] w1]; destruct (run_io (map_io_err e' p) w) as [[a2|e2|q2] w2];
    cbn [fst snd] in *; subst; try contradiction; assumption.
Qed.

Lemma rc_new_io_safe : io_safe RcInv rc_new.
Proof.
  unfold rc_new.
  eapply io_safe_bind; [apply read_u8_safe|]. intros _ _.
  eapply io_safe_bind; [apply read_u32_be_safe|]. intros code Hc.
  apply io_safe_ret. unfold RcInv. cbn [r_range r_code]. split; [|exact Hc].
  change (2 ^ 32) with 4294967296. lia.
Qed.

Lemma read_u32_le_safe : io_safe (fun _ => True) read_u32_le.
Proof.
  unfold read_u32_le. eapply io_safe_bind; [apply read_exact_safe|]. intros bs _. apply io_safe_ret. exact I.
Qed.
Lemma read_u64_le_safe : io_safe (fun _ => True) read_u64_le.
Proof.
  unfold read_u64_le. eapply io_safe_bind; [apply read_exact_safe|]. intros bs _. apply io_safe_ret. exact I.
Qed.
Lemma read_u16_be_safe : io_safe (fun _ => True) read_u16_be.
Proof.
  unfold read_u16_be. eapply io_safe_bind; [apply read_exact_safe|]. intros bs _. apply io_safe_ret. exact I.
Qed.

(* writing and flushing *)
Lemma flush_after_nopanic (p : iop unit) w :
  not_panicked (fst (run_io p w)) -> not_panicked (fst (run_io (bind p (fun _ => icall Flush)) w)).
Proof.
  unfold run_io. intros H. rewrite interp_bind.
  destruct (interp io_h p w) as [[u|e|q] w1]; cbn [fst] in *; try exact H.
  rewrite interp_call. cbn [io_h]. unfold snk_flush. destruct (k_ffail (i_snk w1)); exact I.
Qed.

Lemma write_all_nopanic bs w : not_panicked (fst (run_io (write_all bs) w)).
Proof. unfold write_all. apply write_all_loop_nopanic. apply le_n. Qed.

Theorem circ_finish_no_panic c : not_panicked (fst (circ_finish c)).
Proof.
  unfold circ_finish, snk_run.
  match goal with |- context [run_io ?p ?w] =>
    assert (H : not_panicked (fst (run_io p w))); [|destruct (run_io p w) as [r w']; exact H] end.
  apply flush_after_nopanic. destruct (0 <? c_cursor c); [apply write_all_nopanic|exact I].
Qed.

Theorem accum_finish_no_panic a : not_panicked (fst (accum_finish a)).
Proof.
  unfold accum_finish, snk_run.
  match goal with |- context [run_io ?p ?w] =>
    assert (H : not_panicked (fst (run_io p w))); [|destruct (run_io p w) as [r w']; exact H] end.
  apply flush_after_nopanic. apply write_all_nopanic.
Qed.

(* ====================================================================== *)
(* 2a. The raw decoder: LzmaDecoder::new / reset / decompress               *)
(* ====================================================================== *)
Lemma props_valid_le p : props_valid p = true -> lc p <= 8 /\ lp p <= 4 /\ pb p <= 4.
Proof.
  unfold props_valid. intros H. apply andb_prop in H. destruct H as [H H3]. apply andb_prop in H. destruct H as [H1 H2].
  apply N.leb_le in H1, H2, H3. auto.
Qed.

Lemma props_le_valid p : lc p <= 8 -> lp p <= 4 -> pb p <= 4 -> props_valid p = true.
Proof.
  intros H1 H2 H3. unfold props_valid. apply N.leb_le in H1, H2, H3. rewrite H1, H2, H3. reflexivity.
Qed.

Lemma sym32_init : sym32 (mkSym 0 (mkReps 0 0 0 0)).
Proof.
  unfold sym32, reps32, reps_ok. cbn [y_state y_rep rep0 rep1 rep2 rep3].
  change (2 ^ 32) with 4294967296. lia.
Qed.

Lemma PibOk_nil d : ds_pib d = [] -> PibOk d.
Proof. intros E. unfold PibOk, Bytes. rewrite E. split; [unfold nlen, MAX_REQUIRED_INPUT; cbn [length]; lia|constructor]. Qed.

(* DecoderState::new: the documented precondition is exactly what is needed *)
Theorem dstate_new_ok p us : props_valid p = true ->
  exists d, dstate_new p us = (Done d, tt) /\ DsOk d /\ PibOk d /\ ds_props d = p.
Proof.
  intros Hv. unfold dstate_new. rewrite Hv. cbn [negb]. eexists. split; [reflexivity|].
  apply props_valid_le in Hv. destruct Hv as (H1 & H2 & H3).
  split; [|split; [apply PibOk_nil; reflexivity|reflexivity]].
  constructor; cbn [ds_props ds_state ds_rep ds_tabs]; try assumption.
  - apply sym32_init.
  - apply TabsStd_new.
  - apply ProbsOk_new.
Qed.

(* reset_state: from any state satisfying the invariant, with valid new properties *)
Theorem reset_state_ok d np : DsOk d -> PibOk d -> props_valid np = true ->
  exists d', reset_state d np = (Done d', tt) /\ DsOk d' /\ PibOk d' /\ ds_props d' = np.
Proof.
  intros Hd Hp Hv. unfold reset_state. rewrite Hv. cbn [negb]. eexists. split; [reflexivity|].
  apply props_valid_le in Hv. destruct Hv as (H1 & H2 & H3).
  split; [|split; [exact Hp|reflexivity]].
  constructor; cbn [ds_props ds_state ds_rep ds_tabs]; try assumption.
  - apply sym32_init.
  - destruct (N.eqb_spec (lc (ds_props d) + lp (ds_props d)) (lc np + lp np)) as [E|E].
    + rewrite (ts_rows _ _ (do_tabs d Hd)), E, <- N.shiftl_1_l. apply TabsStd_new.
    + apply TabsStd_new.
  - apply ProbsOk_new.
Qed.

Record DecInv (dec : lzma_decoder) : Prop := mkDecInv {
  di_dict : 0 < pr_dict (ld_params dec);
  di_props : props_valid (pr_props (ld_params dec)) = true;
  di_ds : DsOk (ld_state dec);
  di_pib : PibOk (ld_state dec)
}.

(* the constructor: a zero dictionary is rejected with an error; with the documented
   precondition (valid properties) it does not panic and establishes the invariant.
   WITHOUT the precondition it panics (that is the documented behaviour: PAssert 10). *)
Theorem lzma_decoder_new_ok p memlimit : props_valid (pr_props p) = true ->
  match lzma_decoder_new p memlimit with
  | Done dec => DecInv dec /\ 0 < pr_dict p
  | Failed e => e = ELzma /\ pr_dict p = 0
  | Panicked _ => False
  end.
Proof.
  intros Hv. unfold lzma_decoder_new. destruct (N.eqb_spec (pr_dict p) 0) as [E|E]; [auto|].
  destruct (dstate_new_ok (pr_props p) (pr_unpacked p) Hv) as (d & Ed & H1 & H2 & H3). rewrite Ed.
  split; [|lia]. constructor; cbn [ld_params ld_state]; try assumption. lia.
Qed.
Print Assumptions lzma_decoder_new_ok.

Theorem lzma_decoder_new_invalid_props p memlimit : props_valid (pr_props p) = false -> pr_dict p <> 0 ->
  lzma_decoder_new p memlimit = Panicked (PAssert 10).
Proof.
  intros Hv Hd. unfold lzma_decoder_new, dstate_new. apply N.eqb_neq in Hd. rewrite Hd, Hv. reflexivity.
Qed.

Theorem lzma_decoder_reset_ok dec us : DecInv dec ->
  match lzma_decoder_reset dec us with
  | Done dec' => DecInv dec'
  | _ => False
  end.
Proof.
  intros [H1 H2 H3 H4]. unfold lzma_decoder_reset.
  destruct (reset_state_ok (ld_state dec) _ H3 H4 H2) as (d' & E & D1 & D2 & D3). rewrite E.
  constructor; cbn [ld_params ld_state]; try assumption.
  - destruct us; [apply DsOk_set_unpacked|]; assumption.
  - destruct us; [apply PibOk_set_unpacked|]; assumption.
Qed.
Print Assumptions lzma_decoder_reset_ok.

(* LzmaDecoder::decompress: for any decoder satisfying the invariant (in particular a new or a
   reset one, or one that has been used before, successfully or not), any input bytes, any
   reader / sink behaviour *)
Theorem lzma_decoder_decompress_no_panic fuel dec w : DecInv dec -> SrcBytes (i_src w) ->
  match lzma_decoder_decompress fuel dec w with
  | (Panicked p, (dec', w')) => p = PFuel 10 /\ DecInv dec' /\ SrcBytes (i_src w')
  | (_, (dec', w')) => DecInv dec' /\ SrcBytes (i_src w')
  end.
Proof.
  intros Hd Hs. pose proof Hd as [H1 H2 H3 H4]. unfold lzma_decoder_decompress. cbv zeta.
  pose proof (io_safe_src_run _ _ (i_src w) (io_safe_map_io_err RcInv ELzma rc_new rc_new_io_safe) Hs) as Hr.
  destruct (src_run (map_io_err ELzma rc_new) (i_src w)) as [[r|e|q] s]; [| |contradiction].
  2:{ cbn [i_src]. split; assumption. }
  destruct Hr as [Hr Hs'].
  set (w0 := mkLw (ld_state dec) r s (WCirc (circ_new (i_snk w) (pr_dict (ld_params dec)) (ld_memlimit dec)))).
  assert (Hw0 : PmInv w0).
  { apply PmInv_join; try assumption. apply circ_new_ok. exact H1. }
  pose proof (process_mode_no_panic FinishMode fuel w0 Hw0) as Hp.
  pose proof (process_mode_circ FinishMode fuel w0 I) as Hc.
  assert (Hdec : forall x, PmInv x ->
            DecInv (mkLzmaDecoder (ld_params dec) (ld_memlimit dec) (l_ds x)) /\ SrcBytes (l_src x)).
  { intros x Hx. apply PmInv_split in Hx. destruct Hx as (X1 & X2 & X3 & X4 & X5).
    split; [constructor; cbn [ld_params ld_state]; assumption|assumption]. }
  destruct (process_mode FinishMode fuel w0) as [[u|e|q] x]; cbn [snd] in Hc.
  - destruct (l_win x) as [c|a]; [|contradiction].
    pose proof (circ_finish_no_panic c) as Hf.
    destruct (circ_finish c) as [[u'|e|q] k]; cbn [fst not_panicked] in Hf; cbn [i_src];
      [apply Hdec; exact Hp|apply Hdec; exact Hp|contradiction].
  - cbn [i_src]. apply Hdec. exact Hp.
  - destruct Hp as [-> Hp]. split; [reflexivity|]. cbn [i_src]. apply Hdec. exact Hp.
Qed.
Print Assumptions lzma_decoder_decompress_no_panic.

(* ====================================================================== *)
(* 2b. lzma_decompress: header, constructor, decoder                        *)
(* ====================================================================== *)

(* the arithmetic fact: a property byte < 225 always yields valid properties *)
Lemma props_of_byte b : b < 225 -> b mod 9 <= 8 /\ (b / 9) mod 5 <= 4 /\ b / 9 / 5 <= 4.
Proof. intros H. lia. Qed.

Definition params_ok (p : params) : Prop := props_valid (pr_props p) = true /\ 4096 <= pr_dict p.

Theorem read_header_safe o : io_safe params_ok (read_header o).
Proof.
  unfold read_header.
  eapply io_safe_bind; [apply read_u8_safe|]. intros pbyte Hb. cbv beta.
  destruct (N.leb_spec 225 pbyte) as [Hx|Hlt]; [apply io_safe_fail|].
  eapply io_safe_bind; [apply read_u32_le_safe|]. intros dp _. cbv beta zeta.
  eapply io_safe_bind with (Q := fun _ => True).
  - destruct (o_unpacked o).
    + eapply io_safe_bind; [apply read_u64_le_safe|]. intros v _. apply io_safe_ret. exact I.
    + eapply io_safe_bind; [apply read_u64_le_safe|]. intros v _. apply io_safe_ret. exact I.
    + apply io_safe_ret. exact I.
  - intros us _. apply io_safe_ret. unfold params_ok. cbn [pr_props pr_dict]. split.
    + destruct (props_of_byte pbyte Hlt) as (A1 & A2 & A3). apply props_le_valid; cbn [lc lp pb]; assumption.
    + destruct (N.ltb_spec dp 4096); lia.
Qed.
Print Assumptions read_header_safe.

(* lzma_decompress (lib.rs): for EVERY options value, EVERY input, every reader / sink *)
Theorem lzma_decompress_no_panic fuel o w : SrcBytes (i_src w) ->
  match lzma_decompress fuel o w with
  | (Panicked p, w') => p = PFuel 10 /\ SrcBytes (i_src w')
  | (_, w') => SrcBytes (i_src w')
  end.
Proof.
  intros Hs. unfold lzma_decompress.
  pose proof (io_safe_src_run _ _ (i_src w)
                (io_safe_map_io_err params_ok EHeaderTooShort (read_header o) (read_header_safe o)) Hs) as Hh.
  destruct (src_run (map_io_err EHeaderTooShort (read_header o)) (i_src w)) as [[p|e|q] s]; [| |contradiction].
  2:{ exact Hh. }
  destruct Hh as [[Hv Hdict] Hs'].
  pose proof (lzma_decoder_new_ok p (o_memlimit o) Hv) as Hn.
  destruct (lzma_decoder_new p (o_memlimit o)) as [dec|e|q]; [| |contradiction].
  2:{ exact Hs'. }
  destruct Hn as [Hdec _].
  pose proof (lzma_decoder_decompress_no_panic fuel dec (mkIo s (i_snk w)) Hdec Hs') as Hd.
  destruct (lzma_decoder_decompress fuel dec (mkIo s (i_snk w))) as [[u|e|q] [dec' w']]; tauto.
Qed.
Print Assumptions lzma_decompress_no_panic.

Corollary lzma_decompress_never_panics fuel o w : SrcBytes (i_src w) ->
  forall p w', lzma_decompress fuel o w = (Panicked p, w') -> exists n, p = PFuel n.
Proof.
  intros Hs p w' E. pose proof (lzma_decompress_no_panic fuel o w Hs) as H. rewrite E in H. exists 10. tauto.
Qed.
