(* Property C07, Part 5: the LZMA2 decoder (decode/lzma2.rs) never panics, for arbitrary input
   bytes, any reader fragmentation / faults, any sink behaviour.  Also: everything it hands to
   the sink is a byte (needed for chained XZ filters, whose input is a previous output). *)
From LZ Require Import Base.Prelude Base.Prog Model.Io Model.Tables Model.LzBuffer Model.RangeDec Model.Lzma Model.Lzma2.
From LZ Require Import Proofs.ProgLemmas Proofs.MapLemmas Proofs.NoPanic Proofs.NoPanicWorld
                       Proofs.IoInv Proofs.SrcMono Proofs.ResetFresh Proofs.Lzma2Inv Proofs.NoPanicLoops.
From Coq Require Import ZifyBool ZifyNat ZifyN.
Local Open Scope prog_scope.

Ltac Zify.zify_post_hook ::= Z.div_mod_to_equations.

(* ====================================================================== *)
(* The sink only ever receives bytes                                        *)
(* ====================================================================== *)
(* [P] is what is known about the bytes already in the sink and is preserved for the bytes
   added: instantiated below with "is a byte" and with "True" (no assumption on the sink). *)
Section Snk.
Variable PB : N -> Prop.
Hypothesis HPB : forall b, b < 256 -> PB b.

Definition SnkBytes (k : snk) : Prop := Forall PB (k_out k).

Lemma Bytes_P l : Bytes l -> Forall PB l.
Proof. apply Forall_impl. exact HPB. Qed.

Lemma snk_bytes_Bytes k : SnkBytes k -> Forall PB (snk_bytes k).
Proof. intros H. unfold snk_bytes. rewrite lrev_rev. apply Forall_rev. exact H. Qed.

Lemma vec_sink_SnkBytes : SnkBytes vec_sink.
Proof. constructor. Qed.

Lemma snk_write_SnkBytes k bs : Bytes bs -> SnkBytes k ->
  match snk_write k bs with HOk _ k' => SnkBytes k' | HErr _ k' => SnkBytes k' | HPanic _ _ => False end.
Proof.
  intros Hb Hk. unfold snk_write.
  destruct (match k_wfail k with Some j => j =? k_calls k | None => false end); [exact Hk|].
  cbv zeta. unfold SnkBytes. cbn [k_out]. rewrite rev_append_rev. apply Forall_app. split; [|exact Hk].
  apply Forall_rev. apply Bytes_P. apply Bytes_nfirstn. exact Hb.
Qed.

Lemma write_all_loop_snk fuel : forall bs w, Bytes bs -> SnkBytes (i_snk w) ->
  SnkBytes (i_snk (snd (run_io (write_all_loop fuel bs) w))).
Proof.
  induction fuel as [|fuel IH]; intros bs w Hb Hk.
  - destruct bs; cbn; exact Hk.
  - destruct bs as [|b t]; [cbn; exact Hk|].
    cbn [write_all_loop]. set (l := b :: t) in *.
    unfold run_io. rewrite interp_bind, interp_call. cbn [io_h].
    pose proof (snk_write_SnkBytes (i_snk w) l Hb Hk) as Hw.
    destruct (snk_write (i_snk w) l) as [n k'|e k'|q k']; cbn [snd i_snk]; [|exact Hw|contradiction].
    destruct (n =? 0); [cbn [interp snd i_snk]; exact Hw|].
    apply IH; [apply Bytes_nskipn; exact Hb|exact Hw].
Qed.

Lemma write_all_snk bs w : Bytes bs -> SnkBytes (i_snk w) -> SnkBytes (i_snk (snd (run_io (write_all bs) w))).
Proof. apply write_all_loop_snk. Qed.

Lemma flush_after_snk (p : iop unit) w :
  SnkBytes (i_snk (snd (run_io p w))) -> SnkBytes (i_snk (snd (run_io (bind p (fun _ => icall Flush)) w))).
Proof.
  unfold run_io. intros H. rewrite interp_bind.
  destruct (interp io_h p w) as [[u|e|q] w1]; cbn [snd] in *; try exact H.
  rewrite interp_call. cbn [io_h]. unfold snk_flush. destruct (k_ffail (i_snk w1)); cbn [snd i_snk]; exact H.
Qed.

Lemma nseq_map_Bytes m : BufBytes m -> forall n lo, Bytes (nseq_map (fun i => nm_get m i 0) lo n).
Proof.
  intros Hm. induction n as [|n IH]; intros lo; cbn [nseq_map]; constructor; [apply Hm|apply IH].
Qed.
Lemma map_slice_Bytes m lo n : BufBytes m -> Bytes (map_slice m lo n).
Proof. intros Hm. apply nseq_map_Bytes. exact Hm. Qed.

(* a sink-only program that writes bytes *)
Lemma snk_run_ok (p : iop unit) k :
  (forall w, not_panicked (fst (run_io p w))) ->
  (forall w, SnkBytes (i_snk w) -> SnkBytes (i_snk (snd (run_io p w)))) ->
  SnkBytes k -> not_panicked (fst (snk_run p k)) /\ SnkBytes (snd (snk_run p k)).
Proof.
  intros H1 H2 Hk. unfold snk_run.
  specialize (H1 (mkIo (cursor_of []) k)). specialize (H2 (mkIo (cursor_of []) k) Hk).
  destruct (run_io p (mkIo (cursor_of []) k)) as [r w']. cbn [fst snd] in *. auto.
Qed.

Theorem accum_reset_ok a : AccumOk a -> SnkBytes (a_snk a) ->
  match accum_reset a with
  | (Panicked _, _) => False
  | (_, a') => AccumOk a' /\ SnkBytes (a_snk a')
  end.
Proof.
  intros Ha Hk. unfold accum_reset.
  pose proof (snk_run_ok (write_all (map_slice (a_buf a) 0 (a_blen a))) (a_snk a)
                (write_all_nopanic _) (fun w => write_all_snk _ w (map_slice_Bytes _ _ _ Ha)) Hk) as [H1 H2].
  destruct (snk_run _ (a_snk a)) as [[u|e|q] k']; cbn [fst snd not_panicked] in *; try contradiction;
    unfold AccumOk; cbn [a_buf a_snk]; (split; [first [apply BufBytes_empty|exact Ha]|exact H2]).
Qed.

Theorem accum_finish_ok a : AccumOk a -> SnkBytes (a_snk a) ->
  not_panicked (fst (accum_finish a)) /\ SnkBytes (snd (accum_finish a)).
Proof.
  intros Ha Hk. unfold accum_finish. apply snk_run_ok; [| |exact Hk].
  - intros w. apply flush_after_nopanic. apply write_all_nopanic.
  - intros w Hw. apply flush_after_snk. apply write_all_snk; [apply map_slice_Bytes; exact Ha|exact Hw].
Qed.

Theorem circ_finish_ok c : CircOk c -> SnkBytes (c_snk c) ->
  not_panicked (fst (circ_finish c)) /\ SnkBytes (snd (circ_finish c)).
Proof.
  intros [_ Hc] Hk. unfold circ_finish. apply snk_run_ok; [| |exact Hk].
  - intros w. apply flush_after_nopanic. destruct (0 <? c_cursor c); [apply write_all_nopanic|exact I].
  - intros w Hw. apply flush_after_snk. destruct (0 <? c_cursor c); [|exact Hw].
    apply write_all_snk; [apply map_slice_Bytes; exact Hc|exact Hw].
Qed.

Lemma map_append_BufBytes bs : forall m at_, BufBytes m -> Bytes bs -> BufBytes (map_append m at_ bs).
Proof.
  induction bs as [|b t IH]; intros m at_ Hm Hb; cbn [map_append]; [exact Hm|].
  inversion Hb; subst. apply IH; [apply BufBytes_set; assumption|assumption].
Qed.

(* ====================================================================== *)
(* The invariant of the chunk loop                                          *)
(* ====================================================================== *)
Record W2Inv (w : w2) : Prop := mkW2Inv {
  wv_ds : DsOk (w_ds w);
  wv_pib : PibOk (w_ds w);
  wv_src : SrcBytes (w_src w);
  wv_acc : AccumOk (w_acc w);
  wv_snk : SnkBytes (a_snk (w_acc w))
}.

(* the only panic that can come out is the model's fuel artefact of process_mode *)
Definition ok2 {A} (r : outcome A * w2) : Prop :=
  match r with (Panicked p, w') => p = PFuel 10 /\ W2Inv w' | (_, w') => W2Inv w' end.

Lemma w2_src_ok {A} (Q : A -> Prop) (p : iop A) w : io_safe Q p -> W2Inv w ->
  match w2_src w (src_run p (w_src w)) with
  | (Done a, w') => Q a /\ W2Inv w'
  | (Failed _, w') => W2Inv w'
  | (Panicked _, _) => False
  end.
Proof.
  intros Hp [H1 H2 H3 H4 H5]. pose proof (io_safe_src_run Q p (w_src w) Hp H3) as H. unfold w2_src.
  destruct (src_run p (w_src w)) as [[a|e|q] s]; cbn [fst snd]; [| |exact H].
  - destruct H as [Ha Hs]. split; [exact Ha|]. constructor; assumption.
  - constructor; assumption.
Qed.

Lemma pl_dict_ok b w : W2Inv w -> ok2 (pl_dict b w).
Proof.
  intros Hw. pose proof Hw as [H1 H2 H3 H4 H5]. unfold pl_dict. destruct b; [|exact Hw].
  pose proof (accum_reset_ok (w_acc w) H4 H5) as H.
  destruct (accum_reset (w_acc w)) as [[u|e|q] a]; unfold ok2; [| |contradiction];
    destruct H as [Ha Hk]; constructor; assumption.
Qed.

Lemma pl_props_ok b1 b2 w : W2Inv w -> ok2 (pl_props b1 b2 w).
Proof.
  intros Hw. unfold pl_props. destruct b1; [|exact Hw]. cbv zeta.
  set (np := if b2 then _ else _).
  assert (Hnp : match np with
                | (Done p, w') => props_valid p = true /\ W2Inv w'
                | (Failed _, w') => W2Inv w'
                | (Panicked _, _) => False
                end).
  { unfold np. destruct b2.
    - pose proof (w2_src_ok _ (map_io_err ELzma read_u8) w (io_safe_map_io_err _ _ _ read_u8_safe) Hw) as H.
      destruct (w2_src w _) as [[pbyte|e|q] w1]; [| exact H|exact H].
      destruct H as [_ H]. destruct (N.leb_spec 225 pbyte) as [Hx|Hlt]; [exact H|].
      destruct (4 <? pbyte mod 9 + pbyte / 9 mod 5); [exact H|]. split; [|exact H].
      destruct (props_of_byte pbyte Hlt) as (A1 & A2 & A3). apply props_le_valid; cbn [lc lp pb]; assumption.
    - split; [|exact Hw]. destruct Hw as [[D1 D2 D3 _ _ _] _ _ _ _]. apply props_le_valid; assumption. }
  clearbody np. destruct np as [[p|e|q] w1]; unfold ok2; [| exact Hnp|contradiction].
  destruct Hnp as [Hv [H1 H2 H3 H4 H5]].
  destruct (reset_state_ok (w_ds w1) p H1 H2 Hv) as (d' & E & D1 & D2 & _). rewrite E.
  constructor; assumption.
Qed.

Lemma SrcBytes_set_limit s l : SrcBytes s -> SrcBytes (set_limit s l).
Proof. intros H. exact H. Qed.

Lemma pl_payload_ok fuel us ps w : W2Inv w -> ok2 (pl_payload fuel us ps w).
Proof.
  intros [H1 H2 H3 H4 H5]. unfold pl_payload. cbv zeta.
  set (d := set_unpacked_size (w_ds w) (Some (us + a_len (w_acc w)))).
  assert (Hd : DsOk d) by (apply DsOk_set_unpacked; exact H1).
  assert (Hp : PibOk d) by exact H2.
  pose proof (io_safe_src_run _ _ (set_limit (w_src w) (Some ps))
                (io_safe_map_io_err RcInv ELzma rc_new rc_new_io_safe) (SrcBytes_set_limit _ _ H3)) as Hr.
  destruct (src_run (map_io_err ELzma rc_new) (set_limit (w_src w) (Some ps))) as [[r|e|q] s]; unfold ok2;
    [| |contradiction].
  2:{ constructor; try assumption. }
  destruct Hr as [Hr Hs].
  set (w0 := mkLw d r s (WAccum (w_acc w))).
  assert (Hw0 : PmInv w0) by (apply PmInv_join; assumption).
  pose proof (process_mode_no_panic FinishMode fuel w0 Hw0) as Hpm.
  destruct (process_mode_accum_inv FinishMode fuel w0 (w_acc w) eq_refl) as (a' & Ea & Ek).
  destruct (process_mode FinishMode fuel w0) as [res x]. cbn [snd] in Ea.
  assert (Hx : PmInv x -> W2Inv (mkW2 (l_ds x) (set_limit (l_src x) None)
                                   match l_win x with WAccum a => a | WCirc _ => w_acc w end)).
  { intros Hx. apply PmInv_split in Hx. destruct Hx as (X1 & X2 & X3 & X4 & X5).
    rewrite Ea in *. constructor; cbn [w_ds w_src w_acc]; try assumption. rewrite Ek. exact H5. }
  destruct res as [u|e|q]; [apply Hx; exact Hpm|apply Hx; exact Hpm|].
  destruct Hpm as [-> Hpm]. split; [reflexivity|apply Hx; exact Hpm].
Qed.

Theorem parse_lzma_ok fuel status w : W2Inv w -> ok2 (parse_lzma fuel status w).
Proof.
  intros Hw. rewrite parse_lzma_eq. destruct (N.land status 128 =? 0); [exact Hw|].
  pose proof (w2_src_ok _ (map_io_err ELzma read_u16_be) w (io_safe_map_io_err _ _ _ read_u16_be_safe) Hw) as H1.
  destruct (w2_src w _) as [[us16|e|q] w1]; [|exact H1|contradiction]. destruct H1 as [_ H1].
  pose proof (w2_src_ok _ (map_io_err ELzma read_u16_be) w1 (io_safe_map_io_err _ _ _ read_u16_be_safe) H1) as H2.
  destruct (w2_src w1 _) as [[ps16|e|q] w2]; [|exact H2|contradiction]. destruct H2 as [_ H2].
  pose proof (pl_dict_ok (l2_cls status =? 3) w2 H2) as H3.
  destruct (pl_dict _ w2) as [[u|e|q] w3]; unfold ok2 in H3; [|exact H3|exact H3].
  pose proof (pl_props_ok (negb (l2_cls status =? 0)) ((l2_cls status =? 2) || (l2_cls status =? 3)) w3 H3) as H4.
  destruct (pl_props _ _ w3) as [[u'|e|q] w4]; unfold ok2 in H4; [|exact H4|exact H4].
  apply pl_payload_ok. exact H4.
Qed.

Theorem parse_uncompressed_ok rd w : W2Inv w -> ok2 (parse_uncompressed rd w).
Proof.
  intros Hw. unfold parse_uncompressed.
  pose proof (w2_src_ok _ (map_io_err ELzma read_u16_be) w (io_safe_map_io_err _ _ _ read_u16_be_safe) Hw) as H1.
  destruct (w2_src w _) as [[us16|e|q] w1]; [|exact H1|contradiction]. destruct H1 as [_ H1].
  pose proof (pl_dict_ok rd w1 H1) as H2. unfold pl_dict in H2.
  destruct (if rd then _ else _) as [[u|e|q] w2]; unfold ok2 in H2; [|exact H2|exact H2].
  pose proof (w2_src_ok _ (map_io_err ELzma (read_exact (us16 + 1))) w2
                (io_safe_map_io_err _ _ _ (read_exact_safe _)) H2) as H3.
  destruct (w2_src w2 _) as [[bs|e|q] w3]; [|exact H3|contradiction].
  destruct H3 as [[Hb _] [D1 D2 D3 D4 D5]]. unfold ok2.
  constructor; cbn [w_ds w_src w_acc]; try assumption.
  unfold AccumOk, accum_append_bytes. cbn [a_buf]. apply map_append_BufBytes; assumption.
Qed.

Definition step2_ok (r : step w2 (outcome unit * w2)) : Prop :=
  match r with Next w' => W2Inv w' | Break r' => ok2 r' end.

Theorem l2_body_ok fuel w : W2Inv w -> step2_ok (l2_body fuel w).
Proof.
  intros Hw. unfold l2_body.
  pose proof (w2_src_ok _ (map_io_err ELzma read_u8) w (io_safe_map_io_err _ _ _ read_u8_safe) Hw) as H1.
  destruct (w2_src w _) as [[status|e|q] w1]; cbn [step2_ok ok2]; [|exact H1|contradiction]. destruct H1 as [_ H1].
  destruct (status =? 0); [exact H1|].
  set (r := if status =? 1 then _ else _).
  assert (Hr : ok2 r).
  { unfold r. destruct (status =? 1); [apply parse_uncompressed_ok; exact H1|].
    destruct (status =? 2); [apply parse_uncompressed_ok; exact H1|apply parse_lzma_ok; exact H1]. }
  clearbody r. destruct r as [[u|e|q] w2]; exact Hr.
Qed.

(* ====================================================================== *)
(* 3. lzma2_decompress                                                      *)
(* ====================================================================== *)
Definition L2Inv (dec : lzma2_decoder) : Prop := DsOk (l2_state dec) /\ PibOk (l2_state dec).

Lemma props0_valid : props_valid props0 = true.
Proof. reflexivity. Qed.

Theorem lzma2_new_ok : exists dec, lzma2_new = Done dec /\ L2Inv dec.
Proof.
  unfold lzma2_new. destruct (dstate_new_ok props0 None props0_valid) as (d & E & D1 & D2 & _).
  rewrite E. eexists. split; [reflexivity|]. split; assumption.
Qed.

Theorem lzma2_reset_ok dec : L2Inv dec -> exists dec', lzma2_reset dec = Done dec' /\ L2Inv dec'.
Proof.
  intros [H1 H2]. unfold lzma2_reset.
  destruct (reset_state_ok (l2_state dec) props0 H1 H2 props0_valid) as (d & E & D1 & D2 & _).
  rewrite E. eexists. split; [reflexivity|]. split; assumption.
Qed.

Theorem lzma2_decompress_no_panic fuel dec io0 :
  L2Inv dec -> SrcBytes (i_src io0) -> SnkBytes (i_snk io0) ->
  match lzma2_decompress fuel dec io0 with
  | (Panicked p, (dec', w')) => (p = PFuel 10 \/ p = PFuel 20) /\ L2Inv dec' /\ SrcBytes (i_src w') /\ SnkBytes (i_snk w')
  | (_, (dec', w')) => L2Inv dec' /\ SrcBytes (i_src w') /\ SnkBytes (i_snk w')
  end.
Proof.
  intros [Hd Hp] Hs Hk. unfold lzma2_decompress. cbv zeta.
  set (w0 := mkW2 (l2_state dec) (i_src io0) (accum_new (i_snk io0) (USIZE - 1))).
  assert (Hw0 : W2Inv w0).
  { constructor; cbn [w0 w_ds w_src w_acc]; try assumption. apply BufBytes_empty. }
  pose proof (loopN_inv (l2_body fuel) W2Inv ok2) as L.
  assert (H1 : forall s s', W2Inv s -> l2_body fuel s = Next s' -> W2Inv s').
  { intros s s' Hs0 E. pose proof (l2_body_ok fuel s Hs0) as P. rewrite E in P. exact P. }
  assert (H2 : forall s r, W2Inv s -> l2_body fuel s = Break r -> ok2 r).
  { intros s r Hs0 E. pose proof (l2_body_ok fuel s Hs0) as P. rewrite E in P. exact P. }
  specialize (L H1 H2 fuel w0 Hw0). clearbody w0.
  assert (Hout : forall w, W2Inv w -> L2Inv (mkL2 (w_ds w)) /\ SrcBytes (w_src w) /\ SnkBytes (a_snk (w_acc w))).
  { intros w [D1 D2 D3 D4 D5]. split; [split; assumption|split; assumption]. }
  destruct (loopN fuel (l2_body fuel) w0) as [w|[[u|e|q] w]]; unfold ok2 in L; cbn [i_src i_snk].
  - split; [right; reflexivity|apply Hout; exact L].
  - pose proof L as [D1 D2 D3 D4 D5]. pose proof (accum_finish_ok (w_acc w) D4 D5) as [F1 F2].
    destruct (accum_finish (w_acc w)) as [[u'|e|q] k]; cbn [fst snd not_panicked i_src i_snk] in *;
      try contradiction; (split; [split; assumption|split; assumption]).
  - apply Hout; exact L.
  - destruct L as [-> L]. split; [left; reflexivity|apply Hout; exact L].
Qed.

(* lib.rs: lzma2_decompress *)
Theorem lzma2_decompress_top_no_panic fuel io0 :
  SrcBytes (i_src io0) -> SnkBytes (i_snk io0) ->
  match lzma2_decompress_top fuel io0 with
  | (Panicked p, w') => (p = PFuel 10 \/ p = PFuel 20) /\ SrcBytes (i_src w') /\ SnkBytes (i_snk w')
  | (_, w') => SrcBytes (i_src w') /\ SnkBytes (i_snk w')
  end.
Proof.
  intros Hs Hk. unfold lzma2_decompress_top. destruct lzma2_new_ok as (dec & E & Hd). rewrite E.
  pose proof (lzma2_decompress_no_panic fuel dec io0 Hd Hs Hk) as H.
  destruct (lzma2_decompress fuel dec io0) as [[u|e|q] [dec' w']]; tauto.
Qed.

End Snk.
Print Assumptions parse_lzma_ok.
Print Assumptions parse_uncompressed_ok.
Print Assumptions lzma2_decompress_no_panic.
Print Assumptions lzma2_decompress_top_no_panic.

Definition IsByte (b : N) : Prop := b < 256.
Lemma IsByte_ok b : b < 256 -> IsByte b.
Proof. exact (fun H => H). Qed.
Lemma AnyN_ok b : b < 256 -> (fun _ : N => True) b.
Proof. exact (fun _ => I). Qed.
Lemma SnkBytes_any k : SnkBytes (fun _ => True) k.
Proof. unfold SnkBytes. apply Forall_forall. intros x _. exact I. Qed.

(* no assumption on the sink at all *)
Corollary lzma2_decompress_never_panics fuel io0 : SrcBytes (i_src io0) ->
  forall p w', lzma2_decompress_top fuel io0 = (Panicked p, w') -> exists n, p = PFuel n.
Proof.
  intros Hs p w' E.
  pose proof (lzma2_decompress_top_no_panic (fun _ => True) AnyN_ok fuel io0 Hs (SnkBytes_any _)) as H.
  rewrite E in H. destruct H as [[->| ->] _]; eauto.
Qed.
Print Assumptions lzma2_decompress_never_panics.

Corollary lzma2_decoder_never_panics fuel dec io0 : L2Inv dec -> SrcBytes (i_src io0) ->
  forall p r, lzma2_decompress fuel dec io0 = (Panicked p, r) -> exists n, p = PFuel n.
Proof.
  intros Hd Hs p [dec' w'] E.
  pose proof (lzma2_decompress_no_panic (fun _ => True) AnyN_ok fuel dec io0 Hd Hs (SnkBytes_any _)) as H.
  rewrite E in H. destruct H as [[->| ->] _]; eauto.
Qed.
