(* C15, second part: the hypotheses of the theorems of StreamPrefix2.v are satisfiable (concrete runs by vm_compute),
   and the clause "everything written => finish(allow_incomplete) returns the complete output" is false in the model. *)
From LZ Require Import Base.Prelude Base.Prog Model.Io Model.Tables Model.LzBuffer Model.RangeDec Model.Lzma Model.Stream.
From LZ Require Import Proofs.StreamLatch Proofs.StreamInv Proofs.StreamSimData Proofs.StreamSimFull
  Proofs.StreamPrefix2Sync Proofs.StreamPrefix2Trace Proofs.StreamPrefix2.

(* a .lzma file (unknown size, end marker; produced by Format.RefEnc.enc_lzma_gen from the program of
   LzmaExactExamples.ex_body) that decodes to 19 bytes *)
Definition ex19 : list N :=
  [93; 100; 0; 0; 0; 255; 255; 255; 255; 255; 255; 255; 255; 0; 0; 128; 157;
   125; 116; 34; 77; 103; 237; 162; 180; 149; 11; 255; 255; 139; 110; 128; 0].
Definition ex19_out : list N := [1; 2; 3; 1; 2; 3; 1; 2; 7; 1; 2; 7; 1; 2; 1; 2; 2; 1; 2].

Lemma ex19_bytes : is_byte_string ex19.
Proof. unfold is_byte_string, ex19. repeat (constructor; [reflexivity|]). constructor. Qed.

Definition ex_w : io := Eval vm_compute in snd (lzma_decompress big_fuel ex_opts_inc (mkIo (cursor_of ex19) vec_sink)).
Lemma ex_oneshot : lzma_decompress big_fuel ex_opts_inc (mkIo (cursor_of ex19) vec_sink) = (Done tt, ex_w) /\ snk_bytes (i_snk ex_w) = ex19_out.
Proof. split; vm_compute; reflexivity. Qed.

(* the first 30 bytes written one at a time *)
Definition ex_s30 : stream := Eval vm_compute in
  match feed_all (stream_new ex_opts_inc vec_sink) (map (fun b => [b]) (nfirstn 30 ex19)) with FedAll s => s | _ => stream_new ex_opts_inc vec_sink end.
Lemma ex_feed30 : feed_all (stream_new ex_opts_inc vec_sink) (map (fun b => [b]) (nfirstn 30 ex19)) = FedAll ex_s30.
Proof. vm_compute. reflexivity. Qed.

Example ex_trace30 : wtrace (stream_new ex_opts_inc vec_sink) ex19 ex_s30 (nskipn 30 ex19).
Proof.
  destruct (C15_feed_all_never_fails ex_opts_inc vec_sink ex19 ex_w (map (fun b => [b]) (nfirstn 30 ex19)) (nskipn 30 ex19)
              ex19_bytes ltac:(vm_compute; reflexivity) (proj1 ex_oneshot) ltac:(vm_compute; reflexivity))
    as [(s' & E & T)|(s' & rem' & E & T)]; rewrite ex_feed30 in E; inversion E; subst s'. exact T.
Qed.

(* P1, P2, P3 instantiated on that trace *)
Example ex_P1 : prefix_of (snk_bytes (stream_sink ex_s30)) ex19_out.
Proof.
  rewrite <- (proj2 ex_oneshot).
  apply (C15_sink_is_prefix_of_final_output ex_opts_inc vec_sink ex19 ex_w ex19_bytes ltac:(vm_compute; reflexivity)
           (proj1 ex_oneshot) _ _ ex_trace30).
Qed.

Example ex_P2 : exists r0 k', st_state ex_s30 = Some (SData r0) /\ stream_finish ex_s30 = (Done tt, k') /\ prefix_of (snk_bytes k') ex19_out.
Proof.
  rewrite <- (proj2 ex_oneshot).
  destruct (C15_finish_incomplete_returns_prefix_of_final_output ex_opts_inc vec_sink ex19 ex_w ex19_bytes ltac:(vm_compute; reflexivity)
              (proj1 ex_oneshot) eq_refl vec_sink_well_behaved _ _ ex_trace30 ltac:(vm_compute; discriminate))
    as (r0 & k' & E1 & E2 & E3 & _).
  exists r0, k'. split; [exact E1|]. split; [exact E2|exact E3].
Qed.

Example ex_P3 : exists r0 A0, st_state ex_s30 = Some (SData r0) /\ oneshot_start ex_opts_inc vec_sink ex19 A0 /\
  keeps_up A0 r0 (ds_pib (rs_dec r0) ++ st_tmp ex_s30) (nskipn 30 ex19).
Proof.
  destruct ex_P2 as (r0 & _ & Es & _).
  destruct (C15_keeps_up_with_input ex_opts_inc vec_sink ex19 ex_w ex19_bytes ltac:(vm_compute; reflexivity)
              (proj1 ex_oneshot) _ _ r0 ex_trace30 Es) as (A0 & H1 & H2 & _).
  exists r0, A0. split; [exact Es|]. split; [exact H1|exact H2].
Qed.

(* what the concrete runs look like: (bytes in the sink, bytes staged, bytes decoded, result of finish) after the first k bytes *)
Definition ex_probe (k : N) :=
  match feed_all (stream_new ex_opts_inc vec_sink) (map (fun b => [b]) (nfirstn k ex19)) with
  | FedAll s => match st_state s with
                | Some (SData r0) => Some (snk_bytes (stream_sink s), ds_pib (rs_dec r0), c_len (rs_out r0),
                                           (let x := stream_finish s in (fst x, snk_bytes (snd x))))
                | _ => None end
  | _ => None
  end.
Example ex_runs :
  ex_probe 18 = Some ([], [], 0, (Done tt, [])) /\
  ex_probe 24 = Some ([], [], 13, (Done tt, nfirstn 13 ex19_out)) /\
  ex_probe 30 = Some ([], [255; 255; 139], 19, (Done tt, ex19_out)) /\
  ex_probe 33 = Some ([], [], 19, (Done tt, ex19_out)).
Proof. vm_compute. repeat split; reflexivity. Qed.

(* allow_incomplete = false as well: the sink after 24 bytes in two pieces is a prefix of the output *)
Definition ex_w' : io := Eval vm_compute in snd (lzma_decompress big_fuel ex_opts (mkIo (cursor_of ex19) vec_sink)).
Lemma ex_oneshot' : lzma_decompress big_fuel ex_opts (mkIo (cursor_of ex19) vec_sink) = (Done tt, ex_w') /\ snk_bytes (i_snk ex_w') = ex19_out.
Proof. split; vm_compute; reflexivity. Qed.
Example ex_P1' s' : feed_all (stream_new ex_opts vec_sink) [nfirstn 7 ex19; nfirstn 17 (nskipn 7 ex19)] = FedAll s' ->
  prefix_of (snk_bytes (stream_sink s')) ex19_out.
Proof.
  intros E. rewrite <- (proj2 ex_oneshot').
  apply (C15_sink_is_prefix_after_pieces ex_opts vec_sink ex19 ex_w' [nfirstn 7 ex19; nfirstn 17 (nskipn 7 ex19)] (nskipn 24 ex19) s'
           ex19_bytes ltac:(vm_compute; reflexivity) (proj1 ex_oneshot') ltac:(vm_compute; reflexivity)).
  left. exact E.
Qed.

(* ---------- the clause "everything written => the complete output" fails ---------- *)
(* options that provide the size (10 = 5 + 5 header and coder bytes), 8 more bytes; the stream decodes to [0] *)
Definition cx_opts := mkOptions (UseProvided (Some 1)) None true.
Definition cx_bs : list N := [93;0;16;0;0; 0;0;0;0;0; 0;0;0;0;0;0;0;0].
Definition cx_w : io := Eval vm_compute in snd (lzma_decompress big_fuel cx_opts (mkIo (cursor_of cx_bs) vec_sink)).
Lemma cx_oneshot : lzma_decompress big_fuel cx_opts (mkIo (cursor_of cx_bs) vec_sink) = (Done tt, cx_w) /\ snk_bytes (i_snk cx_w) = [0].
Proof. split; vm_compute; reflexivity. Qed.

(* two writes: 3 bytes, then the other 15; both are consumed completely; the 8 payload bytes stay in tmp *)
Definition cx_s1 : stream := Eval vm_compute in snd (stream_write (stream_new cx_opts vec_sink) [93;0;16]).
Definition cx_s2 : stream := Eval vm_compute in snd (stream_write cx_s1 (nskipn 3 cx_bs)).
Lemma cx_write1 : stream_write (stream_new cx_opts vec_sink) [93;0;16] = (Done 3, cx_s1).
Proof. vm_compute. reflexivity. Qed.
Lemma cx_write2 : stream_write cx_s1 [0;0; 0;0;0;0;0; 0;0;0;0;0;0;0;0] = (Done 15, cx_s2).
Proof. vm_compute. reflexivity. Qed.

Lemma cx_trace : wtrace (stream_new cx_opts vec_sink) cx_bs cx_s2 [].
Proof.
  eapply (wt_write _ cx_bs [93;0;16] [0;0; 0;0;0;0;0; 0;0;0;0;0;0;0;0] 3 cx_s1); [reflexivity|exact cx_write1|].
  eapply (wt_write _ _ [0;0; 0;0;0;0;0; 0;0;0;0;0;0;0;0] [] 15 cx_s2); [reflexivity|exact cx_write2|].
  apply wt_done.
Qed.

Lemma cx_finish : (let x := stream_finish cx_s2 in (fst x, snk_bytes (snd x))) = (Done tt, []) /\ st_tmp cx_s2 = [0;0;0;0;0;0;0;0].
Proof. vm_compute. split; reflexivity. Qed.

(* the statement as intended by the task is false in the model *)
Theorem C15_finish_incomplete_may_lose_staged_bytes : ~ c15_prefix_statement.
Proof.
  intros H. unfold c15_prefix_statement, c15_prefix_statement_for in H.
  assert (Hb : is_byte_string cx_bs) by (unfold is_byte_string, cx_bs; repeat (constructor; [reflexivity|]); constructor).
  specialize (H cx_opts vec_sink cx_bs cx_w Hb ltac:(vm_compute; reflexivity) (proj1 cx_oneshot)). cbv zeta in H.
  destruct (H cx_s2 [] cx_trace) as [_ H2].
  destruct (H2 eq_refl vec_sink_well_behaved ltac:(vm_compute; discriminate)) as (k' & Ef & _ & Hc).
  specialize (Hc eq_refl). rewrite (proj2 cx_oneshot) in Hc.
  destruct cx_finish as [F _]. rewrite Ef in F. cbn [fst snd] in F. inversion F as [F']. rewrite F' in Hc. discriminate Hc.
Qed.
Print Assumptions C15_finish_incomplete_may_lose_staged_bytes.
