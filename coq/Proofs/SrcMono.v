(* The LZMA / LZMA2 decoders only ever advance the source: whatever the outcome,
   the remaining input afterwards is a suffix of the remaining input before, the
   position has advanced by exactly the number of bytes dropped, and a source
   without Take limit is handed back without one.  (Needed to speak about "the
   bytes of a block" in the XZ container theorems.) *)
From LZ Require Import Base.Prelude Base.Prog Model.Io Model.Tables Model.LzBuffer Model.RangeDec
  Model.Lzma Model.Lzma2 Proofs.ProgLemmas Proofs.IoInv.
Local Open Scope prog_scope.

Definition sle (s s' : src) : Prop := sle0 s s' /\ nolim s s'.
Lemma sle_refl s : sle s s.
Proof. split; [apply sle0_refl|apply nolim_refl]. Qed.
Lemma sle_trans a b c : sle a b -> sle b c -> sle a c.
Proof. intros (A1 & A2) (B1 & B2). split; [eapply sle0_trans|eapply nolim_trans]; eassumption. Qed.
Lemma sadv_sle a b c : sadv a b c -> sle a b.
Proof. intros H. split; [eapply sadv_sle0|eapply sadv_nolim]; exact H. Qed.
Lemma reads_sle w w' c : reads w w' c -> sle (i_src w) (i_src w').
Proof. intros (H & _). eapply sadv_sle. exact H. Qed.

(* ---------- programs over ioE that only advance the source ---------- *)
Definition good {A} (p : iop A) : Prop := forall w, sle (i_src w) (i_src (snd (run_io p w))).

Lemma good_ret {A} (a : A) : good (Ret a).
Proof. intros w. apply sle_refl. Qed.
Lemma good_fail {A} e : good (@Fail ioE A e).
Proof. intros w. apply sle_refl. Qed.
Lemma good_panic {A} q : good (@Panic ioE A q).
Proof. intros w. apply sle_refl. Qed.
Lemma good_bind {A B} (p : iop A) (f : A -> iop B) : good p -> (forall a, good (f a)) -> good (bind p f).
Proof.
  intros Hp Hf w. rewrite run_bind. specialize (Hp w).
  destruct (run_io p w) as [[a|e|q] w1]; cbn [snd] in *; [|exact Hp|exact Hp].
  eapply sle_trans; [exact Hp|apply Hf].
Qed.
Lemma good_fill : good (icall FillBuf).
Proof.
  intros w. pose proof (fill_spec w) as F. destruct (run_io (icall FillBuf) w) as [[v|e|q] w1]; cbn [snd].
  - destruct F as (F & _). eapply reads_sle; exact F.
  - eapply reads_sle; exact F.
  - eapply reads_sle; exact F.
Qed.
Lemma good_read_buf n : good (read_buf n).
Proof.
  intros w. destruct (run_io (read_buf n) w) as [r w'] eqn:E. apply read_buf_spec in E.
  destruct E as (c & R & _). eapply reads_sle; exact R.
Qed.
Lemma good_read_exact n : good (read_exact n).
Proof.
  intros w. destruct (run_io (read_exact n) w) as [r w'] eqn:E. apply read_exact_spec in E.
  destruct E as (c & R & _). eapply reads_sle; exact R.
Qed.
Lemma good_map_io_err {A} e (p : iop A) : good p -> good (map_io_err e p).
Proof.
  intros Hp w. replace (snd (run_io (map_io_err e p) w)) with (snd (run_io p w)); [apply Hp|].
  clear Hp. unfold run_io. revert w. induction p as [a|e0|q|X o k IH]; intros w; cbn [map_io_err interp].
  - reflexivity.
  - destruct e0; reflexivity.
  - reflexivity.
  - destruct (io_h X o w); [apply IH|reflexivity|reflexivity].
Qed.

Ltac gd :=
  repeat first
    [ apply good_ret | apply good_fail | apply good_panic | apply good_fill
    | apply good_read_buf | apply good_read_exact
    | apply good_map_io_err
    | apply good_bind; [|intros ?]
    | match goal with |- good (if ?c then _ else _) => destruct c end
    | match goal with |- good (match ?x with _ => _ end) => destruct x end ].

Lemma good_read_u8 : good read_u8.
Proof. unfold read_u8. gd. Qed.
Lemma good_read_u16_be : good read_u16_be.
Proof. unfold read_u16_be. gd. Qed.
Lemma good_read_u32_be : good read_u32_be.
Proof. unfold read_u32_be. gd. Qed.
Lemma good_is_eof : good is_eof.
Proof. unfold is_eof. gd. Qed.
Lemma good_rc_new : good rc_new.
Proof. unfold rc_new. gd; try apply good_read_u8; try apply good_read_u32_be. Qed.
Lemma good_rc_normalize r : good (rc_normalize r).
Proof. unfold rc_normalize. gd; try apply good_read_u8. Qed.
Lemma good_rc_get_bit r : good (rc_get_bit r).
Proof. unfold rc_get_bit. cbv zeta. gd; try apply good_rc_normalize. Qed.
Lemma good_rc_get_loop n : forall r res, good (rc_get_loop n r res).
Proof.
  induction n as [|n IH]; intros r res; cbn [rc_get_loop]; [apply good_ret|].
  apply good_bind; [apply good_rc_get_bit|]. intros [b r']. apply IH.
Qed.
Lemma good_rc_get c r : good (rc_get c r).
Proof. apply good_rc_get_loop. Qed.
Lemma good_rc_decode_bit r prob upd : good (rc_decode_bit r prob upd).
Proof. unfold rc_decode_bit. cbv zeta. gd; try apply good_rc_normalize. Qed.
Lemma good_rc_is_finished_ok r : good (rc_is_finished_ok r).
Proof. unfold rc_is_finished_ok. gd; try apply good_is_eof. Qed.

Ltac gd2 :=
  gd; try first [ apply good_read_u8 | apply good_read_u16_be | apply good_read_u32_be | apply good_is_eof
            | apply good_rc_new | apply good_rc_get | apply good_rc_decode_bit | apply good_rc_is_finished_ok ].

Lemma src_run_sle {A} (p : iop A) s : good p -> sle s (snd (src_run p s)).
Proof.
  intros H. unfold src_run. specialize (H (mkIo s vec_sink)).
  destruct (run_io p (mkIo s vec_sink)) as [r w]. exact H.
Qed.

(* ---------- the symbol decoder ---------- *)
Lemma dec_h_sle X (o : decE X) w : sle (d_src w) (d_src (hstate (dec_h X o w))).
Proof.
  destruct o; cbn [dec_h].
  - destruct (cell_get (d_tabs w) c) as [prob|]; [|apply sle_refl].
    pose proof (src_run_sle (rc_decode_bit (d_rc w) prob upd) (d_src w) (good_rc_decode_bit _ _ _)) as H.
    destruct (src_run (rc_decode_bit (d_rc w) prob upd) (d_src w)) as [[[[b p'] r']|e|q] s]; exact H.
  - pose proof (src_run_sle (rc_get count (d_rc w)) (d_src w) (good_rc_get _ _)) as H. unfold lift_src.
    destruct (src_run (rc_get count (d_rc w)) (d_src w)) as [[[x r']|e|q] s]; exact H.
  - pose proof (src_run_sle (rc_is_finished_ok (d_rc w)) (d_src w) (good_rc_is_finished_ok _)) as H.
    destruct (src_run (rc_is_finished_ok (d_rc w)) (d_src w)) as [[x|e|q] s]; exact H.
  - apply sle_refl.
  - unfold lift_win. destruct (win_last_or (d_win w) d) as [[x|e|q] v]; apply sle_refl.
  - unfold lift_win. destruct (win_last_n (d_win w) dist) as [[x|e|q] v]; apply sle_refl.
  - unfold lift_win. destruct (win_append_literal (d_win w) b) as [[x|e|q] v]; apply sle_refl.
  - unfold lift_win. destruct (win_append_lz (d_win w) len dist) as [[x|e|q] v]; apply sle_refl.
Qed.

Lemma interp_dec_sle {A} (p : dprog A) w : sle (d_src w) (d_src (snd (interp dec_h p w))).
Proof.
  apply (interp_pres dec_h (fun a b => sle (d_src a) (d_src b))).
  - intros s. apply sle_refl.
  - intros a b c. apply sle_trans.
  - apply dec_h_sle.
Qed.

Lemma run_sym_sle upd w : sle (l_src w) (l_src (snd (run_sym upd w))).
Proof.
  unfold run_sym. cbv zeta.
  match goal with |- context [interp dec_h ?p ?x] =>
    pose proof (interp_dec_sle p x) as H; destruct (interp dec_h p x) as [[[st y]|e|q] x'] end; exact H.
Qed.

Lemma read_partial_input_buf_sle w : sle (l_src w) (l_src (snd (read_partial_input_buf w))).
Proof.
  unfold read_partial_input_buf. cbv zeta. destruct (_ <? _); [apply sle_refl|].
  match goal with |- context [src_run ?p ?s] =>
    pose proof (src_run_sle p s (good_read_buf _)) as H; destruct (src_run p s) as [[x|e|q] s'] end; exact H.
Qed.

Ltac sle_step :=
  match goal with
  | |- context [src_run ?p ?s] =>
      let H := fresh "HS" in
      assert (H : sle s (snd (src_run p s))) by (apply src_run_sle; gd2);
      destruct (src_run p s) as [[?|?|?] ?]; cbn [snd fst l_src l_ds l_rc l_win] in H |- *
  | |- context [run_sym ?u ?w] =>
      let H := fresh "HS" in
      pose proof (run_sym_sle u w) as H;
      destruct (run_sym u w) as [[[|]|?|?] ?]; cbn [snd fst l_src l_ds l_rc l_win] in H |- *
  | |- context [read_partial_input_buf ?w] =>
      let H := fresh "HS" in
      pose proof (read_partial_input_buf_sle w) as H;
      destruct (read_partial_input_buf w) as [[[]|?|?] ?]; cbn [snd fst l_src l_ds l_rc l_win] in H |- *
  | |- context [match ?x with _ => _ end] =>
      lazymatch x with
      | context [match _ with _ => _ end] => fail
      | _ => destruct x; cbn [snd fst l_src l_ds l_rc l_win]
      end
  end.

Lemma pm_body_sle mode w :
  match pm_body mode w with
  | Next w' => sle (l_src w) (l_src w')
  | Break r => sle (l_src w) (l_src (snd r))
  end.
Proof.
  unfold pm_body. cbv zeta.
  destruct (ds_unpacked (l_ds w)); destruct mode; cbn [snd fst l_src l_ds l_rc l_win];
  repeat sle_step; eauto using sle_refl, sle_trans.
Qed.

Lemma process_mode_sle mode fuel w : sle (l_src w) (l_src (snd (process_mode mode fuel w))).
Proof.
  unfold process_mode.
  assert (L : match loopN fuel (pm_body mode) w with
              | Next w' => sle (l_src w) (l_src w')
              | Break r => sle (l_src w) (l_src (snd r))
              end).
  { apply (loopN_inv (pm_body mode) (fun w' => sle (l_src w) (l_src w'))
                (fun r => sle (l_src w) (l_src (snd r)))).
    - intros s s' Hs E. pose proof (pm_body_sle mode s) as B. rewrite E in B. eapply sle_trans; eassumption.
    - intros s r Hs E. pose proof (pm_body_sle mode s) as B. rewrite E in B. eapply sle_trans; eassumption.
    - apply sle_refl. }
  destruct (loopN fuel (pm_body mode) w) as [w'|[[[]|e|q] w']]; cbn [snd] in *; try exact L.
  destruct (ds_unpacked (l_ds w')); [destruct mode|]; try exact L.
  destruct (_ =? _); exact L.
Qed.

(* ---------- LZMA2 ---------- *)
Ltac l2_cbn := cbn [snd fst w_src w_ds w_acc l_src l_ds l_rc l_win].
Ltac l2_leaf :=
  unfold sle, sle0, nolim, set_limit in *; cbn [s_rest s_pos s_limit] in *;
  repeat match goal with H : _ /\ _ |- _ => destruct H end;
  split; [eauto 8 using pre_refl, pre_trans | intuition auto].

Ltac l2_step :=
  match goal with
  | |- context [src_run ?p ?s] =>
      let H := fresh "HS" in
      assert (H : sle s (snd (src_run p s))) by (apply src_run_sle; gd2);
      destruct (src_run p s) as [[?|?|?] ?]; cbn [snd fst w_src w_ds w_acc l_src l_ds l_rc l_win] in H |- *
  | |- context [process_mode ?m ?f ?w] =>
      let H := fresh "HS" in
      pose proof (process_mode_sle m f w) as H;
      destruct (process_mode m f w) as [? ?]; cbn [snd fst w_src w_ds w_acc l_src l_ds l_rc l_win] in H |- *
  | |- context [match ?x with _ => _ end] =>
      lazymatch x with
      | context [match _ with _ => _ end] => fail
      | _ => destruct x; cbn [snd fst w_src w_ds w_acc l_src l_ds l_rc l_win]
      end
  end.

Lemma parse_lzma_sle fuel status w : sle (w_src w) (w_src (snd (parse_lzma fuel status w))).
Proof.
  unfold parse_lzma, w2_src. cbv zeta. repeat l2_step; l2_leaf.
Qed.

Lemma parse_uncompressed_sle rd w : sle (w_src w) (w_src (snd (parse_uncompressed rd w))).
Proof.
  unfold parse_uncompressed, w2_src. cbv zeta. repeat l2_step; l2_leaf.
Qed.

Lemma l2_body_sle fuel w :
  match l2_body fuel w with
  | Next w' => sle (w_src w) (w_src w')
  | Break r => sle (w_src w) (w_src (snd r))
  end.
Proof.
  unfold l2_body, w2_src. cbv zeta.
  match goal with |- context [src_run ?p ?s] =>
    assert (HS : sle s (snd (src_run p s))) by (apply src_run_sle; gd2);
    destruct (src_run p s) as [[status|e|q] s1]; l2_cbn; cbn [snd] in HS; try exact HS end.
  destruct (status =? 0); l2_cbn; [exact HS|].
  assert (HR : forall r : outcome unit * w2, sle s1 (w_src (snd r)) ->
     match (match r with (Done _, w') => Next w' | r' => Break r' end) with
     | Next w' => sle (w_src w) (w_src w')
     | Break r0 => sle (w_src w) (w_src (snd r0))
     end).
  { intros [[[]|e|q] w'] H; cbn [snd] in *; eapply sle_trans; eassumption. }
  destruct (status =? 1); [|destruct (status =? 2)]; apply HR.
  - apply (parse_uncompressed_sle true (mkW2 (w_ds w) s1 (w_acc w))).
  - apply (parse_uncompressed_sle false (mkW2 (w_ds w) s1 (w_acc w))).
  - apply (parse_lzma_sle fuel status (mkW2 (w_ds w) s1 (w_acc w))).
Qed.

Lemma lzma2_decompress_sle fuel dec io0 :
  sle (i_src io0) (i_src (snd (snd (lzma2_decompress fuel dec io0)))).
Proof.
  unfold lzma2_decompress. cbv zeta.
  set (w0 := mkW2 (l2_state dec) (i_src io0) (accum_new (i_snk io0) (USIZE - 1))).
  assert (L : match loopN fuel (l2_body fuel) w0 with
              | Next w' => sle (i_src io0) (w_src w')
              | Break r => sle (i_src io0) (w_src (snd r))
              end).
  { apply (loopN_inv (l2_body fuel) (fun w' => sle (i_src io0) (w_src w'))
                (fun r => sle (i_src io0) (w_src (snd r)))).
    - intros s s' Hs E. pose proof (l2_body_sle fuel s) as B. rewrite E in B. eapply sle_trans; eassumption.
    - intros s r Hs E. pose proof (l2_body_sle fuel s) as B. rewrite E in B. eapply sle_trans; eassumption.
    - apply sle_refl. }
  destruct (loopN fuel (l2_body fuel) w0) as [w'|[[[]|e|q] w']]; cbn [snd i_src] in *; try exact L.
  destruct (accum_finish (w_acc w')) as [r k]. exact L.
Qed.

Lemma lzma2_decompress_top_sle fuel io0 :
  sle (i_src io0) (i_src (snd (lzma2_decompress_top fuel io0))).
Proof.
  unfold lzma2_decompress_top. destruct lzma2_new as [dec|e|q]; try apply sle_refl.
  pose proof (lzma2_decompress_sle fuel dec io0) as H.
  destruct (lzma2_decompress fuel dec io0) as [r [d w]]. exact H.
Qed.

Print Assumptions lzma2_decompress_top_sle.
