(* C15, part 2: a window invariant for streams.
   [StreamInv pre s h]: the stream is in the data state and its circular window
   represents the history [h] (everything decoded so far, oldest first), [pre]
   being what the sink held when decoding started.  A write() that returns Ok
   preserves the invariant and only extends the history; together with part 3
   this gives: finish() with allow_incomplete returns everything decoded so far. *)
From LZ Require Import Base.Prelude Base.Prog Model.Io Model.Tables Model.LzBuffer Model.RangeDec
  Model.Lzma Model.Stream Proofs.ProgLemmas Proofs.IoLemmas Proofs.WinCirc Proofs.StreamLatch
  Proofs.StreamPrefix Proofs.StreamFinish.

Definition StreamInv (pre : list N) (s : stream) (h : list N) : Prop :=
  exists r, st_state s = Some (SData r) /\ CInv pre (rs_out r) h.

(* what is in the sink is a prefix of what has been decoded (the rest is still in the window) *)
Lemma StreamInv_sink_prefix pre s h : StreamInv pre s h ->
  exists t, pre ++ h = snk_bytes (stream_sink s) ++ t.
Proof.
  intros (r & Es & HI). unfold stream_sink. rewrite Es.
  destruct HI as (_ & _ & _ & _ & _ & _ & _ & Hfin & _).
  exists (map_slice (c_buf (rs_out r)) 0 (c_cursor (rs_out r))). symmetry. exact Hfin.
Qed.

(* ------------------------------------------------------------------ *)
(* successful window operations keep CInv and extend the history       *)
(* ------------------------------------------------------------------ *)
Lemma circ_append_literal_done pre b h lit u b' : CInv pre b h ->
  circ_append_literal b lit = (Done u, b') -> CInv pre b' (h ++ [lit]).
Proof.
  intros HI E. pose proof (circ_append_literal_spec pre b h lit HI) as S.
  destruct (N.min (nlen h + 1) (c_dict b) <=? c_mem b); destruct S as (b1 & E1 & H1); rewrite E in E1.
  - inversion E1; subst. apply H1.
  - discriminate.
Qed.

(* whatever offset the copy reads from *)
Lemma circ_lz_loop_done pre n : forall b h off u b', CInv pre b h ->
  circ_lz_loop n b off = (Done u, b') -> exists t, CInv pre b' (h ++ t) /\ length t = n.
Proof.
  induction n as [|n IH]; intros b h off u b' HI E; cbn [circ_lz_loop] in E.
  - inversion E; subst. exists []. rewrite app_nil_r. split; [exact HI|reflexivity].
  - destruct (circ_append_literal b (circ_get b off)) as [[[]|e|p] b1] eqn:E1; try discriminate.
    apply (circ_append_literal_done pre b h _ _ _ HI) in E1.
    destruct (IH _ _ _ _ _ E1 E) as (t & Ht & Hl).
    exists (circ_get b off :: t). rewrite <- app_assoc in Ht. split; [exact Ht|cbn [length]; lia].
Qed.

Lemma circ_append_lz_done pre b h len dist u b' : CInv pre b h ->
  circ_append_lz b len dist = (Done u, b') -> exists t, CInv pre b' (h ++ t) /\ nlen t = len.
Proof.
  intros HI E. unfold circ_append_lz in E.
  destruct (c_dict b <? dist); [discriminate|].
  destruct (c_len b <? dist); [discriminate|].
  destruct (c_dict b =? 0); [discriminate|].
  destruct (circ_lz_loop_done pre _ _ _ _ _ _ HI E) as (t & Ht & Hl).
  exists t. split; [exact Ht|]. unfold nlen. rewrite Hl. apply N2Nat.id.
Qed.

(* ------------------------------------------------------------------ *)
(* the window predicate: a circular window whose history extends [h0]  *)
(* ------------------------------------------------------------------ *)
Definition winv (pre h0 : list N) (w : win) : Prop :=
  exists c t, w = WCirc c /\ CInv pre c (h0 ++ t).

Lemma winv_lit pre h0 w b : winv pre h0 w ->
  keep (winv pre h0) false (fst (win_append_literal w b)) (snd (win_append_literal w b)).
Proof.
  intros (c & t & -> & HI). cbn [win_append_literal lift_c fst snd]. intros [D|S]; [|discriminate S].
  destruct (circ_append_literal c b) as [[u|e|p] c'] eqn:E; cbn [fst snd odone] in *; try discriminate D.
  exists c', (t ++ [b]). split; [reflexivity|]. rewrite app_assoc.
  eapply circ_append_literal_done; eauto.
Qed.

Lemma winv_lz pre h0 w len dist : winv pre h0 w ->
  keep (winv pre h0) false (fst (win_append_lz w len dist)) (snd (win_append_lz w len dist)).
Proof.
  intros (c & t & -> & HI). cbn [win_append_lz lift_c fst snd]. intros [D|S]; [|discriminate S].
  destruct (circ_append_lz c len dist) as [[u|e|p] c'] eqn:E; cbn [fst snd odone] in *; try discriminate D.
  destruct (circ_append_lz_done pre c _ len dist u c' HI E) as (t' & Ht & _).
  exists c', (t ++ t'). split; [reflexivity|]. rewrite app_assoc. exact Ht.
Qed.

Lemma winv_trans pre h0 t w : winv pre (h0 ++ t) w -> winv pre h0 w.
Proof. intros (c & t' & E & HI). exists c, (t ++ t'). split; [exact E|]. rewrite app_assoc. exact HI. Qed.

(* the handler-step lemma restricted to successful steps, for dec_h:
   a successful run of any decoder program keeps CInv and extends the history *)
Theorem interp_dec_inv {A} pre (p : dprog A) w a w' c h :
  d_win w = WCirc c -> CInv pre c h -> interp dec_h p w = (Done a, w') ->
  exists c' t, d_win w' = WCirc c' /\ CInv pre c' (h ++ t).
Proof.
  intros Ew HI E.
  assert (P0 : winv pre h (d_win w)) by (exists c, []; rewrite app_nil_r; split; assumption).
  pose proof (interp_dec_keep (winv pre h) false (winv_lit pre h) (winv_lz pre h) p w P0) as K.
  rewrite E in K. cbn [fst snd] in K. apply keep_done in K. exact K.
Qed.
Print Assumptions interp_dec_inv.

Theorem run_sym_inv pre upd w st w' c h :
  l_win w = WCirc c -> CInv pre c h -> run_sym upd w = (Done st, w') ->
  exists c' t, l_win w' = WCirc c' /\ CInv pre c' (h ++ t).
Proof.
  intros Ew HI E.
  assert (P0 : winv pre h (l_win w)) by (exists c, []; rewrite app_nil_r; split; assumption).
  pose proof (run_sym_keep (winv pre h) false (winv_lit pre h) (winv_lz pre h) upd w P0) as K.
  rewrite E in K. cbn [fst snd] in K. apply keep_done in K. exact K.
Qed.

(* process_mode, both modes *)
Theorem process_mode_inv pre mode fuel w u w' c h :
  l_win w = WCirc c -> CInv pre c h -> process_mode mode fuel w = (Done u, w') ->
  exists c' t, l_win w' = WCirc c' /\ CInv pre c' (h ++ t).
Proof.
  intros Ew HI E.
  assert (P0 : winv pre h (l_win w)) by (exists c, []; rewrite app_nil_r; split; assumption).
  pose proof (process_mode_keep (winv pre h) false (winv_lit pre h) (winv_lz pre h) mode fuel w P0) as K.
  unfold pm_keep in K. rewrite E in K. cbn [fst snd] in K. apply keep_done in K. exact K.
Qed.
Print Assumptions process_mode_inv.

Lemma stream_read_data_inv_aux pre r h input :
  CInv pre (rs_out r) h -> odone (fst (stream_read_data r input)) = true ->
  exists t, CInv pre (rs_out (fst (snd (stream_read_data r input)))) (h ++ t).
Proof.
  intros HI. unfold stream_read_data.
  assert (P0 : winv pre h (l_win (mkLw (rs_dec r) (rs_rc r) input (WCirc (rs_out r)))))
    by (exists (rs_out r), []; rewrite app_nil_r; split; [reflexivity|exact HI]).
  pose proof (process_mode_keep (winv pre h) false (winv_lit pre h) (winv_lz pre h) Partial big_fuel _ P0) as K.
  unfold pm_keep in K.
  destruct (process_mode Partial big_fuel (mkLw (rs_dec r) (rs_rc r) input (WCirc (rs_out r)))) as [res x].
  cbn [fst snd rs_out] in *. intros D.
  destruct (K (or_introl D)) as (c' & t & Ew & HI').
  exists t. rewrite Ew. exact HI'.
Qed.

Theorem stream_read_data_inv pre r h input u r' s' :
  CInv pre (rs_out r) h -> stream_read_data r input = (Done u, (r', s')) ->
  exists t, CInv pre (rs_out r') (h ++ t).
Proof.
  intros HI E. pose proof (stream_read_data_inv_aux pre r h input HI) as K.
  rewrite E in K. cbn [fst snd odone] in K. apply K. reflexivity.
Qed.

(* ------------------------------------------------------------------ *)
(* write()                                                             *)
(* ------------------------------------------------------------------ *)
Lemma stream_write_inv_aux pre s h d : StreamInv pre s h ->
  match stream_write s d with
  | (Done _, s') => exists t, StreamInv pre s' (h ++ t)
  | _ => True
  end.
Proof.
  intros (r & Es & HI). unfold stream_write. rewrite Es.
  destruct (0 <? nlen (st_tmp s)).
  - pose proof (stream_read_data_inv_aux pre r h (cursor_of (st_tmp s)) HI) as K1.
    destruct (stream_read_data r (cursor_of (st_tmp s))) as [[u1|e|p] [r1 s1]];
      cbn [fst snd odone] in K1; cbv beta iota; [|exact I|exact I].
    destruct (K1 eq_refl) as (t1 & HI1).
    pose proof (stream_read_data_inv_aux pre r1 _ (cursor_of d) HI1) as K2.
    destruct (stream_read_data r1 (cursor_of d)) as [[u2|e|p] [r2 s2]];
      cbn [fst snd odone] in K2; cbv beta iota; [|exact I|exact I].
    destruct (K2 eq_refl) as (t2 & HI2).
    exists (t1 ++ t2), r2. cbn [st_state]. split; [reflexivity|]. rewrite app_assoc. exact HI2.
  - cbv beta iota.
    pose proof (stream_read_data_inv_aux pre r h (cursor_of d) HI) as K2.
    destruct (stream_read_data r (cursor_of d)) as [[u2|e|p] [r2 s2]];
      cbn [fst snd odone] in K2; cbv beta iota; [|exact I|exact I].
    destruct (K2 eq_refl) as (t2 & HI2).
    exists t2, r2. cbn [st_state]. split; [reflexivity|exact HI2].
Qed.

Theorem stream_write_inv pre s h d n s' :
  StreamInv pre s h -> stream_write s d = (Done n, s') ->
  exists t, StreamInv pre s' (h ++ t).
Proof.
  intros HI E. pose proof (stream_write_inv_aux pre s h d HI) as K. rewrite E in K. exact K.
Qed.
Print Assumptions stream_write_inv.

Lemma stream_write_opts s d r s' : stream_write s d = (r, s') -> st_opts s' = st_opts s.
Proof.
  unfold stream_write, dead. intros H.
  repeat (break_match; try discriminate).
  all: repeat match goal with
       | E : (_, _) = (_, _) |- _ => inversion E; subst; clear E
       end.
  all: reflexivity.
Qed.

(* flush() *)
Theorem stream_flush_inv pre s h r s' :
  StreamInv pre s h -> stream_flush s = (r, s') -> StreamInv pre s' h.
Proof.
  intros (rs & Es & HI) H. unfold stream_flush in H. rewrite Es in H.
  unfold snk_flush in H.
  destruct (k_ffail (c_snk (rs_out rs))) eqn:Ef; inversion H; subst.
  - exists rs. split; assumption.
  - eexists. cbn [st_state]. split; [reflexivity|]. cbn [rs_out].
    destruct HI as (H1 & H2 & H3 & H4 & H5 & H6 & H7 & H8 & H9).
    unfold CInv. cbn [c_buf c_blen c_dict c_mem c_cursor c_len c_snk k_wfail].
    repeat split; try assumption.
Qed.

(* ------------------------------------------------------------------ *)
(* sequences of successful writes, then finish                         *)
(* ------------------------------------------------------------------ *)
(* [all_done s ds s']: the pieces [ds] were written one after the other and every
   write returned Ok *)
Inductive all_done : stream -> list (list N) -> stream -> Prop :=
| ad_nil s : all_done s [] s
| ad_cons s d ds n s1 s2 : stream_write s d = (Done n, s1) -> all_done s1 ds s2 -> all_done s (d :: ds) s2.

Theorem writes_inv pre s h ds s' :
  StreamInv pre s h -> all_done s ds s' ->
  exists t, StreamInv pre s' (h ++ t) /\ st_opts s' = st_opts s /\
            k_ffail (stream_sink s') = k_ffail (stream_sink s).
Proof.
  intros HI Had. revert h HI. induction Had as [s|s d ds n s1 s2 Hw Had IH]; intros h HI.
  - exists []. rewrite app_nil_r. repeat split; assumption.
  - destruct (stream_write_inv pre s h d n s1 HI Hw) as (t1 & HI1).
    destruct (IH _ HI1) as (t2 & HI2 & Ho & Hf).
    exists (t1 ++ t2). rewrite app_assoc. split; [exact HI2|].
    rewrite Ho, Hf, (stream_write_opts _ _ _ _ Hw).
    destruct (stream_write_cfg _ _ _ _ Hw) as [_ Hc]. rewrite Hc. split; reflexivity.
Qed.

(* finish() with allow_incomplete on a stream in the data state *)
Theorem finish_incomplete_inv pre s h :
  StreamInv pre s h -> o_allow_incomplete (st_opts s) = true -> k_ffail (stream_sink s) = false ->
  exists k, stream_finish s = (Done tt, k) /\ snk_bytes k = pre ++ h.
Proof.
  intros (r & Es & HI) Ha Hf. unfold stream_sink in Hf. rewrite Es in Hf.
  eapply finish_allow_incomplete; eauto.
Qed.

(* C15 (allow_incomplete): from the data state on, after any number of successful
   writes, finish() succeeds and returns exactly the sink's initial content followed
   by everything decoded so far - an extension of the history at any earlier point. *)
Theorem C15_finish_returns_decoded pre s h ds s' :
  StreamInv pre s h -> o_allow_incomplete (st_opts s) = true -> k_ffail (stream_sink s) = false ->
  all_done s ds s' ->
  exists t k, StreamInv pre s' (h ++ t) /\ stream_finish s' = (Done tt, k) /\ snk_bytes k = pre ++ h ++ t.
Proof.
  intros HI Ha Hf Had.
  destruct (writes_inv pre s h ds s' HI Had) as (t & HI' & Ho & Hf').
  destruct (finish_incomplete_inv pre s' (h ++ t) HI') as (k & E & Hb); [congruence|congruence|].
  exists t, k. split; [exact HI'|split; [exact E|exact Hb]].
Qed.
Print Assumptions C15_finish_returns_decoded.

(* The whole story from a fresh stream: header + 5 bytes in any chunking, then any
   successful writes, then finish(). *)
Theorem C15_incomplete_stream o k ds :
  need o <= nlen (concat ds) -> head_ok (concat ds) ->
  o_allow_incomplete o = true -> k_wfail k = None -> k_ffail k = false ->
  exists ds1 d ds2 s1 n s2, ds = ds1 ++ d :: ds2 /\ fed (stream_new o k) ds1 s1 /\
    stream_write s1 d = (Done n, s2) /\ n <= nlen d /\ StreamInv (snk_bytes k) s2 [] /\
    forall more s3, all_done s2 more s3 ->
      exists h kf, StreamInv (snk_bytes k) s3 h /\ stream_finish s3 = (Done tt, kf) /\
                   snk_bytes kf = snk_bytes k ++ h.
Proof.
  intros Hn Hb Ha Hw Hf.
  destruct (data_state_any_chunking o k ds Hn Hb) as (ds1 & d & ds2 & s1 & n & s2 & Eds & Hfed & Ew & Hle & Ho & (r & Es & Hk & HI)).
  exists ds1, d, ds2, s1, n, s2. split; [exact Eds|]. split; [exact Hfed|]. split; [exact Ew|]. split; [exact Hle|].
  assert (HS : StreamInv (snk_bytes k) s2 []) by (exists r; split; [exact Es|apply HI; exact Hw]).
  split; [exact HS|]. intros more s3 Had.
  destruct (C15_finish_returns_decoded (snk_bytes k) s2 [] more s3 HS) as (t & kf & HI3 & E & Hbytes).
  - rewrite Ho. exact Ha.
  - unfold stream_sink. rewrite Es, Hk. exact Hf.
  - exact Had.
  - exists t, kf. cbn [app] in *. split; [exact HI3|split; [exact E|exact Hbytes]].
Qed.
Print Assumptions C15_incomplete_stream.

(* the hypotheses are satisfiable *)
Definition ex_opts_inc := mkOptions ReadFromHeader None true.
Example incomplete_example :
  exists s2 n s3 k, stream_write (stream_new ex_opts_inc vec_sink) (nfirstn 18 ex_stream) = (Done n, s2) /\
    StreamInv [] s2 [] /\ all_done s2 [nskipn 18 ex_stream] s3 /\
    stream_finish s3 = (Done tt, k) /\ snk_bytes k = [0].
Proof.
  destruct (header_step_full (stream_new ex_opts_inc vec_sink) vec_sink (nfirstn 18 ex_stream) eq_refl)
    as (n & s2 & r & E & _ & Es & _ & Hk & HI).
  { intros b t Eq. vm_compute in Eq. inversion Eq; subst. lia. }
  { vm_compute. reflexivity. }
  { vm_compute. discriminate. }
  exists s2, n. eexists. eexists. split; [exact E|].
  split; [exists r; split; [exact Es|apply HI; reflexivity]|].
  assert (E2 : s2 = snd (stream_write (stream_new ex_opts_inc vec_sink) (nfirstn 18 ex_stream))) by (rewrite E; reflexivity).
  split; [econstructor; [|constructor]|].
  - rewrite E2. vm_compute. reflexivity.
  - split; vm_compute; reflexivity.
Qed.
