(* C15, part 1: the sink of a streaming decoder only ever grows.
   Whatever the sink does (short writes, a failing write, a failing flush) and
   whatever the input is, every call of the Write interface of Stream leaves in
   the sink an extension of what was there before.

   The development is generic in two directions, both reused by the later parts:
   - [Section WinPred]: a predicate on the window that the two appending window
     operations keep (always, or only when they succeed) is kept by dec_h,
     run_sym, pm_body and process_mode;
   - [Section SinkRel]: a reflexive transitive relation on sinks that Write::write
     and Write::flush respect is respected by every io program, every window
     operation, the symbol decoder, process_mode (both modes) and the three
     calls of the Stream interface.  Instances: "the bytes extend" ([ext]) and
     "the failure configuration is the same" ([same_cfg]). *)
From LZ Require Import Base.Prelude Base.Prog Model.Io Model.Tables Model.LzBuffer Model.RangeDec
  Model.Lzma Model.Stream Proofs.ProgLemmas Proofs.IoLemmas Proofs.StreamLatch.

(* the state a handler leaves behind, whatever its answer *)
Definition hst {X S} (r : hres X S) : S :=
  match r with HOk _ s => s | HErr _ s => s | HPanic _ s => s end.

(* ------------------------------------------------------------------ *)
(* window operations that do not touch the window / the sink           *)
(* ------------------------------------------------------------------ *)
Lemma circ_set_snk b i v : c_snk (snd (circ_set b i v)) = c_snk b.
Proof.
  unfold circ_set. destruct (c_blen b <? i + 1); [destruct (i + 1 <=? c_mem b)|]; reflexivity.
Qed.

Lemma circ_last_or_st b d : snd (circ_last_or b d) = b.
Proof. unfold circ_last_or. destruct (c_len b =? 0); [|destruct (c_dict b =? 0)]; reflexivity. Qed.

Lemma circ_last_n_st b d : snd (circ_last_n b d) = b.
Proof.
  unfold circ_last_n. destruct (c_dict b <? d); [|destruct (c_len b <? d); [|destruct (c_dict b =? 0)]]; reflexivity.
Qed.

Lemma accum_last_or_st a d : snd (accum_last_or a d) = a.
Proof. unfold accum_last_or. destruct (a_blen a =? 0); reflexivity. Qed.

Lemma accum_last_n_st a d : snd (accum_last_n a d) = a.
Proof. unfold accum_last_n. destruct (a_blen a <? d); [|destruct (d =? 0)]; reflexivity. Qed.

Lemma accum_append_literal_snk a lit : a_snk (snd (accum_append_literal a lit)) = a_snk a.
Proof. unfold accum_append_literal. destruct (a_mem a <? a_len a + 1); reflexivity. Qed.

Lemma accum_append_lz_snk a len dist : a_snk (snd (accum_append_lz a len dist)) = a_snk a.
Proof.
  unfold accum_append_lz. destruct (a_blen a <? dist); [reflexivity|].
  destruct ((dist =? 0) && (0 <? len)); [reflexivity|].
  destruct (accum_lz_loop (N.to_nat len) (a_buf a) (a_blen a) (a_blen a - dist)). reflexivity.
Qed.

Lemma win_last_or_st w d : snd (win_last_or w d) = w.
Proof. destruct w; cbn [win_last_or lift_c lift_a snd]; [rewrite circ_last_or_st|rewrite accum_last_or_st]; reflexivity. Qed.

Lemma win_last_n_st w d : snd (win_last_n w d) = w.
Proof. destruct w; cbn [win_last_n lift_c lift_a snd]; [rewrite circ_last_n_st|rewrite accum_last_n_st]; reflexivity. Qed.

(* ------------------------------------------------------------------ *)
(* transport of a window predicate through the decoder                 *)
(* ------------------------------------------------------------------ *)
Definition odone {A} (o : outcome A) : bool := match o with Done _ => true | _ => false end.

Section WinPred.
  (* [P] is kept by the two appending operations: always when [strict = true],
     at least when they succeed when [strict = false]. *)
  Variable P : win -> Prop.
  Variable strict : bool.
  Definition keep {A} (o : outcome A) (w : win) : Prop := odone o = true \/ strict = true -> P w.

  Hypothesis Hlit : forall w b, P w -> keep (fst (win_append_literal w b)) (snd (win_append_literal w b)).
  Hypothesis Hlz : forall w len dist, P w -> keep (fst (win_append_lz w len dist)) (snd (win_append_lz w len dist)).

  Lemma keep_P {A} (o : outcome A) w : P w -> keep o w.
  Proof. intros H _. exact H. Qed.

  Lemma keep_done {A} (a : A) w : keep (Done a) w -> P w.
  Proof. intros H. apply H. left. reflexivity. Qed.

  Lemma keep_change {A B} (o : outcome A) (o' : outcome B) w : odone o' = odone o -> keep o w -> keep o' w.
  Proof. unfold keep. intros ->. trivial. Qed.

  Definition hkeep {X} (r : hres X dw) : Prop :=
    match r with
    | HOk _ w => P (d_win w)
    | HErr _ w => strict = true -> P (d_win w)
    | HPanic _ w => strict = true -> P (d_win w)
    end.

  Lemma lift_win_keep {X} w (r : outcome X * win) : keep (fst r) (snd r) -> hkeep (lift_win w r).
  Proof.
    destruct r as [[x|e|p] v]; cbn [lift_win hkeep d_win fst snd]; unfold keep; cbn [odone]; intros H.
    - apply H. left. reflexivity.
    - intros Hs. apply H. right. exact Hs.
    - intros Hs. apply H. right. exact Hs.
  Qed.

  Lemma dec_h_keep X (o : decE X) w : P (d_win w) -> hkeep (dec_h X o w).
  Proof.
    intros HP. destruct o; cbn [dec_h].
    - destruct (cell_get (d_tabs w) c); [|cbn [hkeep]; intros _; exact HP].
      destruct (src_run (rc_decode_bit (d_rc w) n upd) (d_src w)) as [[[[b p'] r']|e|p] s];
        cbn [hkeep d_win]; try intros _; exact HP.
    - unfold lift_src. destruct (src_run (rc_get count (d_rc w)) (d_src w)) as [[[x r']|e|p] s];
        cbn [hkeep d_win]; try intros _; exact HP.
    - destruct (src_run (rc_is_finished_ok (d_rc w)) (d_src w)) as [[b|e|p] s];
        cbn [hkeep d_win]; try intros _; exact HP.
    - cbn [hkeep]. exact HP.
    - apply lift_win_keep. rewrite win_last_or_st. apply keep_P. exact HP.
    - apply lift_win_keep. rewrite win_last_n_st. apply keep_P. exact HP.
    - apply lift_win_keep. apply Hlit. exact HP.
    - apply lift_win_keep. apply Hlz. exact HP.
  Qed.

  Lemma interp_dec_keep {A} (p : dprog A) : forall w, P (d_win w) ->
    keep (fst (interp dec_h p w)) (d_win (snd (interp dec_h p w))).
  Proof.
    induction p as [a|e|q|X o k IH]; intros w HP; cbn [interp fst snd]; try (apply keep_P; exact HP).
    pose proof (dec_h_keep X o w HP) as H.
    destruct (dec_h X o w) as [x w'|e w'|q w']; cbn [hkeep fst snd] in *.
    - apply IH. exact H.
    - intros [D|S]; [discriminate D|apply H; exact S].
    - intros [D|S]; [discriminate D|apply H; exact S].
  Qed.

  Lemma run_sym_keep upd w : P (l_win w) ->
    keep (fst (run_sym upd w)) (l_win (snd (run_sym upd w))).
  Proof.
    intros HP. unfold run_sym.
    pose proof (interp_dec_keep (process_next_inner (ds_props (l_ds w)) (mkSym (ds_state (l_ds w)) (ds_rep (l_ds w))) upd)
                  (mkDw (ds_tabs (l_ds w)) (l_rc w) (l_src w) (l_win w)) HP) as H.
    destruct (interp dec_h _ _) as [[[st y]|e|p] x]; cbn [fst snd l_win] in *;
      (eapply keep_change; [|exact H]); reflexivity.
  Qed.

  Lemma rpib_win w : l_win (snd (read_partial_input_buf w)) = l_win w.
  Proof.
    unfold read_partial_input_buf.
    destruct (MAX_REQUIRED_INPUT <? nlen (ds_pib (l_ds w))); [reflexivity|].
    destruct (src_run _ _) as [[got|e|p] s]; reflexivity.
  Qed.

  Definition pm_keep (r : pm_result) : Prop := keep (fst r) (l_win (snd r)).

  Lemma pm_body_keep mode w : P (l_win w) ->
    match pm_body mode w with Next w' => P (l_win w') | Break r => pm_keep r end.
  Proof.
    intros HP. unfold pm_body.
    (* the loop head leaves the window alone *)
    set (head := match ds_unpacked (l_ds w) with Some us => _ | None => _ end).
    assert (Hhead : P (l_win (snd head))).
    { subst head. destruct (ds_unpacked (l_ds w)); [exact HP|].
      destruct mode.
      - destruct (src_run is_eof (l_src w)) as [[b|e|p] s]; exact HP.
      - destruct (rep0 (ds_rep (l_ds w)) =? 4294967295); [|exact HP].
        destruct (src_run (rc_is_finished_ok (l_rc w)) (l_src w)) as [[b|e|p] s]; exact HP. }
    clearbody head. destruct head as [[[|]|e|p] w1]; cbn [snd] in Hhead;
      try (unfold pm_keep; cbn [fst snd]; apply keep_P; exact Hhead).
    destruct (0 <? nlen (ds_pib (l_ds w1))).
    - (* through the partial input buffer *)
      pose proof (rpib_win w1) as Hw.
      destruct (read_partial_input_buf w1) as [[[]|e|p] w2]; cbn [snd] in Hw; rewrite <- Hw in Hhead;
        try (unfold pm_keep; cbn [fst snd]; apply keep_P; exact Hhead).
      set (need := match mode with Partial => _ | FinishMode => _ end).
      clearbody need. destruct need as [[|]|e|p];
        try (unfold pm_keep; cbn [fst snd]; apply keep_P; exact Hhead).
      pose proof (run_sym_keep true (mkLw (l_ds w2) (l_rc w2) (cursor_of (ds_pib (l_ds w2))) (l_win w2)) Hhead) as Hr.
      destruct (run_sym true _) as [[res|e|p] t]; cbn [fst snd] in Hr.
      + destruct (nlen (ds_pib (l_ds w2)) <? s_pos (l_src t));
          [unfold pm_keep; cbn [fst snd]; apply keep_P; exact Hhead|].
        destruct res; [|unfold pm_keep]; cbn [fst snd l_win]; [apply (keep_done _ _ Hr)|apply keep_P, (keep_done _ _ Hr)].
      + unfold pm_keep. cbn [fst snd l_win]. exact Hr.
      + unfold pm_keep. cbn [fst snd l_win]. exact Hr.
    - destruct (src_run (icall FillBuf) (l_src w1)) as [[buf|e|p] s];
        try (unfold pm_keep; cbn [fst snd l_win]; apply keep_P; exact Hhead).
      set (w2 := mkLw (l_ds w1) (l_rc w1) s (l_win w1)).
      assert (H2 : P (l_win w2)) by exact Hhead.
      set (need := match mode with Partial => _ | FinishMode => _ end).
      clearbody need. destruct need as [[|]|e|p];
        try (unfold pm_keep; cbn [fst snd]; apply keep_P; exact H2).
      + unfold pm_keep. apply keep_P. rewrite rpib_win. exact H2.
      + pose proof (run_sym_keep true w2 H2) as Hr.
        destruct (run_sym true w2) as [[[|]|e|p] w3]; cbn [fst snd] in Hr.
        * apply (keep_done _ _ Hr).
        * unfold pm_keep. cbn [fst snd]. apply keep_P, (keep_done _ _ Hr).
        * exact Hr.
        * exact Hr.
  Qed.

  Theorem process_mode_keep mode fuel w : P (l_win w) -> pm_keep (process_mode mode fuel w).
  Proof.
    intros HP. unfold process_mode.
    assert (L : match loopN fuel (pm_body mode) w with Next w' => P (l_win w') | Break r => pm_keep r end).
    { apply (loopN_inv (pm_body mode) (fun w => P (l_win w)) pm_keep); [| |exact HP].
      - intros s0 s1 Hs E. pose proof (pm_body_keep mode s0 Hs) as H. rewrite E in H. exact H.
      - intros s0 r0 Hs E. pose proof (pm_body_keep mode s0 Hs) as H. rewrite E in H. exact H. }
    destruct (loopN fuel (pm_body mode) w) as [w'|[[[]|e|p] w']].
    - unfold pm_keep. cbn [fst snd]. apply keep_P. exact L.
    - unfold pm_keep in *. cbn [fst snd] in L. pose proof (keep_done _ _ L) as L'.
      destruct (ds_unpacked (l_ds w')); [destruct mode|]; try (cbn [fst snd]; apply keep_P; exact L').
      destruct (n =? win_len (l_win w')); cbn [fst snd]; apply keep_P; exact L'.
    - exact L.
    - exact L.
  Qed.
End WinPred.

Lemma read_header_state k input o st s' :
  stream_read_header k input o = (Done st, s') ->
  match st with SHeader k' => k' = k | SData r => c_snk (rs_out r) = k end.
Proof.
  unfold stream_read_header. intros H.
  repeat (break_match; try discriminate).
  all: inversion H; subst; reflexivity.
Qed.

(* ------------------------------------------------------------------ *)
(* transport of a relation on sinks through everything                 *)
(* ------------------------------------------------------------------ *)
Section SinkRel.
  Variable R : snk -> snk -> Prop.
  Hypothesis R_refl : forall k, R k k.
  Hypothesis R_trans : forall k0 k1 k2, R k0 k1 -> R k1 k2 -> R k0 k2.
  Hypothesis R_write : forall k bs, R k (hst (snk_write k bs)).
  Hypothesis R_flush : forall k, R k (hst (snk_flush k)).

  Lemma io_h_rel X (o : ioE X) w : R (i_snk w) (i_snk (hst (io_h X o w))).
  Proof.
    destruct o; cbn [io_h].
    - destruct (src_fill (i_src w)); cbn [hst i_snk]; apply R_refl.
    - cbn [hst i_snk]. apply R_refl.
    - pose proof (R_write (i_snk w) bs) as H.
      destruct (snk_write (i_snk w) bs); cbn [hst i_snk] in *; exact H.
    - pose proof (R_flush (i_snk w)) as H.
      destruct (snk_flush (i_snk w)); cbn [hst i_snk] in *; exact H.
    - cbn [hst]. apply R_refl.
    - cbn [hst]. apply R_refl.
  Qed.

  (* every io program, whatever its outcome *)
  Theorem interp_io_rel {A} (p : iop A) k0 w :
    R k0 (i_snk w) -> R k0 (i_snk (snd (interp io_h p w))).
  Proof.
    apply (interp_inv io_h (fun w => R k0 (i_snk w))).
    intros X o s Hs. pose proof (io_h_rel X o s) as H.
    destruct (io_h X o s); cbn [hst] in H; eapply R_trans; eauto.
  Qed.

  Lemma snk_run_rel {A} (p : iop A) k : R k (snd (snk_run p k)).
  Proof.
    unfold snk_run, run_io.
    pose proof (interp_io_rel p k (mkIo (cursor_of []) k) (R_refl _)) as H.
    destruct (interp io_h p (mkIo (cursor_of []) k)) as [r w]. exact H.
  Qed.

  (* window operations *)
  Lemma circ_append_literal_rel b lit : R (c_snk b) (c_snk (snd (circ_append_literal b lit))).
  Proof.
    unfold circ_append_literal. pose proof (circ_set_snk b (c_cursor b) lit) as H.
    destruct (circ_set b (c_cursor b) lit) as [[[]|e|p] b1]; cbn [snd] in *; rewrite <- H;
      try apply R_refl.
    destruct (c_cursor b1 + 1 =? c_dict b1); [|cbn [snd c_snk]; apply R_refl].
    pose proof (snk_run_rel (write_all (map_slice (c_buf b1) 0 (c_blen b1))) (c_snk b1)) as H1.
    destruct (snk_run (write_all (map_slice (c_buf b1) 0 (c_blen b1))) (c_snk b1)) as [[[]|e|p] k];
      cbn [snd c_snk] in *; exact H1.
  Qed.

  Lemma circ_lz_loop_rel n : forall b off, R (c_snk b) (c_snk (snd (circ_lz_loop n b off))).
  Proof.
    induction n as [|n IH]; intros b off; cbn [circ_lz_loop]; [apply R_refl|].
    pose proof (circ_append_literal_rel b (circ_get b off)) as H.
    destruct (circ_append_literal b (circ_get b off)) as [[[]|e|p] b1]; cbn [snd] in *;
      [eapply R_trans; [exact H|apply IH]|exact H|exact H].
  Qed.

  Lemma circ_append_lz_rel b len dist : R (c_snk b) (c_snk (snd (circ_append_lz b len dist))).
  Proof.
    unfold circ_append_lz.
    destruct (c_dict b <? dist); [apply R_refl|].
    destruct (c_len b <? dist); [apply R_refl|].
    destruct (c_dict b =? 0); [apply R_refl|]. apply circ_lz_loop_rel.
  Qed.

  Lemma circ_finish_rel b : R (c_snk b) (snd (circ_finish b)).
  Proof. unfold circ_finish. apply snk_run_rel. Qed.

  Lemma win_append_literal_rel w b : R (win_snk w) (win_snk (snd (win_append_literal w b))).
  Proof.
    destruct w; cbn [win_append_literal lift_c lift_a snd win_snk].
    - apply circ_append_literal_rel.
    - rewrite accum_append_literal_snk. apply R_refl.
  Qed.

  Lemma win_append_lz_rel w len dist : R (win_snk w) (win_snk (snd (win_append_lz w len dist))).
  Proof.
    destruct w; cbn [win_append_lz lift_c lift_a snd win_snk].
    - apply circ_append_lz_rel.
    - rewrite accum_append_lz_snk. apply R_refl.
  Qed.

  (* the decoder *)
  Definition wrel (k0 : snk) (w : win) : Prop := R k0 (win_snk w).

  Lemma wrel_lit k0 w b : wrel k0 w ->
    keep (wrel k0) true (fst (win_append_literal w b)) (snd (win_append_literal w b)).
  Proof. intros H _. eapply R_trans; [exact H|apply win_append_literal_rel]. Qed.

  Lemma wrel_lz k0 w len dist : wrel k0 w ->
    keep (wrel k0) true (fst (win_append_lz w len dist)) (snd (win_append_lz w len dist)).
  Proof. intros H _. eapply R_trans; [exact H|apply win_append_lz_rel]. Qed.

  (* dec_h preserves "the sink is related to the initial one", whatever the outcome *)
  Theorem interp_dec_rel {A} (p : dprog A) w :
    R (win_snk (d_win w)) (win_snk (d_win (snd (interp dec_h p w)))).
  Proof.
    apply (interp_dec_keep (wrel (win_snk (d_win w))) true (wrel_lit _) (wrel_lz _) p w (R_refl _)).
    right. reflexivity.
  Qed.

  Theorem run_sym_rel upd w : R (win_snk (l_win w)) (win_snk (l_win (snd (run_sym upd w)))).
  Proof.
    apply (run_sym_keep (wrel (win_snk (l_win w))) true (wrel_lit _) (wrel_lz _) upd w (R_refl _)).
    right. reflexivity.
  Qed.

  (* both modes *)
  Theorem process_mode_rel mode fuel w :
    R (win_snk (l_win w)) (win_snk (l_win (snd (process_mode mode fuel w)))).
  Proof.
    apply (process_mode_keep (wrel (win_snk (l_win w))) true (wrel_lit _) (wrel_lz _) mode fuel w (R_refl _)).
    right. reflexivity.
  Qed.

  Theorem stream_read_data_rel r input :
    R (c_snk (rs_out r)) (c_snk (rs_out (fst (snd (stream_read_data r input))))).
  Proof.
    unfold stream_read_data.
    pose proof (process_mode_rel Partial big_fuel (mkLw (rs_dec r) (rs_rc r) input (WCirc (rs_out r)))) as H.
    destruct (process_mode Partial big_fuel _) as [res x]. cbn [fst snd rs_out l_win win_snk] in *.
    destruct (l_win x); [exact H|apply R_refl].
  Qed.

  (* the Write interface *)
  Theorem stream_write_rel s d r s' :
    stream_write s d = (r, s') -> R (stream_sink s) (stream_sink s').
  Proof.
    intros H. unfold stream_write in H. unfold stream_sink at 1.
    destruct (st_state s) as [[k|rs]|] eqn:Es.
    - (* header not complete yet: nothing is written *)
      assert (E0 : stream_sink s' = k); [|rewrite E0; apply R_refl].
      destruct (0 <? nlen (st_tmp s)).
      + set (n := N.min (nlen d) (MAX_TMP_LEN - nlen (st_tmp s))) in *. clearbody n.
        destruct (stream_read_header k (cursor_of (st_tmp s ++ nfirstn n d)) (st_opts s)) as [[[k'|r']|e|p] ts] eqn:E.
        * apply read_header_state in E. subst k'.
          destruct (nlen (st_tmp s ++ nfirstn n d) =? 0); inversion H; subst; reflexivity.
        * apply read_header_state in E. inversion H; subst. reflexivity.
        * inversion H; subst. reflexivity.
        * inversion H; subst. reflexivity.
      + destruct (stream_read_header k (cursor_of d) (st_opts s)) as [[[k'|r']|e|p] ts] eqn:E.
        * apply read_header_state in E. subst k'.
          destruct (nlen (st_tmp s) =? 0); inversion H; subst; reflexivity.
        * apply read_header_state in E. inversion H; subst. reflexivity.
        * inversion H; subst. reflexivity.
        * inversion H; subst. reflexivity.
    - (* decoding *)
      destruct (0 <? nlen (st_tmp s)).
      + pose proof (stream_read_data_rel rs (cursor_of (st_tmp s))) as H1.
        destruct (stream_read_data rs (cursor_of (st_tmp s))) as [[[]|e|p] [r1 s1]]; cbn [fst snd] in H1.
        * pose proof (stream_read_data_rel r1 (cursor_of d)) as H2.
          destruct (stream_read_data r1 (cursor_of d)) as [[[]|e|p] [r2 s2]]; cbn [fst snd] in H2;
            inversion H; subst; unfold stream_sink, dead; cbn [st_state st_ghost]; eapply R_trans; eauto.
        * inversion H; subst. unfold stream_sink, dead. cbn [st_state st_ghost]. exact H1.
        * inversion H; subst. unfold stream_sink, dead. cbn [st_state st_ghost]. exact H1.
      + pose proof (stream_read_data_rel rs (cursor_of d)) as H2.
        destruct (stream_read_data rs (cursor_of d)) as [[[]|e|p] [r2 s2]]; cbn [fst snd] in H2;
          inversion H; subst; unfold stream_sink, dead; cbn [st_state st_ghost]; exact H2.
    - inversion H; subst. unfold stream_sink. rewrite Es. apply R_refl.
  Qed.

  Theorem stream_flush_rel s r s' :
    stream_flush s = (r, s') -> R (stream_sink s) (stream_sink s').
  Proof.
    unfold stream_flush. intros H.
    destruct (st_state s) as [[k|rs]|] eqn:Es; try (inversion H; subst; apply R_refl).
    pose proof (R_flush (c_snk (rs_out rs))) as Hb.
    destruct (snk_flush (c_snk (rs_out rs))) as [x k|e k|p k]; cbn [hst] in Hb; inversion H; subst; try apply R_refl.
    unfold stream_sink. cbn [st_state rs_out c_snk]. rewrite Es. exact Hb.
  Qed.

  Theorem stream_finish_rel s r k :
    stream_finish s = (r, k) -> R (stream_sink s) k.
  Proof.
    intros H. unfold stream_finish in H. unfold stream_sink.
    destruct (st_state s) as [[k0|rs]|] eqn:Es.
    - destruct (0 <? nlen (st_tmp s)); inversion H; subst; apply R_refl.
    - destruct (negb (o_allow_incomplete (st_opts s))).
      + pose proof (process_mode_rel FinishMode big_fuel (mkLw (rs_dec rs) (rs_rc rs) (cursor_of (st_tmp s)) (WCirc (rs_out rs)))) as H1.
        destruct (process_mode FinishMode big_fuel _) as [res x]. cbn [fst snd l_win win_snk] in H1.
        assert (H2 : R (c_snk (rs_out rs)) (c_snk (match l_win x with WCirc c => c | WAccum _ => rs_out rs end))).
        { destruct (l_win x); [exact H1|apply R_refl]. }
        destruct res as [[]|e|p].
        * eapply R_trans; [exact H2|]. pose proof (circ_finish_rel (match l_win x with WCirc c => c | WAccum _ => rs_out rs end)) as H3.
          rewrite H in H3. exact H3.
        * inversion H; subst. exact H2.
        * inversion H; subst. exact H2.
      + pose proof (circ_finish_rel (rs_out rs)) as H3. rewrite H in H3. exact H3.
    - inversion H; subst. apply R_refl.
  Qed.

  (* any sequence of write / flush calls *)
  Theorem run_calls_rel cs : forall s, R (stream_sink s) (stream_sink (snd (run_calls s cs))).
  Proof.
    induction cs as [|c cs IH]; intros s; cbn [run_calls].
    - apply R_refl.
    - destruct (do_call s c) as [r s1] eqn:E1.
      assert (H1 : R (stream_sink s) (stream_sink s1)).
      { destruct c as [d|]; cbn [do_call] in E1.
        - destruct (stream_write s d) as [r0 s0] eqn:E. inversion E1; subst. eapply stream_write_rel; eauto.
        - destruct (stream_flush s) as [r0 s0] eqn:E. inversion E1; subst. eapply stream_flush_rel; eauto. }
      specialize (IH s1). destruct (run_calls s1 cs) as [rs s2]. cbn [snd] in *.
      eapply R_trans; eauto.
  Qed.
End SinkRel.

(* ------------------------------------------------------------------ *)
(* instance 1: [ext k0 k] = the bytes of k extend the bytes of k0      *)
(* ------------------------------------------------------------------ *)
Definition ext (k0 k : snk) : Prop := exists t, snk_bytes k = snk_bytes k0 ++ t.

Lemma ext_refl k : ext k k.
Proof. exists []. symmetry. apply app_nil_r. Qed.

Lemma ext_trans k0 k1 k2 : ext k0 k1 -> ext k1 k2 -> ext k0 k2.
Proof. intros [t1 H1] [t2 H2]. exists (t1 ++ t2). rewrite H2, H1, app_assoc. reflexivity. Qed.

Lemma ext_same_out k0 k : k_out k = k_out k0 -> ext k0 k.
Proof. intros H. exists []. unfold snk_bytes. rewrite H, app_nil_r. reflexivity. Qed.

(* Write::write appends the accepted part - also when it is a short write, and
   a failing write appends nothing *)
Lemma snk_write_ext k bs : ext k (hst (snk_write k bs)).
Proof.
  unfold snk_write.
  destruct (match k_wfail k with Some j => j =? k_calls k | None => false end); cbn [hst].
  - apply ext_same_out. reflexivity.
  - eexists. unfold snk_bytes. cbn [k_out]. apply lrev_rev_append.
Qed.

Lemma snk_flush_bytes k : snk_bytes (hst (snk_flush k)) = snk_bytes k.
Proof. unfold snk_flush. destruct (k_ffail k); reflexivity. Qed.

Lemma snk_flush_ext k : ext k (hst (snk_flush k)).
Proof. apply ext_same_out. unfold snk_flush. destruct (k_ffail k); reflexivity. Qed.

(* every io program - in particular write_all, also when a write fails part-way -
   only extends the sink *)
Theorem interp_io_ext {A} (p : iop A) k0 w :
  ext k0 (i_snk w) -> ext k0 (i_snk (snd (interp io_h p w))).
Proof. apply (interp_io_rel ext ext_refl ext_trans snk_write_ext snk_flush_ext). Qed.
Print Assumptions interp_io_ext.

Theorem write_all_ext bs k : ext k (snd (snk_run (write_all bs) k)).
Proof. apply (snk_run_rel ext ext_refl ext_trans snk_write_ext snk_flush_ext). Qed.

(* every window operation extends the sink *)
Theorem circ_append_literal_ext b lit : ext (c_snk b) (c_snk (snd (circ_append_literal b lit))).
Proof. apply (circ_append_literal_rel ext ext_refl ext_trans snk_write_ext snk_flush_ext). Qed.
Theorem circ_append_lz_ext b len dist : ext (c_snk b) (c_snk (snd (circ_append_lz b len dist))).
Proof. apply (circ_append_lz_rel ext ext_refl ext_trans snk_write_ext snk_flush_ext). Qed.
Theorem circ_finish_ext b : ext (c_snk b) (snd (circ_finish b)).
Proof. apply (circ_finish_rel ext ext_refl ext_trans snk_write_ext snk_flush_ext). Qed.

(* dec_h preserves "the sink extends the initial one", whatever the outcome *)
Theorem interp_dec_ext {A} (p : dprog A) w :
  ext (win_snk (d_win w)) (win_snk (d_win (snd (interp dec_h p w)))).
Proof. apply (interp_dec_rel ext ext_refl ext_trans snk_write_ext snk_flush_ext). Qed.
Print Assumptions interp_dec_ext.

Theorem run_sym_ext upd w : ext (win_snk (l_win w)) (win_snk (l_win (snd (run_sym upd w)))).
Proof. apply (run_sym_rel ext ext_refl ext_trans snk_write_ext snk_flush_ext). Qed.

Theorem process_mode_ext mode fuel w :
  ext (win_snk (l_win w)) (win_snk (l_win (snd (process_mode mode fuel w)))).
Proof. apply (process_mode_rel ext ext_refl ext_trans snk_write_ext snk_flush_ext). Qed.
Print Assumptions process_mode_ext.

Theorem stream_read_data_ext r input :
  ext (c_snk (rs_out r)) (c_snk (rs_out (fst (snd (stream_read_data r input))))).
Proof. apply (stream_read_data_rel ext ext_refl ext_trans snk_write_ext snk_flush_ext). Qed.

(* ---- the three calls of the interface ---- *)
Theorem stream_write_grows s d r s' :
  stream_write s d = (r, s') ->
  exists t, snk_bytes (stream_sink s') = snk_bytes (stream_sink s) ++ t.
Proof. apply (stream_write_rel ext ext_refl ext_trans snk_write_ext snk_flush_ext). Qed.
Print Assumptions stream_write_grows.

Theorem stream_flush_same s r s' :
  stream_flush s = (r, s') -> snk_bytes (stream_sink s') = snk_bytes (stream_sink s).
Proof.
  apply (stream_flush_rel (fun k0 k => snk_bytes k = snk_bytes k0)).
  - reflexivity.
  - apply snk_flush_bytes.
Qed.
Print Assumptions stream_flush_same.

Corollary stream_flush_grows s r s' :
  stream_flush s = (r, s') -> exists t, snk_bytes (stream_sink s') = snk_bytes (stream_sink s) ++ t.
Proof. intros H. exists []. rewrite app_nil_r. eapply stream_flush_same; eauto. Qed.

Theorem stream_finish_grows s r k :
  stream_finish s = (r, k) -> exists t, snk_bytes k = snk_bytes (stream_sink s) ++ t.
Proof. apply (stream_finish_rel ext ext_refl ext_trans snk_write_ext snk_flush_ext). Qed.
Print Assumptions stream_finish_grows.

(* any sequence of write / flush calls *)
Theorem run_calls_grows cs s :
  exists t, snk_bytes (stream_sink (snd (run_calls s cs))) = snk_bytes (stream_sink s) ++ t.
Proof. apply (run_calls_rel ext ext_refl ext_trans snk_write_ext snk_flush_ext). Qed.
Print Assumptions run_calls_grows.

(* C15 (monotonicity): what has reached the sink after any prefix of the calls is a
   prefix of what finish hands back (or leaves behind), whatever the outcomes were *)
Theorem C15_sink_monotone s cs1 cs2 r k :
  stream_finish (snd (run_calls (snd (run_calls s cs1)) cs2)) = (r, k) ->
  exists t, snk_bytes k = snk_bytes (stream_sink (snd (run_calls s cs1))) ++ t.
Proof.
  intros H. change (ext (stream_sink (snd (run_calls s cs1))) k).
  eapply ext_trans; [apply (run_calls_grows cs2)|]. eapply stream_finish_grows; eauto.
Qed.
Print Assumptions C15_sink_monotone.

(* ------------------------------------------------------------------ *)
(* instance 2: the failure configuration of the sink never changes     *)
(* ------------------------------------------------------------------ *)
Definition same_cfg (k0 k : snk) : Prop := k_wfail k = k_wfail k0 /\ k_ffail k = k_ffail k0.

Lemma same_cfg_refl k : same_cfg k k.
Proof. split; reflexivity. Qed.
Lemma same_cfg_trans k0 k1 k2 : same_cfg k0 k1 -> same_cfg k1 k2 -> same_cfg k0 k2.
Proof. intros [A B] [C D]. split; congruence. Qed.
Lemma snk_write_cfg k bs : same_cfg k (hst (snk_write k bs)).
Proof.
  unfold same_cfg, snk_write.
  destruct (match k_wfail k with Some j => j =? k_calls k | None => false end) eqn:E; split; reflexivity.
Qed.
Lemma snk_flush_cfg k : same_cfg k (hst (snk_flush k)).
Proof. unfold same_cfg, snk_flush. destruct (k_ffail k) eqn:E; cbn [hst k_wfail k_ffail]; split; congruence. Qed.

Theorem stream_write_cfg s d r s' : stream_write s d = (r, s') -> same_cfg (stream_sink s) (stream_sink s').
Proof. apply (stream_write_rel same_cfg same_cfg_refl same_cfg_trans snk_write_cfg snk_flush_cfg). Qed.
Theorem stream_flush_cfg s r s' : stream_flush s = (r, s') -> same_cfg (stream_sink s) (stream_sink s').
Proof. apply (stream_flush_rel same_cfg same_cfg_refl snk_flush_cfg). Qed.
Theorem run_calls_cfg cs s : same_cfg (stream_sink s) (stream_sink (snd (run_calls s cs))).
Proof. apply (run_calls_rel same_cfg same_cfg_refl same_cfg_trans snk_write_cfg snk_flush_cfg). Qed.
Print Assumptions run_calls_cfg.
