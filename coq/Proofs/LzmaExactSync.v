(* C01, layer 1: one-event / many-event synchronisation between the ideal range encoder and
   the model's range decoder registers, in the form needed for a step-by-step simulation:
   [Sync] relates the ideal state reached so far with the decoder registers and the payload
   bytes still to be read; [Within] says that the coded number lies in an ideal interval.
   Also: the events of the binarisation with the probability values in force ([to_revs]). *)
From LZ Require Import Base.Prelude Base.Prog Model.Io Model.Tables Model.LzBuffer Model.RangeDec Format.RefEnc
  Model.Lzma Proofs.ProgLemmas Proofs.IoLemmas Proofs.RangeLockstep Proofs.NoPanic Proofs.NoPanicWorld Proofs.SymOracle.
From Coq Require Import ZifyBool ZifyNat ZifyN NArithRing.
Local Open Scope prog_scope.

(* ---------- Within ---------- *)
Definition Within (ie : ienc) (V nf : N) : Prop :=
  i_norms ie <= nf /\
  i_low ie * 256 ^ (nf - i_norms ie) <= V < (i_low ie + i_range ie) * 256 ^ (nf - i_norms ie).

Lemma within_arith L R L' R' P Q V :
  L * P <= L' -> L' + R' <= (L + R) * P -> L' * Q <= V -> V < (L' + R') * Q ->
  L * (P * Q) <= V /\ V < (L + R) * (P * Q).
Proof.
  intros H1 H2 H3 H4. split.
  - rewrite N.mul_assoc. eapply N.le_trans; [|exact H3]. apply N.mul_le_mono_r. exact H1.
  - rewrite N.mul_assoc. eapply N.lt_le_trans; [exact H4|]. apply N.mul_le_mono_r. exact H2.
Qed.

Lemma within_back evs ie V nf : wf_ienc ie -> Forall wf_rev evs ->
  Within (fold_left ienc_rev evs ie) V nf -> Within ie V nf.
Proof.
  intros Hwf Hev [Hn [H1 H2]].
  destruct (ienc_fold_wf evs ie Hwf Hev) as [_ Hn'].
  destruct (ienc_fold_nest evs ie Hwf Hev) as [N1 N2].
  set (ie' := fold_left ienc_rev evs ie) in *.
  split; [lia|].
  replace (nf - i_norms ie) with ((i_norms ie' - i_norms ie) + (nf - i_norms ie')) by lia.
  rewrite N.pow_add_r. eapply within_arith; eassumption.
Qed.

Lemma within_final ief delta : delta < i_range ief -> Within ief (i_low ief + delta) (i_norms ief).
Proof. intros H. unfold Within. rewrite N.sub_diag, N.pow_0_r. lia. Qed.

(* ---------- Sync ---------- *)
Definition Sync (ie : ienc) (r : rc) (rest : list N) (V nf : N) : Prop :=
  r_range r = i_range ie /\ bytes rest /\ i_norms ie + nlen rest = nf /\
  (i_low ie + r_code r) * 256 ^ nlen rest + be_num rest = V.

Lemma bytes_firstn n l : bytes l -> bytes (nfirstn n l).
Proof. unfold bytes, nfirstn. apply Forall_firstn_lt. Qed.
Lemma bytes_skipn n l : bytes l -> bytes (nskipn n l).
Proof. unfold bytes, nskipn. apply Forall_skipn_lt. Qed.

Lemma unscale_window L' R' W Q m V :
  0 < Q -> m < Q -> V = W * Q + m -> L' * Q <= V -> V < (L' + R') * Q -> L' <= W < L' + R'.
Proof. intros HQ Hm -> H1 H2. split; nia. Qed.

(* the decoder follows a whole list of events *)
Theorem sync_steps evs ie r rest V nf trail :
  wf_ienc ie -> Forall wf_rev evs -> Sync ie r rest V nf ->
  Within (fold_left ienc_rev evs ie) V nf ->
  exists c' rest',
    pdec evs r (rest ++ trail)
    = Some (map bit_of evs, mkRc (i_range (fold_left ienc_rev evs ie)) c', rest' ++ trail) /\
    Sync (fold_left ienc_rev evs ie) (mkRc (i_range (fold_left ienc_rev evs ie)) c') rest' V nf.
Proof.
  intros Hwf Hev (HR & Hb & Hn & HV) [Hn' [W1 W2]].
  destruct (ienc_fold_wf evs ie Hwf Hev) as [Hwf' Hnn].
  set (ie' := fold_left ienc_rev evs ie) in *.
  set (k := i_norms ie' - i_norms ie).
  assert (Hk : k <= nlen rest) by (unfold k; lia).
  pose proof (nfirstn_nskipn k rest) as Hsplit.
  set (rest1 := nfirstn k rest) in *. set (rest2 := nskipn k rest) in *.
  assert (Hl1 : nlen rest1 = k) by (unfold rest1; rewrite nlen_nfirstn; lia).
  assert (Hl2 : nlen rest2 = nf - i_norms ie') by (unfold rest2; rewrite nlen_nskipn; unfold k; lia).
  assert (Hb1 : bytes rest1) by (apply bytes_firstn; exact Hb).
  assert (Hb2 : bytes rest2) by (apply bytes_skipn; exact Hb).
  pose proof (be_num_bound rest2 Hb2) as Hm.
  pose proof (pow256_pos (nlen rest2)) as HQ.
  set (W := (i_low ie + r_code r) * 256 ^ nlen rest1 + be_num rest1).
  assert (EV : V = W * 256 ^ nlen rest2 + be_num rest2).
  { rewrite <- HV, <- Hsplit, nlen_app, be_num_app, N.pow_add_r. unfold W. ring. }
  rewrite <- Hl2 in W1, W2.
  pose proof (unscale_window _ _ _ _ _ _ HQ Hm EV W1 W2) as HW.
  pose proof (lockstep_pure evs ie r rest1 Hwf Hev HR) as LS. fold ie' in LS.
  specialize (LS ltac:(rewrite Hl1; reflexivity) Hb1). fold W in LS. specialize (LS HW).
  apply (pdec_frame _ _ _ _ _ _ (rest2 ++ trail)) in LS. cbn [app] in LS.
  rewrite app_assoc, Hsplit in LS.
  exists (W - i_low ie'), rest2. split; [exact LS|].
  unfold Sync. cbn [r_range r_code]. repeat split; try assumption; [lia|].
  rewrite EV. replace (i_low ie' + (W - i_low ie')) with W by lia. reflexivity.
Qed.

Lemma pdec_single e r inp b r' t :
  pdec [e] r inp = Some ([b], r', t) -> pdec_ev e r inp = Some (b, r', t).
Proof.
  cbn [pdec]. destruct (pdec_ev e r inp) as [[[b0 r0] t0]|]; [|discriminate].
  intros H. inversion H; subst. reflexivity.
Qed.

Lemma pdec_dir_irrel bits : forall r inp,
  pdec (map RDir bits) r inp = pdec (repeat (RDir false) (length bits)) r inp.
Proof.
  induction bits as [|b bits IH]; intros r inp; cbn [map length repeat pdec]; [reflexivity|].
  cbn [pdec_ev]. destruct (pget_bit r inp) as [[[b0 r0] t0]|]; [|reflexivity]. rewrite IH. reflexivity.
Qed.

Lemma map_bit_of_dir bits : map bit_of (map RDir bits) = bits.
Proof. induction bits as [|b bits IH]; cbn [map bit_of]; [reflexivity|]. rewrite IH. reflexivity. Qed.

(* ---------- events with the probability values in force ---------- *)
Definition cell_prob (t : ptabs) (c : cell) : N := match cell_get t c with Some v => v | None => 1024 end.

Fixpoint to_revs (t : ptabs) (evs : list ev) : list rev :=
  match evs with
  | [] => []
  | EvBit c b :: r => RBit (cell_prob t c) b :: to_revs (cell_set t c (prob_upd (cell_prob t c) b)) r
  | EvDirect b :: r => RDir b :: to_revs t r
  end.

Lemma fold_ev_rev evs : forall ie t,
  fst (fold_left ienc_ev evs (ie, t)) = fold_left ienc_rev (to_revs t evs) ie.
Proof.
  induction evs as [|[c b|b] evs IH]; intros ie t; cbn [fold_left to_revs ienc_ev ienc_rev]; [reflexivity| |].
  - fold (cell_prob t c). apply IH.
  - apply IH.
Qed.

Lemma to_revs_dir bits t rest : to_revs t (map EvDirect bits ++ rest) = map RDir bits ++ to_revs t rest.
Proof. induction bits as [|b bits IH]; cbn [map app to_revs]; [reflexivity|]. rewrite IH. reflexivity. Qed.

Lemma prob_upd_ok p b : prob_ok p -> prob_ok (prob_upd p b).
Proof.
  unfold prob_ok, prob_upd. intros H. destruct (prob_step_range p H) as [H1 H2].
  rewrite !shiftr5 in *. destruct b; assumption.
Qed.

Lemma cell_prob_ok t c : ProbsOk t -> prob_ok (cell_prob t c).
Proof.
  intros H. unfold cell_prob. destruct (cell_get t c) as [v|] eqn:E.
  - eapply cell_get_ProbsOk; eassumption.
  - unfold prob_ok. lia.
Qed.

Lemma to_revs_wf evs : forall t, ProbsOk t -> Forall wf_rev (to_revs t evs).
Proof.
  induction evs as [|[c b|b] evs IH]; intros t Ht; cbn [to_revs]; constructor.
  - cbn [wf_rev]. apply (cell_prob_ok t c Ht).
  - apply IH. apply cell_set_ProbsOk; [exact Ht|]. apply prob_upd_ok. apply cell_prob_ok. exact Ht.
  - exact I.
  - apply IH. exact Ht.
Qed.

(* pop_direct consumes exactly a run of direct events *)
Lemma pop_direct_inv n : forall acc evs v t,
  pop_direct n acc evs = Some (v, t) ->
  exists bits, evs = map EvDirect bits ++ t /\ length bits = n /\ v = msb_acc bits acc.
Proof.
  induction n as [|n IH]; intros acc evs v t; cbn [pop_direct].
  - intros H. inversion H; subst. exists []. repeat split.
  - destruct evs as [|[c b|b] evs]; try discriminate. intros H.
    destruct (IH _ _ _ _ H) as (bits & -> & Hl & ->).
    exists (b :: bits). cbn [map app length]. repeat split. lia.
Qed.

Lemma msb_acc_lt bits : msb_acc bits 0 < 2 ^ nlen bits.
Proof. pose proof (msb_acc_bound bits 0) as H. rewrite N.add_0_l, N.mul_1_l in H. exact H. Qed.
Print Assumptions sync_steps.
