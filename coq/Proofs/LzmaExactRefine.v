(* C01, layer 2b: the concrete handler dec_h (range decoder registers + probability tables +
   fault-free source + circular window) refines the event oracle of SymOracle.v on related
   states.  [Rel] relates a concrete state with the oracle state (events still to come,
   history): the tables are the encoder's tables at this point, the registers are in Sync with
   the ideal encoder, the window refines the history. *)
From LZ Require Import Base.Prelude Base.Prog Model.Io Model.Tables Model.LzBuffer Model.RangeDec Model.Lzma Format.RefEnc
  Proofs.ProgLemmas Proofs.MapLemmas Proofs.IoLemmas Proofs.RangeLockstep Proofs.WinCirc Proofs.NoPanic Proofs.NoPanicWorld
  Proofs.SymOracle Proofs.SymCoders Proofs.SymLiteral Proofs.SymDecode Proofs.SymChain
  Proofs.LzmaExactSync Proofs.LzmaExactShape.
From Coq Require Import ZifyBool ZifyNat ZifyN.
Local Open Scope prog_scope.

(* ---------- list facts ---------- *)
Lemma nlen_rev {A} (l : list A) : nlen (List.rev l) = nlen l.
Proof. unfold nlen. rewrite rev_length. reflexivity. Qed.

Lemma last_rev_cons (x : N) l d : last (List.rev (x :: l)) d = x.
Proof. cbn [List.rev]. apply last_last. Qed.

Lemma nth_rev_back (l : list N) dist : 1 <= dist -> dist <= nlen l ->
  nth (length (List.rev l) - N.to_nat dist) (List.rev l) 0 = nth (N.to_nat (dist - 1)) l 0.
Proof.
  unfold nlen. intros H1 H2. rewrite rev_length. rewrite rev_nth by lia. f_equal. lia.
Qed.

Section Refine.
  Variables (lcp dict mem : N) (pre : list N) (ief : ienc) (delta : N) (trail : list N) (canon : bool)
            (pos_end fl : N).
  Hypothesis Hdelta : delta < i_range ief.
  Hypothesis Hcanon : canon = true -> delta = 0 /\ trail = [].
  Hypothesis Hdict : 0 < dict /\ dict <= mem.

  (* when the flush is not canonical or bytes follow, the oracle is given one more event that
     no decoder operation can consume, so that it answers FinishedOk with false *)
  Definition phantom : list ev := if canon then [] else [EvBit (CIsRep 12) false].

  Definition RelCode (t : ptabs) (r : rc) (s : src) (real : list ev) : Prop :=
    exists ie rest,
      wf_ienc ie /\ TabsStd t lcp /\ ProbsOk t /\
      fst (fold_left ienc_ev real (ie, t)) = ief /\
      Sync ie r rest (i_low ief + delta) (i_norms ief) /\
      FaultFree s /\ s_rest s = rest ++ trail /\ s_pos s + nlen rest = pos_end.

  Definition RelWin (wn : win) (h : hist) : Prop :=
    exists c, wn = WCirc c /\ CInv pre c (List.rev (h_bytes h)) /\ c_dict c = dict /\ c_mem c = mem /\
      k_ffail (c_snk c) = false /\ k_flushes (c_snk c) = fl /\
      h_len h = nlen (h_bytes h) /\ Forall (fun b => b < 256) (h_bytes h).

  Definition Rel (x : dw) (o : ostate) : Prop :=
    exists real, fst o = real ++ phantom /\
      RelCode (d_tabs x) (d_rc x) (d_src x) real /\ RelWin (d_win x) (snd o).

  (* ---------- the coder side ---------- *)
  Lemma relcode_bit t r s c b real : RelCode t r s (EvBit c b :: real) -> cell_in lcp c ->
    exists prob r' s', cell_get t c = Some prob /\
      src_run (rc_decode_bit r prob true) s = (Done (b, prob_upd prob b, r'), s') /\
      RelCode (cell_set t c (prob_upd prob b)) r' s' real.
  Proof.
    intros (ie & rest & Hwf & Hstd & Hpo & Hfold & Hsync & Hff & Hrest & Hpos) Hc.
    destruct (cell_get t c) as [prob|] eqn:Eg; [|exfalso; eapply cell_in_get; eassumption].
    assert (Hp : prob_ok prob) by (eapply cell_get_ProbsOk; eassumption).
    cbn [fold_left ienc_ev] in Hfold. rewrite Eg in Hfold.
    set (t' := cell_set t c (prob_upd prob b)) in *. set (ie1 := ienc_bit ie prob b) in *.
    assert (Hpo' : ProbsOk t') by (apply cell_set_ProbsOk; [|apply prob_upd_ok]; assumption).
    pose proof Hfold as Hfold'. rewrite fold_ev_rev in Hfold'.
    pose proof (to_revs_wf real t' Hpo') as Hwfr.
    assert (He : wf_rev (RBit prob b)) by exact Hp.
    destruct (ienc_rev_wf ie (RBit prob b) Hwf He) as [Hwf1 _]. cbn [ienc_rev] in Hwf1. fold ie1 in Hwf1.
    assert (HW : Within ie1 (i_low ief + delta) (i_norms ief)).
    { apply (within_back (to_revs t' real)); try assumption. rewrite Hfold'. apply within_final. exact Hdelta. }
    destruct (sync_steps [RBit prob b] ie r rest _ _ trail Hwf (Forall_cons _ He (Forall_nil _)) Hsync HW)
      as (c' & rest' & Hpd & Hsync').
    cbn [fold_left ienc_rev map bit_of] in Hpd, Hsync'. fold ie1 in Hpd, Hsync'.
    apply pdec_single in Hpd. cbn [pdec_ev] in Hpd.
    pose proof (rc_decode_bit_run r prob true s Hff) as RUN. rewrite Hrest, Hpd in RUN.
    destruct RUN as (s' & Hrun & Hr' & Hp' & Hff' & _).
    { destruct Hsync as [HR _]. rewrite HR. apply Hwf. }
    { unfold prob_ok in Hp. lia. }
    exists prob, (mkRc (i_range ie1) c'), s'. split; [reflexivity|]. split; [exact Hrun|].
    exists ie1, rest'. split; [exact Hwf1|]. split; [apply cell_set_TabsStd; exact Hstd|]. split; [exact Hpo'|].
    split; [exact Hfold|]. split; [exact Hsync'|]. split; [exact Hff'|]. split; [exact Hr'|].
    rewrite !nlen_app in Hp'. lia.
  Qed.

  Lemma relcode_direct t r s bits real : RelCode t r s (map EvDirect bits ++ real) -> nlen bits <= 32 ->
    exists r' s', src_run (rc_get (nlen bits) r) s = (Done (msb_num bits, r'), s') /\ RelCode t r' s' real.
  Proof.
    intros (ie & rest & Hwf & Hstd & Hpo & Hfold & Hsync & Hff & Hrest & Hpos) Hn.
    pose proof Hfold as Hfold'. rewrite fold_ev_rev, to_revs_dir, fold_left_app in Hfold'.
    set (ie1 := fold_left ienc_rev (map RDir bits) ie) in *.
    assert (Hev : Forall wf_rev (map RDir bits)).
    { clear. induction bits; cbn [map]; constructor; [exact I|assumption]. }
    destruct (ienc_fold_wf _ ie Hwf Hev) as [Hwf1 _]. fold ie1 in Hwf1.
    pose proof (to_revs_wf real t Hpo) as Hwfr.
    assert (HW : Within ie1 (i_low ief + delta) (i_norms ief)).
    { apply (within_back (to_revs t real)); try assumption. rewrite Hfold'. apply within_final. exact Hdelta. }
    destruct (sync_steps (map RDir bits) ie r rest _ _ trail Hwf Hev Hsync HW) as (c' & rest' & Hpd & Hsync').
    fold ie1 in Hpd, Hsync'. rewrite map_bit_of_dir, pdec_dir_irrel in Hpd.
    pose proof (rc_get_run (nlen bits) r s Hff) as RUN.
    rewrite (pget_value _ _ _ Hn), Hrest in RUN. unfold nlen in RUN at 1. rewrite Nat2N.id, Hpd in RUN.
    destruct RUN as (s' & Hrun & Hr' & Hp' & Hff').
    exists (mkRc (i_range ie1) c'), s'. split; [exact Hrun|].
    exists ie1, rest'. split; [exact Hwf1|]. split; [exact Hstd|]. split; [exact Hpo|].
    split.
    { rewrite fold_ev_rev. rewrite fold_ev_rev, to_revs_dir, fold_left_app in Hfold. exact Hfold. }
    split; [exact Hsync'|]. split; [exact Hff'|]. split; [exact Hr'|].
    rewrite !nlen_app in Hp'. lia.
  Qed.

  (* all events consumed: the registers hold delta and the source is at the trailing bytes *)
  Lemma relcode_end t r s : RelCode t r s [] ->
    r_code r = delta /\ s_rest s = trail /\ s_pos s = pos_end /\ FaultFree s.
  Proof.
    intros (ie & rest & Hwf & Hstd & Hpo & Hfold & (HR & Hb & Hn & HV) & Hff & Hrest & Hpos).
    cbn [fold_left fst] in Hfold. subst ie.
    assert (rest = []) by (apply nlen_zero; clear - Hn; lia). subst rest.
    change (nlen (@nil N)) with 0 in *. change (be_num []) with 0 in HV. rewrite N.pow_0_r in HV.
    cbn [app] in Hrest. split; [lia|]. split; [exact Hrest|]. split; [lia|exact Hff].
  Qed.

  Lemma relcode_src t r s s' real : RelCode t r s real ->
    s_rest s' = s_rest s -> s_pos s' = s_pos s -> FaultFree s' -> RelCode t r s' real.
  Proof.
    intros (ie & rest & Hwf & Hstd & Hpo & Hfold & Hsync & Hff & Hrest & Hpos) E1 E2 F.
    exists ie, rest. rewrite E1, E2. split; [exact Hwf|]. split; [exact Hstd|]. split; [exact Hpo|].
    split; [exact Hfold|]. split; [exact Hsync|]. split; [exact F|]. split; assumption.
  Qed.

  Lemma relcode_finished t r s : RelCode t r s [] ->
    exists s', src_run (rc_is_finished_ok r) s
               = (Done ((delta =? 0) && match trail with [] => true | _ => false end), s') /\
               RelCode t r s' [].
  Proof.
    intros H. destruct (relcode_end t r s H) as (Hc & Hr & Hp & Hff).
    destruct (rc_is_finished_ok_run r s Hff) as (s' & Hrun & E1 & E2 & F).
    exists s'. rewrite Hc, Hr in Hrun. split; [exact Hrun|].
    eapply relcode_src; eassumption.
  Qed.

  Lemma src_run_fill s : FaultFree s ->
    exists buf s', src_run (icall FillBuf) s = (Done buf, s') /\
      s_rest s' = s_rest s /\ s_pos s' = s_pos s /\ FaultFree s'.
  Proof.
    intros Hs.
    destruct (IoLemmas.src_fill_spec s (FaultFree_L s Hs)) as (v & s1 & Hfill & Hr & Hp & Hl & Hs1 & _).
    exists (s_rest s, v), s1. split.
    - unfold src_run, run_io. rewrite interp_call. cbn [io_h i_src i_snk]. rewrite Hfill. reflexivity.
    - split; [exact Hr|]. split; [exact Hp|]. apply FaultFreeL_None; [exact Hs1|]. rewrite Hl. apply Hs.
  Qed.

  (* ---------- the window side ---------- *)
  Lemma relwin_len wn h : RelWin wn h -> win_len wn = h_len h.
  Proof.
    intros (c & -> & HI & _ & _ & _ & _ & Hl & _). cbn [win_len].
    destruct HI as (_ & Hlen & _). rewrite Hlen, nlen_rev. symmetry. exact Hl.
  Qed.

  Lemma relwin_last_or wn h d : RelWin wn h ->
    win_last_or wn d = (Done (match h_bytes h with [] => d | x :: _ => x end), wn).
  Proof.
    intros (c & -> & HI & _). cbn [win_last_or]. rewrite (circ_last_or_spec pre c _ d HI).
    unfold lift_c. cbn [fst snd]. do 2 f_equal.
    destruct (h_bytes h) as [|x l]; [reflexivity|apply last_rev_cons].
  Qed.

  Lemma can_copy_spec h dist : h_len h = nlen (h_bytes h) ->
    can_copy (Some dict) h dist = (1 <=? dist) && (dist <=? N.min (nlen (h_bytes h)) dict).
  Proof.
    intros E. unfold can_copy. rewrite E.
    destruct (N.leb_spec 1 dist); destruct (N.leb_spec dist (nlen (h_bytes h))); destruct (N.leb_spec dist dict);
      destruct (N.leb_spec dist (N.min (nlen (h_bytes h)) dict)); cbn [andb]; try reflexivity; lia.
  Qed.

  Lemma relwin_last_n wn h dist : RelWin wn h -> can_copy (Some dict) h dist = true ->
    win_last_n wn dist = (Done (nth (N.to_nat (dist - 1)) (h_bytes h) 0), wn).
  Proof.
    intros (c & -> & HI & Hd & _ & _ & _ & Hl & _) Hcc. rewrite (can_copy_spec h dist Hl) in Hcc.
    apply andb_true_iff in Hcc. destruct Hcc as [H1 H2]. apply N.leb_le in H1. apply N.leb_le in H2.
    cbn [win_last_n]. rewrite (circ_last_n_spec pre c _ dist HI H1). rewrite nlen_rev, Hd.
    destruct (N.leb_spec dist (N.min (nlen (h_bytes h)) dict)) as [_|Hbad]; [|lia].
    unfold lift_c. cbn [fst snd]. do 2 f_equal. apply nth_rev_back; lia.
  Qed.

  Lemma relwin_append_lit wn h b : RelWin wn h -> b < 256 ->
    exists wn', win_append_literal wn b = (Done tt, wn') /\ RelWin wn' (hist_push h b).
  Proof.
    intros (c & -> & HI & Hd & Hm & Hff & Hfl & Hl & Hby) Hb.
    destruct (circ_append_literal_strong pre c _ b HI) as (c' & E & HI' & Hd' & Hm' & _).
    { rewrite Hd, Hm. lia. }
    pose proof (circ_append_literal_frame c b) as [F1 F2]. rewrite E in F1, F2. cbn [snd] in F1, F2.
    exists (WCirc c'). cbn [win_append_literal]. rewrite E. split; [reflexivity|].
    exists c'. split; [reflexivity|]. unfold hist_push. cbn [h_bytes h_len List.rev].
    split; [exact HI'|]. split; [congruence|]. split; [congruence|]. split; [congruence|]. split; [congruence|].
    split; [rewrite nlen_cons; lia|]. constructor; assumption.
  Qed.

  Lemma relwin_append_lz wn h len dist : RelWin wn h -> can_copy (Some dict) h dist = true ->
    exists wn', win_append_lz wn len dist = (Done tt, wn') /\ RelWin wn' (hist_copy h len dist).
  Proof.
    intros (c & -> & HI & Hd & Hm & Hff & Hfl & Hl & Hby) Hcc. rewrite (can_copy_spec h dist Hl) in Hcc.
    apply andb_true_iff in Hcc. destruct Hcc as [H1 H2]. apply N.leb_le in H1. apply N.leb_le in H2.
    pose proof (circ_append_lz_spec pre c _ len dist HI H1) as SP. rewrite nlen_rev, Hd in SP.
    destruct (N.leb_spec dist (N.min (nlen (h_bytes h)) dict)) as [_|Hbad]; [|lia].
    destruct SP as (c' & E & HI' & Hd' & Hm'). { rewrite Hm. lia. }
    pose proof (circ_append_lz_frame c len dist) as [F1 F2]. rewrite E in F1, F2. cbn [snd] in F1, F2.
    exists (WCirc c'). cbn [win_append_lz]. rewrite E. split; [reflexivity|].
    exists c'. split; [reflexivity|]. unfold hist_copy. cbn [h_bytes h_len].
    split.
    { rewrite <- (copy_back_lz_copy (N.to_nat len) (List.rev (h_bytes h)) dist H1) in HI'.
      - rewrite !rev_involutive in HI'. exact HI'.
      - rewrite rev_length. unfold nlen in H2. lia. }
    split; [congruence|]. split; [congruence|]. split; [congruence|]. split; [congruence|].
    split.
    { clear - Hl. unfold nlen.
      assert (G : forall n d l, length (copy_back n d l) = (length l + n)%nat).
      { induction n as [|n IH]; intros d l; cbn [copy_back]; [lia|]. rewrite IH. cbn [length]. lia. }
      rewrite G. unfold nlen in Hl. lia. }
    apply copy_back_forall; [reflexivity|exact Hby].
  Qed.

  (* ---------- one operation ---------- *)
  Lemma phantom_head c b t real : cell_in lcp c -> EvBit c b :: t = real ++ phantom ->
    exists real', real = EvBit c b :: real' /\ t = real' ++ phantom.
  Proof.
    intros Hc E. destruct real as [|e real'].
    - exfalso. unfold phantom in E. destruct canon; cbn [app] in E; [discriminate|].
      inversion E; subst. cbn [cell_in] in Hc. lia.
    - cbn [app] in E. inversion E; subst. exists real'. split; reflexivity.
  Qed.

  Lemma phantom_direct bits t real : map EvDirect bits ++ t = real ++ phantom ->
    exists real', real = map EvDirect bits ++ real' /\ t = real' ++ phantom.
  Proof.
    revert real. induction bits as [|b bits IH]; intros real E; cbn [map app] in *.
    - exists real. split; [reflexivity|exact E].
    - destruct real as [|e real'].
      + exfalso. unfold phantom in E. destruct canon; cbn [app] in E; discriminate.
      + cbn [app] in E. inversion E; subst. destruct (IH real' H1) as (r2 & -> & ->).
        exists r2. split; reflexivity.
  Qed.

  Lemma step_bit c x s1 s2 t2 : Rel s1 s2 -> cell_in lcp c ->
    oracle (Some dict) _ (Bit c true) s2 = HOk x t2 ->
    exists t1, dec_h _ (Bit c true) s1 = HOk x t1 /\ Rel t1 t2.
  Proof.
    intros (real & Ef & HC & HW) Hc Ho. destruct s2 as [evs ho]. cbn [fst snd oracle] in *.
    destruct evs as [|[c' b|b] t]; try discriminate.
    destruct (cell_eq_dec c' c) as [->|]; [|discriminate]. inversion Ho; subst x t2. clear Ho.
    destruct (phantom_head c b t real Hc Ef) as (real' & -> & ->).
    destruct (relcode_bit _ _ _ c b real' HC Hc) as (prob & r' & s' & Eg & Hrun & HC').
    cbn [dec_h]. rewrite Eg, Hrun. eexists. split; [reflexivity|].
    exists real'. cbn [fst snd d_tabs d_rc d_src d_win]. split; [reflexivity|]. split; assumption.
  Qed.

  Lemma step_direct n x s1 s2 t2 : Rel s1 s2 -> n <= 32 ->
    oracle (Some dict) _ (Direct n) s2 = HOk x t2 ->
    x < 2 ^ n /\ exists t1, dec_h _ (Direct n) s1 = HOk x t1 /\ Rel t1 t2.
  Proof.
    intros (real & Ef & HC & HW) Hn Ho. destruct s2 as [evs ho]. cbn [fst snd oracle] in *.
    destruct (pop_direct (N.to_nat n) 0 evs) as [[v t]|] eqn:Ep; [|discriminate].
    inversion Ho; subst x t2. clear Ho.
    destruct (pop_direct_inv _ _ _ _ _ Ep) as (bits & -> & Hl & ->).
    assert (Hnb : nlen bits = n) by (unfold nlen; lia).
    destruct (phantom_direct bits t real Ef) as (real' & -> & ->).
    destruct (relcode_direct _ _ _ bits real' HC ltac:(lia)) as (r' & s' & Hrun & HC').
    split; [rewrite <- Hnb; apply msb_acc_lt|].
    cbn [dec_h]. rewrite <- Hnb, Hrun. unfold lift_src. eexists. split; [reflexivity|].
    exists real'. cbn [fst snd d_tabs d_rc d_src d_win]. split; [reflexivity|]. split; assumption.
  Qed.

  Lemma step_finished s1 s2 t2 : Rel s1 s2 ->
    oracle (Some dict) _ FinishedOk s2 = HOk true t2 ->
    exists t1, dec_h _ FinishedOk s1 = HOk true t1 /\ Rel t1 t2.
  Proof.
    intros (real & Ef & HC & HW) Ho. destruct s2 as [evs ho]. cbn [fst snd oracle] in *.
    destruct evs as [|e t]; [|discriminate]. inversion Ho; subst t2. clear Ho.
    destruct real as [|e real']; [|discriminate]. cbn [app] in Ef.
    assert (Ec : canon = true).
    { unfold phantom in Ef. destruct canon; [reflexivity|discriminate]. }
    destruct (Hcanon Ec) as [Hd0 Htr].
    destruct (relcode_finished _ _ _ HC) as (s' & Hrun & HC').
    rewrite Hd0, Htr in Hrun. cbn [dec_h]. rewrite Hrun. eexists. split; [reflexivity|].
    exists []. cbn [fst snd d_tabs d_rc d_src d_win app]. unfold phantom. rewrite Ec.
    split; [reflexivity|]. split; assumption.
  Qed.

  Lemma step_win {X} (o : decE X) x s1 s2 t2 : Rel s1 s2 -> op_pre (cell_in lcp) o ->
    match o with Bit _ _ | Direct _ | FinishedOk => False | _ => True end ->
    oracle (Some dict) _ o s2 = HOk x t2 ->
    ans_ok o x /\ exists t1, dec_h _ o s1 = HOk x t1 /\ Rel t1 t2.
  Proof.
    intros (real & Ef & HC & HW) Hpre Hk Ho. destruct s2 as [evs ho]. cbn [fst snd] in *. subst evs.
    destruct o; try contradiction; cbn [oracle fst snd op_pre ans_ok] in *.
    - (* WLen *) inversion Ho; subst. split; [exact I|].
      cbn [dec_h]. rewrite (relwin_len _ _ HW). eexists. split; [reflexivity|].
      exists real. split; [reflexivity|]. split; assumption.
    - (* WLastOr *) inversion Ho; subst. split.
      { destruct HW as (c & _ & _ & _ & _ & _ & _ & _ & Hby). destruct (h_bytes ho) as [|y l]; [exact Hpre|].
        inversion Hby; assumption. }
      cbn [dec_h]. rewrite (relwin_last_or _ _ d HW). unfold lift_win. destruct s1 as [tb rr ss ww]. cbn [d_tabs d_rc d_src d_win] in *.
      eexists. split; [reflexivity|]. exists real. split; [reflexivity|]. split; assumption.
    - (* WLastN *) destruct (can_copy (Some dict) ho dist) eqn:Hcc; [|discriminate]. inversion Ho; subst. split.
      { destruct HW as (c & _ & _ & _ & _ & _ & _ & _ & Hby).
        destruct (nth_in_or_default (N.to_nat (dist - 1)) (h_bytes ho) 0) as [Hin|E]; [|rewrite E; lia].
        rewrite Forall_forall in Hby. apply Hby. exact Hin. }
      cbn [dec_h]. rewrite (relwin_last_n _ _ dist HW Hcc). unfold lift_win. destruct s1 as [tb rr ss ww]. cbn [d_tabs d_rc d_src d_win] in *.
      eexists. split; [reflexivity|]. exists real. split; [reflexivity|]. split; assumption.
    - (* WAppendLit *) inversion Ho; subst. split; [exact I|].
      destruct (relwin_append_lit _ _ b HW Hpre) as (wn' & E & HW').
      cbn [dec_h]. rewrite E. unfold lift_win. eexists. split; [reflexivity|].
      exists real. cbn [fst snd d_tabs d_rc d_src d_win]. split; [reflexivity|]. split; assumption.
    - (* WAppendLz *) destruct (can_copy (Some dict) ho dist) eqn:Hcc; [|discriminate]. inversion Ho; subst.
      split; [exact I|].
      destruct (relwin_append_lz _ _ len dist HW Hcc) as (wn' & E & HW').
      cbn [dec_h]. rewrite E. unfold lift_win. eexists. split; [reflexivity|].
      exists real. cbn [fst snd d_tabs d_rc d_src d_win]. split; [reflexivity|]. split; assumption.
  Qed.

  (* ---------- every safe, well-shaped program ---------- *)
  Theorem refine_good {A} (Q : A -> Prop) (p : dprog A) :
    safe_prog (cell_in lcp) Q p -> shape p ->
    forall s1 s2 a t2, Rel s1 s2 -> interp (oracle (Some dict)) p s2 = (Done a, t2) ->
    exists t1, interp dec_h p s1 = (Done a, t1) /\ Rel t1 t2.
  Proof.
    induction 1 as [a0 Ha|e|X o k Hpre Hk IH]; intros Hsh s1 s2 a t2 HR Hi.
    - cbn [interp] in *. inversion Hi; subst. exists s1. split; [reflexivity|exact HR].
    - cbn [interp] in Hi. discriminate.
    - cbn [interp shape] in *. destruct Hsh as [Hop Hsh'].
      destruct (oracle (Some dict) X o s2) as [x u2|e u2|w u2] eqn:E2; try discriminate.
      assert (STEP : ans_ok o x /\ exists u1, dec_h X o s1 = HOk x u1 /\ Rel u1 u2).
      { destruct o; cbn [op_shape op_pre ans_ok] in *.
        - subst upd. split; [exact I|]. exact (step_bit c x s1 s2 u2 HR Hpre E2).
        - exact (step_direct count x s1 s2 u2 HR Hop E2).
        - split; [exact I|]. destruct x.
          + exact (step_finished s1 s2 u2 HR E2).
          + destruct Hop as [e He]. rewrite He in Hi. cbn [interp] in Hi. discriminate.
        - exact (step_win WLen x s1 s2 u2 HR Hpre I E2).
        - exact (step_win (WLastOr d) x s1 s2 u2 HR Hpre I E2).
        - exact (step_win (WLastN dist) x s1 s2 u2 HR Hpre I E2).
        - exact (step_win (WAppendLit b) x s1 s2 u2 HR Hpre I E2).
        - exact (step_win (WAppendLz len dist) x s1 s2 u2 HR Hpre I E2). }
      destruct STEP as (Hans & u1 & E1 & HR'). rewrite E1.
      eapply IH; eauto.
  Qed.
  (* ---------- the rejecting direction: bytes follow the payload ---------- *)
  Lemma relcode_finished_trail t r s real : RelCode t r s real -> trail <> [] ->
    exists s', src_run (rc_is_finished_ok r) s = (Done false, s') /\ RelCode t r s' real.
  Proof.
    intros H Htr. pose proof H as (ie & rest & _ & _ & _ & _ & _ & Hff & Hrest & _).
    destruct (rc_is_finished_ok_run r s Hff) as (s' & Hrun & E1 & E2 & F).
    exists s'. split; [|eapply relcode_src; eassumption].
    rewrite Hrun. rewrite Hrest. destruct (rest ++ trail) as [|y l] eqn:E.
    - apply app_eq_nil in E. destruct E as [_ E]. contradiction.
    - rewrite andb_false_r. reflexivity.
  Qed.

  Lemma relwin_last_n_err wn h dist : RelWin wn h -> 1 <= dist -> can_copy (Some dict) h dist = false ->
    win_last_n wn dist = (Failed ELzma, wn).
  Proof.
    intros (c & -> & HI & Hd & _ & _ & _ & Hl & _) H1 Hcc. rewrite (can_copy_spec h dist Hl) in Hcc.
    cbn [win_last_n]. rewrite (circ_last_n_spec pre c _ dist HI H1). rewrite nlen_rev, Hd.
    destruct (N.leb_spec 1 dist) as [_|]; [|lia]. cbn [andb] in Hcc. rewrite Hcc. reflexivity.
  Qed.

  Lemma relwin_append_lz_err wn h len dist : RelWin wn h -> 1 <= dist -> can_copy (Some dict) h dist = false ->
    win_append_lz wn len dist = (Failed ELzma, wn).
  Proof.
    intros (c & -> & HI & Hd & _ & _ & _ & Hl & _) H1 Hcc. rewrite (can_copy_spec h dist Hl) in Hcc.
    cbn [win_append_lz]. pose proof (circ_append_lz_spec pre c _ len dist HI H1) as SP. rewrite nlen_rev, Hd in SP.
    destruct (N.leb_spec 1 dist) as [_|]; [|lia]. cbn [andb] in Hcc. rewrite Hcc in SP. rewrite SP. reflexivity.
  Qed.

  Lemma step_finished_trail x s1 s2 t2 : Rel s1 s2 -> trail <> [] -> canon = false ->
    oracle (Some dict) _ FinishedOk s2 = HOk x t2 ->
    x = false /\ exists t1, dec_h _ FinishedOk s1 = HOk false t1 /\ Rel t1 t2.
  Proof.
    intros (real & Ef & HC & HW) Htr Hc Ho. destruct s2 as [evs ho]. cbn [fst snd oracle] in *.
    inversion Ho; subst x t2. clear Ho.
    split.
    { subst evs. unfold phantom. rewrite Hc. destruct real; reflexivity. }
    destruct (relcode_finished_trail _ _ _ _ HC Htr) as (s' & Hrun & HC').
    cbn [dec_h]. rewrite Hrun. eexists. split; [reflexivity|].
    exists real. cbn [fst snd d_tabs d_rc d_src d_win]. split; [exact Ef|]. split; assumption.
  Qed.

  Lemma step_err {X} (o : decE X) e s1 s2 t2 : Rel s1 s2 -> op_pre (cell_in lcp) o ->
    oracle (Some dict) _ o s2 = HErr e t2 ->
    exists t1, dec_h _ o s1 = HErr e t1 /\ Rel t1 t2.
  Proof.
    intros (real & Ef & HC & HW) Hpre Ho. destruct s2 as [evs ho]. cbn [fst snd] in *.
    destruct o; cbn [oracle fst snd op_pre] in *; try discriminate.
    - destruct evs as [|[c' b|b] t]; try discriminate. destruct (cell_eq_dec c' c); discriminate.
    - destruct (pop_direct (N.to_nat count) 0 evs) as [[v t]|]; discriminate.
    - destruct (can_copy (Some dict) ho dist) eqn:Hcc; [discriminate|]. inversion Ho; subst e t2.
      cbn [dec_h]. rewrite (relwin_last_n_err _ _ dist HW Hpre Hcc). unfold lift_win.
      eexists. split; [reflexivity|]. exists real. cbn [fst snd d_tabs d_rc d_src d_win]. split; [exact Ef|]. split; assumption.
    - destruct (can_copy (Some dict) ho dist) eqn:Hcc; [discriminate|]. inversion Ho; subst e t2.
      cbn [dec_h]. rewrite (relwin_append_lz_err _ _ len dist HW Hpre Hcc). unfold lift_win.
      eexists. split; [reflexivity|]. exists real. cbn [fst snd d_tabs d_rc d_src d_win]. split; [exact Ef|]. split; assumption.
  Qed.

  (* with trailing bytes the two handlers agree on every outcome except oracle panics *)
  Theorem refine_trail {A} (Q : A -> Prop) (p : dprog A) :
    safe_prog (cell_in lcp) Q p -> shape p -> trail <> [] -> canon = false ->
    forall s1 s2 r t2, Rel s1 s2 -> interp (oracle (Some dict)) p s2 = (r, t2) ->
    (forall w, r <> Panicked w) ->
    exists t1, interp dec_h p s1 = (r, t1) /\ Rel t1 t2.
  Proof.
    intros Hsafe Hsh Htr Hc. revert Hsh.
    induction Hsafe as [a0 Ha|e|X o k Hpre Hk IH]; intros Hsh s1 s2 r t2 HR Hi Hnp.
    - cbn [interp] in *. inversion Hi; subst. exists s1. split; [reflexivity|exact HR].
    - cbn [interp] in *. inversion Hi; subst. exists s1. split; [reflexivity|exact HR].
    - cbn [interp shape] in *. destruct Hsh as [Hop Hsh'].
      destruct (oracle (Some dict) X o s2) as [x u2|e u2|w u2] eqn:E2.
      + assert (STEP : ans_ok o x /\ exists u1, dec_h X o s1 = HOk x u1 /\ Rel u1 u2).
        { destruct o; cbn [op_shape op_pre ans_ok] in *.
          - subst upd. split; [exact I|]. exact (step_bit c x s1 s2 u2 HR Hpre E2).
          - exact (step_direct count x s1 s2 u2 HR Hop E2).
          - split; [exact I|]. destruct (step_finished_trail x s1 s2 u2 HR Htr Hc E2) as [-> H]. exact H.
          - exact (step_win WLen x s1 s2 u2 HR Hpre I E2).
          - exact (step_win (WLastOr d) x s1 s2 u2 HR Hpre I E2).
          - exact (step_win (WLastN dist) x s1 s2 u2 HR Hpre I E2).
          - exact (step_win (WAppendLit b) x s1 s2 u2 HR Hpre I E2).
          - exact (step_win (WAppendLz len dist) x s1 s2 u2 HR Hpre I E2). }
        destruct STEP as (Hans & u1 & E1 & HR'). rewrite E1. eapply IH; eauto.
      + inversion Hi; subst r t2. destruct (step_err o e s1 s2 u2 HR Hpre E2) as (u1 & E1 & HR').
        rewrite E1. exists u1. split; [reflexivity|exact HR'].
      + inversion Hi; subst r. exfalso. apply (Hnp w). reflexivity.
  Qed.
End Refine.

Print Assumptions refine_good.
Print Assumptions refine_trail.
