(* C01 / C04 x C05: the hypotheses of the theorems of StreamExact are satisfiable.
   Each example instantiates a theorem on concrete data (side conditions by vm_compute) and keeps the
   division into pieces UNIVERSALLY quantified; a companion example runs the model on one concrete
   division by computation and finds the same result. *)
From LZ Require Import Base.Prelude Base.Prog Model.Io Model.Tables Model.LzBuffer Model.RangeDec Model.Lzma Model.Stream Model.Enc
  Format.RefEnc
  Proofs.IoLemmas Proofs.HeaderRules Proofs.LzmaExact Proofs.LzmaExactOpts Proofs.LzmaExactExamples
  Proofs.DumbEncConform Proofs.LzmaRoundTrip Proofs.StreamSimData Proofs.StreamExact.
From Coq Require Import ZifyBool ZifyNat ZifyN.
Local Open Scope N_scope.

(* ---------- G1 ---------- *)
Example ex_payload_bytes : exists payload,
  enc_payload_gen false ex_fp (Some 4096) (ex_body ++ [EndMarker]) 0 = Some (payload, ex_out) /\
  Forall (fun b => b < 256) payload /\
  Forall (fun b => b < 256) (hdr_bytes ex_fp 4096 (le_bytes 8 18446744073709551615)).
Proof.
  eexists. split; [vm_compute; reflexivity|]. split.
  - eapply (enc_payload_bytes false ex_fp (Some 4096) (ex_body ++ [EndMarker]) 0 _ ex_out). vm_compute. reflexivity.
  - apply hdr_bytes_bytes; [vm_compute; discriminate|vm_compute; discriminate|vm_compute; discriminate|reflexivity|apply le_bytes_bytes].
Qed.

(* the lenient encoder too: a program whose last symbol reaches before the start of the output *)
Example ex_payload_bytes_lenient : exists payload out,
  enc_payload_gen true ex_fp (Some 4096) [Lit 1; Match 5 2] 0 = Some (payload, out) /\
  enc_payload_gen false ex_fp (Some 4096) [Lit 1; Match 5 2] 0 = None /\
  Forall (fun b => b < 256) payload.
Proof.
  eexists _, _. split; [vm_compute; reflexivity|]. split; [vm_compute; reflexivity|].
  eapply (enc_payload_bytes true ex_fp (Some 4096) [Lit 1; Match 5 2] 0). vm_compute. reflexivity.
Qed.

(* ---------- G2: end marker, ReadFromHeader, every division ---------- *)
Definition ex_o_marker : options := mkOptions ReadFromHeader None false.
Definition ex_field_marker : list N := le_bytes 8 18446744073709551615.

Example ex_stream_marker : exists payload,
  enc_payload_gen false ex_fp (Some 4096) (ex_body ++ [EndMarker]) 0 = Some (payload, ex_out) /\
  forall pieces, concat pieces = hdr_bytes ex_fp 4096 ex_field_marker ++ payload ->
    exists k', drive (stream_new ex_o_marker vec_sink) pieces = (Done tt, k') /\ snk_bytes k' = ex_out /\ k_flushes k' = 1.
Proof.
  eexists. split; [vm_compute; reflexivity|].
  intros pieces Hcat.
  evar (ief : ienc).
  match goal with Hc : concat _ = _ ++ ?pl |- _ =>
    destruct (stream_decodes_wellformed_exactly ex_fp 4096 ex_field_marker (ex_body ++ [EndMarker]) pl ex_out 0 [] ief
                ex_o_marker vec_sink pieces) as (k' & H1 & H2 & H3)
  end.
  - vm_compute. discriminate.
  - vm_compute. discriminate.
  - vm_compute. discriminate.
  - vm_compute. reflexivity.
  - vm_compute. reflexivity.
  - vm_compute. reflexivity.
  - vm_compute. reflexivity.
  - exact I.
  - assert (E : size_in_effect (o_unpacked ex_o_marker) (le_num ex_field_marker) = None) by (vm_compute; reflexivity).
    rewrite E. split; [exists ex_body; reflexivity|split; reflexivity].
  - reflexivity.
  - reflexivity.
  - reflexivity.
  - apply le_bytes_bytes.
  - constructor.
  - vm_compute. reflexivity.
  - vm_compute. discriminate.
  - rewrite app_nil_r. exact Hcat.
  - exists k'. split; [exact H1|]. split; [exact H2|exact H3].
Qed.

(* ---------- G2: declared size, no marker, non-canonical flush, trailing bytes, 5-byte header ---------- *)
Definition ex_o_sized : options := mkOptions (UseProvided (Some 19)) (Some 4096) false.

Example ex_stream_sized : exists payload,
  enc_payload_gen false ex_fp (Some 4096) ex_body 12345 = Some (payload, ex_out) /\
  forall pieces, concat pieces = (hdr_bytes ex_fp 7 [] ++ payload) ++ [9; 9; 9] ->
    exists k', drive (stream_new ex_o_sized vec_sink) pieces = (Done tt, k') /\ snk_bytes k' = ex_out.
Proof.
  eexists. split; [vm_compute; reflexivity|].
  intros pieces Hcat.
  evar (ief : ienc).
  match goal with Hc : concat _ = (_ ++ ?pl) ++ _ |- _ =>
    destruct (stream_decodes_wellformed_exactly ex_fp 7 [] ex_body pl ex_out 12345 [9; 9; 9] ief
                ex_o_sized vec_sink pieces) as (k' & H1 & H2 & _)
  end.
  - vm_compute. discriminate.
  - vm_compute. discriminate.
  - vm_compute. discriminate.
  - vm_compute. reflexivity.
  - vm_compute. reflexivity.
  - vm_compute. reflexivity.
  - reflexivity.
  - vm_compute. discriminate.
  - assert (E : size_in_effect (o_unpacked ex_o_sized) (le_num []) = Some 19) by reflexivity.
    rewrite E. split; [|split; [reflexivity|vm_compute; reflexivity]].
    unfold no_marker, ex_body. repeat constructor; discriminate.
  - reflexivity.
  - reflexivity.
  - reflexivity.
  - constructor.
  - repeat constructor.
  - vm_compute. reflexivity.
  - vm_compute. discriminate.
  - exact Hcat.
  - exists k'. split; [exact H1|exact H2].
Qed.

(* the same two streams, run by computation on one division (an empty piece included) *)
Definition ex_cut (l : list N) : list (list N) := [firstn 1 l; firstn 6 (skipn 1 l); []; firstn 11 (skipn 7 l); skipn 18 l].

Example ex_stream_computed :
  match enc_payload_gen false ex_fp (Some 4096) (ex_body ++ [EndMarker]) 0,
        enc_payload_gen false ex_fp (Some 4096) ex_body 12345 with
  | Some (p1, _), Some (p2, _) =>
      let f1 := hdr_bytes ex_fp 4096 ex_field_marker ++ p1 in
      let f2 := (hdr_bytes ex_fp 7 [] ++ p2) ++ [9; 9; 9] in
      concat (ex_cut f1) = f1 /\ concat (ex_cut f2) = f2 /\
      (let '(r, k') := drive (stream_new ex_o_marker vec_sink) (ex_cut f1) in (r, snk_bytes k')) = (Done tt, ex_out) /\
      (let '(r, k') := drive (stream_new ex_o_sized vec_sink) (ex_cut f2) in (r, snk_bytes k')) = (Done tt, ex_out)
  | _, _ => False
  end.
Proof. vm_compute. repeat split; reflexivity. Qed.

(* ---------- G3: the round trip, every division of the compressed file ---------- *)
Definition rt_data : list N := [97; 98; 99; 97; 98; 99; 0; 255].
Definition rt_frag : N -> N := fun i => i + 2.
Definition rt_file (o : enc_unpacked) : list N :=
  snk_bytes (i_snk (snd (lzma_compress 20 o (mkIo (src_of rt_data rt_frag None) vec_sink)))).

Lemma rt_data_bytes : Forall (fun b => b < 256) rt_data.
Proof. unfold rt_data. repeat constructor. Qed.

(* the compressed files, by computation *)
Definition rt_file_marker : list N := Eval vm_compute in rt_file (WriteToHeader None).
Definition rt_file_sized : list N := Eval vm_compute in rt_file (WriteToHeader (Some 8)).
Definition rt_file_skip : list N := Eval vm_compute in rt_file SkipWritingToHeader.
Definition rt_file_wrong : list N := Eval vm_compute in rt_file (WriteToHeader (Some 12345)).

(* identify the existentially quantified file with the computed one (only the encoder is evaluated) *)
Lemma rt_identify o file w1 cf :
  lzma_compress 20 o (mkIo (src_of rt_data rt_frag None) vec_sink) = (Done tt, w1) ->
  snk_bytes (i_snk w1) = snk_bytes vec_sink ++ file -> rt_file o = cf -> file = cf.
Proof. intros E B C. unfold rt_file in C. rewrite E in C. cbn [snd] in C. rewrite B in C. exact C. Qed.

Lemma rt_ml : memlimit_ok (Some 8388608) 8388608.
Proof. unfold memlimit_ok. lia. Qed.

Example ex_round_trip_marker : forall pieces, concat pieces = rt_file_marker ->
  exists k', drive (stream_new (mkOptions ReadFromHeader None false) vec_sink) pieces = (Done tt, k') /\ snk_bytes k' = rt_data.
Proof.
  destruct (stream_round_trip_marker 20 None rt_data rt_frag vec_sink vec_sink rt_data_bytes eq_refl eq_refl eq_refl eq_refl eq_refl I)
    as (file & w1 & E & B & H).
  assert (Ef : file = rt_file_marker) by (apply (rt_identify _ _ _ _ E B); vm_compute; reflexivity).
  subst file. intros pieces Hcat. destruct (H pieces Hcat) as (k' & H1 & H2 & _). exists k'. split; [exact H1|exact H2].
Qed.

Example ex_round_trip_sized : forall pieces, concat pieces = rt_file_sized ->
  exists k', drive (stream_new (mkOptions ReadFromHeader (Some 8388608) false) vec_sink) pieces = (Done tt, k') /\ snk_bytes k' = rt_data.
Proof.
  destruct (stream_round_trip_sized 20 (Some 8388608) rt_data rt_frag vec_sink vec_sink rt_data_bytes eq_refl eq_refl eq_refl eq_refl eq_refl rt_ml)
    as (file & w1 & E & B & H).
  assert (Ef : file = rt_file_sized) by (apply (rt_identify _ _ _ _ E B); vm_compute; reflexivity).
  subst file. intros pieces Hcat. destruct (H pieces Hcat) as (k' & H1 & H2 & _). exists k'. split; [exact H1|exact H2].
Qed.

Example ex_round_trip_skip : forall pieces, concat pieces = rt_file_skip ->
  exists k', drive (stream_new (mkOptions (UseProvided (Some 8)) None false) vec_sink) pieces = (Done tt, k') /\ snk_bytes k' = rt_data.
Proof.
  destruct (stream_round_trip_skip 20 None rt_data rt_frag vec_sink vec_sink rt_data_bytes eq_refl eq_refl eq_refl eq_refl eq_refl I)
    as (file & w1 & E & B & H).
  assert (Ef : file = rt_file_skip) by (apply (rt_identify _ _ _ _ E B); vm_compute; reflexivity).
  subst file. intros pieces Hcat. destruct (H pieces Hcat) as (k' & H1 & H2 & _). exists k'. split; [exact H1|exact H2].
Qed.

(* a WRONG size in the header, overridden by the caller *)
Example ex_round_trip_override : forall pieces, concat pieces = rt_file_wrong ->
  exists k', drive (stream_new (mkOptions (ReadHeaderButUseProvided (Some 8)) None false) vec_sink) pieces = (Done tt, k') /\ snk_bytes k' = rt_data.
Proof.
  destruct (stream_round_trip_override 20 (Some 12345) None rt_data rt_frag vec_sink vec_sink rt_data_bytes eq_refl eq_refl eq_refl eq_refl eq_refl I)
    as (file & w1 & E & B & H).
  assert (Ef : file = rt_file_wrong) by (apply (rt_identify _ _ _ _ E B); vm_compute; reflexivity).
  subst file. intros pieces Hcat. destruct (H pieces Hcat) as (k' & H1 & H2 & _). exists k'. split; [exact H1|exact H2].
Qed.

(* the general theorem with an option pairing given explicitly *)
Example ex_round_trip_gen : forall pieces, concat pieces = rt_file_marker ->
  exists k', drive (stream_new (mkOptions (ReadHeaderButUseProvided None) None false) vec_sink) pieces = (Done tt, k') /\ snk_bytes k' = rt_data.
Proof.
  destruct (stream_round_trip_gen 20 (WriteToHeader None) (mkOptions (ReadHeaderButUseProvided None) None false)
              rt_data rt_frag vec_sink vec_sink rt_data_bytes eq_refl eq_refl eq_refl eq_refl eq_refl eq_refl I eq_refl eq_refl)
    as (file & w1 & E & B & H).
  assert (Ef : file = rt_file_marker) by (apply (rt_identify _ _ _ _ E B); vm_compute; reflexivity).
  subst file. intros pieces Hcat. destruct (H pieces Hcat) as (k' & H1 & H2 & _). exists k'. split; [exact H1|exact H2].
Qed.

(* the same round trips by computation on one division *)
Example ex_round_trip_computed :
  let run o' file := let '(r, k') := drive (stream_new (mkOptions o' None false) vec_sink) (ex_cut file) in (r, snk_bytes k') in
  concat (ex_cut rt_file_marker) = rt_file_marker /\
  run ReadFromHeader rt_file_marker = (Done tt, rt_data) /\
  run ReadFromHeader rt_file_sized = (Done tt, rt_data) /\
  run (UseProvided (Some 8)) rt_file_skip = (Done tt, rt_data) /\
  run (ReadHeaderButUseProvided (Some 8)) rt_file_wrong = (Done tt, rt_data) /\
  run (ReadHeaderButUseProvided None) rt_file_marker = (Done tt, rt_data).
Proof. vm_compute. repeat split; reflexivity. Qed.

(* lzma_compress_file on the same data: a byte string within the stated length bound *)
Example ex_compress_file :
  Forall (fun b => b < 256) rt_file_marker /\ nlen rt_file_marker <= 42 * nlen rt_data + 60.
Proof.
  destruct (lzma_compress_file 20 (WriteToHeader None) rt_data rt_frag vec_sink rt_data_bytes eq_refl eq_refl eq_refl)
    as (w1 & file & E & B & Hb & _ & Hl).
  assert (Ef : file = rt_file_marker) by (apply (rt_identify _ _ _ _ E B); vm_compute; reflexivity).
  subst file. split; assumption.
Qed.
Print Assumptions ex_stream_marker.
Print Assumptions ex_stream_sized.
Print Assumptions ex_round_trip_override.
