(* C05, layer L4: the data phase of the streaming decoder (stream_write / stream_finish in state
   SData) under the driver, against the one-shot loop. *)
From LZ Require Import Base.Prelude Base.Prog Model.Io Model.Tables Model.LzBuffer Model.RangeDec Model.Lzma Model.Stream.
From LZ Require Import Proofs.ProgLemmas Proofs.IoLemmas.
From LZ Require Import Proofs.StreamSimAbs Proofs.StreamSimSym Proofs.StreamSimBody Proofs.StreamSimMark Proofs.StreamSimCall Proofs.StreamSimLoop.
From Coq Require Import ZifyBool ZifyNat ZifyN.
Local Open Scope prog_scope.

(* ====================================================================== *)
(* The driver                                                               *)
(* ====================================================================== *)
Inductive feed_res :=
| FedAll (s : stream)                         (* the piece has been consumed *)
| Stopped (s : stream)                        (* a write returned Ok(0) on non-empty data *)
| FeedFailed (e : err) (s : stream)           (* a write returned an error *)
| FeedPanicked (p : panic_site) (s : stream)
| FeedStuck (s : stream).                     (* driver fuel exhausted (never happens) *)

(* feed one piece by repeated write calls *)
Fixpoint feed (fuel : nat) (s : stream) (data : list N) : feed_res :=
  match data with
  | [] => FedAll s
  | _ =>
    match fuel with
    | O => FeedStuck s
    | S f =>
      match stream_write s data with
      | (Done n, s') => if n =? 0 then Stopped s' else feed f s' (nskipn n data)
      | (Failed e, s') => FeedFailed e s'
      | (Panicked p, s') => FeedPanicked p s'
      end
    end
  end.

(* feed the pieces in order; stop feeding at Ok(0) or at the first error; then finish *)
Fixpoint drive (s : stream) (pieces : list (list N)) : outcome unit * snk :=
  match pieces with
  | [] => stream_finish s
  | p :: ps =>
    match feed (length p) s p with
    | FedAll s' => drive s' ps
    | Stopped s' => stream_finish s'
    | FeedFailed _ s' => stream_finish s'
    | FeedPanicked q s' => (Panicked q, stream_sink s')
    | FeedStuck s' => (Panicked (PFuel 0), stream_sink s')
    end
  end.

(* ====================================================================== *)
(* Abstract wrappers                                                        *)
(* ====================================================================== *)
Lemma iter_break_mono {S R} (body : S -> Prog.step S R) m : forall s r m',
  iter_step m body s = Break r -> (m <= m')%nat -> iter_step m' body s = Break r.
Proof.
  induction m as [|m IH]; intros s r m' H Hm; cbn [iter_step] in H; [discriminate|].
  destruct m' as [|m']; [lia|]. cbn [iter_step]. destruct (body s) as [s'|r']; [apply IH; [exact H|lia]|exact H].
Qed.

Definition res_ast (x : Prog.step ast (outcome unit * ast)) : ast := match x with Next a => a | Break (_, a) => a end.

Lemma suffix_skipn n (l : list N) : suffix_of (nskipn n l) l.
Proof. exists (nfirstn n l). symmetry. apply nfirstn_nskipn. Qed.

Lemma arpib_suffix a : suffix_of (x_in (snd (arpib a))) (x_in a).
Proof. unfold arpib. cbv zeta. destruct (_ <? _); cbn [snd x_in]; [apply suffix_refl|apply suffix_skipn]. Qed.

Lemma abody_suffix mode a : suffix_of (x_in (res_ast (abody mode a))) (x_in a).
Proof.
  unfold abody. destruct (ahead mode a); [apply suffix_refl|].
  destruct (0 <? nlen (ds_pib (x_ds a))).
  - unfold apib. pose proof (arpib_suffix a) as H. destruct (arpib a) as [[u|e|q] a2]; cbn [snd res_ast] in *; try exact H.
    cbv zeta. destruct (match mode with Partial => _ | FinishMode => _ end) as [[|]|e|q]; cbn [res_ast]; try exact H.
    destruct (arun true _) as [[[|]|e|q] t]; cbn [res_ast x_in]; exact H.
  - unfold adirect. destruct (match mode with Partial => _ | FinishMode => _ end) as [[|]|e|q]; cbn [res_ast]; try apply suffix_refl.
    + pose proof (arpib_suffix a) as H. destruct (arpib a) as [r a2]. exact H.
    + pose proof (arun_suffix true a) as H. destruct (arun true a) as [[[|]|e|q] t]; exact H.
Qed.

Lemma iter_suffix mode m : forall a, suffix_of (x_in (res_ast (iter_step m (abody mode) a))) (x_in a).
Proof.
  induction m as [|m IH]; intros a; cbn [iter_step res_ast]; [apply suffix_refl|].
  pose proof (abody_suffix mode a) as H. destruct (abody mode a) as [a'|[r a']]; cbn [res_ast] in *; [|exact H].
  eapply suffix_trans; [apply IH|exact H].
Qed.

Lemma aprocess_partial F m a res a' : iter_step m (abody Partial) a = Break (res, a') -> (m <= Pos.to_nat F)%nat ->
  aprocess Partial F a = (match res with Done _ => Done tt | r => r end, a').
Proof.
  intros H Hm. unfold aprocess. rewrite loopN_iter, (iter_break_mono _ _ _ _ _ H Hm).
  destruct res as [u|e|q]; [|reflexivity|reflexivity]. destruct (ds_unpacked (x_ds a')); reflexivity.
Qed.

(* the states between two write calls *)
Definition St (n : nat) (a : ast) (u : list N) (R : outcome unit * ast) : Prop := InSync n a u R \/ AfterMark a u R.

Lemma InSync_with_in n a i u R : InSync n a u R -> InSync n (with_in a i) u R.
Proof. intros (A & n' & H). exists A, n'. exact H. Qed.

Lemma InSync_intro n a u R A n' : (n' <= n)%nat -> core_eq a A -> AInv A -> dict_ok (x_win A) -> oeval n' A R ->
  nlen (pibof a) <= 20 -> (size_hit a = true \/ (x_in A = pibof a ++ u /\ nlen (pibof a) < 20)) -> InSync n a u R.
Proof. intros. exists A, n'. tauto. Qed.

Lemma InSync_size n a u u' R : InSync n a u R -> size_hit a = true -> InSync n a u' R.
Proof.
  intros (A & n' & Hn & Hc & HI & HD & Hev & Hp & _) Hsz. apply (InSync_intro n a u' R A n'); try assumption. left. exact Hsz.
Qed.

Lemma AfterMark_with_in a i u R : AfterMark a u R -> AfterMark (with_in a i) u R.
Proof.
  intros (PM & H). split; [|exact H]. destruct PM as [P1 P2 P3 P4 P5 P6]. constructor; assumption.
Qed.

(* one write call on [data], abstractly *)
Inductive call_post (n : nat) (data fut : list N) (R : outcome unit * ast) : outcome unit -> ast -> Prop :=
| cp_all a' : x_in a' = [] -> St n a' fut R -> call_post n data fut R (Done tt) a'
| cp_size a' : size_hit a' = true -> InSync n a' [] R -> call_post n data fut R (Done tt) a'
| cp_mark a' : nlen (x_in a') < nlen data -> AfterMark a' (x_in a' ++ fut) R -> call_post n data fut R (Done tt) a'
| cp_fail e a' : is_failed (fst R) -> call_post n data fut R (Failed e) a'.

Theorem call_state F n a data fut R : x_in a = data -> St n a (data ++ fut) R -> (n <= Pos.to_nat F)%nat ->
  exists res a', aprocess Partial F a = (res, a') /\ suffix_of (x_in a') data /\ call_post n data fut R res a'.
Proof.
  intros Ei [HS|HM] HF.
  - destruct HS as (A & n' & Hn & Hc & HI & HD & Hev & Hp & Alt).
    destruct Alt as [Hsz|[HiA Hp20]].
    + exists (Done tt), a. split.
      * apply (aprocess_partial F 1 a (Done tt) a); [cbn [iter_step]; rewrite (size_hit_call Partial a Hsz); reflexivity|lia].
      * split; [rewrite Ei; apply suffix_refl|]. apply cp_size; [exact Hsz|].
        apply (InSync_intro n a [] R A n'); try assumption. left. exact Hsz.
    + rewrite <- Ei in HiA.
      assert (Hpr : progress (nlen data) a) by (right; right; right; split; [exact Hp20|rewrite Ei; lia]).
      destruct (partial_call (nlen data) fut R n' A Hev a Hc HiA HI HD Hp Hpr) as (m & res & a' & Hm & Hit & Post).
      pose proof (iter_suffix Partial m a) as Hsuf. rewrite Hit in Hsuf. cbn [res_ast] in Hsuf. rewrite Ei in Hsuf.
      destruct Post as [(E1 & E2 & E3 & E4)|[(E1 & E2 & E3)|[(E1 & E2 & E3)|(E1 & E2)]]].
      * subst res. exists (Done tt), a'. split; [apply (aprocess_partial F m a (Done tt) a' Hit); lia|].
        split; [exact Hsuf|]. apply cp_all; [exact E2|]. left. rewrite E2 in E4. cbn [app] in E4.
        eapply InSync_mono; [exact E4|lia].
      * subst res. exists (Done tt), a'. split; [apply (aprocess_partial F m a (Done tt) a' Hit); lia|].
        split; [exact Hsuf|]. apply cp_size; [exact E2|]. eapply InSync_size; [eapply InSync_mono; [exact E3|lia]|exact E2].
      * subst res. exists (Done tt), a'. split; [apply (aprocess_partial F m a (Done tt) a' Hit); lia|].
        split; [exact Hsuf|]. destruct E2 as [E2|E2].
        -- apply cp_all; [exact E2|]. right. rewrite E2 in E3. exact E3.
        -- apply cp_mark; assumption.
      * destruct res as [u|e|q]; try contradiction. exists (Failed e), a'.
        split; [apply (aprocess_partial F m a (Failed e) a' Hit); lia|]. split; [exact Hsuf|]. apply cp_fail. exact E2.
  - rewrite <- Ei in HM. destruct (after_mark_call a fut R HM) as (res & a' & EB & Post).
    pose proof (abody_suffix Partial a) as Hsuf. rewrite EB in Hsuf. cbn [res_ast] in Hsuf. rewrite Ei in Hsuf.
    assert (Hit : iter_step 1 (abody Partial) a = Break (res, a')) by (cbn [iter_step]; rewrite EB; reflexivity).
    destruct Post as [(E1 & E2 & E3)|(E1 & E2)].
    + subst res. exists (Done tt), a'. split; [apply (aprocess_partial F 1 a (Done tt) a' Hit); lia|].
      split; [exact Hsuf|]. apply cp_all; [exact E2|]. right. rewrite E2 in E3. exact E3.
    + destruct res as [u|e|q]; try contradiction. exists (Failed e), a'.
      split; [apply (aprocess_partial F 1 a (Failed e) a' Hit); lia|]. split; [exact Hsuf|]. apply cp_fail. exact E2.
Qed.
Print Assumptions call_state.

(* the call on the bytes left over from the header: nothing staged yet, so it never stops in the middle *)
Theorem call_state_fresh F n a tmp fut R : x_in a = tmp -> pibof a = [] -> InSync n a (tmp ++ fut) R -> (n <= Pos.to_nat F)%nat ->
  exists res a', aprocess Partial F a = (res, a') /\
    ((res = Done tt /\ x_in a' = [] /\ St n a' fut R) \/ (res = Done tt /\ size_hit a' = true /\ InSync n a' [] R) \/
     (is_failed res /\ is_failed (fst R))).
Proof.
  intros Ei Epb (A & n' & Hn & Hc & HI & HD & Hev & Hp & Alt) HF.
  destruct Alt as [Hsz|[HiA Hp20]].
  - exists (Done tt), a. split.
    + apply (aprocess_partial F 1 a (Done tt) a); [cbn [iter_step]; rewrite (size_hit_call Partial a Hsz); reflexivity|lia].
    + right; left. split; [reflexivity|]. split; [exact Hsz|].
      apply (InSync_intro n a [] R A n'); try assumption. left. exact Hsz.
  - rewrite <- Ei in HiA.
    assert (Hpr : progress 0 a) by (left; exact Epb).
    destruct (partial_call 0 fut R n' A Hev a Hc HiA HI HD Hp Hpr) as (m & res & a' & Hm & Hit & Post).
    destruct Post as [(E1 & E2 & E3 & E4)|[(E1 & E2 & E3)|[(E1 & E2 & E3)|(E1 & E2)]]].
    + subst res. exists (Done tt), a'. split; [apply (aprocess_partial F m a (Done tt) a' Hit); lia|].
      left. split; [reflexivity|]. split; [exact E2|]. left. rewrite E2 in E4. cbn [app] in E4. eapply InSync_mono; [exact E4|lia].
    + subst res. exists (Done tt), a'. split; [apply (aprocess_partial F m a (Done tt) a' Hit); lia|].
      right; left. split; [reflexivity|]. split; [exact E2|]. eapply InSync_size; [eapply InSync_mono; [exact E3|lia]|exact E2].
    + subst res. exists (Done tt), a'. split; [apply (aprocess_partial F m a (Done tt) a' Hit); lia|].
      destruct E2 as [E2|E2]; [|lia]. left. split; [reflexivity|]. split; [exact E2|]. right. rewrite E2 in E3. exact E3.
    + destruct res as [u|e|q]; try contradiction. exists (Failed e), a'.
      split; [apply (aprocess_partial F m a (Failed e) a' Hit); lia|]. right; right. split; [exact I|exact E2].
Qed.

(* ====================================================================== *)
(* The window stays a circular buffer                                       *)
(* ====================================================================== *)
Lemma abody_circ mode a : is_circ (x_win a) -> is_circ (x_win (res_ast (abody mode a))).
Proof.
  intros H. unfold abody. destruct (ahead mode a); [exact H|].
  destruct (0 <? nlen (ds_pib (x_ds a))).
  - unfold apib, arpib. cbv zeta. destruct (_ <? _); [exact H|].
    destruct (match mode with Partial => _ | FinishMode => _ end) as [[|]|e|q]; cbn [res_ast x_win]; try exact H.
    pose proof (arun_circ true (with_in (mkAst (set_pib (x_ds a) (ds_pib (x_ds a) ++ nfirstn (20 - nlen (ds_pib (x_ds a))) (x_in a)))
                   (x_rc a) (x_win a) (nskipn (20 - nlen (ds_pib (x_ds a))) (x_in a)))
                 (ds_pib (x_ds a) ++ nfirstn (20 - nlen (ds_pib (x_ds a))) (x_in a))) H) as G.
    cbn [x_ds set_pib ds_pib] in *.
    destruct (arun true _) as [[[|]|e|q] t]; cbn [res_ast x_win snd] in *; exact G.
  - unfold adirect. destruct (match mode with Partial => _ | FinishMode => _ end) as [[|]|e|q]; cbn [res_ast]; try exact H.
    + unfold arpib. cbv zeta. destruct (_ <? _); exact H.
    + pose proof (arun_circ true a H) as G. destruct (arun true a) as [[[|]|e|q] t]; exact G.
Qed.

Lemma iter_circ mode m : forall a, is_circ (x_win a) -> is_circ (x_win (res_ast (iter_step m (abody mode) a))).
Proof.
  induction m as [|m IH]; intros a H; cbn [iter_step res_ast]; [exact H|].
  pose proof (abody_circ mode a H) as G. destruct (abody mode a) as [a'|[r a']]; cbn [res_ast] in *; [apply IH; exact G|exact G].
Qed.

Lemma aprocess_circ mode F a : is_circ (x_win a) -> is_circ (x_win (snd (aprocess mode F a))).
Proof.
  intros H. unfold aprocess. rewrite loopN_iter. pose proof (iter_circ mode (Pos.to_nat F) a H) as G.
  destruct (iter_step (Pos.to_nat F) (abody mode) a) as [a'|[[u|e|q] a']]; cbn [res_ast snd] in *; try exact G.
  destruct (ds_unpacked (x_ds a')); [|exact G]. destruct mode; [exact G|]. destruct (_ =? _); exact G.
Qed.

(* ====================================================================== *)
(* The concrete calls                                                       *)
(* ====================================================================== *)
Definition ast_of_run (r : run_state) (i : list N) : ast := mkAst (rs_dec r) (rs_rc r) (WCirc (rs_out r)) i.

Lemma lw_abs_run r data : nlen data <= BIG ->
  lw_abs (nlen data) (mkLw (rs_dec r) (rs_rc r) (cursor_of data) (WCirc (rs_out r))) (ast_of_run r data).
Proof.
  intros H. unfold lw_abs, ast_of_run. cbn [l_ds l_rc l_win l_src x_ds x_rc x_win x_in].
  split; [reflexivity|]. split; [reflexivity|]. split; [reflexivity|]. split; [apply cursor_FullVis; exact H|]. split; reflexivity.
Qed.

Lemma read_data_abs r data res a' : nlen data <= BIG ->
  aprocess Partial big_fuel (ast_of_run r data) = (res, a') ->
  fst (stream_read_data r (cursor_of data)) = res /\
  forall c', x_win a' = WCirc c' ->
    exists s', stream_read_data r (cursor_of data) = (res, (mkRun (x_ds a') (x_rc a') c', s')) /\
               s_pos s' + nlen (x_in a') = nlen data.
Proof.
  intros Hl E. unfold stream_read_data.
  destruct (process_mode_abs Partial big_fuel _ _ _ (lw_abs_run r data Hl)) as [F R]. rewrite E in F, R. cbn [fst snd] in F, R.
  destruct (process_mode Partial big_fuel _) as [res0 x]. cbn [fst snd] in *. subst res0.
  split; [reflexivity|]. intros c' Ew. destruct R as (Hd & Hr & Hw & Hs & Hi & Hp).
  rewrite Hw, Ew, Hd, Hr. eexists. split; [reflexivity|exact Hp].
Qed.

Lemma St_circ n a u R : St n a u R -> is_circ (x_win a).
Proof.
  intros [(A & n' & _ & (Hd & Hr & Hw) & HI & _)|(PM & _)].
  - rewrite <- Hw. apply HI.
  - destruct PM as [_ _ _ _ P5 _]. apply P5.
Qed.

(* states of the stream between calls (data phase, nothing left in tmp) *)
Definition DS (o : options) (n : nat) (s : stream) (u : list N) (R : outcome unit * ast) : Prop :=
  exists r, st_state s = Some (SData r) /\ st_tmp s = [] /\ st_opts s = o /\ St n (ast_of_run r []) u R.
Definition DSz (o : options) (n : nat) (s : stream) (R : outcome unit * ast) : Prop :=
  exists r, st_state s = Some (SData r) /\ st_tmp s = [] /\ st_opts s = o /\ size_hit (ast_of_run r []) = true /\ InSync n (ast_of_run r []) [] R.

Lemma DSz_DS o n s u R : DSz o n s R -> DS o n s u R.
Proof. intros (r & H1 & H2 & Ho & H3 & H4). exists r. split; [exact H1|]. split; [exact H2|]. split; [exact Ho|]. left. eapply InSync_size; eassumption. Qed.

Lemma St_with_in n a i u R : St n a u R -> St n (with_in a i) u R.
Proof. intros [H|H]; [left; apply InSync_with_in; exact H|right; apply AfterMark_with_in; exact H]. Qed.

Theorem write_ds o n s data fut R : DS o n s (data ++ fut) R -> (n <= Pos.to_nat big_fuel)%nat -> nlen data <= BIG ->
  match stream_write s data with
  | (Done k, s') => (k = nlen data /\ DS o n s' fut R) \/ (k <= nlen data /\ DSz o n s' R) \/
                    (0 < k <= nlen data /\ DS o n s' (nskipn k data ++ fut) R)
  | (Failed e, s') => st_state s' = None /\ is_failed (fst R)
  | (Panicked _, _) => False
  end.
Proof.
  intros (r & Hs & Ht & Ho & HSt) Hn Hl.
  destruct (call_state big_fuel n (ast_of_run r data) data fut R eq_refl (St_with_in n _ data _ _ HSt) Hn)
    as (res & a' & EP & Hsuf & CP).
  unfold stream_write. rewrite Hs, Ht. cbn [nlen length N.of_nat]. change (0 <? 0) with false. cbv iota.
  assert (Hlen : nlen (x_in a') <= nlen data) by (apply suffix_nlen; exact Hsuf).
  inversion CP as [a1 Ei HS1 E1 E2|a1 Hsz HS1 E1 E2|a1 Hlt HM E1 E2|e a1 HRf E1 E2]; subst;
    destruct (read_data_abs r data _ a' Hl EP) as [RF RD].
  - pose proof (St_circ _ _ _ _ HS1) as HC. destruct (x_win a') as [c'|] eqn:Ew; [|contradiction].
    destruct (RD c' eq_refl) as (s' & ER & Hp). rewrite ER. cbv beta iota. cbn [rs_out].
    left. split; [rewrite Ei in Hp; cbn in Hp; lia|].
    eexists. split; [reflexivity|]. split; [reflexivity|]. split; [reflexivity|].
    replace (ast_of_run (mkRun (x_ds a') (x_rc a') c') []) with (with_in a' []) by (unfold ast_of_run, with_in; cbn; rewrite Ew; reflexivity).
    apply St_with_in. exact HS1.
  - pose proof (St_circ _ _ _ _ (or_introl HS1)) as HC. destruct (x_win a') as [c'|] eqn:Ew; [|contradiction].
    destruct (RD c' eq_refl) as (s' & ER & Hp). rewrite ER. cbv beta iota. cbn [rs_out].
    right; left. split; [lia|].
    eexists. split; [reflexivity|]. split; [reflexivity|]. split; [reflexivity|].
    replace (ast_of_run (mkRun (x_ds a') (x_rc a') c') []) with (with_in a' []) by (unfold ast_of_run, with_in; cbn; rewrite Ew; reflexivity).
    split; [exact Hsz|]. apply InSync_with_in. exact HS1.
  - pose proof (St_circ n _ _ _ (or_intror HM)) as HC. destruct (x_win a') as [c'|] eqn:Ew; [|contradiction].
    destruct (RD c' eq_refl) as (s' & ER & Hp). rewrite ER. cbv beta iota. cbn [rs_out].
    right; right. split; [lia|].
    eexists. split; [reflexivity|]. split; [reflexivity|]. split; [reflexivity|].
    replace (ast_of_run (mkRun (x_ds a') (x_rc a') c') []) with (with_in a' []) by (unfold ast_of_run, with_in; cbn; rewrite Ew; reflexivity).
    right. apply AfterMark_with_in.
    replace (s_pos s') with (nlen data - nlen (x_in a')) by lia. rewrite (nskipn_suffix data (x_in a') Hsuf). exact HM.
  - destruct (stream_read_data r (cursor_of data)) as [res0 [r2 is]]. cbn [fst] in RF. subst res0.
    split; [reflexivity|exact HRf].
Qed.
Print Assumptions write_ds.

Lemma nskipn_length_lt {A} k (l : list A) : 0 < k -> l <> [] -> (length (nskipn k l) < length l)%nat.
Proof.
  intros Hk Hl. unfold nskipn. rewrite skipn_length. destruct l; [contradiction|]. cbn [length]. lia.
Qed.

Lemma feed_step f s data : data <> [] ->
  feed (S f) s data = match stream_write s data with
                      | (Done n, s') => if n =? 0 then Stopped s' else feed f s' (nskipn n data)
                      | (Failed e, s') => FeedFailed e s'
                      | (Panicked p, s') => FeedPanicked p s'
                      end.
Proof. destruct data; [contradiction|reflexivity]. Qed.

Theorem feed_ds o n R : (n <= Pos.to_nat big_fuel)%nat -> forall fuel data s fut,
  (length data <= fuel)%nat -> DS o n s (data ++ fut) R -> nlen data <= BIG ->
  match feed fuel s data with
  | FedAll s' => DS o n s' fut R
  | Stopped s' => DSz o n s' R
  | FeedFailed e s' => st_state s' = None /\ is_failed (fst R)
  | _ => False
  end.
Proof.
  intros Hn. induction fuel as [|f IH]; intros data s fut Hf HD Hl.
  - destruct data; [exact HD|cbn in Hf; lia].
  - destruct (list_eq_dec N.eq_dec data []) as [->|Hne]; [exact HD|].
    rewrite (feed_step f s data Hne).
    pose proof (write_ds o n s data fut R HD Hn Hl) as W.
    destruct (stream_write s data) as [[k|e|q] s']; [| exact W | exact W].
    destruct (N.eqb_spec k 0) as [Ek|Ek].
    + destruct W as [[E1 _]|[[_ Z]|[[E1 _] _]]]; [|exact Z|lia].
      exfalso. destruct data; [contradiction|]. rewrite nlen_cons in E1. lia.
    + assert (Hlen : (length (nskipn k data) <= f)%nat) by (pose proof (nskipn_length_lt k data ltac:(lia) Hne); lia).
      assert (Hl' : nlen (nskipn k data) <= BIG) by (rewrite nlen_nskipn; lia).
      destruct W as [[E1 D1]|[[E1 Z]|[E1 D1]]].
      * subst k. rewrite nskipn_all. destruct f; exact D1.
      * apply IH; [exact Hlen| |exact Hl']. apply DSz_DS. exact Z.
      * apply IH; [exact Hlen|exact D1|exact Hl'].
Qed.
Print Assumptions feed_ds.

(* ====================================================================== *)
(* Right after the header: bytes may be left over in tmp                    *)
(* ====================================================================== *)
Definition DS0 (o : options) (n : nat) (s : stream) (u : list N) (R : outcome unit * ast) : Prop :=
  exists r, st_state s = Some (SData r) /\ st_opts s = o /\ ds_pib (rs_dec r) = [] /\ nlen (st_tmp s) <= BIG /\
            InSync n (ast_of_run r []) (st_tmp s ++ u) R.

Lemma DS0_DS o n s u R : DS0 o n s u R -> st_tmp s = [] -> DS o n s u R.
Proof.
  intros (r & H1 & Ho & Hp & Hl & HS) Ht. exists r. rewrite Ht in HS. cbn [app] in HS.
  split; [exact H1|]. split; [exact Ht|]. split; [exact Ho|]. left. exact HS.
Qed.

Theorem write_ds0 o n s data fut R : DS0 o n s (data ++ fut) R -> (n <= Pos.to_nat big_fuel)%nat -> nlen data <= BIG ->
  match stream_write s data with
  | (Done k, s') => (k = nlen data /\ DS o n s' fut R) \/ (k <= nlen data /\ DSz o n s' R) \/
                    (0 < k <= nlen data /\ DS o n s' (nskipn k data ++ fut) R)
  | (Failed e, s') => st_state s' = None /\ is_failed (fst R)
  | (Panicked _, _) => False
  end.
Proof.
  intros HD0 Hn Hl.
  destruct (list_eq_dec N.eq_dec (st_tmp s) []) as [Et|Et].
  { apply write_ds; try assumption. apply DS0_DS; assumption. }
  destruct HD0 as (r & Hs & Ho & Hp & Hlt & HS).
  destruct (call_state_fresh big_fuel n (ast_of_run r (st_tmp s)) (st_tmp s) (data ++ fut) R eq_refl Hp
              (InSync_with_in n _ (st_tmp s) _ _ HS) Hn) as (res & a' & EP & Post).
  destruct (read_data_abs r (st_tmp s) res a' Hlt EP) as [RF RD].
  assert (Hpos : (0 <? nlen (st_tmp s)) = true).
  { apply N.ltb_lt. destruct (st_tmp s); [contradiction|rewrite nlen_cons; lia]. }
  (* the rest of the call is a call on a stream with empty tmp *)
  assert (Hrest : forall r1, fst (stream_read_data r (cursor_of (st_tmp s))) = Done tt ->
            fst (snd (stream_read_data r (cursor_of (st_tmp s)))) = r1 ->
            stream_write s data = stream_write (mkStream [] (Some (SData r1)) (st_opts s) (st_ghost s)) data).
  { clear RF RD. intros r1 F1 F2. unfold stream_write. rewrite Hs, Hpos. cbn [st_state st_tmp nlen length N.of_nat]. change (0 <? 0) with false. cbv iota.
    destruct (stream_read_data r (cursor_of (st_tmp s))) as [res0 [r0 s0]]. cbn [fst snd] in *. subst res0 r0.
    cbv beta iota. unfold dead. cbn [st_opts st_tmp st_state]. reflexivity. }
  destruct Post as [(E1 & E2 & E3)|[(E1 & E2 & E3)|(E1 & E2)]].
  - subst res. pose proof (St_circ _ _ _ _ E3) as HC. destruct (x_win a') as [c'|] eqn:Ew; [|contradiction].
    destruct (RD c' eq_refl) as (s' & ER & _).
    rewrite (Hrest (mkRun (x_ds a') (x_rc a') c')) by (rewrite ER; reflexivity).
    apply write_ds; try assumption.
    eexists. split; [reflexivity|]. split; [reflexivity|]. split; [exact Ho|].
    replace (ast_of_run (mkRun (x_ds a') (x_rc a') c') []) with (with_in a' []) by (unfold ast_of_run, with_in; cbn; rewrite Ew; reflexivity).
    apply St_with_in. exact E3.
  - subst res. pose proof (St_circ n _ _ _ (or_introl E3)) as HC. destruct (x_win a') as [c'|] eqn:Ew; [|contradiction].
    destruct (RD c' eq_refl) as (s' & ER & _).
    rewrite (Hrest (mkRun (x_ds a') (x_rc a') c')) by (rewrite ER; reflexivity).
    apply write_ds; try assumption.
    eexists. split; [reflexivity|]. split; [reflexivity|]. split; [exact Ho|].
    replace (ast_of_run (mkRun (x_ds a') (x_rc a') c') []) with (with_in a' []) by (unfold ast_of_run, with_in; cbn; rewrite Ew; reflexivity).
    left. apply InSync_with_in. eapply InSync_size; eassumption.
  - destruct res as [u|e|q]; try contradiction.
    unfold stream_write. rewrite Hs, Hpos.
    destruct (stream_read_data r (cursor_of (st_tmp s))) as [res0 [r0 s0]]. cbn [fst] in RF. subst res0.
    split; [reflexivity|exact E2].
Qed.
Print Assumptions write_ds0.

Definition DSg (o : options) (n : nat) (s : stream) (u : list N) (R : outcome unit * ast) : Prop :=
  DS o n s u R \/ DS0 o n s u R.

Theorem feed_dsg o n R : (n <= Pos.to_nat big_fuel)%nat -> forall data s fut,
  DSg o n s (data ++ fut) R -> nlen data <= BIG ->
  match feed (length data) s data with
  | FedAll s' => DSg o n s' fut R
  | Stopped s' => DSz o n s' R
  | FeedFailed e s' => st_state s' = None /\ is_failed (fst R)
  | _ => False
  end.
Proof.
  intros Hn data s fut HD Hl.
  destruct (list_eq_dec N.eq_dec data []) as [->|Hne]; [exact HD|].
  destruct (length data) as [|f] eqn:El; [destruct data; [contradiction|discriminate]|].
  rewrite (feed_step f s data Hne).
  assert (W : match stream_write s data with
              | (Done k, s') => (k = nlen data /\ DS o n s' fut R) \/ (k <= nlen data /\ DSz o n s' R) \/
                                (0 < k <= nlen data /\ DS o n s' (nskipn k data ++ fut) R)
              | (Failed e, s') => st_state s' = None /\ is_failed (fst R)
              | (Panicked _, _) => False
              end).
  { destruct HD as [HD|HD]; [apply write_ds|apply write_ds0]; assumption. }
  destruct (stream_write s data) as [[k|e|q] s']; [| exact W | exact W].
  destruct (N.eqb_spec k 0) as [Ek|Ek].
  - destruct W as [[E1 _]|[[_ Z]|[[E1 _] _]]]; [|exact Z|lia].
    exfalso. destruct data; [contradiction|]. rewrite nlen_cons in E1. lia.
  - assert (Hlen : (length (nskipn k data) <= f)%nat) by (pose proof (nskipn_length_lt k data ltac:(lia) Hne); lia).
    assert (Hl' : nlen (nskipn k data) <= BIG) by (rewrite nlen_nskipn; lia).
    pose proof (feed_ds o n R Hn f (nskipn k data) s' fut Hlen) as FD.
    destruct W as [[E1 D1]|[[E1 Z]|[E1 D1]]].
    + subst k. rewrite nskipn_all. destruct f; left; exact D1.
    + specialize (FD (DSz_DS o n s' _ R Z) Hl'). destruct (feed f s' (nskipn k data)); try exact FD. left. exact FD.
    + specialize (FD D1 Hl'). destruct (feed f s' (nskipn k data)); try exact FD. left. exact FD.
Qed.

(* ====================================================================== *)
(* finish                                                                   *)
(* ====================================================================== *)
Lemma finish_abs s r res a'' c : st_state s = Some (SData r) -> o_allow_incomplete (st_opts s) = false ->
  nlen (st_tmp s) <= BIG ->
  aprocess FinishMode big_fuel (ast_of_run r (st_tmp s)) = (res, a'') -> x_win a'' = WCirc c ->
  stream_finish s = match res with
                    | Done _ => circ_finish c
                    | Failed e => (Failed e, c_snk c)
                    | Panicked p => (Panicked p, c_snk c)
                    end.
Proof.
  intros Hs Ho Hl E Ew. unfold stream_finish. rewrite Hs, Ho. cbn [negb].
  destruct (process_mode_abs FinishMode big_fuel _ _ _ (lw_abs_run r (st_tmp s) Hl)) as [F R]. rewrite E in F, R. cbn [fst snd] in F, R.
  destruct (process_mode FinishMode big_fuel _) as [res0 x]. cbn [fst snd] in *. subst res0.
  destruct R as (_ & _ & Hw & _). rewrite Hw, Ew. destruct res; reflexivity.
Qed.

(* what the driver's result has to do with the one-shot loop result R *)
Definition FinalRel (x : outcome unit * snk) (R : outcome unit * ast) : Prop :=
  match fst (afinal R) with
  | Done _ => exists c, x_win (snd (afinal R)) = WCirc c /\ x = circ_finish c
  | Failed _ => is_failed (fst x)
  | Panicked _ => True
  end.

Theorem finish_ds o n s R : (n <= Pos.to_nat big_fuel)%nat -> o_allow_incomplete o = false ->
  DSg o n s [] R \/ DSz o n s R -> FinalRel (stream_finish s) R.
Proof.
  intros Hn Hai Hst.
  assert (HX : exists r, st_state s = Some (SData r) /\ st_opts s = o /\ nlen (st_tmp s) <= BIG /\
             (same_verdict (fst (aprocess FinishMode big_fuel (ast_of_run r (st_tmp s)))) (fst (afinal R)) \/
              exists q, fst (afinal R) = Panicked q) /\
             (fst (afinal R) = Done tt -> core_eq (snd (aprocess FinishMode big_fuel (ast_of_run r (st_tmp s)))) (snd (afinal R)))).
  { assert (SV : forall r1 r2, r1 = r2 -> same_verdict r1 r2 \/ exists q, r2 = Panicked q).
    { intros r1 r2 ->. destruct r2 as [u|e|q]; [left; exact I|left; exact I|right; eauto]. }
    destruct Hst as [[(r & Hs & Ht & Ho & [HS|HM])|(r & Hs & Ho & Hp & Hl & HS)]|(r & Hs & Ht & Ho & Hsz & HS)].
    - exists r. rewrite Ht. split; [exact Hs|]. split; [exact Ho|]. split; [cbn; unfold BIG; lia|].
      destruct (finish_insync big_fuel n (ast_of_run r []) R HS (or_introl eq_refl) Hn) as [E1 E2].
      split; [apply SV; exact E1|exact E2].
    - exists r. rewrite Ht. split; [exact Hs|]. split; [exact Ho|]. split; [cbn; unfold BIG; lia|].
      destruct (finish_aftermark big_fuel (ast_of_run r []) R HM eq_refl) as [E1 E2].
      split; [left; exact E1|exact E2].
    - exists r. split; [exact Hs|]. split; [exact Ho|]. split; [exact Hl|].
      rewrite app_nil_r in HS.
      destruct (finish_insync big_fuel n (ast_of_run r (st_tmp s)) R (InSync_with_in n _ (st_tmp s) _ _ HS) (or_intror Hp) Hn) as [E1 E2].
      split; [apply SV; exact E1|exact E2].
    - exists r. rewrite Ht. split; [exact Hs|]. split; [exact Ho|]. split; [cbn; unfold BIG; lia|].
      destruct (finish_insync big_fuel n (ast_of_run r []) R HS (or_introl eq_refl) Hn) as [E1 E2].
      split; [apply SV; exact E1|exact E2]. }
  destruct HX as (r & Hs & Ho & Hl & SV & CE).
  pose proof (aprocess_circ FinishMode big_fuel (ast_of_run r (st_tmp s)) I) as HC.
  destruct (aprocess FinishMode big_fuel (ast_of_run r (st_tmp s))) as [res a''] eqn:EP. cbn [fst snd] in *.
  destruct (x_win a'') as [c|] eqn:Ew; [|contradiction].
  rewrite (finish_abs s r res a'' c Hs ltac:(rewrite Ho; exact Hai) Hl EP Ew).
  unfold FinalRel. destruct (fst (afinal R)) as [u|e|q] eqn:EF.
  - destruct u. destruct SV as [SV|[q Hq]]; [|discriminate]. destruct res as [u'|e'|q']; try contradiction.
    exists c. split; [|reflexivity]. destruct (CE eq_refl) as (_ & _ & Hw). rewrite Hw. exact Ew.
  - destruct SV as [SV|[q Hq]]; [|discriminate]. destruct res as [u'|e'|q']; try contradiction. exact I.
  - exact I.
Qed.
Print Assumptions finish_ds.

From LZ Require Import Proofs.StreamLatch.

Theorem drive_ds o n R : (n <= Pos.to_nat big_fuel)%nat -> o_allow_incomplete o = false ->
  forall pieces s, DSg o n s (concat pieces) R -> nlen (concat pieces) <= BIG -> FinalRel (drive s pieces) R.
Proof.
  intros Hn Hai. induction pieces as [|p ps IH]; intros s HD Hl; cbn [drive concat] in *.
  - apply (finish_ds o n s R Hn Hai). left. exact HD.
  - rewrite nlen_app in Hl.
    pose proof (feed_dsg o n R Hn p s (concat ps) HD ltac:(lia)) as FD.
    destruct (feed (length p) s p) as [s'|s'|e s'|q s'|s']; try contradiction.
    + apply IH; [exact FD|lia].
    + apply (finish_ds o n s' R Hn Hai). right. exact FD.
    + destruct FD as [Hdead HRf]. rewrite (finish_when_dead s' Hdead).
      unfold FinalRel. destruct R as [[u|e'|q] A']; cbn [fst] in HRf; try contradiction. cbn [afinal fst]. exact I.
Qed.
Print Assumptions drive_ds.
