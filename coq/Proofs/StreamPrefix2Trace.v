(* C15, second part, layer 3: write traces.  [wtrace s rem s' rem']: starting in stream state [s] with [rem] the
   part of the complete input not yet consumed, a sequence of stream_write calls - each one offered a
   prefix of what is still unconsumed, of any length (also empty), each returning Ok(m) - leads to state [s'] with [rem'] unconsumed.
   This covers "at any moment": after each single write call, for every way of cutting the input into calls
   (including re-offering unconsumed bytes).  The drivers [feed] (StreamSimData) and [feed_all] produce such traces.
   The invariant [TInv] (header phase: StreamSimFull.HS; data phase: StreamPrefix2Sync.DSgK) holds along every trace. *)
From LZ Require Import Base.Prelude Base.Prog Model.Io Model.Tables Model.LzBuffer Model.RangeDec Model.Lzma Model.Stream.
From LZ Require Import Proofs.ProgLemmas Proofs.IoLemmas Proofs.StreamLatch Proofs.StreamPrefix.
From LZ Require Import Proofs.StreamSimAbs Proofs.StreamSimSym Proofs.StreamSimBody Proofs.StreamSimMark Proofs.StreamSimCall
  Proofs.StreamSimLoop Proofs.StreamSimData Proofs.StreamSimHeader Proofs.StreamSimFull Proofs.StreamPrefix2Sync Proofs.StreamPrefix2Hist.
From Coq Require Import ZifyBool ZifyNat ZifyN.
Local Open Scope prog_scope.

(* ====================================================================== *)
(* Traces and drivers                                                       *)
(* ====================================================================== *)
Inductive wtrace : stream -> list N -> stream -> list N -> Prop :=
| wt_done s rem : wtrace s rem s rem
| wt_write s rem data fut m s1 s' rem' :
    rem = data ++ fut -> stream_write s data = (Done m, s1) ->
    wtrace s1 (nskipn m data ++ fut) s' rem' -> wtrace s rem s' rem'.

Lemma wtrace_trans s rem s1 rem1 s2 rem2 : wtrace s rem s1 rem1 -> wtrace s1 rem1 s2 rem2 -> wtrace s rem s2 rem2.
Proof. induction 1 as [|s rem data fut m sa sb remb E EW H IH]; intros H2; [exact H2|]. eapply wt_write; eauto. Qed.

(* the driver of C05 for one piece is a trace *)
Lemma feed_wtrace fuel : forall s data fut,
  match feed fuel s data with
  | FedAll s' => wtrace s (data ++ fut) s' fut
  | Stopped s' => exists rem', wtrace s (data ++ fut) s' rem'
  | _ => True
  end.
Proof.
  induction fuel as [|f IH]; intros s data fut.
  - destruct data; cbn [feed app]; [constructor|exact I].
  - destruct (list_eq_dec N.eq_dec data []) as [->|Hne]; [cbn [feed app]; constructor|].
    rewrite (feed_step f s data Hne).
    destruct (stream_write s data) as [[m|e|q] s1] eqn:EW; try exact I.
    destruct (m =? 0).
    + exists (nskipn m data ++ fut). eapply wt_write; [reflexivity|exact EW|constructor].
    + specialize (IH s1 (nskipn m data) fut). destruct (feed f s1 (nskipn m data)) as [s'|s'|e s'|q s'|s']; try exact I.
      * eapply wt_write; [reflexivity|exact EW|exact IH].
      * destruct IH as [rem' IH]. exists rem'. eapply wt_write; [reflexivity|exact EW|exact IH].
Qed.

(* feed the pieces in order (the driver [drive] of C05 without the final finish) *)
Fixpoint feed_all (s : stream) (pieces : list (list N)) : feed_res :=
  match pieces with
  | [] => FedAll s
  | p :: ps => match feed (length p) s p with FedAll s' => feed_all s' ps | other => other end
  end.

Lemma feed_all_wtrace pieces : forall s fut,
  match feed_all s pieces with
  | FedAll s' => wtrace s (concat pieces ++ fut) s' fut
  | Stopped s' => exists rem', wtrace s (concat pieces ++ fut) s' rem'
  | _ => True
  end.
Proof.
  induction pieces as [|p ps IH]; intros s fut; cbn [feed_all concat app]; [constructor|].
  pose proof (feed_wtrace (length p) s p (concat ps ++ fut)) as F. rewrite <- app_assoc.
  destruct (feed (length p) s p) as [s1|s1|e s1|q s1|s1]; try exact I; [|exact F].
  specialize (IH s1 fut). destruct (feed_all s1 ps) as [s'|s'|e s'|q s'|s']; try exact I.
  - eapply wtrace_trans; eassumption.
  - destruct IH as [rem' IH]. exists rem'. eapply wtrace_trans; eassumption.
Qed.

(* the failure configuration of the sink is the same along a trace *)
Lemma wtrace_cfg s rem s' rem' : wtrace s rem s' rem' -> same_cfg (stream_sink s) (stream_sink s').
Proof.
  induction 1 as [|s rem data fut m sa sb remb E EW H IH]; [apply same_cfg_refl|].
  eapply same_cfg_trans; [eapply stream_write_cfg; exact EW|exact IH].
Qed.

Lemma wtrace_opts s rem s' rem' : wtrace s rem s' rem' -> st_opts s' = st_opts s.
Proof.
  induction 1 as [|s rem data fut m sa sb remb E EW H IH]; [reflexivity|].
  rewrite IH. eapply StreamInv.stream_write_opts. exact EW.
Qed.

(* a write call with an empty buffer in the header phase changes nothing *)
Lemma ahdr_nil o : ahdr o [] = HShort.
Proof. reflexivity. Qed.

Lemma write_hs_empty o k s tmp : HS o k s tmp -> nlen tmp <= BIG -> exists s', stream_write s [] = (Done 0, s') /\ HS o k s' tmp.
Proof.
  intros (Hs & Ht & Ho & Hshort) Hl. unfold stream_write. rewrite Hs, Ht, Ho.
  destruct (N.ltb_spec 0 (nlen tmp)) as [Hpos|Hzero].
  - destruct Hshort as [->|Hshort]; [cbn in Hpos; lia|].
    change (nlen (@nil N)) with 0. rewrite N.min_0_l. change (nfirstn 0 (@nil N)) with (@nil N). rewrite app_nil_r.
    pose proof (stream_read_header_abs k (cursor_of tmp) o (cursor_FullVis tmp Hl)) as HA.
    change (s_rest (cursor_of tmp)) with tmp in HA. rewrite Hshort in HA.
    destruct (stream_read_header k (cursor_of tmp) o) as [res ts]. cbn [fst] in HA. subst res.
    assert (Etmp : nlen tmp =? 0 = false) by (apply N.eqb_neq; lia). rewrite Etmp.
    eexists. split; [reflexivity|]. unfold HS; cbn [st_state st_tmp st_opts]. repeat split. right. exact Hshort.
  - assert (Etmp : tmp = []) by (apply nlen_zero; lia). clear Ht. subst tmp.
    pose proof (stream_read_header_abs k (cursor_of []) o (cursor_FullVis [] ltac:(cbn; unfold BIG; lia))) as HA.
    change (s_rest (cursor_of [])) with (@nil N) in HA. rewrite ahdr_nil in HA.
    destruct (stream_read_header k (cursor_of []) o) as [res ts]. cbn [fst] in HA. subst res.
    change (nlen (@nil N)) with 0. change (0 =? 0) with true. cbv iota. rewrite N.min_0_l. change (nfirstn 0 (@nil N)) with (@nil N).
    eexists. split; [reflexivity|]. unfold HS; cbn [st_state st_tmp st_opts]. repeat split. left. reflexivity.
Qed.

(* ====================================================================== *)
(* The invariant                                                            *)
(* ====================================================================== *)
Section GoodHeaderK.
  Variables (o : options) (k0 : snk) (bs : list N) (p : params) (r : rc) (rest0 : list N) (d : dstate)
            (R : outcome unit * ast) (n : nat).
  Definition A0_of := mkAst d r (WCirc (circ_new k0 (pr_dict p) (memlim o))) rest0.
  Let A0 := A0_of.
  Hypothesis Hgood : ahdr o bs = HGood p r rest0.
  Hypothesis Hd : dstate_new (pr_props p) (pr_unpacked p) = (Done d, tt).
  Hypothesis Hev : oeval n A0 R.
  Hypothesis Hn : (n <= Pos.to_nat big_fuel)%nat.
  Hypothesis HI : AInv A0.
  Hypothesis HD : dict_ok (x_win A0).
  Hypothesis Hp0 : ds_pib d = [].
  Hypothesis Hl : nlen bs <= BIG.

  Definition TInv (s : stream) (rem : list N) : Prop :=
    nlen rem <= BIG /\ ((exists tmp, HS o k0 s tmp /\ bs = tmp ++ rem) \/ DSgK A0 o n s rem R).

  Lemma trans_ds0_k s' unread : Trans o k0 bs s' unread -> DS0K A0 o n s' unread R.
  Proof.
    intros (p' & r' & d' & HG & Hd' & Hs & Ho & Ht). rewrite Hgood in HG. inversion HG; subst p' r'.
    rewrite Hd in Hd'. inversion Hd'; subst d'.
    eexists. split; [exact Hs|]. split; [exact Ho|]. split; [exact Hp0|]. split; [exact Ht|].
    exists A0, n, 0%nat. split; [constructor|]. split; [lia|]. split.
    { unfold core_eq, ast_of_run, A0, A0_of. cbn [x_ds x_rc x_win rs_dec rs_rc rs_out]. rewrite (set_pib_id d Hp0). repeat split. }
    split; [exact HI|]. split; [exact HD|]. split; [exact Hev|].
    unfold pibof, ast_of_run. cbn [x_ds rs_dec]. rewrite Hp0. cbn [nlen length N.of_nat app].
    split; [lia|]. right. split; [|lia]. unfold A0, A0_of. cbn [x_in]. assumption.
  Qed.

  Lemma tinv_init : TInv (stream_new o k0) bs.
  Proof. split; [exact Hl|]. left. exists []. split; [repeat split; left; reflexivity|reflexivity]. Qed.

  Theorem tinv_write s rem data fut : TInv s rem -> rem = data ++ fut ->
    match stream_write s data with
    | (Done m, s') => m <= nlen data /\ TInv s' (nskipn m data ++ fut)
    | (Failed e, s') => is_failed (fst R)
    | (Panicked _, _) => False
    end.
  Proof.
    intros [Hlr [(tmp & HH & Hbs)|HDg]] ->.
    - rewrite nlen_app in Hlr.
      destruct (list_eq_dec N.eq_dec data []) as [->|Hne].
      { assert (Hlt : nlen tmp <= BIG) by (rewrite Hbs, nlen_app in Hl; lia).
        destruct (write_hs_empty o k0 s tmp HH Hlt) as (s' & E & HH'). rewrite E. split; [cbn; lia|].
        split; [rewrite nlen_app in *; exact Hlr|]. left. exists tmp. split; [exact HH'|exact Hbs]. }
      pose proof (write_hs o k0 bs s tmp data fut HH Hne Hbs Hl) as W.
      destruct (stream_write s data) as [[m|e|q] s']; [| |exact W].
      + destruct W as [Hm [[E1 H1]|HT]].
        * split; [lia|]. split; [rewrite nlen_app, nlen_nskipn; lia|]. left. exists (tmp ++ data). split; [exact H1|].
          subst m. rewrite nskipn_all. cbn [app]. rewrite <- app_assoc. exact Hbs.
        * split; [lia|]. split; [rewrite nlen_app, nlen_nskipn; lia|]. right. right. apply trans_ds0_k. exact HT.
      + destruct W as [_ HB]. rewrite Hgood in HB. discriminate HB.
    - rewrite nlen_app in Hlr.
      pose proof (write_dsg_k A0 o n s data fut R HDg Hn ltac:(lia)) as W.
      destruct (stream_write s data) as [[m|e|q] s']; [|apply W|exact W].
      destruct W as [Hm HK]. split; [exact Hm|]. split; [rewrite nlen_app, nlen_nskipn; lia|]. right. left. exact HK.
  Qed.

  Theorem wtrace_inv s rem s' rem' : wtrace s rem s' rem' -> TInv s rem -> TInv s' rem'.
  Proof.
    induction 1 as [|s rem data fut m sa sb remb E EW H IH]; intros HT; [exact HT|].
    apply IH. pose proof (tinv_write s rem data fut HT E) as W. rewrite EW in W. apply W.
  Qed.

  (* ---------- what the invariant says, when the one-shot loop ends well ---------- *)
  Hypothesis HRd : fst R = Done tt.

  (* a further write call never fails *)
  Theorem tinv_write_ok s rem data fut : TInv s rem -> rem = data ++ fut ->
    exists m s', stream_write s data = (Done m, s') /\ m <= nlen data /\ TInv s' (nskipn m data ++ fut).
  Proof.
    intros HT E. pose proof (tinv_write s rem data fut HT E) as W.
    destruct (stream_write s data) as [[m|e|q] s']; [| |contradiction].
    - exists m, s'. split; [reflexivity|exact W].
    - rewrite HRd in W. contradiction.
  Qed.

  (* the decoder of the stream, related to the one-shot loop *)
  Inductive phase (s : stream) (rem : list N) (r0 : run_state) (A : ast) : Prop :=
  | ph_step k n' : osteps A0 k A -> oeval n' A R -> size_hit A = false ->
      x_in A = ds_pib (rs_dec r0) ++ st_tmp s ++ rem -> nlen (ds_pib (rs_dec r0) ++ st_tmp s) < 20 -> phase s rem r0 A
  | ph_size k : osteps A0 k A -> size_hit A = true -> R = (Done tt, A) -> phase s rem r0 A
  | ph_mark : R = (Done tt, A) -> ds_pib (rs_dec r0) ++ st_tmp s ++ rem = [] -> phase s rem r0 A.

  Lemma insync_phase s rem r0 u : InSyncK A0 n (ast_of_run r0 []) u R -> u = st_tmp s ++ rem ->
    nlen (ds_pib (rs_dec r0) ++ st_tmp s) <= nlen (ds_pib (rs_dec r0)) + 18 -> (st_tmp s = [] \/ ds_pib (rs_dec r0) = []) ->
    exists A, core_eq (ast_of_run r0 []) A /\ phase s rem r0 A.
  Proof.
    intros (A & n' & k & Hos & Hn' & Hc & HIA & HDA & HevA & Hp & Alt) Eu Hlen Hor. exists A. split; [exact Hc|].
    destruct (size_hit (ast_of_run r0 [])) eqn:Hsz.
    - assert (HszA : size_hit A = true) by (rewrite (size_hit_core _ A Hc); exact Hsz).
      eapply ph_size; [exact Hos|exact HszA|].
      pose proof (oeval_break_det _ _ _ _ HevA (size_hit_call FinishMode A HszA)) as E. exact E.
    - destruct Alt as [X|[HiA Hp20]]; [congruence|].
      eapply ph_step; [exact Hos|exact HevA|rewrite (size_hit_core _ A Hc); exact Hsz| |].
      + rewrite HiA, Eu. reflexivity.
      + unfold pibof, ast_of_run in Hp20. cbn [x_ds rs_dec] in Hp20. rewrite nlen_app in *.
        destruct Hor as [E|E]; rewrite E in *; cbn [nlen length N.of_nat] in *; lia.
  Qed.

  Theorem tinv_data s rem r0 : TInv s rem -> st_state s = Some (SData r0) ->
    st_opts s = o /\ exists A, core_eq (ast_of_run r0 []) A /\ phase s rem r0 A.
  Proof.
    intros [Hlr [(tmp & (Hs & _) & _)|[(r1 & Hs & Ht & Ho & HSt)|(r1 & Hs & Ho & Hp & Hlt & HS)]]] Es; rewrite Es in Hs; [discriminate Hs| |];
      inversion Hs; subst r1; (split; [exact Ho|]).
    - destruct HSt as [HS|HM].
      + apply (insync_phase s rem r0 rem HS); [rewrite Ht; reflexivity|rewrite Ht, app_nil_r; lia|left; exact Ht].
      + destruct HM as (PM & Hp & Hb & Hlm & Alt). destruct Alt as [(E1 & E2 & E3)|(_ & e' & E2)]; [|rewrite HRd in E2; discriminate E2].
        exists (snd R). split; [exact E3|]. apply ph_mark.
        * destruct R as [rr AR]. cbn [fst snd] in *. subst rr. reflexivity.
        * rewrite Ht. exact E1.
    - apply (insync_phase s rem r0 (st_tmp s ++ rem) HS); [reflexivity|rewrite Hp; cbn [app nlen length N.of_nat]; lia|right; exact Hp].
  Qed.

  Theorem tinv_header s rem k : TInv s rem -> st_state s = Some (SHeader k) ->
    k = k0 /\ bs = st_tmp s ++ rem /\ nlen (st_tmp s) < 18.
  Proof.
    intros [Hlr [(tmp & (Hs & Ht & Ho & Hsh) & Hbs)|[(r1 & Hs & _)|(r1 & Hs & _)]]] Es; rewrite Es in Hs; try discriminate Hs.
    inversion Hs; subst k. split; [reflexivity|]. rewrite Ht. split; [exact Hbs|].
    destruct Hsh as [->|Hsh]; [cbn; lia|apply (ahdr_short_len o tmp Hsh)].
  Qed.

  Theorem tinv_alive s rem : TInv s rem -> st_state s <> None.
  Proof.
    intros [Hlr [(tmp & (Hs & _) & _)|[(r1 & Hs & _)|(r1 & Hs & _)]]]; rewrite Hs; discriminate.
  Qed.
End GoodHeaderK.
Print Assumptions tinv_write.
Print Assumptions wtrace_inv.
Print Assumptions tinv_data.
Print Assumptions feed_all_wtrace.
