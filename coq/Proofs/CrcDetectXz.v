(* Property C06, last sentence, for the XZ container: with the real CRC-32 a single flipped bit in the stream
   header, in the index or in the stream footer of an accepted file is never accepted.

   Method: both the original file F and the corrupted file F' = flip_bit F p are run through
   xz_decompress_sound (instantiated with crc32_exec / crc64_exec).  If both are accepted, both satisfy the
   *_bytes_ok predicates; for the regions treated here the field boundaries of the two parses coincide (the
   header is the first 12 bytes, the footer the last 12 bytes, and the index is delimited by the footer's
   backward-size field), so the two CRC equations contradict crc32_detects_single_bit (Proofs/CrcDetect.v),
   or - if the flipped bit lies in a stored CRC - the injectivity of le_num under a bit flip. *)
From LZ Require Import Base.Prelude Base.Prog Model.Io Model.Crc Model.Xz
  Proofs.IoInv Proofs.XzSound Proofs.CrcDetect.
From Coq Require Import ZifyBool ZifyNat ZifyN.

Ltac Zify.zify_post_hook ::= Z.div_mod_to_equations.

(* ---------- flip_bit and list structure ---------- *)
Lemma app_eq_len' {A} : forall (c c' t t' : list A), length c = length c' -> c ++ t = c' ++ t' -> c = c' /\ t = t'.
Proof.
  induction c as [|x c IH]; intros [|y c'] t t' L E; cbn [length app] in *; try discriminate; [auto|].
  inversion E; subst. destruct (IH c' t t') as (-> & ->); auto.
Qed.

Lemma flip_bit_app_l a : forall b p, p < 8 * nlen a -> flip_bit (a ++ b) p = flip_bit a p ++ b.
Proof.
  induction a as [|x a IH]; intros b p P.
  - rewrite (@nlen_nil N) in P. lia.
  - rewrite nlen_cons in P. cbn [app]. rewrite !flip_bit_cons.
    destruct (N.ltb_spec p 8) as [L|L]; [reflexivity|]. rewrite IH by lia. reflexivity.
Qed.

Lemma flip_bit_app_r a : forall b p, 8 * nlen a <= p -> flip_bit (a ++ b) p = a ++ flip_bit b (p - 8 * nlen a).
Proof.
  induction a as [|x a IH]; intros b p P.
  - rewrite (@nlen_nil N). cbn [app]. replace (p - 8 * 0) with p by lia. reflexivity.
  - rewrite nlen_cons in *. cbn [app]. rewrite flip_bit_cons.
    destruct (N.ltb_spec p 8) as [L|L]; [lia|]. rewrite IH by lia.
    replace (p - 8 - 8 * nlen a) with (p - 8 * (1 + nlen a)) by lia. reflexivity.
Qed.

Lemma lxor_pow2_neq b k : N.lxor b (2 ^ k) <> b.
Proof.
  intros E. rewrite <- (N.lxor_0_r b) in E at 2. apply lxor_cancel_l in E.
  revert E. apply N.pow_nonzero. discriminate.
Qed.

Lemma flip_bit_neq m : forall p, p < 8 * nlen m -> flip_bit m p <> m.
Proof.
  induction m as [|b t IH]; intros p P.
  - rewrite (@nlen_nil N) in P. lia.
  - rewrite nlen_cons in P. rewrite flip_bit_cons. destruct (N.ltb_spec p 8) as [L|L]; intros E; inversion E.
    + eapply lxor_pow2_neq; eassumption.
    + eapply (IH (p - 8)); [lia|eassumption].
Qed.

(* flipping a bit of a stored little-endian field changes its value (even for out-of-range "bytes") *)
Lemma le_num_flip_bit_neq m : forall p, p < 8 * nlen m -> le_num (flip_bit m p) <> le_num m.
Proof.
  induction m as [|b t IH]; intros p P.
  - rewrite (@nlen_nil N) in P. lia.
  - rewrite nlen_cons in P. rewrite flip_bit_cons. destruct (N.ltb_spec p 8) as [L|L]; cbn [le_num]; intros E.
    + apply (lxor_pow2_neq b p). lia.
    + apply (IH (p - 8)); [lia|]. lia.
Qed.

Lemma nlen_of_length {A} (l : list A) n : length l = n -> nlen l = N.of_nat n.
Proof. intros <-. reflexivity. Qed.

(* ---------- a CRC-32 protected field followed or preceded by its stored CRC ---------- *)
(* [body ++ cb] with le_num cb = crc32 body: no single flipped bit keeps the equation, boundaries fixed *)
Lemma crc_field_flip body cb body' cb' p :
  length cb = 4%nat -> length cb' = 4%nat ->
  le_num cb = crc32_exec body -> le_num cb' = crc32_exec body' ->
  flip_bit (body ++ cb) p = body' ++ cb' -> p < 8 * nlen (body ++ cb) -> False.
Proof.
  intros L L' E E' F P.
  assert (LB : length body = length body').
  { apply (f_equal (@length N)) in F. rewrite flip_bit_length, !app_length in F. lia. }
  rewrite nlen_app, (nlen_of_length cb 4 L) in P. change (N.of_nat 4) with 4 in P.
  destruct (N.lt_ge_cases p (8 * nlen body)) as [Q|Q].
  - rewrite flip_bit_app_l in F by exact Q. apply app_eq_len' in F; [|rewrite flip_bit_length; exact LB].
    destruct F as (<- & <-). apply (crc32_detects_single_bit body p Q). congruence.
  - rewrite flip_bit_app_r in F by exact Q. apply app_eq_len' in F; [|exact LB].
    destruct F as (<- & <-). apply (le_num_flip_bit_neq cb (p - 8 * nlen body)).
    + rewrite (nlen_of_length cb 4 L). change (N.of_nat 4) with 4. lia.
    + congruence.
Qed.

(* the same with the CRC stored in front *)
Lemma crc_field_flip_front body cb body' cb' p :
  length cb = 4%nat -> length cb' = 4%nat ->
  le_num cb = crc32_exec body -> le_num cb' = crc32_exec body' ->
  flip_bit (cb ++ body) p = cb' ++ body' -> p < 8 * nlen (cb ++ body) -> False.
Proof.
  intros L L' E E' F P.
  rewrite nlen_app, (nlen_of_length cb 4 L) in P. change (N.of_nat 4) with 4 in P.
  destruct (N.lt_ge_cases p 32) as [Q|Q].
  - rewrite flip_bit_app_l in F by (rewrite (nlen_of_length cb 4 L); exact Q).
    apply app_eq_len' in F; [|rewrite flip_bit_length; congruence].
    destruct F as (<- & <-). apply (le_num_flip_bit_neq cb p).
    + rewrite (nlen_of_length cb 4 L). exact Q.
    + congruence.
  - rewrite flip_bit_app_r in F by (rewrite (nlen_of_length cb 4 L); exact Q).
    apply app_eq_len' in F; [|congruence]. destruct F as (<- & <-).
    rewrite (nlen_of_length cb 4 L) in *. change (N.of_nat 4) with 4 in *.
    apply (crc32_detects_single_bit body (p - 8 * 4)); [lia|congruence].
Qed.

(* ---------- the three regions, on the byte strings described by XzSound ---------- *)
Lemma header_flip_core ck ck' h p :
  header_bytes_ok crc32_exec ck h -> header_bytes_ok crc32_exec ck' (flip_bit h p) -> p < 96 -> False.
Proof.
  intros (b1 & cb & -> & L & E & _) (b1' & cb' & F & L' & E' & _) P.
  destruct (N.lt_ge_cases p 48) as [Q|Q].
  - rewrite flip_bit_app_l in F by exact Q.
    apply app_eq_len' in F; [|rewrite flip_bit_length; reflexivity]. destruct F as (F & _).
    exact (flip_bit_neq XZ_MAGIC p Q F).
  - rewrite flip_bit_app_r in F by exact Q. change (8 * nlen XZ_MAGIC) with 48 in F.
    apply app_inv_head in F.
    apply (crc_field_flip [0; b1] cb [0; b1'] cb' (p - 48) L L' E E' F).
    rewrite nlen_app, (nlen_of_length cb 4 L). change (nlen [0; b1]) with 2. change (N.of_nat 4) with 4. lia.
Qed.

Lemma footer_flip_core ck ck' isz isz' f p :
  footer_bytes_ok crc32_exec ck isz f -> footer_bytes_ok crc32_exec ck' isz' (flip_bit f p) -> p < 96 -> False.
Proof.
  intros (cb & bs & b1 & -> & L & LB & _ & _ & E) (cb' & bs' & b1' & F & L' & LB' & _ & _ & E') P.
  assert (N1 : nlen (cb ++ bs ++ [0; b1]) = 10).
  { rewrite !nlen_app, (nlen_of_length cb 4 L), (nlen_of_length bs 4 LB). reflexivity. }
  replace (cb ++ bs ++ [0; b1] ++ XZ_MAGIC_FOOTER) with ((cb ++ bs ++ [0; b1]) ++ XZ_MAGIC_FOOTER) in F
    by (rewrite <- !app_assoc; reflexivity).
  replace (cb' ++ bs' ++ [0; b1'] ++ XZ_MAGIC_FOOTER) with ((cb' ++ bs' ++ [0; b1']) ++ XZ_MAGIC_FOOTER) in F
    by (rewrite <- !app_assoc; reflexivity).
  assert (LL : length (cb' ++ bs' ++ [0; b1']) = length (cb ++ bs ++ [0; b1])).
  { rewrite !app_length. cbn [length]. lia. }
  destruct (N.lt_ge_cases p 80) as [Q|Q].
  - rewrite flip_bit_app_l in F by (rewrite N1; exact Q).
    apply app_eq_len' in F; [|rewrite flip_bit_length; symmetry; exact LL]. destruct F as (F & _).
    apply (crc_field_flip_front (bs ++ [0; b1]) cb (bs' ++ [0; b1']) cb' p L L' E E' F).
    rewrite N1. exact Q.
  - rewrite flip_bit_app_r in F by (rewrite N1; exact Q).
    apply app_eq_len' in F; [|symmetry; exact LL]. destruct F as (_ & F).
    apply (flip_bit_neq XZ_MAGIC_FOOTER (p - 8 * nlen (cb ++ bs ++ [0; b1]))); [|exact F].
    rewrite N1. change (nlen XZ_MAGIC_FOOTER) with 2. lia.
Qed.

Lemma index_flip_core recs recs' idx p :
  index_bytes_ok crc32_exec recs idx -> index_bytes_ok crc32_exec recs' (flip_bit idx p) -> p < 8 * nlen idx -> False.
Proof.
  intros (b0 & cs & pad & cb & -> & _ & _ & _ & L & E) (b0' & cs' & pad' & cb' & F & _ & _ & _ & L' & E') P.
  replace (0 :: b0 ++ concat cs ++ pad ++ cb) with ((0 :: b0 ++ concat cs ++ pad) ++ cb) in F, P
    by (cbn [app]; rewrite <- !app_assoc; reflexivity).
  replace (0 :: b0' ++ concat cs' ++ pad' ++ cb') with ((0 :: b0' ++ concat cs' ++ pad') ++ cb') in F
    by (cbn [app]; rewrite <- !app_assoc; reflexivity).
  exact (crc_field_flip _ cb _ cb' p L L' E E' F P).
Qed.

(* ---------- whole files ---------- *)
Definition xz_run (fuel : positive) (F : list N) : outcome unit * io :=
  xz_decompress crc32_exec crc64_exec fuel (mkIo (cursor_of F) vec_sink).
(* F is accepted (with some fuel) and decompresses to O *)
Definition xz_accepts_with (F O : list N) : Prop :=
  exists fuel w', xz_run fuel F = (Done tt, w') /\ snk_bytes (i_snk w') = O.
Definition xz_accepts (F : list N) : Prop := exists O, xz_accepts_with F O.

Lemma xz_accepts_parse F : xz_accepts F ->
  exists fuel ck hdr blocks index footer,
    F = hdr ++ concat (map blk_bytes blocks) ++ index ++ footer /\
    header_bytes_ok crc32_exec ck hdr /\
    Forall (blk_ok crc32_exec crc64_exec fuel ck) blocks /\
    index_bytes_ok crc32_exec (map blk_record blocks) index /\
    footer_bytes_ok crc32_exec ck (nlen index) footer.
Proof.
  intros (O & fuel & w' & H & _). unfold xz_run in H.
  apply xz_decompress_sound in H; [|reflexivity].
  destruct H as (ck & hdr & blocks & index & footer & ER & _ & _ & HO & BO & IO & FO & _).
  exists fuel, ck, hdr, blocks, index, footer. repeat split; assumption.
Qed.

Lemma header_bytes_len ck h : header_bytes_ok crc32_exec ck h -> nlen h = 12.
Proof.
  intros (b1 & cb & -> & L & _). rewrite !nlen_app, (nlen_of_length cb 4 L). reflexivity.
Qed.

Lemma footer_bytes_len ck isz f : footer_bytes_ok crc32_exec ck isz f -> nlen f = 12.
Proof.
  intros (cb & bs & b1 & -> & L & LB & _). rewrite !nlen_app, (nlen_of_length cb 4 L), (nlen_of_length bs 4 LB). reflexivity.
Qed.

(* the size of the index as declared by the backward-size field of the footer (bytes n-8 .. n-5 of the file) *)
Definition xz_declared_index_size (F : list N) : N :=
  4 * (le_num (nfirstn 4 (nskipn (nlen F - 8) F)) + 1).

Lemma nskipn_app_exact {A} (a b : list A) n : nlen a = n -> nskipn n (a ++ b) = b.
Proof.
  intros <-. unfold nskipn, nlen. rewrite Nat2N.id. rewrite skipn_app, skipn_all, Nat.sub_diag. reflexivity.
Qed.

Lemma nfirstn_app_exact {A} (a b : list A) n : nlen a = n -> nfirstn n (a ++ b) = a.
Proof.
  intros <-. unfold nfirstn, nlen. rewrite Nat2N.id. rewrite firstn_app, firstn_all, Nat.sub_diag.
  cbn [firstn]. apply app_nil_r.
Qed.

Lemma declared_index_size pre ck isz f :
  footer_bytes_ok crc32_exec ck isz f -> xz_declared_index_size (pre ++ f) = isz.
Proof.
  intros (cb & bs & b1 & -> & L & LB & -> & _). unfold xz_declared_index_size.
  replace (pre ++ cb ++ bs ++ [0; b1] ++ XZ_MAGIC_FOOTER) with ((pre ++ cb) ++ bs ++ [0; b1] ++ XZ_MAGIC_FOOTER)
    by (rewrite <- app_assoc; reflexivity).
  rewrite nskipn_app_exact.
  - rewrite nfirstn_app_exact; [reflexivity|]. rewrite (nlen_of_length bs 4 LB). reflexivity.
  - rewrite !nlen_app, (nlen_of_length bs 4 LB). change (N.of_nat 4) with 4.
    change (nlen [0; b1]) with 2. change (nlen XZ_MAGIC_FOOTER) with 2. lia.
Qed.

(* ===== G4: stream header ===== *)
Theorem xz_header_bit_flip_rejected F p :
  xz_accepts F -> p < 96 -> ~ xz_accepts (flip_bit F p).
Proof.
  intros A P A'.
  destruct (xz_accepts_parse _ A) as (fuel & ck & hdr & blocks & index & footer & -> & HO & _).
  destruct (xz_accepts_parse _ A') as (fuel' & ck' & hdr' & blocks' & index' & footer' & E' & HO' & _).
  pose proof (header_bytes_len _ _ HO) as LH. pose proof (header_bytes_len _ _ HO') as LH'.
  rewrite flip_bit_app_l in E' by (rewrite LH; exact P).
  apply app_eq_len' in E'.
  - destruct E' as (E' & _). rewrite <- E' in HO'. exact (header_flip_core _ _ _ _ HO HO' P).
  - rewrite flip_bit_length. apply Nat2N.inj. fold (nlen hdr) (nlen hdr'). congruence.
Qed.

(* ===== stream footer: the last 96 bits ===== *)
Theorem xz_footer_bit_flip_rejected F p :
  xz_accepts F -> 8 * nlen F - 96 <= p -> p < 8 * nlen F -> ~ xz_accepts (flip_bit F p).
Proof.
  intros A P1 P2 A'.
  destruct (xz_accepts_parse _ A) as (fuel & ck & hdr & blocks & index & footer & E & _ & _ & _ & FO).
  destruct (xz_accepts_parse _ A') as (fuel' & ck' & hdr' & blocks' & index' & footer' & E' & _ & _ & _ & FO').
  pose proof (footer_bytes_len _ _ _ FO) as LF. pose proof (footer_bytes_len _ _ _ FO') as LF'.
  set (pre := hdr ++ concat (map blk_bytes blocks) ++ index).
  set (pre' := hdr' ++ concat (map blk_bytes blocks') ++ index').
  assert (EF : F = pre ++ footer) by (rewrite E; unfold pre; rewrite <- !app_assoc; reflexivity).
  assert (EF' : flip_bit F p = pre' ++ footer') by (rewrite E'; unfold pre'; rewrite <- !app_assoc; reflexivity).
  clearbody pre pre'. clear E E'. subst F.
  rewrite nlen_app, LF in P1, P2.
  rewrite flip_bit_app_r in EF' by lia.
  assert (LP : length pre = length pre').
  { apply (f_equal (@nlen N)) in EF'. rewrite !nlen_app, LF' in EF'.
    unfold nlen at 2 in EF'. rewrite flip_bit_length in EF'. fold (nlen footer) in EF'. rewrite LF in EF'.
    apply Nat2N.inj. fold (nlen pre) (nlen pre'). lia. }
  apply app_eq_len' in EF'; [|exact LP]. destruct EF' as (_ & EF'). rewrite <- EF' in FO'.
  apply (footer_flip_core _ _ _ _ _ _ FO FO'). lia.
Qed.

(* ===== index: the bytes between the last block and the footer, delimited by the footer's backward size ===== *)
Theorem xz_index_bit_flip_rejected F p :
  xz_accepts F ->
  8 * (nlen F - 12 - xz_declared_index_size F) <= p -> p < 8 * (nlen F - 12) ->
  ~ xz_accepts (flip_bit F p).
Proof.
  intros A P1 P2 A'.
  destruct (xz_accepts_parse _ A) as (fuel & ck & hdr & blocks & index & footer & E & _ & _ & IO & FO).
  destruct (xz_accepts_parse _ A') as (fuel' & ck' & hdr' & blocks' & index' & footer' & E' & _ & _ & IO' & FO').
  pose proof (footer_bytes_len _ _ _ FO) as LF. pose proof (footer_bytes_len _ _ _ FO') as LF'.
  set (pre := hdr ++ concat (map blk_bytes blocks)) in *.
  set (pre' := hdr' ++ concat (map blk_bytes blocks')) in *.
  assert (EF : F = (pre ++ index) ++ footer) by (rewrite E; unfold pre; rewrite <- !app_assoc; reflexivity).
  assert (EF' : flip_bit F p = (pre' ++ index') ++ footer') by (rewrite E'; unfold pre'; rewrite <- !app_assoc; reflexivity).
  clearbody pre pre'. clear E E'.
  assert (DS : xz_declared_index_size F = nlen index) by (rewrite EF; exact (declared_index_size _ _ _ _ FO)).
  rewrite DS in P1. subst F. rewrite !nlen_app, LF in P1, P2.
  (* the footer is untouched, hence declares the same index size *)
  rewrite flip_bit_app_l in EF' by (rewrite nlen_app; lia).
  assert (LPI : length (pre' ++ index') = length (pre ++ index)).
  { apply (f_equal (@nlen N)) in EF'. rewrite 2 nlen_app, LF, LF' in EF'.
    unfold nlen at 1 in EF'. rewrite flip_bit_length in EF'. fold (nlen (pre ++ index)) in EF'.
    apply Nat2N.inj. fold (nlen (pre' ++ index')) (nlen (pre ++ index)). lia. }
  apply app_eq_len' in EF'; [|rewrite flip_bit_length; symmetry; exact LPI]. destruct EF' as (EPI & EFT).
  subst footer'.
  assert (LI : nlen index' = nlen index).
  { destruct FO as (cb & bs & b1 & EQ & L & LB & S & _). destruct FO' as (cb' & bs' & b1' & EQ' & L' & LB' & S' & _).
    rewrite EQ in EQ'. apply app_eq_len' in EQ'; [|congruence]. destruct EQ' as (_ & EQ').
    apply app_eq_len' in EQ'; [|congruence]. destruct EQ' as (<- & _). lia. }
  rewrite flip_bit_app_r in EPI by lia.
  assert (LP : length pre = length pre').
  { rewrite !app_length in LPI. unfold nlen in LI. lia. }
  apply app_eq_len' in EPI; [|exact LP]. destruct EPI as (_ & EI). rewrite <- EI in IO'.
  apply (index_flip_core _ _ _ _ IO IO'). lia.
Qed.

(* ===== the header of the first block (byte 12 is its size byte hs <> 0; the header proper and its CRC are the
   4*hs + 3 bytes that follow).  The size byte itself is excluded: flipping it moves the field boundaries. ===== *)
Lemma blk_bytes_split b R :
  blk_bytes b ++ R = b_hs b :: (b_hdr b ++ b_hcrc b) ++ (b_payload b ++ b_pad b ++ b_chk b) ++ R.
Proof. unfold blk_bytes. cbn [app]. rewrite <- !app_assoc. reflexivity. Qed.

Theorem xz_first_block_header_bit_flip_rejected F p :
  xz_accepts F -> nth 12 F 0 <> 0 ->
  8 * 13 <= p -> p < 8 * (12 + 4 * nth 12 F 0 + 4) -> ~ xz_accepts (flip_bit F p).
Proof.
  intros A HS P1 P2 A'.
  destruct (xz_accepts_parse _ A) as (fuel & ck & hdr & blocks & index & footer & E & HO & BO & IO & _).
  destruct (xz_accepts_parse _ A') as (fuel' & ck' & hdr' & blocks' & index' & footer' & E' & HO' & BO' & IO' & _).
  pose proof (header_bytes_len _ _ HO) as LH. pose proof (header_bytes_len _ _ HO') as LH'.
  assert (LHn : length hdr = 12%nat) by (apply nlen_length; exact LH).
  assert (LHn' : length hdr' = 12%nat) by (apply nlen_length; exact LH').
  subst F. rewrite app_nth2 in HS, P2 by lia. rewrite LHn in HS, P2. change (12 - 12)%nat with 0%nat in HS, P2.
  rewrite flip_bit_app_r in E' by (rewrite LH; lia). rewrite LH in E'.
  apply app_eq_len' in E'; [|congruence]. destruct E' as (_ & E').
  destruct blocks as [|b bl].
  { apply HS. destruct IO as (b0 & cs & pad & cb & -> & _). reflexivity. }
  cbn [map concat] in HS, P2, E'. rewrite <- app_assoc in HS, P2, E'. rewrite blk_bytes_split in HS, P2, E'.
  cbn [nth] in HS, P2.
  apply Forall_inv in BO. destruct BO as (_ & LHD & LC & EC & _).
  set (hs := b_hs b) in *. set (R := (b_payload b ++ b_pad b ++ b_chk b) ++ concat (map blk_bytes bl) ++ index ++ footer) in *.
  clearbody R.
  assert (NX : nlen (b_hdr b ++ b_hcrc b) = 4 * hs + 3).
  { rewrite nlen_app, LHD, (nlen_of_length _ 4 LC). change (N.of_nat 4) with 4. lia. }
  rewrite flip_bit_cons in E'. destruct (N.ltb_spec (p - 8 * 12) 8) as [Q|Q]; [lia|].
  rewrite flip_bit_app_l in E' by (rewrite NX; lia).
  destruct blocks' as [|b' bl'].
  { cbn [map concat app] in E'. destruct IO' as (b0 & cs & pad & cb & EI & _). rewrite EI in E'.
    apply HS. inversion E'. reflexivity. }
  cbn [map concat] in E'. rewrite <- app_assoc, blk_bytes_split in E'.
  apply Forall_inv in BO'. destruct BO' as (_ & LHD' & LC' & EC' & _).
  inversion E' as [[EHS E2]]. rewrite <- EHS in *.
  apply app_eq_len' in E2.
  2:{ rewrite flip_bit_length. apply Nat2N.inj. fold (nlen (b_hdr b ++ b_hcrc b)) (nlen (b_hdr b' ++ b_hcrc b')).
      rewrite NX, nlen_app, LHD', (nlen_of_length _ 4 LC'). change (N.of_nat 4) with 4. lia. }
  destruct E2 as (E2 & _).
  apply (crc_field_flip (hs :: b_hdr b) (b_hcrc b) (hs :: b_hdr b') (b_hcrc b') (p - 8 * 12) LC LC' EC EC').
  - cbn [app]. rewrite flip_bit_cons. destruct (N.ltb_spec (p - 8 * 12) 8); [lia|]. rewrite E2. reflexivity.
  - cbn [app]. rewrite nlen_cons, NX. lia.
Qed.

Print Assumptions xz_header_bit_flip_rejected.
Print Assumptions xz_first_block_header_bit_flip_rejected.
Print Assumptions xz_footer_bit_flip_rejected.
Print Assumptions xz_index_bit_flip_rejected.

(* ---------- the general form (a definition, not proved) ---------- *)
(* [region F p]: bit p of the accepted file F lies in a part of the container treated by the statement *)
Definition xz_bit_flip_rejected_in (region : list N -> N -> Prop) : Prop :=
  forall F p, xz_accepts F -> region F p -> ~ xz_accepts (flip_bit F p).

(* bit p lies in a CRC-32 protected container field, or in a stored CRC-32, of some parse of F:
   stream header, a block header (size byte, header, header CRC), the index, the stream footer *)
Definition in_container_field (F : list N) (p : N) : Prop :=
  exists fuel ck hdr blocks index footer,
    F = hdr ++ concat (map blk_bytes blocks) ++ index ++ footer /\
    header_bytes_ok crc32_exec ck hdr /\ Forall (blk_ok crc32_exec crc64_exec fuel ck) blocks /\
    index_bytes_ok crc32_exec (map blk_record blocks) index /\ footer_bytes_ok crc32_exec ck (nlen index) footer /\
    (p < 8 * nlen hdr \/
     8 * nlen (hdr ++ concat (map blk_bytes blocks)) <= p < 8 * nlen F \/
     exists bl1 b bl2, blocks = bl1 ++ b :: bl2 /\
       let start := 8 * nlen (hdr ++ concat (map blk_bytes bl1)) in
       start <= p < start + 8 * nlen (b_hs b :: b_hdr b ++ b_hcrc b)).
Definition xz_container_bit_flip_rejected_general : Prop := xz_bit_flip_rejected_in in_container_field.
(* and the statement of the property text itself: success after a flip only with the original output
   (for the compressed payload and the check field this is NOT a theorem of the CRC: a flipped payload bit
   changes the output by an arbitrary pattern, which a 32/64-bit checksum detects only with probability
   1 - 2^-32 / 1 - 2^-64) *)
Definition xz_bit_flip_harmless_general : Prop :=
  forall F O p O', xz_accepts_with F O -> p < 8 * nlen F -> xz_accepts_with (flip_bit F p) O' -> O' = O.

(* what is proved, in that vocabulary *)
Theorem xz_bit_flip_rejected_header_index_footer :
  xz_bit_flip_rejected_in (fun F p =>
    p < 96 \/
    (nth 12 F 0 <> 0 /\ 8 * 13 <= p /\ p < 8 * (12 + 4 * nth 12 F 0 + 4)) \/
    (8 * (nlen F - 12 - xz_declared_index_size F) <= p /\ p < 8 * nlen F)).
Proof.
  intros F p A [P|[(HS & P1 & P2)|(P1 & P2)]].
  - apply xz_header_bit_flip_rejected; assumption.
  - apply xz_first_block_header_bit_flip_rejected; assumption.
  - destruct (N.lt_ge_cases p (8 * (nlen F - 12))) as [Q|Q].
    + apply xz_index_bit_flip_rejected; assumption.
    + apply xz_footer_bit_flip_rejected; try assumption. lia.
Qed.
Print Assumptions xz_bit_flip_rejected_header_index_footer.

(* non-vacuity on the sample file of XzSound.v (60 bytes: header 0..11, block header 12..23, payload 24..32,
   padding 33..35, check 36..39, index 40..47, footer 48..59): it is accepted, and every single-bit corruption of
   its header (bits 0..95), of its block header except the size byte (bits 104..191), of its index and footer
   (the last 20 bytes: bits 320..479) is rejected - here by the theorems, not by running the decoder *)
Example sample_xz_is_accepted : xz_accepts sample_xz.
Proof.
  destruct sample_xz_accepted as (w' & H & O). exists [104; 101; 108; 108; 111], big_fuel, w'. split; assumption.
Qed.
Example sample_xz_facts : xz_declared_index_size sample_xz = 8 /\ nlen sample_xz = 60 /\ nth 12 sample_xz 0 = 2.
Proof. vm_compute. auto. Qed.
Example sample_xz_flips_rejected p :
  p < 96 \/ 104 <= p < 192 \/ 320 <= p < 480 -> ~ xz_accepts (flip_bit sample_xz p).
Proof.
  intros H. apply xz_bit_flip_rejected_header_index_footer; [exact sample_xz_is_accepted|].
  destruct sample_xz_facts as (-> & -> & ->). lia.
Qed.
