(* Property C06: xz_decompress reports success only if every integrity field of
   the container agrees.  All theorems are obtained by INVERSION of the monadic
   parser: from  ... = (Done x, w')  we derive which bytes were consumed and which
   checks they passed.  crc32 / crc64 are arbitrary functions.

   No fault-freeness of the source is needed (a run that ends in Done met no
   fault); the only hypothesis on the environment is that the source carries no
   Take limit ([s_limit = None]), which is what makes "is_eof" mean end of data. *)
From LZ Require Import Base.Prelude Base.Prog Model.Io Model.Tables Model.LzBuffer Model.RangeDec
  Model.Lzma Model.Lzma2 Model.Crc Model.Xz Proofs.ProgLemmas Proofs.IoInv Proofs.SrcMono.
From Coq Require Import ZifyBool ZifyNat ZifyN.
Local Open Scope prog_scope.

Ltac Zify.zify_post_hook ::= Z.div_mod_to_equations.

(* ---------- small facts ---------- *)
Lemma land3 x : N.land x 3 = x mod 4.
Proof. change 3 with (N.ones 2). rewrite N.land_ones. reflexivity. Qed.

Lemma land_lxor_distr_l a b c : N.land (N.lxor a b) c = N.lxor (N.land a c) (N.land b c).
Proof.
  apply N.bits_inj. intros n. rewrite N.land_spec, !N.lxor_spec, !N.land_spec.
  destruct (N.testbit a n), (N.testbit b n), (N.testbit c n); reflexivity.
Qed.

Lemma padding_of_spec c : padding_of c < 4 /\ (c + padding_of c) mod 4 = 0.
Proof.
  unfold padding_of. rewrite land3.
  assert (E : N.lxor c 3 mod 4 = 3 - c mod 4).
  { rewrite <- land3, land_lxor_distr_l, !land3. change (3 mod 4) with 3.
    assert (R : c mod 4 < 4) by (apply N.mod_lt; lia).
    assert (C : c mod 4 = 0 \/ c mod 4 = 1 \/ c mod 4 = 2 \/ c mod 4 = 3) by lia.
    destruct C as [C|[C|[C|C]]]; rewrite C; reflexivity. }
  rewrite <- N.add_mod_idemp_l by lia. rewrite E. lia.
Qed.

Lemma check_id_inj a b : check_id a = check_id b -> a = b.
Proof. destruct a, b; cbn [check_id]; intros H; try reflexivity; discriminate H. Qed.

Lemma flags_parse_inv b0 b1 c : flags_parse b0 b1 = Done c -> b0 = 0 /\ check_of_id b1 = Some c.
Proof.
  unfold flags_parse. destruct (N.eqb_spec b0 0); cbn [negb]; [|discriminate].
  destruct (check_of_id b1); intros H; inversion H; auto.
Qed.

(* ---------- multibyte integers ---------- *)
(* [mb_decodes bs v]: bs is a byte string that get_multibyte decodes to v: at most 9 bytes,
   all but the last with the continuation bit, value = xor of the 7-bit groups *)
Fixpoint mb_val (i : N) (bs : list N) : N :=
  match bs with
  | [] => 0
  | b :: t => N.lxor (M64 (N.shiftl (N.land b 127) (i * 7))) (mb_val (i + 1) t)
  end.
Inductive mb_shape : list N -> Prop :=
| mbs_last b : N.land b 128 = 0 -> mb_shape [b]
| mbs_more b t : N.land b 128 <> 0 -> mb_shape t -> mb_shape (b :: t).
Definition mb_decodes (bs : list N) (v : N) : Prop :=
  mb_shape bs /\ (length bs <= 9)%nat /\ v = mb_val 0 bs.

Lemma get_multibyte_loop_inv n : forall i res acc w v bs w',
  run_io (get_multibyte_loop n i res acc) w = (Done (v, bs), w') ->
  exists c, bs = lrev acc ++ c /\ reads w w' c /\ mb_shape c /\ (length c <= n)%nat /\
            v = N.lxor res (mb_val i c).
Proof.
  induction n as [|n IH]; intros i res acc w v bs w' H; cbn [get_multibyte_loop] in H; [rabs H|].
  rbind H as b w1 H1. apply read_u8_inv in H1. cbv zeta in H.
  destruct (N.eqb_spec (N.land b 128) 0) as [E|E].
  - apply run_ret_inv in H. destruct H as (H & ->). inversion H; subst. exists [b].
    split; [apply lrev_cons_app|]. split; [exact H1|]. split; [apply mbs_last; exact E|].
    split; [cbn [length]; lia|]. cbn [mb_val]. rewrite N.lxor_0_r. reflexivity.
  - apply IH in H. destruct H as (c & -> & R & S & L & ->). exists (b :: c).
    split; [rewrite lrev_cons_app, <- app_assoc; reflexivity|].
    split; [exact (reads_trans _ _ _ _ _ H1 R)|]. split; [apply mbs_more; assumption|].
    split; [cbn [length]; lia|]. cbn [mb_val]. rewrite N.lxor_assoc. reflexivity.
Qed.

Lemma get_multibyte_inv w v bs w' : run_io get_multibyte w = (Done (v, bs), w') ->
  reads w w' bs /\ mb_decodes bs v.
Proof.
  intros H. apply get_multibyte_loop_inv in H. destruct H as (c & -> & R & S & L & ->).
  change (lrev [] ++ c) with c. rewrite N.lxor_0_l. split; [exact R|]. split; [exact S|]. split; [exact L|reflexivity].
Qed.

(* the relation agrees with the list-level decoder used for block headers *)
Lemma mb_shape_lget c : mb_shape c -> forall n i res t, (length c <= n)%nat ->
  lget_multibyte_loop n i res (c ++ t) = Done (N.lxor res (mb_val i c), t).
Proof.
  induction 1 as [b E|b c E S IH]; intros n i res t L; (destruct n as [|n]; cbn [length] in L; [lia|]);
    cbn [lget_multibyte_loop app mb_val]; cbv zeta.
  - rewrite (proj2 (N.eqb_eq _ _) E). rewrite N.lxor_0_r. reflexivity.
  - rewrite (proj2 (N.eqb_neq _ _) E). rewrite IH by lia. rewrite N.lxor_assoc. reflexivity.
Qed.

Lemma mb_decodes_lget bs v t : mb_decodes bs v -> lget_multibyte (bs ++ t) = Done (v, t).
Proof.
  intros (S & L & ->). unfold lget_multibyte. rewrite (mb_shape_lget _ S) by exact L.
  rewrite N.lxor_0_l. reflexivity.
Qed.

(* ---------- zero padding ---------- *)
Lemma repeat_snoc {A} (a : A) n : repeat a n ++ [a] = a :: repeat a n.
Proof. induction n as [|n IH]; cbn [repeat app]; [reflexivity|]. rewrite IH. reflexivity. Qed.

Lemma read_zero_padding_inv n : forall acc w bs w',
  run_io (read_zero_padding n acc) w = (Done bs, w') ->
  bs = lrev acc ++ repeat 0 n /\ reads w w' (repeat 0 n).
Proof.
  induction n as [|n IH]; intros acc w bs w' H; cbn [read_zero_padding] in H.
  - apply run_ret_inv in H. destruct H as (-> & ->). cbn [repeat]. rewrite app_nil_r.
    split; [reflexivity|apply reads_refl].
  - rbind H as b w1 H1. apply read_u8_inv in H1.
    destruct (N.eqb_spec b 0) as [->|]; cbn [negb] in H; [|rabs H].
    apply IH in H. destruct H as (-> & R). split.
    + rewrite lrev_cons_app, <- app_assoc. reflexivity.
    + exact (reads_trans _ _ _ _ _ H1 R).
Qed.

(* ---------- block header: at least one filter ---------- *)
Lemma read_filters_length n hsz : forall l acc fs l',
  read_filters n hsz l acc = Done (fs, l') -> length fs = (n + length acc)%nat.
Proof.
  induction n as [|n IH]; intros l acc fs l' H; cbn [read_filters] in H.
  - inversion H. rewrite lrev_rev, rev_length. reflexivity.
  - destruct (lget_multibyte l) as [[id l1]|e|q]; try discriminate H.
    destruct (negb (id =? 33)); [discriminate H|].
    destruct (lget_multibyte l1) as [[sz l2]|e|q]; try discriminate H.
    destruct (hsz <? sz); [discriminate H|]. destruct (nlen l2 <? sz); [discriminate H|].
    apply IH in H. cbn [length] in H. lia.
Qed.

Lemma read_block_header_filters hsz l bh :
  read_block_header hsz l = Done bh -> exists f0 fs, bh_filters bh = f0 :: fs.
Proof.
  unfold read_block_header. destruct l as [|flags l0]; [discriminate|]. cbv zeta.
  destruct (negb (N.land flags 60 =? 0)); [discriminate|].
  destruct (if negb (N.land flags 64 =? 0) then _ else _) as [[packed l1]|e|q]; try discriminate.
  destruct (if negb (N.land flags 128 =? 0) then _ else _) as [[unpacked l2]|e|q]; try discriminate.
  destruct (read_filters _ _ _ _) as [[fs l3]|e|q] eqn:ERF; try discriminate.
  destruct (forallb _ l3); [|discriminate]. intros H. inversion H. cbn [bh_filters].
  apply read_filters_length in ERF. cbn [length] in ERF.
  destruct fs as [|f0 fs]; [cbn [length] in ERF; lia|]. eauto.
Qed.

Section WithCrc.
Variable crc32 : list N -> N.
Variable crc64 : list N -> N.

(* ================= stream header ================= *)
Definition header_bytes_ok (ck : check_method) (h : list N) : Prop :=
  exists b1 cb, h = XZ_MAGIC ++ [0; b1] ++ cb /\ length cb = 4%nat /\ le_num cb = crc32 [0; b1] /\
                check_of_id b1 = Some ck.

Theorem header_parse_ok w ck w' :
  run_io (header_parse crc32) w = (Done ck, w') ->
  exists b0 b1 cb,
    reads w w' (XZ_MAGIC ++ [b0; b1] ++ cb) /\
    length cb = 4%nat /\ le_num cb = crc32 [b0; b1] /\ b0 = 0 /\ check_of_id b1 = Some ck.
Proof.
  unfold header_parse. intros H.
  rbind H as ok w1 H1. destruct ok; cbn [negb] in H; [|rabs H]. apply read_tag_inv in H1.
  rbind H as fl w2 H2. apply read_exact_inv in H2. destruct H2 as (R2 & L2).
  rbind H as crc w3 H3. apply read_u32_le_inv in H3. destruct H3 as (cb & R3 & L3 & E3).
  destruct (N.eqb_spec crc (crc32 fl)) as [EC|]; cbn [negb] in H; [|rabs H].
  destruct fl as [|b0 [|b1 [|]]]; try rabs H.
  destruct (flags_parse b0 b1) as [c|e|p] eqn:EF; try rabs H.
  apply run_ret_inv in H. destruct H as (-> & ->). apply flags_parse_inv in EF. destruct EF as (E0 & EF).
  exists b0, b1, cb. split.
  - eapply reads_trans; [exact H1|]. eapply reads_trans; [exact R2|exact R3].
  - repeat split; try assumption. congruence.
Qed.

Corollary header_parse_bytes w ck w' :
  run_io (header_parse crc32) w = (Done ck, w') ->
  exists h, reads w w' h /\ header_bytes_ok ck h.
Proof.
  intros H. apply header_parse_ok in H. destruct H as (b0 & b1 & cb & R & L & E & -> & C).
  exists (XZ_MAGIC ++ [0; b1] ++ cb). split; [exact R|]. exists b1, cb. auto.
Qed.

(* over real bytes the CRC field is literally le_bytes 4 (crc32 flags) *)
Corollary header_parse_ok_bytes w ck w' :
  run_io (header_parse crc32) w = (Done ck, w') -> Forall (fun b => b < 256) (s_rest (i_src w)) ->
  exists b1, reads w w' (XZ_MAGIC ++ [0; b1] ++ le_bytes 4 (crc32 [0; b1])) /\ check_of_id b1 = Some ck.
Proof.
  intros H B. apply header_parse_ok in H. destruct H as (b0 & b1 & cb & R & L & E & -> & C).
  exists b1. split; [|exact C]. rewrite <- E, <- L. rewrite le_bytes_le_num; [exact R|].
  rewrite (reads_rest _ _ _ R) in B. apply Forall_app in B. destruct B as (B & _).
  apply Forall_app in B. destruct B as (_ & B). apply Forall_app in B. apply B.
Qed.

(* ================= stream footer ================= *)
Definition footer_bytes_ok (ck : check_method) (index_size : N) (f : list N) : Prop :=
  exists cb bs b1, f = cb ++ bs ++ [0; b1] ++ XZ_MAGIC_FOOTER /\ length cb = 4%nat /\ length bs = 4%nat /\
                   index_size = 4 * (le_num bs + 1) /\ check_of_id b1 = Some ck /\
                   le_num cb = crc32 (bs ++ [0; b1]).

Theorem xz_footer_ok ck index_size w w' :
  run_io (xz_footer crc32 ck index_size) w = (Done tt, w') ->
  exists cb bs b0 b1,
    reads w w' (cb ++ bs ++ [b0; b1] ++ XZ_MAGIC_FOOTER) /\
    length cb = 4%nat /\ length bs = 4%nat /\ index_size = 4 * (le_num bs + 1) /\
    b0 = 0 /\ check_of_id b1 = Some ck /\ le_num cb = crc32 (bs ++ [b0; b1]) /\
    (s_limit (i_src w) = None -> s_rest (i_src w') = []).
Proof.
  unfold xz_footer. intros H.
  rbind H as crc w1 H1. apply read_u32_le_inv in H1. destruct H1 as (cb & R1 & L1 & E1).
  rbind H as bsz w2 H2. apply read_exact_inv in H2. destruct H2 as (R2 & L2). cbv zeta in H.
  destruct (N.eqb_spec index_size (N.shiftl (le_num bsz + 1) 2)) as [EI|]; cbn [negb] in H; [|rabs H].
  rbind H as fl w3 H3. apply read_exact_inv in H3. destruct H3 as (R3 & L3).
  destruct fl as [|b0 [|b1 [|]]]; try rabs H.
  destruct (flags_parse b0 b1) as [c|e|p] eqn:EF; try rabs H.
  destruct (check_eqb ck c) eqn:ECK; cbn [negb] in H; [|rabs H].
  destruct (N.eqb_spec crc (crc32 (bsz ++ [b0; b1]))) as [EC|]; cbn [negb] in H; [|rabs H].
  rbind H as ok w4 H4. destruct ok; cbn [negb] in H; [|rabs H]. apply read_tag_inv in H4.
  rbind H as e w5 H5. destruct e; [|rabs H]. apply is_eof_inv in H5. destruct H5 as (R5 & Z5).
  apply run_ret_inv in H. destruct H as (_ & ->).
  apply flags_parse_inv in EF. destruct EF as (E0 & EF).
  unfold check_eqb in ECK. apply N.eqb_eq in ECK. apply check_id_inj in ECK. subst c.
  assert (R : reads w w4 (cb ++ bsz ++ [b0; b1] ++ XZ_MAGIC_FOOTER)).
  { eapply reads_trans; [exact R1|]. eapply reads_trans; [exact R2|]. eapply reads_trans; [exact R3|exact H4]. }
  exists cb, bsz, b0, b1. split.
  - apply (reads_eq _ _ ((cb ++ bsz ++ [b0; b1] ++ XZ_MAGIC_FOOTER) ++ [])); [apply app_nil_r|].
    eapply reads_trans; [exact R|exact R5].
  - split; [exact L1|]. split; [apply nlen_length; exact L2|].
    split; [rewrite EI, N.shiftl_mul_pow2; change (2 ^ 2) with 4; lia|].
    split; [exact E0|]. split; [exact EF|]. split; [congruence|].
    intros L. apply Z5. eapply reads_nolim; eassumption.
Qed.

(* ================= index ================= *)
Definition rec_enc (r : record) (c : list N) : Prop :=
  exists b1 b2, c = b1 ++ b2 /\ mb_decodes b1 (rc_unpadded r) /\ mb_decodes b2 (rc_unpacked r).

Lemma check_records_inv rs : forall acc w bs w',
  run_io (check_records rs acc) w = (Done bs, w') ->
  exists cs, Forall2 rec_enc rs cs /\ bs = acc ++ concat cs /\ reads w w' (concat cs).
Proof.
  induction rs as [|r rs IH]; intros acc w bs w' H; cbn [check_records] in H.
  - apply run_ret_inv in H. destruct H as (-> & ->). exists []. cbn [concat]. rewrite app_nil_r.
    split; [constructor|]. split; [reflexivity|apply reads_refl].
  - rbind H as x w1 H1. destruct x as [u b1]. apply get_multibyte_inv in H1. destruct H1 as (R1 & M1).
    destruct (N.eqb_spec u (rc_unpadded r)) as [->|]; cbn [negb] in H; [|rabs H].
    rbind H as y w2 H2. destruct y as [v b2]. apply get_multibyte_inv in H2. destruct H2 as (R2 & M2).
    destruct (N.eqb_spec v (rc_unpacked r)) as [->|]; cbn [negb] in H; [|rabs H].
    apply IH in H. destruct H as (cs & F & -> & R). exists ((b1 ++ b2) :: cs). split.
    + constructor; [|exact F]. exists b1, b2. auto.
    + cbn [concat]. split; [rewrite <- !app_assoc; reflexivity|].
      eapply reads_trans; [eapply reads_trans; [exact R1|exact R2]|exact R].
Qed.

(* the index as a byte string, including the indicator byte 0 *)
Definition index_bytes_ok (records : list record) (idx : list N) : Prop :=
  exists b0 cs pad cb,
    idx = 0 :: b0 ++ concat cs ++ pad ++ cb /\
    mb_decodes b0 (nlen records) /\ Forall2 rec_enc records cs /\
    pad = repeat 0 (N.to_nat (padding_of (nlen (0 :: b0 ++ concat cs)))) /\
    length cb = 4%nat /\ le_num cb = crc32 (0 :: b0 ++ concat cs ++ pad).

Theorem check_index_ok start records w w' :
  run_io (check_index crc32 start records) w = (Done tt, w') ->
  exists b0 cs pad cb,
    reads w w' (b0 ++ concat cs ++ pad ++ cb) /\
    mb_decodes b0 (nlen records) /\ Forall2 rec_enc records cs /\
    (let count := s_pos (i_src w) + nlen (b0 ++ concat cs) - start in
     pad = repeat 0 (N.to_nat (padding_of count)) /\ (count + nlen pad) mod 4 = 0) /\
    length cb = 4%nat /\ le_num cb = crc32 (0 :: b0 ++ concat cs ++ pad).
Proof.
  unfold check_index. intros H.
  rbind H as x w1 H1. destruct x as [num b0]. apply get_multibyte_inv in H1. destruct H1 as (R1 & M1).
  destruct (N.eqb_spec num (nlen records)) as [->|]; cbn [negb] in H; [|rabs H].
  rbind H as bs w2 H2. apply check_records_inv in H2. destruct H2 as (cs & F & -> & R2).
  rbind H as pos w3 H3. apply getpos_inv in H3. destruct H3 as (-> & ->). cbv zeta in H.
  rbind H as pad w4 H4. apply read_zero_padding_inv in H4. destruct H4 as (-> & R4).
  change (lrev [] ++ ?x) with x in H.
  rbind H as crc w5 H5. apply read_u32_le_inv in H5. destruct H5 as (cb & R5 & L5 & E5).
  match type of H with context [negb (?a =? ?b)] => destruct (N.eqb_spec a b) as [EC|]; cbn [negb] in H; [|rabs H] end.
  apply run_ret_inv in H. destruct H as (_ & ->).
  assert (R12 : reads w w2 (b0 ++ concat cs)) by (eapply reads_trans; eassumption).
  rewrite (reads_pos _ _ _ R12) in *.
  exists b0, cs, (repeat 0 (N.to_nat (padding_of (s_pos (i_src w) + nlen (b0 ++ concat cs) - start)))), cb.
  split.
  - rewrite app_assoc. eapply reads_trans; [exact R12|]. eapply reads_trans; eassumption.
  - split; [exact M1|]. split; [exact F|]. split.
    + cbv zeta. split; [reflexivity|]. rewrite nlen_repeat, N2Nat.id. apply padding_of_spec.
    + split; [exact L5|]. rewrite E5, EC, <- app_assoc. reflexivity.
Qed.

Lemma index_bytes_mod4 records idx : index_bytes_ok records idx -> nlen idx mod 4 = 0.
Proof.
  intros (b0 & cs & pad & cb & -> & _ & _ & -> & L & _).
  pose proof (padding_of_spec (nlen (0 :: b0 ++ concat cs))) as (_ & P).
  set (X := 0 :: b0 ++ concat cs) in *. set (p := padding_of (nlen X)) in *.
  replace (0 :: b0 ++ concat cs ++ repeat 0 (N.to_nat p) ++ cb) with (X ++ repeat 0 (N.to_nat p) ++ cb)
    by (unfold X; cbn [app]; rewrite <- app_assoc; reflexivity).
  assert (L4 : nlen cb = 4) by (unfold nlen; rewrite L; reflexivity).
  rewrite !nlen_app, nlen_repeat, N2Nat.id, L4. clearbody p. generalize dependent (nlen X). intros n P. lia.
Qed.

(* ================= blocks ================= *)
Local Open Scope m_scope.

Tactic Notation "mbind" hyp(H) "as" ident(a) ident(w1) ident(H1) :=
  apply mbind_inv_done in H; destruct H as (a & w1 & H1 & H); unfold io_run in H1.
Ltac mabs H := exfalso; unfold mpanic, mfail in H; discriminate H.

(* the pieces of one block as they lie in the stream *)
Record blk := mkBlk {
  b_hs : N;                 (* block header size byte *)
  b_hdr : list N;           (* block header proper (flags, sizes, filters, header padding) *)
  b_hcrc : list N;          (* CRC32 of the header *)
  b_payload : list N;       (* compressed data: what the first filter's decoder consumed *)
  b_pad : list N;           (* block padding *)
  b_chk : list N;           (* check field *)
  b_out : list N            (* the block's output *)
}.
Definition blk_bytes (b : blk) : list N :=
  b_hs b :: b_hdr b ++ b_hcrc b ++ b_payload b ++ b_pad b ++ b_chk b.
(* unpadded size (everything but the padding) and uncompressed size *)
Definition blk_record (b : blk) : record :=
  mkRecord (nlen (b_hs b :: b_hdr b ++ b_hcrc b ++ b_payload b ++ b_chk b)) (nlen (b_out b)).

Definition check_field (ck : check_method) (out chk : list N) : Prop :=
  match ck with
  | CkNone => chk = []
  | CkCrc32 => length chk = 4%nat /\ le_num chk = crc32 out
  | CkCrc64 => length chk = 8%nat /\ le_num chk = crc64 out
  | CkSha256 => False
  end.

(* [count]: number of bytes from the block's start to the end of the compressed data *)
Definition blk_ok_gen (fuel : positive) (ck : check_method) (count : N) (b : blk) : Prop :=
  b_hs b <> 0 /\
  nlen (b_hdr b) = 4 * b_hs b - 1 /\
  length (b_hcrc b) = 4%nat /\ le_num (b_hcrc b) = crc32 (b_hs b :: b_hdr b) /\
  (exists bh f0 fs out0 s1 s2,
     read_block_header (4 * b_hs b - 1) (b_hdr b) = Done bh /\ bh_filters bh = f0 :: fs /\
     sadv s1 s2 (b_payload b) /\
     decode_filter fuel f0 s1 = (Done (nlen (b_payload b), out0), s2) /\
     later_filters fuel fs out0 = Done (b_out b) /\
     (forall e, bh_packed bh = Some e -> nlen (b_payload b) = e) /\
     (forall e, bh_unpacked bh = Some e -> nlen (b_out b) = e)) /\
  b_pad b = repeat 0 (N.to_nat (padding_of count)) /\
  check_field ck (b_out b) (b_chk b).

Definition blk_ok (fuel : positive) (ck : check_method) (b : blk) : Prop :=
  blk_ok_gen fuel ck (nlen (b_hs b :: b_hdr b ++ b_hcrc b ++ b_payload b)) b.

Lemma decode_filter_inv fuel f s packed out s' :
  decode_filter fuel f s = (Done (packed, out), s') ->
  exists c w, sadv s s' c /\ packed = nlen c /\ nlen (f_props f) = 1 /\
              lzma2_decompress_top fuel (mkIo s vec_sink) = (Done tt, w) /\
              s' = i_src w /\ out = snk_bytes (i_snk w).
Proof.
  unfold decode_filter. destruct (N.eqb_spec (nlen (f_props f)) 1) as [EP|]; cbn [negb]; [|discriminate].
  cbv zeta. pose proof (lzma2_decompress_top_sle fuel (mkIo s vec_sink)) as S.
  destruct (lzma2_decompress_top fuel (mkIo s vec_sink)) as [[[]|e|q] w]; try discriminate.
  intros H. inversion H; subst. clear H. cbn [snd i_src] in S. destruct S as ((c & E & P) & L).
  exists c, w. split; [repeat split; assumption|]. split; [lia|]. auto.
Qed.

Lemma validate_block_check_inv out ck w w' :
  run_io (validate_block_check crc32 crc64 out ck) w = (Done tt, w') ->
  exists chk, reads w w' chk /\ check_field ck out chk.
Proof.
  unfold validate_block_check. intros H. destruct ck.
  - apply run_ret_inv in H. destruct H as (_ & ->). exists []. split; [apply reads_refl|reflexivity].
  - rbind H as c w1 H1. apply read_u32_le_inv in H1. destruct H1 as (chk & R & L & E).
    destruct (N.eqb_spec c (crc32 out)); [|rabs H]. apply run_ret_inv in H. destruct H as (_ & ->).
    exists chk. split; [exact R|]. split; [exact L|congruence].
  - rbind H as c w1 H1. apply read_u64_le_inv in H1. destruct H1 as (chk & R & L & E).
    destruct (N.eqb_spec c (crc64 out)); [|rabs H]. apply run_ret_inv in H. destruct H as (_ & ->).
    exists chk. split; [exact R|]. split; [exact L|congruence].
  - rabs H.
Qed.

Theorem read_block_ok fuel start ck hs w r w' :
  read_block crc32 crc64 fuel start ck hs w = (Done r, w') ->
  s_limit (i_src w) = None ->
  exists b,
    b_hs b = hs /\
    blk_ok_gen fuel ck (s_pos (i_src w) + nlen (b_hdr b ++ b_hcrc b ++ b_payload b) - start) b /\
    sadv (i_src w) (i_src w') (b_hdr b ++ b_hcrc b ++ b_payload b ++ b_pad b ++ b_chk b) /\
    snk_bytes (i_snk w') = snk_bytes (i_snk w) ++ b_out b /\
    r = mkRecord (s_pos (i_src w) + nlen (b_hdr b ++ b_hcrc b ++ b_payload b ++ b_chk b) - start)
                 (nlen (b_out b)).
Proof.
  unfold read_block. intros H NL.
  destruct (N.eqb_spec hs 0) as [|HS0]; [mabs H|]. cbv zeta in H.
  replace (N.shiftl hs 2 - 1) with (4 * hs - 1) in H
    by (rewrite N.shiftl_mul_pow2; change (2 ^ 2) with 4; lia).
  mbind H as hdr w1 H1. apply read_upto_inv in H1. destruct H1 as (R1 & L1 & Z1).
  destruct (read_block_header (4 * hs - 1) hdr) as [bh|e|q] eqn:EBH; try mabs H.
  mbind H as crc w2 H2. apply read_u32_le_inv in H2. destruct H2 as (cb & R2 & L2 & E2).
  destruct (N.eqb_spec crc (crc32 (hs :: hdr))) as [EC|]; cbn [negb] in H; [|mabs H].
  (* the header was not cut short by the end of the input *)
  assert (L1' : nlen hdr = 4 * hs - 1).
  { destruct (N.eq_dec (nlen hdr) (4 * hs - 1)) as [|NE]; [assumption|exfalso].
    assert (Z : s_rest (i_src w1) = []) by (apply Z1; [lia|exact NL]).
    rewrite (reads_rest _ _ _ R2) in Z. destruct cb; [discriminate L2|discriminate Z]. }
  destruct (read_block_header_filters _ _ _ EBH) as (f0 & fs & EF).
  mbind H as out w3 H3. rewrite EF in H3.
  destruct (decode_filter fuel f0 (i_src w2)) as [[[packed out0]|e|q] s3] eqn:EDF; try discriminate H3.
  destruct (match bh_packed bh with Some e => negb (packed =? e) | None => false end) eqn:EPK; [discriminate H3|].
  destruct (later_filters fuel fs out0) as [o|e|q] eqn:ELF; try discriminate H3.
  inversion H3; subst o w3; clear H3.
  destruct (match bh_unpacked bh with Some e => negb (nlen out =? e) | None => false end) eqn:EUP; [mabs H|].
  mbind H as pos w4 H4. apply getpos_inv in H4. destruct H4 as (-> & ->). cbn [i_src] in H.
  mbind H as padbs w5 H5. apply read_zero_padding_inv in H5. destruct H5 as (_ & R5).
  mbind H as u6 w6 H6. destruct u6. apply validate_block_check_inv in H6. destruct H6 as (chk & R6 & CF).
  mbind H as u7 w7 H7. destruct u7. apply write_all_inv in H7. destruct H7 as (S7 & B7 & _).
  mbind H as pos2 w8 H8. apply getpos_inv in H8. destruct H8 as (-> & ->).
  match type of H with context [if ?c then _ else _] => destruct c eqn:EOV; [mabs H|] end.
  unfold mret in H. inversion H; subst r w'; clear H.
  apply decode_filter_inv in EDF. destruct EDF as (payload & wd & AD & -> & EP & ED & -> & ->).
  (* positions *)
  assert (R12 : reads w w2 (hdr ++ cb)) by (eapply reads_trans; eassumption).
  pose proof (reads_pos _ _ _ R12) as P2. destruct AD as (AD1 & AD2 & AD3).
  assert (P3 : s_pos (i_src wd) = s_pos (i_src w) + nlen (hdr ++ cb ++ payload)).
  { rewrite AD2, P2. autorewrite with nlen. lia. }
  set (pad := repeat 0 (N.to_nat (padding_of (s_pos (i_src wd) - start)))) in *.
  assert (R56 : reads (mkIo (i_src wd) (i_snk w2)) w6 (pad ++ chk)) by (eapply reads_trans; eassumption).
  pose proof (reads_pos _ _ _ R56) as P6. cbn [i_src] in P6.
  exists (mkBlk hs hdr cb payload pad chk out). cbn [b_hs b_hdr b_hcrc b_payload b_pad b_chk b_out].
  split; [reflexivity|]. split; [|split; [|split]].
  - unfold blk_ok_gen. cbn [b_hs b_hdr b_hcrc b_payload b_pad b_chk b_out].
    split; [exact HS0|]. split; [exact L1'|]. split; [exact L2|]. split; [congruence|]. split.
    + exists bh, f0, fs, (snk_bytes (i_snk wd)), (i_src w2), (i_src wd).
      split; [exact EBH|]. split; [exact EF|]. split; [repeat split; assumption|].
      split. { unfold decode_filter. rewrite (proj2 (N.eqb_eq _ _) EP). cbn [negb]. cbv zeta. rewrite ED.
               rewrite AD2. f_equal. f_equal. f_equal. lia. }
      split; [exact ELF|]. split.
      * intros e Ee. rewrite Ee in EPK. destruct (N.eqb_spec (nlen payload) e); [assumption|discriminate EPK].
      * intros e Ee. rewrite Ee in EUP. destruct (N.eqb_spec (nlen out) e); [assumption|discriminate EUP].
    + split; [|exact CF]. unfold pad. rewrite P3. reflexivity.
  - (* consumed bytes *)
    rewrite S7.
    assert (A12 : sadv (i_src w) (i_src w2) (hdr ++ cb)) by apply R12.
    assert (A23 : sadv (i_src w2) (i_src wd) payload) by (repeat split; assumption).
    assert (A36 : sadv (i_src wd) (i_src w6) (pad ++ chk)) by apply R56.
    apply (sadv_eq _ _ ((hdr ++ cb) ++ payload ++ pad ++ chk)); [rewrite <- !app_assoc; reflexivity|].
    eapply sadv_trans; [exact A12|]. eapply sadv_trans; [exact A23|exact A36].
  - rewrite B7. f_equal. f_equal. rewrite (reads_snk _ _ _ R56). cbn [i_snk].
    rewrite (reads_snk _ _ _ R12). reflexivity.
  - rewrite S7, P6. f_equal. apply N.ltb_ge in EOV. rewrite S7, P6 in EOV.
    assert (PL : nlen pad = padding_of (s_pos (i_src wd) - start)) by (unfold pad; rewrite nlen_repeat; apply N2Nat.id).
    rewrite <- PL in *. rewrite P3 in *. autorewrite with nlen in *. lia.
Qed.

(* ================= the whole stream ================= *)
Section Loop.
Variable fuel : positive.
Variable ck : check_method.
Variable w0 : io.
Hypothesis NL0 : s_limit (i_src w0) = None.

Definition loop_inv (st : list record * io) : Prop :=
  exists blocks,
    Forall (blk_ok fuel ck) blocks /\
    sadv (i_src w0) (i_src (snd st)) (concat (map blk_bytes blocks)) /\
    fst st = rev (map blk_record blocks) /\
    snk_bytes (i_snk (snd st)) = snk_bytes (i_snk w0) ++ concat (map b_out blocks).

Definition loop_post (res : outcome N * io) : Prop :=
  forall isz, fst res = Done isz ->
  exists blocks index,
    Forall (blk_ok fuel ck) blocks /\
    sadv (i_src w0) (i_src (snd res)) (concat (map blk_bytes blocks) ++ index) /\
    index_bytes_ok (map blk_record blocks) index /\ isz = nlen index /\
    snk_bytes (i_snk (snd res)) = snk_bytes (i_snk w0) ++ concat (map b_out blocks).

Lemma xz_body_next st st' :
  loop_inv st -> xz_body crc32 crc64 fuel ck st = Next st' -> loop_inv st'.
Proof.
  destruct st as [records wc]. intros (blocks & FB & AD & ER & SK). cbn [fst snd] in *.
  unfold xz_body. destruct (run_io read_u8 wc) as [[hs|e|q] w1] eqn:E8; try discriminate.
  apply read_u8_inv in E8.
  destruct (N.eqb_spec hs 0) as [E0|HS0].
  { destruct (run_io (check_index crc32 (s_pos (i_src wc)) (lrev records)) w1) as [[[]|e|q] w2]; discriminate. }
  destruct (read_block crc32 crc64 fuel (s_pos (i_src wc)) ck hs w1) as [[r|e|q] w2] eqn:ERB; try discriminate.
  intros H. inversion H; subst st'; clear H. unfold loop_inv. cbn [fst snd].
  assert (NL1 : s_limit (i_src w1) = None).
  { eapply reads_nolim; [exact E8|]. eapply sadv_nolim; eassumption. }
  apply read_block_ok in ERB; [|exact NL1]. destruct ERB as (b & Ehs & OK & ADb & SKb & Er).
  pose proof (reads_pos _ _ _ E8) as P1. rewrite nlen_cons, nlen_nil in P1.
  exists (blocks ++ [b]). rewrite !map_app, !concat_app. cbn [map concat]. rewrite !app_nil_r.
  split; [|split; [|split]].
  - apply Forall_app. split; [exact FB|]. constructor; [|constructor]. unfold blk_ok.
    replace (nlen (b_hs b :: b_hdr b ++ b_hcrc b ++ b_payload b))
      with (s_pos (i_src w1) + nlen (b_hdr b ++ b_hcrc b ++ b_payload b) - s_pos (i_src wc)); [exact OK|].
    rewrite P1, nlen_cons. clear. lia.
  - eapply sadv_trans; [exact AD|]. unfold blk_bytes. rewrite Ehs.
    apply (sadv_trans _ _ _ [hs] _ (proj1 E8) ADb).
  - rewrite rev_app_distr. cbn [rev app]. rewrite ER, Er. f_equal. unfold blk_record. f_equal.
    rewrite P1, nlen_cons. clear. lia.
  - rewrite SKb, (reads_snk _ _ _ E8), SK, <- app_assoc. reflexivity.
Qed.

Lemma xz_body_break st res :
  loop_inv st -> xz_body crc32 crc64 fuel ck st = Break res -> loop_post res.
Proof.
  destruct st as [records wc]. intros (blocks & FB & AD & ER & SK). cbn [fst snd] in *.
  unfold xz_body. destruct (run_io read_u8 wc) as [[hs|e|q] w1] eqn:E8;
    try (intros H; inversion H; intros isz D; discriminate D).
  apply read_u8_inv in E8.
  destruct (N.eqb_spec hs 0) as [->|HS0].
  2:{ destruct (read_block crc32 crc64 fuel (s_pos (i_src wc)) ck hs w1) as [[r|e|q] w2];
        intros H; inversion H; intros isz D; discriminate D. }
  destruct (run_io (check_index crc32 (s_pos (i_src wc)) (lrev records)) w1) as [[[]|e|q] w2] eqn:ECI;
    intros H; inversion H; subst res; clear H; intros isz D; try discriminate D.
  cbn [fst snd] in *. inversion D; subst isz; clear D.
  apply check_index_ok in ECI. destruct ECI as (b0 & cs & pad & cb & R & M & F & (EP & _) & L & EC).
  pose proof (reads_pos _ _ _ E8) as P1. rewrite nlen_cons, nlen_nil in P1.
  assert (RI : reads wc w2 (0 :: b0 ++ concat cs ++ pad ++ cb)) by exact (reads_trans _ _ _ [0] _ E8 R).
  assert (ERS : lrev records = map blk_record blocks).
  { rewrite ER, lrev_rev, rev_involutive. reflexivity. }
  exists blocks, (0 :: b0 ++ concat cs ++ pad ++ cb).
  split; [exact FB|]. split; [eapply sadv_trans; [exact AD|apply RI]|]. split; [|split].
  - exists b0, cs, pad, cb. rewrite <- ERS. split; [reflexivity|]. split; [exact M|]. split; [exact F|].
    split; [|split; assumption]. rewrite EP. f_equal. f_equal. f_equal. rewrite P1, nlen_cons. lia.
  - rewrite (reads_pos _ _ _ RI). lia.
  - rewrite (reads_snk _ _ _ RI). exact SK.
Qed.
End Loop.

Theorem xz_decompress_sound fuel w w' :
  xz_decompress crc32 crc64 fuel w = (Done tt, w') ->
  s_limit (i_src w) = None ->
  exists ck hdr blocks index footer,
    (* the whole remaining input is one XZ stream *)
    s_rest (i_src w) = hdr ++ concat (map blk_bytes blocks) ++ index ++ footer /\
    s_rest (i_src w') = [] /\
    s_pos (i_src w') = s_pos (i_src w) + nlen (s_rest (i_src w)) /\
    (* stream header: magic, flags, CRC32 of the flags *)
    header_bytes_ok ck hdr /\
    (* every block: header CRC, declared sizes, zero padding, check field (CRC32 / CRC64 of the output) *)
    Forall (blk_ok fuel ck) blocks /\
    (* the index lists exactly the (unpadded size, uncompressed size) of the blocks read; its CRC32 matches *)
    index_bytes_ok (map blk_record blocks) index /\
    (* footer: CRC32, backward size = size of the index, same flags as the header, magic *)
    footer_bytes_ok ck (nlen index) footer /\
    (* the sink received exactly the outputs of the blocks, in order *)
    snk_bytes (i_snk w') = snk_bytes (i_snk w) ++ concat (map b_out blocks).
Proof.
  unfold xz_decompress. intros H NL.
  mbind H as ck w0 H0. apply header_parse_bytes in H0. destruct H0 as (hdr & RH & HOK).
  assert (NL0 : s_limit (i_src w0) = None) by (eapply reads_nolim; eassumption).
  pose proof (loopN_inv (xz_body crc32 crc64 fuel ck) (loop_inv fuel ck w0) (loop_post fuel ck w0)
                (fun s s' => xz_body_next fuel ck w0 NL0 s s')
                (fun s r => xz_body_break fuel ck w0 s r) fuel ([], w0)) as L.
  assert (I0 : loop_inv fuel ck w0 ([], w0)).
  { exists []. cbn [map concat fst snd rev]. rewrite app_nil_r. repeat split; try constructor.
    - apply sadv_refl.
    - apply (sadv_refl (i_src w0)). }
  specialize (L I0).
  destruct (loopN fuel (xz_body crc32 crc64 fuel ck) ([], w0)) as [[recs wn]|[[isz|e|q] wf]]; try discriminate H.
  destruct (L isz eq_refl) as (blocks & index & FB & AD & IOK & -> & SK). cbn [fst snd] in *.
  apply xz_footer_ok in H. destruct H as (cb & bs & b0 & b1 & RF & L1 & L2 & EI & -> & EC & ECRC & Z).
  assert (NLf : s_limit (i_src wf) = None) by (eapply sadv_nolim; eassumption).
  specialize (Z NLf).
  assert (A : sadv (i_src w) (i_src w')
               (hdr ++ (concat (map blk_bytes blocks) ++ index) ++ cb ++ bs ++ [0; b1] ++ XZ_MAGIC_FOOTER)).
  { eapply sadv_trans; [apply RH|]. eapply sadv_trans; [exact AD|apply RF]. }
  destruct A as (AR & AP & _). rewrite Z, app_nil_r in AR.
  exists ck, hdr, blocks, index, (cb ++ bs ++ [0; b1] ++ XZ_MAGIC_FOOTER).
  split; [rewrite AR, <- !app_assoc; reflexivity|]. split; [exact Z|]. split; [rewrite AP, AR; reflexivity|].
  split; [exact HOK|]. split; [exact FB|]. split; [exact IOK|]. split.
  - exists cb, bs, b1. auto 10.
  - rewrite (reads_snk _ _ _ RF), SK, (reads_snk _ _ _ RH). reflexivity.
Qed.

End WithCrc.

Print Assumptions header_parse_ok.
Print Assumptions xz_footer_ok.
Print Assumptions check_index_ok.
Print Assumptions read_block_ok.
Print Assumptions xz_decompress_sound.

(* ---------- non-vacuity: the hypothesis of xz_decompress_sound is satisfiable ---------- *)
(* python3: lzma.compress(b"hello", format=FORMAT_XZ, check=CHECK_CRC32) *)
Definition sample_xz : list N :=
  [253; 55; 122; 88; 90; 0; 0; 1; 105; 34; 222; 54; 2; 0; 33; 1; 22; 0; 0; 0; 116; 47; 229; 163; 1; 0; 4; 104; 101; 108; 108; 111; 0; 0; 0; 0; 134; 166; 16; 54; 0; 1; 25; 5; 188; 232; 236; 203; 144; 66; 153; 13; 1; 0; 0; 0; 0; 1; 89; 90].
Example sample_xz_accepted :
  exists w', xz_decompress crc32_exec crc64_exec big_fuel (mkIo (cursor_of sample_xz) vec_sink) = (Done tt, w') /\
             snk_bytes (i_snk w') = [104; 101; 108; 108; 111].
Proof. eexists. split; [vm_compute; reflexivity|vm_compute; reflexivity]. Qed.
(* one flipped bit in the check field is rejected *)
Example sample_xz_corrupt_rejected :
  fst (xz_decompress crc32_exec crc64_exec big_fuel
         (mkIo (cursor_of (firstn 36 sample_xz ++ [135] ++ skipn 37 sample_xz)) vec_sink)) = Failed EXz.
Proof. vm_compute. reflexivity. Qed.
(* Why the CRC fields are described by [length cb = 4 /\ le_num cb = crc] rather than by
   [cb = le_bytes 4 crc]: source "bytes" of the model are unbounded N, and le_num is not
   injective on them.  Over real bytes (< 256) the two agree: le_bytes_le_num, header_parse_ok_bytes. *)
Example header_nonbyte_accepted :
  fst (run_io (header_parse crc32_exec) (mkIo (cursor_of (XZ_MAGIC ++ [0; 1] ++ [361; 33; 222; 54])) vec_sink))
    = Done CkCrc32 /\
  le_bytes 4 (crc32_exec [0; 1]) <> [361; 33; 222; 54].
Proof. split; [vm_compute; reflexivity|vm_compute; discriminate]. Qed.
