(* C02, layer 4b: the payload of one LZMA chunk.  From a decoder state that agrees with the
   encoder state at the start of the chunk, pl_payload (set_unpacked_size, Take(packed),
   RangeDecoder::new, process_mode Finish) consumes exactly the packed bytes, appends exactly
   the chunk's output to the accumulating window and ends in the encoder's state. *)
From LZ Require Import Base.Prelude Base.Prog Model.Io Model.Tables Model.LzBuffer Model.RangeDec Model.Lzma Model.Lzma2
  Format.RefEnc Format.Lzma2Fmt
  Proofs.ProgLemmas Proofs.MapLemmas Proofs.IoLemmas Proofs.RangeLockstep Proofs.WinCirc Proofs.WinAccum Proofs.NoPanic Proofs.NoPanicWorld
  Proofs.SymOracle Proofs.SymCoders Proofs.SymLiteral Proofs.SymDecode Proofs.SymChain
  Proofs.Lzma2Inv Proofs.Lzma2Framing
  Proofs.LzmaExactSync Proofs.LzmaExactShape Proofs.LzmaExactRefine Proofs.LzmaExactLoop Proofs.LzmaExact
  Proofs.Lzma2ExactIo Proofs.Lzma2ExactRefine Proofs.Lzma2ExactLoop Proofs.Lzma2ExactChunk.
From Coq Require Import ZifyBool ZifyNat ZifyN.
Local Open Scope prog_scope.

Theorem payload_exact fp p t1 st1 h1 prog ie es2 delta pre fl d0 sx a1 t fuel :
  props_match p fp ->
  (* the decoder state agrees with the encoder state at the start of the chunk *)
  ds_pib d0 = [] -> ds_props d0 = p -> ds_tabs d0 = t1 -> ds_state d0 = st1 -> ds_rep d0 = reps_of h1 ->
  st1 < 12 -> Forall (fun b => b < 256) (h_bytes h1) -> h_len h1 = nlen (h_bytes h1) -> rep0_ok None st1 h1 ->
  TabsStd t1 (lc p + lp p) -> ProbsOk t1 ->
  (* the chunk *)
  enc_syms_gen false fp None ienc0 (mkEstate t1 st1 h1) prog = Some (ie, es2) ->
  Forall (fun x => x <> EndMarker) prog -> delta < i_range ie ->
  h_len (es_hist es2) <= 18446744073709551615 ->
  (* window and source *)
  AInv pre a1 (List.rev (h_bytes h1)) -> a_mem a1 = 18446744073709551615 ->
  k_ffail (a_snk a1) = false -> k_flushes (a_snk a1) = fl ->
  FaultFree sx -> s_rest sx = ienc_bytes ie delta ++ t ->
  (length prog + 1 <= Pos.to_nat fuel)%nat ->
  exists w',
    pl_payload fuel (h_len (es_hist es2) - h_len h1) (nlen (ienc_bytes ie delta)) (mkW2 d0 sx a1) = (Done tt, w') /\
    ds_pib (w_ds w') = [] /\ ds_props (w_ds w') = p /\ ds_tabs (w_ds w') = es_tabs es2 /\
    ds_state (w_ds w') = es_st es2 /\ ds_rep (w_ds w') = reps_of (es_hist es2) /\
    es_st es2 < 12 /\ Forall (fun b => b < 256) (h_bytes (es_hist es2)) /\
    h_len (es_hist es2) = nlen (h_bytes (es_hist es2)) /\ rep0_ok None (es_st es2) (es_hist es2) /\
    TabsStd (es_tabs es2) (lc p + lp p) /\ ProbsOk (es_tabs es2) /\
    AInv pre (w_acc w') (List.rev (h_bytes (es_hist es2))) /\ a_mem (w_acc w') = 18446744073709551615 /\
    k_ffail (a_snk (w_acc w')) = false /\ k_flushes (a_snk (w_acc w')) = fl /\
    FaultFree (w_src w') /\ s_rest (w_src w') = t /\ s_pos (w_src w') = s_pos sx + nlen (ienc_bytes ie delta).
Proof.
  intros Hpm Dpib Dpr Dtabs Dst Drep Hst12 Hby Hlen Hr0 Hstd Hpo Henc Hnm Hdelta Hbound HA Hmem Hff Hfl Fx Rx Hfuel.
  destruct (enc_syms_prog_evs fp None prog ienc0 t1 st1 h1 ie es2 Henc) as (evs & Hpe & Hfold).
  pose proof (f_equal fst Hfold) as Hfold1. cbn [fst] in Hfold1.
  pose proof Hfold1 as Hfr. rewrite fold_ev_rev in Hfr.
  pose proof (to_revs_wf evs t1 Hpo) as Hwfr.
  destruct (init_sync (to_revs t1 evs) delta Hwfr ltac:(rewrite Hfr; exact Hdelta))
    as (c3 & c2 & c1 & c0 & rest & Hbytes & Hsync).
  rewrite Hfr in Hbytes, Hsync.
  pose proof (prog_evs_len _ _ _ _ _ _ _ _ Hpe) as Hgrow.
  set (payload := ienc_bytes ie delta) in *.
  set (packed := nlen payload).
  assert (HT : TakeOk (set_limit sx (Some packed)) payload t).
  { apply TakeOk_enter; [apply FaultFree_L; exact Fx|exact Rx]. }
  rewrite Hbytes in HT.
  destruct (rc_new_take _ 0 c3 c2 c1 c0 rest t HT) as (s0 & Hrun0 & HT0 & Hp0).
  set (r0 := mkRc 4294967295 (be_num [c3; c2; c1; c0])) in *.
  assert (Hnl : nlen rest = i_norms ie).
  { destruct Hsync as (_ & _ & Hn & _). change (i_norms ienc0) with 0 in Hn. lia. }
  assert (Halen : a_len a1 = h_len h1).
  { destruct HA as (_ & Hl & _). rewrite Hl, nlen_rev. symmetry. exact Hlen. }
  set (hf := es_hist es2) in *. set (stf := es_st es2) in *. set (tf := es_tabs es2) in *.
  set (pos_end := s_pos sx + packed).
  set (d := set_unpacked_size d0 (Some (h_len hf - h_len h1 + a_len a1))).
  assert (HI : LInv2 fp p pre ie tf delta t pos_end fl stf hf prog (mkLw d r0 s0 (WAccum a1))).
  { exists st1, h1, h1, evs. unfold d, set_unpacked_size.
    cbn [l_ds l_rc l_src l_win ds_pib ds_props ds_unpacked ds_tabs ds_state ds_rep].
    split; [exact Dpib|]. split; [exact Dpr|]. split; [f_equal; lia|]. split; [exact Dst|]. split; [exact Drep|].
    split; [exact Hst12|]. split; [exact Hby|]. split; [exact Hr0|].
    split; [reflexivity|]. split; [reflexivity|]. split; [exact Hpe|].
    exists evs. cbn [fst snd d_tabs d_rc d_src d_win]. split; [reflexivity|]. split.
    - exists ienc0, rest. rewrite Dtabs. split; [exact wf_ienc0|]. split; [exact Hstd|]. split; [exact Hpo|].
      split; [exact Hfold|]. split; [exact Hsync|]. split; [exact HT0|].
      rewrite Hp0. unfold pos_end, packed, set_limit. cbn [s_pos]. rewrite Hbytes, !nlen_cons. lia.
    - exists a1. split; [reflexivity|]. split; [exact HA|]. split; [exact Hmem|]. split; [exact Hff|]. split; [exact Hfl|].
      split; [exact Hlen|exact Hby]. }
  destruct (process_mode_exact2 fp p Hpm pre ie tf delta t pos_end fl 18446744073709551615 Hdelta (N.le_refl _)
              stf hf Hbound prog _ fuel HI Hnm Hfuel) as (x & Hpmode & HF).
  destruct HF as (F1 & F2 & F3 & F4 & F5 & F6 & F7 & F8 & F9 & F10 & F11 & (ho & Eb & El & HW) & FT & FP).
  destruct HW as (a' & Hwin & HA' & Hm' & Hff' & Hfl' & Hl' & _).
  destruct (TakeOk_leave _ _ _ FT) as (FF & FR & FPp).
  eexists. split.
  - unfold pl_payload. cbn [w_ds w_src w_acc]. fold packed.
    rewrite (LzmaExact.src_run_map_io_err ELzma rc_new _ _ _ Hrun0).
    fold d. rewrite Hpmode. reflexivity.
  - cbn [w_ds w_src w_acc]. rewrite Hwin.
    split; [exact F1|]. split; [exact F2|]. split; [exact F4|]. split; [exact F5|]. split; [exact F6|].
    split; [exact F7|]. split; [exact F8|]. split; [rewrite <- El, <- Eb; exact Hl'|]. split; [exact F9|].
    split; [exact F10|]. split; [exact F11|].
    split; [rewrite <- Eb; exact HA'|]. split; [exact Hm'|]. split; [exact Hff'|]. split; [exact Hfl'|].
    split; [exact FF|]. split; [exact FR|]. rewrite FPp, FP. reflexivity.
Qed.
Print Assumptions payload_exact.
