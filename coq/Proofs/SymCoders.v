(* One lemma per coder: under the event oracle, each decoding routine of the model consumes
   exactly the events that the format's binarisation produces and returns the coded value. *)
From LZ Require Import Base.Prelude Base.Prog Model.Tables Model.RangeDec Model.Lzma Format.RefEnc
  Proofs.ProgLemmas Proofs.SymOracle.
Local Open Scope prog_scope.

(* ---------- MSB-first bit tree ---------- *)
Lemma bit_tree_loop_decodes w mk upd v rest h : forall n m,
  (m + 1) * 2 ^ N.of_nat n <= 4294967296 ->
  interp (oracle w) (bit_tree_loop n mk upd m) (tree_evs n mk v m ++ rest, h)
  = (Done (m * 2 ^ N.of_nat n + v mod 2 ^ N.of_nat n), (rest, h)).
Proof.
  induction n as [|n IH]; intros m Hm.
  - cbn [bit_tree_loop tree_evs app]. rewrite interp_ret.
    change (N.of_nat 0) with 0. rewrite N.pow_0_r, N.mod_1_r. do 2 f_equal. lia.
  - cbn [bit_tree_loop tree_evs app]. rewrite interp_bit.
    rewrite Nat2N.inj_succ in *. rewrite N.pow_succ_r' in Hm.
    set (b := nbit v (N.of_nat n)).
    assert (HP := pow2_pos (N.of_nat n)).
    assert (Hb := b2n_le1 b).
    rewrite M32_small.
    2:{ rewrite N.shiftl_mul_pow2. change (2 ^ 1) with 2.
        set (P := 2 ^ N.of_nat n) in *. clearbody P. nia. }
    rewrite lxor_double_bit. rewrite IH.
    2:{ set (P := 2 ^ N.of_nat n) in *. clearbody P. destruct b; cbn [b2n] in *; nia. }
    do 2 f_equal. rewrite mod_pow2_succ, N.pow_succ_r'. fold b. unfold nbit in b. fold b. ring.
Qed.

Theorem bit_tree_decodes w nb mk upd v rest h :
  nb < 32 -> v < 2 ^ nb ->
  interp (oracle w) (parse_bit_tree nb mk upd) (tree_evs (N.to_nat nb) mk v 1 ++ rest, h)
  = (Done v, (rest, h)).
Proof.
  intros Hnb Hv. unfold parse_bit_tree.
  assert (H32 : 2 * 2 ^ nb <= 4294967296).
  { change 4294967296 with (2 ^ N.succ 31). rewrite N.pow_succ_r'.
    apply N.mul_le_mono_l. apply N.pow_le_mono_r; lia. }
  rewrite (interp_bind_done _ _ _ _ _ _ (bit_tree_loop_decodes w mk upd v rest h (N.to_nat nb) 1 ltac:(rewrite N2Nat.id; exact H32))).
  rewrite N2Nat.id, N.shiftl_1_l, N.mod_small by exact Hv.
  destruct (N.ltb_spec (1 * 2 ^ nb + v) (2 ^ nb)) as [L|G]; [lia|].
  rewrite interp_ret. do 2 f_equal. lia.
Qed.
Print Assumptions bit_tree_decodes.

(* ---------- LSB-first bit tree ---------- *)
Lemma rev_bit_tree_loop_decodes w mk offset upd v rest h : forall n i m,
  i + N.of_nat n <= 32 ->
  interp (oracle w) (rev_bit_tree_loop n i mk offset upd m (v mod 2 ^ i)) (rtree_evs n i mk offset v m ++ rest, h)
  = (Done (v mod 2 ^ (i + N.of_nat n)), (rest, h)).
Proof.
  induction n as [|n IH]; intros i m Hi.
  - cbn [rev_bit_tree_loop rtree_evs app]. rewrite interp_ret. change (N.of_nat 0) with 0.
    rewrite N.add_0_r. reflexivity.
  - cbn [rev_bit_tree_loop rtree_evs app]. rewrite interp_bit.
    rewrite Nat2N.inj_succ in *.
    set (b := nbit v i).
    rewrite lxor_double_bit.
    rewrite N.shiftl_mul_pow2.
    assert (Hb := b2n_le1 b).
    assert (HP : 2 ^ i <= 2 ^ 31) by (apply N.pow_le_mono_r; lia).
    rewrite M32_small.
    2:{ change (2 ^ 31) with 2147483648 in HP. set (P := 2 ^ i) in *. clearbody P. nia. }
    rewrite lxor_disjoint by (apply N.mod_lt, N.pow_nonzero; lia).
    replace (v mod 2 ^ i + b2n b * 2 ^ i) with (v mod 2 ^ (i + 1)).
    2:{ rewrite N.add_1_r, mod_pow2_succ. unfold b, nbit. lia. }
    rewrite IH by lia. replace (i + 1 + N.of_nat n) with (i + N.succ (N.of_nat n)) by lia. reflexivity.
Qed.

Theorem rev_bit_tree_decodes w nb mk offset upd v rest h :
  nb <= 32 -> v < 2 ^ nb ->
  interp (oracle w) (parse_reverse_bit_tree nb mk offset upd)
         (rtree_evs (N.to_nat nb) 0 mk offset v 1 ++ rest, h)
  = (Done v, (rest, h)).
Proof.
  intros Hnb Hv. unfold parse_reverse_bit_tree.
  pose proof (rev_bit_tree_loop_decodes w mk offset upd v rest h (N.to_nat nb) 0 1) as P.
  rewrite N2Nat.id, N.pow_0_r, N.mod_1_r, N.add_0_l, (N.mod_small v) in P by exact Hv.
  apply P. lia.
Qed.
Print Assumptions rev_bit_tree_decodes.

(* ---------- direct bits ---------- *)
Lemma pop_direct_evs v rest : forall n acc,
  pop_direct n acc (direct_evs n v ++ rest)
  = Some (acc * 2 ^ N.of_nat n + v mod 2 ^ N.of_nat n, rest).
Proof.
  induction n as [|n IH]; intros acc.
  - cbn [pop_direct direct_evs app]. change (N.of_nat 0) with 0.
    rewrite N.pow_0_r, N.mod_1_r. do 2 f_equal. lia.
  - cbn [pop_direct direct_evs app]. rewrite IH. rewrite Nat2N.inj_succ.
    rewrite mod_pow2_succ, N.pow_succ_r'. unfold nbit. do 2 f_equal. ring.
Qed.

Theorem direct_decodes {A} w n v rest h (k : N -> dprog A) :
  v < 2 ^ n ->
  interp (oracle w) (bind (dcall (Direct n)) k) (direct_evs (N.to_nat n) v ++ rest, h)
  = interp (oracle w) (k v) (rest, h).
Proof.
  intros Hv. apply interp_direct. rewrite pop_direct_evs, N2Nat.id, N.mod_small by exact Hv.
  do 2 f_equal; lia.
Qed.
Print Assumptions direct_decodes.

(* ---------- lengths ---------- *)
Theorem len_decodes w rep ps upd l rest h :
  l <= 271 ->
  interp (oracle w) (len_decode rep ps upd) (len_evs rep ps l ++ rest, h) = (Done l, (rest, h)).
Proof.
  intros Hl. unfold len_decode, len_evs.
  destruct (N.ltb_spec l 8) as [L8|G8].
  - cbn [app]. rewrite interp_bit. cbn [negb].
    apply (bit_tree_decodes w 3); [lia|]. change (2 ^ 3) with 8. exact L8.
  - destruct (N.ltb_spec l 16) as [L16|G16].
    + cbn [app]. rewrite interp_bit. cbn [negb]. rewrite interp_bit. cbn [negb].
      rewrite (interp_bind_done _ _ _ _ _ _ (bit_tree_decodes w 3 _ upd (l - 8) rest h ltac:(lia) ltac:(change (2 ^ 3) with 8; lia))).
      rewrite interp_ret. do 2 f_equal. lia.
    + cbn [app]. rewrite interp_bit. cbn [negb]. rewrite interp_bit. cbn [negb].
      rewrite (interp_bind_done _ _ _ _ _ _ (bit_tree_decodes w 8 _ upd (l - 16) rest h ltac:(lia) ltac:(change (2 ^ 8) with 256; lia))).
      rewrite interp_ret. do 2 f_equal. lia.
Qed.
Print Assumptions len_decodes.

(* ---------- distances ---------- *)
Lemma dist_slot_small d0 : dist_slot d0 < 4 -> dist_slot d0 = d0.
Proof.
  unfold dist_slot. destruct (N.ltb_spec d0 4) as [L|G]; [reflexivity|].
  intros H. exfalso.
  assert (2 <= N.log2 d0) by (change 2 with (N.log2 4); apply N.log2_le_mono; exact G).
  lia.
Qed.

Lemma pow2_gt_lin k : k + 1 <= 2 ^ k.
Proof. pose proof (N.pow_gt_lin_r 2 k). lia. Qed.

Lemma dist_slot_facts d0 :
  4 <= d0 -> d0 < 4294967296 ->
  let slot := dist_slot d0 in
  let ndb := N.shiftr slot 1 - 1 in
  let base := N.shiftl (2 + N.land slot 1) ndb in
  4 <= slot /\ slot < 64 /\ N.lxor 2 (N.land slot 1) = 2 + N.land slot 1 /\
  base <= d0 /\ d0 - base < 2 ^ ndb /\ 1 <= ndb /\ ndb <= 30 /\ slot <= base /\
  (slot < 14 -> ndb <= 5) /\ (14 <= slot -> 6 <= ndb).
Proof.
  intros G U. unfold dist_slot. destruct (N.ltb_spec d0 4) as [L|_]; [lia|].
  set (nb := N.log2 d0). set (bit := nbit d0 (nb - 1)).
  assert (Hnb2 : 2 <= nb) by (change 2 with (N.log2 4); apply N.log2_le_mono; exact G).
  assert (Hnb31 : nb <= 31).
  { destruct (N.le_gt_cases nb 31) as [?|C]; [assumption|exfalso].
    assert (32 <= N.log2 d0) by (fold nb; lia).
    pose proof (N.log2_spec d0 ltac:(lia)) as [S1 _].
    assert (2 ^ 32 <= 2 ^ N.log2 d0) by (apply N.pow_le_mono_r; lia).
    change (2 ^ 32) with 4294967296 in *. lia. }
  assert (Hb := b2n_le1 bit).
  cbv zeta.
  assert (Eshr : N.shiftr (2 * nb + b2n bit) 1 = nb).
  { rewrite N.shiftr_div_pow2. change (2 ^ 1) with 2.
    symmetry. apply (N.div_unique _ 2 nb (b2n bit)); lia. }
  assert (Eland : N.land (2 * nb + b2n bit) 1 = b2n bit).
  { change 1 with (N.ones 1). rewrite N.land_ones. change (2 ^ 1) with 2.
    symmetry. apply (N.mod_unique _ 2 nb (b2n bit)); lia. }
  rewrite Eshr, Eland.
  assert (Elx : N.lxor 2 (b2n bit) = 2 + b2n bit) by (destruct bit; reflexivity).
  rewrite N.shiftl_mul_pow2.
  (* decomposition of d0 *)
  pose proof (N.log2_spec d0 ltac:(lia)) as [S1 S2]. fold nb in S1, S2.
  assert (Esucc : nb = N.succ (nb - 1)) by lia.
  assert (Emod : d0 mod 2 ^ nb = d0 - 2 ^ nb).
  { symmetry; apply (N.mod_unique d0 (2 ^ nb) 1); [rewrite N.pow_succ_r' in S2; lia | lia]. }
  assert (Edec : d0 mod 2 ^ nb = b2n bit * 2 ^ (nb - 1) + d0 mod 2 ^ (nb - 1)).
  { rewrite Esucc at 1. rewrite mod_pow2_succ. reflexivity. }
  assert (Hrem : d0 mod 2 ^ (nb - 1) < 2 ^ (nb - 1)) by (apply N.mod_lt, N.pow_nonzero; lia).
  assert (Epow : 2 ^ nb = 2 * 2 ^ (nb - 1)) by (rewrite Esucc at 1; apply N.pow_succ_r').
  assert (Hlin := pow2_gt_lin (nb - 1)).
  set (P := 2 ^ (nb - 1)) in *. set (r := d0 mod P) in *. clearbody P r.
  rewrite Epow in *.
  assert (Ebase : (2 + b2n bit) * P = 2 * P + b2n bit * P) by ring.
  assert (HbP : b2n bit * P <= P) by (destruct bit; cbn [b2n]; lia).
  assert (HbP' : b2n bit <= b2n bit * P) by (destruct bit; cbn [b2n]; lia).
  repeat split; try lia.
Qed.

Lemma dist_slot_lt64 d0 : d0 < 4294967296 -> dist_slot d0 < 64.
Proof.
  intros U. destruct (N.lt_ge_cases d0 4) as [L|G].
  - unfold dist_slot. destruct (N.ltb_spec d0 4); lia.
  - apply (dist_slot_facts d0 G U).
Qed.

Theorem dist_decodes w upd l d0 rest h :
  d0 < 4294967296 ->
  interp (oracle w) (decode_distance l upd) (dist_evs l d0 ++ rest, h) = (Done d0, (rest, h)).
Proof.
  intros U. unfold decode_distance, dist_evs.
  set (ls := if 3 <? l then 3 else l).
  assert (S64 := dist_slot_lt64 d0 U).
  rewrite <- app_assoc.
  rewrite (interp_bind_done _ _ _ _ _ _ (bit_tree_decodes w 6 _ upd (dist_slot d0) _ h ltac:(lia) ltac:(change (2 ^ 6) with 64; exact S64))).
  destruct (N.ltb_spec (dist_slot d0) 4) as [L4|G4].
  - cbn [app]. rewrite interp_ret. rewrite (dist_slot_small d0 L4). reflexivity.
  - assert (G : 4 <= d0).
    { destruct (N.lt_ge_cases d0 4) as [C|C]; [|exact C]. exfalso.
      unfold dist_slot in G4. destruct (N.ltb_spec d0 4); lia. }
    pose proof (dist_slot_facts d0 G U) as F. cbv zeta in F.
    destruct F as (F1 & F2 & Elx & Fb & Frem & Fn1 & Fn30 & Fsb & Fs14 & Fg14).
    rewrite Elx.
    set (slot := dist_slot d0) in *.
    set (ndb := N.shiftr slot 1 - 1) in *.
    set (base := N.shiftl (2 + N.land slot 1) ndb) in *.
    destruct (N.ltb_spec slot 14) as [L14|G14].
    + destruct (N.ltb_spec base slot) as [C|_]; [lia|].
      rewrite (interp_bind_done _ _ _ _ _ _ (rev_bit_tree_decodes w ndb _ (base - slot) upd (d0 - base) rest h ltac:(lia) Frem)).
      rewrite interp_ret. do 2 f_equal. lia.
    + specialize (Fg14 G14).
      set (rem := d0 - base) in *.
      assert (Epow : 2 ^ ndb = 16 * 2 ^ (ndb - 4)).
      { replace ndb with (4 + (ndb - 4)) at 1 by lia. rewrite N.pow_add_r. reflexivity. }
      assert (Hhi : N.shiftr rem 4 < 2 ^ (ndb - 4)).
      { rewrite N.shiftr_div_pow2. change (2 ^ 4) with 16.
        apply N.div_lt_upper_bound; lia. }
      rewrite <- app_assoc.
      rewrite (direct_decodes w (ndb - 4) (N.shiftr rem 4) _ h _ Hhi).
      assert (Hlo : N.land rem 15 < 2 ^ 4).
      { change 15 with (N.ones 4). rewrite N.land_ones. apply N.mod_lt. discriminate. }
      pose proof (rev_bit_tree_decodes w 4 (fun i => CAlign i) 0 upd (N.land rem 15) rest h ltac:(lia) Hlo) as R.
      change (N.to_nat 4) with 4%nat in R.
      rewrite (interp_bind_done _ _ _ _ _ _ R).
      rewrite interp_ret. do 2 f_equal.
      rewrite N.shiftl_mul_pow2, N.shiftr_div_pow2. change 15 with (N.ones 4). rewrite N.land_ones.
      change (2 ^ 4) with 16.
      pose proof (N.div_mod rem 16 ltac:(discriminate)). lia.
Qed.
Print Assumptions dist_decodes.
