(* One LZMA symbol consumes at most 20 input bytes (MAX_REQUIRED_INPUT).
   Part 1: arithmetic on the range register; Part 2: process_next_inner issues at most
   22 probability-coded and 26 direct bit operations; Part 3: combination on dec_h. *)
From LZ Require Import Base.Prelude Base.Prog Model.Io Model.Tables Model.LzBuffer Model.RangeDec Model.Lzma.
From LZ Require Import Proofs.ProgLemmas Proofs.MapLemmas.
From Coq Require Import ZifyBool ZifyNat ZifyN.
Ltac Zify.zify_post_hook ::= Z.div_mod_to_equations.
Local Open Scope N_scope.

(* ====================================================================== *)
(* Part 1: arithmetic                                                     *)
(* ====================================================================== *)

Definition T24 : N := 16777216.
Definition T32 : N := 4294967296.

(* one range-coder operation, abstracted to what it does to (range, #normalisations).
   [OP p b] : decode_bit on probability p returning bit b;  [OD] : one direct bit *)
Inductive op := OP (p : N) (b : bool) | OD.
Definition wf_op (o : op) : Prop := match o with OP p _ => 31 <= p <= 2017 | OD => True end.

(* the range before normalisation, exactly as rc_decode_bit / rc_get_bit compute it *)
Definition pre (R : N) (o : op) : N :=
  match o with
  | OP p false => N.shiftr R 11 * p
  | OP p true  => R - N.shiftr R 11 * p
  | OD => N.shiftr R 1
  end.
Definition step (st : N * N) (o : op) : N * N :=
  let '(R, n) := st in let R' := pre R o in
  if R' <? T24 then (R' * 256, n + 1) else (R', n).
Definition run (st : N * N) (os : list op) : N * N := fold_left step os st.

Fixpoint cntP (os : list op) : nat := match os with [] => O | OP _ _ :: t => S (cntP t) | OD :: t => cntP t end.
Fixpoint cntD (os : list op) : nat := match os with [] => O | OD :: t => S (cntD t) | _ :: t => cntD t end.

Lemma pre_div R o : pre R o = match o with
                              | OP p false => R / 2048 * p
                              | OP p true => R - R / 2048 * p
                              | OD => R / 2 end.
Proof. unfold pre. rewrite !N.shiftr_div_pow2. reflexivity. Qed.

(* per-operation shrink bounds, as cross-multiplied integer inequalities *)
Definition cA : N := 16777216.          (* 2048 * 8192 *)
Definition cC : N := 253921.            (* 31 * 8191   *)
Definition cB : N := 33554432.          (* 2^25        *)
Definition cD : N := 16777215.          (* 2^24 - 1    *)

Lemma pre_prob R p b : T24 <= R < T32 -> 31 <= p <= 2017 ->
  R * cC <= pre R (OP p b) * cA /\ 65536 <= pre R (OP p b) < T32.
Proof. rewrite pre_div. unfold T24, T32, cA, cC. intros HR Hp. destruct b; nia. Qed.
Lemma pre_dir R : T24 <= R < T32 -> R * cD <= pre R OD * cB /\ 8388608 <= pre R OD < T32.
Proof. rewrite pre_div. unfold T24, T32, cB, cD. intros HR. lia. Qed.

Definition wW (o : op) : N := match o with OP _ _ => cA | OD => cB end.
Definition wK (o : op) : N := match o with OP _ _ => cC | OD => cD end.
Fixpoint W (os : list op) : N := match os with [] => 1 | o :: t => wW o * W t end.
Fixpoint K (os : list op) : N := match os with [] => 1 | o :: t => wK o * K t end.

Lemma step_inv R n o : T24 <= R < T32 -> wf_op o ->
  let '(R', n') := step (R, n) o in
  T24 <= R' < T32 /\ n <= n' <= n + 1 /\
  R * wK o * 256 ^ (n' - n) <= R' * wW o.
Proof.
  intros HR Hw. unfold step.
  destruct o as [p b|]; cbn [wf_op] in Hw.
  - destruct (pre_prob R p b HR Hw) as [H1 H2].
    destruct (N.ltb_spec (pre R (OP p b)) T24) as [Hlt|Hge].
    + replace (n + 1 - n) with 1 by lia. change (256 ^ 1) with 256. unfold T24, T32, wW, wK, cA, cC in *. lia.
    + replace (n - n) with 0 by lia. change (256 ^ 0) with 1. unfold T24, T32, wW, wK, cA, cC in *. lia.
  - destruct (pre_dir R HR) as [H1 H2].
    destruct (N.ltb_spec (pre R OD) T24) as [Hlt|Hge].
    + replace (n + 1 - n) with 1 by lia. change (256 ^ 1) with 256. unfold T24, T32, wW, wK, cB, cD in *. lia.
    + replace (n - n) with 0 by lia. change (256 ^ 0) with 1. unfold T24, T32, wW, wK, cB, cD in *. lia.
Qed.

Lemma W_pos os : 0 < W os. Proof. induction os as [|[p b|] t IH]; cbn [W wW]; unfold cA, cB; lia. Qed.
Lemma K_pos os : 0 < K os. Proof. induction os as [|[p b|] t IH]; cbn [K wK]; unfold cC, cD; lia. Qed.

Lemma run_inv os : forall R n, T24 <= R < T32 -> Forall wf_op os ->
  let '(R', n') := run (R, n) os in
  T24 <= R' < T32 /\ n <= n' /\ R * K os * 256 ^ (n' - n) <= R' * W os.
Proof.
  induction os as [|o os IH]; intros R n HR Hw; cbn [run fold_left].
  - cbn [K W]. replace (n - n) with 0 by lia. change (256 ^ 0) with 1. lia.
  - inversion Hw as [|? ? Hw1 Hw2]; subst.
    pose proof (step_inv R n o HR Hw1) as Hs. destruct (step (R, n) o) as [R1 n1] eqn:E.
    destruct Hs as (HR1 & Hn1 & Hsh).
    specialize (IH R1 n1 HR1 Hw2). unfold run in IH.
    destruct (fold_left step os (R1, n1)) as [R2 n2]. destruct IH as (HR2 & Hn2 & Hacc).
    split; [exact HR2|]. split; [lia|]. cbn [K W].
    replace (n2 - n) with ((n1 - n) + (n2 - n1)) by lia. rewrite N.pow_add_r.
    pose proof (K_pos os) as PK. pose proof (W_pos os) as PW.
    assert (PwW: 0 < wW o) by (destruct o; cbn [wW]; unfold cA, cB; lia).
    set (k1 := 256 ^ (n1 - n)) in *. set (k2 := 256 ^ (n2 - n1)) in *.
    set (Ko := K os) in *. set (Wo := W os) in *. set (a := wW o) in *. set (c := wK o) in *.
    clearbody k1 k2 Ko Wo a c.
    transitivity ((R1 * a) * (Ko * k2)).
    + replace (R * (c * Ko) * (k1 * k2)) with ((R * c * k1) * (Ko * k2)) by ring.
      apply N.mul_le_mono_r. exact Hsh.
    + replace (R1 * a * (Ko * k2)) with (a * (R1 * Ko * k2)) by ring.
      replace (R2 * (a * Wo)) with (a * (R2 * Wo)) by ring.
      apply N.mul_le_mono_l. exact Hacc.
Qed.

Lemma W_K_closed os : W os = cA ^ N.of_nat (cntP os) * cB ^ N.of_nat (cntD os) /\
                      K os = cC ^ N.of_nat (cntP os) * cD ^ N.of_nat (cntD os).
Proof.
  induction os as [|[p b|] t [IW IK]]; cbn [W K wW wK cntP cntD].
  - split; reflexivity.
  - rewrite IW, IK, Nat2N.inj_succ, !N.pow_succ_r'. split; ring.
  - rewrite IW, IK, Nat2N.inj_succ, !N.pow_succ_r'. split; ring.
Qed.

Lemma W_K_budget os : (cntP os <= 22)%nat -> (cntD os <= 26)%nat ->
  W os * (cC ^ 22 * cD ^ 26) <= K os * (cA ^ 22 * cB ^ 26).
Proof.
  intros HP HD. destruct (W_K_closed os) as [-> ->].
  set (p := N.of_nat (cntP os)). set (d := N.of_nat (cntD os)).
  assert (Hp: p <= 22) by lia. assert (Hd: d <= 26) by lia.
  replace 22 with (p + (22 - p)) at 1 2 by lia. replace 26 with (d + (26 - d)) at 1 2 by lia.
  rewrite !N.pow_add_r.
  assert (E1: cC ^ (22 - p) <= cA ^ (22 - p)) by (apply N.pow_le_mono_l; unfold cA, cC; lia).
  assert (E2: cD ^ (26 - d) <= cB ^ (26 - d)) by (apply N.pow_le_mono_l; unfold cB, cD; lia).
  set (x1 := cA ^ p) in *. set (x2 := cB ^ d) in *. set (y1 := cC ^ p) in *. set (y2 := cD ^ d) in *.
  set (u1 := cC ^ (22 - p)) in *. set (u2 := cD ^ (26 - d)) in *. set (v1 := cA ^ (22 - p)) in *. set (v2 := cB ^ (26 - d)) in *.
  clearbody x1 x2 y1 y2 u1 u2 v1 v2.
  replace (x1 * x2 * (y1 * u1 * (y2 * u2))) with ((x1 * x2 * y1 * y2) * (u1 * u2)) by ring.
  replace (y1 * y2 * (x1 * v1 * (x2 * v2))) with ((x1 * x2 * y1 * y2) * (v1 * v2)) by ring.
  apply N.mul_le_mono_l. apply N.mul_le_mono; assumption.
Qed.

(* the other kind of path: 23 probability-coded operations and no direct one shrink less than 22 + 26 *)
Lemma W_K_budget23 os : (cntP os <= 23)%nat -> cntD os = 0%nat ->
  W os * (cC ^ 22 * cD ^ 26) <= K os * (cA ^ 22 * cB ^ 26).
Proof.
  intros HP HD. destruct (le_lt_dec (cntP os) 22) as [H22|H22]; [apply W_K_budget; lia|].
  destruct (W_K_closed os) as [-> ->]. rewrite HD. replace (cntP os) with 23%nat by lia.
  vm_compute. discriminate.
Qed.

(* the closing numeric fact: 21 normalisations would need more shrink than 22+26 operations give *)
Lemma closing : T32 * (cA ^ 22 * cB ^ 26) < T24 * (cC ^ 22 * cD ^ 26) * 256 ^ 21.
Proof. vm_compute. reflexivity. Qed.

Theorem at_most_20_gen os R : T24 <= R < T32 -> Forall wf_op os ->
  W os * (cC ^ 22 * cD ^ 26) <= K os * (cA ^ 22 * cB ^ 26) -> snd (run (R, 0) os) <= 20.
Proof.
  intros HR Hw Hb. pose proof (run_inv os R 0 HR Hw) as H.
  destruct (run (R, 0) os) as [R' n'] eqn:E. cbn [snd]. destruct H as (HR' & Hn & Hacc).
  rewrite N.sub_0_r in Hacc.
  destruct (N.le_gt_cases n' 20) as [|Hgt]; [assumption|exfalso].
  pose proof closing as Hc.
  pose proof (K_pos os) as PK. pose proof (W_pos os) as PW.
  assert (P21: 256 ^ 21 <= 256 ^ n') by (apply N.pow_le_mono_r; lia).
  set (CD := cC ^ 22 * cD ^ 26) in *. set (AB := cA ^ 22 * cB ^ 26) in *.
  set (Kv := K os) in *. set (Wv := W os) in *. set (p21 := 256 ^ 21) in *. set (pn := 256 ^ n') in *.
  clearbody CD AB Kv Wv p21 pn.
  unfold T24, T32 in *.
  assert (S0: 16777216 * Kv * p21 <= R * Kv * pn).
  { apply N.mul_le_mono; [|exact P21]. apply N.mul_le_mono_r. lia. }
  assert (S1: 16777216 * Kv * p21 * CD <= R' * Wv * CD).
  { apply N.mul_le_mono_r. lia. }
  assert (S2: R' * Wv * CD <= R' * (Kv * AB)).
  { replace (R' * Wv * CD) with (R' * (Wv * CD)) by ring. apply N.mul_le_mono_l. exact Hb. }
  assert (S3: R' * (Kv * AB) <= 4294967296 * (Kv * AB)).
  { apply N.mul_le_mono_r. lia. }
  assert (S4: Kv * (16777216 * CD * p21) <= Kv * (4294967296 * AB)).
  { replace (Kv * (16777216 * CD * p21)) with (16777216 * Kv * p21 * CD) by ring.
    replace (Kv * (4294967296 * AB)) with (4294967296 * (Kv * AB)) by ring. lia. }
  apply N.mul_le_mono_pos_l in S4; [|exact PK]. lia.
Qed.

(* Main theorem of Part 1 *)
Theorem at_most_20_bytes os R : T24 <= R < T32 -> Forall wf_op os ->
  (cntP os <= 22)%nat -> (cntD os <= 26)%nat -> snd (run (R, 0) os) <= 20.
Proof. intros HR Hw HP HD. apply at_most_20_gen; auto using W_K_budget. Qed.
Print Assumptions at_most_20_bytes.

Theorem at_most_20_bytes_23 os R : T24 <= R < T32 -> Forall wf_op os ->
  (cntP os <= 23)%nat -> cntD os = 0%nat -> snd (run (R, 0) os) <= 20.
Proof. intros HR Hw HP HD. apply at_most_20_gen; auto using W_K_budget23. Qed.
Print Assumptions at_most_20_bytes_23.

(* ====================================================================== *)
(* Part 2: the symbol decoder issues at most 22 Bit and 26 direct bits    *)
(* ====================================================================== *)
Local Open Scope prog_scope.

Definition uncounted {X} (o : decE X) : Prop :=
  match o with Bit _ _ => False | Direct _ => False | _ => True end.

(* [bounded nb nd p]: on every path p issues at most nb [Bit] operations and [Direct]
   operations whose counts sum to at most nd *)
Inductive bounded {A} : nat -> nat -> dprog A -> Prop :=
| bounded_ret nb nd a : bounded nb nd (Ret a)
| bounded_fail nb nd e : bounded nb nd (Fail e)
| bounded_panic nb nd w : bounded nb nd (Panic w)
| bounded_bit nb nd c u (k : bool -> dprog A) :
    (forall b, bounded nb nd (k b)) -> bounded (S nb) nd (Vis (Bit c u) k)
| bounded_direct nb nd c (k : N -> dprog A) :
    (N.to_nat c <= nd)%nat -> (forall x, bounded nb (nd - N.to_nat c) (k x)) -> bounded nb nd (Vis (Direct c) k)
| bounded_other nb nd X (o : decE X) (k : X -> dprog A) :
    uncounted o -> (forall x, bounded nb nd (k x)) -> bounded nb nd (Vis o k).

Lemma bounded_mono {A} nb nd (p : dprog A) : bounded nb nd p ->
  forall nb' nd', (nb <= nb')%nat -> (nd <= nd')%nat -> bounded nb' nd' p.
Proof.
  induction 1 as [| | |nb nd c u k H IH|nb nd c k Hc H IH|nb nd X o k Ho H IH]; intros nb' nd' Hb Hd.
  - constructor.
  - constructor.
  - constructor.
  - destruct nb' as [|nb']; [lia|]. constructor. intros b. apply IH; lia.
  - constructor; [lia|]. intros x. apply IH; lia.
  - constructor; [exact Ho|]. intros x. apply IH; lia.
Qed.

(* all results of p satisfy Q (a Fixpoint, so that no inversion on Vis is ever needed) *)
Fixpoint post {A} (Q : A -> Prop) (p : dprog A) : Prop :=
  match p with
  | Ret a => Q a
  | Fail _ => True
  | Panic _ => True
  | Vis o k => forall x, post Q (k x)
  end.

Lemma post_true {A} (p : dprog A) : post (fun _ => True) p.
Proof. induction p; cbn [post]; auto. Qed.

Lemma post_weaken {A} (Q Q' : A -> Prop) (p : dprog A) :
  post Q p -> (forall a, Q a -> Q' a) -> post Q' p.
Proof. induction p; cbn [post]; auto. Qed.

Lemma post_bind {A B} (Q : A -> Prop) (Q' : B -> Prop) (p : dprog A) (f : A -> dprog B) :
  post Q p -> (forall a, Q a -> post Q' (f a)) -> post Q' (bind p f).
Proof. induction p; cbn [post bind]; auto. Qed.

(* bind with a postcondition on the first program *)
Lemma bounded_bind_post {A B} (Q : A -> Prop) nb1 nd1 nb2 nd2 (p : dprog A) (f : A -> dprog B) :
  bounded nb1 nd1 p -> post Q p -> (forall a, Q a -> bounded nb2 nd2 (f a)) ->
  bounded (nb1 + nb2) (nd1 + nd2) (bind p f).
Proof.
  intros Hb.
  induction Hb as [nb nd a|nb nd e|nb nd w|nb nd c u k H IH|nb nd c k Hc H IH|nb nd X o k Ho H IH];
    intros Hp Hf; cbn [bind post] in *.
  - apply bounded_mono with (nb := nb2) (nd := nd2); [auto|lia|lia].
  - constructor.
  - constructor.
  - change (S nb + nb2)%nat with (S (nb + nb2)). constructor. intros b. apply IH; auto.
  - constructor; [lia|]. intros x. replace (nd + nd2 - N.to_nat c)%nat with (nd - N.to_nat c + nd2)%nat by lia.
    apply IH; auto.
  - constructor; [exact Ho|]. intros x. apply IH; auto.
Qed.

Lemma bounded_bind {A B} nb1 nd1 nb2 nd2 (p : dprog A) (f : A -> dprog B) :
  bounded nb1 nd1 p -> (forall a, bounded nb2 nd2 (f a)) ->
  bounded (nb1 + nb2) (nd1 + nd2) (bind p f).
Proof. intros Hp Hf. apply bounded_bind_post with (Q := fun _ => True); auto using post_true. Qed.


Lemma bounded_bind_le {A B} nb1 nd1 nb2 nd2 nb nd (p : dprog A) (f : A -> dprog B) :
  bounded nb1 nd1 p -> (forall a, bounded nb2 nd2 (f a)) ->
  (nb1 + nb2 <= nb)%nat -> (nd1 + nd2 <= nd)%nat -> bounded nb nd (bind p f).
Proof. intros Hp Hf H1 H2. eapply bounded_mono; [apply bounded_bind; eassumption|lia|lia]. Qed.
Lemma bounded_bind0 {A B} nb nd (p : dprog A) (f : A -> dprog B) :
  bounded nb nd p -> (forall a, bounded 0 0 (f a)) -> bounded nb nd (bind p f).
Proof. intros Hp Hf. eapply bounded_bind_le; [exact Hp|exact Hf|lia|lia]. Qed.

(* ---------- arithmetic helpers ---------- *)
Lemma lxor_bit x b : x mod 2 = 0 -> N.lxor x (b2n b) = x + b2n b.
Proof.
  intros H. destruct b; cbn [b2n].
  - symmetry. apply N.add_nocarry_lxor. change 1 with (N.ones 1). rewrite N.land_ones. exact H.
  - rewrite N.lxor_0_r. lia.
Qed.
Lemma b2n_le b : b2n b <= 1. Proof. destruct b; cbn [b2n]; lia. Qed.
Lemma M32_mod x : M32 x = x mod 4294967296.
Proof. unfold M32. change 4294967295 with (N.ones 32). rewrite N.land_ones. reflexivity. Qed.
Lemma shl1 x : N.shiftl x 1 = x * 2.
Proof. rewrite N.shiftl_mul_pow2. reflexivity. Qed.

(* ---------- bit trees ---------- *)
Lemma bit_tree_loop_bounded n mk upd : forall tmp, bounded n 0 (bit_tree_loop n mk upd tmp).
Proof.
  induction n as [|n IH]; intros tmp; cbn [bit_tree_loop call bind]; [constructor|].
  constructor. intros b. apply IH.
Qed.

Lemma bit_tree_loop_post n mk upd : forall tmp m, tmp < m ->
  post (fun r => r < m * 2 ^ N.of_nat n) (bit_tree_loop n mk upd tmp).
Proof.
  induction n as [|n IH]; intros tmp m Hm; cbn [bit_tree_loop call bind post].
  - change (2 ^ N.of_nat 0) with 1. lia.
  - intros b. rewrite Nat2N.inj_succ, N.pow_succ_r'.
    replace (m * (2 * 2 ^ N.of_nat n)) with ((2 * m) * 2 ^ N.of_nat n) by ring.
    apply IH. rewrite M32_mod, shl1, lxor_bit by lia. pose proof (b2n_le b). lia.
Qed.

Lemma parse_bit_tree_bounded nb mk upd : bounded (N.to_nat nb) 0 (parse_bit_tree nb mk upd).
Proof.
  unfold parse_bit_tree. apply bounded_bind0; [apply bit_tree_loop_bounded|].
  intros tmp. destruct (tmp <? N.shiftl 1 nb); constructor.
Qed.

Lemma parse_bit_tree_post nb mk upd : post (fun r => r < 2 ^ nb) (parse_bit_tree nb mk upd).
Proof.
  unfold parse_bit_tree.
  apply post_bind with (Q := fun r => r < 2 * 2 ^ nb).
  - pose proof (bit_tree_loop_post (N.to_nat nb) mk upd 1 2 ltac:(lia)) as H.
    rewrite N2Nat.id in H. exact H.
  - intros tmp Ht. rewrite N.shiftl_mul_pow2, N.mul_1_l.
    destruct (N.ltb_spec tmp (2 ^ nb)); cbn [post]; [exact I|lia].
Qed.

Lemma rev_bit_tree_loop_bounded n mk offset upd : forall i tmp result,
  bounded n 0 (rev_bit_tree_loop n i mk offset upd tmp result).
Proof.
  induction n as [|n IH]; intros i tmp result; cbn [rev_bit_tree_loop call bind]; [constructor|].
  constructor. intros b. apply IH.
Qed.
Lemma parse_reverse_bit_tree_bounded nb mk offset upd :
  bounded (N.to_nat nb) 0 (parse_reverse_bit_tree nb mk offset upd).
Proof. apply rev_bit_tree_loop_bounded. Qed.

Lemma len_decode_bounded rep ps upd : bounded 10 0 (len_decode rep ps upd).
Proof.
  unfold len_decode. cbn [call bind]. constructor. intros c1.
  destruct (negb c1).
  - apply bounded_mono with (nb := 3%nat) (nd := 0%nat); [|lia|lia]. apply (parse_bit_tree_bounded 3).
  - constructor. intros c2. destruct (negb c2).
    + apply bounded_mono with (nb := 3%nat) (nd := 0%nat); [|lia|lia].
      apply bounded_bind0; [apply (parse_bit_tree_bounded 3)|intros; constructor].
    + apply bounded_bind0; [apply (parse_bit_tree_bounded 8)|intros; constructor].
Qed.

(* ---------- literals: the matched and the plain loop share one budget of 8 bits,
   because [result] doubles at every step and both loops stop at result >= 256 ---------- *)
Lemma lit_result_step result b n :
  256 <= result * 2 ^ N.of_nat (S n) -> 256 <= N.lxor (N.shiftl result 1) (b2n b) * 2 ^ N.of_nat n.
Proof.
  rewrite Nat2N.inj_succ, N.pow_succ_r'. intros H.
  rewrite shl1, lxor_bit by lia.
  set (q := 2 ^ N.of_nat n) in *. clearbody q.
  apply N.le_trans with (1 := H). replace (result * (2 * q)) with (result * 2 * q) by ring.
  apply N.mul_le_mono_r. lia.
Qed.

Lemma lit_plain_loop_bounded row upd : forall f result n,
  256 <= result * 2 ^ N.of_nat n -> bounded n 0 (lit_plain_loop f row upd result).
Proof.
  induction f as [|f IH]; intros result n H; cbn [lit_plain_loop call bind]; [constructor|].
  destruct (N.leb_spec 256 result) as [Hge|Hlt]; [constructor|].
  destruct n as [|n]; [change (2 ^ N.of_nat 0) with 1 in H; lia|].
  constructor. intros b. apply IH. apply lit_result_step. exact H.
Qed.

Lemma lit_loops_bounded {B} row upd (g : N -> dprog B) :
  (forall r n, 256 <= r * 2 ^ N.of_nat n -> bounded n 0 (g r)) ->
  forall f mb result n, 256 <= result * 2 ^ N.of_nat n ->
    bounded n 0 (bind (lit_matched_loop f row upd mb result) g).
Proof.
  intros Hg. induction f as [|f IH]; intros mb result n H; cbn [lit_matched_loop call bind]; [auto|].
  destruct (N.leb_spec 256 result) as [Hge|Hlt]; cbn [bind]; [auto|].
  destruct n as [|n]; [change (2 ^ N.of_nat 0) with 1 in H; lia|].
  constructor. intros b.
  pose proof (lit_result_step result b n H) as H'.
  destruct (N.land (N.shiftr mb 7) 1 =? b2n b); cbn [bind]; auto.
Qed.

Lemma decode_literal_bounded p y upd : bounded 8 0 (decode_literal p y upd).
Proof.
  unfold decode_literal. cbn [call bind].
  constructor; [exact I|]. intros prev. constructor; [exact I|]. intros len.
  destruct (8 <? lc p); [constructor|]. cbv zeta.
  set (row := N.shiftl (N.land len (N.shiftl 1 (lp p) - 1)) (lc p) + N.shiftr prev (8 - lc p)).
  assert (Hg: forall r n, 256 <= r * 2 ^ N.of_nat n ->
     bounded n 0 (result <- lit_plain_loop 8 row upd r ;; if result <? 256 then Panic (POverflow 31) else Ret (M8 (result - 256)))).
  { intros r n H. apply bounded_bind0; [apply lit_plain_loop_bounded; exact H|].
    intros a. destruct (a <? 256); constructor. }
  destruct (7 <=? y_state y); cbn [call bind].
  - constructor; [exact I|]. intros mb. apply lit_loops_bounded; [exact Hg|]. vm_compute. discriminate.
  - apply Hg. vm_compute. discriminate.
Qed.

Lemma lit_arm_bounded p y upd : bounded 8 0 (lit_arm p y upd).
Proof.
  unfold lit_arm. apply bounded_bind0; [apply decode_literal_bounded|].
  intros byte. destruct upd; cbn [call bind]; [|constructor].
  constructor; [exact I|]. intros; constructor.
Qed.

(* ---------- rep ---------- *)
Lemma rep_select_bounded y ps upd : bounded 3 0 (rep_select y ps upd).
Proof.
  unfold rep_select. cbn [call bind]. constructor. intros g0. destruct (negb g0).
  - constructor. intros l0. destruct (negb l0); [|constructor].
    destruct upd; cbn [call bind]; [|constructor]. constructor; [exact I|]. intros; constructor.
  - constructor. intros g1. destruct (negb g1); cbn [call bind].
    + destruct upd; constructor.
    + constructor. intros g2. destruct upd; constructor.
Qed.

Lemma rep_arm_bounded y ps upd : bounded 13 0 (rep_arm y ps upd).
Proof.
  unfold rep_arm. apply bounded_bind_le with (nb1 := 3%nat) (nd1 := 0%nat) (nb2 := 10%nat) (nd2 := 0%nat);
    [apply rep_select_bounded| |lia|lia].
  intros [res|r']; [constructor|].
  apply bounded_bind0; [apply len_decode_bounded|].
  intros len. destruct upd; cbn [call bind]; [|constructor].
  constructor; [exact I|]. intros; constructor.
Qed.

(* ---------- path-sensitive budgets ----------
   [paths p G]: for every path of p, with b = number of Bit operations and d = total Direct count on it, G b d. *)
Definition opcost {X} (o : decE X) : nat * nat :=
  match o with Bit _ _ => (1%nat, 0%nat) | Direct c => (0%nat, N.to_nat c) | _ => (0%nat, 0%nat) end.
Definition dflt {X} (o : decE X) : X :=
  match o in decE X return X with
  | Bit _ _ => false | Direct _ => 0 | FinishedOk => false | WLen => 0 | WLastOr _ => 0 | WLastN _ => 0
  | WAppendLit _ => tt | WAppendLz _ _ => tt
  end.

Fixpoint paths {A} (p : dprog A) (G : nat -> nat -> Prop) : Prop :=
  match p with
  | Vis o k => forall x, paths (k x) (fun b d => G (fst (opcost o) + b) (snd (opcost o) + d))%nat
  | _ => G 0%nat 0%nat
  end.

Definition dclosed (G : nat -> nat -> Prop) : Prop :=
  forall b d b' d', G b d -> (b' <= b)%nat -> (d' <= d)%nat -> G b' d'.

Lemma paths_mono {A} (p : dprog A) : forall (G G' : nat -> nat -> Prop),
  (forall b d, G b d -> G' b d) -> paths p G -> paths p G'.
Proof.
  induction p as [a|e|w|X o k IH]; intros G G' HG H; cbn [paths] in *; auto.
  intros x. eapply IH; [|apply H]. cbv beta. auto.
Qed.

Lemma paths_inhabited {A} (p : dprog A) : forall G, paths p G -> exists b d, G b d.
Proof.
  induction p as [a|e|w|X o k IH]; intros G H; cbn [paths] in *; eauto.
  destruct (IH (dflt o) _ (H (dflt o))) as (b & d & Hbd). eauto.
Qed.

Lemma bounded_paths {A} nb nd (p : dprog A) : bounded nb nd p ->
  forall G : nat -> nat -> Prop, (forall b d, (b <= nb)%nat -> (d <= nd)%nat -> G b d) -> paths p G.
Proof.
  induction 1 as [nb nd a|nb nd e|nb nd w|nb nd c u k H IH|nb nd c k Hc H IH|nb nd X o k Ho H IH];
    intros G HG; cbn [paths opcost fst snd].
  - apply HG; lia.
  - apply HG; lia.
  - apply HG; lia.
  - intros x. apply IH. intros b d Hb Hd. apply HG; lia.
  - intros x. apply IH. intros b d Hb Hd. apply HG; lia.
  - intros x. apply IH. intros b d Hb Hd. destruct o; cbn [uncounted] in Ho; try contradiction; cbn [opcost fst snd]; apply HG; lia.
Qed.

Lemma paths_bounded {A} (p : dprog A) : forall nb nd,
  paths p (fun b d => (b <= nb)%nat /\ (d <= nd)%nat) -> bounded nb nd p.
Proof.
  induction p as [a|e|w|X o k IH]; intros nb nd H; cbn [paths] in H; [constructor|constructor|constructor|].
  destruct o; cbn [opcost fst snd] in H.
  - destruct nb as [|nb].
    + destruct (paths_inhabited _ _ (H false)) as (b & d & Hb & Hd). lia.
    + constructor. intros b. apply IH. eapply paths_mono; [|apply (H b)]. cbv beta. intros; lia.
  - destruct (paths_inhabited _ _ (H 0)) as (b0 & d0 & Hb0 & Hd0).
    constructor; [lia|]. intros x. apply IH. eapply paths_mono; [|apply (H x)]. cbv beta. intros; lia.
  - constructor; [exact I|]. intros x. apply IH. eapply paths_mono; [|apply (H x)]. cbv beta. intros; lia.
  - constructor; [exact I|]. intros x. apply IH. eapply paths_mono; [|apply (H x)]. cbv beta. intros; lia.
  - constructor; [exact I|]. intros x. apply IH. eapply paths_mono; [|apply (H x)]. cbv beta. intros; lia.
  - constructor; [exact I|]. intros x. apply IH. eapply paths_mono; [|apply (H x)]. cbv beta. intros; lia.
  - constructor; [exact I|]. intros x. apply IH. eapply paths_mono; [|apply (H x)]. cbv beta. intros; lia.
  - constructor; [exact I|]. intros x. apply IH. eapply paths_mono; [|apply (H x)]. cbv beta. intros; lia.
Qed.

Lemma paths_bind_bounded {A B} (Q : A -> Prop) nb nd (p : dprog A) (f : A -> dprog B) :
  bounded nb nd p -> post Q p ->
  forall G : nat -> nat -> Prop, dclosed G -> G nb nd ->
  (forall a, Q a -> paths (f a) (fun b d => G (nb + b) (nd + d))%nat) -> paths (bind p f) G.
Proof.
  induction 1 as [nb nd a|nb nd e|nb nd w|nb nd c u k H IH|nb nd c k Hc H IH|nb nd X o k Ho H IH];
    intros Hp G HG H0 Hf; cbn [bind paths post opcost fst snd] in *.
  - eapply paths_mono; [|apply (Hf a Hp)]. cbv beta. intros b d Hbd. eapply HG; [exact Hbd|lia|lia].
  - eapply HG; [exact H0|lia|lia].
  - eapply HG; [exact H0|lia|lia].
  - intros x. apply IH; [apply Hp| | |].
    + intros b d b' d' Hbd Hb Hd. eapply HG; [exact Hbd|lia|lia].
    + exact H0.
    + intros a Ha. eapply paths_mono; [|apply (Hf a Ha)]. cbv beta. intros b d Hbd. exact Hbd.
  - intros x. apply IH; [apply Hp| | |].
    + intros b d b' d' Hbd Hb Hd. eapply HG; [exact Hbd|lia|lia].
    + eapply HG; [exact H0|lia|lia].
    + intros a Ha. eapply paths_mono; [|apply (Hf a Ha)]. cbv beta. intros b d Hbd.
      eapply HG; [exact Hbd|lia|lia].
  - intros x. assert (E: opcost o = (0%nat, 0%nat)) by (destruct o; cbn [uncounted] in Ho; try contradiction; reflexivity).
    rewrite E. cbn [fst snd]. apply IH; [apply Hp| | |].
    + intros b d b' d' Hbd Hb Hd. eapply HG; [exact Hbd|lia|lia].
    + exact H0.
    + intros a Ha. eapply paths_mono; [|apply (Hf a Ha)]. cbv beta. intros b d Hbd. exact Hbd.
Qed.

Lemma paths_bind0 {A B} (p : dprog A) (f : A -> dprog B) : (forall a, bounded 0 0 (f a)) ->
  forall G, paths p G -> paths (bind p f) G.
Proof.
  intros Hf. induction p as [a|e|w|X o k IH]; intros G H; cbn [bind paths] in *; auto.
  apply bounded_paths with (1 := Hf a). intros b d Hb Hd.
  replace b with 0%nat by lia. replace d with 0%nat by lia. exact H.
Qed.

(* the budget of one symbol: 22 probability-coded + 26 direct bits, or 23 probability-coded bits and no direct bit *)
Definition budget (n b d : nat) : Prop := (b <= n /\ d <= 26)%nat \/ (b <= S n /\ d = 0)%nat.
Definition sym_budget := budget 22.

Lemma dclosed_budget n : dclosed (budget n).
Proof. unfold dclosed, budget. intros. lia. Qed.

Lemma decode_distance_paths len upd : paths (decode_distance len upd) (budget 10).
Proof.
  unfold decode_distance. cbv zeta.
  apply paths_bind_bounded with (Q := fun r => r < 64) (nb := 6%nat) (nd := 0%nat).
  - apply (parse_bit_tree_bounded 6).
  - apply (parse_bit_tree_post 6).
  - apply dclosed_budget.
  - unfold budget; lia.
  - intros pos_slot Hps.
    assert (Hsh: N.shiftr pos_slot 1 = pos_slot / 2) by (rewrite N.shiftr_div_pow2; reflexivity).
    destruct (pos_slot <? 4); [cbn [paths]; unfold budget; lia|].
    destruct (N.ltb_spec pos_slot 14) as [H14|H14].
    + destruct (_ <? pos_slot); [cbn [paths]; unfold budget; lia|].
      eapply bounded_paths.
      * apply bounded_bind0; [apply parse_reverse_bit_tree_bounded|intros; constructor].
      * intros b d Hb Hd. rewrite Hsh in Hb. unfold budget. lia.
    + cbn [call bind paths opcost fst snd]. intros x.
      eapply bounded_paths.
      * apply bounded_bind0; [apply (parse_reverse_bit_tree_bounded 4)|intros; constructor].
      * intros b d Hb Hd. rewrite Hsh. unfold budget. lia.
Qed.

Lemma match_arm_paths y ps upd : paths (match_arm y ps upd) (budget 20).
Proof.
  unfold match_arm. cbv zeta.
  apply paths_bind_bounded with (Q := fun _ => True) (nb := 10%nat) (nd := 0%nat).
  - apply len_decode_bounded.
  - apply post_true.
  - apply dclosed_budget.
  - unfold budget; lia.
  - intros len _. apply paths_bind0.
    + intros rep_0. destruct upd; [|constructor].
      destruct (rep_0 =? 4294967295); cbn [call bind].
      * constructor; [exact I|]. intros fin. destruct fin; constructor.
      * constructor; [exact I|]. intros; constructor.
    + eapply paths_mono; [|apply decode_distance_paths]. cbv beta. unfold budget. intros; lia.
Qed.

(* Main theorem of Part 2 (path-sensitive form; see the counterexample below for why [bounded 22 26] is false) *)
Theorem process_next_inner_paths p y upd : paths (process_next_inner p y upd) sym_budget.
Proof.
  unfold process_next_inner, sym_budget. cbn [call bind paths opcost fst snd]. intros len0.
  destruct (63 <? pb p); [cbn [paths]; unfold budget; lia|].
  cbn [call bind paths opcost fst snd]. intros is_m.
  destruct (negb is_m).
  - apply bounded_paths with (1 := lit_arm_bounded p y upd). intros b d Hb Hd. unfold budget. lia.
  - cbn [call bind paths opcost fst snd]. intros is_r. destruct is_r.
    + eapply bounded_paths; [apply rep_arm_bounded|]. intros b d Hb Hd. unfold budget. lia.
    + eapply paths_mono; [|apply match_arm_paths]. cbv beta. unfold budget. intros; lia.
Qed.
Print Assumptions process_next_inner_paths.

(* The closest statement in the requested form *)
Theorem process_next_inner_bounded p y upd : bounded 23 26 (process_next_inner p y upd).
Proof.
  apply paths_bounded. eapply paths_mono; [|apply process_next_inner_paths].
  cbv beta. unfold sym_budget, budget. intros; lia.
Qed.
Print Assumptions process_next_inner_bounded.

(* ---------- [bounded 22 26 (process_next_inner ..)] is FALSE: a match with pos_slot 12 or 13 issues
   2 + 10 + 6 + 5 = 23 probability-coded bits (and no direct bit).  Witness by an answer-script handler. ---------- *)
Record cst := mkCst { c_script : list bool; c_nb : nat; c_nd : nat }.
Definition cnt_h : handler decE cst := fun X o =>
  match o in decE X return cst -> hres X cst with
  | Bit _ _ => fun s => HOk (hd false (c_script s)) (mkCst (tl (c_script s)) (S (c_nb s)) (c_nd s))
  | Direct c => fun s => HOk 0 (mkCst (c_script s) (c_nb s) (c_nd s + N.to_nat c))
  | FinishedOk => fun s => HOk true s
  | WLen => fun s => HOk 0 s
  | WLastOr _ => fun s => HOk 0 s
  | WLastN _ => fun s => HOk 0 s
  | WAppendLit _ => fun s => HOk tt s
  | WAppendLz _ _ => fun s => HOk tt s
  end.

Lemma bounded_count {A} nb nd (p : dprog A) : bounded nb nd p -> forall s,
  (c_nb (snd (interp cnt_h p s)) <= c_nb s + nb)%nat /\ (c_nd (snd (interp cnt_h p s)) <= c_nd s + nd)%nat.
Proof.
  induction 1 as [nb nd a|nb nd e|nb nd w|nb nd c u k H IH|nb nd c k Hc H IH|nb nd X o k Ho H IH];
    intros s; cbn [interp snd cnt_h]; try lia.
  - destruct (IH (hd false (c_script s)) (mkCst (tl (c_script s)) (S (c_nb s)) (c_nd s))) as [H1 H2].
    cbn [c_nb c_nd] in *. lia.
  - destruct (IH 0 (mkCst (c_script s) (c_nb s) (c_nd s + N.to_nat c))) as [H1 H2].
    cbn [c_nb c_nd] in *. lia.
  - destruct o; cbn [uncounted] in Ho; try contradiction; cbn [cnt_h]; apply IH.
Qed.

Definition cex_props := mkProps 3 0 2.
Definition cex_sym := mkSym 0 (mkReps 0 0 0 0).
(* is_match=1, is_rep=0, len: choice=1 choice2=1 + 8 high bits, pos_slot = 001100b = 12, 5 reverse-tree bits *)
Definition cex_script : list bool :=
  [true; false; true; true; false; false; false; false; false; false; false; false;
   false; false; true; true; false; false; false; false; false; false; false].
Eval vm_compute in
  (let r := interp cnt_h (process_next_inner cex_props cex_sym false) (mkCst cex_script 0 0) in
   (fst r, c_script (snd r), c_nb (snd r), c_nd (snd r))).

Theorem process_next_inner_not_bounded_22 :
  ~ bounded 22 26 (process_next_inner cex_props cex_sym false).
Proof.
  intros H. pose proof (proj1 (@bounded_count _ _ _ _ H (mkCst cex_script 0 0))) as H1.
  vm_compute in H1. lia.
Qed.
Print Assumptions process_next_inner_not_bounded_22.
