(* C09, end to end: a stream whose symbols are  good ++ [bad]  with [bad] a copy symbol whose
   distance exceeds min(bytes produced, dictionary size) is rejected with Err(LzmaError) by the
   raw decoder (any dictionary size >= 1) and by lzma_decompress; it neither panics nor
   succeeds, and what the sink holds is a prefix of the output of [good]: no byte is ever
   fabricated for the bad reference. *)
From LZ Require Import Base.Prelude Base.Prog Model.Io Model.Tables Model.LzBuffer Model.RangeDec Model.Lzma Format.RefEnc
  Proofs.ProgLemmas Proofs.MapLemmas Proofs.IoLemmas Proofs.RangeLockstep Proofs.WinCirc Proofs.NoPanic Proofs.NoPanicWorld
  Proofs.SymOracle Proofs.SymCoders Proofs.SymLiteral Proofs.SymDecode Proofs.SymChain
  Proofs.LzmaExactSync Proofs.LzmaExactShape Proofs.LzmaExactRefine Proofs.LzmaExactLoop Proofs.LzmaExact
  Proofs.OutOfWindowSym.
From Coq Require Import ZifyBool ZifyNat ZifyN.
Local Open Scope prog_scope.

(* ---------- the lenient reference encoder on good ++ [bad] ---------- *)
Lemma sem_from_cons w h x rest : x <> EndMarker ->
  sem_from w h (x :: rest) = match sem_sym w h x with Some h' => sem_from w h' rest | None => None end.
Proof. intros H. destruct x; try reflexivity. congruence. Qed.

Lemma enc_lenient_last fp w ie t st h bad ie' s' :
  bad <> EndMarker -> sem_sym w h bad = None ->
  enc_syms_gen true fp w ie (mkEstate t st h) [bad] = Some (ie', s') ->
  fold_left ienc_ev (fst (sym_evs fp st h bad)) (ie, t) = (ie', es_tabs s') /\ es_hist s' = h.
Proof.
  intros Hne Hsem H. cbn [enc_syms_gen es_st es_hist es_tabs] in H.
  destruct (sym_evs fp st h bad) as [evs st1]. cbn [fst].
  destruct (fold_left ienc_ev evs (ie, t)) as [ie1 t1].
  rewrite Hsem in H.
  destruct bad; try congruence; inversion H; subst; cbn [es_tabs es_hist]; split; reflexivity.
Qed.

Lemma enc_lenient_good_bad fp w bad : forall good ie t st h hg b ie' s',
  Forall (fun x => x <> EndMarker) good -> sem_from w h good = Some (hg, b) ->
  bad <> EndMarker -> sem_sym w hg bad = None ->
  enc_syms_gen true fp w ie (mkEstate t st h) (good ++ [bad]) = Some (ie', s') ->
  exists evs stg, prog_evs fp w st h good = Some (evs, stg, hg) /\
    fold_left ienc_ev (evs ++ fst (sym_evs fp stg hg bad)) (ie, t) = (ie', es_tabs s') /\
    es_hist s' = hg.
Proof.
  induction good as [|x rest IH]; intros ie t st h hg b ie' s' Hnm Hsf Hne Hbad H.
  - cbn [sem_from] in Hsf. inversion Hsf; subst hg b. cbn [app] in H.
    destruct (enc_lenient_last fp w ie t st h bad ie' s' Hne Hbad H) as [Hf Hh].
    exists [], st. cbn [prog_evs app]. split; [reflexivity|]. split; assumption.
  - inversion Hnm as [|? ? Hx Hnm']; subst.
    rewrite (sem_from_cons w h x rest Hx) in Hsf.
    destruct (sem_sym w h x) as [h'|] eqn:Es; [|discriminate].
    cbn [app enc_syms_gen es_st es_hist es_tabs] in H.
    destruct (sym_evs fp st h x) as [evx st1] eqn:Esym.
    destruct (fold_left ienc_ev evx (ie, t)) as [ie1 t1] eqn:Ef.
    rewrite Es in H.
    assert (H' : enc_syms_gen true fp w ie1 (mkEstate t1 st1 h') (rest ++ [bad]) = Some (ie', s')).
    { destruct x; try exact H. congruence. }
    destruct (IH _ _ _ _ _ _ _ _ Hnm' Hsf Hne Hbad H') as (l & stg & El & Efl & Eh).
    exists (evx ++ l), stg.
    rewrite (prog_evs_cons fp w st h x rest Hx), Es, Esym. cbn [fst snd]. rewrite El.
    split; [reflexivity|]. split; [|exact Eh].
    rewrite <- app_assoc, fold_left_app, Ef. exact Efl.
Qed.

(* ---------- the decoding loop: good symbols, then one failing iteration ---------- *)
Section LoopB.
  Variables (fp : fprops) (p : props).
  Hypothesis Hpm : props_match p fp.
  Variables (dict mem : N) (pre : list N) (ief : ienc) (delta : N) (trail : list N) (pos_end fl : N).
  Hypothesis Hdelta : delta < i_range ief.
  Hypothesis Hdict : 0 < dict /\ dict <= mem.
  Variables (us : option N) (stf : N) (hf : hist) (tl : list ev).
  Hypothesis Hus : match us with Some size => h_len hf < size | None => True end.

  Notation wd := (Some dict).
  Notation lcp := (lc p + lp p).
  Notation REL := (Rel lcp dict mem pre ief delta trail false pos_end fl).

  Lemma Hcanon : false = true -> delta = 0 /\ trail = [].
  Proof. discriminate. Qed.

  (* LInv of LzmaExactLoop.v, with further events [tl] after those of the program *)
  Definition LInvB (prog : list sym) (x : lw) : Prop :=
    exists st h ho evs,
      ds_pib (l_ds x) = [] /\ ds_props (l_ds x) = p /\ ds_unpacked (l_ds x) = us /\
      ds_state (l_ds x) = st /\ ds_rep (l_ds x) = reps_of h /\
      st < 12 /\ Forall (fun b => b < 256) (h_bytes h) /\ rep0_ok wd st h /\ reps_lt h /\
      h_bytes ho = h_bytes h /\ h_len ho = h_len h /\
      prog_evs fp wd st h prog = Some (evs, stf, hf) /\
      REL (mkDw (ds_tabs (l_ds x)) (l_rc x) (l_src x) (l_win x)) (evs ++ tl ++ phantom false, ho).

  Lemma linvB_head prog wv : LInvB prog wv -> head_cont wv.
  Proof.
    intros (st & h & ho & evs & Hpib & Hpr & Hus' & Hst & Hrep & Hst12 & Hby & Hr0 & Hrl & Eb & El & Hpe & HR).
    unfold head_cont. rewrite Hus'. destruct us as [size|].
    - destruct HR as (real & _ & _ & HW). cbn [d_win snd] in HW.
      rewrite (relwin_len _ _ _ _ _ _ HW), El.
      pose proof (prog_evs_len _ _ _ _ _ _ _ _ Hpe). lia.
    - rewrite Hrep. cbn [reps_of rep0]. destruct Hrl as [R0 _]. lia.
  Qed.

  Lemma linvB_step x rest wv : LInvB (x :: rest) wv -> x <> EndMarker ->
    exists wv', pm_body FinishMode wv = Next wv' /\ LInvB rest wv'.
  Proof.
    intros HI Hx. pose proof (linvB_head _ _ HI) as Hhead.
    destruct HI as (st & h & ho & evs & Hpib & Hpr & Hus' & Hst & Hrep & Hst12 & Hby & Hr0 & Hrl & Eb & El & Hpe & HR).
    rewrite (prog_evs_cons fp wd st h x rest Hx) in Hpe.
    destruct (sem_sym wd h x) as [h'|] eqn:Es; [|discriminate].
    destruct (sym_evs fp st h x) as [evx st'] eqn:Esym. cbn [fst snd] in Hpe.
    destruct (prog_evs fp wd st' h' rest) as [[[l st2] h2]|] eqn:Ep; [|discriminate].
    inversion Hpe; subst evs st2 h2. clear Hpe.
    destruct (rel_fill _ _ _ _ _ _ _ _ _ _ _ _ _ _ _ HR) as (buf & s' & Hfill & HR').
    rewrite (pm_body_step wv buf s' Hpib Hhead Hfill).
    destruct (process_next_inner_decodes_chain wd p fp st h ho x h' evx st' (l ++ tl ++ phantom false)
                Hpm Hr0 Eb El Hx Es Esym) as (ho' & Horc & Eb' & El').
    rewrite <- app_assoc in HR'.
    destruct (refine_good lcp dict mem pre ief delta trail false pos_end fl Hdelta Hcanon Hdict _ _
                (pni_safe fp p Hpm st (reps_of h) Hst12) (shape_process_next_inner p _) _ _ _ _ HR' Horc)
      as (t1 & Hrun & HR1).
    unfold run_sym. cbn [l_ds l_rc l_src l_win]. rewrite Hpr, Hst, Hrep, Hrun.
    eexists. split; [reflexivity|].
    destruct (sym_step_invariants wd fp st h x h' Hst12 Hby Es) as (I1 & I2 & I3). rewrite Esym in I1, I3. cbn [snd] in I1, I3.
    exists st', h', ho', l. cbn [l_ds l_rc l_src l_win ds_pib ds_props ds_unpacked ds_tabs ds_state ds_rep y_state y_rep].
    split; [exact Hpib|]. split; [reflexivity|]. split; [exact Hus'|]. split; [reflexivity|]. split; [reflexivity|].
    split; [exact I1|]. split; [exact I2|]. split; [exact I3|]. split; [eapply sem_sym_reps; eassumption|].
    split; [exact Eb'|]. split; [exact El'|]. split; [exact Ep|].
    destruct t1; exact HR1.
  Qed.

  (* what remains true of the objects after the rejection *)
  Definition Rejected (x : lw) : Prop :=
    RelWin dict mem pre fl (l_win x) hf /\ ds_unpacked (l_ds x) = us.

  Lemma linvB_reject bad wv : LInvB [] wv -> tl = fst (sym_evs fp stf hf bad) -> bad_copy dict hf bad ->
    exists wv', pm_body FinishMode wv = Break (Failed ELzma, wv') /\ Rejected wv'.
  Proof.
    intros HI Htl Hbad. pose proof (linvB_head _ _ HI) as Hhead.
    destruct HI as (st & h & ho & evs & Hpib & Hpr & Hus' & Hst & Hrep & Hst12 & Hby & Hr0 & Hrl & Eb & El & Hpe & HR).
    cbn [prog_evs] in Hpe. inversion Hpe as [[Ee Est Eh]]. revert Hst. subst evs st h. intros Hst. clear Hpe. cbn [app] in HR.
    destruct (rel_fill _ _ _ _ _ _ _ _ _ _ _ _ _ _ _ HR) as (buf & s' & Hfill & HR').
    rewrite (pm_body_step wv buf s' Hpib Hhead Hfill).
    apply (rel_same_data lcp dict mem pre ief delta trail false pos_end fl _ _ ho hf) in HR'; [|exact Eb|exact El].
    rewrite Htl in HR'.
    destruct (dec_h_rejects_bad_copy lcp dict mem pre ief delta trail false pos_end fl p fp stf hf bad _ _
                Hdelta Hcanon Hdict Hpm eq_refl Hst12 Hbad HR') as (t1 & Hrun & HR1).
    unfold run_sym. cbn [l_ds l_rc l_src l_win]. rewrite Hpr, Hst, Hrep, Hrun.
    eexists. split; [reflexivity|].
    destruct HR1 as (real & _ & _ & HW). cbn [snd] in HW.
    split; cbn [l_win l_ds ds_unpacked]; [exact HW|exact Hus'].
  Qed.

  Theorem loop_rejects bad : forall prog wv, LInvB prog wv -> Forall (fun x => x <> EndMarker) prog ->
    tl = fst (sym_evs fp stf hf bad) -> bad_copy dict hf bad ->
    exists wv', iter_step (length prog + 1) (pm_body FinishMode) wv = Break (Failed ELzma, wv') /\ Rejected wv'.
  Proof.
    induction prog as [|x rest IH]; intros wv HI Hnm Htl Hbad.
    - destruct (linvB_reject bad wv HI Htl Hbad) as (wv' & Hb & HRj).
      exists wv'. cbn [length Nat.add iter_step]. rewrite Hb. split; [reflexivity|exact HRj].
    - inversion Hnm as [|? ? Hx Hnm']; subst.
      destruct (linvB_step x rest wv HI Hx) as (wv1 & Hn & HI1).
      destruct (IH wv1 HI1 Hnm' Htl Hbad) as (wv' & Hit & HRj).
      exists wv'. cbn [length Nat.add iter_step]. rewrite Hn. split; [exact Hit|exact HRj].
  Qed.

  Theorem process_mode_rejects bad prog wv fuel : LInvB prog wv -> Forall (fun x => x <> EndMarker) prog ->
    tl = fst (sym_evs fp stf hf bad) -> bad_copy dict hf bad ->
    (length prog + 1 <= Pos.to_nat fuel)%nat ->
    exists wv', process_mode FinishMode fuel wv = (Failed ELzma, wv') /\ Rejected wv'.
  Proof.
    intros HI Hnm Htl Hbad Hfuel. destruct (loop_rejects bad prog wv HI Hnm Htl Hbad) as (wv' & Hit & HRj).
    exists wv'. split; [|exact HRj]. unfold process_mode. rewrite loopN_iter.
    rewrite (iter_step_break_mono _ _ _ _ _ Hit Hfuel). reflexivity.
  Qed.
End LoopB.
Print Assumptions process_mode_rejects.

(* ---------- the raw decoder ---------- *)
Section RawB.
  Variables (fp : fprops) (pr : props).
  Hypothesis Hpm : props_match pr fp.
  Variables (dict mem : N).
  Hypothesis Hdict : 0 < dict /\ dict <= mem.
  Variables (us : option N) (good : list sym) (bad : sym) (hg : hist) (bflag : bool)
            (trail : list N) (ief : ienc) (sf : estate).
  Hypothesis Hnm : no_marker good.
  Hypothesis Hsem : sem_from (Some dict) hist0 good = Some (hg, bflag).
  Hypothesis Hbad : bad_copy dict hg bad.
  Hypothesis Henc : enc_syms_gen true fp (Some dict) ienc0 (estate0 fp) (good ++ [bad]) = Some (ief, sf).

  Lemma rawB_events : exists evs stg,
    prog_evs fp (Some dict) 0 hist0 good = Some (evs, stg, hg) /\
    fold_left ienc_ev (evs ++ fst (sym_evs fp stg hg bad)) (ienc0, ptabs_new (2 ^ (f_lc fp + f_lp fp))) = (ief, es_tabs sf) /\
    es_hist sf = hg.
  Proof.
    apply (enc_lenient_good_bad fp (Some dict) bad good ienc0 _ 0 hist0 hg bflag ief sf Hnm Hsem).
    - eapply bad_copy_not_marker; exact Hbad.
    - apply bad_copy_sem; exact Hbad.
    - exact Henc.
  Qed.

  Lemma rawB_wf : wf_ienc ief.
  Proof.
    destruct rawB_events as (evs & stg & _ & Hfold & _).
    apply (f_equal fst) in Hfold. cbn [fst] in Hfold. rewrite fold_ev_rev in Hfold. rewrite <- Hfold.
    apply ienc_fold_wf; [exact wf_ienc0|]. apply to_revs_wf. apply ProbsOk_new.
  Qed.

  Lemma rawB_hist_len : h_len hg = nlen (h_bytes hg).
  Proof.
    destruct rawB_events as (evs & stg & Hpe & _).
    apply (hist_len_ok fp (Some dict) good 0 hist0 evs stg hg Hpe). reflexivity.
  Qed.

  Lemma rawB_init s k :
    FaultFree s -> s_rest s = ienc_bytes ief 0 ++ trail -> k_wfail k = None -> k_ffail k = false ->
    exists stg r0 s0,
      src_run (map_io_err ELzma rc_new) s = (Done r0, s0) /\
      LInvB fp pr dict mem (snk_bytes k) ief 0 trail (s_pos s + nlen (ienc_bytes ief 0)) (k_flushes k)
            us stg hg (fst (sym_evs fp stg hg bad)) good
            (mkLw (dstate0 pr us) r0 s0 (WCirc (circ_new k dict mem))).
  Proof.
    intros Hff Hrest Hkw Hkf.
    destruct rawB_events as (evg & stg & Hpe & Hfold & Ehist).
    set (tl := fst (sym_evs fp stg hg bad)) in *.
    set (evs := evg ++ tl) in *.
    set (t0 := ptabs_new (2 ^ (f_lc fp + f_lp fp))) in *.
    assert (Hdelta : 0 < i_range ief) by (pose proof rawB_wf as W; unfold wf_ienc in W; lia).
    assert (Ht0 : ptabs_new (N.shiftl 1 (lc pr + lp pr)) = t0).
    { unfold t0. rewrite shiftl_1_pow. destruct Hpm as (_ & _ & _ & -> & -> & _). reflexivity. }
    assert (Hpo : ProbsOk t0) by apply ProbsOk_new.
    assert (Hstd : TabsStd t0 (lc pr + lp pr)) by (rewrite <- Ht0; apply TabsStd_new).
    pose proof (f_equal fst Hfold) as Hfold1. cbn [fst] in Hfold1.
    pose proof Hfold1 as Hfr. rewrite fold_ev_rev in Hfr.
    pose proof (to_revs_wf evs t0 Hpo) as Hwfr.
    destruct (init_sync (to_revs t0 evs) 0 Hwfr ltac:(rewrite Hfr; exact Hdelta))
      as (c3 & c2 & c1 & c0 & rest & Hbytes & Hsync).
    rewrite Hfr in Hbytes, Hsync.
    rewrite Hbytes in Hrest. cbn [app] in Hrest.
    destruct (rc_new_run s 0 c3 c2 c1 c0 (rest ++ trail) Hff Hrest) as (s0 & Hrun0 & Hr0 & Hp0 & Hs0).
    set (r0 := mkRc 4294967295 (be_num [c3; c2; c1; c0])) in *.
    exists stg, r0, s0. split; [apply src_run_map_io_err; exact Hrun0|].
    assert (Hnl : nlen rest = i_norms ief) by (destruct Hsync as (_ & _ & Hn & _); change (i_norms ienc0) with 0 in Hn; lia).
    exists 0, hist0, hist0, evg. unfold dstate0.
    cbn [l_ds l_rc l_src l_win ds_pib ds_props ds_unpacked ds_tabs ds_state ds_rep].
    split; [reflexivity|]. split; [reflexivity|]. split; [reflexivity|]. split; [reflexivity|]. split; [reflexivity|].
    split; [lia|]. split; [constructor|]. split; [apply rep0_ok_init|].
    split; [unfold reps_lt, hist0; cbn [h_r0 h_r1 h_r2 h_r3]; lia|].
    split; [reflexivity|]. split; [reflexivity|]. split; [exact Hpe|].
    exists evs. cbn [fst snd d_tabs d_rc d_src d_win]. split; [unfold evs; rewrite app_assoc; reflexivity|]. split.
    - exists ienc0, rest. rewrite Ht0. split; [exact wf_ienc0|]. split; [exact Hstd|]. split; [exact Hpo|].
      split; [exact Hfold1|]. split; [exact Hsync|]. split; [exact Hs0|]. split; [exact Hr0|].
      rewrite Hp0, Hbytes, !nlen_cons, Hnl. lia.
    - exists (circ_new k dict mem). split; [reflexivity|].
      split; [apply circ_new_inv; [apply Hdict|exact Hkw]|].
      unfold circ_new. cbn [c_dict c_mem c_snk hist0 h_bytes h_len].
      repeat split; try reflexivity; try assumption. constructor.
  Qed.

  Theorem raw_decode_rejects memlimit dec s k fuel :
    match us with Some size => h_len hg < size | None => True end ->
    lzma_decoder_new (mkParams pr dict us) memlimit = Done dec ->
    mem = match memlimit with Some m => m | None => USIZE - 1 end ->
    FaultFree s -> s_rest s = ienc_bytes ief 0 ++ trail ->
    k_wfail k = None -> k_ffail k = false ->
    (length good + 1 <= Pos.to_nat fuel)%nat ->
    exists dec' w',
      lzma_decoder_decompress fuel dec (mkIo s k) = (Failed ELzma, (dec', w')) /\
      exists t, snk_bytes k ++ lrev (h_bytes hg) = snk_bytes (i_snk w') ++ t.
  Proof.
    intros Hus Hnew Hmem Hff Hrest Hkw Hkf Hfuel.
    rewrite (decoder_new_eq pr fp dict us memlimit dec Hpm (proj1 Hdict) Hnew), <- Hmem.
    destruct (rawB_init s k Hff Hrest Hkw Hkf) as (stg & r0 & s0 & Hrun0 & HI).
    unfold lzma_decoder_decompress. cbn [i_src i_snk ld_params ld_memlimit ld_state pr_dict].
    rewrite Hrun0.
    assert (Hdelta : 0 < i_range ief) by (pose proof rawB_wf as W; unfold wf_ienc in W; lia).
    destruct (process_mode_rejects fp pr Hpm dict mem (snk_bytes k) ief 0 trail _ (k_flushes k)
                Hdelta Hdict us stg hg _ Hus bad good _ fuel HI Hnm eq_refl Hbad Hfuel)
      as (wv' & Hpmode & HW & _).
    rewrite Hpmode. eexists _, _. split; [reflexivity|]. cbn [i_snk].
    destruct (relwin_sink dict mem (snk_bytes k) (k_flushes k) _ _ HW) as (t & Ht).
    exists t. rewrite lrev_rev. exact Ht.
  Qed.
End RawB.
Print Assumptions raw_decode_rejects.

(* ---------- the raw API, stated with the reference encoder ---------- *)
Theorem raw_lzma_out_of_window_rejected fp pr dict us memlimit good bad hg bflag trail payload out_good dec s k fuel :
  props_match pr fp ->
  1 <= dict -> dict <= (match memlimit with Some m => m | None => USIZE - 1 end) ->
  no_marker good -> sem_from (Some dict) hist0 good = Some (hg, bflag) ->
  bad_copy dict hg bad ->
  enc_payload_gen true fp (Some dict) (good ++ [bad]) 0 = Some (payload, out_good) ->
  match us with Some size => nlen out_good < size | None => True end ->
  lzma_decoder_new (mkParams pr dict us) memlimit = Done dec ->
  FaultFree s -> s_rest s = payload ++ trail ->
  k_wfail k = None -> k_ffail k = false ->
  (length good + 1 <= Pos.to_nat fuel)%nat ->
  exists dec' w',
    lzma_decoder_decompress fuel dec (mkIo s k) = (Failed ELzma, (dec', w')) /\
    sem (Some dict) good = Some out_good /\
    exists t, snk_bytes k ++ out_good = snk_bytes (i_snk w') ++ t.
Proof.
  intros Hpm Hd1 Hdm Hnm Hsem Hbad Henc Hus Hnew Hff Hrest Hkw Hkf Hfuel.
  unfold enc_payload_gen in Henc.
  destruct (enc_syms_gen true fp (Some dict) ienc0 (estate0 fp) (good ++ [bad])) as [[ief sf]|] eqn:E; [|discriminate].
  inversion Henc; subst payload out_good. clear Henc.
  assert (Hdict : 0 < dict /\ dict <= match memlimit with Some m => m | None => USIZE - 1 end) by (split; [lia|exact Hdm]).
  destruct (rawB_events fp dict good bad hg bflag ief sf Hnm Hsem Hbad E) as (evs & stg & _ & _ & Ehist).
  rewrite Ehist in *.
  pose proof (rawB_hist_len fp dict good bad hg bflag ief sf Hnm Hsem Hbad E) as Hlen.
  destruct (raw_decode_rejects fp pr Hpm dict _ Hdict us good bad hg bflag trail ief sf Hnm Hsem Hbad E memlimit dec s k fuel)
    as (dec' & w' & Hrun & Hpre); try assumption; try reflexivity.
  { destruct us as [size|]; [|exact I]. rewrite Hlen, <- (nlen_lrev (h_bytes hg)). exact Hus. }
  exists dec', w'. split; [exact Hrun|]. split; [|exact Hpre].
  unfold sem. rewrite Hsem. reflexivity.
Qed.
Print Assumptions raw_lzma_out_of_window_rejected.

(* ---------- the .lzma container ---------- *)
Lemma enc_lzma_gen_true_inv fp dict_field size_field prog delta bytes out :
  enc_lzma_gen true fp dict_field size_field prog delta = Some (bytes, out) ->
  exists payload, enc_payload_gen true fp (Some (N.max dict_field 4096)) prog delta = Some (payload, out) /\
    bytes = props_byte fp :: le_bytes 4 dict_field ++ le_bytes 8 size_field ++ payload.
Proof.
  unfold enc_lzma_gen.
  destruct (enc_payload_gen true fp (Some (N.max dict_field 4096)) prog delta) as [[payload out0]|]; [|discriminate].
  intros H. exists payload. inversion H; subst. split; reflexivity.
Qed.

(* lzma_decompress up to the payload, for any memlimit and allow_incomplete option *)
Lemma lzma_decompress_header_gen fp dict_field size_field payload trail frag k fuel ml ai :
  f_lc fp <= 8 -> f_lp fp <= 4 -> f_pb fp <= 4 -> dict_field < 2 ^ 32 -> size_field < 2 ^ 64 ->
  exists dec s1,
    props_match (mkProps (f_lc fp) (f_lp fp) (f_pb fp)) fp /\
    lzma_decoder_new (mkParams (mkProps (f_lc fp) (f_lp fp) (f_pb fp)) (N.max dict_field 4096)
                               (if size_field =? 18446744073709551615 then None else Some size_field)) ml = Done dec /\
    FaultFree s1 /\ s_rest s1 = payload ++ trail /\ s_pos s1 = 13 /\
    lzma_decompress fuel (mkOptions ReadFromHeader ml ai)
      (mkIo (src_of ((props_byte fp :: le_bytes 4 dict_field ++ le_bytes 8 size_field ++ payload) ++ trail) frag None) k)
    = (let '(r, (_, w')) := lzma_decoder_decompress fuel dec (mkIo s1 k) in (r, w')).
Proof.
  intros Hlc Hlp Hpb Hdf Hsz.
  destruct (props_byte_decode fp Hlc Hlp Hpb) as (Hpb225 & D1 & D2 & D3).
  set (us := if size_field =? 18446744073709551615 then None else Some size_field).
  set (s := src_of ((props_byte fp :: le_bytes 4 dict_field ++ le_bytes 8 size_field ++ payload) ++ trail) frag None).
  assert (Hs : FaultFree s) by apply src_of_FaultFree.
  destruct (read_header_run ml ai s (props_byte fp) dict_field size_field (payload ++ trail) Hs) as (s1 & Hrun & Hr1 & Hp1 & Hs1); try assumption.
  { unfold s, src_of. cbn [s_rest app]. rewrite <- !app_assoc. reflexivity. }
  rewrite D1, D2, D3 in Hrun. fold us in Hrun.
  set (pr := mkProps (f_lc fp) (f_lp fp) (f_pb fp)) in *.
  assert (Hpm : props_match pr fp) by (unfold props_match, pr; cbn [lc lp pb]; repeat split; assumption || reflexivity).
  set (dict := N.max dict_field 4096) in *.
  assert (Hnew : exists dec, lzma_decoder_new (mkParams pr dict us) ml = Done dec).
  { unfold lzma_decoder_new. cbn [pr_dict pr_props pr_unpacked].
    destruct (N.eqb_spec dict 0) as [E0|_]; [unfold dict in E0; lia|].
    unfold dstate_new. rewrite (props_valid_of_match pr fp Hpm). cbn [negb]. eexists. reflexivity. }
  destruct Hnew as (dec & Hnew).
  exists dec, s1. split; [exact Hpm|]. split; [exact Hnew|]. split; [exact Hs1|]. split; [exact Hr1|].
  split; [rewrite Hp1; unfold s, src_of; cbn [s_pos]; lia|].
  unfold lzma_decompress. cbn [i_src i_snk o_memlimit]. fold s. rewrite Hrun, Hnew. reflexivity.
Qed.

Theorem lzma_out_of_window_rejected fp dict_field good bad hg bflag bytes out_good trail frag k fuel ml ai :
  f_lc fp <= 8 -> f_lp fp <= 4 -> f_pb fp <= 4 -> dict_field < 2 ^ 32 ->
  match ml with Some m => N.max dict_field 4096 <= m | None => True end ->
  no_marker good -> sem_from (Some (N.max dict_field 4096)) hist0 good = Some (hg, bflag) ->
  bad_copy (N.max dict_field 4096) hg bad ->
  enc_lzma_gen true fp dict_field (2 ^ 64 - 1) (good ++ [bad]) 0 = Some (bytes, out_good) ->
  k_wfail k = None -> k_ffail k = false ->
  (length good + 1 <= Pos.to_nat fuel)%nat ->
  exists w',
    lzma_decompress fuel (mkOptions ReadFromHeader ml ai) (mkIo (src_of (bytes ++ trail) frag None) k)
    = (Failed ELzma, w') /\
    sem (Some (N.max dict_field 4096)) good = Some out_good /\
    exists t, snk_bytes k ++ out_good = snk_bytes (i_snk w') ++ t.
Proof.
  intros Hlc Hlp Hpb Hdf Hml Hnm Hsem Hbad Henc Hkw Hkf Hfuel.
  destruct (enc_lzma_gen_true_inv _ _ _ _ _ _ _ Henc) as (payload & Epay & ->).
  destruct (lzma_decompress_header_gen fp dict_field (2 ^ 64 - 1) payload trail frag k fuel ml ai Hlc Hlp Hpb Hdf ltac:(reflexivity))
    as (dec & s1 & Hpm & Hnew & Hs1 & Hr1 & Hp1 & Hrun).
  rewrite Hrun. clear Hrun. change (2 ^ 64 - 1 =? 18446744073709551615) with true in Hnew. cbv iota in Hnew.
  destruct (raw_lzma_out_of_window_rejected fp _ (N.max dict_field 4096) None ml good bad hg bflag trail payload out_good
              dec s1 k fuel Hpm) as (dec' & w' & Hdec & Hs & Hpre); try assumption.
  { lia. }
  { destruct ml as [m|]; [exact Hml|]. unfold USIZE, U64. change (2 ^ 32) with 4294967296 in Hdf. lia. }
  { exact I. }
  rewrite Hdec. exists w'. split; [reflexivity|]. split; assumption.
Qed.
Print Assumptions lzma_out_of_window_rejected.
