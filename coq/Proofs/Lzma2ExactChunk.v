(* C02, layer 4a: the invariant between two LZMA2 chunks ([SInv] on the serialiser's state,
   [Inter] between that state and the decoder's objects), the serialiser's LZMA branch in
   a form that names its intermediate values, and the uncompressed chunk. *)
From LZ Require Import Base.Prelude Base.Prog Model.Io Model.Tables Model.LzBuffer Model.RangeDec Model.Lzma Model.Lzma2
  Format.RefEnc Format.Lzma2Fmt
  Proofs.ProgLemmas Proofs.MapLemmas Proofs.IoLemmas Proofs.RangeLockstep Proofs.WinCirc Proofs.WinAccum Proofs.NoPanic Proofs.NoPanicWorld
  Proofs.SymOracle Proofs.SymCoders Proofs.SymLiteral Proofs.SymDecode Proofs.SymChain
  Proofs.Lzma2Inv Proofs.Lzma2Framing
  Proofs.LzmaExactSync Proofs.LzmaExactShape Proofs.LzmaExactRefine Proofs.LzmaExactLoop
  Proofs.Lzma2ExactIo Proofs.Lzma2ExactRefine Proofs.Lzma2ExactLoop.
From Coq Require Import ZifyBool ZifyNat ZifyN.
Local Open Scope prog_scope.

(* ================================================================== *)
(* the serialiser's LZMA branch with named intermediate values          *)
(* ================================================================== *)
Definition c_flushed (s : l2state) (rd : bool) : list N :=
  if rd then h_bytes (es_hist (l2_es s)) ++ l2_flushed s else l2_flushed s.
Definition c_hist (s : l2state) (rd : bool) : hist :=
  if rd then hist_clear (es_hist (l2_es s)) else es_hist (l2_es s).
Definition c_props (s : l2state) (cls : N) (np : option fprops) : fprops :=
  match np with Some p => (if 2 <=? cls then p else l2_props s) | None => l2_props s end.
Definition c_props_ok (cls : N) (np : option fprops) : bool :=
  match np with
  | Some p => (2 <=? cls) && (f_lc p + f_lp p <=? 4) && (f_pb p <=? 4)
  | None => cls <=? 1
  end.
Definition c_es1 (s : l2state) (cls : N) (np : option fprops) : estate :=
  if 1 <=? cls
  then mkEstate (ptabs_new (2 ^ (f_lc (c_props s cls np) + f_lp (c_props s cls np)))) 0 (hist_reps0 (c_hist s (cls =? 3)))
  else mkEstate (es_tabs (l2_es s)) (es_st (l2_es s)) (c_hist s (cls =? 3)).
Definition c_header (cls unpacked packed : N) (pr : fprops) : list N :=
  (128 + 32 * cls + N.shiftr (unpacked - 1) 16) ::
  be_bytes 2 (N.land (unpacked - 1) 65535) ++ be_bytes 2 (packed - 1) ++
  (if 2 <=? cls then [props_byte pr] else []).

Lemma ser_lzma_eq s cls np prog delta :
  ser_chunk_gen false s (CLzma cls np prog delta) =
  if negb (cls <=? 3) then None else
  if negb (c_props_ok cls np) then None else
  match enc_syms_gen false (c_props s cls np) None ienc0 (c_es1 s cls np) prog with
  | None => None
  | Some (ie, es2) =>
      let unpacked := h_len (es_hist es2) - h_len (c_hist s (cls =? 3)) + 0 in
      let packed := nlen (ienc_bytes ie delta) in
      if (1 <=? unpacked) && (unpacked <=? 2097152) && (packed <=? 65536) then
        Some (c_header cls unpacked packed (c_props s cls np) ++ ienc_bytes ie delta,
              mkL2S (c_props s cls np) es2 (c_flushed s (cls =? 3)))
      else None
  end.
Proof.
  unfold ser_chunk_gen, c_es1, c_props, c_props_ok, c_hist, c_flushed, c_header.
  destruct (cls <=? 3); cbn [negb]; [|reflexivity].
  destruct (cls =? 3); cbv iota beta.
  - destruct np as [p0|].
    + destruct ((2 <=? cls) && (f_lc p0 + f_lp p0 <=? 4) && (f_pb p0 <=? 4)); cbn [negb]; [|reflexivity].
      destruct (enc_syms_gen false _ None ienc0 _ prog) as [[ie es2]|]; [|reflexivity].
      cbv zeta. destruct (_ && _ && _); [|reflexivity]. rewrite <- app_comm_cons, <- !app_assoc. reflexivity.
    + destruct (cls <=? 1); cbn [negb]; [|reflexivity].
      destruct (enc_syms_gen false _ None ienc0 _ prog) as [[ie es2]|]; [|reflexivity].
      cbv zeta. destruct (_ && _ && _); [|reflexivity]. rewrite <- app_comm_cons, <- !app_assoc. reflexivity.
  - destruct np as [p0|].
    + destruct ((2 <=? cls) && (f_lc p0 + f_lp p0 <=? 4) && (f_pb p0 <=? 4)); cbn [negb]; [|reflexivity].
      destruct (enc_syms_gen false _ None ienc0 _ prog) as [[ie es2]|]; [|reflexivity].
      cbv zeta. destruct (_ && _ && _); [|reflexivity]. rewrite <- app_comm_cons, <- !app_assoc. reflexivity.
    + destruct (cls <=? 1); cbn [negb]; [|reflexivity].
      destruct (enc_syms_gen false _ None ienc0 _ prog) as [[ie es2]|]; [|reflexivity].
      cbv zeta. destruct (_ && _ && _); [|reflexivity]. rewrite <- app_comm_cons, <- !app_assoc. reflexivity.
Qed.

(* the ideal encoder state at the end of an LZMA chunk (its range bounds the flush offset) *)
Definition chunk_ienc (s : l2state) (c : chunk) : option ienc :=
  match c with
  | CRaw _ _ => None
  | CLzma cls np prog _ =>
      match enc_syms_gen false (c_props s cls np) None ienc0 (c_es1 s cls np) prog with
      | Some (ie, _) => Some ie
      | None => None
      end
  end.

(* ================================================================== *)
(* well-formedness of a chunk sequence beyond what ser2 checks          *)
(* ================================================================== *)
Definition is_marker (x : sym) : bool := match x with EndMarker => true | _ => false end.
Definition no_markerb (prog : list sym) : bool := forallb (fun x => negb (is_marker x)) prog.

(* [need]: a dictionary reset by an uncompressed chunk has not yet been followed by a state reset *)
Definition chunk_okb (need : bool) (s : l2state) (c : chunk) (s1 : l2state) : bool :=
  match c with
  | CRaw _ _ => true
  | CLzma cls _ prog delta =>
      (negb (cls =? 0) || negb need) && no_markerb prog &&
      match chunk_ienc s c with Some ie => delta <? i_range ie | None => false end &&
      (h_len (es_hist (l2_es s1)) <=? 18446744073709551615)
  end.
Definition next_need (need : bool) (c : chunk) : bool :=
  match c with CRaw rd _ => rd || need | CLzma _ _ _ _ => false end.

Fixpoint wf_fromb (need : bool) (s : l2state) (cs : list chunk) : bool :=
  match cs with
  | [] => true
  | c :: rest =>
      match ser_chunk_gen false s c with
      | None => false
      | Some (_, s1) => chunk_okb need s c s1 && wf_fromb (next_need need c) s1 rest
      end
  end.
Definition wf_seq (cs : list chunk) : Prop := wf_fromb false l2state0 cs = true.

Lemma no_markerb_spec prog : no_markerb prog = true -> Forall (fun x => x <> EndMarker) prog.
Proof.
  unfold no_markerb. rewrite forallb_forall, Forall_forall. intros H x Hx E. subst x.
  specialize (H _ Hx). discriminate.
Qed.

(* ================================================================== *)
(* invariants                                                          *)
(* ================================================================== *)
Record SInv (need : bool) (s : l2state) : Prop := mkSInv {
  si_lclp : f_lc (l2_props s) + f_lp (l2_props s) <= 4;
  si_pb : f_pb (l2_props s) <= 4;
  si_st : es_st (l2_es s) < 12;
  si_bytes : Forall (fun b => b < 256) (h_bytes (es_hist (l2_es s)));
  si_len : h_len (es_hist (l2_es s)) = nlen (h_bytes (es_hist (l2_es s)));
  si_std : TabsStd (es_tabs (l2_es s)) (f_lc (l2_props s) + f_lp (l2_props s));
  si_probs : ProbsOk (es_tabs (l2_es s));
  si_rep0 : need = false -> rep0_ok None (es_st (l2_es s)) (es_hist (l2_es s))
}.

(* the decoder's objects between two chunks; [pre0]: what the sink held at the start,
   [fl]: its flush count, [pos]/[rest]: the reader's position and what is left to read *)
Record Inter (pre0 : list N) (fl : N) (s : l2state) (w : w2) (pos : N) (rest : list N) : Prop := mkInter {
  in_pib : ds_pib (w_ds w) = [];
  in_props : props_match (ds_props (w_ds w)) (l2_props s);
  in_tabs : ds_tabs (w_ds w) = es_tabs (l2_es s);
  in_state : ds_state (w_ds w) = es_st (l2_es s);
  in_rep : ds_rep (w_ds w) = reps_of (es_hist (l2_es s));
  in_acc : AInv (pre0 ++ List.rev (l2_flushed s)) (w_acc w) (List.rev (h_bytes (es_hist (l2_es s))));
  in_mem : a_mem (w_acc w) = 18446744073709551615;
  in_ffail : k_ffail (a_snk (w_acc w)) = false;
  in_fl : k_flushes (a_snk (w_acc w)) = fl;
  in_src : FaultFree (w_src w);
  in_rest : s_rest (w_src w) = rest;
  in_pos : s_pos (w_src w) = pos
}.

(* ================================================================== *)
(* small facts                                                         *)
(* ================================================================== *)
Lemma push_bytes_rev bs : forall h, push_bytes bs h = List.rev bs ++ h.
Proof.
  induction bs as [|b t IH]; intros h; cbn [push_bytes List.rev app]; [reflexivity|].
  rewrite IH, <- app_assoc. reflexivity.
Qed.

Lemma be_bytes_2 v : exists a b, be_bytes 2 v = [a; b].
Proof.
  pose proof (be_bytes_length 2 v) as H.
  destruct (be_bytes 2 v) as [|a [|b [|c l]]]; cbn [length] in H; try lia. exists a, b. reflexivity.
Qed.

Lemma be_num_be_bytes_2 v : v < 65536 -> be_num (be_bytes 2 v) = v.
Proof. intros H. apply be_num_be_bytes. exact H. Qed.

Lemma mapped_read_u16_pos s a b t : FaultFree s -> s_rest s = a :: b :: t ->
  exists s', src_run (map_io_err ELzma read_u16_be) s = (Done (be_num [a; b]), s') /\
             s_rest s' = t /\ s_pos s' = s_pos s + 2 /\ FaultFree s'.
Proof.
  intros Hs Hr. destruct (io_read_exact_spec s [a; b] t 2 Hs Hr eq_refl) as (s' & E & H1 & H3 & H2).
  exists s'. split; [|split; [exact H1|split; [exact H3|exact H2]]]. rewrite Lzma2Inv.src_run_map_io_err by (apply FaultFree_L; exact Hs).
  rewrite (io_runs_src_run read_u16_be s (Done (be_num [a; b])) s'); [reflexivity|].
  unfold read_u16_be. eapply io_runs_bind; [exact E|]. apply io_runs_ret.
Qed.

(* a big-endian 16-bit field written by the serialiser *)
Lemma mapped_read_u16_field s v t : FaultFree s -> s_rest s = be_bytes 2 v ++ t -> v < 65536 ->
  exists s', src_run (map_io_err ELzma read_u16_be) s = (Done v, s') /\
             s_rest s' = t /\ s_pos s' = s_pos s + 2 /\ FaultFree s'.
Proof.
  intros Hs Hr Hv. destruct (be_bytes_2 v) as (a & b & E). pose proof (be_num_be_bytes_2 v Hv) as Hn.
  rewrite E in Hr, Hn. cbn [app] in Hr.
  destruct (mapped_read_u16_pos s a b t Hs Hr) as (s' & H). rewrite Hn in H. exists s'. exact H.
Qed.

Lemma forallb_bytes data : forallb (fun b => b <? 256) data = true -> Forall (fun b => b < 256) data.
Proof.
  rewrite forallb_forall, Forall_forall. intros H x Hx. apply N.ltb_lt. apply H. exact Hx.
Qed.

Lemma Forall_rev_bytes (l : list N) : Forall (fun b => b < 256) l -> Forall (fun b => b < 256) (List.rev l).
Proof. rewrite !Forall_forall. intros H x Hx. apply H. apply in_rev. exact Hx. Qed.

Lemma rep0_ok_grow st h h2 : rep0_ok None st h -> h_r0 h2 = h_r0 h -> h_len h <= h_len h2 -> rep0_ok None st h2.
Proof.
  unfold rep0_ok. intros H E Hl H7. rewrite E. apply (can_copy_grow None h); [apply H; exact H7|exact Hl].
Qed.

(* ================================================================== *)
(* the dictionary reset                                                *)
(* ================================================================== *)
Lemma dict_reset_run pre0 s (rd : bool) a :
  AInv (pre0 ++ List.rev (l2_flushed s)) a (List.rev (h_bytes (es_hist (l2_es s)))) ->
  a_mem a = 18446744073709551615 ->
  exists a', (if rd then accum_reset a else (Done tt, a)) = (Done tt, a') /\
    AInv (pre0 ++ List.rev (c_flushed s rd)) a' (List.rev (h_bytes (c_hist s rd))) /\
    a_mem a' = 18446744073709551615 /\
    k_ffail (a_snk a') = k_ffail (a_snk a) /\ k_flushes (a_snk a') = k_flushes (a_snk a).
Proof.
  intros HI Hm. unfold c_flushed, c_hist. destruct rd.
  - destruct (accum_reset_spec _ _ _ HI) as (a' & E & HI' & Hm' & Hff & Hfl).
    exists a'. split; [exact E|]. split.
    + unfold hist_clear. cbn [h_bytes List.rev]. rewrite rev_app_distr, app_assoc. exact HI'.
    + split; [congruence|]. split; assumption.
  - exists a. split; [reflexivity|]. split; [exact HI|]. split; [exact Hm|]. split; reflexivity.
Qed.

(* ================================================================== *)
(* one uncompressed chunk                                              *)
(* ================================================================== *)
Definition raw_hist (h1 : hist) (data : list N) : hist :=
  mkHist (push_bytes data (h_bytes h1)) (h_len h1 + nlen data) (h_r0 h1) (h_r1 h1) (h_r2 h1) (h_r3 h1).

Lemma ser_raw_eq s rd data :
  ser_chunk_gen false s (CRaw rd data) =
  if (1 <=? nlen data) && (nlen data <=? 65536) && forallb (fun b => b <? 256) data then
    Some ((if rd then 1 else 2) :: be_bytes 2 (nlen data - 1) ++ data,
          mkL2S (l2_props s) (mkEstate (es_tabs (l2_es s)) (es_st (l2_es s)) (raw_hist (c_hist s rd) data)) (c_flushed s rd))
  else None.
Proof. unfold ser_chunk_gen, c_hist, c_flushed, raw_hist. destruct rd; reflexivity. Qed.

Lemma c_hist_len s rd : h_len (es_hist (l2_es s)) = nlen (h_bytes (es_hist (l2_es s))) ->
  h_len (c_hist s rd) = nlen (h_bytes (c_hist s rd)).
Proof. unfold c_hist. destruct rd; [reflexivity|]. intros H; exact H. Qed.

Lemma c_hist_bytes s rd : Forall (fun b => b < 256) (h_bytes (es_hist (l2_es s))) ->
  Forall (fun b => b < 256) (h_bytes (c_hist s rd)).
Proof. unfold c_hist. destruct rd; [constructor|]. intros H; exact H. Qed.

Lemma c_hist_reps s rd : reps_of (c_hist s rd) = reps_of (es_hist (l2_es s)).
Proof. unfold c_hist. destruct rd; reflexivity. Qed.

Theorem raw_chunk_exact pre0 fl need s rd data b1 s1 w pos t fuel :
  SInv need s -> ser_chunk_gen false s (CRaw rd data) = Some (b1, s1) ->
  Inter pre0 fl s w pos (b1 ++ t) ->
  exists w', l2_body fuel w = Next w' /\ Inter pre0 fl s1 w' (pos + nlen b1) t /\ SInv (rd || need) s1.
Proof.
  intros HS Hser HI. rewrite ser_raw_eq in Hser.
  destruct ((1 <=? nlen data) && (nlen data <=? 65536) && forallb (fun b => b <? 256) data) eqn:Hc; [|discriminate].
  apply andb_true_iff in Hc. destruct Hc as [Hc Hby]. apply andb_true_iff in Hc. destruct Hc as [Hn1 Hn2].
  apply N.leb_le in Hn1. apply N.leb_le in Hn2. apply forallb_bytes in Hby.
  assert (Eb1 : b1 = (if rd then 1 else 2) :: be_bytes 2 (nlen data - 1) ++ data) by congruence.
  assert (Es1 : s1 = mkL2S (l2_props s) (mkEstate (es_tabs (l2_es s)) (es_st (l2_es s)) (raw_hist (c_hist s rd) data)) (c_flushed s rd)) by congruence.
  clear Hser. subst b1 s1.
  destruct HS as [S1 S2 S3 S4 S5 S6 S7 S8]. destruct HI as [I1 I2 I3 I4 I5 I6 I7 I8 I9 I10 I11 I12].
  set (ctl := if rd then 1 else 2) in *.
  rewrite <- app_comm_cons, <- app_assoc in I11.
  destruct (l2_body_read fuel w ctl _ I10 I11) as (sa & Fa & Ra & Pa & Hbody). rewrite Hbody. clear Hbody.
  destruct (mapped_read_u16_field sa (nlen data - 1) _ Fa Ra ltac:(lia)) as (sb & Eb & Rb & Pb & Fb).
  destruct (dict_reset_run pre0 s rd (w_acc w) I6 I7) as (a1 & Ereset & HA1 & Hm1 & Hff1 & Hfl1).
  destruct (mapped_read_exact sb data t (nlen data) Fb Rb eq_refl) as (sc & Ec & Rc & Pc & Fc).
  assert (Hpu : parse_uncompressed rd (mkW2 (w_ds w) sa (w_acc w))
                = (Done tt, mkW2 (w_ds w) sc (accum_append_bytes a1 data))).
  { unfold parse_uncompressed, w2_src. cbn [w_src w_ds w_acc fst snd]. rewrite Eb. cbn [fst snd w_src w_ds w_acc].
    replace (nlen data - 1 + 1) with (nlen data) by lia.
    destruct rd.
    - rewrite Ereset. cbn [w_src w_ds w_acc]. rewrite Ec. reflexivity.
    - inversion Ereset; subst a1. cbn [w_src w_ds w_acc]. rewrite Ec. reflexivity. }
  assert (Hdisp : l2_dispatch fuel ctl (mkW2 (w_ds w) sa (w_acc w)) = Next (mkW2 (w_ds w) sc (accum_append_bytes a1 data))).
  { unfold l2_dispatch, ctl. destruct rd.
    - change (1 =? 0) with false. change (1 =? 1) with true. cbv iota. rewrite Hpu. reflexivity.
    - change (2 =? 0) with false. change (2 =? 1) with false. change (2 =? 2) with true. cbv iota. rewrite Hpu. reflexivity. }
  eexists. split; [exact Hdisp|].
  pose proof (c_hist_len s rd S5) as Hl1. pose proof (c_hist_bytes s rd S4) as Hb1.
  split.
  - constructor; cbn [w_ds w_src w_acc l2_props l2_es l2_flushed es_tabs es_st es_hist]; try assumption.
    + rewrite I5. unfold raw_hist, reps_of. cbn [h_r0 h_r1 h_r2 h_r3].
      pose proof (c_hist_reps s rd) as E. unfold reps_of in E. symmetry. exact E.
    + unfold raw_hist. cbn [h_bytes]. rewrite push_bytes_rev, rev_app_distr, rev_involutive.
      apply accum_append_bytes_spec. exact HA1.
    + unfold accum_append_bytes. cbn [a_snk]. congruence.
    + unfold accum_append_bytes. cbn [a_snk]. congruence.
    + rewrite Pc, Pb, Pa, nlen_cons, nlen_app. destruct (be_bytes_2 (nlen data - 1)) as (x & y & ->).
      change (nlen [x; y]) with 2. lia.
  - constructor; cbn [l2_props l2_es es_tabs es_st es_hist]; try assumption.
    + unfold raw_hist. cbn [h_bytes]. rewrite push_bytes_rev. apply Forall_app. split; [|exact Hb1].
      apply Forall_rev_bytes. exact Hby.
    + unfold raw_hist. cbn [h_bytes h_len]. rewrite push_bytes_rev, nlen_app, nlen_rev, Hl1. lia.
    + intros Hneed. apply orb_false_iff in Hneed. destruct Hneed as [-> Hneed].
      unfold c_hist. apply (rep0_ok_grow _ (es_hist (l2_es s))); [apply S8; exact Hneed|reflexivity|].
      unfold raw_hist. cbn [h_len]. lia.
Qed.
Print Assumptions raw_chunk_exact.
