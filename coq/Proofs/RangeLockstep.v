(* Range-coder lock-step: the decoder of rangecoder.rs follows the ideal
   (unbounded precision) range encoder of Format/RefEnc.v event by event.
   First for a pure copy of the decoder on (registers, remaining bytes), then
   for the model's programs rc_new / rc_decode_bit / rc_get run on any
   fault-free source, whatever its fragmentation. *)
From LZ Require Import Base.Prelude Base.Prog Model.Io Model.Tables Model.LzBuffer Model.RangeDec Format.RefEnc
  Proofs.ProgLemmas Proofs.IoLemmas.
From Coq Require Import ZifyBool ZifyNat ZifyN NArithRing.
Local Open Scope prog_scope.

(* ---------- events with the probability VALUE in force ---------- *)
Inductive rev := RBit (p : N) (b : bool) | RDir (b : bool).
Definition wf_rev (e : rev) : Prop := match e with RBit p _ => 31 <= p <= 2017 | RDir _ => True end.
Definition bit_of (e : rev) : bool := match e with RBit _ b => b | RDir b => b end.
Definition ienc_rev (e : ienc) (x : rev) : ienc :=
  match x with RBit p b => ienc_bit e p b | RDir b => ienc_direct e b end.

Definition wf_ienc (e : ienc) : Prop := 16777216 <= i_range e < 4294967296.

(* ---------- the decoder of rangecoder.rs as pure functions ---------- *)
Definition pnorm (r : rc) (inp : list N) : option (rc * list N) :=
  if r_range r <? 16777216 then
    match inp with
    | [] => None
    | b :: t => Some (mkRc (M32 (N.shiftl (r_range r) 8)) (N.lxor (M32 (N.shiftl (r_code r) 8)) b), t)
    end
  else Some (r, inp).

(* the bit and the registers before normalisation *)
Definition pdecode_pre (r : rc) (p : N) : bool * rc :=
  let bound := N.shiftr (r_range r) 11 * p in
  if r_code r <? bound then (false, mkRc bound (r_code r))
  else (true, mkRc (r_range r - bound) (r_code r - bound)).
Definition pget_pre (r : rc) : bool * rc :=
  let range := N.shiftr (r_range r) 1 in
  let bit := range <=? r_code r in
  (bit, mkRc range (if bit then r_code r - range else r_code r)).

Definition pfinish (x : bool * rc) (inp : list N) : option (bool * rc * list N) :=
  match pnorm (snd x) inp with Some (r', t) => Some (fst x, r', t) | None => None end.
Definition pdecode_bit (r : rc) (p : N) (inp : list N) : option (bool * rc * list N) := pfinish (pdecode_pre r p) inp.
Definition pget_bit (r : rc) (inp : list N) : option (bool * rc * list N) := pfinish (pget_pre r) inp.

Definition pdec_ev (e : rev) (r : rc) (inp : list N) : option (bool * rc * list N) :=
  match e with RBit p _ => pdecode_bit r p inp | RDir _ => pget_bit r inp end.

Fixpoint pdec (evs : list rev) (r : rc) (inp : list N) : option (list bool * rc * list N) :=
  match evs with
  | [] => Some ([], r, inp)
  | e :: evs' =>
      match pdec_ev e r inp with
      | None => None
      | Some (b, r', inp') =>
          match pdec evs' r' inp' with
          | None => None
          | Some (bs, r'', inp'') => Some (b :: bs, r'', inp'')
          end
      end
  end.

(* ---------- numerals ---------- *)
Definition bytes (l : list N) : Prop := Forall (fun b => b < 256) l.

Lemma pow256_pos k : 0 < 256 ^ k.
Proof. assert (256 ^ k <> 0) by (apply N.pow_nonzero; lia). lia. Qed.

Lemma be_num_acc_spec l : forall acc, be_num_acc acc l = acc * 256 ^ nlen l + be_num l.
Proof.
  induction l as [|a l IH]; intros acc.
  - unfold be_num. cbn [be_num_acc]. change (nlen (@nil N)) with 0. rewrite N.pow_0_r. ring.
  - change (be_num (a :: l)) with (be_num_acc (0 * 256 + a) l). cbn [be_num_acc].
    rewrite (IH (acc * 256 + a)), (IH (0 * 256 + a)), nlen_cons, N.pow_add_r, N.pow_1_r. ring.
Qed.

Lemma be_num_nil : be_num [] = 0.
Proof. reflexivity. Qed.

Lemma be_num_cons b t : be_num (b :: t) = b * 256 ^ nlen t + be_num t.
Proof. unfold be_num at 1. cbn [be_num_acc]. rewrite be_num_acc_spec. ring. Qed.

Lemma be_num_app l1 l2 : be_num (l1 ++ l2) = be_num l1 * 256 ^ nlen l2 + be_num l2.
Proof.
  induction l1 as [|a l1 IH]; cbn [app].
  - change (be_num []) with 0. ring.
  - rewrite !be_num_cons, IH, nlen_app, N.pow_add_r. ring.
Qed.

Lemma digit_bound b P m : b < 256 -> m < P -> b * P + m < P * 256.
Proof. intros Hb Hm. nia. Qed.

Lemma be_num_bound l : bytes l -> be_num l < 256 ^ nlen l.
Proof.
  induction 1 as [|b t Hb Ht IH].
  - change (be_num []) with 0. change (nlen (@nil N)) with 0. rewrite N.pow_0_r. lia.
  - rewrite be_num_cons, nlen_cons, N.pow_add_r, N.pow_1_r. apply digit_bound; assumption.
Qed.

(* ---------- bit-level helpers ---------- *)
Lemma shiftr11 x : N.shiftr x 11 = x / 2048.
Proof. rewrite N.shiftr_div_pow2. reflexivity. Qed.
Lemma shiftr1 x : N.shiftr x 1 = x / 2.
Proof. rewrite N.shiftr_div_pow2. reflexivity. Qed.
Lemma shiftr5 x : N.shiftr x 5 = x / 32.
Proof. rewrite N.shiftr_div_pow2. reflexivity. Qed.
Lemma shiftl8 x : N.shiftl x 8 = x * 256.
Proof. rewrite N.shiftl_mul_pow2. reflexivity. Qed.
Lemma shiftl1 x : N.shiftl x 1 = x * 2.
Proof. rewrite N.shiftl_mul_pow2. reflexivity. Qed.

Lemma M32_small x : x < 4294967296 -> M32 x = x.
Proof.
  intros H. unfold M32. change 4294967295 with (N.ones 32). rewrite N.land_ones.
  apply N.mod_small. exact H.
Qed.

(* (c << 8) ^ byte = c * 256 + byte *)
Lemma lxor_low c b : b < 256 -> N.lxor (c * 256) b = c * 256 + b.
Proof.
  intros Hb. symmetry. apply N.add_nocarry_lxor.
  apply N.bits_inj. intros n. rewrite N.land_spec, N.bits_0.
  destruct (N.ltb_spec n 8) as [Hlt|Hge].
  - change 256 with (2 ^ 8). rewrite N.mul_pow2_bits_low by exact Hlt. reflexivity.
  - assert (N.testbit b n = false) as ->; [|apply andb_false_r].
    destruct (N.eq_dec b 0) as [->|Hnz]; [apply N.bits_0|].
    apply N.bits_above_log2.
    assert (N.log2 b < 8); [|lia]. apply N.log2_lt_pow2; [lia|]. exact Hb.
Qed.

Lemma lxor_low2 c b : b < 2 -> N.lxor (c * 2) b = c * 2 + b.
Proof.
  intros Hb. symmetry. apply N.add_nocarry_lxor.
  apply N.bits_inj. intros n. rewrite N.land_spec, N.bits_0.
  destruct (N.ltb_spec n 1) as [Hlt|Hge].
  - change 2 with (2 ^ 1) at 1. rewrite N.mul_pow2_bits_low by exact Hlt. reflexivity.
  - assert (N.testbit b n = false) as ->; [|apply andb_false_r].
    destruct (N.eq_dec b 0) as [->|Hnz]; [apply N.bits_0|].
    apply N.bits_above_log2.
    assert (N.log2 b < 1); [|lia]. apply N.log2_lt_pow2; [lia|]. exact Hb.
Qed.

(* ---------- pnorm ---------- *)
Lemma pnorm_no r inp : 16777216 <= r_range r -> pnorm r inp = Some (r, inp).
Proof. unfold pnorm. intros H. destruct (N.ltb_spec (r_range r) 16777216); [lia|reflexivity]. Qed.

Lemma pnorm_yes R c b t : R < 16777216 -> c < 16777216 -> b < 256 ->
  pnorm (mkRc R c) (b :: t) = Some (mkRc (R * 256) (c * 256 + b), t).
Proof.
  unfold pnorm. cbn [r_range r_code]. intros HR Hc Hb. destruct (N.ltb_spec R 16777216); [|lia].
  rewrite !shiftl8, !M32_small by lia. rewrite lxor_low by exact Hb. reflexivity.
Qed.

Lemma pnorm_none r inp : pnorm r inp = None <-> r_range r < 16777216 /\ inp = [].
Proof.
  unfold pnorm. destruct (N.ltb_spec (r_range r) 16777216) as [Hlt|Hge]; destruct inp as [|x l]; split; intros E;
    try discriminate; try (destruct E; try discriminate; lia); try reflexivity.
  split; [assumption|reflexivity].
Qed.

Lemma pnorm_rest r inp r' t : pnorm r inp = Some (r', t) -> t = inp \/ exists x, inp = x :: t.
Proof.
  unfold pnorm. destruct (N.ltb_spec (r_range r) 16777216); [destruct inp as [|x l]|]; intros E; inversion E; subst; eauto.
Qed.

(* ---------- one event of the ideal encoder ---------- *)
Lemma ienc_norm_yes L R n : R < 16777216 -> ienc_norm (mkIenc L R n) = mkIenc (L * 256) (R * 256) (n + 1).
Proof. unfold ienc_norm. cbn [i_low i_range i_norms]. intros H. destruct (N.ltb_spec R 16777216); [reflexivity|lia]. Qed.
Lemma ienc_norm_no L R n : 16777216 <= R -> ienc_norm (mkIenc L R n) = mkIenc L R n.
Proof. unfold ienc_norm. cbn [i_low i_range i_norms]. intros H. destruct (N.ltb_spec R 16777216); [lia|reflexivity]. Qed.

Lemma bound_bounds R p : 16777216 <= R < 4294967296 -> 31 <= p <= 2017 ->
  253952 <= R / 2048 * p /\ R / 2048 * p + 253952 <= R.
Proof.
  intros HR Hp. assert (Hq : 8192 <= R / 2048 /\ R / 2048 * 2048 <= R).
  { pose proof (N.div_mod R 2048 ltac:(lia)). pose proof (N.mod_lt R 2048 ltac:(lia)). lia. }
  set (q := R / 2048) in *. clearbody q. nia.
Qed.

Lemma bound_le R p : p <= 2048 -> R / 2048 * p <= R.
Proof.
  intros Hp. assert (Hq : R / 2048 * 2048 <= R).
  { pose proof (N.div_mod R 2048 ltac:(lia)). lia. }
  set (q := R / 2048) in *. clearbody q. nia.
Qed.

Lemma half_bounds R : 16777216 <= R < 4294967296 -> 8388608 <= R / 2 /\ R / 2 + R / 2 <= R /\ R / 2 < 2147483648.
Proof.
  intros HR. pose proof (N.div_mod R 2 ltac:(lia)). pose proof (N.mod_lt R 2 ltac:(lia)). lia.
Qed.

(* every event is: move to a sub-interval [L1, L1+R1) of the current one, then normalise *)
Lemma ienc_rev_pre ie e : wf_ienc ie -> wf_rev e ->
  exists L1 R1, ienc_rev ie e = ienc_norm (mkIenc L1 R1 (i_norms ie)) /\
    65536 <= R1 < 4294967296 /\ i_low ie <= L1 /\ L1 + R1 <= i_low ie + i_range ie.
Proof.
  unfold wf_ienc. intros HR He. destruct e as [p b|b]; cbn [ienc_rev wf_rev] in *.
  - destruct (bound_bounds (i_range ie) p HR He) as [B1 B2]. unfold ienc_bit.
    set (bound := i_range ie / 2048 * p) in *. clearbody bound.
    destruct b; eexists _, _; (split; [reflexivity|]); lia.
  - destruct (half_bounds (i_range ie) HR) as (B1 & B2 & B3). unfold ienc_direct.
    set (h := i_range ie / 2) in *. clearbody h.
    destruct b; eexists _, _; (split; [reflexivity|]); lia.
Qed.

Lemma ienc_norm_wf L1 R1 n : 65536 <= R1 < 4294967296 ->
  wf_ienc (ienc_norm (mkIenc L1 R1 n)) /\
  (i_norms (ienc_norm (mkIenc L1 R1 n)) = n \/ i_norms (ienc_norm (mkIenc L1 R1 n)) = n + 1).
Proof.
  intros HR. unfold wf_ienc. destruct (N.lt_ge_cases R1 16777216) as [H|H].
  - rewrite ienc_norm_yes by exact H. cbn [i_range i_norms]. lia.
  - rewrite ienc_norm_no by exact H. cbn [i_range i_norms]. lia.
Qed.

Lemma ienc_rev_wf ie e : wf_ienc ie -> wf_rev e ->
  wf_ienc (ienc_rev ie e) /\ i_norms ie <= i_norms (ienc_rev ie e).
Proof.
  intros Hs He. destruct (ienc_rev_pre ie e Hs He) as (L1 & R1 & -> & HR & _).
  destruct (ienc_norm_wf L1 R1 (i_norms ie) HR) as [H1 H2]. split; [exact H1|lia].
Qed.

(* nesting of one event: the new interval, rescaled, sits inside the old one *)
Lemma ienc_rev_nest ie e : wf_ienc ie -> wf_rev e ->
  i_low ie * 256 ^ (i_norms (ienc_rev ie e) - i_norms ie) <= i_low (ienc_rev ie e) /\
  i_low (ienc_rev ie e) + i_range (ienc_rev ie e)
    <= (i_low ie + i_range ie) * 256 ^ (i_norms (ienc_rev ie e) - i_norms ie).
Proof.
  intros Hs He. destruct (ienc_rev_pre ie e Hs He) as (L1 & R1 & -> & HR & HL & HLR).
  destruct (N.lt_ge_cases R1 16777216) as [H|H].
  - rewrite ienc_norm_yes by exact H. cbn [i_low i_range i_norms].
    replace (i_norms ie + 1 - i_norms ie) with 1 by lia. rewrite N.pow_1_r. lia.
  - rewrite ienc_norm_no by exact H. cbn [i_low i_range i_norms].
    rewrite N.sub_diag, N.pow_0_r. lia.
Qed.

Lemma ienc_fold_wf evs : forall ie, wf_ienc ie -> Forall wf_rev evs ->
  wf_ienc (fold_left ienc_rev evs ie) /\ i_norms ie <= i_norms (fold_left ienc_rev evs ie).
Proof.
  induction evs as [|e evs IH]; intros ie Hs He; cbn [fold_left].
  - split; [assumption|lia].
  - inversion He as [|? ? He1 He2]; subst.
    destruct (ienc_rev_wf ie e Hs He1) as [Hs' Hn].
    destruct (IH _ Hs' He2) as [Hf Hn']. split; [exact Hf|lia].
Qed.

Lemma nest_compose L R L1 R1 L2 R2 P Q :
  L * P <= L1 -> L1 + R1 <= (L + R) * P -> L1 * Q <= L2 -> L2 + R2 <= (L1 + R1) * Q ->
  L * (P * Q) <= L2 /\ L2 + R2 <= (L + R) * (P * Q).
Proof. intros. split; nia. Qed.

Lemma ienc_fold_nest evs : forall ie, wf_ienc ie -> Forall wf_rev evs ->
  i_low ie * 256 ^ (i_norms (fold_left ienc_rev evs ie) - i_norms ie) <= i_low (fold_left ienc_rev evs ie) /\
  i_low (fold_left ienc_rev evs ie) + i_range (fold_left ienc_rev evs ie)
    <= (i_low ie + i_range ie) * 256 ^ (i_norms (fold_left ienc_rev evs ie) - i_norms ie).
Proof.
  induction evs as [|e evs IH]; intros ie Hs He; cbn [fold_left].
  - rewrite N.sub_diag, N.pow_0_r. lia.
  - inversion He as [|? ? He1 He2]; subst.
    destruct (ienc_rev_wf ie e Hs He1) as [Hs' Hn].
    pose proof (ienc_rev_nest ie e Hs He1) as [N1 N2].
    destruct (ienc_fold_wf evs _ Hs' He2) as [_ Hn'].
    pose proof (IH _ Hs' He2) as [I1 I2].
    set (s' := ienc_rev ie e) in *. set (sf := fold_left ienc_rev evs s') in *.
    replace (i_norms sf - i_norms ie) with ((i_norms s' - i_norms ie) + (i_norms sf - i_norms s')) by lia.
    rewrite N.pow_add_r.
    eapply nest_compose; eassumption.
Qed.

(* ---------- the generic step: normalisation keeps encoder and decoder in sync ---------- *)
Lemma norm_step (L1 R1 c1 n : N) (rest : list N) :
  65536 <= R1 < 4294967296 -> c1 < R1 -> bytes rest ->
  i_norms (ienc_norm (mkIenc L1 R1 n)) - n <= nlen rest ->
  exists c' rest',
    pnorm (mkRc R1 c1) rest = Some (mkRc (i_range (ienc_norm (mkIenc L1 R1 n))) c', rest') /\ bytes rest' /\
    nlen rest = (i_norms (ienc_norm (mkIenc L1 R1 n)) - n) + nlen rest' /\
    (L1 + c1) * 256 ^ nlen rest + be_num rest
      = (i_low (ienc_norm (mkIenc L1 R1 n)) + c') * 256 ^ nlen rest' + be_num rest'.
Proof.
  intros HR Hc Hb. destruct (N.lt_ge_cases R1 16777216) as [Hlt|Hge].
  - rewrite ienc_norm_yes by exact Hlt. cbn [i_low i_range i_norms]. intros Hlen.
    destruct rest as [|b t]; [change (nlen (@nil N)) with 0 in Hlen; lia|].
    inversion Hb as [|? ? Hb0 Hbt]; subst.
    exists (c1 * 256 + b), t. rewrite pnorm_yes by lia.
    split; [reflexivity|]. split; [assumption|]. rewrite nlen_cons. split; [lia|].
    rewrite be_num_cons, N.pow_add_r, N.pow_1_r. ring.
  - rewrite ienc_norm_no by exact Hge. cbn [i_low i_range i_norms]. intros _.
    exists c1, rest. rewrite pnorm_no by exact Hge.
    split; [reflexivity|]. split; [assumption|]. split; [lia|reflexivity].
Qed.

(* small arithmetic facts, proved in minimal contexts *)
Lemma scaled_lower L a c P m : 0 < P -> m < P -> (L + a) * P <= (L + c) * P + m -> a <= c.
Proof. intros HP Hm H. nia. Qed.
Lemma scaled_upper L a c P m : 0 < P -> (L + c) * P + m < (L + a) * P -> c < a.
Proof. intros HP H. nia. Qed.

Lemma window_unnorm L1 R1 n nf V :
  i_norms (ienc_norm (mkIenc L1 R1 n)) <= nf ->
  i_low (ienc_norm (mkIenc L1 R1 n)) * 256 ^ (nf - i_norms (ienc_norm (mkIenc L1 R1 n))) <= V
    < (i_low (ienc_norm (mkIenc L1 R1 n)) + i_range (ienc_norm (mkIenc L1 R1 n)))
      * 256 ^ (nf - i_norms (ienc_norm (mkIenc L1 R1 n))) ->
  L1 * 256 ^ (nf - n) <= V < (L1 + R1) * 256 ^ (nf - n).
Proof.
  destruct (N.lt_ge_cases R1 16777216) as [Hlt|Hge].
  - rewrite ienc_norm_yes by exact Hlt. cbn [i_low i_range i_norms]. intros Hle H.
    replace (nf - n) with (1 + (nf - (n + 1))) by lia. rewrite N.pow_add_r, N.pow_1_r.
    set (P := 256 ^ (nf - (n + 1))) in *. clearbody P. lia.
  - rewrite ienc_norm_no by exact Hge. cbn [i_low i_range i_norms]. intros _ H. exact H.
Qed.

Lemma window_trans A B Lf Rf V : A <= Lf -> Lf + Rf <= B -> Lf <= V < Lf + Rf -> A <= V < B.
Proof. lia. Qed.

(* ---------- lock-step, pure decoder ---------- *)
Theorem lockstep_pure evs : forall ie r rest,
  wf_ienc ie -> Forall wf_rev evs ->
  r_range r = i_range ie ->
  nlen rest = i_norms (fold_left ienc_rev evs ie) - i_norms ie -> bytes rest ->
  i_low (fold_left ienc_rev evs ie) <= (i_low ie + r_code r) * 256 ^ nlen rest + be_num rest
    < i_low (fold_left ienc_rev evs ie) + i_range (fold_left ienc_rev evs ie) ->
  pdec evs r rest =
  Some (map bit_of evs,
        mkRc (i_range (fold_left ienc_rev evs ie))
             ((i_low ie + r_code r) * 256 ^ nlen rest + be_num rest - i_low (fold_left ienc_rev evs ie)),
        []).
Proof.
  induction evs as [|e evs IH]; intros ie [R c] rest Hs Hev HR; cbn [r_range r_code] in *; subst R;
    cbn [fold_left pdec map].
  - rewrite N.sub_diag. intros Hlen _ HV. apply nlen_zero in Hlen. subst rest.
    change (nlen (@nil N)) with 0 in *. change (be_num []) with 0 in *. rewrite N.pow_0_r in *.
    assert (E : (i_low ie + c) * 1 + 0 - i_low ie = c) by lia. rewrite E. reflexivity.
  - inversion Hev as [|? ? He1 He2]; subst. intros Hlen Hb HV.
    destruct (ienc_rev_wf ie e Hs He1) as [Hs' Hn1].
    destruct (ienc_fold_wf evs _ Hs' He2) as [_ Hn2].
    pose proof (ienc_fold_nest evs _ Hs' He2) as [N1 N2].
    set (s1 := ienc_rev ie e) in *. set (sf := fold_left ienc_rev evs s1) in *.
    pose proof (be_num_bound rest Hb) as Hnum.
    pose proof (pow256_pos (nlen rest)) as Hp.
    set (P := 256 ^ nlen rest) in *.
    set (m := be_num rest) in *.
    pose proof (window_trans _ _ _ _ _ N1 N2 HV) as HW. clear N1 N2.
    assert (TAIL : forall L1 R1 c1 b,
              s1 = ienc_norm (mkIenc L1 R1 (i_norms ie)) ->
              65536 <= R1 < 4294967296 -> c1 < R1 -> L1 + c1 = i_low ie + c ->
              match pfinish (b, mkRc R1 c1) rest with
              | None => None
              | Some (b0, r', inp') =>
                  match pdec evs r' inp' with
                  | None => None
                  | Some (bs, r'', inp'') => Some (b0 :: bs, r'', inp'')
                  end
              end = Some (b :: map bit_of evs, mkRc (i_range sf) ((i_low ie + c) * P + m - i_low sf), [])).
    { intros L1 R1 c1 b Heq HR Hc1 Hsum.
      destruct (norm_step L1 R1 c1 (i_norms ie) rest HR Hc1 Hb) as (c' & rest' & Hd & Hb' & Hl & HVeq).
      { rewrite <- Heq. clear - Hlen Hn1 Hn2. lia. }
      unfold pfinish. cbn [fst snd]. rewrite Hd. rewrite <- Heq in *.
      specialize (IH s1 (mkRc (i_range s1) c') rest' Hs' He2 eq_refl).
      cbn [r_code] in IH. fold sf in IH. rewrite <- HVeq, Hsum in IH. fold P m in IH.
      rewrite IH; [reflexivity| clear - Hlen Hl Hn1 Hn2; lia | assumption | exact HV]. }
    destruct Hs as [HR1 HR2].
    destruct e as [p b|b]; cbn [pdec_ev bit_of].
    + unfold pdecode_bit, pdecode_pre. cbn [r_range r_code]. rewrite shiftr11.
      cbn [wf_rev] in He1.
      destruct (bound_bounds (i_range ie) p (conj HR1 HR2) He1) as [Hb1 Hb2].
      set (bound := i_range ie / 2048 * p) in *.
      destruct b.
      * pose proof (window_unnorm (i_low ie + bound) (i_range ie - bound) (i_norms ie) _ _ Hn2 HW) as [W1 W2].
        rewrite <- Hlen in W1, W2. fold P in W1, W2.
        replace (i_low ie + bound + (i_range ie - bound)) with (i_low ie + i_range ie) in W2 by (clear - Hb2; lia).
        assert (Hcb : bound <= c) by (apply (scaled_lower (i_low ie) bound c P m); assumption).
        assert (Hcu : c < i_range ie) by (apply (scaled_upper (i_low ie) (i_range ie) c P m); assumption).
        destruct (N.ltb_spec c bound) as [Hlt|_]; [clear - Hlt Hcb; lia|].
        apply (TAIL (i_low ie + bound) (i_range ie - bound) (c - bound) true);
          [reflexivity|clear - Hb1 Hb2 HR1 HR2; lia|clear - Hcb Hcu Hb2; lia|clear - Hcb; lia].
      * pose proof (window_unnorm (i_low ie) bound (i_norms ie) _ _ Hn2 HW) as [W1 W2].
        rewrite <- Hlen in W1, W2. fold P in W1, W2.
        assert (Hcb : c < bound) by (apply (scaled_upper (i_low ie) bound c P m); assumption).
        destruct (N.ltb_spec c bound) as [_|Hge]; [|clear - Hge Hcb; lia].
        apply (TAIL (i_low ie) bound c false);
          [reflexivity|clear - Hb1 Hb2 HR1 HR2; lia|assumption|reflexivity].
    + unfold pget_bit, pget_pre. cbn [r_range r_code]. rewrite shiftr1.
      destruct (half_bounds (i_range ie) (conj HR1 HR2)) as (Hh1 & Hh2 & Hh3).
      set (h := i_range ie / 2) in *.
      destruct b.
      * pose proof (window_unnorm (i_low ie + h) h (i_norms ie) _ _ Hn2 HW) as [W1 W2].
        rewrite <- Hlen in W1, W2. fold P in W1, W2.
        rewrite <- N.add_assoc in W2.
        assert (Hcb : h <= c) by (apply (scaled_lower (i_low ie) h c P m); assumption).
        assert (Hcu : c < h + h) by (apply (scaled_upper (i_low ie) (h + h) c P m); assumption).
        destruct (N.leb_spec h c) as [_|Hlt]; [|clear - Hlt Hcb; lia].
        apply (TAIL (i_low ie + h) h (c - h) true);
          [reflexivity|clear - Hh1 Hh3; lia|clear - Hcb Hcu; lia|clear - Hcb; lia].
      * pose proof (window_unnorm (i_low ie) h (i_norms ie) _ _ Hn2 HW) as [W1 W2].
        rewrite <- Hlen in W1, W2. fold P in W1, W2.
        assert (Hcb : c < h) by (apply (scaled_upper (i_low ie) h c P m); assumption).
        destruct (N.leb_spec h c) as [Hge|_]; [clear - Hge Hcb; lia|].
        apply (TAIL (i_low ie) h c false);
          [reflexivity|clear - Hh1 Hh3; lia|assumption|reflexivity].
Qed.
Print Assumptions lockstep_pure.

(* the pure decoder only looks at the head of its input *)
Lemma pnorm_frame r inp r' t trail : pnorm r inp = Some (r', t) -> pnorm r (inp ++ trail) = Some (r', t ++ trail).
Proof.
  unfold pnorm. destruct (N.ltb_spec (r_range r) 16777216); [destruct inp as [|x l]|]; intros E; inversion E; subst; reflexivity.
Qed.

Lemma pfinish_frame x inp b r' t trail : pfinish x inp = Some (b, r', t) -> pfinish x (inp ++ trail) = Some (b, r', t ++ trail).
Proof.
  unfold pfinish. destruct (pnorm (snd x) inp) as [[r1 t1]|] eqn:E; [|discriminate].
  intros H. inversion H; subst. rewrite (pnorm_frame _ _ _ _ trail E). reflexivity.
Qed.

Lemma pdec_ev_frame e r inp b r' t trail :
  pdec_ev e r inp = Some (b, r', t) -> pdec_ev e r (inp ++ trail) = Some (b, r', t ++ trail).
Proof. destruct e; cbn [pdec_ev]; apply pfinish_frame. Qed.

Lemma pdec_frame evs : forall r inp bs r' t trail,
  pdec evs r inp = Some (bs, r', t) -> pdec evs r (inp ++ trail) = Some (bs, r', t ++ trail).
Proof.
  induction evs as [|e evs IH]; intros r inp bs r' t trail; cbn [pdec].
  - intros H. inversion H; subst. reflexivity.
  - destruct (pdec_ev e r inp) as [[[b r1] t1]|] eqn:E; [|discriminate].
    rewrite (pdec_ev_frame _ _ _ _ _ _ trail E).
    destruct (pdec evs r1 t1) as [[[bs1 r2] t2]|] eqn:E2; [|discriminate].
    rewrite (IH _ _ _ _ _ trail E2). intros H. inversion H; subst. reflexivity.
Qed.

(* the decoder's range register stays a u32 *)
Lemma M32_lt x : M32 x < 4294967296.
Proof.
  unfold M32. change 4294967295 with (N.ones 32). rewrite N.land_ones. apply N.mod_lt. discriminate.
Qed.

Lemma pnorm_range r inp r' t : r_range r < 4294967296 -> pnorm r inp = Some (r', t) -> r_range r' < 4294967296.
Proof.
  unfold pnorm. intros HR. destruct (N.ltb_spec (r_range r) 16777216); [destruct inp as [|x l]|]; intros E; inversion E; subst.
  - cbn [r_range]. apply M32_lt.
  - exact HR.
Qed.

Definition ok_rev (e : rev) : Prop := match e with RBit p _ => p <= 2048 | RDir _ => True end.

Lemma wf_ok_rev e : wf_rev e -> ok_rev e.
Proof. destruct e; cbn [wf_rev ok_rev]; [lia|trivial]. Qed.

Lemma pdecode_pre_range r p : r_range r < 4294967296 -> p <= 2048 -> r_range (snd (pdecode_pre r p)) < 4294967296.
Proof.
  intros HR Hp. unfold pdecode_pre. rewrite shiftr11. pose proof (bound_le (r_range r) p Hp).
  destruct (r_code r <? r_range r / 2048 * p); cbn [snd r_range]; lia.
Qed.

Lemma pget_pre_range r : r_range r < 4294967296 -> r_range (snd (pget_pre r)) < 4294967296.
Proof.
  intros HR. unfold pget_pre. rewrite shiftr1. cbn [snd r_range].
  pose proof (N.div_mod (r_range r) 2 ltac:(lia)). lia.
Qed.

Lemma pdec_ev_range e r inp b r' t : r_range r < 4294967296 -> ok_rev e ->
  pdec_ev e r inp = Some (b, r', t) -> r_range r' < 4294967296.
Proof.
  intros HR He. destruct e as [p b0|b0]; cbn [pdec_ev ok_rev] in *; unfold pdecode_bit, pget_bit, pfinish.
  - destruct (pnorm (snd (pdecode_pre r p)) inp) as [[r1 t1]|] eqn:E; [|discriminate].
    intros H. inversion H; subst. eapply pnorm_range; [|exact E]. apply pdecode_pre_range; assumption.
  - destruct (pnorm (snd (pget_pre r)) inp) as [[r1 t1]|] eqn:E; [|discriminate].
    intros H. inversion H; subst. eapply pnorm_range; [|exact E]. apply pget_pre_range; assumption.
Qed.

Lemma pdecode_bit_none r p inp :
  pdecode_bit r p inp = None <-> r_range (snd (pdecode_pre r p)) < 16777216 /\ inp = [].
Proof.
  unfold pdecode_bit, pfinish. rewrite <- pnorm_none.
  destruct (pnorm (snd (pdecode_pre r p)) inp) as [[r1 t1]|]; split; intros H; try discriminate; reflexivity.
Qed.

Lemma pget_bit_none r inp :
  pget_bit r inp = None <-> r_range (snd (pget_pre r)) < 16777216 /\ inp = [].
Proof.
  unfold pget_bit, pfinish. rewrite <- pnorm_none.
  destruct (pnorm (snd (pget_pre r)) inp) as [[r1 t1]|]; split; intros H; try discriminate; reflexivity.
Qed.

Lemma pfinish_rest x inp b r' t : pfinish x inp = Some (b, r', t) -> t = inp \/ exists y, inp = y :: t.
Proof.
  unfold pfinish. destruct (pnorm (snd x) inp) as [[r1 t1]|] eqn:E; [|discriminate].
  intros H. inversion H; subst. eapply pnorm_rest; exact E.
Qed.

Lemma pdecode_bit_rest r p inp b r' t : pdecode_bit r p inp = Some (b, r', t) -> t = inp \/ exists y, inp = y :: t.
Proof. apply pfinish_rest. Qed.
Lemma pget_bit_rest r inp b r' t : pget_bit r inp = Some (b, r', t) -> t = inp \/ exists y, inp = y :: t.
Proof. apply pfinish_rest. Qed.

(* ---------- running the model's programs on a fault-free source ---------- *)
(* [runs_as p s o]: on the fault-free source [s] the program [p] behaves like the pure
   function result [o] computed from [s_rest s]: [Some (a, t)] = returns [a], leaves [t];
   [None] = fails with an I/O error at the end of the input.  Never panics. *)
Definition runs_as {A} (p : iop A) (s : src) (o : option (A * list N)) : Prop :=
  exists s', io_runs p s (match o with Some (a, _) => Done a | None => Failed EIo end) s' /\
    s_rest s' = (match o with Some (_, t) => t | None => [] end) /\
    s_pos s' + nlen (s_rest s') = s_pos s + nlen (s_rest s) /\ FaultFree s'.

Lemma runs_as_ret {A} (a : A) s : FaultFree s -> runs_as (Ret a) s (Some (a, s_rest s)).
Proof. intros Hs. exists s. split; [apply io_runs_ret|]. repeat split; try reflexivity; apply Hs. Qed.

Lemma runs_as_bind {A B} (p : iop A) (f : A -> iop B) s o (g : A -> list N -> option (B * list N)) :
  runs_as p s o ->
  (forall a t s', o = Some (a, t) -> FaultFree s' -> s_rest s' = t -> runs_as (f a) s' (g a t)) ->
  runs_as (bind p f) s (match o with Some (a, t) => g a t | None => None end).
Proof.
  intros (s1 & Hrun & Hr & Hp & Hs1) Hf. destruct o as [[a t]|].
  - destruct (Hf a t s1 eq_refl Hs1 Hr) as (s2 & Hrun2 & Hr2 & Hp2 & Hs2).
    exists s2. split; [eapply io_runs_bind; eassumption|]. split; [assumption|]. split; [lia|assumption].
  - exists s1. split; [apply io_runs_bind_fail; assumption|]. split; [assumption|]. split; assumption.
Qed.

Lemma runs_as_src_run {A} (p : iop A) s o : runs_as p s o ->
  exists s', src_run p s = (match o with Some (a, _) => Done a | None => Failed EIo end, s') /\
    s_rest s' = (match o with Some (_, t) => t | None => [] end) /\
    s_pos s' + nlen (s_rest s') = s_pos s + nlen (s_rest s) /\ FaultFree s'.
Proof. intros (s' & H & H'). exists s'. split; [apply io_runs_src_run; exact H|exact H']. Qed.

Lemma rc_normalize_runs r s : FaultFree s -> runs_as (rc_normalize r) s (pnorm r (s_rest s)).
Proof.
  intros Hs. unfold rc_normalize, pnorm. destruct (N.ltb_spec (r_range r) 16777216) as [Hlt|Hge].
  - destruct (s_rest s) as [|b t] eqn:Er.
    + destruct (io_read_u8_eof s Hs Er) as (s' & Hrun & Hr & Hp & Hs').
      exists s'. split; [apply io_runs_bind_fail; exact Hrun|]. split; [assumption|]. split; [|assumption].
      rewrite Hr, Er, Hp. reflexivity.
    + destruct (io_read_u8_spec s b t Hs Er) as (s' & Hrun & Hr & Hp & Hs').
      exists s'. split; [eapply io_runs_bind; [exact Hrun|apply io_runs_ret]|]. split; [assumption|]. split; [|assumption].
      rewrite Hr, Hp, Er, nlen_cons. lia.
  - apply runs_as_ret. exact Hs.
Qed.

Definition lift3 {X} (o : option (bool * rc * list N)) (f : bool -> rc -> X) : option (X * list N) :=
  match o with Some (b, r', t) => Some (f b r', t) | None => None end.

Theorem rc_decode_bit_runs r p upd s : FaultFree s -> r_range r < 4294967296 -> p <= 2048 ->
  runs_as (rc_decode_bit r p upd) s
    (lift3 (pdecode_bit r p (s_rest s)) (fun b r' => (b, (if upd then prob_upd p b else p), r'))).
Proof.
  intros Hs HR Hp. unfold rc_decode_bit, pdecode_bit, pdecode_pre, pfinish, lift3, prob_upd, U32, U16.
  rewrite shiftr11, !shiftr5. pose proof (bound_le (r_range r) p Hp) as Hb.
  set (bound := r_range r / 2048 * p) in *.
  destruct (N.leb_spec 4294967296 bound) as [H|_]; [lia|].
  destruct (N.ltb_spec (r_code r) bound) as [Hlt|Hge].
  - destruct (N.ltb_spec 2048 p) as [H|_]; [lia|]. rewrite andb_false_r.
    assert (Hp' : (if upd then p + (2048 - p) / 32 else p) < 65536).
    { destruct upd; [|lia]. pose proof (N.div_mod (2048 - p) 32 ltac:(lia)). lia. }
    destruct (N.leb_spec 65536 (if upd then p + (2048 - p) / 32 else p)) as [H|_]; [lia|].
    cbn [snd fst].
    pose proof (runs_as_bind (rc_normalize (mkRc bound (r_code r)))
                  (fun r' => Ret (false, (if upd then p + (2048 - p) / 32 else p), r')) s _
                  (fun r' t => Some ((false, (if upd then p + (2048 - p) / 32 else p), r'), t))
                  (rc_normalize_runs _ s Hs)) as H.
    destruct (pnorm (mkRc bound (r_code r)) (s_rest s)) as [[r1 t1]|]; apply H;
      intros a t s' _ Hs' <-; apply runs_as_ret; exact Hs'.
  - destruct (N.ltb_spec (r_range r) bound) as [H|_]; [lia|].
    cbn [snd fst].
    pose proof (runs_as_bind (rc_normalize (mkRc (r_range r - bound) (r_code r - bound)))
                  (fun r' => Ret (true, (if upd then p - p / 32 else p), r')) s _
                  (fun r' t => Some ((true, (if upd then p - p / 32 else p), r'), t))
                  (rc_normalize_runs _ s Hs)) as H.
    destruct (pnorm (mkRc (r_range r - bound) (r_code r - bound)) (s_rest s)) as [[r1 t1]|]; apply H;
      intros a t s' _ Hs' <-; apply runs_as_ret; exact Hs'.
Qed.

Theorem rc_get_bit_runs r s : FaultFree s ->
  runs_as (rc_get_bit r) s (lift3 (pget_bit r (s_rest s)) (fun b r' => (b, r'))).
Proof.
  intros Hs. unfold rc_get_bit, pget_bit, pget_pre, pfinish, lift3. cbn [fst snd].
  set (range := N.shiftr (r_range r) 1).
  set (code := if range <=? r_code r then r_code r - range else r_code r).
  pose proof (runs_as_bind (rc_normalize (mkRc range code))
                (fun r' => Ret (range <=? r_code r, r')) s _
                (fun r' t => Some ((range <=? r_code r, r'), t))
                (rc_normalize_runs _ s Hs)) as H.
  destruct (pnorm (mkRc range code) (s_rest s)) as [[r1 t1]|]; apply H;
    intros a t s' _ Hs' <-; apply runs_as_ret; exact Hs'.
Qed.

(* rc_get: [count] direct bits *)
Definition acc_bit (result : N) (b : bool) : N := N.lxor (M32 (N.shiftl result 1)) (b2n b).

Fixpoint pget_loop (n : nat) (r : rc) (result : N) (inp : list N) : option (N * rc * list N) :=
  match n with
  | O => Some (result, r, inp)
  | S n' => match pget_bit r inp with
            | Some (b, r', t) => pget_loop n' r' (acc_bit result b) t
            | None => None
            end
  end.
Definition pget (count : N) (r : rc) (inp : list N) : option (N * rc * list N) := pget_loop (N.to_nat count) r 0 inp.

Lemma rc_get_loop_runs n : forall r result s, FaultFree s ->
  runs_as (rc_get_loop n r result) s
    (match pget_loop n r result (s_rest s) with Some (v, r', t) => Some ((v, r'), t) | None => None end).
Proof.
  induction n as [|n IH]; intros r result s Hs; cbn [rc_get_loop pget_loop].
  - apply runs_as_ret. exact Hs.
  - pose proof (runs_as_bind (rc_get_bit r)
                  (fun x => let '(b, r') := x in rc_get_loop n r' (N.lxor (M32 (N.shiftl result 1)) (b2n b))) s _
                  (fun x t => match pget_loop n (snd x) (acc_bit result (fst x)) t with
                              | Some (v, r', t') => Some ((v, r'), t') | None => None end)
                  (rc_get_bit_runs r s Hs)) as H.
    unfold lift3 in H. destruct (pget_bit r (s_rest s)) as [[[b r1] t1]|]; apply H.
    + intros [b' r'] t s' _ Hs' <-. cbn [fst snd]. apply IH. exact Hs'.
    + intros [b' r'] t s' _ Hs' <-. cbn [fst snd]. apply IH. exact Hs'.
Qed.

Theorem rc_get_runs count r s : FaultFree s ->
  runs_as (rc_get count r) s
    (match pget count r (s_rest s) with Some (v, r', t) => Some ((v, r'), t) | None => None end).
Proof. intros Hs. apply rc_get_loop_runs. exact Hs. Qed.

(* the value returned by rc_get is the number spelled by the bits, MSB first *)
Definition msb_acc (bs : list bool) (a : N) : N := fold_left (fun a b => 2 * a + b2n b) bs a.
Definition msb_num (bs : list bool) : N := msb_acc bs 0.

Lemma pget_loop_pdec n : forall r result inp,
  pget_loop n r result inp =
  match pdec (repeat (RDir false) n) r inp with
  | Some (bs, r', t) => Some (fold_left acc_bit bs result, r', t)
  | None => None
  end.
Proof.
  induction n as [|n IH]; intros r result inp; cbn [pget_loop repeat pdec pdec_ev]; [reflexivity|].
  destruct (pget_bit r inp) as [[[b r1] t1]|]; [|reflexivity].
  rewrite IH. destruct (pdec (repeat (RDir false) n) r1 t1) as [[[bs r2] t2]|]; reflexivity.
Qed.

Lemma msb_acc_ge bs : forall a, a <= msb_acc bs a.
Proof.
  unfold msb_acc. induction bs as [|b bs IH]; intros a; cbn [fold_left]; [lia|].
  specialize (IH (2 * a + b2n b)). lia.
Qed.

Lemma b2n_lt2 b : b2n b < 2.
Proof. destruct b; cbn [b2n]; lia. Qed.

Lemma acc_bits_num bs : forall a, msb_acc bs a < 4294967296 -> fold_left acc_bit bs a = msb_acc bs a.
Proof.
  unfold msb_acc. induction bs as [|b bs IH]; intros a H; cbn [fold_left] in *; [reflexivity|].
  pose proof (msb_acc_ge bs (2 * a + b2n b)) as Hge. unfold msb_acc in Hge.
  assert (E : acc_bit a b = 2 * a + b2n b).
  { unfold acc_bit. rewrite shiftl1, M32_small by lia. rewrite lxor_low2 by apply b2n_lt2. lia. }
  rewrite E. apply IH. exact H.
Qed.

Lemma msb_acc_bound bs : forall a, msb_acc bs a < (a + 1) * 2 ^ nlen bs.
Proof.
  unfold msb_acc. induction bs as [|b bs IH]; intros a; cbn [fold_left].
  - change (nlen (@nil bool)) with 0. rewrite N.pow_0_r. lia.
  - rewrite nlen_cons, N.pow_add_r, N.pow_1_r. specialize (IH (2 * a + b2n b)).
    pose proof (b2n_lt2 b). set (P := 2 ^ nlen bs) in *. clearbody P.
    eapply N.lt_le_trans; [exact IH|].
    replace ((a + 1) * (P * 2)) with ((2 * a + 2) * P) by ring. apply N.mul_le_mono_r. lia.
Qed.

Lemma pdec_length evs : forall r inp bs r' t, pdec evs r inp = Some (bs, r', t) -> length bs = length evs.
Proof.
  induction evs as [|e evs IH]; intros r inp bs r' t; cbn [pdec].
  - intros H. inversion H. reflexivity.
  - destruct (pdec_ev e r inp) as [[[b r1] t1]|]; [|discriminate].
    destruct (pdec evs r1 t1) as [[[bs1 r2] t2]|] eqn:E; [|discriminate].
    intros H. inversion H; subst. cbn [length]. f_equal. eapply IH. exact E.
Qed.

(* for count <= 32 (the callers use at most 26), no bit is lost in the u32 accumulator *)
Theorem pget_value count r inp : count <= 32 ->
  pget count r inp =
  match pdec (repeat (RDir false) (N.to_nat count)) r inp with
  | Some (bs, r', t) => Some (msb_num bs, r', t)
  | None => None
  end.
Proof.
  intros Hc. unfold pget. rewrite pget_loop_pdec.
  destruct (pdec (repeat (RDir false) (N.to_nat count)) r inp) as [[[bs r'] t]|] eqn:E; [|reflexivity].
  apply pdec_length in E. rewrite repeat_length in E.
  unfold msb_num. rewrite acc_bits_num; [reflexivity|].
  pose proof (msb_acc_bound bs 0) as H. rewrite N.mul_1_l in H.
  eapply N.lt_le_trans; [exact H|]. change 4294967296 with (2 ^ 32).
  apply N.pow_le_mono_r; [lia|]. unfold nlen. lia.
Qed.

(* ---------- the same, as statements about [src_run] ---------- *)
(* No-panic side conditions: the range register is a u32 and the probability is at most
   2048 (nothing is needed about the code register). *)
Theorem rc_decode_bit_run r p upd s : FaultFree s -> r_range r < 4294967296 -> p <= 2048 ->
  match pdecode_bit r p (s_rest s) with
  | Some (b, r', t) =>
      exists s', src_run (rc_decode_bit r p upd) s = (Done (b, (if upd then prob_upd p b else p), r'), s') /\
                 s_rest s' = t /\ s_pos s' + nlen t = s_pos s + nlen (s_rest s) /\ FaultFree s' /\
                 (t = s_rest s \/ exists x, s_rest s = x :: t)
  | None =>
      exists s', src_run (rc_decode_bit r p upd) s = (Failed EIo, s') /\
                 s_rest s = [] /\ r_range (snd (pdecode_pre r p)) < 16777216 /\
                 s_rest s' = [] /\ s_pos s' = s_pos s /\ FaultFree s'
  end.
Proof.
  intros Hs HR Hp.
  destruct (runs_as_src_run _ _ _ (rc_decode_bit_runs r p upd s Hs HR Hp)) as (s' & Hrun & Hr & Hpos & Hs').
  unfold lift3 in *. destruct (pdecode_bit r p (s_rest s)) as [[[b r1] t1]|] eqn:E.
  - exists s'. rewrite Hr in Hpos. repeat split; try assumption; try apply Hs'.
    eapply pdecode_bit_rest. exact E.
  - apply pdecode_bit_none in E. destruct E as [E1 E2].
    exists s'. rewrite Hr, E2 in Hpos. change (nlen (@nil N)) with 0 in Hpos.
    repeat split; try assumption; try apply Hs'. lia.
Qed.

Theorem rc_get_bit_run r s : FaultFree s ->
  match pget_bit r (s_rest s) with
  | Some (b, r', t) =>
      exists s', src_run (rc_get_bit r) s = (Done (b, r'), s') /\
                 s_rest s' = t /\ s_pos s' + nlen t = s_pos s + nlen (s_rest s) /\ FaultFree s' /\
                 (t = s_rest s \/ exists x, s_rest s = x :: t)
  | None =>
      exists s', src_run (rc_get_bit r) s = (Failed EIo, s') /\
                 s_rest s = [] /\ r_range (snd (pget_pre r)) < 16777216 /\
                 s_rest s' = [] /\ s_pos s' = s_pos s /\ FaultFree s'
  end.
Proof.
  intros Hs.
  destruct (runs_as_src_run _ _ _ (rc_get_bit_runs r s Hs)) as (s' & Hrun & Hr & Hpos & Hs').
  unfold lift3 in *. destruct (pget_bit r (s_rest s)) as [[[b r1] t1]|] eqn:E.
  - exists s'. rewrite Hr in Hpos. repeat split; try assumption; try apply Hs'.
    eapply pget_bit_rest. exact E.
  - apply pget_bit_none in E. destruct E as [E1 E2].
    exists s'. rewrite Hr, E2 in Hpos. change (nlen (@nil N)) with 0 in Hpos.
    repeat split; try assumption; try apply Hs'. lia.
Qed.

Theorem rc_get_run count r s : FaultFree s ->
  match pget count r (s_rest s) with
  | Some (v, r', t) =>
      exists s', src_run (rc_get count r) s = (Done (v, r'), s') /\
                 s_rest s' = t /\ s_pos s' + nlen t = s_pos s + nlen (s_rest s) /\ FaultFree s'
  | None =>
      exists s', src_run (rc_get count r) s = (Failed EIo, s') /\
                 s_rest s' = [] /\ s_pos s' = s_pos s + nlen (s_rest s) /\ FaultFree s'
  end.
Proof.
  intros Hs.
  destruct (runs_as_src_run _ _ _ (rc_get_runs count r s Hs)) as (s' & Hrun & Hr & Hpos & Hs').
  destruct (pget count r (s_rest s)) as [[[v r1] t1]|] eqn:E.
  - exists s'. rewrite Hr in Hpos. repeat split; try assumption; try apply Hs'.
  - exists s'. rewrite Hr in Hpos. change (nlen (@nil N)) with 0 in Hpos.
    repeat split; try assumption; try apply Hs'. lia.
Qed.

Theorem rc_new_run s b0 c3 c2 c1 c0 t : FaultFree s -> s_rest s = b0 :: c3 :: c2 :: c1 :: c0 :: t ->
  exists s', src_run rc_new s = (Done (mkRc 4294967295 (be_num [c3; c2; c1; c0])), s') /\
             s_rest s' = t /\ s_pos s' = s_pos s + 5 /\ FaultFree s'.
Proof.
  intros Hs Hr.
  destruct (io_read_u8_spec s b0 _ Hs Hr) as (s1 & Hrun1 & Hr1 & Hp1 & Hs1).
  destruct (io_read_exact_spec s1 [c3; c2; c1; c0] t 4 Hs1 Hr1 eq_refl) as (s2 & Hrun2 & Hr2 & Hp2 & Hs2).
  exists s2. split; [|split; [assumption|split; [lia|assumption]]].
  apply io_runs_src_run. unfold rc_new, read_u32_be.
  eapply io_runs_bind; [exact Hrun1|]. eapply io_runs_bind; [eapply io_runs_bind; [exact Hrun2|apply io_runs_ret]|].
  apply io_runs_ret.
Qed.

(* too short a stream: rc_new fails with an I/O error (never panics) *)
Theorem rc_new_eof s : FaultFree s -> nlen (s_rest s) < 5 ->
  exists s', src_run rc_new s = (Failed EIo, s') /\ FaultFree s'.
Proof.
  intros Hs Hn. destruct (s_rest s) as [|b0 t] eqn:Er.
  - destruct (io_read_u8_eof s Hs Er) as (s' & Hrun & _ & _ & Hs').
    exists s'. split; [|assumption]. apply io_runs_src_run. unfold rc_new. apply io_runs_bind_fail. exact Hrun.
  - destruct (io_read_u8_spec s b0 t Hs Er) as (s1 & Hrun1 & Hr1 & Hp1 & Hs1).
    destruct (io_read_exact_eof s1 4 Hs1) as (s2 & Hrun2 & Hs2 & _).
    { rewrite Hr1. rewrite nlen_cons in Hn. lia. }
    exists s2. split; [|assumption]. apply io_runs_src_run. unfold rc_new, read_u32_be.
    eapply io_runs_bind; [exact Hrun1|]. apply io_runs_bind_fail. apply io_runs_bind_fail. exact Hrun2.
Qed.

Theorem rc_is_finished_ok_run r s : FaultFree s ->
  exists s', src_run (rc_is_finished_ok r) s =
               (Done ((r_code r =? 0) && match s_rest s with [] => true | _ => false end), s') /\
             s_rest s' = s_rest s /\ s_pos s' = s_pos s /\ FaultFree s'.
Proof.
  intros Hs. unfold rc_is_finished_ok. destruct (r_code r =? 0); cbn [andb].
  - apply src_is_eof_spec. exact Hs.
  - exists s. split; [apply io_runs_src_run, io_runs_ret|]. repeat split; apply Hs.
Qed.

(* ---------- decoding a list of events with the model's programs ---------- *)
Definition rdec_step (upd : bool) (e : rev) (r : rc) (s : src) : option (bool * rc * src) :=
  match e with
  | RBit p _ => match src_run (rc_decode_bit r p upd) s with
                | (Done (b, _, r'), s') => Some (b, r', s')
                | _ => None
                end
  | RDir _ => match src_run (rc_get 1 r) s with
              | (Done (v, r'), s') => Some (N.odd v, r', s')
              | _ => None
              end
  end.

Fixpoint rdec_run (upd : bool) (evs : list rev) (r : rc) (s : src) : option (list bool * rc * src) :=
  match evs with
  | [] => Some ([], r, s)
  | e :: evs' =>
      match rdec_step upd e r s with
      | Some (b, r', s') =>
          match rdec_run upd evs' r' s' with
          | Some (bs, r'', s'') => Some (b :: bs, r'', s'')
          | None => None
          end
      | None => None
      end
  end.

Lemma pget_1 r inp : pget 1 r inp = match pget_bit r inp with Some (b, r', t) => Some (b2n b, r', t) | None => None end.
Proof.
  unfold pget. change (N.to_nat 1) with 1%nat. cbn [pget_loop].
  destruct (pget_bit r inp) as [[[b r'] t]|]; [|reflexivity].
  unfold acc_bit. rewrite N.shiftl_0_l. change (M32 0) with 0. rewrite N.lxor_0_l. reflexivity.
Qed.

Lemma rdec_step_pure upd e r s : FaultFree s -> r_range r < 4294967296 -> ok_rev e ->
  match pdec_ev e r (s_rest s) with
  | Some (b, r', t) =>
      exists s', rdec_step upd e r s = Some (b, r', s') /\
                 s_rest s' = t /\ s_pos s' + nlen t = s_pos s + nlen (s_rest s) /\ FaultFree s'
  | None => rdec_step upd e r s = None
  end.
Proof.
  intros Hs HR He. destruct e as [p b0|b0]; cbn [pdec_ev rdec_step ok_rev] in *.
  - pose proof (rc_decode_bit_run r p upd s Hs HR He) as H.
    destruct (pdecode_bit r p (s_rest s)) as [[[b r1] t1]|].
    + destruct H as (s' & -> & H1 & H2 & H3 & _). exists s'. repeat split; try assumption; apply H3.
    + destruct H as (s' & -> & _). reflexivity.
  - pose proof (rc_get_run 1 r s Hs) as H. rewrite pget_1 in H.
    destruct (pget_bit r (s_rest s)) as [[[b r1] t1]|].
    + destruct H as (s' & -> & H1 & H2 & H3). exists s'.
      assert (E : N.odd (b2n b) = b) by (destruct b; reflexivity). rewrite E.
      repeat split; try assumption; apply H3.
    + destruct H as (s' & -> & _). reflexivity.
Qed.

(* the model's programs, run event after event, compute exactly the pure decoder *)
Theorem rdec_run_pure upd evs : forall r s, FaultFree s -> r_range r < 4294967296 -> Forall ok_rev evs ->
  match pdec evs r (s_rest s) with
  | Some (bs, r', t) =>
      exists s', rdec_run upd evs r s = Some (bs, r', s') /\
                 s_rest s' = t /\ s_pos s' + nlen t = s_pos s + nlen (s_rest s) /\ FaultFree s'
  | None => rdec_run upd evs r s = None
  end.
Proof.
  induction evs as [|e evs IH]; intros r s Hs HR Hev; cbn [pdec rdec_run].
  - exists s. repeat split; try reflexivity; apply Hs.
  - inversion Hev as [|? ? He1 He2]; subst.
    pose proof (rdec_step_pure upd e r s Hs HR He1) as H.
    destruct (pdec_ev e r (s_rest s)) as [[[b r1] t1]|] eqn:E.
    + destruct H as (s1 & -> & Hr1 & Hp1 & Hs1).
      pose proof (pdec_ev_range _ _ _ _ _ _ HR He1 E) as HR1.
      specialize (IH r1 s1 Hs1 HR1 He2). rewrite Hr1 in IH.
      destruct (pdec evs r1 t1) as [[[bs r2] t2]|].
      * destruct IH as (s2 & -> & Hr2 & Hp2 & Hs2). exists s2.
        split; [reflexivity|]. split; [assumption|]. split; [lia|assumption].
      * rewrite IH. reflexivity.
    + rewrite H. reflexivity.
Qed.

(* ---------- numerals of the canonical flush ---------- *)
Lemma land255 v : N.land v 255 = v mod 256.
Proof. change 255 with (N.ones 8). apply N.land_ones. Qed.
Lemma shiftr8 v : N.shiftr v 8 = v / 256.
Proof. rewrite N.shiftr_div_pow2. reflexivity. Qed.

Lemma le_bytes_length n : forall v, length (le_bytes n v) = n.
Proof. induction n as [|n IH]; intros v; cbn [le_bytes length]; [reflexivity|]. rewrite IH. reflexivity. Qed.

Lemma le_bytes_bytes n : forall v, bytes (le_bytes n v).
Proof.
  induction n as [|n IH]; intros v; cbn [le_bytes]; constructor; [|apply IH].
  rewrite land255. apply N.mod_lt. discriminate.
Qed.

Lemma be_bytes_length n v : length (be_bytes n v) = n.
Proof. unfold be_bytes. rewrite lrev_rev, List.rev_length. apply le_bytes_length. Qed.

Lemma be_bytes_bytes n v : bytes (be_bytes n v).
Proof. unfold be_bytes, bytes. rewrite lrev_rev. apply Forall_rev. apply le_bytes_bytes. Qed.

Lemma be_num_be_bytes n : forall v, v < 256 ^ N.of_nat n -> be_num (be_bytes n v) = v.
Proof.
  unfold be_bytes. induction n as [|n IH]; intros v Hv.
  - change (N.of_nat 0) with 0 in Hv. rewrite N.pow_0_r in Hv. cbn [le_bytes]. assert (v = 0) by lia. subst v. reflexivity.
  - cbn [le_bytes]. rewrite lrev_rev. cbn [List.rev]. rewrite <- lrev_rev, be_num_app.
    rewrite Nat2N.inj_succ, N.pow_succ_r' in Hv.
    rewrite IH, land255, shiftr8.
    + change (be_num [v mod 256]) with (0 * 256 + v mod 256). change (nlen [v mod 256]) with 1. rewrite N.pow_1_r.
      pose proof (N.div_mod v 256 ltac:(lia)). lia.
    + rewrite shiftr8. apply N.div_lt_upper_bound; [lia|]. exact Hv.
Qed.

(* ---------- lock-step, the model's programs ---------- *)
Lemma wf_ienc0 : wf_ienc ienc0.
Proof. unfold wf_ienc, ienc0. cbn [i_range]. lia. Qed.

Lemma flush_fits L Rg P V : L + Rg <= 4294967295 * P -> V < L + Rg -> V < P * 4294967296.
Proof. lia. Qed.

Theorem lockstep_model upd evs delta trail s :
  Forall wf_rev evs ->
  delta < i_range (fold_left ienc_rev evs ienc0) ->
  FaultFree s -> s_rest s = ienc_bytes (fold_left ienc_rev evs ienc0) delta ++ trail ->
  exists r0 s0 sf,
    src_run rc_new s = (Done r0, s0) /\
    rdec_run upd evs r0 s0 = Some (map bit_of evs, mkRc (i_range (fold_left ienc_rev evs ienc0)) delta, sf) /\
    s_rest sf = trail /\ s_pos sf = s_pos s + i_norms (fold_left ienc_rev evs ienc0) + 5 /\ FaultFree sf.
Proof.
  intros Hev Hd Hs Hr.
  destruct (ienc_fold_wf evs ienc0 wf_ienc0 Hev) as [Hwf Hn].
  pose proof (ienc_fold_nest evs ienc0 wf_ienc0 Hev) as [N1 N2].
  set (ief := fold_left ienc_rev evs ienc0) in *.
  change (i_low ienc0) with 0 in *. change (i_range ienc0) with 4294967295 in *. change (i_norms ienc0) with 0 in *.
  rewrite N.sub_0_r in *. rewrite N.add_0_l in N2.
  unfold ienc_bytes in Hr.
  set (V := i_low ief + delta) in *.
  assert (HV : V < 256 ^ N.of_nat (N.to_nat (i_norms ief + 4))).
  { rewrite N2Nat.id, N.pow_add_r. change (256 ^ 4) with 4294967296.
    apply (flush_fits (i_low ief) (i_range ief)); [exact N2|unfold V; lia]. }
  pose proof (be_num_be_bytes _ V HV) as Hnum.
  pose proof (be_bytes_length (N.to_nat (i_norms ief + 4)) V) as Hlen.
  pose proof (be_bytes_bytes (N.to_nat (i_norms ief + 4)) V) as Hby.
  destruct (be_bytes (N.to_nat (i_norms ief + 4)) V) as [|c3 [|c2 [|c1 [|c0 rest]]]]; cbn [length] in Hlen; try lia.
  assert (Hlr : nlen rest = i_norms ief) by (unfold nlen; lia).
  change (c3 :: c2 :: c1 :: c0 :: rest) with ([c3; c2; c1; c0] ++ rest) in Hnum. rewrite be_num_app in Hnum.
  assert (Hbr : bytes rest).
  { inversion Hby as [|? ? _ H1]; subst. inversion H1 as [|? ? _ H2]; subst.
    inversion H2 as [|? ? _ H3]; subst. inversion H3 as [|? ? _ H4]; subst. exact H4. }
  cbn [app] in Hr.
  destruct (rc_new_run s 0 c3 c2 c1 c0 (rest ++ trail) Hs Hr) as (s0 & Hrun0 & Hr0 & Hp0 & Hs0).
  set (code := be_num [c3; c2; c1; c0]) in *.
  pose proof (lockstep_pure evs ienc0 (mkRc 4294967295 code) rest wf_ienc0 Hev eq_refl) as LS.
  fold ief in LS. change (i_low ienc0) with 0 in LS. change (i_norms ienc0) with 0 in LS.
  cbn [r_code] in LS. rewrite N.sub_0_r, N.add_0_l, Hnum in LS.
  specialize (LS Hlr Hbr). 
  assert (HW : i_low ief <= V < i_low ief + i_range ief) by (unfold V; lia).
  specialize (LS HW).
  assert (EV : V - i_low ief = delta) by (unfold V; lia). rewrite EV in LS.
  apply (pdec_frame _ _ _ _ _ _ trail) in LS. cbn [app] in LS.
  pose proof (rdec_run_pure upd evs (mkRc 4294967295 code) s0 Hs0) as RP.
  rewrite Hr0, LS in RP.
  destruct RP as (sf & Hrd & Hrf & Hpf & Hsf).
  { cbn [r_range]. lia. }
  { eapply Forall_impl; [|exact Hev]. apply wf_ok_rev. }
  exists (mkRc 4294967295 code), s0, sf.
  split; [exact Hrun0|]. split; [exact Hrd|]. split; [exact Hrf|]. split; [|exact Hsf].
  rewrite nlen_app in Hpf. lia.
Qed.

(* the canonical flush (delta = 0) leaves code = 0 *)
Corollary lockstep_model_canonical upd evs trail s :
  Forall wf_rev evs ->
  FaultFree s -> s_rest s = ienc_bytes (fold_left ienc_rev evs ienc0) 0 ++ trail ->
  exists r0 s0 sf,
    src_run rc_new s = (Done r0, s0) /\
    rdec_run upd evs r0 s0 = Some (map bit_of evs, mkRc (i_range (fold_left ienc_rev evs ienc0)) 0, sf) /\
    s_rest sf = trail /\ s_pos sf = s_pos s + i_norms (fold_left ienc_rev evs ienc0) + 5 /\ FaultFree sf.
Proof.
  intros Hev Hs Hr. apply lockstep_model; try assumption.
  destruct (ienc_fold_wf evs ienc0 wf_ienc0 Hev) as [[H _] _]. lia.
Qed.

Print Assumptions rc_decode_bit_run.
Print Assumptions rc_get_bit_run.
Print Assumptions rc_get_run.
Print Assumptions pget_value.
Print Assumptions rc_new_run.
Print Assumptions rc_new_eof.
Print Assumptions rc_is_finished_ok_run.
Print Assumptions rdec_run_pure.
Print Assumptions lockstep_model.
Print Assumptions lockstep_model_canonical.

(* ---------- a concrete instance, by computation (sanity check of the definitions) ---------- *)
Definition ex_evs : list rev :=
  concat (repeat [RBit 1024 true; RDir false; RBit 31 false; RBit 2017 true; RDir true; RBit 500 false; RBit 31 true] 12).
Example lockstep_example :
  let ief := fold_left ienc_rev ex_evs ienc0 in
  let s := src_of (ienc_bytes ief 7 ++ [1; 2; 3]) (fun k => 1 + k mod 3) None in
  match src_run rc_new s with
  | (Done r0, s0) =>
      match rdec_run true ex_evs r0 s0 with
      | Some (bs, r, sf) => (bs, r, s_rest sf, s_pos sf) = (map bit_of ex_evs, mkRc (i_range ief) 7, [1; 2; 3], i_norms ief + 5)
      | None => False
      end
  | _ => False
  end.
Proof. vm_compute. reflexivity. Qed.
