(* T-sym: under the event oracle, process_next_inner inverts the LZMA binarisation sym_evs. *)
From LZ Require Import Base.Prelude Base.Prog Model.Tables Model.RangeDec Model.Lzma Format.RefEnc
  Proofs.ProgLemmas Proofs.SymOracle Proofs.SymCoders Proofs.SymLiteral.
Local Open Scope prog_scope.

Ltac sbit := rewrite ?interp_bind_assoc; rewrite interp_bit; cbn [negb].

(* ---------- the common prefix: output.len(), pos_state, the is_match bit ---------- *)
Lemma pni_prefix w p y upd h evs b :
  pb p <= 4 ->
  interp (oracle w) (process_next_inner p y upd)
         (EvBit (CIsMatch (16 * y_state y + N.land (h_len h) (2 ^ pb p - 1))) b :: evs, h)
  = interp (oracle w)
      (if negb b then lit_arm p y upd
       else (is_r <- dcall (Bit (CIsRep (y_state y)) upd) ;;
             if is_r then rep_arm y (N.land (h_len h) (2 ^ pb p - 1)) upd
             else match_arm y (N.land (h_len h) (2 ^ pb p - 1)) upd))
      (evs, h).
Proof.
  intros Hpb. unfold process_next_inner. rewrite interp_wlen.
  destruct (N.ltb_spec 63 (pb p)) as [C|_]; [lia|].
  rewrite N.shiftl_1_l, (N.shiftl_mul_pow2 (y_state y) 4). change (2 ^ 4) with 16.
  rewrite (N.mul_comm (y_state y) 16). rewrite interp_bit. reflexivity.
Qed.

(* ---------- literal arm ---------- *)
Lemma lit_arm_decodes w p st upd b rest h :
  lc p <= 8 -> b < 256 ->
  (7 <= st -> can_copy w h (h_r0 h + 1) = true) ->
  interp (oracle w) (lit_arm p (mkSym st (reps_of h)) upd)
    (lit_evs 8 (N.shiftl (N.land (h_len h) (2 ^ lp p - 1)) (lc p)
                + N.shiftr (match h_bytes h with [] => 0 | x :: _ => x end) (8 - lc p))
             b (nth (N.to_nat (h_r0 h)) (h_bytes h) 0) (7 <=? st) 1 ++ rest, h)
  = (Done (Continue, if upd then mkSym (st_lit st) (reps_of h) else mkSym st (reps_of h)),
     (rest, if upd then hist_push h b else h)).
Proof.
  intros Hlc Hb Hcc. unfold lit_arm.
  pose proof (literal_decodes w p st (reps_of h) upd b rest h Hlc Hb Hcc) as L.
  cbv zeta in L. cbn [reps_of rep0] in L.
  rewrite (interp_bind_done _ _ _ _ _ _ L).
  destruct upd.
  - rewrite interp_wappendlit, interp_ret. reflexivity.
  - rewrite interp_ret. reflexivity.
Qed.

(* ---------- repeat arm ---------- *)
Definition rot (i : N) (h : hist) : reps :=
  if i =? 0 then reps_of h
  else if i =? 1 then mkReps (h_r1 h) (h_r0 h) (h_r2 h) (h_r3 h)
  else if i =? 2 then mkReps (h_r2 h) (h_r0 h) (h_r1 h) (h_r3 h)
  else mkReps (h_r3 h) (h_r0 h) (h_r1 h) (h_r2 h).

Definition rep_choice_evs (st ps i : N) : list ev :=
  if i =? 0 then [EvBit (CIsRepG0 st) false; EvBit (CIsRep0Long (16 * st + ps)) true]
  else if i =? 1 then [EvBit (CIsRepG0 st) true; EvBit (CIsRepG1 st) false]
  else if i =? 2 then [EvBit (CIsRepG0 st) true; EvBit (CIsRepG1 st) true; EvBit (CIsRepG2 st) false]
  else [EvBit (CIsRepG0 st) true; EvBit (CIsRepG1 st) true; EvBit (CIsRepG2 st) true].

Lemma rep_select_short w st ps upd rest h :
  (upd = true -> can_copy w h (h_r0 h + 1) = true) ->
  interp (oracle w) (rep_select (mkSym st (reps_of h)) ps upd)
    (EvBit (CIsRepG0 st) false :: EvBit (CIsRep0Long (16 * st + ps)) false :: rest, h)
  = (Done (inl (Continue, if upd then mkSym (st_shortrep st) (reps_of h) else mkSym st (reps_of h))),
     (rest, if upd then hist_copy h 1 (h_r0 h + 1) else h)).
Proof.
  intros Hcc. unfold rep_select. cbn [y_state y_rep].
  rewrite (N.shiftl_mul_pow2 st 4). change (2 ^ 4) with 16. rewrite (N.mul_comm st 16).
  sbit. sbit. destruct upd.
  - cbn [reps_of rep0]. rewrite interp_wappendlz by (apply Hcc; reflexivity).
    rewrite interp_ret. reflexivity.
  - rewrite interp_ret. reflexivity.
Qed.

Lemma rep_select_rep w st ps upd i rest h :
  interp (oracle w) (rep_select (mkSym st (reps_of h)) ps upd) (rep_choice_evs st ps i ++ rest, h)
  = (Done (inr (if upd then rot i h else reps_of h)), (rest, h)).
Proof.
  unfold rep_select, rep_choice_evs, rot. cbn [y_state y_rep].
  rewrite (N.shiftl_mul_pow2 st 4). change (2 ^ 4) with 16. rewrite (N.mul_comm st 16).
  destruct (i =? 0); [|destruct (i =? 1); [|destruct (i =? 2)]]; cbn [app].
  - sbit. sbit. rewrite interp_ret. destruct upd; reflexivity.
  - sbit. sbit. cbn [bind]. destruct upd; rewrite interp_ret; reflexivity.
  - sbit. sbit. sbit. cbn [bind]. destruct upd; rewrite interp_ret; reflexivity.
  - sbit. sbit. sbit. cbn [bind]. destruct upd; rewrite interp_ret; reflexivity.
Qed.

Lemma sem_rep_inv w h i len h' :
  sem_sym w h (Rep i len) = Some h' ->
  i <= 3 /\ can_copy w h (rep0 (rot i h) + 1) = true /\ len_ok len = true /\
  h' = do_copy h (rep0 (rot i h) + 1) len (rep0 (rot i h)) (rep1 (rot i h)) (rep2 (rot i h)) (rep3 (rot i h)).
Proof.
  unfold sem_sym, rot.
  destruct (i =? 0); [|destruct (i =? 1); [|destruct (i =? 2)]]; cbn [reps_of rep0 rep1 rep2 rep3];
    (destruct (N.leb_spec i 3) as [Hi|Hi]; cbn [andb]; [|discriminate]);
    match goal with |- context [can_copy w h ?d] => destruct (can_copy w h d) end; cbn [andb]; try discriminate;
    destruct (len_ok len); try discriminate; intros E; inversion E; auto.
Qed.

Lemma rep_arm_short w st ps upd rest h :
  (upd = true -> can_copy w h (h_r0 h + 1) = true) ->
  interp (oracle w) (rep_arm (mkSym st (reps_of h)) ps upd)
    (EvBit (CIsRepG0 st) false :: EvBit (CIsRep0Long (16 * st + ps)) false :: rest, h)
  = (Done (Continue, if upd then mkSym (st_shortrep st) (reps_of h) else mkSym st (reps_of h)),
     (rest, if upd then hist_copy h 1 (h_r0 h + 1) else h)).
Proof.
  intros Hcc. unfold rep_arm.
  rewrite (interp_bind_done _ _ _ _ _ _ (rep_select_short w st ps upd rest h Hcc)).
  rewrite interp_ret. reflexivity.
Qed.

Lemma rep_arm_rep w st ps upd i l rest h :
  l <= 271 ->
  (upd = true -> can_copy w h (rep0 (rot i h) + 1) = true) ->
  interp (oracle w) (rep_arm (mkSym st (reps_of h)) ps upd)
    (rep_choice_evs st ps i ++ len_evs true ps l ++ rest, h)
  = (Done (Continue, if upd then mkSym (st_rep st) (rot i h) else mkSym st (reps_of h)),
     (rest, if upd then hist_copy h (l + 2) (rep0 (rot i h) + 1) else h)).
Proof.
  intros Hl Hcc. unfold rep_arm.
  rewrite (interp_bind_done _ _ _ _ _ _ (rep_select_rep w st ps upd i _ h)).
  rewrite (interp_bind_done _ _ _ _ _ _ (len_decodes w true ps upd l rest h Hl)).
  destruct upd.
  - rewrite interp_wappendlz by (apply Hcc; reflexivity). rewrite interp_ret. reflexivity.
  - rewrite interp_ret. reflexivity.
Qed.

(* ---------- match arm ---------- *)
Lemma match_arm_dry w st ps l d0 rest h :
  l <= 271 -> d0 < 4294967296 ->
  interp (oracle w) (match_arm (mkSym st (reps_of h)) ps false)
    (len_evs false ps l ++ dist_evs l d0 ++ rest, h)
  = (Done (Continue, mkSym st (reps_of h)), (rest, h)).
Proof.
  intros Hl Hd. unfold match_arm.
  rewrite (interp_bind_done _ _ _ _ _ _ (len_decodes w false ps false l _ h Hl)).
  rewrite (interp_bind_done _ _ _ _ _ _ (dist_decodes w false l d0 rest h Hd)).
  rewrite interp_ret. reflexivity.
Qed.

Lemma match_arm_match w st ps l d0 rest h :
  l <= 271 -> d0 < 4294967295 -> can_copy w h (d0 + 1) = true ->
  interp (oracle w) (match_arm (mkSym st (reps_of h)) ps true)
    (len_evs false ps l ++ dist_evs l d0 ++ rest, h)
  = (Done (Continue, mkSym (st_match st) (mkReps d0 (h_r0 h) (h_r1 h) (h_r2 h))),
     (rest, hist_copy h (l + 2) (d0 + 1))).
Proof.
  intros Hl Hd Hcc. unfold match_arm.
  rewrite (interp_bind_done _ _ _ _ _ _ (len_decodes w false ps true l _ h Hl)).
  rewrite (interp_bind_done _ _ _ _ _ _ (dist_decodes w true l d0 rest h ltac:(lia))).
  destruct (N.eqb_spec d0 4294967295) as [C|_]; [lia|].
  rewrite interp_wappendlz by exact Hcc. rewrite interp_ret. reflexivity.
Qed.

Lemma match_arm_marker w st ps l h :
  l <= 271 ->
  interp (oracle w) (match_arm (mkSym st (reps_of h)) ps true)
    (len_evs false ps l ++ dist_evs l 4294967295, h)
  = (Done (Finished, mkSym (st_match st) (mkReps 4294967295 (h_r0 h) (h_r1 h) (h_r2 h))), ([], h)).
Proof.
  intros Hl. unfold match_arm.
  rewrite <- (app_nil_r (dist_evs l 4294967295)).
  rewrite (interp_bind_done _ _ _ _ _ _ (len_decodes w false ps true l _ h Hl)).
  rewrite (interp_bind_done _ _ _ _ _ _ (dist_decodes w true l 4294967295 [] h ltac:(lia))).
  rewrite N.eqb_refl. rewrite interp_finished, interp_ret. reflexivity.
Qed.

(* a marker followed by further events is rejected, as is_finished_ok() demands *)
Lemma match_arm_marker_trailing w st ps l e rest h :
  l <= 271 ->
  interp (oracle w) (match_arm (mkSym st (reps_of h)) ps true)
    (len_evs false ps l ++ dist_evs l 4294967295 ++ e :: rest, h)
  = (Failed ELzma, (e :: rest, h)).
Proof.
  intros Hl. unfold match_arm.
  rewrite (interp_bind_done _ _ _ _ _ _ (len_decodes w false ps true l _ h Hl)).
  rewrite (interp_bind_done _ _ _ _ _ _ (dist_decodes w true l 4294967295 (e :: rest) h ltac:(lia))).
  rewrite N.eqb_refl. rewrite interp_finished. reflexivity.
Qed.

(* ---------- T-sym ---------- *)
Definition props_match (p : props) (fp : fprops) : Prop :=
  lc p <= 8 /\ lp p <= 4 /\ pb p <= 4 /\ f_lc fp = lc p /\ f_lp fp = lp p /\ f_pb fp = pb p.

(* The automaton invariant that the task statement leaves implicit: in a state >= 7 (the
   previous symbol was a match or a repeat) the most recent distance can be copied from. *)
Definition rep0_ok (w : option N) (st : N) (h : hist) : Prop :=
  7 <= st -> can_copy w h (h_r0 h + 1) = true.

Lemma len_ok_bounds len : len_ok len = true -> 2 <= len /\ len <= 273.
Proof. unfold len_ok. rewrite andb_true_iff, !N.leb_le. tauto. Qed.

Theorem process_next_inner_decodes_gen w p fp st h s h' evs st' rest :
  props_match p fp -> rep0_ok w st h ->
  s <> EndMarker -> sem_sym w h s = Some h' -> sym_evs fp st h s = (evs, st') ->
  interp (oracle w) (process_next_inner p (mkSym st (reps_of h)) true) (evs ++ rest, h)
  = (Done (Continue, mkSym st' (reps_of h')), (rest, with_data h h')).
Proof.
  intros (Hlc & Hlp & Hpb & Elc & Elp & Epb) Hr0 Hne Hsem Hev.
  assert (E1 : evs = fst (sym_evs fp st h s)) by (rewrite Hev; reflexivity).
  assert (E2 : st' = snd (sym_evs fp st h s)) by (rewrite Hev; reflexivity).
  subst evs st'. clear Hev.
  unfold sym_evs. rewrite Elc, Elp, Epb.
  destruct s as [b|dist len| |i len|]; [| | | |congruence]; cbn [fst snd].
  - (* Lit *)
    cbn [sem_sym] in Hsem. destruct (N.ltb_spec b 256) as [Hb|]; [|discriminate].
    inversion Hsem; subst h'; clear Hsem.
    cbn [app]. rewrite (pni_prefix w p (mkSym st (reps_of h)) true h _ false Hpb). cbn [negb].
    rewrite (lit_arm_decodes w p st true b rest h Hlc Hb Hr0). reflexivity.
  - (* Match *)
    cbn [sem_sym] in Hsem.
    destruct (can_copy w h dist) eqn:Hcc; cbn [andb] in Hsem; [|discriminate].
    destruct (len_ok len) eqn:Hlen; cbn [andb] in Hsem; [|discriminate].
    destruct (N.leb_spec dist 4294967295) as [Hd|]; [|discriminate].
    inversion Hsem; subst h'; clear Hsem.
    apply len_ok_bounds in Hlen.
    assert (Hd1 : 1 <= dist).
    { unfold can_copy in Hcc. rewrite !andb_true_iff, N.leb_le in Hcc. tauto. }
    cbn [app]. rewrite (pni_prefix w p (mkSym st (reps_of h)) true h _ true Hpb). cbn [negb y_state].
    sbit. rewrite <- app_assoc.
    rewrite (match_arm_match w st _ (len - 2) (dist - 1) rest h ltac:(lia) ltac:(lia)
               ltac:(replace (dist - 1 + 1) with dist by lia; exact Hcc)).
    replace (len - 2 + 2) with len by lia. replace (dist - 1 + 1) with dist by lia. reflexivity.
  - (* ShortRep *)
    cbn [sem_sym] in Hsem.
    destruct (can_copy w h (h_r0 h + 1)) eqn:Hcc; [|discriminate].
    inversion Hsem; subst h'; clear Hsem.
    cbn [app]. rewrite (pni_prefix w p (mkSym st (reps_of h)) true h _ true Hpb). cbn [negb y_state].
    sbit.
    rewrite (rep_arm_short w st _ true rest h (fun _ => Hcc)). reflexivity.
  - (* Rep *)
    apply sem_rep_inv in Hsem. destruct Hsem as (Hi & Hcc & Hlen & ->).
    apply len_ok_bounds in Hlen.
    cbn [app]. rewrite (pni_prefix w p (mkSym st (reps_of h)) true h _ true Hpb). cbn [negb y_state].
    sbit. rewrite <- app_assoc.
    fold (rep_choice_evs st (N.land (h_len h) (2 ^ pb p - 1)) i).
    rewrite (rep_arm_rep w st _ true i (len - 2) rest h ltac:(lia) (fun _ => Hcc)).
    replace (len - 2 + 2) with len by lia.
    destruct (rot i h); reflexivity.
Qed.
Print Assumptions process_next_inner_decodes_gen.

(* the statement in the task's form (with its extra, unused, well-formedness hypotheses) *)
Theorem process_next_inner_decodes w p fp st h s h' evs st' rest :
  props_match p fp -> st < 12 -> Forall (fun b => b < 256) (h_bytes h) -> rep0_ok w st h ->
  s <> EndMarker -> sem_sym w h s = Some h' -> (evs, st') = sym_evs fp st h s ->
  interp (oracle w) (process_next_inner p (mkSym st (reps_of h)) true) (evs ++ rest, h)
  = (Done (Continue, mkSym st' (reps_of h')), (rest, with_data h h')).
Proof.
  intros Hp _ _ Hr Hne Hsem Hev. eapply process_next_inner_decodes_gen; eauto.
Qed.
Print Assumptions process_next_inner_decodes.

Theorem process_next_inner_decodes_marker w p fp st h :
  props_match p fp ->
  interp (oracle w) (process_next_inner p (mkSym st (reps_of h)) true) (fst (sym_evs fp st h EndMarker), h)
  = (Done (Finished, mkSym (snd (sym_evs fp st h EndMarker)) (mkReps 4294967295 (h_r0 h) (h_r1 h) (h_r2 h))),
     ([], h)).
Proof.
  intros (Hlc & Hlp & Hpb & Elc & Elp & Epb).
  unfold sym_evs. rewrite Epb. cbn [fst snd].
  rewrite (pni_prefix w p (mkSym st (reps_of h)) true h _ true Hpb). cbn [negb y_state].
  sbit. apply match_arm_marker. lia.
Qed.
Print Assumptions process_next_inner_decodes_marker.

(* a marker that is not the last symbol is rejected *)
Theorem process_next_inner_marker_trailing w p fp st h e rest :
  props_match p fp ->
  interp (oracle w) (process_next_inner p (mkSym st (reps_of h)) true)
         (fst (sym_evs fp st h EndMarker) ++ e :: rest, h)
  = (Failed ELzma, (e :: rest, h)).
Proof.
  intros (Hlc & Hlp & Hpb & Elc & Elp & Epb).
  unfold sym_evs. rewrite Epb. cbn [fst snd app].
  rewrite (pni_prefix w p (mkSym st (reps_of h)) true h _ true Hpb). cbn [negb y_state].
  sbit. rewrite <- app_assoc. apply match_arm_marker_trailing. lia.
Qed.
Print Assumptions process_next_inner_marker_trailing.

(* ---------- the dry run (try_process_next) ---------- *)
Theorem process_next_inner_dry_gen w p fp st h s rest :
  props_match p fp -> rep0_ok w st h ->
  (s = EndMarker \/ exists h', sem_sym w h s = Some h') ->
  interp (oracle w) (process_next_inner p (mkSym st (reps_of h)) false) (fst (sym_evs fp st h s) ++ rest, h)
  = (Done (Continue, mkSym st (reps_of h)), (rest, h)).
Proof.
  intros (Hlc & Hlp & Hpb & Elc & Elp & Epb) Hr0 Hs.
  unfold sym_evs. rewrite Elc, Elp, Epb.
  destruct s as [b|dist len| |i len|]; cbn [fst].
  - destruct Hs as [C|[h' Hsem]]; [discriminate|].
    cbn [sem_sym] in Hsem. destruct (N.ltb_spec b 256) as [Hb|]; [|discriminate].
    cbn [app]. rewrite (pni_prefix w p (mkSym st (reps_of h)) false h _ false Hpb). cbn [negb].
    rewrite (lit_arm_decodes w p st false b rest h Hlc Hb Hr0). reflexivity.
  - destruct Hs as [C|[h' Hsem]]; [discriminate|].
    cbn [sem_sym] in Hsem.
    destruct (can_copy w h dist) eqn:Hcc; cbn [andb] in Hsem; [|discriminate].
    destruct (len_ok len) eqn:Hlen; cbn [andb] in Hsem; [|discriminate].
    destruct (N.leb_spec dist 4294967295) as [Hd|]; [|discriminate].
    apply len_ok_bounds in Hlen.
    cbn [app]. rewrite (pni_prefix w p (mkSym st (reps_of h)) false h _ true Hpb). cbn [negb y_state].
    sbit. rewrite <- app_assoc.
    apply match_arm_dry; lia.
  - cbn [app]. rewrite (pni_prefix w p (mkSym st (reps_of h)) false h _ true Hpb). cbn [negb y_state].
    sbit.
    rewrite (rep_arm_short w st _ false rest h ltac:(discriminate)). reflexivity.
  - destruct Hs as [C|[h' Hsem]]; [discriminate|].
    apply sem_rep_inv in Hsem. destruct Hsem as (Hi & Hcc & Hlen & ->).
    apply len_ok_bounds in Hlen.
    cbn [app]. rewrite (pni_prefix w p (mkSym st (reps_of h)) false h _ true Hpb). cbn [negb y_state].
    sbit. rewrite <- app_assoc.
    fold (rep_choice_evs st (N.land (h_len h) (2 ^ pb p - 1)) i).
    rewrite (rep_arm_rep w st _ false i (len - 2) rest h ltac:(lia) ltac:(discriminate)). reflexivity.
  - cbn [app]. rewrite (pni_prefix w p (mkSym st (reps_of h)) false h _ true Hpb). cbn [negb y_state].
    sbit. rewrite <- app_assoc.
    apply match_arm_dry; lia.
Qed.
Print Assumptions process_next_inner_dry_gen.

Theorem process_next_inner_dry w p fp st h s rest :
  props_match p fp -> st < 12 -> Forall (fun b => b < 256) (h_bytes h) -> rep0_ok w st h ->
  (s = EndMarker \/ exists h', sem_sym w h s = Some h') ->
  interp (oracle w) (process_next_inner p (mkSym st (reps_of h)) false) (fst (sym_evs fp st h s) ++ rest, h)
  = (Done (Continue, mkSym st (reps_of h)), (rest, h)).
Proof. intros Hp _ _. apply process_next_inner_dry_gen. exact Hp. Qed.
Print Assumptions process_next_inner_dry.
