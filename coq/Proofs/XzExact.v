(* Properties C03 + C02 combined: a well-formed .xz file whose blocks carry
   reference-serialised LZMA2 payloads decodes EXACTLY to the concatenation of the
   contents of its blocks.

   XzComplete.v / XzCompleteLink.v prove that a byte string
       header ++ blocks ++ index ++ footer
   satisfying the validity predicates of XzSound.v is accepted, PROVIDED (blk_wf) that
   "the LZMA2 decoder decodes the payload" of every block.  Lzma2Exact.v proves that the
   LZMA2 decoder decodes the reference serialisation (ser2_gen false) of every well-formed
   chunk sequence (wf_seq).  Here the decoder clause of blk_wf is discharged from
   lzma2_decode_exact, so that the final theorem speaks about the FORMAT only:

     xz_file_bytes file bytes  ->  xz_decompress accepts bytes and outputs xz_contents file.

   Route taken for the generalisation of lzma2_decode_exact (stated for sources built with
   src_of, position 0) to an arbitrary fault-free source:  XzCompleteLink.lzma2_tail_indep
   (tail, position and fragmentation independence of a successful LZMA2 run).  The witness run
   is lzma2_decode_exact on  src_of (payload ++ []) frag_all None.

   Lzma2Exact & co. are Required without Import (Proofs/RangeLockstep.v defines a type [rev]
   that would shadow List.rev); their names are used qualified. *)
From LZ Require Import Base.Prelude Base.Prog Model.Io Model.Tables Model.LzBuffer Model.RangeDec
  Model.Lzma Model.Lzma2 Model.Crc Model.Xz Format.RefEnc Format.Lzma2Fmt
  Proofs.ProgLemmas Proofs.IoLemmas Proofs.IoInv Proofs.XzSound Proofs.XzComplete Proofs.XzCompleteLink.
From LZ Require Proofs.Lzma2ExactChunk Proofs.Lzma2Exact.
From Coq Require Import ZifyBool ZifyNat ZifyN.
Local Open Scope prog_scope.

Ltac Zify.zify_post_hook ::= Z.div_mod_to_equations.

Notation wf_seq := Lzma2ExactChunk.wf_seq.
Notation fuel_ok := Lzma2Exact.fuel_ok.

(* ================= 1. lzma2_decode_exact on any fault-free source ================= *)
(* any fragmentation, any position counter, any bytes behind the payload, any sink that
   accepts writes and the final flush *)
Theorem lzma2_decode_exact_ff cs payload out fuel s t k :
  ser2_gen false cs = Some (payload, out) -> wf_seq cs -> fuel_ok fuel cs ->
  FaultFree s -> s_rest s = payload ++ t ->
  k_wfail k = None -> k_ffail k = false ->
  exists w', lzma2_decompress_top fuel (mkIo s k) = (Done tt, w') /\
    snk_bytes (i_snk w') = snk_bytes k ++ out /\ k_flushes (i_snk w') = k_flushes k + 1 /\
    FaultFree (i_src w') /\ s_rest (i_src w') = t /\ s_pos (i_src w') = s_pos s + nlen payload.
Proof.
  intros Hser Hwf Hfuel Fs Hr Hkw Hkf.
  destruct (Lzma2Exact.lzma2_decode_exact cs payload out [] frag_all k fuel Hser Hwf Hkw Hkf Hfuel)
    as (w1 & R1 & B1 & FL1 & _ & T1).
  set (s1 := src_of (payload ++ []) frag_all None) in *.
  assert (F1 : FaultFree s1) by apply src_of_FaultFree.
  assert (Hr1 : s_rest s1 = payload ++ s_rest (i_src w1)) by (rewrite T1; reflexivity).
  destruct (lzma2_tail_indep fuel s1 k w1 payload F1 R1 Hr1 s t Fs Hr) as (w2 & R2 & K2 & F2 & T2 & P2).
  exists w2. split; [exact R2|]. rewrite K2. auto 10.
Qed.
Print Assumptions lzma2_decode_exact_ff.

(* the first filter of a block: LZMA2 from the stream into a Vec *)
Theorem decode_filter_exact cs payload out fuel f s t :
  ser2_gen false cs = Some (payload, out) -> wf_seq cs -> fuel_ok fuel cs ->
  nlen (f_props f) = 1 -> FaultFree s -> s_rest s = payload ++ t ->
  exists s', decode_filter fuel f s = (Done (nlen payload, out), s') /\
    FaultFree s' /\ s_rest s' = t /\ s_pos s' = s_pos s + nlen payload.
Proof.
  intros Hser Hwf Hfuel EP Fs Hr.
  destruct (lzma2_decode_exact_ff cs payload out fuel s t vec_sink Hser Hwf Hfuel Fs Hr eq_refl eq_refl)
    as (w' & R & B & _ & F' & T' & P').
  unfold decode_filter. rewrite EP. change (1 =? 1) with true. cbn [negb]. cbv zeta. rewrite R.
  exists (i_src w'). split; [|auto].
  change (snk_bytes vec_sink) with (@nil N) in B. cbn [app] in B. rewrite B.
  f_equal. f_equal. f_equal. lia.
Qed.
Print Assumptions decode_filter_exact.

(* ================= 2. abstract supported .xz files ================= *)
(* A block is a chunk sequence plus the choice of declaring the sizes in the block header;
   the file is a check type and a list of blocks.  (The dictionary-size byte of the LZMA2
   filter, the header size byte, the header padding and the multibyte encodings are free:
   they belong to the concrete representation, see xz_block_bytes.) *)
Record xz_block := mkXzBlock {
  xb_chunks : list chunk;
  xb_has_packed : bool;          (* compressed size declared in the block header *)
  xb_has_unpacked : bool         (* uncompressed size declared in the block header *)
}.
Record xz_file := mkXzFile { xf_check : check_method; xf_blocks : list xz_block }.

Definition xb_content (xb : xz_block) : list N :=
  match ser2_gen false (xb_chunks xb) with Some (_, out) => out | None => [] end.
Definition xz_contents (file : xz_file) : list N := concat (map xb_content (xf_blocks file)).

Definition supported_check (ck : check_method) : Prop := ck = CkNone \/ ck = CkCrc32 \/ ck = CkCrc64.

(* fuel: more than the number of blocks; for every block more than its number of chunks and
   more than the number of symbols of each of its chunks *)
Definition xz_fuel_ok (fuel : positive) (file : xz_file) : Prop :=
  (length (xf_blocks file) < Pos.to_nat fuel)%nat /\
  Forall (fun xb => fuel_ok fuel (xb_chunks xb)) (xf_blocks file).

(* ---------- a declarative description of the legal block headers ---------- *)
(* one LZMA2 filter (id 33, any multibyte encoding) with a one-byte property field [d];
   the size fields in any multibyte encoding; any amount of zero padding *)
Definition opt_enc (o : option N) (bs : list N) : Prop :=
  match o with Some v => mb_decodes bs v | None => bs = [] end.
Definition hdr_flags (pk up : option N) : N :=
  (match pk with Some _ => 64 | None => 0 end) + (match up with Some _ => 128 | None => 0 end).
Definition block_header_shape (pk up : option N) (d : N) (hdr : list N) : Prop :=
  exists pkb upb idb szb npad,
    hdr = hdr_flags pk up :: pkb ++ upb ++ idb ++ szb ++ [d] ++ repeat 0 npad /\
    opt_enc pk pkb /\ opt_enc up upb /\ mb_decodes idb 33 /\ mb_decodes szb 1.

Lemma forallb_zero_repeat n : forallb (fun b => b =? 0) (repeat 0 n) = true.
Proof. induction n as [|n IH]; cbn [repeat forallb]; [reflexivity|]. rewrite IH. reflexivity. Qed.

Lemma opt_lget (present : bool) o bs t :
  present = (match o with Some _ => true | None => false end) -> opt_enc o bs ->
  (if present then
     match lget_multibyte (bs ++ t) with
     | Done (v, l') => Done (Some v, l') | Failed e => Failed e | Panicked p => Panicked p
     end
   else Done (None, bs ++ t)) = Done (o, t).
Proof.
  intros -> H. destruct o as [v|]; cbn [opt_enc] in H.
  - rewrite (mb_decodes_lget _ _ t H). reflexivity.
  - subst bs. reflexivity.
Qed.

Theorem block_header_shape_accepted hsz pk up d hdr :
  1 <= hsz -> block_header_shape pk up d hdr ->
  read_block_header hsz hdr = Done (mkBH [mkFilter [d]] pk up).
Proof.
  intros Hh (pkb & upb & idb & szb & npad & -> & Epk & Eup & Eid & Esz).
  unfold read_block_header. cbv zeta.
  assert (E60 : N.land (hdr_flags pk up) 60 =? 0 = true) by (destruct pk, up; reflexivity).
  assert (E64 : negb (N.land (hdr_flags pk up) 64 =? 0) = match pk with Some _ => true | None => false end)
    by (destruct pk, up; reflexivity).
  assert (E128 : negb (N.land (hdr_flags pk up) 128 =? 0) = match up with Some _ => true | None => false end)
    by (destruct pk, up; reflexivity).
  assert (E3 : N.to_nat (N.land (hdr_flags pk up) 3 + 1) = 1%nat) by (destruct pk, up; reflexivity).
  rewrite E60. cbn [negb].
  rewrite (opt_lget _ pk pkb _ E64 Epk).
  rewrite (opt_lget _ up upb _ E128 Eup).
  rewrite E3. cbn [read_filters].
  rewrite (mb_decodes_lget _ _ _ Eid). change (33 =? 33) with true. cbn [negb].
  rewrite (mb_decodes_lget _ _ _ Esz).
  replace (hsz <? 1) with false by (symmetry; apply N.ltb_ge; exact Hh).
  cbn [app].
  replace (nlen (d :: repeat 0 npad) <? 1) with false
    by (symmetry; apply N.ltb_ge; rewrite IoInv.nlen_cons; lia).
  change (nskipn 1 (d :: repeat 0 npad)) with (repeat 0 npad).
  change (nfirstn 1 (d :: repeat 0 npad)) with [d].
  rewrite forallb_zero_repeat. reflexivity.
Qed.
Print Assumptions block_header_shape_accepted.

Section WithCrc.
Variable crc32 : list N -> N.
Variable crc64 : list N -> N.

(* ---------- the concrete representations of a block ---------- *)
(* [b] (the pieces of one block as they lie in the stream, XzSound.v) represents [xb] *)
Definition xz_block_bytes (ck : check_method) (xb : xz_block) (b : blk) : Prop :=
  (* payload and content: the reference serialisation of a well-formed chunk sequence *)
  ser2_gen false (xb_chunks xb) = Some (b_payload b, b_out b) /\ wf_seq (xb_chunks xb) /\
  (* block header: any size byte, any header accepted by read_block_header that declares exactly
     one LZMA2 filter with a one-byte property field and the true sizes (or none) *)
  b_hs b <> 0 /\ nlen (b_hdr b) = 4 * b_hs b - 1 /\
  (exists f0,
     read_block_header (4 * b_hs b - 1) (b_hdr b) =
       Done (mkBH [f0] (if xb_has_packed xb then Some (nlen (b_payload b)) else None)
                       (if xb_has_unpacked xb then Some (nlen (b_out b)) else None)) /\
     nlen (f_props f0) = 1) /\
  length (b_hcrc b) = 4%nat /\ le_num (b_hcrc b) = crc32 (b_hs b :: b_hdr b) /\
  (* block padding and check field *)
  b_pad b = repeat 0 (N.to_nat (padding_of (nlen (b_hs b :: b_hdr b ++ b_hcrc b ++ b_payload b)))) /\
  check_field crc32 crc64 ck (b_out b) (b_chk b).

(* the whole file: every legal multibyte encoding in the index, any block representation *)
Definition xz_file_bytes (file : xz_file) (bytes : list N) : Prop :=
  supported_check (xf_check file) /\
  exists hdr blks index footer,
    bytes = hdr ++ concat (map blk_bytes blks) ++ index ++ footer /\
    header_bytes_ok crc32 (xf_check file) hdr /\
    Forall2 (xz_block_bytes (xf_check file)) (xf_blocks file) blks /\
    index_bytes_ok crc32 (map blk_record blks) index /\
    footer_bytes_ok crc32 (xf_check file) (nlen index) footer.

Lemma xz_block_content ck xb b : xz_block_bytes ck xb b -> xb_content xb = b_out b.
Proof. intros (E & _). unfold xb_content. rewrite E. reflexivity. Qed.

(* ---------- the decoder clause of blk_wf, discharged ---------- *)
Theorem xz_block_bytes_wf fuel ck xb b :
  xz_block_bytes ck xb b -> fuel_ok fuel (xb_chunks xb) -> blk_wf crc32 crc64 fuel ck b.
Proof.
  intros (Hser & Hwf & HS0 & LH & (f0 & EBH & EP) & LC & EC & EPAD & CF) Hfuel.
  unfold blk_wf. split; [exact HS0|]. split; [exact LH|]. split; [exact LC|]. split; [exact EC|].
  split; [|split; [exact EPAD|exact CF]].
  eexists. exists f0, [], (b_out b). split; [exact EBH|]. split; [reflexivity|]. split.
  - intros s t Fs Hr.
    destruct (decode_filter_exact _ _ _ fuel f0 s t Hser Hwf Hfuel EP Fs Hr) as (s' & E & _).
    exists s'. exact E.
  - split; [reflexivity|]. cbn [bh_packed bh_unpacked]. split; intros e He.
    + destruct (xb_has_packed xb); [inversion He; reflexivity|discriminate He].
    + destruct (xb_has_unpacked xb); [inversion He; reflexivity|discriminate He].
Qed.

Lemma xz_blocks_wf fuel ck : forall xbs blks,
  Forall2 (xz_block_bytes ck) xbs blks -> Forall (fun xb => fuel_ok fuel (xb_chunks xb)) xbs ->
  Forall (blk_wf crc32 crc64 fuel ck) blks /\ map b_out blks = map xb_content xbs /\ length blks = length xbs.
Proof.
  induction 1 as [|xb b xbs blks HB HF IH]; intros HFu.
  - split; [constructor|split; reflexivity].
  - inversion HFu as [|? ? Hf1 Hf2]; subst. destruct (IH Hf2) as (I1 & I2 & I3).
    split; [constructor; [exact (xz_block_bytes_wf fuel ck xb b HB Hf1)|exact I1]|].
    cbn [map length]. rewrite I2, I3, (xz_block_content ck xb b HB). split; reflexivity.
Qed.

(* ================= 3. the theorem ================= *)
(* Every well-formed supported .xz file decodes exactly: whatever the fragmentation of the
   (fault-free) source and its position counter, whatever the short-write behaviour of the
   (non-failing) sink, with enough fuel, xz_decompress succeeds, appends precisely the
   concatenation of the blocks' contents to the sink, and consumes the whole input. *)
Theorem xz_wellformed_decode_exact file bytes fuel w :
  xz_file_bytes file bytes -> xz_fuel_ok fuel file ->
  FaultFree (i_src w) -> s_rest (i_src w) = bytes -> k_wfail (i_snk w) = None ->
  exists w', xz_decompress crc32 crc64 fuel w = (Done tt, w') /\
    snk_bytes (i_snk w') = snk_bytes (i_snk w) ++ xz_contents file /\
    s_rest (i_src w') = [] /\
    s_pos (i_src w') = s_pos (i_src w) + nlen bytes.
Proof.
  intros (_ & hdr & blks & index & footer & -> & HOK & FB & IOK & FOK) (Hf1 & Hf2) Fs Hr Hk.
  destruct (xz_blocks_wf fuel (xf_check file) _ _ FB Hf2) as (WF & EO & EL).
  destruct (xz_decompress_complete_wf crc32 crc64 fuel w (xf_check file) hdr blks index footer
              Fs Hk Hr HOK WF IOK FOK) as (w' & R & B & Z & P).
  { rewrite EL. exact Hf1. }
  exists w'. split; [exact R|]. split; [|split; [exact Z|rewrite P, Hr; reflexivity]].
  rewrite B. unfold xz_contents. rewrite EO. reflexivity.
Qed.

(* the same for the sources and sinks built by the constructors of Model/Io.v *)
Corollary xz_wellformed_decode_exact_src file bytes fuel frag accept ffail :
  xz_file_bytes file bytes -> xz_fuel_ok fuel file ->
  exists w', xz_decompress crc32 crc64 fuel (mkIo (src_of bytes frag None) (snk_new accept None ffail)) = (Done tt, w') /\
    snk_bytes (i_snk w') = xz_contents file /\ s_rest (i_src w') = [].
Proof.
  intros HB HF.
  destruct (xz_wellformed_decode_exact file bytes fuel (mkIo (src_of bytes frag None) (snk_new accept None ffail))
              HB HF (src_of_FaultFree _ _) eq_refl eq_refl) as (w' & R & B & Z & _).
  exists w'. split; [exact R|]. split; [exact B|exact Z].
Qed.

End WithCrc.

Print Assumptions xz_block_bytes_wf.
Print Assumptions xz_wellformed_decode_exact.
Print Assumptions xz_wellformed_decode_exact_src.
