(* C09, symbol level: a copy symbol whose distance lies outside the window is rejected.
   (1) under the event oracle, process_next_inner consumes exactly the events of the bad
       symbol and stops at its WAppendLz with Err(LzmaError), history unchanged;
   (2) the concrete handler dec_h (range decoder + tables + circular window) does the same:
       a refinement theorem for every outcome of runs that never reach FinishedOk. *)
From LZ Require Import Base.Prelude Base.Prog Model.Io Model.Tables Model.LzBuffer Model.RangeDec Model.Lzma Format.RefEnc
  Proofs.ProgLemmas Proofs.MapLemmas Proofs.IoLemmas Proofs.RangeLockstep Proofs.WinCirc Proofs.NoPanic Proofs.NoPanicWorld
  Proofs.SymOracle Proofs.SymCoders Proofs.SymLiteral Proofs.SymDecode Proofs.SymChain
  Proofs.LzmaExactSync Proofs.LzmaExactShape Proofs.LzmaExactRefine Proofs.LzmaExactLoop.
From Coq Require Import ZifyBool ZifyNat ZifyN.
Local Open Scope prog_scope.

(* ---------- the symbols in question ---------- *)
(* the distance (as the window sees it) that a copy symbol refers to *)
Definition copy_dist (h : hist) (s : sym) : option N :=
  match s with
  | Match dist _ => Some dist
  | ShortRep => Some (h_r0 h + 1)
  | Rep i _ => Some (rep0 (rot i h) + 1)
  | _ => None
  end.

(* a copy symbol that is well formed except that its distance exceeds
   min(bytes produced, dictionary size) *)
Definition bad_copy (dict : N) (h : hist) (s : sym) : Prop :=
  match s with
  | Match dist len => len_ok len = true /\ dist <= 4294967295 /\ N.min (h_len h) dict < dist
  | ShortRep => N.min (h_len h) dict < h_r0 h + 1
  | Rep i len => i <= 3 /\ len_ok len = true /\ N.min (h_len h) dict < rep0 (rot i h) + 1
  | _ => False
  end.

Lemma can_copy_far dict h dist : N.min (h_len h) dict < dist -> can_copy (Some dict) h dist = false.
Proof.
  intros H. unfold can_copy.
  destruct (N.leb_spec dist (h_len h)); destruct (N.leb_spec dist dict);
    rewrite ?andb_false_r, ?andb_false_l; try reflexivity; lia.
Qed.

Lemma bad_copy_dist dict h s : bad_copy dict h s ->
  exists d, copy_dist h s = Some d /\ N.min (h_len h) dict < d.
Proof.
  destruct s as [b|dist len| |i len|]; cbn [bad_copy copy_dist]; try contradiction.
  - intros (_ & _ & H). eauto.
  - intros H. eauto.
  - intros (_ & _ & H). eauto.
Qed.

(* the format rejects such a symbol *)
Lemma bad_copy_sem dict h s : bad_copy dict h s -> sem_sym (Some dict) h s = None.
Proof.
  destruct s as [b|dist len| |i len|]; cbn [bad_copy]; try contradiction.
  - intros (_ & _ & H). cbn [sem_sym]. rewrite (can_copy_far dict h dist H). reflexivity.
  - intros H. cbn [sem_sym]. rewrite (can_copy_far dict h _ H). reflexivity.
  - intros (_ & _ & H). apply can_copy_far in H. revert H. unfold sem_sym, rot.
    destruct (i =? 0); [|destruct (i =? 1); [|destruct (i =? 2)]]; cbn [reps_of rep0];
      intros ->; rewrite andb_false_r; reflexivity.
Qed.

Lemma bad_copy_not_marker dict h s : bad_copy dict h s -> s <> EndMarker.
Proof. intros H E. subst s. exact H. Qed.

(* ---------- runs of the oracle that never ask FinishedOk ---------- *)
Definition is_fin {X} (o : decE X) : bool := match o with FinishedOk => true | _ => false end.

Fixpoint nofin {A} (w : option N) (p : dprog A) (s : ostate) : Prop :=
  match p with
  | Vis o k => is_fin o = false /\
               match oracle w _ o s with HOk x u => nofin w (k x) u | _ => True end
  | _ => True
  end.

(* syntactically free of FinishedOk *)
Fixpoint nf {A} (p : dprog A) : Prop :=
  match p with
  | Vis o k => is_fin o = false /\ forall x, nf (k x)
  | _ => True
  end.

Lemma nf_nofin {A} w (p : dprog A) : nf p -> forall s, nofin w p s.
Proof.
  induction p as [a|e|q|X o k IH]; intros Hp s; cbn [nf nofin] in *; try exact I.
  destruct Hp as [Ho Hk]. split; [exact Ho|].
  destruct (oracle w X o s) as [x u|e u|q u]; try exact I. apply IH. apply Hk.
Qed.

Lemma nf_bind {A B} (p : dprog A) (f : A -> dprog B) : nf p -> (forall a, nf (f a)) -> nf (bind p f).
Proof.
  induction p as [a|e|q|X o k IH]; intros Hp Hf; cbn [bind nf] in *; try exact I.
  - apply Hf.
  - destruct Hp as [Ho Hk]. split; [exact Ho|]. intros x. apply IH; [apply Hk|exact Hf].
Qed.

Lemma nf_call {A X} (o : decE X) (k : X -> dprog A) :
  is_fin o = false -> (forall x, nf (k x)) -> nf (bind (dcall o) k).
Proof. intros Ho Hk. cbn [call bind nf]. split; [exact Ho|exact Hk]. Qed.

Lemma nf_bit {A} c upd (k : bool -> dprog A) : (forall b, nf (k b)) -> nf (bind (dcall (Bit c upd)) k).
Proof. apply nf_call. reflexivity. Qed.

Lemma nf_bit_tree_loop n mk upd : forall tmp, nf (bit_tree_loop n mk upd tmp).
Proof.
  induction n as [|n IH]; intros tmp; cbn [bit_tree_loop]; [exact I|].
  apply nf_bit. intros b. apply IH.
Qed.

Lemma nf_parse_bit_tree nb mk upd : nf (parse_bit_tree nb mk upd).
Proof.
  unfold parse_bit_tree. apply nf_bind; [apply nf_bit_tree_loop|].
  intros a. destruct (a <? N.shiftl 1 nb); exact I.
Qed.

Lemma nf_rev_bit_tree_loop n mk offset upd : forall i tmp result, nf (rev_bit_tree_loop n i mk offset upd tmp result).
Proof.
  induction n as [|n IH]; intros i tmp result; cbn [rev_bit_tree_loop]; [exact I|].
  apply nf_bit. intros b. apply IH.
Qed.

Lemma nf_parse_reverse_bit_tree nb mk offset upd : nf (parse_reverse_bit_tree nb mk offset upd).
Proof. apply nf_rev_bit_tree_loop. Qed.

Lemma nf_len_decode rep ps upd : nf (len_decode rep ps upd).
Proof.
  unfold len_decode. apply nf_bit. intros c1. destruct c1; cbn [negb].
  - apply nf_bit. intros c2. destruct c2; cbn [negb].
    + apply nf_bind; [apply nf_parse_bit_tree|intros; exact I].
    + apply nf_bind; [apply nf_parse_bit_tree|intros; exact I].
  - apply nf_parse_bit_tree.
Qed.

Lemma nf_decode_distance len upd : nf (decode_distance len upd).
Proof.
  unfold decode_distance. apply nf_bind; [apply nf_parse_bit_tree|].
  intros ps. destruct (ps <? 4); [exact I|].
  destruct (ps <? 14).
  - destruct (_ <? ps); [exact I|].
    apply nf_bind; [apply nf_parse_reverse_bit_tree|intros; exact I].
  - apply nf_call; [reflexivity|]. intros d.
    apply nf_bind; [apply nf_parse_reverse_bit_tree|intros; exact I].
Qed.

Lemma nf_rep_select y ps upd : nf (rep_select y ps upd).
Proof.
  unfold rep_select. apply nf_bit. intros g0. destruct g0; cbn [negb].
  - apply nf_bit. intros g1. apply nf_bind.
    + destruct g1; cbn [negb]; [|exact I]. apply nf_bit. intros g2. exact I.
    + intros idx. destruct upd; exact I.
  - apply nf_bit. intros l0. destruct l0; cbn [negb]; [exact I|].
    destruct upd; [|exact I]. apply nf_call; [reflexivity|]. intros; exact I.
Qed.

Lemma nf_rep_arm y ps upd : nf (rep_arm y ps upd).
Proof.
  unfold rep_arm. apply nf_bind; [apply nf_rep_select|].
  intros [res|r']; [exact I|].
  apply nf_bind; [apply nf_len_decode|].
  intros len. destruct upd; [|exact I]. apply nf_call; [reflexivity|]. intros; exact I.
Qed.

(* a run together with the fact that it never asks FinishedOk *)
Definition runs {A} (w : option N) (p : dprog A) (s : ostate) (r : outcome A) (t : ostate) : Prop :=
  interp (oracle w) p s = (r, t) /\ nofin w p s.

Lemma runs_nf {A} w (p : dprog A) s r t : nf p -> interp (oracle w) p s = (r, t) -> runs w p s r t.
Proof. intros Hn Hi. split; [exact Hi|apply nf_nofin; exact Hn]. Qed.

Lemma nofin_bind {A B} w (p : dprog A) (f : A -> dprog B) : forall s a s',
  interp (oracle w) p s = (Done a, s') -> nofin w p s -> nofin w (f a) s' -> nofin w (bind p f) s.
Proof.
  induction p as [a0|e|q|X o k IH]; intros s a s' Hi Hp Hf; cbn [bind nofin interp] in *; try discriminate.
  - inversion Hi; subst. exact Hf.
  - destruct Hp as [Ho Hk]. split; [exact Ho|].
    destruct (oracle w X o s) as [x u|e u|q u]; try exact I.
    eapply IH; eassumption.
Qed.

Lemma runs_bind {A B} w (p : dprog A) (f : A -> dprog B) s a s' r t :
  runs w p s (Done a) s' -> runs w (f a) s' r t -> runs w (bind p f) s r t.
Proof.
  intros [Hi Hn] [Hi' Hn']. split.
  - rewrite (interp_bind_done _ _ _ _ _ _ Hi). exact Hi'.
  - eapply nofin_bind; eassumption.
Qed.

Lemma runs_call {A X} w (o : decE X) (k : X -> dprog A) s x s' r t :
  is_fin o = false -> oracle w _ o s = HOk x s' -> runs w (k x) s' r t ->
  runs w (bind (dcall o) k) s r t.
Proof.
  intros Ho He [Hi Hn]. split; cbn [call bind interp nofin]; rewrite He.
  - exact Hi.
  - split; [exact Ho|exact Hn].
Qed.

Lemma runs_call_err {A X} w (o : decE X) (k : X -> dprog A) s e s' :
  is_fin o = false -> oracle w _ o s = HErr e s' -> runs w (bind (dcall o) k) s (Failed e) s'.
Proof.
  intros Ho He. split; cbn [call bind interp nofin]; rewrite He; [reflexivity|].
  split; [exact Ho|exact I].
Qed.

Lemma runs_bit {A} w c upd b evs h (k : bool -> dprog A) r t :
  runs w (k b) (evs, h) r t -> runs w (bind (dcall (Bit c upd)) k) (EvBit c b :: evs, h) r t.
Proof.
  apply runs_call; [reflexivity|]. cbn [oracle fst snd].
  destruct (cell_eq_dec c c) as [_|N]; [reflexivity|congruence].
Qed.

Lemma runs_lz_err {A} w len dist evs h (k : unit -> dprog A) :
  can_copy w h dist = false ->
  runs w (bind (dcall (WAppendLz len dist)) k) (evs, h) (Failed ELzma) (evs, h).
Proof.
  intros Hcc. apply runs_call_err; [reflexivity|]. cbn [oracle fst snd]. rewrite Hcc. reflexivity.
Qed.

Lemma interp_wappendlz_err {A} w len dist evs h (k : unit -> dprog A) :
  can_copy w h dist = false ->
  interp (oracle w) (bind (dcall (WAppendLz len dist)) k) (evs, h) = (Failed ELzma, (evs, h)).
Proof. intros Hcc. apply (runs_lz_err w len dist evs h k Hcc). Qed.

(* ---------- the common prefix ---------- *)
Lemma pni_runs_copy w p y h evs r t :
  pb p <= 4 ->
  runs w (is_r <- dcall (Bit (CIsRep (y_state y)) true) ;;
          if is_r then rep_arm y (N.land (h_len h) (2 ^ pb p - 1)) true
          else match_arm y (N.land (h_len h) (2 ^ pb p - 1)) true) (evs, h) r t ->
  runs w (process_next_inner p y true)
       (EvBit (CIsMatch (16 * y_state y + N.land (h_len h) (2 ^ pb p - 1))) true :: evs, h) r t.
Proof.
  intros Hpb H. unfold process_next_inner.
  eapply (runs_call w WLen); [reflexivity|reflexivity|]. cbn [snd].
  destruct (N.ltb_spec 63 (pb p)) as [C|_]; [lia|].
  rewrite N.shiftl_1_l, (N.shiftl_mul_pow2 (y_state y) 4). change (2 ^ 4) with 16.
  rewrite (N.mul_comm (y_state y) 16).
  apply runs_bit. cbn [negb]. exact H.
Qed.

(* ---------- the three arms on a bad copy ---------- *)
Lemma match_arm_rejects w st ps l d0 rest h :
  l <= 271 -> d0 < 4294967295 -> can_copy w h (d0 + 1) = false ->
  runs w (match_arm (mkSym st (reps_of h)) ps true)
       (len_evs false ps l ++ dist_evs l d0 ++ rest, h) (Failed ELzma) (rest, h).
Proof.
  intros Hl Hd Hcc. unfold match_arm.
  eapply runs_bind.
  { apply runs_nf; [apply nf_len_decode|]. apply (len_decodes w false ps true l _ h Hl). }
  eapply runs_bind.
  { apply runs_nf; [apply nf_decode_distance|]. apply (dist_decodes w true l d0 rest h). lia. }
  destruct (N.eqb_spec d0 4294967295) as [C|_]; [lia|].
  apply runs_lz_err. exact Hcc.
Qed.

Lemma rep_arm_short_rejects w st ps rest h :
  can_copy w h (h_r0 h + 1) = false ->
  runs w (rep_arm (mkSym st (reps_of h)) ps true)
       (EvBit (CIsRepG0 st) false :: EvBit (CIsRep0Long (16 * st + ps)) false :: rest, h)
       (Failed ELzma) (rest, h).
Proof.
  intros Hcc. apply runs_nf; [apply nf_rep_arm|].
  unfold rep_arm. rewrite interp_bind.
  assert (E : interp (oracle w) (rep_select (mkSym st (reps_of h)) ps true)
                (EvBit (CIsRepG0 st) false :: EvBit (CIsRep0Long (16 * st + ps)) false :: rest, h)
              = (Failed ELzma, (rest, h))).
  { unfold rep_select. cbn [y_state y_rep].
    rewrite (N.shiftl_mul_pow2 st 4). change (2 ^ 4) with 16. rewrite (N.mul_comm st 16).
    sbit. sbit. cbn [reps_of rep0]. apply interp_wappendlz_err. exact Hcc. }
  rewrite E. reflexivity.
Qed.

Lemma rep_arm_rep_rejects w st ps i l rest h :
  l <= 271 -> can_copy w h (rep0 (rot i h) + 1) = false ->
  runs w (rep_arm (mkSym st (reps_of h)) ps true)
       (rep_choice_evs st ps i ++ len_evs true ps l ++ rest, h) (Failed ELzma) (rest, h).
Proof.
  intros Hl Hcc. apply runs_nf; [apply nf_rep_arm|].
  unfold rep_arm.
  rewrite (interp_bind_done _ _ _ _ _ _ (rep_select_rep w st ps true i _ h)).
  rewrite (interp_bind_done _ _ _ _ _ _ (len_decodes w true ps true l rest h Hl)).
  apply interp_wappendlz_err. exact Hcc.
Qed.

(* ---------- (1) T-sym for an ill-formed copy ---------- *)
Theorem process_next_inner_rejects_bad_copy_runs dict p fp st h s rest :
  props_match p fp -> bad_copy dict h s ->
  runs (Some dict) (process_next_inner p (mkSym st (reps_of h)) true)
       (fst (sym_evs fp st h s) ++ rest, h) (Failed ELzma) (rest, h).
Proof.
  intros (Hlc & Hlp & Hpb & Elc & Elp & Epb) Hbad.
  unfold sym_evs. rewrite Epb.
  destruct s as [b|dist len| |i len|]; cbn [bad_copy] in Hbad; try contradiction; cbn [fst app].
  - (* Match *)
    destruct Hbad as (Hlen & Hd & Hfar). apply len_ok_bounds in Hlen.
    apply (pni_runs_copy (Some dict) p (mkSym st (reps_of h)) h _ _ _ Hpb). cbn [y_state].
    apply runs_bit. rewrite <- app_assoc.
    apply match_arm_rejects; [lia|lia|].
    replace (dist - 1 + 1) with dist by lia. apply can_copy_far. exact Hfar.
  - (* ShortRep *)
    apply (pni_runs_copy (Some dict) p (mkSym st (reps_of h)) h _ _ _ Hpb). cbn [y_state].
    apply runs_bit. apply rep_arm_short_rejects. apply can_copy_far. exact Hbad.
  - (* Rep *)
    destruct Hbad as (Hi & Hlen & Hfar). apply len_ok_bounds in Hlen.
    apply (pni_runs_copy (Some dict) p (mkSym st (reps_of h)) h _ _ _ Hpb). cbn [y_state].
    apply runs_bit. rewrite <- app_assoc.
    fold (rep_choice_evs st (N.land (h_len h) (2 ^ pb p - 1)) i).
    apply rep_arm_rep_rejects; [lia|]. apply can_copy_far. exact Hfar.
Qed.

(* in the plain form: exactly the events of the bad symbol are consumed, the window
   operation is refused, no byte is appended to the history *)
Theorem process_next_inner_rejects_bad_copy dict p fp st h s rest :
  props_match p fp -> bad_copy dict h s ->
  interp (oracle (Some dict)) (process_next_inner p (mkSym st (reps_of h)) true)
         (fst (sym_evs fp st h s) ++ rest, h)
  = (Failed ELzma, (rest, h)).
Proof. intros Hp Hb. apply (process_next_inner_rejects_bad_copy_runs dict p fp st h s rest Hp Hb). Qed.
Print Assumptions process_next_inner_rejects_bad_copy.

(* ---------- (2) the concrete handler follows every run that avoids FinishedOk ---------- *)
Section RefineNoFin.
  Variables (lcp dict mem : N) (pre : list N) (ief : ienc) (delta : N) (trail : list N) (canon : bool)
            (pos_end fl : N).
  Hypothesis Hdelta : delta < i_range ief.
  Hypothesis Hcanon : canon = true -> delta = 0 /\ trail = [].
  Hypothesis Hdict : 0 < dict /\ dict <= mem.

  Notation REL := (Rel lcp dict mem pre ief delta trail canon pos_end fl).

  Theorem refine_nofin {A} (Q : A -> Prop) (p : dprog A) :
    safe_prog (cell_in lcp) Q p -> shape p ->
    forall s1 s2 r t2, REL s1 s2 -> nofin (Some dict) p s2 ->
    interp (oracle (Some dict)) p s2 = (r, t2) -> (forall w, r <> Panicked w) ->
    exists t1, interp dec_h p s1 = (r, t1) /\ REL t1 t2.
  Proof.
    intros Hsafe. induction Hsafe as [a0 Ha|e|X o k Hpre Hk IH]; intros Hsh s1 s2 r t2 HR Hnf Hi Hnp.
    - cbn [interp] in *. inversion Hi; subst. exists s1. split; [reflexivity|exact HR].
    - cbn [interp] in *. inversion Hi; subst. exists s1. split; [reflexivity|exact HR].
    - cbn [interp shape nofin] in *. destruct Hsh as [Hop Hsh']. destruct Hnf as [Hfin Hnf].
      destruct (oracle (Some dict) X o s2) as [x u2|e u2|w u2] eqn:E2.
      + assert (STEP : ans_ok o x /\ exists u1, dec_h X o s1 = HOk x u1 /\ REL u1 u2).
        { destruct o; cbn [op_shape op_pre ans_ok is_fin] in *.
          - subst upd. split; [exact I|].
            exact (step_bit lcp dict mem pre ief delta trail canon pos_end fl Hdelta Hcanon Hdict c x s1 s2 u2 HR Hpre E2).
          - exact (step_direct lcp dict mem pre ief delta trail canon pos_end fl Hdelta Hcanon Hdict count x s1 s2 u2 HR Hop E2).
          - discriminate.
          - exact (step_win lcp dict mem pre ief delta trail canon pos_end fl Hdelta Hcanon Hdict WLen x s1 s2 u2 HR Hpre I E2).
          - exact (step_win lcp dict mem pre ief delta trail canon pos_end fl Hdelta Hcanon Hdict (WLastOr d) x s1 s2 u2 HR Hpre I E2).
          - exact (step_win lcp dict mem pre ief delta trail canon pos_end fl Hdelta Hcanon Hdict (WLastN dist) x s1 s2 u2 HR Hpre I E2).
          - exact (step_win lcp dict mem pre ief delta trail canon pos_end fl Hdelta Hcanon Hdict (WAppendLit b) x s1 s2 u2 HR Hpre I E2).
          - exact (step_win lcp dict mem pre ief delta trail canon pos_end fl Hdelta Hcanon Hdict (WAppendLz len dist) x s1 s2 u2 HR Hpre I E2). }
        destruct STEP as (Hans & u1 & E1 & HR'). rewrite E1. eapply IH; eauto.
      + inversion Hi; subst r t2.
        destruct (step_err lcp dict mem pre ief delta trail canon pos_end fl Hdelta Hcanon Hdict o e s1 s2 u2 HR Hpre E2)
          as (u1 & E1 & HR').
        rewrite E1. exists u1. split; [reflexivity|exact HR'].
      + inversion Hi; subst r. exfalso. apply (Hnp w). reflexivity.
  Qed.

  (* what a refused window operation leaves behind: the window still represents the same
     history; in particular what the sink holds is a prefix of pre ++ history *)
  Lemma relwin_sink wn h : RelWin dict mem pre fl wn h ->
    exists t, pre ++ List.rev (h_bytes h) = snk_bytes (win_snk wn) ++ t.
  Proof.
    intros (c & -> & HI & _). destruct HI as (_ & _ & _ & _ & _ & _ & _ & Hfin & _).
    exists (map_slice (c_buf c) 0 (c_cursor c)). cbn [win_snk]. symmetry. exact Hfin.
  Qed.

  Lemma rel_same_data x e ho h : REL x (e, ho) -> h_bytes ho = h_bytes h -> h_len ho = h_len h -> REL x (e, h).
  Proof.
    intros (real & Ef & HC & HW) Eb El. exists real. cbn [fst snd] in *.
    split; [exact Ef|]. split; [exact HC|].
    destruct HW as (c & Ew & HI & Hd & Hm & Hff & Hfl & Hl & Hby).
    exists c. rewrite <- Eb, <- El. split; [exact Ew|]. split; [exact HI|]. split; [exact Hd|]. split; [exact Hm|].
    split; [exact Hff|]. split; [exact Hfl|]. split; [exact Hl|exact Hby].
  Qed.
End RefineNoFin.
Print Assumptions refine_nofin.

(* (1) + (2): the concrete decoder on the events of a bad copy *)
Theorem dec_h_rejects_bad_copy lcv dict mem pre ief delta trail canon pos_end fl p fp st h s rest x :
  delta < i_range ief -> (canon = true -> delta = 0 /\ trail = []) -> 0 < dict /\ dict <= mem ->
  props_match p fp -> lcv = lc p + lp p -> st < 12 -> bad_copy dict h s ->
  Rel lcv dict mem pre ief delta trail canon pos_end fl x (fst (sym_evs fp st h s) ++ rest, h) ->
  exists x', interp dec_h (process_next_inner p (mkSym st (reps_of h)) true) x = (Failed ELzma, x') /\
             Rel lcv dict mem pre ief delta trail canon pos_end fl x' (rest, h).
Proof.
  intros Hdelta Hcanon Hdict Hpm -> Hst Hbad HR.
  destruct (process_next_inner_rejects_bad_copy_runs dict p fp st h s rest Hpm Hbad) as [Hi Hn].
  apply (refine_nofin (lc p + lp p) dict mem pre ief delta trail canon pos_end fl Hdelta Hcanon Hdict
           (psym_ok (fun _ => True)) _ (pni_safe fp p Hpm st (reps_of h) Hst)
           (shape_process_next_inner p _) _ _ _ _ HR Hn Hi).
  intros w. discriminate.
Qed.
Print Assumptions dec_h_rejects_bad_copy.
