(* C05, layer L3: one iteration / one call of process_mode in Partial mode (streaming), related to the
   iterations of process_mode in Finish mode on the whole remaining input (one-shot).  Everything is on
   abstract decoder states (StreamSimBody.v). *)
From LZ Require Import Base.Prelude Base.Prog Model.Io Model.Tables Model.LzBuffer Model.RangeDec Model.Lzma.
From LZ Require Import Proofs.ProgLemmas Proofs.IoLemmas Proofs.Bound20 Proofs.Bound20Run.
From LZ Require Import Proofs.NoPanic Proofs.NoPanicWorld.
From LZ Require Import Proofs.StreamSimAbs Proofs.StreamSimDry Proofs.StreamSimSym Proofs.StreamSimBody Proofs.StreamSimMark.
From Coq Require Import ZifyBool ZifyNat ZifyN.
Local Open Scope prog_scope.

(* ====================================================================== *)
(* Vocabulary                                                               *)
(* ====================================================================== *)
Definition pibof (a : ast) : list N := ds_pib (x_ds a).
Definition size_hit (a : ast) : bool :=
  match ds_unpacked (x_ds a) with Some us => us <=? win_len (x_win a) | None => false end.
Definition core_eq (a A : ast) : Prop :=
  x_ds A = set_pib (x_ds a) [] /\ x_rc A = x_rc a /\ x_win A = x_win a.
Definition dict_ok (v : win) : Prop := match win_dict v with Some d => d < 4294967296 | None => False end.
Definition obody := abody FinishMode.
Definition bytes_ok (l : list N) : Prop := Forall (fun b => b < 256) l.

Lemma core_eq_repr a A i : core_eq a A -> x_in A = i -> A = repib (with_in a i) [].
Proof. destruct A as [d r v j]. intros (Hd & Hr & Hw) Hi. cbn in *. subst. reflexivity. Qed.

Lemma core_eq_of_repr a i : core_eq a (repib (with_in a i) []).
Proof. repeat split. Qed.

Lemma obody_unfold A : ds_pib (x_ds A) = [] ->
  obody A = if ahead FinishMode A then Break (Done tt, A) else
            match arun true A with
            | (Failed e, t) => Break (Failed e, t)
            | (Panicked p, t) => Break (Panicked p, t)
            | (Done Finished, t) => Break (Done tt, t)
            | (Done Continue, t) => Next t
            end.
Proof. intros H. unfold obody, abody, adirect. rewrite H. reflexivity. Qed.

(* ---------- invariants of sub-states ---------- *)
Lemma AInv_bytes A : AInv A -> bytes_ok (x_in A).
Proof. intros [[_ _ _ _ [_ _ _ H _]] _ _ _ _]. exact H. Qed.

Definition ds_same (d1 d2 : dstate) : Prop :=
  ds_props d1 = ds_props d2 /\ ds_tabs d1 = ds_tabs d2 /\ ds_state d1 = ds_state d2 /\ ds_rep d1 = ds_rep d2.

Lemma AInv_gen A a buf : AInv A -> ds_same (x_ds a) (x_ds A) -> x_rc a = x_rc A -> x_win a = x_win A ->
  bytes_ok buf -> nlen buf < BIG -> AInv (with_in a buf).
Proof.
  intros [[h1 h2 h3 h4 [g1 g2 g3 g4 g5]] HR HT Hn HC] (D1 & D2 & D3 & D4) Hr Hw Hb Hl.
  cbn [to_lw l_ds l_rc l_src l_win d_tabs d_rc d_src d_win] in *. rewrite <- D1, <- ?D2, <- ?D3, <- ?D4, <- ?Hr, <- ?Hw in *.
  constructor; cbn [with_in to_lw x_ds x_rc x_win x_in l_ds l_rc l_src l_win].
  - constructor; cbn [l_ds l_rc l_src l_win]; [exact h1|exact h2|exact h3|exact h4|].
    constructor; cbn [d_tabs d_rc d_src d_win]; [exact g1|exact g2|exact g3|exact Hb|exact g5].
  - exact HR.
  - exact HT.
  - exact Hl.
  - exact HC.
Qed.

Lemma AInv_sub A a buf : AInv A -> core_eq a A -> bytes_ok buf -> nlen buf < BIG -> AInv (with_in a buf).
Proof.
  intros HI (Hd & Hr & Hw) Hb Hl. apply (AInv_gen A a buf HI); try assumption; try (symmetry; assumption).
  rewrite Hd. repeat split.
Qed.

Lemma bytes_ok_app l1 l2 : bytes_ok (l1 ++ l2) <-> bytes_ok l1 /\ bytes_ok l2.
Proof. unfold bytes_ok. apply Forall_app. Qed.

Lemma bytes_ok_firstn n l : bytes_ok l -> bytes_ok (nfirstn n l).
Proof. intros H. rewrite <- (nfirstn_nskipn n l) in H. apply bytes_ok_app in H. apply H. Qed.
Lemma bytes_ok_skipn n l : bytes_ok l -> bytes_ok (nskipn n l).
Proof. intros H. rewrite <- (nfirstn_nskipn n l) in H. apply bytes_ok_app in H. apply H. Qed.

(* ---------- the loop heads agree ---------- *)
Lemma head_sync a A fut : core_eq a A -> x_in A = pibof a ++ x_in a ++ fut ->
  ahead Partial a = false -> ahead FinishMode A = false /\ size_hit a = false.
Proof.
  intros (Hd & Hr & Hw) Hi. unfold ahead, size_hit, pibof in *. rewrite Hd, Hw, Hi. cbn [set_pib ds_unpacked ds_rep ds_pib].
  destruct (ds_unpacked (x_ds a)) as [us|]; [intros ->; split; reflexivity|].
  intros H. split; [|reflexivity].
  destruct (rep0 (ds_rep (x_ds a)) =? 4294967295); [|reflexivity].
  assert (E : in_empty (ds_pib (x_ds a) ++ x_in a ++ fut) = false).
  { destruct (ds_pib (x_ds a)) as [|p0 pt]; [|reflexivity]. destruct (x_in a) as [|i0 it]; [|reflexivity].
    cbn in H. discriminate. }
  rewrite E. destruct (r_code (x_rc A) =? 0); reflexivity.
Qed.

(* ====================================================================== *)
(* The real step on a buffer, against the one-shot step on buffer ++ more   *)
(* ====================================================================== *)
(* what is known about a decoder that has just decoded the end marker *)
Record PMc (a : ast) : Prop := mkPMc {
  pm_code : r_code (x_rc a) = 0;
  pm_rep : rep0 (ds_rep (x_ds a)) = MARKER;
  pm_state : 7 <= ds_state (x_ds a);
  pm_size : size_hit a = false;
  pm_inv : AInv (with_in a []);
  pm_dict : dict_ok (x_win a)
}.

Inductive real_post (aB A : ast) (more : list N) : outcome status * ast -> Prop :=
| rp_cont t A1 : obody A = Next A1 -> core_eq t A1 -> x_in A1 = x_in t ++ more -> AInv A1 -> dict_ok (x_win A1) ->
                 suffix_of (x_in t) (x_in aB) -> pibof t = pibof aB ->
                 real_post aB A more (Done Continue, t)
| rp_mark t : x_in t = [] -> PMc t -> pibof t = pibof aB ->
              ((more = [] /\ exists A', obody A = Break (Done tt, A') /\ core_eq t A') \/
               (more <> [] /\ exists e' A', obody A = Break (Failed e', A'))) ->
              real_post aB A more (Done Finished, t)
| rp_fail e t e' A' : obody A = Break (Failed e', A') -> real_post aB A more (Failed e, t).

Lemma size_hit_ext (a t : ast) : ds_unpacked (x_ds t) = ds_unpacked (x_ds a) -> x_win t = x_win a -> size_hit t = size_hit a.
Proof. intros H1 H2. unfold size_hit. rewrite H1, H2. reflexivity. Qed.

Lemma real_step aB A more :
  core_eq aB A -> x_in A = x_in aB ++ more -> AInv A -> dict_ok (x_win A) ->
  ahead FinishMode A = false -> size_hit aB = false -> arf true aB = false ->
  real_post aB A more (arun true aB).
Proof.
  intros Hc Hi HI HD Hh Hsz Hrf.
  pose proof (core_eq_repr aB A _ Hc Hi) as EA.
  assert (HpA : ds_pib (x_ds A) = []) by (rewrite EA; reflexivity).
  pose proof (obody_unfold A HpA) as OB. rewrite Hh in OB.
  pose proof (arun_inv true A HI) as HinvA.
  pose proof (arun_dict true A) as HdictA.
  assert (EAr : arun true A = (fst (arun true (with_in aB (x_in aB ++ more))),
                               repib (snd (arun true (with_in aB (x_in aB ++ more)))) [])).
  { rewrite EA at 1. apply arun_repib. }
  pose proof (arun_suffix true aB) as Hsuf.
  destruct (arun_ds true aB) as (Dp & Dpr & Du).
  destruct (aeo true aB) eqn:Heo.
  - (* the end of the buffer was seen: end marker *)
    destruct (arun_fin aB) as [HF _]. destruct (HF Heo) as (F1 & F2 & F3 & F4 & F5).
    destruct (arun_mark aB Heo) as [HW HX].
    destruct (arun true aB) as [r t] eqn:ER. cbn [fst snd] in *. subst r.
    apply rp_mark; [exact F2| |exact Dp|].
    + (* PMc *)
      pose proof (AInv_sub A aB (x_in aB) HI Hc) as HIB.
      assert (HbB : bytes_ok (x_in aB)) by (pose proof (AInv_bytes A HI) as Hb; rewrite Hi in Hb; apply bytes_ok_app in Hb; apply Hb).
      assert (HlB : nlen (x_in aB) < BIG) by (destruct HI as [_ _ _ Hn _]; rewrite Hi, nlen_app in Hn; lia).
      specialize (HIB HbB HlB). replace (with_in aB (x_in aB)) with aB in HIB by (destruct aB; reflexivity).
      pose proof (arun_inv true aB HIB) as Hinv. rewrite ER in Hinv.
      constructor; try assumption.
      * rewrite F5. destruct (_ <? 7); lia.
      * rewrite <- Hsz. apply size_hit_ext; assumption.
      * replace (with_in t []) with t by (destruct t; cbn in *; subst; reflexivity). exact Hinv.
      * pose proof (arun_dict true aB) as Hd. rewrite ER in Hd. cbn [snd] in Hd.
        unfold dict_ok in *. rewrite Hd. destruct Hc as (_ & _ & Hw). rewrite <- Hw. exact HD.
    + destruct more as [|m0 mt].
      * left. split; [reflexivity|]. rewrite app_nil_r in EAr.
        replace (with_in aB (x_in aB)) with aB in EAr by (destruct aB; reflexivity).
        rewrite ER in EAr. cbn [fst snd] in EAr. rewrite EAr in OB.
        eexists. split; [exact OB|]. apply core_eq_of_repr.
      * right. split; [discriminate|]. specialize (HX (m0 :: mt) ltac:(discriminate)).
        rewrite EAr in OB. rewrite HX in OB. eexists _, _. exact OB.
  - (* the run never saw the end of the buffer: it is the same run on the longer input *)
    destruct (arun_ext true aB more Hrf Heo) as (EX & _ & _).
    rewrite EX in EAr. cbn [fst snd] in EAr. rewrite EAr in OB, HinvA, HdictA. cbn [snd] in HdictA.
    destruct (arun_fin aB) as [_ HF].
    destruct (arun true aB) as [[[|]|e|q] t] eqn:ER; cbn [fst snd] in *.
    + eapply rp_cont; [exact OB|apply core_eq_of_repr|reflexivity|exact HinvA| |exact Hsuf|exact Dp].
      unfold dict_ok in *. cbn [repib x_win with_in] in HdictA |- *. rewrite HdictA. exact HD.
    + specialize (HF eq_refl). congruence.
    + eapply rp_fail. exact OB.
    + contradiction.
Qed.

(* ====================================================================== *)
(* One iteration of the streaming loop                                      *)
(* ====================================================================== *)
Inductive iter_post (a A : ast) (fut : list N) : Prog.step ast (outcome unit * ast) -> Prop :=
| ip_next a1 A1 : obody A = Next A1 -> core_eq a1 A1 -> x_in A1 = pibof a1 ++ x_in a1 ++ fut ->
    AInv A1 -> dict_ok (x_win A1) -> nlen (pibof a1) <= 20 ->
    (pibof a = [] -> pibof a1 = []) -> nlen (x_in a1) <= nlen (x_in a) ->
    (pibof a <> [] -> nlen (pibof a) < 20 -> x_in a <> [] -> nlen (x_in a1) < nlen (x_in a)) ->
    iter_post a A fut (Next a1)
| ip_size : size_hit a = true -> iter_post a A fut (Break (Done tt, a))
| ip_wait a1 : core_eq a1 A -> x_in A = pibof a1 ++ x_in a1 ++ fut -> x_in a1 = [] -> nlen (pibof a1) < 20 ->
    size_hit a1 = false -> iter_post a A fut (Break (Done tt, a1))
| ip_fail e a1 e' A' : obody A = Break (Failed e', A') -> iter_post a A fut (Break (Failed e, a1))
| ip_mark a1 : PMc a1 -> pibof a1 = [] ->
    suffix_of (x_in a1) (x_in a) -> (pibof a = [] -> x_in a1 = []) ->
    (pibof a <> [] -> nlen (pibof a) < 20 -> x_in a <> [] -> nlen (x_in a1) < nlen (x_in a)) ->
    ((x_in a1 ++ fut = [] /\ exists A', obody A = Break (Done tt, A') /\ core_eq a1 A') \/
     (x_in a1 ++ fut <> [] /\ exists e' A', obody A = Break (Failed e', A'))) ->
    iter_post a A fut (Break (Done tt, a1)).

Lemma nskipn_ge {A} n (l : list A) : nlen l <= n -> nskipn n l = [].
Proof. intros H. unfold nskipn, nlen in *. apply skipn_all2. lia. Qed.

Lemma atry_cases a buf : AInv (with_in a buf) ->
  (atry a buf = Done true) \/ (atry a buf = Done false /\ exists st, fst (arun false (with_in a buf)) = Done st).
Proof.
  intros HI. unfold atry. pose proof (arun_inv false _ HI) as H.
  destruct (arun false (with_in a buf)) as [[st|e|q] t]; cbn [fst]; [right; eauto|left; reflexivity|contradiction].
Qed.

Theorem partial_iter a A fut :
  core_eq a A -> x_in A = pibof a ++ x_in a ++ fut -> AInv A -> dict_ok (x_win A) -> nlen (pibof a) <= 20 ->
  iter_post a A fut (abody Partial a).
Proof.
  intros Hc Hi HI HD Hp. unfold abody.
  destruct (ahead Partial a) eqn:Eh.
  { (* the loop head breaks *)
    unfold ahead in Eh. destruct (ds_unpacked (x_ds a)) as [us|] eqn:Eu.
    - apply ip_size. unfold size_hit. rewrite Eu. exact Eh.
    - apply andb_prop in Eh. destruct Eh as [E1 E2].
      assert (Ei : x_in a = []) by (destruct (x_in a); [reflexivity|discriminate]).
      assert (Epb : pibof a = []) by (apply nlen_zero; apply N.eqb_eq; exact E2).
      apply ip_wait; try assumption.
      + rewrite Epb. cbn. lia.
      + unfold size_hit. rewrite Eu. reflexivity. }
  destruct (head_sync a A fut Hc Hi Eh) as [HhA Hsz].
  pose proof (AInv_bytes A HI) as HbA. rewrite Hi in HbA.
  apply bytes_ok_app in HbA. destruct HbA as [Hbp HbA]. apply bytes_ok_app in HbA. destruct HbA as [Hbi Hbf].
  assert (HlA : nlen (pibof a) + nlen (x_in a) + nlen fut < BIG).
  { destruct HI as [_ _ _ Hn _]. rewrite Hi, !nlen_app in Hn. lia. }
  destruct (N.ltb_spec 0 (nlen (ds_pib (x_ds a)))) as [Hpos|Hzero].
  - (* staged input present *)
    fold (pibof a) in Hpos. unfold apib, arpib. fold (pibof a).
    destruct (N.ltb_spec 20 (nlen (pibof a))) as [|_]; [lia|]. cbv zeta. cbn [x_ds set_pib ds_pib].
    set (n := 20 - nlen (pibof a)). set (pib' := pibof a ++ nfirstn n (x_in a)). set (in' := nskipn n (x_in a)).
    set (a2 := mkAst (set_pib (x_ds a) pib') (x_rc a) (x_win a) in').
    assert (Hsplit : pibof a ++ x_in a ++ fut = pib' ++ in' ++ fut).
    { unfold pib', in'. rewrite <- app_assoc. f_equal. rewrite app_assoc, nfirstn_nskipn. reflexivity. }
    assert (Hc2 : core_eq a2 A) by (destruct Hc as (Hd & Hr & Hw); repeat split; assumption).
    assert (Hlp : nlen pib' = nlen (pibof a) + N.min n (nlen (x_in a))) by (unfold pib'; rewrite nlen_app, IoLemmas.nlen_nfirstn; reflexivity).
    assert (Hli : nlen in' = nlen (x_in a) - n) by (unfold in'; apply nlen_nskipn).
    assert (Hbp' : bytes_ok pib') by (unfold pib'; apply bytes_ok_app; split; [exact Hbp|apply bytes_ok_firstn; exact Hbi]).
    assert (HIB : AInv (with_in a2 pib')) by (apply (AInv_sub A a2 pib' HI Hc2 Hbp'); unfold BIG; lia).
    assert (Hsz2 : size_hit (with_in a2 pib') = false) by exact Hsz.
    assert (Hstrict : pibof a <> [] -> nlen (pibof a) < 20 -> x_in a <> [] -> nlen in' < nlen (x_in a)).
    { intros _ H20 Hne. assert (0 < nlen (x_in a)) by (destruct (x_in a); [contradiction|rewrite nlen_cons; lia]). lia. }
    assert (Hreal : arf true (with_in a2 pib') = false ->
      iter_post a A fut
        match arun true (with_in a2 pib') with
        | (Done Continue, t) => Next (mkAst (set_pib (x_ds t) (x_in t)) (x_rc t) (x_win t) (x_in a2))
        | (Done Finished, t) => Break (Done tt, mkAst (set_pib (x_ds t) (x_in t)) (x_rc t) (x_win t) (x_in a2))
        | (Failed e, t) => Break (Failed e, mkAst (x_ds t) (x_rc a2) (x_win t) (x_in a2))
        | (Panicked p, t) => Break (Panicked p, mkAst (x_ds t) (x_rc a2) (x_win t) (x_in a2))
        end).
    { intros Hrf.
      assert (HiB : x_in A = x_in (with_in a2 pib') ++ (in' ++ fut)) by (rewrite Hi, Hsplit; reflexivity).
      pose proof (real_step (with_in a2 pib') A (in' ++ fut) Hc2 HiB HI HD HhA Hsz2 Hrf) as RP.
      destruct RP as [t A1 OB C1 I1 HI1 HD1 Hsuf Hpt | t Ft PM Hpt Alt | e t e' A' OB].
      - eapply ip_next; [exact OB| | |exact HI1|exact HD1| | | |].
        + destruct C1 as (Hd & Hr & Hw). repeat split; assumption.
        + unfold pibof. cbn [x_ds x_in set_pib ds_pib a2]. exact I1.
        + unfold pibof. cbn [x_ds set_pib ds_pib]. apply suffix_nlen in Hsuf. cbn [with_in x_in] in Hsuf. lia.
        + intros E. rewrite E in Hpos. cbn in Hpos. lia.
        + cbn [x_in a2]. lia.
        + exact Hstrict.
      - apply ip_mark.
        + destruct PM as [P1 P2 P3 P4 P5 P6]. constructor; try assumption.
          apply (AInv_gen (with_in t []) _ [] P5); [repeat split|reflexivity|reflexivity|apply Forall_nil|reflexivity].
        + unfold pibof. cbn [x_ds set_pib ds_pib]. exact Ft.
        + cbn [x_in a2]. exists (nfirstn n (x_in a)). symmetry. apply nfirstn_nskipn.
        + intros E. rewrite E in Hpos. cbn in Hpos. lia.
        + exact Hstrict.
        + cbn [x_in a2]. destruct Alt as [[Em X]|[Em X]]; [left|right]; (split; [exact Em|]).
          * destruct X as (A' & OB & (Hd & Hr & Hw)). exists A'. split; [exact OB|]. repeat split; assumption.
          * exact X.
      - eapply ip_fail. exact OB. }
    destruct (N.ltb_spec (nlen pib') 20) as [Hlt|Hge].
    + (* fewer than 20 bytes staged: dry run first *)
      destruct (atry_cases a2 pib' HIB) as [ET|[ET [st Est]]]; rewrite ET.
      * apply ip_wait; try assumption.
        -- rewrite Hi. exact Hsplit.
        -- cbn [a2 x_in]. apply nskipn_ge. lia.
      * exact (Hreal (dry_ok_then_fed _ _ Est)).
    + exact (Hreal (fed_with_20 _ HIB ltac:(cbn [with_in x_in]; lia))).
  - (* nothing staged: decode from the input itself *)
    assert (Epb : pibof a = []) by (apply nlen_zero; unfold pibof; lia).
    rewrite Epb in *. cbn [app] in *. unfold adirect.
    assert (HIB : AInv (with_in a (x_in a))) by (apply (AInv_sub A a (x_in a) HI Hc Hbi); lia).
    replace (with_in a (x_in a)) with a in HIB by (destruct a; reflexivity).
    assert (Hreal : arf true a = false ->
      iter_post a A fut
        match arun true a with
        | (Failed e, t) => Break (Failed e, t)
        | (Panicked p, t) => Break (Panicked p, t)
        | (Done Finished, t) => Break (Done tt, t)
        | (Done Continue, t) => Next t
        end).
    { intros Hrf.
      pose proof (real_step a A fut Hc Hi HI HD HhA Hsz Hrf) as RP.
      destruct RP as [t A1 OB C1 I1 HI1 HD1 Hsuf Hpt | t Ft PM Hpt Alt | e t e' A' OB].
      - assert (Ept : pibof t = []) by congruence.
        eapply ip_next; [exact OB|exact C1| |exact HI1|exact HD1| | | |].
        + rewrite Ept. exact I1.
        + rewrite Ept. cbn. lia.
        + intros _. exact Ept.
        + apply suffix_nlen. exact Hsuf.
        + intros X. contradiction.
      - assert (Ept : pibof t = []) by congruence.
        apply ip_mark; try assumption.
        + rewrite Ft. exists (x_in a). rewrite app_nil_r. reflexivity.
        + intros _. exact Ft.
        + intros X. contradiction.
        + rewrite Ft. cbn [app]. exact Alt.
      - eapply ip_fail. exact OB. }
    destruct (N.ltb_spec (nlen (x_in a)) 20) as [Hlt|Hge].
    + replace (with_in a (x_in a)) with a by (destruct a; reflexivity).
      assert (HIB' : AInv (with_in a (x_in a))) by (replace (with_in a (x_in a)) with a by (destruct a; reflexivity); exact HIB).
      destruct (atry_cases a (x_in a) HIB') as [ET|[ET [st Est]]]; rewrite ET.
      * unfold arpib. fold (pibof a). rewrite Epb. cbn [nlen length N.of_nat app]. change (20 <? 0) with false. cbv iota zeta.
        change (20 - 0) with 20.
        apply ip_wait.
        -- destruct Hc as (Hd & Hr & Hw). repeat split; assumption.
        -- unfold pibof. cbn [x_ds x_in set_pib ds_pib]. rewrite Hi.
           rewrite app_assoc. rewrite nfirstn_nskipn. reflexivity.
        -- cbn [x_in]. apply nskipn_ge. lia.
        -- unfold pibof. cbn [x_ds set_pib ds_pib]. rewrite IoLemmas.nlen_nfirstn. lia.
        -- exact Hsz.
      * replace (with_in a (x_in a)) with a in Est by (destruct a; reflexivity).
        apply Hreal. eapply dry_ok_then_fed. exact Est.
    + apply Hreal. apply fed_with_20; assumption.
Qed.
Print Assumptions partial_iter.
