(* C12 for the streaming decoder, relational part (goals A2 / A3).

   Two Streams that are driven by the same calls but own different sinks are
   compared.  The development is generic in a lock-step relation [Rk] on sinks and a
   "diverged" relation [Dk]:
     - as long as every Write::write_all of the first sink succeeds the two runs are
       in lock step: same verdicts, decoders equal, windows equal, sinks [Rk]-related;
     - the first write_all that fails on the first sink makes the current call return
       Failed EIo; the first stream drops its state, and from then on the sinks are
       [Dk]-related whatever the second run does ([Dk] is closed under extension of
       the second sink);
     - Write::flush may fail on the first sink alone (flag [flx]): that call returns
       Failed EIo but both streams go on in lock step.
   Nothing is assumed on the input, the options or the call sequence.
   Instances (Proofs/FaultStream.v): a faulty sink against a well-behaved one (A2),
   a short-writing sink against any other never-failing sink (A3).

   The layers up to process_mode follow Proofs/MemLimitRun.v (same proof structure,
   with "Failed EIo" instead of "Failed ELzma"); the Stream layers follow
   Proofs/MemLimitStream.v. *)
From LZ Require Import Base.Prelude Base.Prog Model.Io Model.Tables Model.LzBuffer Model.RangeDec
  Model.Lzma Model.Stream Proofs.ProgLemmas Proofs.IoLemmas Proofs.StreamLatch Proofs.StreamPrefix
  Proofs.FaultProp Proofs.NoPanicLoops Proofs.MemLimitRun Proofs.MemLimitStream.
Local Open Scope prog_scope.

(* ------------------------------------------------------------------ *)
(* generic: lock step until the first run fails with an I/O error      *)
(* ------------------------------------------------------------------ *)
Definition fsim {A S1 S2} (R D : S1 -> S2 -> Prop) (r1 : outcome A * S1) (r2 : outcome A * S2) : Prop :=
  (fst r1 = fst r2 /\ R (snd r1) (snd r2)) \/ (fst r1 = Failed EIo /\ D (snd r1) (snd r2)).

Lemma interp_fsim {E : Type -> Type} {S1 S2 A} (h1 : handler E S1) (h2 : handler E S2)
  (R D : S1 -> S2 -> Prop)
  (Hstep : forall X (o : E X) s1 s2, R s1 s2 -> fsim R D (hout (h1 X o s1)) (hout (h2 X o s2)))
  (HD : forall t1 X (o : E X) s2, D t1 s2 -> D t1 (hst (h2 X o s2))) :
  forall (p : prog E A) s1 s2, R s1 s2 -> fsim R D (interp h1 p s1) (interp h2 p s2).
Proof.
  induction p as [a|e|w|X o k IH]; intros s1 s2 HR; cbn [interp];
    try (left; split; [reflexivity|exact HR]).
  specialize (Hstep X o s1 s2 HR).
  destruct Hstep as [[Hf Hs]|[Hf Hs]].
  - destruct (h1 X o s1) as [x1 t1|e1 t1|w1 t1]; destruct (h2 X o s2) as [x2 t2|e2 t2|w2 t2];
      cbn [hout fst snd] in Hf, Hs; try discriminate Hf.
    + inversion Hf; subst. apply IH. exact Hs.
    + left. cbn [fst snd]. inversion Hf; subst. split; [reflexivity|assumption].
    + left. cbn [fst snd]. inversion Hf; subst. split; [reflexivity|assumption].
  - destruct (h1 X o s1) as [x1 t1|e1 t1|w1 t1]; cbn [hout fst snd] in Hf, Hs; try discriminate Hf.
    inversion Hf; subst e1. right.
    destruct (h2 X o s2) as [x2 t2|e2 t2|w2 t2]; cbn [hout fst snd] in *; (split; [reflexivity|]); try exact Hs.
    apply (ProgLemmas.interp_inv h2 (fun s => D t1 s)); [|exact Hs].
    intros X' o' s Hs'. pose proof (HD t1 X' o' s Hs') as H. destruct (h2 X' o' s); exact H.
Qed.

(* what Write::flush may do on two related sinks *)
Definition flush_rel (Rk Dk : snk -> snk -> Prop) (flx : Prop) (k1 k2 : snk) : Prop :=
  match snk_flush k1, snk_flush k2 with
  | HOk _ k1', HOk _ k2' => Rk k1' k2'
  | HErr e _, HOk _ k2' => flx /\ e = EIo /\ Rk k1 k2' /\ Dk k1 k2'
  | HErr e1 _, HErr e2 _ => e1 = e2
  | _, _ => False
  end.

(* results of the calls of two runs: equal, except that a flush may fail in the first run alone *)
Definition cres_rel (flx : Prop) (c1 c2 : cres) : Prop :=
  c1 = c2 \/ (flx /\ c1 = RF (Failed EIo) /\ c2 = RF (Done tt)).

Lemma circ_finish_unfold c :
  circ_finish c =
  match (if 0 <? c_cursor c then snk_run (write_all (map_slice (c_buf c) 0 (c_cursor c))) (c_snk c)
         else (Done tt, c_snk c)) with
  | (Done _, k) => hout (snk_flush k)
  | (Failed e, k) => (Failed e, k)
  | (Panicked p, k) => (Panicked p, k)
  end.
Proof.
  unfold circ_finish, snk_run, run_io. rewrite interp_bind.
  destruct (0 <? c_cursor c).
  - destruct (interp io_h (write_all _) _) as [[u|e|p] w]; try reflexivity.
    rewrite interp_call. cbn [io_h]. destruct (snk_flush (i_snk w)); reflexivity.
  - cbn [interp]. rewrite interp_call. cbn [io_h i_snk]. destruct (snk_flush (c_snk c)); reflexivity.
Qed.

Section Rel.
Variables Rk Dk : snk -> snk -> Prop.
Variable flx : Prop.
(* the only way in which the decoder touches its sink before finish: write_all of a full lap *)
Hypothesis H_wa : forall bs k1 k2, Rk k1 k2 ->
  fsim Rk Dk (snk_run (write_all bs) k1) (snk_run (write_all bs) k2).
Hypothesis Dk_ext : forall k1 k2 k2', Dk k1 k2 -> ext k2 k2' -> Dk k1 k2'.
Hypothesis H_fl : forall k1 k2, Rk k1 k2 -> flush_rel Rk Dk flx k1 k2.

(* ------------------------------------------------------------------ *)
(* 1. the circular buffer                                               *)
(* ------------------------------------------------------------------ *)
Definition Rc (c1 c2 : circ) : Prop :=
  c_buf c1 = c_buf c2 /\ c_blen c1 = c_blen c2 /\ c_dict c1 = c_dict c2 /\ c_mem c1 = c_mem c2 /\
  c_cursor c1 = c_cursor c2 /\ c_len c1 = c_len c2 /\ Rk (c_snk c1) (c_snk c2).
Definition Dc (c1 c2 : circ) : Prop := Dk (c_snk c1) (c_snk c2).

Ltac rc_destruct b1 b2 H :=
  destruct b1 as [buf1 blen1 dict1 mem1 cur1 len1 k1]; destruct b2 as [buf2 blen2 dict2 mem2 cur2 len2 k2];
  unfold Rc in H; cbn [c_buf c_blen c_dict c_mem c_cursor c_len c_snk] in H;
  destruct H as (? & ? & ? & ? & ? & ? & ?); subst buf1 blen1 dict1 mem1 cur1 len1.
Ltac rc_fin := unfold Rc; cbn [c_buf c_blen c_dict c_mem c_cursor c_len c_snk]; repeat split; try reflexivity; assumption.

Lemma circ_get_rel b1 b2 i : Rc b1 b2 -> circ_get b1 i = circ_get b2 i.
Proof. intros H. rc_destruct b1 b2 H. reflexivity. Qed.

Lemma circ_set_rel b1 b2 i v : Rc b1 b2 ->
  fst (circ_set b1 i v) = fst (circ_set b2 i v) /\ Rc (snd (circ_set b1 i v)) (snd (circ_set b2 i v)).
Proof.
  intros H. rc_destruct b1 b2 H. unfold circ_set. cbn [c_buf c_blen c_dict c_mem c_cursor c_len c_snk].
  destruct (blen2 <? i + 1); [destruct (i + 1 <=? mem2)|]; cbn [fst snd]; (split; [reflexivity|]); rc_fin.
Qed.

Lemma circ_last_or_rel b1 b2 d : Rc b1 b2 ->
  fst (circ_last_or b1 d) = fst (circ_last_or b2 d) /\ Rc (snd (circ_last_or b1 d)) (snd (circ_last_or b2 d)).
Proof.
  intros H. rewrite !circ_last_or_st. split; [|exact H].
  unfold circ_last_or. rewrite (circ_get_rel b1 b2 _ H).
  destruct H as (_ & _ & -> & _ & -> & -> & _).
  destruct (c_len b2 =? 0); [reflexivity|]. destruct (c_dict b2 =? 0); reflexivity.
Qed.

Lemma circ_last_n_rel b1 b2 d : Rc b1 b2 ->
  fst (circ_last_n b1 d) = fst (circ_last_n b2 d) /\ Rc (snd (circ_last_n b1 d)) (snd (circ_last_n b2 d)).
Proof.
  intros H. rewrite !circ_last_n_st. split; [|exact H].
  unfold circ_last_n. rewrite (circ_get_rel b1 b2 _ H).
  destruct H as (_ & _ & -> & _ & -> & -> & _).
  destruct (c_dict b2 <? d); [reflexivity|]. destruct (c_len b2 <? d); [reflexivity|].
  destruct (c_dict b2 =? 0); reflexivity.
Qed.

Lemma lit_tail_rel b1 b2 : Rc b1 b2 -> fsim Rc Dc (lit_tail b1) (lit_tail b2).
Proof.
  intros H. rc_destruct b1 b2 H. unfold lit_tail. cbn [c_buf c_blen c_dict c_mem c_cursor c_len c_snk].
  destruct (cur2 + 1 =? dict2).
  - pose proof (H_wa (map_slice buf2 0 blen2) k1 k2 ltac:(assumption)) as [[Hf Hr]|[Hf Hd]].
    + destruct (snk_run _ k1) as [[[]|e|p] k1']; destruct (snk_run _ k2) as [[[]|e2|p2] k2'];
        cbn [fst snd] in Hf, Hr; try discriminate Hf; inversion Hf; subst;
        left; cbn [fst snd]; (split; [reflexivity|]); rc_fin.
    + destruct (snk_run _ k1) as [[[]|e|p] k1']; cbn [fst snd] in Hf, Hd; try discriminate Hf.
      inversion Hf; subst e. right. cbn [fst snd]. split; [reflexivity|].
      destruct (snk_run _ k2) as [[[]|e2|p2] k2']; cbn [snd] in *; unfold Dc; cbn [c_snk]; exact Hd.
  - left. cbn [fst snd]. split; [reflexivity|]. rc_fin.
Qed.

Lemma Dc_literal b1 b2 lit : Dc b1 b2 -> Dc b1 (snd (circ_append_literal b2 lit)).
Proof. intros H. eapply Dk_ext; [exact H|apply circ_append_literal_ext]. Qed.
Lemma Dc_lit_tail b1 b2 : Dc b1 b2 -> Dc b1 (snd (lit_tail b2)).
Proof. intros H. eapply Dk_ext; [exact H|apply lit_tail_ext]. Qed.
Lemma Dc_lz_loop n b1 b2 off : Dc b1 b2 -> Dc b1 (snd (circ_lz_loop n b2 off)).
Proof. intros H. eapply Dk_ext; [exact H|apply circ_lz_loop_ext]. Qed.

Lemma circ_append_literal_relF b1 b2 lit : Rc b1 b2 ->
  fsim Rc Dc (circ_append_literal b1 lit) (circ_append_literal b2 lit).
Proof.
  intros H. rewrite !circ_append_literal_split.
  assert (Ec : c_cursor b1 = c_cursor b2) by (destruct H as (_ & _ & _ & _ & E & _); exact E).
  rewrite Ec. pose proof (circ_set_rel b1 b2 (c_cursor b2) lit H) as [Hf Hr].
  destruct (circ_set b1 (c_cursor b2) lit) as [[[]|e|p] c1]; destruct (circ_set b2 (c_cursor b2) lit) as [[[]|e2|p2] c2];
    cbn [fst snd] in Hf, Hr; try discriminate Hf.
  - apply lit_tail_rel. exact Hr.
  - left. cbn [fst snd]. split; assumption.
  - left. cbn [fst snd]. split; assumption.
Qed.

Lemma circ_lz_loop_relF n : forall b1 b2 off, Rc b1 b2 ->
  fsim Rc Dc (circ_lz_loop n b1 off) (circ_lz_loop n b2 off).
Proof.
  induction n as [|n IH]; intros b1 b2 off H; cbn [circ_lz_loop].
  - left. cbn [fst snd]. split; [reflexivity|exact H].
  - rewrite (circ_get_rel b1 b2 off H).
    pose proof (circ_append_literal_relF b1 b2 (circ_get b2 off) H) as [[Hf Hr]|[Hf Hd]].
    + destruct (circ_append_literal b1 (circ_get b2 off)) as [[[]|e|p] c1];
        destruct (circ_append_literal b2 (circ_get b2 off)) as [[[]|e2|p2] c2];
        cbn [fst snd] in Hf, Hr; try discriminate Hf.
      * assert (Ed : c_dict c1 = c_dict c2) by (destruct Hr as (_ & _ & E & _); exact E).
        rewrite Ed. apply IH. exact Hr.
      * left. cbn [fst snd]. split; assumption.
      * left. cbn [fst snd]. split; assumption.
    + destruct (circ_append_literal b1 (circ_get b2 off)) as [[[]|e|p] c1]; cbn [fst snd] in Hf, Hd; try discriminate Hf.
      right. cbn [fst snd]. split; [exact Hf|].
      destruct (circ_append_literal b2 (circ_get b2 off)) as [[[]|e2|p2] c2]; cbn [snd] in *; try exact Hd.
      apply Dc_lz_loop. exact Hd.
Qed.

Lemma circ_append_lz_relF b1 b2 len dist : Rc b1 b2 ->
  fsim Rc Dc (circ_append_lz b1 len dist) (circ_append_lz b2 len dist).
Proof.
  intros H. unfold circ_append_lz.
  assert (E : c_dict b1 = c_dict b2 /\ c_len b1 = c_len b2 /\ c_cursor b1 = c_cursor b2)
    by (destruct H as (_ & _ & E1 & _ & E2 & E3 & _); auto).
  destruct E as (-> & -> & ->).
  destruct (c_dict b2 <? dist); [left; cbn [fst snd]; split; [reflexivity|exact H]|].
  destruct (c_len b2 <? dist); [left; cbn [fst snd]; split; [reflexivity|exact H]|].
  destruct (c_dict b2 =? 0); [left; cbn [fst snd]; split; [reflexivity|exact H]|].
  apply circ_lz_loop_relF. exact H.
Qed.

(* finish: flush the partial lap, then flush the sink *)
Lemma circ_finish_relF c1 c2 : Rc c1 c2 -> fsim Rk Dk (circ_finish c1) (circ_finish c2).
Proof.
  intros H. rewrite !circ_finish_unfold. rc_destruct c1 c2 H. cbn [c_buf c_cursor c_snk].
  assert (FL : forall k1' k2', Rk k1' k2' -> fsim Rk Dk (hout (snk_flush k1')) (hout (snk_flush k2'))).
  { intros k1' k2' HR. pose proof (H_fl k1' k2' HR) as F. unfold flush_rel in F.
    destruct (snk_flush k1') as [u1 t1|e1 t1|p1 t1] eqn:E1; destruct (snk_flush k2') as [u2 t2|e2 t2|p2 t2] eqn:E2;
      try contradiction; cbn [hout].
    - left. cbn [fst snd]. destruct u1, u2. split; [reflexivity|exact F].
    - destruct F as (_ & -> & _ & F). apply snk_flush_err in E1. subst t1.
      right. cbn [fst snd]. split; [reflexivity|exact F].
    - subst e2. apply snk_flush_err in E1. apply snk_flush_err in E2. subst t1 t2.
      left. cbn [fst snd]. split; [reflexivity|exact HR]. }
  destruct (0 <? cur2); [|apply FL; assumption].
  pose proof (H_wa (map_slice buf2 0 cur2) k1 k2 ltac:(assumption)) as [[Hf Hr]|[Hf Hd]].
  - destruct (snk_run _ k1) as [[[]|e|p] k1']; destruct (snk_run _ k2) as [[[]|e2|p2] k2'];
      cbn [fst snd] in Hf, Hr; try discriminate Hf.
    + apply FL. exact Hr.
    + left. cbn [fst snd]. split; assumption.
    + left. cbn [fst snd]. split; assumption.
  - destruct (snk_run _ k1) as [[[]|e|p] k1']; cbn [fst snd] in Hf, Hd; try discriminate Hf.
    right. cbn [fst snd]. split; [exact Hf|].
    destruct (snk_run _ k2) as [[[]|e2|p2] k2']; cbn [snd]; try exact Hd.
    eapply Dk_ext; [exact Hd|]. rewrite hout_hst. apply snk_flush_ext.
Qed.

(* ------------------------------------------------------------------ *)
(* 2. the window, the decoding handler, one symbol, the loop            *)
(* ------------------------------------------------------------------ *)
(* the Stream decodes into a circular buffer *)
Definition Rw (w1 w2 : win) : Prop :=
  match w1, w2 with WCirc b1, WCirc b2 => Rc b1 b2 | _, _ => False end.
Definition Dw (w1 w2 : win) : Prop := Dk (win_snk w1) (win_snk w2).

Lemma Rw_len w1 w2 : Rw w1 w2 -> win_len w1 = win_len w2.
Proof.
  destruct w1 as [b1|a1], w2 as [b2|a2]; cbn [Rw win_len]; try contradiction.
  intros (_ & _ & _ & _ & _ & E & _). exact E.
Qed.

Lemma lift_c_fsim {A} (r1 r2 : outcome A * circ) : fsim Rc Dc r1 r2 -> fsim Rw Dw (lift_c r1) (lift_c r2).
Proof.
  intros [[Hf Hr]|[Hf Hd]]; [left|right]; unfold lift_c; cbn [fst snd]; (split; [exact Hf|]).
  - exact Hr.
  - exact Hd.
Qed.

Lemma win_last_or_simF w1 w2 d : Rw w1 w2 ->
  fst (win_last_or w1 d) = fst (win_last_or w2 d) /\ Rw (snd (win_last_or w1 d)) (snd (win_last_or w2 d)).
Proof.
  destruct w1 as [b1|a1], w2 as [b2|a2]; cbn [Rw]; try contradiction.
  intros H. cbn [win_last_or lift_c fst snd Rw]. apply circ_last_or_rel. exact H.
Qed.
Lemma win_last_n_simF w1 w2 d : Rw w1 w2 ->
  fst (win_last_n w1 d) = fst (win_last_n w2 d) /\ Rw (snd (win_last_n w1 d)) (snd (win_last_n w2 d)).
Proof.
  destruct w1 as [b1|a1], w2 as [b2|a2]; cbn [Rw]; try contradiction.
  intros H. cbn [win_last_n lift_c fst snd Rw]. apply circ_last_n_rel. exact H.
Qed.
Lemma win_append_literal_simF w1 w2 b : Rw w1 w2 ->
  fsim Rw Dw (win_append_literal w1 b) (win_append_literal w2 b).
Proof.
  destruct w1 as [b1|a1], w2 as [b2|a2]; cbn [Rw]; try contradiction.
  intros H. cbn [win_append_literal]. apply lift_c_fsim, circ_append_literal_relF. exact H.
Qed.
Lemma win_append_lz_simF w1 w2 len dist : Rw w1 w2 ->
  fsim Rw Dw (win_append_lz w1 len dist) (win_append_lz w2 len dist).
Proof.
  destruct w1 as [b1|a1], w2 as [b2|a2]; cbn [Rw]; try contradiction.
  intros H. cbn [win_append_lz]. apply lift_c_fsim, circ_append_lz_relF. exact H.
Qed.

(* once diverged, always diverged: a window predicate in the sense of StreamPrefix.WinPred *)
Definition wD (k1 : snk) (w : win) : Prop := Dk k1 (win_snk w).
Lemma wD_lit k1 w b : wD k1 w ->
  keep (wD k1) true (fst (win_append_literal w b)) (snd (win_append_literal w b)).
Proof.
  intros H _. eapply Dk_ext; [exact H|].
  apply (win_append_literal_rel ext ext_refl ext_trans snk_write_ext snk_flush_ext).
Qed.
Lemma wD_lz k1 w len dist : wD k1 w ->
  keep (wD k1) true (fst (win_append_lz w len dist)) (snd (win_append_lz w len dist)).
Proof.
  intros H _. eapply Dk_ext; [exact H|].
  apply (win_append_lz_rel ext ext_refl ext_trans snk_write_ext snk_flush_ext).
Qed.

(* ---- dec_h ---- *)
Definition dwR (x1 x2 : dw) : Prop :=
  d_tabs x1 = d_tabs x2 /\ d_rc x1 = d_rc x2 /\ d_src x1 = d_src x2 /\ Rw (d_win x1) (d_win x2).
Definition dwD (x1 x2 : dw) : Prop := Dw (d_win x1) (d_win x2).


Lemma lift_win_syncF {X} x1 x2 (r1 r2 : outcome X * win) : dwR x1 x2 ->
  fst r1 = fst r2 /\ Rw (snd r1) (snd r2) ->
  fst (hout (lift_win x1 r1)) = fst (hout (lift_win x2 r2)) /\ dwR (snd (hout (lift_win x1 r1))) (snd (hout (lift_win x2 r2))).
Proof.
  intros (Et & Er & Es & _) [Hf Hr].
  destruct r1 as [[a1|e1|p1] v1]; destruct r2 as [[a2|e2|p2] v2]; cbn [fst snd] in Hf, Hr; try discriminate Hf;
    inversion Hf; subst; cbn [lift_win hout fst snd]; (split; [reflexivity|]);
    unfold dwR; cbn [d_tabs d_rc d_src d_win]; auto.
Qed.

Lemma lift_win_osimF {X} x1 x2 (r1 r2 : outcome X * win) : dwR x1 x2 ->
  fsim Rw Dw r1 r2 ->
  fsim dwR dwD (hout (lift_win x1 r1)) (hout (lift_win x2 r2)).
Proof.
  intros HR [Hs|[Hf Hd]].
  - left. apply lift_win_syncF; assumption.
  - right. destruct r1 as [[a1|e1|p1] v1]; cbn [fst snd] in Hf, Hd; try discriminate Hf. inversion Hf; subst e1.
    cbn [lift_win hout fst snd]. split; [reflexivity|].
    destruct r2 as [[a2|e2|p2] v2]; cbn [lift_win hout snd] in *; unfold dwD; cbn [d_win]; exact Hd.
Qed.

(* operations other than the two appends keep the two runs in lock step *)
Lemma dec_h_syncF X (o : decE X) x1 x2 : is_app o = false -> dwR x1 x2 ->
  fst (hout (dec_h X o x1)) = fst (hout (dec_h X o x2)) /\ dwR (snd (hout (dec_h X o x1))) (snd (hout (dec_h X o x2))).
Proof.
  intros Ha HR. pose proof HR as (Et & Er & Es & Hw).
  destruct o; cbn [is_app] in Ha; try discriminate Ha; cbn [dec_h].
  - rewrite Et, Er, Es. destruct (cell_get (d_tabs x2) c) as [prob|]; [|cbn [hout fst snd]; split; [reflexivity|exact HR]].
    destruct (src_run (rc_decode_bit (d_rc x2) prob upd) (d_src x2)) as [[[[b p'] r']|e|p] s];
      cbn [hout fst snd]; (split; [reflexivity|]); unfold dwR; cbn [d_tabs d_rc d_src d_win]; auto.
  - unfold lift_src. rewrite Er, Es. destruct (src_run (rc_get count (d_rc x2)) (d_src x2)) as [[[x r']|e|p] s];
      cbn [hout fst snd]; (split; [reflexivity|]); unfold dwR; cbn [d_tabs d_rc d_src d_win]; auto.
  - rewrite Er, Es. destruct (src_run (rc_is_finished_ok (d_rc x2)) (d_src x2)) as [[b|e|p] s];
      cbn [hout fst snd]; (split; [reflexivity|]); unfold dwR; cbn [d_tabs d_rc d_src d_win]; auto.
  - cbn [hout fst snd]. split; [|exact HR]. f_equal. eapply Rw_len; exact Hw.
  - apply lift_win_syncF; [exact HR|]. apply win_last_or_simF. exact Hw.
  - apply lift_win_syncF; [exact HR|]. apply win_last_n_simF. exact Hw.
Qed.

Lemma dec_h_simF X (o : decE X) x1 x2 : dwR x1 x2 ->
  fsim dwR dwD (hout (dec_h X o x1)) (hout (dec_h X o x2)).
Proof.
  intros HR. destruct (is_app o) eqn:Ea; [|left; apply dec_h_syncF; assumption].
  pose proof HR as (_ & _ & _ & Hw).
  destruct o; cbn [is_app] in Ea; try discriminate Ea; cbn [dec_h].
  - apply lift_win_osimF; [exact HR|]. apply win_append_literal_simF. exact Hw.
  - apply lift_win_osimF; [exact HR|]. apply win_append_lz_simF. exact Hw.
Qed.

Lemma dec_h_divF t1 X (o : decE X) x2 : dwD t1 x2 -> dwD t1 (hst (dec_h X o x2)).
Proof.
  intros H. pose proof (dec_h_keep (wD (win_snk (d_win t1))) true (wD_lit _) (wD_lz _) X o x2 H) as K.
  destruct (dec_h X o x2); cbn [hkeep hst] in *; [exact K|apply K; reflexivity|apply K; reflexivity].
Qed.

Theorem interp_dec_simF {A} (p : dprog A) x1 x2 : dwR x1 x2 ->
  fsim dwR dwD (interp dec_h p x1) (interp dec_h p x2).
Proof. apply interp_fsim; [apply dec_h_simF|apply dec_h_divF]. Qed.


Theorem interp_noapp_syncF {A} (p : dprog A) : noapp p -> forall x1 x2, dwR x1 x2 ->
  fst (interp dec_h p x1) = fst (interp dec_h p x2) /\ dwR (snd (interp dec_h p x1)) (snd (interp dec_h p x2)).
Proof.
  induction p as [a|e|q|X o k IH]; intros Hn x1 x2 HR; cbn [interp fst snd]; try (split; [reflexivity|exact HR]).
  destruct Hn as [Ho Hk]. pose proof (dec_h_syncF X o x1 x2 Ho HR) as [Hf Hs].
  destruct (dec_h X o x1) as [a1 t1|e1 t1|p1 t1]; destruct (dec_h X o x2) as [a2 t2|e2 t2|p2 t2];
    cbn [hout fst snd] in Hf, Hs; try discriminate Hf; inversion Hf; subst.
  - apply IH; [apply Hk|exact Hs].
  - cbn [fst snd]. split; [reflexivity|exact Hs].
  - cbn [fst snd]. split; [reflexivity|exact Hs].
Qed.

(* ---- run_sym ---- *)
Definition lwR (w1 w2 : lw) : Prop :=
  l_ds w1 = l_ds w2 /\ l_rc w1 = l_rc w2 /\ l_src w1 = l_src w2 /\ Rw (l_win w1) (l_win w2).
Definition lwD (w1 w2 : lw) : Prop := Dw (l_win w1) (l_win w2).
Notation lsimF := (fsim lwR lwD).

Lemma run_sym_post_syncF d (r1 r2 : outcome (status * sym_st) * dw) :
  fst r1 = fst r2 /\ dwR (snd r1) (snd r2) ->
  let post (r : outcome (status * sym_st) * dw) : outcome status * lw :=
    match r with
    | (Done (st, y), x) =>
        (Done st, mkLw (mkDstate (ds_pib d) (ds_props d) (ds_unpacked d) (d_tabs x) (y_state y) (y_rep y))
                       (d_rc x) (d_src x) (d_win x))
    | (Failed e, x) =>
        (Failed e, mkLw (mkDstate (ds_pib d) (ds_props d) (ds_unpacked d) (d_tabs x) (ds_state d) (ds_rep d))
                        (d_rc x) (d_src x) (d_win x))
    | (Panicked p, x) =>
        (Panicked p, mkLw (mkDstate (ds_pib d) (ds_props d) (ds_unpacked d) (d_tabs x) (ds_state d) (ds_rep d))
                          (d_rc x) (d_src x) (d_win x))
    end in
  fst (post r1) = fst (post r2) /\ lwR (snd (post r1)) (snd (post r2)).
Proof.
  intros [Hf (Et & Er & Es & Hw)] post. subst post.
  destruct r1 as [[[st1 y1]|e1|p1] x1]; destruct r2 as [[[st2 y2]|e2|p2] x2]; cbn [fst snd] in *; try discriminate Hf;
    inversion Hf; subst; (split; [reflexivity|]); unfold lwR; cbn [l_ds l_rc l_src l_win]; rewrite Et, Er, Es; auto.
Qed.

Theorem run_sym_simF upd w1 w2 : lwR w1 w2 -> lsimF (run_sym upd w1) (run_sym upd w2).
Proof.
  intros (Ed & Er & Es & Hw). unfold run_sym. rewrite Ed, Er, Es.
  set (d := l_ds w2).
  set (p := process_next_inner (ds_props d) (mkSym (ds_state d) (ds_rep d)) upd).
  assert (HR : dwR (mkDw (ds_tabs d) (l_rc w2) (l_src w2) (l_win w1)) (mkDw (ds_tabs d) (l_rc w2) (l_src w2) (l_win w2)))
    by (unfold dwR; cbn [d_tabs d_rc d_src d_win]; auto).
  pose proof (interp_dec_simF p _ _ HR) as [Hs|[Hf Hd]].
  - left. exact (run_sym_post_syncF d _ _ Hs).
  - right. destruct (interp dec_h p (mkDw (ds_tabs d) (l_rc w2) (l_src w2) (l_win w1))) as [[[st1 y1]|e1|p1] x1];
      cbn [fst snd] in Hf, Hd; try discriminate Hf. inversion Hf; subst e1.
    cbn [fst snd]. split; [reflexivity|].
    destruct (interp dec_h p (mkDw (ds_tabs d) (l_rc w2) (l_src w2) (l_win w2))) as [[[st2 y2]|e2|p2] x2];
      cbn [snd] in *; unfold lwD; cbn [l_win]; exact Hd.
Qed.

(* the dry run never appends: always lock step *)
Theorem run_sym_dry_syncF w1 w2 : lwR w1 w2 ->
  fst (run_sym false w1) = fst (run_sym false w2) /\ lwR (snd (run_sym false w1)) (snd (run_sym false w2)).
Proof.
  intros (Ed & Er & Es & Hw). unfold run_sym. rewrite Ed, Er, Es.
  set (d := l_ds w2).
  set (p := process_next_inner (ds_props d) (mkSym (ds_state d) (ds_rep d)) false).
  assert (HR : dwR (mkDw (ds_tabs d) (l_rc w2) (l_src w2) (l_win w1)) (mkDw (ds_tabs d) (l_rc w2) (l_src w2) (l_win w2)))
    by (unfold dwR; cbn [d_tabs d_rc d_src d_win]; auto).
  exact (run_sym_post_syncF d _ _ (interp_noapp_syncF p (noapp_process_next_inner _ _) _ _ HR)).
Qed.

Lemma try_process_next_syncF w1 w2 buf : lwR w1 w2 -> try_process_next w1 buf = try_process_next w2 buf.
Proof.
  intros (Ed & Er & Es & Hw). unfold try_process_next.
  assert (HR : lwR (mkLw (l_ds w1) (l_rc w1) (cursor_of buf) (l_win w1)) (mkLw (l_ds w2) (l_rc w2) (cursor_of buf) (l_win w2)))
    by (unfold lwR; cbn [l_ds l_rc l_src l_win]; auto).
  pose proof (run_sym_dry_syncF _ _ HR) as [Hf _].
  destruct (run_sym false (mkLw (l_ds w1) _ _ _)) as [[s1|e1|p1] t1]; destruct (run_sym false (mkLw (l_ds w2) _ _ _)) as [[s2|e2|p2] t2];
    cbn [fst] in Hf; try discriminate Hf; inversion Hf; reflexivity.
Qed.

Lemma read_partial_input_buf_syncF w1 w2 : lwR w1 w2 ->
  fst (read_partial_input_buf w1) = fst (read_partial_input_buf w2) /\
  lwR (snd (read_partial_input_buf w1)) (snd (read_partial_input_buf w2)).
Proof.
  intros HR. pose proof HR as (Ed & Er & Es & Hw). unfold read_partial_input_buf. rewrite Ed, Es.
  destruct (MAX_REQUIRED_INPUT <? nlen (ds_pib (l_ds w2))); [cbn [fst snd]; split; [reflexivity|exact HR]|].
  destruct (src_run _ _) as [[got|e|p] s]; cbn [fst snd]; (split; [reflexivity|]);
    unfold lwR; cbn [l_ds l_rc l_src l_win]; rewrite ?Ed; auto.
Qed.

(* ---- pm_body ---- *)
Lemma pm_head_syncF mode w1 w2 : lwR w1 w2 ->
  fst (pm_head mode w1) = fst (pm_head mode w2) /\ lwR (snd (pm_head mode w1)) (snd (pm_head mode w2)).
Proof.
  intros HR. pose proof HR as (Ed & Er & Es & Hw). unfold pm_head. rewrite Ed, Er, Es.
  destruct (ds_unpacked (l_ds w2)) as [us|].
  - cbn [fst snd]. rewrite (Rw_len _ _ Hw). split; [reflexivity|exact HR].
  - destruct mode.
    + destruct (src_run is_eof (l_src w2)) as [[b|e|p] s]; cbn [fst snd]; (split; [reflexivity|]);
        unfold lwR; cbn [l_ds l_rc l_src l_win]; auto.
    + destruct (rep0 (ds_rep (l_ds w2)) =? 4294967295); [|cbn [fst snd]; split; [reflexivity|exact HR]].
      destruct (src_run (rc_is_finished_ok (l_rc w2)) (l_src w2)) as [[b|e|p] s]; cbn [fst snd]; (split; [reflexivity|]);
        unfold lwR; cbn [l_ds l_rc l_src l_win]; auto.
Qed.

(* how two loop bodies are related: lock step, or the first one stops with EIo *)
Definition pm_simF : step lw pm_result -> step lw pm_result -> Prop :=
  step_sim (lwR) (lsimF) (fun r1 t2 => fst r1 = Failed EIo /\ lwD (snd r1) t2).

Lemma pm_sim_break_syncF (r : outcome unit) w1 w2 : lwR w1 w2 -> pm_simF (Break (r, w1)) (Break (r, w2)).
Proof. intros H. left. split; [reflexivity|exact H]. Qed.

Lemma pm_tail_simF mode w1 w2 : lwR w1 w2 -> pm_simF (pm_tail mode w1) (pm_tail mode w2).
Proof.
  intros HR. pose proof HR as (Ed & Er & Es & Hw). unfold pm_tail. rewrite Ed.
  destruct (0 <? nlen (ds_pib (l_ds w2))).
  - (* through the partial input buffer *)
    pose proof (read_partial_input_buf_syncF w1 w2 HR) as [Hf H2].
    destruct (read_partial_input_buf w1) as [[[]|e|p] v1]; destruct (read_partial_input_buf w2) as [[[]|e2|p2] v2];
      cbn [fst snd] in Hf, H2; try discriminate Hf; try (inversion Hf; subst; apply pm_sim_break_syncF; exact H2).
    cbv zeta. pose proof H2 as (Ed2 & Er2 & Es2 & Hw2). rewrite Ed2.
    assert (TAIL : pm_simF
      (match run_sym true (mkLw (l_ds v2) (l_rc v1) (cursor_of (ds_pib (l_ds v2))) (l_win v1)) with
       | (Failed e, t) => Break (Failed e, mkLw (l_ds t) (l_rc v1) (l_src v1) (l_win t))
       | (Panicked p, t) => Break (Panicked p, mkLw (l_ds t) (l_rc v1) (l_src v1) (l_win t))
       | (Done res, t) =>
           if nlen (ds_pib (l_ds v2)) <? s_pos (l_src t) then Break (Panicked (POverflow 40), v1) else
           match res with
           | Finished => Break (Done tt, mkLw (set_pib (l_ds t) (nskipn (s_pos (l_src t)) (ds_pib (l_ds v2)))) (l_rc t) (l_src v1) (l_win t))
           | Continue => Next (mkLw (set_pib (l_ds t) (nskipn (s_pos (l_src t)) (ds_pib (l_ds v2)))) (l_rc t) (l_src v1) (l_win t))
           end
       end)
      (match run_sym true (mkLw (l_ds v2) (l_rc v2) (cursor_of (ds_pib (l_ds v2))) (l_win v2)) with
       | (Failed e, t) => Break (Failed e, mkLw (l_ds t) (l_rc v2) (l_src v2) (l_win t))
       | (Panicked p, t) => Break (Panicked p, mkLw (l_ds t) (l_rc v2) (l_src v2) (l_win t))
       | (Done res, t) =>
           if nlen (ds_pib (l_ds v2)) <? s_pos (l_src t) then Break (Panicked (POverflow 40), v2) else
           match res with
           | Finished => Break (Done tt, mkLw (set_pib (l_ds t) (nskipn (s_pos (l_src t)) (ds_pib (l_ds v2)))) (l_rc t) (l_src v2) (l_win t))
           | Continue => Next (mkLw (set_pib (l_ds t) (nskipn (s_pos (l_src t)) (ds_pib (l_ds v2)))) (l_rc t) (l_src v2) (l_win t))
           end
       end)).
    { assert (HR3 : lwR (mkLw (l_ds v2) (l_rc v1) (cursor_of (ds_pib (l_ds v2))) (l_win v1))
                             (mkLw (l_ds v2) (l_rc v2) (cursor_of (ds_pib (l_ds v2))) (l_win v2)))
        by (unfold lwR; cbn [l_ds l_rc l_src l_win]; auto).
      pose proof (run_sym_cursor_pos true (l_ds v2) (l_rc v1) (l_win v1) (ds_pib (l_ds v2))) as P1.
      pose proof (run_sym_cursor_pos true (l_ds v2) (l_rc v2) (l_win v2) (ds_pib (l_ds v2))) as P2.
      pose proof (run_sym_simF true _ _ HR3) as [[Hf3 (Ed3 & Er3 & Es3 & Hw3)]|[Hf3 Hd3]].
      - destruct (run_sym true (mkLw (l_ds v2) (l_rc v1) _ _)) as [[res1|e1|p1] t1];
          destruct (run_sym true (mkLw (l_ds v2) (l_rc v2) _ _)) as [[res2|e2|p2] t2];
          cbn [fst snd] in *; try discriminate Hf3; inversion Hf3; subst.
        + rewrite Es3. destruct (_ <? _); [apply pm_sim_break_syncF; exact H2|].
          rewrite Ed3, Er3, Es2.
          destruct res2; [|apply pm_sim_break_syncF]; unfold pm_simF, step_sim, lwR; cbn [l_ds l_rc l_src l_win]; auto.
        + apply pm_sim_break_syncF. unfold lwR; cbn [l_ds l_rc l_src l_win]; auto.
        + apply pm_sim_break_syncF. unfold lwR; cbn [l_ds l_rc l_src l_win]; auto.
      - destruct (run_sym true (mkLw (l_ds v2) (l_rc v1) _ _)) as [[res1|e1|p1] t1]; cbn [fst snd] in *; try discriminate Hf3.
        inversion Hf3; subst e1.
        destruct (run_sym true (mkLw (l_ds v2) (l_rc v2) _ _)) as [[res2|e2|p2] t2]; cbn [snd] in *.
        + destruct (N.ltb_spec (nlen (ds_pib (l_ds v2))) (s_pos (l_src t2))) as [C|_]; [lia|].
          destruct res2; unfold pm_simF, step_sim; [|right]; cbn [fst snd]; (split; [reflexivity|]);
              unfold lwD; cbn [l_win]; exact Hd3.
        + unfold pm_simF, step_sim. right. cbn [fst snd]. split; [reflexivity|]. unfold lwD; cbn [l_win]; exact Hd3.
        + unfold pm_simF, step_sim. right. cbn [fst snd]. split; [reflexivity|]. unfold lwD; cbn [l_win]; exact Hd3. }
    rewrite (try_process_next_syncF v1 v2 _ H2).
    destruct mode; [|exact TAIL].
    destruct (_ <? _); [|exact TAIL].
    destruct (try_process_next v2 _) as [[|]|e|q]; try exact TAIL; apply pm_sim_break_syncF; exact H2.
  - rewrite Es.
    destruct (src_run (icall FillBuf) (l_src w2)) as [[buf|e|p] s].
    2:{ apply pm_sim_break_syncF. unfold lwR; cbn [l_ds l_rc l_src l_win]; auto. }
    2:{ apply pm_sim_break_syncF. unfold lwR; cbn [l_ds l_rc l_src l_win]; auto. }
    cbv zeta.
    assert (HR2 : lwR (mkLw (l_ds w2) (l_rc w1) s (l_win w1)) (mkLw (l_ds w2) (l_rc w2) s (l_win w2)))
      by (unfold lwR; cbn [l_ds l_rc l_src l_win]; auto).
    assert (TAIL : pm_simF
      (match run_sym true (mkLw (l_ds w2) (l_rc w1) s (l_win w1)) with
       | (Failed e, w3) => Break (Failed e, w3)
       | (Panicked p, w3) => Break (Panicked p, w3)
       | (Done Finished, w3) => Break (Done tt, w3)
       | (Done Continue, w3) => Next w3
       end)
      (match run_sym true (mkLw (l_ds w2) (l_rc w2) s (l_win w2)) with
       | (Failed e, w3) => Break (Failed e, w3)
       | (Panicked p, w3) => Break (Panicked p, w3)
       | (Done Finished, w3) => Break (Done tt, w3)
       | (Done Continue, w3) => Next w3
       end)).
    { pose proof (run_sym_simF true _ _ HR2) as [[Hf3 HR3]|[Hf3 Hd3]].
      - destruct (run_sym true (mkLw (l_ds w2) (l_rc w1) _ _)) as [[res1|e1|p1] t1];
          destruct (run_sym true (mkLw (l_ds w2) (l_rc w2) _ _)) as [[res2|e2|p2] t2];
          cbn [fst snd] in *; try discriminate Hf3; inversion Hf3; subst.
        + destruct res2; [exact HR3|apply pm_sim_break_syncF; exact HR3].
        + apply pm_sim_break_syncF; exact HR3.
        + apply pm_sim_break_syncF; exact HR3.
      - destruct (run_sym true (mkLw (l_ds w2) (l_rc w1) _ _)) as [[res1|e1|p1] t1]; cbn [fst snd] in *; try discriminate Hf3.
        inversion Hf3; subst e1.
        destruct (run_sym true (mkLw (l_ds w2) (l_rc w2) _ _)) as [[[|]|e2|p2] t2]; cbn [snd] in *;
          unfold pm_simF, step_sim; [|right|right|right]; cbn [fst snd]; (split; [reflexivity|exact Hd3]). }
    rewrite (try_process_next_syncF _ _ (visible buf) HR2).
    destruct mode; [|exact TAIL].
    destruct (_ <? _); [|exact TAIL].
    destruct (try_process_next _ _) as [[|]|e|q]; try exact TAIL; try (apply pm_sim_break_syncF; exact HR2).
    pose proof (read_partial_input_buf_syncF _ _ HR2) as [Hf4 H4].
    destruct (read_partial_input_buf (mkLw (l_ds w2) (l_rc w1) _ _)) as [r41 v41];
      destruct (read_partial_input_buf (mkLw (l_ds w2) (l_rc w2) _ _)) as [r42 v42]; cbn [fst snd] in *. subst r42.
    apply pm_sim_break_syncF. exact H4.
Qed.

Theorem pm_body_simF mode w1 w2 : lwR w1 w2 -> pm_simF (pm_body mode w1) (pm_body mode w2).
Proof.
  intros HR. rewrite !pm_body_split. pose proof (pm_head_syncF mode w1 w2 HR) as [Hf H1].
  destruct (pm_head mode w1) as [[[|]|e1|p1] v1]; destruct (pm_head mode w2) as [[[|]|e2|p2] v2];
    cbn [fst snd] in Hf, H1; try discriminate Hf; inversion Hf; subst; try (apply pm_sim_break_syncF; exact H1).
  apply pm_tail_simF. exact H1.
Qed.

(* after the first run has stopped, the other run stays diverged *)
Lemma pm_body_divF mode (r1 : pm_result) w2 : lwD (snd r1) w2 ->
  match pm_body mode w2 with
  | Next t2 => lwD (snd r1) t2
  | Break r2 => lwD (snd r1) (snd r2)
  end.
Proof.
  intros H.
  pose proof (pm_body_keep (wD (win_snk (l_win (snd r1)))) true (wD_lit _) (wD_lz _) mode w2 H) as K.
  destruct (pm_body mode w2) as [t2|r2]; [exact K|]. apply K. right. reflexivity.
Qed.

Theorem process_mode_simF mode fuel w1 w2 : lwR w1 w2 ->
  lsimF (process_mode mode fuel w1) (process_mode mode fuel w2).
Proof.
  intros HR. unfold process_mode.
  pose proof (loopN_sim_div (pm_body mode) (pm_body mode) (lwR) (lsimF)
                (fun r1 t2 => fst r1 = Failed EIo /\ lwD (snd r1) t2)) as L.
  assert (Hb : forall s1 s2, lwR s1 s2 ->
     step_sim (lwR) (lsimF) (fun r1 t2 => fst r1 = Failed EIo /\ lwD (snd r1) t2) (pm_body mode s1) (pm_body mode s2))
    by (intros s1 s2 Hs; apply pm_body_simF; exact Hs).
  assert (Hd : forall (r1 : pm_result) s2, fst r1 = Failed EIo /\ lwD (snd r1) s2 ->
     match pm_body mode s2 with
     | Next t2 => fst r1 = Failed EIo /\ lwD (snd r1) t2
     | Break r2 => lsimF r1 r2
     end).
  { intros r1 s2 [Hf Hdv]. pose proof (pm_body_divF mode r1 s2 Hdv) as K.
    destruct (pm_body mode s2) as [t2|r2]; [split; assumption|right; split; assumption]. }
  specialize (L Hb Hd fuel w1 w2 HR). clear Hb Hd. unfold step_sim in L.
  destruct (loopN fuel (pm_body mode) w1) as [t1|[r1 t1]]; destruct (loopN fuel (pm_body mode) w2) as [t2|[r2 t2]];
    try contradiction.
  - left. cbn [fst snd]. split; [reflexivity|exact L].
  - cbn [fst snd] in L. destruct L as [Hf Hdv]. subst r1. right. cbn [fst snd]. split; [reflexivity|exact Hdv].
  - destruct L as [[Hf Hs]|[Hf Hdv]]; cbn [fst snd] in *.
    + subst r2. destruct r1 as [[]|e|p]; try (left; cbn [fst snd]; split; [reflexivity|exact Hs]).
      pose proof Hs as (Ed & _ & _ & Hw). rewrite Ed, (Rw_len _ _ Hw).
      destruct (ds_unpacked (l_ds t2)); [destruct mode|]; try (left; cbn [fst snd]; split; [reflexivity|exact Hs]).
      destruct (_ =? _); left; cbn [fst snd]; (split; [reflexivity|exact Hs]).
    + subst r1. right. split; [reflexivity|].
      match goal with |- lwD _ (snd ?x) => replace (snd x) with t2; [exact Hdv|] end.
      destruct r2 as [[]|e|p]; try reflexivity. destruct (ds_unpacked (l_ds t2)); [destruct mode|]; try reflexivity.
      destruct (_ =? _); reflexivity.
Qed.


(* ------------------------------------------------------------------ *)
(* 3. the Stream                                                        *)
(* ------------------------------------------------------------------ *)
Definition run_relF (r1 r2 : run_state) : Prop :=
  rs_dec r1 = rs_dec r2 /\ rs_rc r1 = rs_rc r2 /\ Rc (rs_out r1) (rs_out r2).
Definition sstate_relF (s1 s2 : sstate) : Prop :=
  match s1, s2 with
  | SHeader k1, SHeader k2 => Rk k1 k2
  | SData r1, SData r2 => run_relF r1 r2
  | _, _ => False
  end.
(* lock step: same staged bytes, same options, related states (the ghost sink only matters once the state is gone) *)
Definition Rst (s1 s2 : stream) : Prop :=
  st_tmp s1 = st_tmp s2 /\ st_opts s1 = st_opts s2 /\
  match st_state s1, st_state s2 with
  | None, None => Rk (st_ghost s1) (st_ghost s2)
  | Some a, Some b => sstate_relF a b
  | _, _ => False
  end.
(* diverged: the first stream has failed with an I/O error and dropped its state *)
Definition Dst (s1 s2 : stream) : Prop := st_state s1 = None /\ Dk (stream_sink s1) (stream_sink s2).
Notation ssimF := (fsim Rst Dst).

Lemma run_relF_snk r1 r2 : run_relF r1 r2 -> Rk (c_snk (rs_out r1)) (c_snk (rs_out r2)).
Proof. intros (_ & _ & (_ & _ & _ & _ & _ & _ & H)). exact H. Qed.

Lemma Rst_sink s1 s2 : Rst s1 s2 -> Rk (stream_sink s1) (stream_sink s2).
Proof.
  intros (_ & _ & H). unfold stream_sink.
  destruct (st_state s1) as [[k1|r1]|]; destruct (st_state s2) as [[k2|r2]|]; cbn [sstate_relF] in H; try contradiction.
  - exact H.
  - apply run_relF_snk. exact H.
  - exact H.
Qed.

Lemma stream_new_Rst o k1 k2 : Rk k1 k2 -> Rst (stream_new o k1) (stream_new o k2).
Proof. intros H. unfold Rst, stream_new. cbn [st_tmp st_opts st_ghost st_state sstate_relF]. auto. Qed.

(* ---- read_header: the sink is only passed through ---- *)
Definition hdr_relF (x1 x2 : outcome sstate * src) : Prop :=
  snd x1 = snd x2 /\
  match fst x1, fst x2 with
  | Done a, Done b => sstate_relF a b
  | Failed e1, Failed e2 => e1 = e2
  | Panicked p1, Panicked p2 => p1 = p2
  | _, _ => False
  end.

Lemma stream_read_header_relF k1 k2 input o : Rk k1 k2 ->
  hdr_relF (stream_read_header k1 input o) (stream_read_header k2 input o).
Proof.
  intros HR. unfold stream_read_header.
  destruct (src_run (map_io_err EHeaderTooShort (read_header o)) input) as [[p|e|q] s].
  - destruct (dstate_new (pr_props p) (pr_unpacked p)) as [[d|e|q] []]; try (split; reflexivity).
    destruct (src_run rc_new s) as [[r|e|q] s']; unfold hdr_relF; cbn [fst snd sstate_relF]; (split; [reflexivity|]);
      try reflexivity; try exact HR.
    unfold run_relF. cbn [rs_dec rs_rc rs_out]. split; [reflexivity|]. split; [reflexivity|].
    unfold Rc, circ_new. cbn [c_buf c_blen c_dict c_mem c_cursor c_len c_snk]. repeat split. exact HR.
  - destruct e; unfold hdr_relF; cbn [fst snd sstate_relF]; (split; [reflexivity|]); try reflexivity; exact HR.
  - split; reflexivity.
Qed.

(* ---- read_data (process_mode in Partial mode) ---- *)
Definition data_simF (x1 x2 : outcome unit * (run_state * src)) : Prop :=
  (fst x1 = fst x2 /\ run_relF (fst (snd x1)) (fst (snd x2)) /\ snd (snd x1) = snd (snd x2)) \/
  (fst x1 = Failed EIo /\ Dk (c_snk (rs_out (fst (snd x1)))) (c_snk (rs_out (fst (snd x2))))).

Theorem stream_read_data_relF r1 r2 input : run_relF r1 r2 ->
  data_simF (stream_read_data r1 input) (stream_read_data r2 input).
Proof.
  intros (Ed & Er & Ho). unfold stream_read_data. rewrite Ed, Er.
  assert (HR : lwR (mkLw (rs_dec r2) (rs_rc r2) input (WCirc (rs_out r1))) (mkLw (rs_dec r2) (rs_rc r2) input (WCirc (rs_out r2))))
    by (unfold lwR; cbn [l_ds l_rc l_src l_win Rw]; auto).
  pose proof (process_mode_simF Partial big_fuel _ _ HR) as S.
  pose proof (process_mode_is_circ Partial big_fuel (mkLw (rs_dec r2) (rs_rc r2) input (WCirc (rs_out r1))) I) as C1.
  pose proof (process_mode_is_circ Partial big_fuel (mkLw (rs_dec r2) (rs_rc r2) input (WCirc (rs_out r2))) I) as C2.
  destruct (process_mode Partial big_fuel (mkLw (rs_dec r2) (rs_rc r2) input (WCirc (rs_out r1)))) as [o1 x1].
  destruct (process_mode Partial big_fuel (mkLw (rs_dec r2) (rs_rc r2) input (WCirc (rs_out r2)))) as [o2 x2].
  destruct S as [[Ho12 (Ed' & Er' & Es' & Hw)]|[Ho1 Hd]]; cbn [fst snd] in *.
  - left. cbn [fst snd rs_dec rs_rc rs_out]. split; [exact Ho12|]. split; [|exact Es'].
    unfold run_relF. cbn [rs_dec rs_rc rs_out]. split; [exact Ed'|]. split; [exact Er'|].
    destruct (l_win x1) as [c1|a1]; destruct (l_win x2) as [c2|a2]; cbn [Rw] in Hw; try contradiction; exact Hw.
  - right. cbn [fst snd rs_dec rs_rc rs_out]. split; [exact Ho1|]. unfold lwD, Dw in Hd.
    destruct (l_win x1) as [c1|a1]; [|contradiction].
    destruct (l_win x2) as [c2|a2]; [|contradiction]. exact Hd.
Qed.

Lemma stream_read_data_over k1 r input : Dk k1 (c_snk (rs_out r)) ->
  Dk k1 (c_snk (rs_out (fst (snd (stream_read_data r input))))).
Proof. intros H. eapply Dk_ext; [exact H|apply stream_read_data_ext]. Qed.

(* ---- <Stream as Write>::write ---- *)
Ltac srelF :=
  unfold Rst, dead; cbn [st_tmp st_opts st_ghost st_state sstate_relF]; auto using run_relF_snk.

Lemma write_phase2_over k1 s r input : Dk k1 (c_snk (rs_out r)) ->
  Dk k1 (stream_sink (snd (write_phase2 s r input))).
Proof.
  intros H. pose proof (stream_read_data_over k1 r input H) as H'. unfold write_phase2.
  destruct (stream_read_data r input) as [[[]|e|p] [r2 is]]; cbn [fst snd] in *;
    unfold stream_sink, dead; cbn [st_state st_ghost]; exact H'.
Qed.

Lemma write_phase2_relF s1 s2 r1 r2 input :
  st_opts s1 = st_opts s2 -> run_relF r1 r2 ->
  ssimF (write_phase2 s1 r1 input) (write_phase2 s2 r2 input).
Proof.
  intros Eo HR. unfold write_phase2.
  pose proof (stream_read_data_relF r1 r2 input HR) as [(Hf & Hr & Es)|(Hf & Hd)].
  - destruct (stream_read_data r1 input) as [o1 [r1' i1]]; destruct (stream_read_data r2 input) as [o2 [r2' i2]];
      cbn [fst snd] in *. subst o2 i2.
    destruct o1 as [[]|e|p]; left; cbn [fst snd]; (split; [reflexivity|]); srelF.
  - destruct (stream_read_data r1 input) as [o1 [r1' i1]]; cbn [fst snd] in *. subst o1.
    right. cbn [fst snd]. split; [reflexivity|]. unfold Dst. split; [reflexivity|].
    destruct (stream_read_data r2 input) as [[[]|e|p] [r2' i2]]; cbn [fst snd] in *;
      unfold stream_sink, dead; cbn [st_state st_ghost]; exact Hd.
Qed.

Theorem stream_write_relF s1 s2 data : Rst s1 s2 ->
  ssimF (stream_write s1 data) (stream_write s2 data).
Proof.
  intros HS. pose proof HS as (Et & Eo & Hs). rewrite !stream_write_split. rewrite Et, Eo.
  destruct (st_state s1) as [[k1|r1]|]; destruct (st_state s2) as [[k2|r2]|]; cbn [sstate_relF] in Hs; try contradiction.
  - (* still reading the header: the sink is not touched *)
    destruct (0 <? nlen (st_tmp s2)).
    + cbv zeta. set (n := N.min (nlen data) (MAX_TMP_LEN - nlen (st_tmp s2))). clearbody n.
      pose proof (stream_read_header_relF k1 k2 (cursor_of (st_tmp s2 ++ nfirstn n data)) (st_opts s2) Hs) as [Es Hh].
      destruct (stream_read_header k1 (cursor_of (st_tmp s2 ++ nfirstn n data)) (st_opts s2)) as [[[k1'|r1']|e1|p1] ts1];
        destruct (stream_read_header k2 (cursor_of (st_tmp s2 ++ nfirstn n data)) (st_opts s2)) as [[[k2'|r2']|e2|p2] ts2];
        cbn [fst snd sstate_relF] in Es, Hh; try contradiction; subst.
      * destruct (_ =? _); left; cbn [fst snd]; (split; [reflexivity|]); srelF.
      * left. cbn [fst snd]. split; [reflexivity|]. srelF.
      * left. cbn [fst snd]. split; [reflexivity|]. srelF.
      * left. cbn [fst snd]. split; [reflexivity|]. srelF.
    + pose proof (stream_read_header_relF k1 k2 (cursor_of data) (st_opts s2) Hs) as [Es Hh].
      destruct (stream_read_header k1 (cursor_of data) (st_opts s2)) as [[[k1'|r1']|e1|p1] ts1];
        destruct (stream_read_header k2 (cursor_of data) (st_opts s2)) as [[[k2'|r2']|e2|p2] ts2];
        cbn [fst snd sstate_relF] in Es, Hh; try contradiction; subst.
      * destruct (_ =? _); left; cbn [fst snd]; (split; [reflexivity|]); srelF.
      * left. cbn [fst snd]. split; [reflexivity|]. srelF.
      * left. cbn [fst snd]. split; [reflexivity|]. srelF.
      * left. cbn [fst snd]. split; [reflexivity|]. srelF.
  - (* decoding *)
    destruct (0 <? nlen (st_tmp s2)); [|apply write_phase2_relF; assumption].
    pose proof (stream_read_data_relF r1 r2 (cursor_of (st_tmp s2)) Hs) as [(Hf & Hr & Es)|(Hf & Hd)].
    + destruct (stream_read_data r1 (cursor_of (st_tmp s2))) as [o1 [r1' i1]];
        destruct (stream_read_data r2 (cursor_of (st_tmp s2))) as [o2 [r2' i2]]; cbn [fst snd] in *. subst o2 i2.
      destruct o1 as [[]|e|p].
      * apply write_phase2_relF; assumption.
      * left. cbn [fst snd]. split; [reflexivity|]. srelF.
      * left. cbn [fst snd]. split; [reflexivity|]. srelF.
    + destruct (stream_read_data r1 (cursor_of (st_tmp s2))) as [o1 [r1' i1]]; cbn [fst snd] in *. subst o1.
      right. cbn [fst snd]. split; [reflexivity|]. unfold Dst. split; [reflexivity|].
      unfold stream_sink at 1. cbn [dead st_state st_ghost].
      destruct (stream_read_data r2 (cursor_of (st_tmp s2))) as [[[]|e|p] [r2' i2]]; cbn [fst snd] in *.
      * apply write_phase2_over; assumption.
      * unfold stream_sink, dead; cbn [st_state st_ghost]. exact Hd.
      * unfold stream_sink, dead; cbn [st_state st_ghost]. exact Hd.
  - (* both already dead *)
    left. cbn [fst snd]. split; [reflexivity|exact HS].
Qed.

(* once diverged, the calls of the second stream keep the sinks [Dk]-related *)
Lemma Dst_write s1 s2 d : Dst s1 s2 -> Dst s1 (snd (stream_write s2 d)).
Proof.
  intros [Hn Hd]. split; [exact Hn|]. eapply Dk_ext; [exact Hd|].
  destruct (stream_write s2 d) as [r s'] eqn:E. cbn [snd]. eapply stream_write_grows; exact E.
Qed.
Lemma Dst_flush s1 s2 : Dst s1 s2 -> Dst s1 (snd (stream_flush s2)).
Proof.
  intros [Hn Hd]. split; [exact Hn|]. eapply Dk_ext; [exact Hd|].
  destruct (stream_flush s2) as [r s'] eqn:E. cbn [snd]. eapply stream_flush_grows; exact E.
Qed.

(* ---- <Stream as Write>::flush: may fail in the first run alone; the streams stay in lock step ---- *)
Theorem stream_flush_relF s1 s2 : Rst s1 s2 ->
  Rst (snd (stream_flush s1)) (snd (stream_flush s2)) /\
  (fst (stream_flush s1) = fst (stream_flush s2) \/
   (flx /\ fst (stream_flush s1) = Failed EIo /\ fst (stream_flush s2) = Done tt)).
Proof.
  intros HS. pose proof HS as (Et & Eo & Hs). unfold stream_flush.
  destruct (st_state s1) as [[k1|r1]|] eqn:E1; destruct (st_state s2) as [[k2|r2]|] eqn:E2;
    cbn [sstate_relF] in Hs; try contradiction; try (cbn [fst snd]; split; [exact HS|left; reflexivity]).
  pose proof (H_fl _ _ (run_relF_snk _ _ Hs)) as F. unfold flush_rel in F. destruct Hs as (Ed & Er & Hc).
  destruct Hc as (C1 & C2 & C3 & C4 & C5 & C6 & C7).
  destruct (snk_flush (c_snk (rs_out r1))) as [x1 t1|e1 t1|p1 t1]; destruct (snk_flush (c_snk (rs_out r2))) as [x2 t2|e2 t2|p2 t2];
    try contradiction; cbn [fst snd].
  - split; [|left; destruct x1, x2; reflexivity].
    unfold Rst. cbn [st_tmp st_opts st_ghost st_state sstate_relF]. split; [exact Et|]. split; [exact Eo|].
    unfold run_relF, Rc. cbn [rs_dec rs_rc rs_out c_buf c_blen c_dict c_mem c_cursor c_len c_snk]. repeat split; assumption.
  - destruct F as (Fx & -> & FR & _). split; [|right; destruct x2; auto].
    unfold Rst. rewrite E1. cbn [st_tmp st_opts st_ghost st_state sstate_relF]. split; [exact Et|]. split; [exact Eo|].
    unfold run_relF, Rc. cbn [rs_dec rs_rc rs_out c_buf c_blen c_dict c_mem c_cursor c_len c_snk]. repeat split; assumption.
  - subst e2. split; [exact HS|left; reflexivity].
Qed.

(* ---- Stream::finish ---- *)
Theorem stream_finish_relF s1 s2 : Rst s1 s2 -> fsim Rk Dk (stream_finish s1) (stream_finish s2).
Proof.
  intros HS. pose proof HS as (Et & Eo & Hs). unfold stream_finish. rewrite Et, Eo.
  destruct (st_state s1) as [[k1|r1]|]; destruct (st_state s2) as [[k2|r2]|]; cbn [sstate_relF] in Hs; try contradiction.
  - destruct (0 <? nlen (st_tmp s2)); left; cbn [fst snd]; (split; [reflexivity|exact Hs]).
  - destruct (negb (o_allow_incomplete (st_opts s2))).
    + destruct Hs as (Ed & Er & Hm). rewrite Ed, Er.
      assert (HR : lwR (mkLw (rs_dec r2) (rs_rc r2) (cursor_of (st_tmp s2)) (WCirc (rs_out r1)))
                       (mkLw (rs_dec r2) (rs_rc r2) (cursor_of (st_tmp s2)) (WCirc (rs_out r2))))
        by (unfold lwR; cbn [l_ds l_rc l_src l_win Rw]; auto).
      pose proof (process_mode_simF FinishMode big_fuel _ _ HR) as S.
      pose proof (process_mode_is_circ FinishMode big_fuel (mkLw (rs_dec r2) (rs_rc r2) (cursor_of (st_tmp s2)) (WCirc (rs_out r1))) I) as C1.
      pose proof (process_mode_is_circ FinishMode big_fuel (mkLw (rs_dec r2) (rs_rc r2) (cursor_of (st_tmp s2)) (WCirc (rs_out r2))) I) as C2.
      destruct (process_mode FinishMode big_fuel (mkLw (rs_dec r2) (rs_rc r2) (cursor_of (st_tmp s2)) (WCirc (rs_out r1)))) as [o1 x1].
      destruct (process_mode FinishMode big_fuel (mkLw (rs_dec r2) (rs_rc r2) (cursor_of (st_tmp s2)) (WCirc (rs_out r2)))) as [o2 x2].
      destruct S as [[Ho12 (_ & _ & _ & Hw)]|[Ho1 Hd]]; cbn [fst snd] in *.
      * subst o2.
        destruct (l_win x1) as [c1|a1]; [|contradiction].
        destruct (l_win x2) as [c2|a2]; cbn [Rw] in Hw; [|contradiction].
        destruct o1 as [[]|e|p].
        -- apply circ_finish_relF. exact Hw.
        -- left. cbn [fst snd]. split; [reflexivity|]. destruct Hw as (_ & _ & _ & _ & _ & _ & Hk). exact Hk.
        -- left. cbn [fst snd]. split; [reflexivity|]. destruct Hw as (_ & _ & _ & _ & _ & _ & Hk). exact Hk.
      * subst o1. right. cbn [fst snd]. unfold lwD, Dw in Hd.
        destruct (l_win x1) as [c1|a1]; [|contradiction].
        destruct (l_win x2) as [c2|a2]; [|contradiction]. cbn [win_snk] in Hd.
        split; [reflexivity|].
        destruct o2 as [[]|e|p]; cbn [snd]; try exact Hd.
        eapply Dk_ext; [exact Hd|apply circ_finish_ext].
    + apply circ_finish_relF. destruct Hs as (_ & _ & Hm). exact Hm.
  - left. cbn [fst snd]. split; [reflexivity|exact Hs].
Qed.

(* ---- any sequence of write / flush calls ---- *)
Lemma do_call_relF s1 s2 c : Rst s1 s2 ->
  (cres_rel flx (fst (do_call s1 c)) (fst (do_call s2 c)) /\ Rst (snd (do_call s1 c)) (snd (do_call s2 c))) \/
  (fst (do_call s1 c) = RW (Failed EIo) /\ Dst (snd (do_call s1 c)) (snd (do_call s2 c))).
Proof.
  intros HS. destruct c as [d|]; cbn [do_call].
  - pose proof (stream_write_relF s1 s2 d HS) as S.
    destruct (stream_write s1 d) as [o1 t1]; destruct (stream_write s2 d) as [o2 t2].
    destruct S as [[Hf Hr]|[Hf Hd]]; cbn [fst snd] in *; subst o1; [left|right]; split; auto.
    left. reflexivity.
  - pose proof (stream_flush_relF s1 s2 HS) as [Hr Hf].
    destruct (stream_flush s1) as [o1 t1]; destruct (stream_flush s2) as [o2 t2]; cbn [fst snd] in *.
    left. split; [|exact Hr]. destruct Hf as [->|(Fx & -> & ->)]; [left; reflexivity|right; auto].
Qed.

Lemma Dst_calls cs : forall s1 s2, Dst s1 s2 -> Dst s1 (snd (run_calls s2 cs)).
Proof.
  intros s1 s2 [Hn Hd]. split; [exact Hn|]. eapply Dk_ext; [exact Hd|apply run_calls_grows].
Qed.

Theorem run_calls_relF cs : forall s1 s2, Rst s1 s2 ->
  (Forall2 (cres_rel flx) (fst (run_calls s1 cs)) (fst (run_calls s2 cs)) /\
   Rst (snd (run_calls s1 cs)) (snd (run_calls s2 cs))) \/
  (In (RW (Failed EIo)) (fst (run_calls s1 cs)) /\ Dst (snd (run_calls s1 cs)) (snd (run_calls s2 cs))).
Proof.
  induction cs as [|c cs IH]; intros s1 s2 HS; cbn [run_calls].
  - left. cbn [fst snd]. split; [constructor|exact HS].
  - pose proof (do_call_relF s1 s2 c HS) as S.
    destruct (do_call s1 c) as [o1 t1]; destruct (do_call s2 c) as [o2 t2].
    destruct S as [[Hf Hr]|[Hf Hd]]; cbn [fst snd] in *.
    + specialize (IH t1 t2 Hr).
      destruct (run_calls t1 cs) as [rs1 u1]; destruct (run_calls t2 cs) as [rs2 u2]; cbn [fst snd] in *.
      destruct IH as [[Hrs Hr']|(Hin & Hd')]; [left; split; [constructor; assumption|assumption]|right].
      split; [right; exact Hin|exact Hd'].
    + right. subst o1. pose proof Hd as [Hn _]. destruct (dead_calls cs t1 Hn) as [_ E1].
      pose proof (Dst_calls cs t1 t2 Hd) as G2.
      destruct (run_calls t1 cs) as [rs1 u1]; destruct (run_calls t2 cs) as [rs2 u2]; cbn [fst snd] in *. subst u1.
      split; [left; reflexivity|exact G2].
Qed.

(* the whole life of two Streams: any calls, then finish *)
Theorem stream_life_relF cs s1 s2 : Rst s1 s2 ->
  (Forall2 (cres_rel flx) (fst (run_calls s1 cs)) (fst (run_calls s2 cs)) /\
   Rst (snd (run_calls s1 cs)) (snd (run_calls s2 cs)) /\
   fsim Rk Dk (stream_finish (snd (run_calls s1 cs))) (stream_finish (snd (run_calls s2 cs)))) \/
  (In (RW (Failed EIo)) (fst (run_calls s1 cs)) /\ Dst (snd (run_calls s1 cs)) (snd (run_calls s2 cs)) /\
   fst (stream_finish (snd (run_calls s1 cs))) = Failed ELzma /\
   Dk (snd (stream_finish (snd (run_calls s1 cs)))) (snd (stream_finish (snd (run_calls s2 cs))))).
Proof.
  intros HS. destruct (run_calls_relF cs s1 s2 HS) as [[Hrs Hr]|[Hin Hd]].
  - left. split; [exact Hrs|]. split; [exact Hr|]. apply stream_finish_relF. exact Hr.
  - right. split; [exact Hin|]. split; [exact Hd|]. destruct Hd as [Hn Hd].
    rewrite (finish_when_dead _ Hn). cbn [fst snd]. split; [reflexivity|].
    unfold stream_sink in Hd at 1. rewrite Hn in Hd.
    eapply Dk_ext; [exact Hd|].
    destruct (stream_finish (snd (run_calls s2 cs))) as [r2 k2] eqn:E2. cbn [snd].
    eapply stream_finish_grows; exact E2.
Qed.

End Rel.

Check process_mode_simF.
Check stream_write_relF.
Check stream_life_relF.
Print Assumptions process_mode_simF.
Print Assumptions stream_write_relF.
Print Assumptions stream_flush_relF.
Print Assumptions stream_finish_relF.
Print Assumptions run_calls_relF.
Print Assumptions stream_life_relF.
