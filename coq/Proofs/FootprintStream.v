(* C07, memory clause (M4): the streaming decoder (decode/stream.rs).

   For ARBITRARY data handed to write (any bytes, any chunking), any options, any sink:
     - the header staging buffer tmp never holds more than MAX_TMP_LEN = 18 bytes;
     - parsing a header allocates an EMPTY window, whatever dictionary size / unpacked size it announces;
     - once in the data state, the run state obeys M1: window <= min(produced, dict, memlimit),
       partial input buffer <= 20, tables of constant shape - after every call and in every
       iteration of the decoding loop inside a call. *)
From LZ Require Import Base.Prelude Base.Prog Model.Io Model.Tables Model.LzBuffer Model.RangeDec Model.Lzma Model.Stream.
From LZ Require Import Proofs.ProgLemmas Proofs.IoLemmas Proofs.StreamLatch Proofs.StreamPrefix Proofs.SizeRules Proofs.ResetFresh
  Proofs.FaultProp Proofs.MemLimitRun Proofs.MemLimitStream Proofs.NoPanicLoops Proofs.FootprintCore Proofs.FootprintLzma.
Local Open Scope prog_scope.

(* ------------------------------------------------------------------ *)
(* what a stream holds                                                  *)
(* ------------------------------------------------------------------ *)
Definition run_footprint (r : run_state) : N :=
  nlen (ds_pib (rs_dec r)) + 2 * tabs_size (ds_tabs (rs_dec r)) + c_blen (rs_out r).
Definition stream_footprint (s : stream) : N :=
  nlen (st_tmp s) + match st_state s with Some (SData r) => run_footprint r | _ => 0 end.
Definition stream_produced (s : stream) : N :=
  match st_state s with Some (SData r) => c_len (rs_out r) | _ => 0 end.

(* the invariant *)
Definition RunFoot (r : run_state) : Prop :=
  DsFoot (rs_dec r) /\ CircFoot (c_dict (rs_out r)) (c_mem (rs_out r)) (rs_out r).
Definition StreamFoot (s : stream) : Prop :=
  nlen (st_tmp s) <= MAX_TMP_LEN /\
  match st_state s with Some (SData r) => RunFoot r | _ => True end.

(* the intended bound, as a predicate on a stream *)
Definition stream_foot_ok (s : stream) : Prop :=
  nlen (st_tmp s) <= MAX_TMP_LEN /\
  match st_state s with
  | Some (SData r) =>
      nlen (ds_pib (rs_dec r)) <= MAX_REQUIRED_INPUT /\
      tabs_size (ds_tabs (rs_dec r)) <= TABS_MAX /\
      c_blen (rs_out r) <= N.min (N.min (c_len (rs_out r)) (c_dict (rs_out r))) (c_mem (rs_out r))
  | _ => True
  end /\
  stream_footprint s <= MAX_TMP_LEN + FOOT_CONST + stream_produced s.

Lemma StreamFoot_ok s : StreamFoot s -> stream_foot_ok s.
Proof.
  intros [Ht Hs]. unfold stream_foot_ok, stream_footprint, stream_produced.
  destruct (st_state s) as [[k|r]|].
  - repeat split; try assumption. unfold FOOT_CONST. lia.
  - destruct Hs as [[Hp Htab] Hc]. pose proof (TabsFoot_bound _ Htab) as T.
    pose proof (CircBound_min _ _ _ (CircFoot_Bound _ _ _ Hc)) as M.
    repeat split; try assumption. unfold run_footprint, FOOT_CONST. lia.
  - repeat split; try assumption. unfold FOOT_CONST. lia.
Qed.

(* ------------------------------------------------------------------ *)
(* header                                                               *)
(* ------------------------------------------------------------------ *)
Definition io_post {A} (Q : A -> Prop) (p : iop A) : Prop := forall w a w', run_io p w = (Done a, w') -> Q a.

Lemma io_post_bind {A B} (Q1 : A -> Prop) (Q : B -> Prop) (p : iop A) (f : A -> iop B) :
  io_post Q1 p -> (forall a, Q1 a -> io_post Q (f a)) -> io_post Q (bind p f).
Proof.
  intros Hp Hf w b w' H. apply IoInv.run_bind_inv in H. destruct H as (a & w1 & H1 & H2).
  exact (Hf a (Hp _ _ _ H1) _ _ _ H2).
Qed.
Lemma io_post_true {A} (p : iop A) : io_post (fun _ => True) p.
Proof. intros w a w' _. exact I. Qed.
Lemma io_post_ret {A} (Q : A -> Prop) a : Q a -> io_post Q (Ret a).
Proof. intros H w b w' E. inversion E; subst. exact H. Qed.
Lemma io_post_fail {A} (Q : A -> Prop) e : io_post Q (Fail e).
Proof. intros w b w' E. discriminate E. Qed.

Lemma read_header_post o : io_post (fun p => 4096 <= pr_dict p) (read_header o).
Proof.
  unfold read_header.
  eapply io_post_bind; [apply io_post_true|]. intros pbyte _. cbv beta.
  destruct (225 <=? pbyte); [apply io_post_fail|].
  eapply io_post_bind; [apply io_post_true|]. intros dp _. cbv beta zeta.
  eapply io_post_bind; [apply io_post_true|]. intros us _.
  apply io_post_ret. cbn [pr_dict]. destruct (N.ltb_spec dp 4096); lia.
Qed.

Lemma src_run_post {A} (Q : A -> Prop) e' (p : iop A) s a s' :
  io_post Q p -> src_run (map_io_err e' p) s = (Done a, s') -> Q a.
Proof.
  intros Hp. unfold src_run. destruct (run_map_io_err e' p (mkIo s vec_sink)) as [_ Hf].
  destruct (run_io (map_io_err e' p) (mkIo s vec_sink)) as [[a2|e2|q2] w2] eqn:E2; intros H; inversion H; subst.
  destruct (run_io p (mkIo s vec_sink)) as [[a1|e1|q1] w1] eqn:E1; cbn [fst] in Hf; try contradiction.
  subst. exact (Hp _ _ _ E1).
Qed.

(* parsing the header: an empty window, an empty partial input buffer *)
Theorem stream_read_header_foot k input o r s' :
  stream_read_header k input o = (Done (SData r), s') ->
  RunFoot r /\ c_blen (rs_out r) = 0 /\ ds_pib (rs_dec r) = [] /\ run_footprint r <= 2 * TABS_MAX.
Proof.
  unfold stream_read_header.
  destruct (src_run (map_io_err EHeaderTooShort (read_header o)) input) as [[p|e|q] s] eqn:Eh.
  - pose proof (src_run_post _ _ _ _ _ _ (read_header_post o) Eh) as Hdict. cbv beta in Hdict.
    destruct (dstate_new (pr_props p) (pr_unpacked p)) as [[d|e|q] []] eqn:Ed; try discriminate.
    destruct (src_run rc_new s) as [[rc0|e|q] s'']; intros H; inversion H; subst. clear H.
    destruct (dstate_new_foot _ _ _ Ed) as [Hd Hp]. cbn [rs_dec rs_out].
    assert (T : tabs_size (ds_tabs d) <= TABS_MAX) by (destruct Hd as [_ Ht]; apply TabsFoot_bound; exact Ht).
    split; [split; [exact Hd|]|].
    + cbn [rs_out circ_new c_dict c_mem]. apply circ_new_foot. lia.
    + split; [reflexivity|]. split; [exact Hp|].
      unfold run_footprint. cbn [rs_dec rs_out circ_new c_blen]. rewrite Hp. unfold nlen. cbn [length]. lia.
  - destruct e; discriminate.
  - discriminate.
Qed.
Print Assumptions stream_read_header_foot.

(* ------------------------------------------------------------------ *)
(* data                                                                 *)
(* ------------------------------------------------------------------ *)
Lemma RunFoot_lw r input : RunFoot r ->
  LwFoot (c_dict (rs_out r)) (c_mem (rs_out r)) (mkLw (rs_dec r) (rs_rc r) input (WCirc (rs_out r))).
Proof. intros [H1 H2]. split; assumption. Qed.

Lemma CircFoot_self dict mem c : CircFoot dict mem c -> CircFoot (c_dict c) (c_mem c) c.
Proof. intros H. pose proof H as [(E1 & E2 & _) _]. rewrite E1, E2. exact H. Qed.

(* every state of the decoding loop inside a write (Partial) or finish (Finish) call *)
Theorem stream_loop_footprint mode r input n : RunFoot r ->
  lzma_foot_ok (c_dict (rs_out r)) (c_mem (rs_out r))
    (res_state (iter_step n (pm_body mode) (mkLw (rs_dec r) (rs_rc r) input (WCirc (rs_out r))))).
Proof. intros H. apply lzma_loop_footprint_from; [apply RunFoot_lw; exact H|exact I]. Qed.

Lemma stream_read_data_foot r input : RunFoot r ->
  match stream_read_data r input with (Done _, (r', _)) => RunFoot r' | _ => True end.
Proof.
  intros H. unfold stream_read_data.
  pose proof (process_mode_foot _ _ Partial big_fuel _ (RunFoot_lw r input H)) as [K _].
  destruct (process_mode Partial big_fuel _) as [[[]|e|q] x]; cbn [fst snd odone] in *; try exact I.
  specialize (K eq_refl). destruct K as [D W]. split; cbn [rs_dec rs_out]; [exact D|].
  destruct (l_win x) as [c|a]; cbn [WinFoot] in W; [apply (CircFoot_self _ _ _ W)|destruct H as [_ H]; exact H].
Qed.

(* ------------------------------------------------------------------ *)
(* the Write interface                                                  *)
(* ------------------------------------------------------------------ *)
Lemma nil_tmp : @nlen N [] <= MAX_TMP_LEN.
Proof. unfold nlen, MAX_TMP_LEN. cbn [length]. lia. Qed.

Lemma write_phase2_foot s r input : RunFoot r -> StreamFoot (snd (write_phase2 s r input)).
Proof.
  intros H. unfold write_phase2. pose proof (stream_read_data_foot r input H) as K.
  destruct (stream_read_data r input) as [[[]|e|q] [r2 is]]; cbn [snd]; unfold StreamFoot, dead; cbn [st_tmp st_state];
    (split; [apply nil_tmp|]); [exact K|exact I|exact I].
Qed.

Theorem stream_write_foot s data : StreamFoot s -> StreamFoot (snd (stream_write s data)).
Proof.
  intros [Ht Hs]. rewrite stream_write_split.
  destruct (st_state s) as [[k|r]|] eqn:Es.
  - (* header state *)
    destruct (N.ltb_spec 0 (nlen (st_tmp s))) as [Hpos|Hz].
    + cbv zeta. set (n := N.min (nlen data) (MAX_TMP_LEN - nlen (st_tmp s))).
      assert (Hn : nlen (st_tmp s ++ nfirstn n data) <= MAX_TMP_LEN).
      { rewrite nlen_app, nlen_nfirstn. subst n. lia. }
      clearbody n.
      destruct (stream_read_header k (cursor_of (st_tmp s ++ nfirstn n data)) (st_opts s)) as [[[k'|r']|e|p] ts] eqn:E.
      * destruct (_ =? _); cbn [snd]; unfold StreamFoot; cbn [st_tmp st_state]; (split; [|exact I]); [|exact Hn].
        rewrite nlen_nfirstn. unfold MAX_TMP_LEN. lia.
      * destruct (stream_read_header_foot _ _ _ _ _ E) as [HR _].
        cbn [snd]. unfold StreamFoot; cbn [st_tmp st_state]. split; [|exact HR].
        rewrite nlen_nskipn. lia.
      * cbn [snd]. unfold StreamFoot, dead; cbn [st_tmp st_state]. split; [exact Hn|exact I].
      * cbn [snd]. unfold StreamFoot, dead; cbn [st_tmp st_state]. split; [exact Hn|exact I].
    + destruct (stream_read_header k (cursor_of data) (st_opts s)) as [[[k'|r']|e|p] ts] eqn:E.
      * destruct (_ =? _); cbn [snd]; unfold StreamFoot; cbn [st_tmp st_state]; (split; [|exact I]); [|exact Ht].
        rewrite nlen_nfirstn. unfold MAX_TMP_LEN. lia.
      * destruct (stream_read_header_foot _ _ _ _ _ E) as [HR _].
        cbn [snd]. unfold StreamFoot; cbn [st_tmp st_state]. split; [exact Ht|exact HR].
      * cbn [snd]. unfold StreamFoot, dead; cbn [st_tmp st_state]. split; [exact Ht|exact I].
      * cbn [snd]. unfold StreamFoot, dead; cbn [st_tmp st_state]. split; [exact Ht|exact I].
  - (* data state *)
    destruct (0 <? nlen (st_tmp s)); [|apply write_phase2_foot; exact Hs].
    pose proof (stream_read_data_foot r (cursor_of (st_tmp s)) Hs) as K.
    destruct (stream_read_data r (cursor_of (st_tmp s))) as [[[]|e|p] [r1 i1]].
    + apply write_phase2_foot. exact K.
    + cbn [snd]. unfold StreamFoot, dead; cbn [st_tmp st_state]. split; [exact Ht|exact I].
    + cbn [snd]. unfold StreamFoot, dead; cbn [st_tmp st_state]. split; [exact Ht|exact I].
  - cbn [snd]. unfold StreamFoot. rewrite Es. split; [exact Ht|exact I].
Qed.
Print Assumptions stream_write_foot.

Theorem stream_flush_foot s : StreamFoot s -> StreamFoot (snd (stream_flush s)).
Proof.
  intros [Ht Hs]. unfold stream_flush.
  destruct (st_state s) as [[k|r]|] eqn:Es; try (cbn [snd]; unfold StreamFoot; rewrite Es; split; assumption).
  destruct (snk_flush (c_snk (rs_out r))) as [x k|e k|p k]; cbn [snd]; try (unfold StreamFoot; rewrite Es; split; assumption).
  unfold StreamFoot. cbn [st_tmp st_state]. split; [exact Ht|].
  destruct Hs as [Hd Hc]. split; cbn [rs_dec rs_out c_dict c_mem]; [exact Hd|].
  destruct Hc as [(E1 & E2 & B1 & B2 & B3) [C1 C2]].
  unfold CircFoot, CircBound. cbn [c_dict c_mem c_blen c_len c_cursor]. repeat split; assumption.
Qed.

Theorem stream_new_foot o k : StreamFoot (stream_new o k).
Proof. split; [apply nil_tmp|exact I]. Qed.

Theorem run_calls_foot cs : forall s, StreamFoot s -> StreamFoot (snd (run_calls s cs)).
Proof.
  induction cs as [|c cs IH]; intros s Hs; cbn [run_calls]; [exact Hs|].
  assert (H1 : StreamFoot (snd (do_call s c))).
  { destruct c as [d|]; cbn [do_call].
    - pose proof (stream_write_foot s d Hs) as W. destruct (stream_write s d) as [o1 t1]. exact W.
    - pose proof (stream_flush_foot s Hs) as W. destruct (stream_flush s) as [o1 t1]. exact W. }
  destruct (do_call s c) as [o1 t1]. cbn [snd] in H1. specialize (IH t1 H1).
  destruct (run_calls t1 cs) as [rs t2]. exact IH.
Qed.

(* M4, the summary theorem: after any sequence of write / flush calls on a new stream
     tmp <= 18, the data state obeys M1, and
     footprint <= 18 + FOOT_CONST + bytes produced so far *)
Theorem stream_footprint_bounded o k cs : stream_foot_ok (snd (run_calls (stream_new o k) cs)).
Proof. apply StreamFoot_ok, run_calls_foot, stream_new_foot. Qed.
Print Assumptions stream_footprint_bounded.

(* ... and in every iteration of the decoding loop that the next write call (on [data], or on the
   staged tmp bytes) or finish call runs *)
Theorem stream_footprint_bounded_inner o k cs mode input n :
  match st_state (snd (run_calls (stream_new o k) cs)) with
  | Some (SData r) =>
      lzma_foot_ok (c_dict (rs_out r)) (c_mem (rs_out r))
        (res_state (iter_step n (pm_body mode) (mkLw (rs_dec r) (rs_rc r) input (WCirc (rs_out r)))))
  | _ => True
  end.
Proof.
  pose proof (run_calls_foot cs (stream_new o k) (stream_new_foot o k)) as [_ H].
  destruct (st_state _) as [[k0|r]|]; try exact I. apply stream_loop_footprint. exact H.
Qed.
Print Assumptions stream_footprint_bounded_inner.

(* a stream whose header announces dict_size = 2^32 - 1 and unpacked size 2^63 (or anything else)
   enters the data state with an empty window: the write call that completes the header leaves
   0 bytes of window, an empty partial input buffer and the tables *)
Theorem fresh_stream_allocates_nothing s k data r :
  st_state s = Some (SHeader k) ->
  st_state (snd (stream_write s data)) = Some (SData r) ->
  c_blen (rs_out r) = 0 /\ ds_pib (rs_dec r) = [] /\ run_footprint r <= 2 * TABS_MAX.
Proof.
  intros Es. rewrite stream_write_split, Es.
  destruct (0 <? nlen (st_tmp s)).
  - cbv zeta. set (n := N.min (nlen data) (MAX_TMP_LEN - nlen (st_tmp s))). clearbody n.
    destruct (stream_read_header k (cursor_of (st_tmp s ++ nfirstn n data)) (st_opts s)) as [[[k'|r']|e|p] ts] eqn:E.
    + destruct (_ =? _); cbn [snd st_state]; discriminate.
    + cbn [snd st_state]. intros H. inversion H; subst. destruct (stream_read_header_foot _ _ _ _ _ E) as (_ & H1 & H2 & H3). auto.
    + cbn [snd dead st_state]. discriminate.
    + cbn [snd dead st_state]. discriminate.
  - destruct (stream_read_header k (cursor_of data) (st_opts s)) as [[[k'|r']|e|p] ts] eqn:E.
    + destruct (_ =? _); cbn [snd st_state]; discriminate.
    + cbn [snd st_state]. intros H. inversion H; subst. destruct (stream_read_header_foot _ _ _ _ _ E) as (_ & H1 & H2 & H3). auto.
    + cbn [snd dead st_state]. discriminate.
    + cbn [snd dead st_state]. discriminate.
Qed.
Print Assumptions fresh_stream_allocates_nothing.
